import AlgoVerif.Proofs.C11Lists
import AlgoVerif.Spec.C11
/-!
# C11 — every table built by the SLR(1) / canonical LR(1) constructions of the Model passes the soundness validator

Part 1: invariants of CLOSURE, GOTO and the canonical collection of the complete-item-set automaton over the
augmented grammar: every item is a dotted production of `G′`; items of `S′` carry the endmarker; the first set of the
collection is the closure of the initial item (all dots at the left end), every other set is non-empty and contains
no item `S′ → •S`.  Part 2: after `BuildStateMap` the first set is state 0.
-/
namespace AlgoVerif.C11.Built
open AlgoVerif AlgoVerif.Gram AlgoVerif.C11 AlgoVerif.C11.Spec

/-- what `augment` produced, and the well-formedness of the original grammar it relies on -/
structure AugOK (g g' : SGrammar) : Prop where
  prodsEq : g'.prods = dedupProds g.prods ++ [{ head := g'.start, body := [Sym.nonterm g.start] }]
  fresh : g'.start ∉ g.nonterms
  startIn : g.start ∈ g.nonterms
  heads : ∀ p ∈ g.prods, p.head ∈ g.nonterms
  bodies : ∀ p ∈ g.prods, ∀ n, Sym.nonterm n ∈ p.body → n ∈ g.nonterms
  noEnd : ∀ p ∈ g.prods, Sym.term endmarker ∉ p.body

section
variable {g g' : SGrammar} (h : AugOK g g')
include h

def startProd (g g' : SGrammar) : Pr := { head := g'.start, body := [Sym.nonterm g.start] }

theorem mem_prods' {p : Pr} : p ∈ g'.prods ↔ p ∈ g.prods ∨ p = startProd g g' := by
  rw [h.prodsEq]; simp [mem_dedupProds, startProd]

theorem head_ne_of_mem {p : Pr} (hp : p ∈ g.prods) : p.head ≠ g'.start := by
  intro he; exact h.fresh (he ▸ h.heads p hp)

theorem eq_startProd {p : Pr} (hp : p ∈ g'.prods) (hh : p.head = g'.start) : p = startProd g g' := by
  rcases (mem_prods' h).mp hp with h1 | h1
  · exact absurd hh (head_ne_of_mem h h1)
  · exact h1

theorem mem_of_head_ne {p : Pr} (hp : p ∈ g'.prods) (hh : p.head ≠ g'.start) : p ∈ g.prods := by
  rcases (mem_prods' h).mp hp with h1 | h1
  · exact h1
  · exact absurd (by rw [h1]; rfl) hh

theorem body_nonterm_ne {p : Pr} (hp : p ∈ g'.prods) {n : String} (hn : Sym.nonterm n ∈ p.body) : n ≠ g'.start := by
  intro he
  rcases (mem_prods' h).mp hp with h1 | h1
  · exact h.fresh (he ▸ h.bodies p h1 n hn)
  · rw [h1] at hn
    simp [startProd] at hn
    exact h.fresh (he ▸ hn ▸ h.startIn)

theorem body_no_end {p : Pr} (hp : p ∈ g'.prods) : Sym.term endmarker ∉ p.body := by
  rcases (mem_prods' h).mp hp with h1 | h1
  · exact h.noEnd p h1
  · rw [h1]; simp [startProd]

theorem prodsOf_start : prodsOf g' g'.start = [startProd g g'] := by
  unfold prodsOf
  rw [h.prodsEq, List.filter_append]
  have : (dedupProds g.prods).filter (fun p => decide (p.head = g'.start)) = [] := by
    rw [List.filter_eq_nil_iff]
    intro p hp
    simpa using head_ne_of_mem h (mem_dedupProds.mp hp)
  rw [this]
  simp [startProd]

end

/-- every item is a dotted production of `G′`, and an item of `S′` has the endmarker (or no) lookahead -/
def Good (g' : SGrammar) (it : Item) : Prop :=
  it.prod ∈ g'.prods ∧ (it.prod.head = g'.start → laIsEnd it.la = true)

/-- the shape of an item added by CLOSURE -/
def Fresh0 (g' : SGrammar) (it : Item) : Prop := it.dot = 0 ∧ it.prod.head ≠ g'.start

theorem dotSym_mem {it : Item} {X : Sy} (hd : it.dotSym = some X) : X ∈ it.prod.body := by
  unfold Item.dotSym at hd
  exact List.mem_of_getElem? hd

theorem good_next {g' : SGrammar} {it : Item} (hg : Good g' it) : Good g' it.next := hg

theorem foldl_addFresh_mem (J : List Item) : ∀ (l acc : List Item) (j : Item),
    j ∈ l.foldl (addFresh J) acc → j ∈ acc ∨ j ∈ l
  | [], acc, j, hj => Or.inl (by simpa using hj)
  | x :: l, acc, j, hj => by
    simp only [List.foldl_cons] at hj
    rcases foldl_addFresh_mem J l _ j hj with h1 | h1
    · unfold addFresh at h1
      split at h1
      · exact Or.inl h1
      · rcases List.mem_append.mp h1 with h2 | h2
        · exact Or.inl h2
        · simp at h2; exact Or.inr (by simp [h2])
    · exact Or.inr (List.mem_cons_of_mem _ h1)

section
variable {g g' : SGrammar} (h : AugOK g g')
include h

theorem closureCands_spec (nl : List String) (fe : Env) {i j : Item} (hi : Good g' i)
    (hj : j ∈ closureCands g' nl fe i) : Good g' j ∧ Fresh0 g' j := by
  unfold closureCands at hj
  split at hj
  · rename_i B hd
    rw [List.mem_flatMap] at hj
    obtain ⟨p, hp, hj⟩ := hj
    have hpm : p ∈ g'.prods ∧ p.head = B := by
      simpa [prodsOf] using hp
    have hB : B ≠ g'.start := body_nonterm_ne h hi.1 (dotSym_mem hd)
    have key : j.prod = p ∧ j.dot = 0 := by
      split at hj
      · simp at hj; subst hj; exact ⟨rfl, rfl⟩
      · rw [List.mem_map] at hj
        obtain ⟨b, _, rfl⟩ := hj
        exact ⟨rfl, rfl⟩
    have hne : j.prod.head ≠ g'.start := by rw [key.1, hpm.2]; exact hB
    exact ⟨⟨by rw [key.1]; exact hpm.1, fun he => absurd he hne⟩, key.2, hne⟩
  · simp at hj

theorem closureNew_spec (nl : List String) (fe : Env) {J : List Item} (hJ : ∀ i ∈ J, Good g' i)
    {j : Item} (hj : j ∈ closureNew g' nl fe J) : Good g' j ∧ Fresh0 g' j := by
  unfold closureNew at hj
  rcases foldl_addFresh_mem J _ [] j hj with h1 | h1
  · simp at h1
  · rw [List.mem_flatMap] at h1
    obtain ⟨i, hi, hji⟩ := h1
    exact closureCands_spec h nl fe (hJ i hi) hji

theorem closure_spec (nl : List String) (fe : Env) : ∀ (fuel : Nat) (J K : List Item),
    closure g' nl fe fuel J = Outcome.ok K → (∀ i ∈ J, Good g' i) →
      (∀ it ∈ K, it ∈ J ∨ (Good g' it ∧ Fresh0 g' it)) ∧ (∀ i ∈ J, i ∈ K)
  | 0, J, K, hc, _ => by simp [closure] at hc
  | fuel + 1, J, K, hc, hJ => by
    unfold closure at hc
    split at hc
    · simp only [Outcome.ok.injEq] at hc
      subst hc
      exact ⟨fun it hit => Or.inl hit, fun i hi => hi⟩
    · rename_i new hnew
      have hnewSpec : ∀ j ∈ closureNew g' nl fe J, Good g' j ∧ Fresh0 g' j :=
        fun j hj => closureNew_spec h nl fe hJ hj
      have hJ' : ∀ i ∈ J ++ closureNew g' nl fe J, Good g' i := by
        intro i hi
        rcases List.mem_append.mp hi with h1 | h1
        · exact hJ i h1
        · exact (hnewSpec i h1).1
      obtain ⟨h1, h2⟩ := closure_spec nl fe fuel _ K hc hJ'
      refine ⟨?_, fun i hi => h2 i (List.mem_append_left _ hi)⟩
      intro it hit
      rcases h1 it hit with h3 | h3
      · rcases List.mem_append.mp h3 with h4 | h4
        · exact Or.inl h4
        · exact Or.inr (hnewSpec it h4)
      · exact Or.inr h3

end

theorem closure_nil (g : SGrammar) (nl : List String) (fe : Env) : ∀ (fuel : Nat) (K : List Item),
    closure g nl fe fuel [] = Outcome.ok K → K = []
  | 0, K, hc => by simp [closure] at hc
  | fuel + 1, K, hc => by
    unfold closure at hc
    have : closureNew g nl fe [] = [] := by simp [closureNew]
    rw [this] at hc
    simpa using hc.symm

theorem mem_advance {I : List Item} {X : Sy} {it : Item} :
    it ∈ advance I X ↔ ∃ i ∈ I, i.dotSym = some X ∧ it = i.next := by
  unfold advance
  suffices aux : ∀ (l acc : List Item),
      it ∈ l.foldl (fun acc i => if i.dotSym = some X then addNew acc i.next else acc) acc ↔
        it ∈ acc ∨ ∃ i ∈ l, i.dotSym = some X ∧ it = i.next by
    simpa using aux I []
  intro l
  induction l with
  | nil => intro acc; simp
  | cons x l ih =>
    intro acc
    simp only [List.foldl_cons, ih, List.mem_cons]
    by_cases hx : x.dotSym = some X
    · simp only [hx, if_true, mem_addNew]
      constructor
      · rintro ((h1 | h1) | ⟨i, hi, h2⟩)
        · exact Or.inl h1
        · exact Or.inr ⟨x, Or.inl rfl, hx, h1⟩
        · exact Or.inr ⟨i, Or.inr hi, h2⟩
      · rintro (h1 | ⟨i, (rfl | hi), h2⟩)
        · exact Or.inl (Or.inl h1)
        · exact Or.inl (Or.inr h2.2)
        · exact Or.inr ⟨i, hi, h2⟩
    · simp only [hx, if_false]
      constructor
      · rintro (h1 | ⟨i, hi, h2⟩)
        · exact Or.inl h1
        · exact Or.inr ⟨i, Or.inr hi, h2⟩
      · rintro (h1 | ⟨i, (rfl | hi), h2⟩)
        · exact Or.inl h1
        · exact absurd h2.1 hx
        · exact Or.inr ⟨i, hi, h2⟩


/-! ## GOTO and the canonical collection of the complete-item-set automaton -/

/-- every other set of the collection: non-empty, items of `G′`, no `S′ → •S` -/
def OtherType (g' : SGrammar) (I : List Item) : Prop :=
  I ≠ [] ∧ ∀ it ∈ I, Good g' it ∧ ¬ (it.prod.head = g'.start ∧ it.dot = 0)

/-- the first set: the closure of the initial item -/
def InitType (g' : SGrammar) (init : Item) (I : List Item) : Prop :=
  init ∈ I ∧ ∀ it ∈ I, Good g' it ∧ it.dot = 0 ∧ (it ≠ init → it.prod.head ≠ g'.start)

def Cinv (g' : SGrammar) (init : Item) (C : List (List Item)) : Prop :=
  ∃ I0 rest, C = I0 :: rest ∧ InitType g' init I0 ∧ ∀ J ∈ rest, OtherType g' J

theorem cinv_good {g' : SGrammar} {init : Item} {C : List (List Item)} (hC : Cinv g' init C) :
    ∀ I ∈ C, ∀ i ∈ I, Good g' i := by
  obtain ⟨I0, rest, rfl, h0, hr⟩ := hC
  intro I hI i hi
  rcases List.mem_cons.mp hI with rfl | hI
  · exact (h0.2 i hi).1
  · exact ((hr I hI).2 i hi).1

/-- GOTO of the automaton yields sets of the "other" type -/
def GotoOther (g' : SGrammar) (A : Auto) : Prop :=
  ∀ (I J : List Item) (X : Sy), A.goto I X = Outcome.ok J → (∀ i ∈ I, Good g' i) → J ≠ [] → OtherType g' J

theorem canonicalNew_spec {g' : SGrammar} {A : Auto} (hgo : GotoOther g' A) {C new : List (List Item)} (hC : ∀ I ∈ C, ∀ i ∈ I, Good g' i)
    (hn : canonicalNew A C = Outcome.ok new) : ∀ J ∈ new, OtherType g' J := by
  unfold canonicalNew at hn
  refine foldlM_inv _ (fun acc => ∀ J ∈ acc, OtherType g' J) C [] new ?_ (by simp) hn
  intro acc I acc' hI hacc hstep
  refine foldlM_inv _ (fun acc => ∀ J ∈ acc, OtherType g' J) _ acc acc' ?_ hacc hstep
  intro b X b' _ hb hstep'
  obtain ⟨J, hJ, hrest⟩ := bind_eq_ok hstep'
  split at hrest
  · rw [← pure_eq_ok hrest]; exact hb
  · rename_i hcond
    rw [← pure_eq_ok hrest]
    intro J' hJ'
    rcases List.mem_append.mp hJ' with h1 | h1
    · exact hb J' h1
    · simp at h1
      subst h1
      have hne : J' ≠ [] := by
        intro he; apply hcond; simp [he]
      exact hgo _ _ _ hJ (hC I hI) hne

theorem canonicalLoop_spec {g' : SGrammar} {A : Auto} (hgo : GotoOther g' A) (init : Item) : ∀ (fuel : Nat) (C C' : List (List Item)),
    Cinv g' init C → canonicalLoop A fuel C = Outcome.ok C' → Cinv g' init C'
  | 0, _, _, _, hc => by simp [canonicalLoop] at hc
  | fuel + 1, C, C', hC, hc => by
    unfold canonicalLoop at hc
    obtain ⟨new, hnew, hrest⟩ := bind_eq_ok hc
    split at hrest
    · rw [← pure_eq_ok hrest]; exact hC
    · have hspec := canonicalNew_spec hgo (cinv_good hC) hnew
      apply canonicalLoop_spec hgo init fuel (C ++ new) C' _ hrest
      obtain ⟨I0, rest, rfl, h0, hr⟩ := hC
      refine ⟨I0, rest ++ new, by simp, h0, ?_⟩
      intro J hJ
      rcases List.mem_append.mp hJ with h1 | h1
      · exact hr J h1
      · exact hspec J h1

section
variable {g g' : SGrammar} (h : AugOK g g') {A : Auto} (hAg : A.g = g') (hAk : A.kernel = false)
include h hAg hAk

theorem goto_spec {I J : List Item} {X : Sy} (hg : A.goto I X = Outcome.ok J) (hI : ∀ i ∈ I, Good g' i) :
    (∀ it ∈ J, (∃ i ∈ I, i.dotSym = some X ∧ it = i.next) ∨ (Good g' it ∧ Fresh0 g' it)) ∧
    (∀ i ∈ I, i.dotSym = some X → i.next ∈ J) ∧ (∀ it ∈ J, Good g' it) ∧ (advance I X = [] → J = []) := by
  unfold Auto.goto at hg
  simp only [hAk, Bool.false_eq_true, if_false] at hg
  unfold Auto.closure at hg
  rw [hAg] at hg
  have hadv : ∀ i ∈ advance I X, Good g' i := by
    intro i hi
    obtain ⟨i0, hi0, _, rfl⟩ := mem_advance.mp hi
    exact good_next (hI i0 hi0)
  obtain ⟨h1, h2⟩ := closure_spec h A.nl A.fe A.fuel _ J hg hadv
  refine ⟨?_, ?_, ?_, ?_⟩
  · intro it hit
    rcases h1 it hit with h3 | h3
    · exact Or.inl (mem_advance.mp h3)
    · exact Or.inr h3
  · intro i hi hd
    exact h2 _ (mem_advance.mpr ⟨i, hi, hd, rfl⟩)
  · intro it hit
    rcases h1 it hit with h3 | h3
    · exact hadv it h3
    · exact h3.1
  · intro hnil
    rw [hnil] at hg
    exact closure_nil _ _ _ _ _ hg

theorem goto_other {I J : List Item} {X : Sy} (hg : A.goto I X = Outcome.ok J) (hI : ∀ i ∈ I, Good g' i)
    (hne : J ≠ []) : OtherType g' J := by
  obtain ⟨h1, _, h3, _⟩ := goto_spec h hAg hAk hg hI
  refine ⟨hne, fun it hit => ⟨h3 it hit, ?_⟩⟩
  rcases h1 it hit with ⟨i, _, _, rfl⟩ | ⟨_, hf⟩
  · rintro ⟨_, hd⟩; simp [Item.next] at hd
  · rintro ⟨hh, _⟩; exact hf.2 hh

theorem goto_other_full : GotoOther g' A :=
  fun _ _ _ hg hI hne => goto_other h hAg hAk hg hI hne

omit hAk in
theorem initialItem_eq : A.initialItem =
    { prod := startProd g g', dot := 0, la := if A.lr1 then some endmarker else none } := by
  unfold Auto.initialItem
  rw [hAg, prodsOf_start h]
  rfl

theorem initialItem_good : Good g' A.initialItem := by
  rw [initialItem_eq h hAg]
  refine ⟨(mem_prods' h).mpr (Or.inr rfl), fun _ => ?_⟩
  by_cases hl : A.lr1 = true <;> simp [hl, laIsEnd]

theorem canonical_spec {C : List (List Item)} (hc : A.canonical = Outcome.ok C) : Cinv g' A.initialItem C := by
  unfold Auto.canonical at hc
  obtain ⟨I0, hI0, hrest⟩ := bind_eq_ok hc
  simp only [hAk, Bool.false_eq_true, if_false] at hI0
  unfold Auto.closure at hI0
  rw [hAg] at hI0
  have hgood := initialItem_good h hAg hAk
  obtain ⟨h1, h2⟩ := closure_spec h A.nl A.fe A.fuel [A.initialItem] I0 hI0 (by
    intro i hi; simp at hi; subst hi; exact hgood)
  apply canonicalLoop_spec (goto_other_full h hAg hAk) A.initialItem A.fuel [I0] C _ hrest
  refine ⟨I0, [], rfl, ⟨h2 _ (by simp), ?_⟩, by simp⟩
  intro it hit
  rcases h1 it hit with h3 | ⟨hg, hf⟩
  · simp at h3
    subst h3
    refine ⟨hgood, ?_, fun hne => absurd rfl hne⟩
    rw [initialItem_eq h hAg]
  · exact ⟨hg, hf.1, fun _ => hf.2⟩

end


/-! ## `BuildStateMap`: the closure of the initial item becomes state 0 -/

theorem isInitial_false {start : String} {it : Item} (hn : ¬ (it.prod.head = start ∧ it.dot = 0)) :
    it.isInitial start = false := by
  unfold Item.isInitial
  by_cases h1 : it.prod.head = start
  · have : it.dot ≠ 0 := fun h2 => hn ⟨h1, h2⟩
    simp [h1, this]
  · simp [h1]

theorem cmpItem_init_lt {start : String} {a b : Item} (ha : a.isInitial start = true)
    (hb : b.isInitial start = false) : cmpItem start a b = -1 ∧ cmpItem start b a = 1 := by
  unfold cmpItem
  simp [ha, hb]

/-- the facts about the sorted state map the validator needs -/
structure StatesOK (g' : SGrammar) (S : StateMap) : Prop where
  ne : S ≠ []
  zeroNe : S.getD 0 [] ≠ []
  zero : ∀ it ∈ S.getD 0 [], Good g' it ∧ it.dot = 0
  others : ∀ (i : Nat) (I : List Item), 0 < i → S[i]? = some I →
    ∀ it ∈ I, Good g' it ∧ ¬ (it.prod.head = g'.start ∧ it.dot = 0)

/-- like `OtherType`, but the set may be empty (an LALR kernel whose items received no lookahead) -/
def OtherK (g' : SGrammar) (I : List Item) : Prop :=
  ∀ it ∈ I, Good g' it ∧ ¬ (it.prod.head = g'.start ∧ it.dot = 0)

def CinvK (g' : SGrammar) (init : Item) (C : List (List Item)) : Prop :=
  ∃ I0 rest, C = I0 :: rest ∧ InitType g' init I0 ∧ ∀ J ∈ rest, OtherK g' J

theorem cinvK_of_cinv {g' : SGrammar} {init : Item} {C : List (List Item)} (hC : Cinv g' init C) : CinvK g' init C := by
  obtain ⟨I0, rest, rfl, h0, hr⟩ := hC
  exact ⟨I0, rest, rfl, h0, fun J hJ => (hr J hJ).2⟩

theorem stateMap_specK' {g' : SGrammar} {init : Item} {I0 : List Item} {rest : List (List Item)}
    (hinit : init.isInitial g'.start = true) (h0 : InitType g' init I0) (hr : ∀ J ∈ rest, OtherK g' J) :
    StatesOK g' (buildStateMap g'.start (I0 :: rest)) ∧
      ∃ tail, buildStateMap g'.start (I0 :: rest) = sortBy (cmpItem g'.start) I0 :: tail ∧
        ∀ I ∈ tail, ∃ J ∈ rest, I = sortBy (cmpItem g'.start) J := by
  unfold buildStateMap
  -- the sorted first set starts with the initial item
  have hx : (sortBy (cmpItem g'.start) I0).head? = some init := by
    apply head_sortBy _ _ _ h0.1
    intro y hy hne
    have hyi : y.isInitial g'.start = false :=
      isInitial_false (fun hh => (h0.2 y hy).2.2 hne hh.1)
    have := cmpItem_init_lt hinit hyi
    rw [this.1, this.2]; decide
  obtain ⟨xs, hxs⟩ : ∃ xs, sortBy (cmpItem g'.start) I0 = init :: xs := by
    cases hs : sortBy (cmpItem g'.start) I0 with
    | nil => rw [hs] at hx; simp at hx
    | cons a as => rw [hs] at hx; simp at hx; exact ⟨as, by rw [hx]⟩
  -- it dominates every other sorted set
  have hdom : Dominates (cmpItemLists g'.start) (sortBy (cmpItem g'.start) I0)
      (List.map (sortBy (cmpItem g'.start)) (I0 :: rest)) := by
    intro y hy hne
    simp only [List.map_cons, List.mem_cons, List.mem_map] at hy
    rcases hy with rfl | ⟨J, hJ, rfl⟩
    · exact absurd rfl hne
    · have hJitems := hr J hJ
      cases hs : sortBy (cmpItem g'.start) J with
      | nil =>
        rw [hxs]
        simp only [cmpItemLists]
        decide
      | cons b bs =>
        have hb : b ∈ J := (mem_sortBy _ J b).mp (by rw [hs]; simp)
        have hbi : b.isInitial g'.start = false := isInitial_false (hJitems b hb).2
        have := cmpItem_init_lt hinit hbi
        rw [hxs]
        simp only [cmpItemLists, this.1, this.2]
        have e1 : ((-1 : Int) ≠ 0) := by decide
        have e2 : ((1 : Int) ≠ 0) := by decide
        simp only [e1, e2, if_true, ne_eq, not_false_eq_true]
        decide
  have hhead := head_sortBy (cmpItemLists g'.start) _ _ (by simp) hdom
  obtain ⟨tail, htail⟩ : ∃ tail, sortBy (cmpItemLists g'.start) (List.map (sortBy (cmpItem g'.start)) (I0 :: rest))
      = sortBy (cmpItem g'.start) I0 :: tail := by
    cases hs : sortBy (cmpItemLists g'.start) (List.map (sortBy (cmpItem g'.start)) (I0 :: rest)) with
    | nil => rw [hs] at hhead; simp at hhead
    | cons a as => rw [hs] at hhead; simp at hhead; exact ⟨as, by rw [hhead]⟩
  have hperm : tail.Perm (rest.map (sortBy (cmpItem g'.start))) := by
    have := sortBy_perm (cmpItemLists g'.start) (List.map (sortBy (cmpItem g'.start)) (I0 :: rest))
    rw [htail, List.map_cons] at this
    exact List.Perm.cons_inv this
  rw [htail]
  refine ⟨⟨by simp, by simp [hxs], ?_, ?_⟩, tail, rfl, ?_⟩
  rotate_left 2
  · intro I hI
    have := hperm.mem_iff.mp hI
    rw [List.mem_map] at this
    obtain ⟨J, hJ, rfl⟩ := this
    exact ⟨J, hJ, rfl⟩
  · intro it hit
    simp only [List.getD_cons_zero] at hit
    have := (mem_sortBy _ I0 it).mp hit
    exact ⟨(h0.2 it this).1, (h0.2 it this).2.1⟩
  · intro i I hi hI it hit
    cases i with
    | zero => omega
    | succ i =>
      simp only [List.getElem?_cons_succ] at hI
      have hImem : I ∈ tail := List.mem_of_getElem? hI
      have := hperm.mem_iff.mp hImem
      rw [List.mem_map] at this
      obtain ⟨J, hJ, rfl⟩ := this
      exact hr J hJ it ((mem_sortBy _ J it).mp hit)

theorem stateMap_specK {g' : SGrammar} {init : Item} {C : List (List Item)} (hinit : init.isInitial g'.start = true)
    (hC : CinvK g' init C) : StatesOK g' (buildStateMap g'.start C) := by
  obtain ⟨I0, rest, rfl, h0, hr⟩ := hC
  exact (stateMap_specK' hinit h0 hr).1

theorem stateMap_spec {g' : SGrammar} {init : Item} {C : List (List Item)} (hinit : init.isInitial g'.start = true)
    (hC : Cinv g' init C) : StatesOK g' (buildStateMap g'.start C) :=
  stateMap_specK hinit (cinvK_of_cinv hC)

theorem statesOK_good {g' : SGrammar} {S : StateMap} (hS : StatesOK g' S) :
    ∀ (i : Nat) (I : List Item), S[i]? = some I → ∀ it ∈ I, Good g' it := by
  intro i I hI it hit
  cases i with
  | zero =>
    have : S.getD 0 [] = I := by simp [List.getD, hI]
    exact (hS.zero it (this ▸ hit)).1
  | succ i => exact (hS.others (i + 1) I (by omega) hI it hit).1

end AlgoVerif.C11.Built
