import AlgoVerif.Proofs.C08LeftRecMain
/-!
# A structural certificate for "no left recursion" (C09, `EliminateLeftRecursion`)

If a ranking of the non-terminals exists such that every production body that begins with a non-terminal
`Y` has `Y` dead (no production) or `rank Y > rank head` with all `Y`-productions non-empty, then no
`A ⇒⁺ A α` exists: the first symbol of a sentential form derived from `A` is, after the first step, a
terminal, a dead non-terminal, or a non-terminal of larger rank that cannot vanish — for ever.
-/
set_option linter.unusedSectionVars false
namespace AlgoVerif.C08
open AlgoVerif AlgoVerif.Gram AlgoVerif.C08.Spec AlgoVerif.C09.Spec

/-- no production has head `Y` -/
def Dead (g : G) (Y : String) : Prop := ∀ q ∈ g.prods, q.head ≠ Y

/-- every `Y`-production has a non-empty body -/
def NonEmptyProds (g : G) (Y : String) : Prop := ∀ q ∈ g.prods, q.head = Y → q.body ≠ []

structure LRCert (g : G) (rank : String → Nat) : Prop where
  first : ∀ p ∈ g.prods, ∀ Y rest, p.body = Sym.nonterm Y :: rest →
    Dead g Y ∨ (rank p.head < rank Y ∧ NonEmptyProds g Y)

/-- what the first symbol of a form can be once the derivation has left `A` (threshold `r = rank A + 1`) -/
def FirstOK (g : G) (rank : String → Nat) (r : Nat) : SSym → Prop
  | .term _ => True
  | .nonterm Z => Dead g Z ∨ (r ≤ rank Z ∧ NonEmptyProds g Z)

theorem firstOK_track {g : G} {rank : String → Nat} (hc : LRCert g rank) (r : Nat) {α γ : List SSym}
    (d : Derives g α γ) : ∀ s rest, α = s :: rest → FirstOK g rank r s →
      ∃ s' rest', γ = s' :: rest' ∧ FirstOK g rank r s' := by
  induction d with
  | refl => intro s rest h hs; exact ⟨s, rest, h, hs⟩
  | tail _ st ih =>
    intro s rest h hs
    obtain ⟨s', rest', hβ, hs'⟩ := ih s rest h hs
    cases st with
    | mk u v q hq =>
      have hx := hβ
      cases u with
      | nil =>
        simp at hx
        obtain ⟨hx1, hx2⟩ := hx
        subst hx1
        -- the first symbol itself is rewritten
        have hq' : ¬ Dead g q.head := fun hd => hd q hq rfl
        rcases hs' with hd | ⟨hr, hne⟩
        · exact absurd hd hq'
        · cases hb : q.body with
          | nil => exact absurd hb (hne q hq rfl)
          | cons s'' b =>
            refine ⟨s'', b ++ v, by simp [hb], ?_⟩
            cases s'' with
            | term t => trivial
            | nonterm Y =>
              rcases hc.first q hq Y b hb with hd | ⟨h1, h2⟩
              · exact Or.inl hd
              · exact Or.inr ⟨by omega, h2⟩
      | cons c u' =>
        simp at hx
        obtain ⟨hx1, _⟩ := hx
        subst hx1
        exact ⟨c, u' ++ q.body ++ v, by simp, hs'⟩

theorem noLeftRecursion_of_cert {g : G} {rank : String → Nat} (hc : LRCert g rank) : NoLeftRecursion g := by
  intro A α ⟨γ, st, d⟩
  obtain ⟨p, hp, hpA, rfl⟩ := st.of_single
  cases hb : p.body with
  | nil =>
    rw [hb] at d
    obtain ⟨n, dn⟩ := d.toDerivesIn
    have := (derivesIn_of_terminal Terminal.nil dn).2
    cases this
  | cons s b =>
    rw [hb] at d
    have hs : FirstOK g rank (rank A + 1) s := by
      cases s with
      | term t => trivial
      | nonterm Y =>
        rcases hc.first p hp Y b hb with hd | ⟨h1, h2⟩
        · exact Or.inl hd
        · exact Or.inr ⟨by rw [hpA] at h1; omega, h2⟩
    obtain ⟨s', rest', he, hs'⟩ := firstOK_track hc (rank A + 1) d s b rfl hs
    simp at he
    obtain ⟨he1, _⟩ := he
    subst he1
    rcases hs' with hd | ⟨hr, _⟩
    · exact hd p hp hpA
    · omega

theorem LRCert.mono {g g' : G} {rank : String → Nat} (hc : LRCert g rank) (hsub : ∀ p ∈ g'.prods, p ∈ g.prods) :
    LRCert g' rank := by
  constructor
  intro p hp Y rest hb
  rcases hc.first p (hsub p hp) Y rest hb with hd | ⟨h1, h2⟩
  · exact Or.inl fun q hq => hd q (hsub q hq)
  · exact Or.inr ⟨h1, fun q hq => h2 q (hsub q hq)⟩

end AlgoVerif.C08
