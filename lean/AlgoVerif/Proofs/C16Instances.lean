import AlgoVerif.Driver.C16
import AlgoVerif.Proofs.C16Partitions
/-!
# C16: the callbacks the driver runs the Model with are lawful (non-vacuity of the theorems' hypotheses)
-/
namespace AlgoVerif.C16
open AlgoVerif.C16.Driver
variable {α : Type}

theorem eqI_law : EqLaw (fun _ => True) Eq eqI := by
  intro a b _ _
  exact ⟨a == b, rfl, by simp⟩

def signAsc (a b : Int) : Int := if a < b then -1 else if a > b then 1 else 0
def signDesc (a b : Int) : Int := if a < b then 1 else if a > b then -1 else 0

theorem cmpAsc_law : CmpLaw (fun _ => True) Eq cmpAsc := by
  refine ⟨signAsc, fun _ _ _ _ => rfl, ?_, ?_, ?_⟩ <;> intros <;> simp only [signAsc] at * <;>
    (repeat' split) <;> omega

theorem cmpDesc_law : CmpLaw (fun _ => True) Eq cmpDesc := by
  refine ⟨signDesc, fun _ _ _ _ => rfl, ?_, ?_, ?_⟩ <;> intros <;> simp only [signDesc] at * <;>
    (repeat' split) <;> omega

/-- comparators returning the difference instead of its sign are lawful too -/
theorem cmpSub_law : CmpLaw (fun _ => True) Eq cmpSub := by
  refine ⟨fun a b => a - b, fun _ _ _ _ => rfl, ?_, ?_, ?_⟩ <;> intros <;> simp only at * <;> omega

theorem cmpSub7_law : CmpLaw (fun _ => True) Eq cmpSub7 := by
  refine ⟨fun a b => 7 * (a - b), fun _ _ _ _ => rfl, ?_, ?_, ?_⟩ <;> intros <;> simp only at * <;> omega

theorem cmpRevSub_law : CmpLaw (fun _ => True) Eq cmpRevSub := by
  refine ⟨fun a b => b - a, fun _ _ _ _ => rfl, ?_, ?_, ?_⟩ <;> intros <;> simp only at * <;> omega

/-- the identity "shuffle" -/
def idShuffle : Shuffle Unit := fun n g => (List.range n, g)

theorem idShuffle_law : ShLaw idShuffle := fun _ _ => List.Perm.refl _

/-- a reversing "shuffle" (a lawful one that is not the identity) -/
def revShuffle : Shuffle Unit := fun n g => ((List.range n).reverse, g)

theorem revShuffle_law : ShLaw revShuffle := fun _ _ => List.reverse_perm _

theorem wf0_unordered {equal : EqualFunc α} (hl : EqLaw (fun _ => True) Eq equal) {l : List α} (hnd : l.Nodup) :
    WF0 (⟨.unordered equal, l⟩ : MSet α) :=
  ⟨fun _ _ => trivial, hnd, hl, fun _ h => by cases h⟩

theorem wf0_stable {equal : EqualFunc α} (hl : EqLaw (fun _ => True) Eq equal) {l : List α} (hnd : l.Nodup) :
    WF0 (⟨.stable equal, l⟩ : MSet α) :=
  ⟨fun _ _ => trivial, hnd, hl, fun _ h => by cases h⟩

theorem wf0_sorted {compare : CompareFunc α} (hl : CmpLaw (fun _ => True) Eq compare) {l : List α}
    (hs : SortedBy compare l) : WF0 (⟨.sorted compare, l⟩ : MSet α) := by
  refine ⟨fun _ _ => trivial, ?_, hl, fun c h => by cases h; exact hs⟩
  obtain ⟨c, hc, hc0, _, _⟩ := hl
  refine List.Pairwise.imp ?_ hs
  rintro a b ⟨c', h, hlt⟩ hab
  rw [hc a b trivial trivial] at h
  cases h
  have := (hc0 a b).2 hab
  omega

theorem wf0_new {impl : Impl α} (hl : ImplLaw (fun _ => True) Eq impl) : WF0 (MSet.new impl) :=
  ⟨by simp [MSet.new], by simp [MSet.new], hl, fun _ _ => by simp [MSet.new, SortedBy]⟩

theorem sortedBy_cmpAsc {l : List Int} (h : l.Pairwise (· < ·)) : SortedBy cmpAsc l := by
  refine List.Pairwise.imp ?_ h
  intro a b hab
  exact ⟨-1, by simp [cmpAsc, hab], by omega⟩

theorem sortedBy_cmpDesc {l : List Int} (h : l.Pairwise (· > ·)) : SortedBy cmpDesc l := by
  refine List.Pairwise.imp ?_ h
  intro a b hab
  refine ⟨-1, ?_, by omega⟩
  have h1 : ¬ a < b := by omega
  simp [cmpDesc, h1, hab]

/-! ### the driver's mirror of `math/rand`'s Shuffle is a lawful shuffle (it only swaps) -/

theorem swapIfInBounds_perm (a : Array Nat) (i j : Nat) : (a.swapIfInBounds i j).Perm a := by
  unfold Array.swapIfInBounds
  split
  · split
    · exact Array.swap_perm _ _
    · exact Array.Perm.refl _
  · exact Array.Perm.refl _

theorem shuffleLoop_perm : ∀ (i : Nat) (a : Array Nat) (g : UInt32), (shuffleLoop i a g).1.Perm a
  | 0, a, _ => Array.Perm.refl a
  | i + 1, a, g => by
    unfold shuffleLoop
    exact (shuffleLoop_perm i _ _).trans (swapIfInBounds_perm a _ _)

theorem shuffle_law : ShLaw Driver.shuffle := by
  intro n g
  have := shuffleLoop_perm (n - 1) (Array.range n) g
  rw [Array.perm_iff_toList_perm, Array.toList_range] at this
  exact this

/-! ### four non-trivial states used by the `example`s next to the property theorems -/

def exUnordered : MSet Int := ⟨.unordered eqI, [4, 1, 3]⟩
def exStable : MSet Int := ⟨.stable eqI, [5, 1, 4]⟩
def exAsc : MSet Int := ⟨.sorted cmpAsc, [1, 3, 5]⟩
def exDesc : MSet Int := ⟨.sorted cmpDesc, [6, 3, 2]⟩

def exSub7 : MSet Int := ⟨.sorted cmpSub7, [-2, 0, 9]⟩
theorem exSub7_wf : WF0 exSub7 := by
  refine wf0_sorted cmpSub7_law ?_
  refine List.Pairwise.imp (R := (· < ·)) ?_ (by simp)
  intro a b hab
  exact ⟨7 * (a - b), rfl, by omega⟩

theorem exUnordered_wf : WF0 exUnordered := wf0_unordered eqI_law (by decide)
theorem exStable_wf : WF0 exStable := wf0_stable eqI_law (by decide)
theorem exAsc_wf : WF0 exAsc := wf0_sorted cmpAsc_law (sortedBy_cmpAsc (by simp))
theorem exDesc_wf : WF0 exDesc := wf0_sorted cmpDesc_law (sortedBy_cmpDesc (by simp))

end AlgoVerif.C16
