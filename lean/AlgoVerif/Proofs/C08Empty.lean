import AlgoVerif.Proofs.C08Single
/-!
# `EliminateEmptyProductions`: nullable soundness, the expanded bodies, soundness, no ε-production
-/
namespace AlgoVerif.C08
open AlgoVerif AlgoVerif.Gram AlgoVerif.C08.Spec

/-- every recorded non-terminal derives ε -/
def NullSound (g : G) (nul : List String) : Prop := ∀ n ∈ nul, Derives g [Sym.nonterm n] []

theorem bodyAllIn_derives_nil {g : G} {nul : List String} (hn : NullSound g nul) :
    ∀ b : List SSym, bodyAllIn nul b = true → Derives g b [] := by
  intro b
  induction b with
  | nil => intro _; exact Derives.refl _
  | cons s b ih =>
    intro h
    unfold bodyAllIn at h
    simp only [List.all_cons, Bool.and_eq_true] at h
    obtain ⟨h1, h2⟩ := h
    cases s with
    | term t => simp at h1
    | nonterm n =>
      have hn' : n ∈ nul := by simpa using h1
      have := Derives.append (hn n hn') (ih (by unfold bodyAllIn; exact h2))
      simpa using this

theorem nullablePass_sound {g : G} {nul : List String} (hn : NullSound g nul) :
    NullSound g (nullablePass g.prods nul) := by
  unfold nullablePass
  refine foldl_inv (NullSound g) _ g.prods ?_ nul hn
  intro acc p hp hacc
  split
  · exact hacc
  · split
    · rename_i hb
      intro n hn'
      rcases List.mem_append.mp hn' with hn' | hn'
      · exact hacc n hn'
      · simp at hn'
        subst hn'
        exact (Derives.of_prod hp).trans (bodyAllIn_derives_nil hacc _ hb)
    · exact hacc

theorem nullable_sound {g : G} {nul : List String} (h : nullable g = .ok nul) : NullSound g nul := by
  unfold nullable at h
  exact iterFix_inv _ (NullSound g) (fun _ => nullablePass_sound) _ _ _ (by intro n hn; cases hn) (ofOpt_ok h)

/-- one step of `expandBody` -/
def expandStep (nul : List String) (bodies : List (List SSym)) (sym : SSym) : List (List SSym) :=
  let nn : Bool := match sym with
    | .nonterm n => decide (n ∈ nul)
    | .term _ => false
  bodies.flatMap (fun β => if nn then [β, β ++ [sym]] else [β ++ [sym]])

theorem expandBody_eq (nul : List String) (body : List SSym) :
    expandBody nul body = body.foldl (expandStep nul) [[]] := rfl

theorem expandBody_aux {g : G} {nul : List String} (hn : NullSound g nul) :
    ∀ (rest pre : List SSym) (bodies : List (List SSym)),
      (∀ β ∈ bodies, Derives g pre β ∧ ∀ s ∈ β, s ∈ pre) →
      ∀ β ∈ rest.foldl (expandStep nul) bodies, Derives g (pre ++ rest) β ∧ ∀ s ∈ β, s ∈ pre ++ rest := by
  intro rest
  induction rest with
  | nil => intro pre bodies h β hβ; simpa using h β hβ
  | cons sym rest ih =>
    intro pre bodies h β hβ
    simp only [List.foldl_cons] at hβ
    have := ih (pre ++ [sym]) (expandStep nul bodies sym) ?_ β hβ
    · simpa [List.append_assoc] using this
    · intro β' hβ'
      unfold expandStep at hβ'
      obtain ⟨β0, hβ0, hβ'⟩ := List.mem_flatMap.mp hβ'
      obtain ⟨hd, hs⟩ := h β0 hβ0
      have keep : Derives g (pre ++ [sym]) (β0 ++ [sym]) ∧ ∀ s ∈ β0 ++ [sym], s ∈ pre ++ [sym] := by
        refine ⟨Derives.append hd (Derives.refl _), ?_⟩
        intro s hs'
        rcases List.mem_append.mp hs' with h' | h'
        · exact List.mem_append.mpr (Or.inl (hs s h'))
        · exact List.mem_append.mpr (Or.inr h')
      cases sym with
      | term t =>
        simp at hβ'
        subst hβ'
        exact keep
      | nonterm n =>
        by_cases hn' : n ∈ nul
        · simp [hn'] at hβ'
          rcases hβ' with rfl | rfl
          · -- the symbol is dropped: it derives ε
            refine ⟨?_, fun s hs' => List.mem_append.mpr (Or.inl (hs s hs'))⟩
            have := Derives.append hd (hn n hn')
            simpa using this
          · exact keep
        · simp [hn'] at hβ'
          subst hβ'
          exact keep

theorem expandBody_spec {g : G} {nul : List String} (hn : NullSound g nul) (body : List SSym) :
    ∀ β ∈ expandBody nul body, Derives g body β ∧ ∀ s ∈ β, s ∈ body := by
  intro β hβ
  rw [expandBody_eq] at hβ
  have := expandBody_aux hn body [] [[]] (by intro β hβ; simp at hβ; subst hβ; exact ⟨Derives.refl _, by simp⟩) β hβ
  simpa using this

/-- what `emptyFreeProds` contains: non-empty variants of bodies of `g` -/
def EmptyInv (g : G) (acc : List SProd) : Prop :=
  ∀ p' ∈ acc, p'.body ≠ [] ∧ ∃ p ∈ g.prods, p.head = p'.head ∧ Derives g p.body p'.body ∧ ∀ s ∈ p'.body, s ∈ p.body

theorem emptyFreeProds_spec {g : G} {nul : List String} (hn : NullSound g nul) :
    EmptyInv g (emptyFreeProds nul g.prods) := by
  unfold emptyFreeProds
  refine foldl_inv (EmptyInv g) _ g.prods ?_ [] (by intro p hp; cases hp)
  intro acc p hp hacc
  split
  · exact hacc
  · refine foldl_inv (EmptyInv g) _ (expandBody nul p.body) ?_ acc hacc
    intro acc β hβ hacc
    split
    · exact hacc
    · rename_i hne
      intro p' hp'
      rcases mem_ins.mp hp' with hp' | rfl
      · exact hacc p' hp'
      · obtain ⟨hd, hs⟩ := expandBody_spec hn p.body β hβ
        exact ⟨by simpa using hne, p, hp, rfl, hd, hs⟩

/-- the two shapes of the result -/
theorem elimEmpty_ok {g g' : G} (h : elimEmpty g = .ok g') :
    ∃ nul, nullable g = .ok nul ∧
      ((g.start ∉ nul ∧ g' = prune { g with prods := emptyFreeProds nul g.prods }) ∨
       (g.start ∈ nul ∧ ∃ s', s' ∉ g.nonterms ∧
          g' = prune { terms := g.terms, nonterms := g.nonterms ++ [s'], start := s',
                       prods := ins (ins (emptyFreeProds nul g.prods) { head := s', body := [Sym.nonterm g.start] })
                                  { head := s', body := [] } })) := by
  unfold elimEmpty at h
  cases hn : nullable g with
  | ok nul =>
    simp only [hn, bind, Outcome.bind] at h
    refine ⟨nul, rfl, ?_⟩
    split at h
    · rename_i hs
      right
      refine ⟨hs, ?_⟩
      cases ha : addNew { g with prods := emptyFreeProds nul g.prods } g.start primes with
      | ok r =>
        obtain ⟨g2, s'⟩ := r
        simp only [ha, pure] at h
        cases h
        obtain ⟨hf, rfl⟩ := addNew_ok ha
        exact ⟨s', hf, rfl⟩
      | panic => simp [ha] at h
      | diverge => simp [ha] at h
    · rename_i hs
      left
      simp only [pure] at h
      cases h
      exact ⟨hs, rfl⟩
  | panic => simp [hn, bind, Outcome.bind] at h
  | diverge => simp [hn, bind, Outcome.bind] at h

theorem elimEmpty_sound {g g' : G} (h : elimEmpty g = .ok g') (hv : WellFormed g) {w : List String}
    (hw : Language g' w) : Language g w := by
  obtain ⟨nul, hn, hcase⟩ := elimEmpty_ok h
  have hns := nullable_sound hn
  have hspec := emptyFreeProds_spec (g := g) hns
  have hder : ∀ p' ∈ emptyFreeProds nul g.prods, Derives g [Sym.nonterm p'.head] p'.body := by
    intro p' hp'
    obtain ⟨_, p, hp, hh, hd, _⟩ := hspec p' hp'
    exact hh ▸ (Derives.of_prod hp).trans hd
  rcases hcase with ⟨_, rfl⟩ | ⟨hs, s', hf, rfl⟩
  · unfold Language at hw ⊢
    rw [prune_start] at hw
    refine Derives.of_derivable_prods ?_ hw
    intro p hp
    exact hder p (prune_prods_subset _ p hp)
  · rw [prune_language] at hw
    have hne : g.start ≠ s' := fun e => hf (e ▸ hv.1)
    refine Language.of_fresh_start (g := g) rfl ?_ hw
    intro p hp
    rcases mem_ins.mp hp with hp | rfl
    · rcases mem_ins.mp hp with hp | rfl
      · obtain ⟨_, q, hq, hh, _, hsub⟩ := hspec p hp
        obtain ⟨h1, h2⟩ := WellFormed.fresh_not_in hv hf q hq
        exact ⟨fun hm => h2 (hsub _ hm), Or.inl ⟨hh ▸ h1, hder p hp⟩⟩
      · exact ⟨by simpa using fun e => hne e.symm, Or.inr ⟨rfl, Derives.refl _⟩⟩
    · exact ⟨by simp, Or.inr ⟨rfl, hns _ hs⟩⟩

end AlgoVerif.C08
