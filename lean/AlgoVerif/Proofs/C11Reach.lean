import AlgoVerif.Proofs.C11BuiltCompleteAuto
/-!
# C11 — induction along the way `Canonical` found the item sets

Every set of the collection other than the first one was produced as `GOTO(I, X)` of a set `I` of the collection
(`canonical_reach`); the collection contains its first set and only grows.
-/
namespace AlgoVerif.C11.Lalr
open AlgoVerif AlgoVerif.Gram AlgoVerif.C11 AlgoVerif.C11.Spec AlgoVerif.C11.Built AlgoVerif.C11.BuiltComplete

/-- where a new set comes from -/
theorem canonicalNew_src {A : Auto} {C new : List (List Item)} (hn : canonicalNew A C = Outcome.ok new) :
    ∀ J ∈ new, ∃ I ∈ C, ∃ X ∈ allSymbols A.g, A.goto I X = Outcome.ok J ∧ J ≠ [] := by
  unfold canonicalNew at hn
  refine foldlM_inv _ (fun acc => ∀ J ∈ acc, ∃ I ∈ C, ∃ X ∈ allSymbols A.g, A.goto I X = Outcome.ok J ∧ J ≠ [])
    C [] new ?_ (by simp) hn
  intro acc I acc' hI hacc hstep
  refine foldlM_inv _ (fun acc => ∀ J ∈ acc, ∃ I ∈ C, ∃ X ∈ allSymbols A.g, A.goto I X = Outcome.ok J ∧ J ≠ [])
    _ acc acc' ?_ hacc hstep
  intro b X b' hX hb hstep'
  obtain ⟨J, hJ, hrest⟩ := bind_eq_ok hstep'
  split at hrest
  · rw [← pure_eq_ok hrest]; exact hb
  · rename_i hcond
    rw [← pure_eq_ok hrest]
    intro J' hJ'
    rcases List.mem_append.mp hJ' with h1 | h1
    · exact hb J' h1
    · simp only [List.mem_singleton] at h1
      subst h1
      have hne : J' ≠ [] := by
        intro he; apply hcond; simp [he]
      exact ⟨I, hI, X, hX, hJ, hne⟩

theorem canonicalLoop_ext (A : Auto) : ∀ (fuel : Nat) (C C' : List (List Item)),
    canonicalLoop A fuel C = Outcome.ok C' → ∃ r, C' = C ++ r
  | 0, _, _, hc => by simp [canonicalLoop] at hc
  | fuel + 1, C, C', hc => by
    unfold canonicalLoop at hc
    obtain ⟨new, _, hrest⟩ := bind_eq_ok hc
    split at hrest
    · exact ⟨[], by rw [← pure_eq_ok hrest]; simp⟩
    · obtain ⟨r, hr⟩ := canonicalLoop_ext A fuel (C ++ new) C' hrest
      exact ⟨new ++ r, by rw [hr]; simp⟩

theorem canonicalLoop_reach {A : Auto} (P : List Item → Prop) : ∀ (fuel : Nat) (C C' : List (List Item)),
    canonicalLoop A fuel C = Outcome.ok C' → (∀ I ∈ C, P I) →
    (∀ I ∈ C', P I → ∀ X ∈ allSymbols A.g, ∀ J, A.goto I X = Outcome.ok J → J ≠ [] → J ∈ C' → P J) →
    ∀ I ∈ C', P I
  | 0, _, _, hc, _, _ => by simp [canonicalLoop] at hc
  | fuel + 1, C, C', hc, hC, hstep => by
    have hc0 := hc
    unfold canonicalLoop at hc
    obtain ⟨new, hnew, hrest⟩ := bind_eq_ok hc
    split at hrest
    · rw [← pure_eq_ok hrest]; exact hC
    · obtain ⟨r, hr⟩ := canonicalLoop_ext A fuel (C ++ new) C' hrest
      apply canonicalLoop_reach P fuel (C ++ new) C' hrest _ hstep
      intro J hJ
      rcases List.mem_append.mp hJ with h1 | h1
      · exact hC J h1
      · obtain ⟨I, hI, X, hX, hgo, hne⟩ := canonicalNew_src hnew J h1
        have hIC' : I ∈ C' := by rw [hr]; simp [hI]
        have hJC' : J ∈ C' := by rw [hr]; simp [h1]
        exact hstep I hIC' (hC I hI) X hX J hgo hne hJC'

/-- the first set of the collection, and induction from it along GOTO -/
theorem canonical_reach {A : Auto} {C : List (List Item)} (hc : A.canonical = Outcome.ok C) :
    ∃ I0, (if A.kernel then Outcome.ok [A.initialItem] else A.closure [A.initialItem]) = Outcome.ok I0 ∧ I0 ∈ C ∧
      ∀ P : List Item → Prop, P I0 →
        (∀ I ∈ C, P I → ∀ X ∈ allSymbols A.g, ∀ J, A.goto I X = Outcome.ok J → J ≠ [] → J ∈ C → P J) →
        ∀ I ∈ C, P I := by
  unfold Auto.canonical at hc
  obtain ⟨I0, hI0, hrest⟩ := bind_eq_ok hc
  obtain ⟨r, hr⟩ := canonicalLoop_ext A _ _ _ hrest
  refine ⟨I0, hI0, by rw [hr]; simp, ?_⟩
  intro P h0 hstep
  apply canonicalLoop_reach P _ _ _ hrest _ hstep
  intro I hI
  simp only [List.mem_singleton] at hI
  subst hI
  exact h0

end AlgoVerif.C11.Lalr
