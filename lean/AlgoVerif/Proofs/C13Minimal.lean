import AlgoVerif.Spec.C13
/-! C13: the Myhill–Nerode half of minimality, for partial DFAs: a DFA whose states are all reachable,
all live and pairwise distinguishable has no more states than any DFA for the same language. -/
namespace AlgoVerif.C13
open AlgoVerif.C13.Spec

theorem length_le_of_injOn {α β : Type} [DecidableEq β] (f : α → β) (Q : List α) (Q2 : List β) (hnd : Q.Nodup)
    (hinj : ∀ p ∈ Q, ∀ q ∈ Q, f p = f q → p = q) (hmem : ∀ q ∈ Q, f q ∈ Q2) : Q.length ≤ Q2.length := by
  induction Q generalizing Q2 with
  | nil => simp
  | cons q Q ih =>
    rw [List.nodup_cons] at hnd
    have h1 : f q ∈ Q2 := hmem q (by simp)
    have := ih (Q2.erase (f q)) hnd.2 (fun p hp r hr => hinj p (by simp [hp]) r (by simp [hr])) (by
      intro p hp
      have hne : f p ≠ f q := by
        intro he
        have := hinj p (by simp [hp]) q (by simp) he
        subst this; exact hnd.1 hp
      exact (List.mem_erase_of_ne hne).2 (hmem p (by simp [hp])))
    rw [List.length_erase_of_mem h1] at this
    simp only [List.length_cons]
    have hpos : 0 < Q2.length := List.length_pos_of_mem h1
    omega

theorem dfaRun_append' (δ : Int → Int → Option Int) (q : Option Int) (u v : Word) :
    dfaRun δ q (u ++ v) = dfaRun δ (dfaRun δ q u) v := by
  induction u generalizing q with
  | nil => simp [dfaRun]
  | cons a u ih =>
    cases q with
    | none =>
      have : ∀ w, dfaRun δ none w = none := by intro w; cases w <;> simp [dfaRun]
      simp [dfaRun, this]
    | some s => simp only [List.cons_append, dfaRun]; exact ih _

/-- acceptance of `v` from state `q` -/
def accFrom (δ : Int → Int → Option Int) (final : Int → Prop) (q : Int) (v : Word) : Prop :=
  ∃ f, dfaRun δ (some q) v = some f ∧ final f

/-- If every state in `Q` is reachable and live and any two are distinguished by some word, then any DFA
for the same language whose reachable states are among `Q2` has at least `|Q|` states. -/
theorem minimal_of_distinguishable
    (δ : Int → Int → Option Int) (start : Int) (final : Int → Prop) (Q : List Int) (hnd : Q.Nodup)
    (hreach : ∀ q ∈ Q, ∃ u, dfaRun δ (some start) u = some q)
    (hlive : ∀ q ∈ Q, ∃ v, accFrom δ final q v)
    (hdist : ∀ p ∈ Q, ∀ q ∈ Q, p ≠ q → ∃ v, ¬ (accFrom δ final p v ↔ accFrom δ final q v))
    (δ2 : Int → Int → Option Int) (start2 : Int) (final2 : Int → Prop) (Q2 : List Int)
    (hQ2 : ∀ u t, dfaRun δ2 (some start2) u = some t → t ∈ Q2)
    (hlang : ∀ w, dfaLang δ start final w ↔ dfaLang δ2 start2 final2 w) :
    Q.length ≤ Q2.length := by
  classical
  -- an access word for every state of `Q`
  have hacc : ∀ q, ∃ u, q ∈ Q → dfaRun δ (some start) u = some q := by
    intro q
    by_cases hq : q ∈ Q
    · obtain ⟨u, hu⟩ := hreach q hq; exact ⟨u, fun _ => hu⟩
    · exact ⟨[], fun h => absurd h hq⟩
  let acc : Int → Word := fun q => Classical.choose (hacc q)
  have hacc' : ∀ q, q ∈ Q → dfaRun δ (some start) (acc q) = some q := fun q => Classical.choose_spec (hacc q)
  -- the other automaton's run on an access word is defined, because the state is live
  have hdef : ∀ q ∈ Q, ∃ t, dfaRun δ2 (some start2) (acc q) = some t := by
    intro q hq
    obtain ⟨v, f, hv, hf⟩ := hlive q hq
    have hL : dfaLang δ start final (acc q ++ v) := ⟨f, by rw [dfaRun_append', hacc' q hq]; exact hv, hf⟩
    obtain ⟨f2, h2, _⟩ := (hlang _).1 hL
    rw [dfaRun_append'] at h2
    cases ht : dfaRun δ2 (some start2) (acc q) with
    | none =>
      rw [ht] at h2
      have : ∀ w, dfaRun δ2 none w = none := by intro w; cases w <;> simp [dfaRun]
      rw [this] at h2; simp at h2
    | some t => exact ⟨t, rfl⟩
  let g : Int → Int := fun q => (dfaRun δ2 (some start2) (acc q)).getD 0
  have hg : ∀ q ∈ Q, dfaRun δ2 (some start2) (acc q) = some (g q) := by
    intro q hq
    obtain ⟨t, ht⟩ := hdef q hq
    simp [g, ht]
  apply length_le_of_injOn g Q Q2 hnd
  · intro p hp q hq hpq
    apply Classical.byContradiction
    intro hne
    obtain ⟨v, hv⟩ := hdist p hp q hq hne
    apply hv
    -- both states accept `v` iff the other automaton accepts from the common state
    have key : ∀ r ∈ Q, accFrom δ final r v ↔ accFrom δ2 final2 (g r) v := by
      intro r hr
      have e1 : accFrom δ final r v ↔ dfaLang δ start final (acc r ++ v) := by
        simp only [accFrom, dfaLang, dfaRun_append', hacc' r hr]
      have e2 : accFrom δ2 final2 (g r) v ↔ dfaLang δ2 start2 final2 (acc r ++ v) := by
        simp only [accFrom, dfaLang, dfaRun_append', hg r hr]
      rw [e1, e2, hlang]
    rw [key p hp, key q hq, hpq]
  · intro q hq
    exact hQ2 _ _ (hg q hq)

end AlgoVerif.C13
