import AlgoVerif.Proofs.C11BuiltCompleteSets
/-!
# C11 — a combinatorial lemma about infinite sequences of stacks

`F : ℕ → List α` with `F (n+1) = x :: (F n).drop m` (every step pops some elements and pushes one — the reduce moves of a
shift-reduce driver).  If the heads of the stacks take finitely many values under `key` and `key2`, then there are two
times `p < q` such that

* (A) `F p = x :: rest`, `F q = y :: rest`, `key2 x = key2 y` (the same stack below the top, tops with the same `key2`), or
* (B) `F q = (y :: π) ++ F p`, `F p = x :: r`, `key x = key y` (the stack has grown over `F p`, and has the same `key` on top).

Classical: the minimum of a sequence of naturals is attained; a time after which the stack never returns to its height
is "strictly low"; either there are infinitely many strictly low times (then (B) by the pigeonhole principle on their
tops), or from some time on every suffix minimum is attained again and again (then (A)).
-/
namespace AlgoVerif.C11.Term
open AlgoVerif.C11.BuiltComplete

/-- the minimum of `f` over `[t0, ∞)` is attained -/
theorem low_exists (f : Nat → Nat) : ∀ (k t0 : Nat), f t0 ≤ k → ∃ t, t0 ≤ t ∧ ∀ n, t ≤ n → f t ≤ f n := by
  intro k
  induction k with
  | zero =>
    intro t0 h0
    exact ⟨t0, Nat.le_refl _, fun n _ => by omega⟩
  | succ k ih =>
    intro t0 h0
    by_cases hall : ∀ n, t0 ≤ n → f t0 ≤ f n
    · exact ⟨t0, Nat.le_refl _, hall⟩
    · have : ∃ n, t0 ≤ n ∧ f n < f t0 := by
        apply Classical.byContradiction
        intro hne
        apply hall
        intro n hn
        rcases Nat.lt_or_ge (f n) (f t0) with h | h
        · exact absurd ⟨n, hn, h⟩ hne
        · exact h
      obtain ⟨n, hn, hlt⟩ := this
      obtain ⟨t, ht, hmin⟩ := ih n (by omega)
      exact ⟨t, by omega, hmin⟩

/-- pigeonhole: a list longer than the list that holds all its values has two equal entries -/
theorem pigeonhole {κ} [DecidableEq κ] (l Ks : List κ) (hsub : ∀ x ∈ l, x ∈ Ks) (hlen : Ks.length < l.length) :
    ∃ (i j : Nat) (hi : i < l.length) (hj : j < l.length), i < j ∧ l[i] = l[j] := by
  apply Classical.byContradiction
  intro hne
  have hnd : l.Nodup := by
    rw [List.nodup_iff_pairwise_ne, List.pairwise_iff_getElem]
    intro i j hi hj hij heq
    exact hne ⟨i, j, hi, hj, hij, heq⟩
  have := nodup_subset_length l Ks hnd hsub
  omega

/-- infinitely many times with a property: as many as one likes, in increasing order -/
theorem many_times (P : Nat → Prop) (hP : ∀ t0, ∃ t, t0 ≤ t ∧ P t) :
    ∀ k : Nat, ∃ ts : List Nat, ts.length = k ∧ ts.Pairwise (· < ·) ∧ ∀ t ∈ ts, P t ∧ 1 ≤ t := by
  suffices aux : ∀ k : Nat, ∃ (ts : List Nat) (b : Nat), ts.length = k ∧ ts.Pairwise (· < ·) ∧
      (∀ t ∈ ts, P t ∧ 1 ≤ t) ∧ ∀ t ∈ ts, t < b by
    intro k
    obtain ⟨ts, _, h1, h2, h3, _⟩ := aux k
    exact ⟨ts, h1, h2, h3⟩
  intro k
  induction k with
  | zero => exact ⟨[], 1, rfl, List.Pairwise.nil, by simp, by simp⟩
  | succ k ih =>
    obtain ⟨ts, b, h1, h2, h3, h4⟩ := ih
    obtain ⟨t, ht, hPt⟩ := hP (b + 1)
    refine ⟨ts ++ [t], t + 1, by simp [h1], ?_, ?_, ?_⟩
    · rw [List.pairwise_append]
      refine ⟨h2, by simp, ?_⟩
      intro x hx y hy
      simp only [List.mem_singleton] at hy
      subst hy
      have := h4 x hx
      omega
    · intro x hx
      rcases List.mem_append.mp hx with h | h
      · exact h3 x h
      · simp only [List.mem_singleton] at h
        subst h
        exact ⟨hPt, by omega⟩
    · intro x hx
      rcases List.mem_append.mp hx with h | h
      · have := h4 x h; omega
      · simp only [List.mem_singleton] at h
        subst h
        omega

section
variable {α : Type} (F : Nat → List α) (hstep : ∀ n, ∃ x m, F (n + 1) = x :: (F n).drop m)
include hstep

theorem nonempty_succ (n : Nat) : F (n + 1) ≠ [] := by
  obtain ⟨x, m, h⟩ := hstep n
  rw [h]; simp

/-- after a suffix-minimum time the stack below its top stays -/
theorem low_stable {t : Nat} {x : α} {rest : List α} (hFt : F t = x :: rest)
    (hlow : ∀ n, t ≤ n → (F t).length ≤ (F n).length) :
    ∀ n, t ≤ n → ∃ π, π ≠ [] ∧ F n = π ++ rest := by
  intro n hn
  induction n with
  | zero =>
    have : t = 0 := by omega
    subst this
    exact ⟨[x], by simp, by simpa using hFt⟩
  | succ n ih =>
    rcases Nat.lt_or_ge n t with hlt | hge
    · have : t = n + 1 := by omega
      subst this
      exact ⟨[x], by simp, by simpa using hFt⟩
    · obtain ⟨π, hπ, hFn⟩ := ih hge
      obtain ⟨y, m, hy⟩ := hstep n
      have hl := hlow (n + 1) (by omega)
      rw [hFt, hy, hFn] at hl
      simp only [List.length_cons, List.length_drop, List.length_append] at hl
      rcases Nat.lt_or_ge π.length m with hgt | hm
      · -- the reduce empties the stack; possible only when `rest` is empty
        have hr : rest = [] := by
          cases rest with
          | nil => rfl
          | cons _ _ => simp only [List.length_cons] at hl; omega
        subst hr
        refine ⟨[y], by simp, ?_⟩
        rw [hy, hFn, List.drop_eq_nil_of_le (by simp; omega)]
        simp
      · refine ⟨y :: π.drop m, by simp, ?_⟩
        rw [hy, hFn, List.drop_append_of_le_length hm]
        simp

/-- after a strictly low time the whole stack stays -/
theorem strict_stable {t : Nat} (hsl : ∀ n, t < n → (F t).length < (F n).length) :
    ∀ n, t < n → ∃ π, π ≠ [] ∧ F n = π ++ F t := by
  intro n hn
  induction n with
  | zero => omega
  | succ n ih =>
    obtain ⟨y, m, hy⟩ := hstep n
    have hl := hsl (n + 1) hn
    rcases Nat.lt_or_ge t n with hlt | hge
    · obtain ⟨π, hπ, hFn⟩ := ih hlt
      rw [hy, hFn] at hl
      simp only [List.length_cons, List.length_drop, List.length_append] at hl
      rcases Nat.lt_or_ge π.length m with hgt | hm
      · have hr : F t = [] := by
          cases hFt : F t with
          | nil => rfl
          | cons _ _ => rw [hFt] at hl; simp only [List.length_cons] at hl; omega
        refine ⟨[y], by simp, ?_⟩
        rw [hy, hFn, hr, List.drop_eq_nil_of_le (by simp; omega)]
        simp
      · refine ⟨y :: π.drop m, by simp, ?_⟩
        rw [hy, hFn, List.drop_append_of_le_length hm]
        simp
    · have : t = n := by omega
      subst this
      rw [hy] at hl
      simp only [List.length_cons, List.length_drop] at hl
      rcases Nat.eq_zero_or_pos m with hm | hm
      · subst hm
        exact ⟨[y], by simp, by rw [hy]; simp⟩
      · have hr : F t = [] := by
          cases hFt : F t with
          | nil => rfl
          | cons _ _ => rw [hFt] at hl; simp only [List.length_cons] at hl; omega
        refine ⟨[y], by simp, ?_⟩
        rw [hy, hr]; simp

/-- the stack sequence lemma -/
theorem stack_seq {κ κ2 : Type} [DecidableEq κ] [DecidableEq κ2] (key : α → κ) (Ks : List κ) (key2 : α → κ2)
    (Ks2 : List κ2)
    (hK : ∀ n x r, F n = x :: r → key x ∈ Ks) (hK2 : ∀ n x r, F n = x :: r → key2 x ∈ Ks2) :
    (∃ p q, p < q ∧ ∃ x y rest, F p = x :: rest ∧ F q = y :: rest ∧ key2 x = key2 y) ∨
    (∃ p q, p < q ∧ ∃ x y π r, F p = x :: r ∧ F q = (y :: π) ++ F p ∧ key x = key y) := by
  by_cases hinf : ∀ t0, ∃ t, t0 ≤ t ∧ ∀ n, t < n → (F t).length < (F n).length
  · -- infinitely many strictly low times
    right
    obtain ⟨ts, hlen, hpw, hall⟩ := many_times _ hinf (Ks.length + 1)
    -- the tops at these times
    have hne : ∀ t ∈ ts, F t ≠ [] := by
      intro t ht
      obtain ⟨_, h1⟩ := hall t ht
      obtain ⟨t', rfl⟩ : ∃ t', t = t' + 1 := ⟨t - 1, by omega⟩
      exact nonempty_succ F hstep t'
    have hhead : ∀ t ∈ ts, ∃ x r, F t = x :: r := by
      intro t ht
      cases hF : F t with
      | nil => exact absurd hF (hne t ht)
      | cons x r => exact ⟨x, r, rfl⟩
    let keys : List κ := ts.map fun t => match F t with
      | x :: _ => key x
      | [] => Ks.headD (key (Classical.choice (by
          obtain ⟨t, ht⟩ := List.exists_mem_of_ne_nil ts (by intro h; rw [h] at hlen; simp at hlen)
          obtain ⟨x, _, _⟩ := hhead t ht
          exact ⟨x⟩)))
    have hkeys : ∀ k ∈ keys, k ∈ Ks := by
      intro k hk
      simp only [keys, List.mem_map] at hk
      obtain ⟨t, ht, rfl⟩ := hk
      obtain ⟨x, r, hF⟩ := hhead t ht
      rw [hF]
      exact hK t x r hF
    obtain ⟨i, j, hi, hj, hij, heq⟩ := pigeonhole keys Ks hkeys (by simp [keys, hlen])
    have hi' : i < ts.length := by simpa [keys] using hi
    have hj' : j < ts.length := by simpa [keys] using hj
    have hlt : ts[i] < ts[j] := (List.pairwise_iff_getElem.mp hpw) i j hi' hj' hij
    obtain ⟨x, r, hFp⟩ := hhead ts[i] (List.getElem_mem hi')
    obtain ⟨π, hπ, hFq⟩ := strict_stable F hstep (hall ts[i] (List.getElem_mem hi')).1 ts[j] hlt
    cases π with
    | nil => exact absurd rfl hπ
    | cons y π' =>
      refine ⟨ts[i], ts[j], hlt, x, y, π', r, hFp, hFq, ?_⟩
      simp only [keys, List.getElem_map] at heq
      rw [hFp, hFq] at heq
      simpa using heq
  · -- from some time on no strictly low time
    left
    have hfin : ∃ t0, ∀ t, t0 ≤ t → ∃ n, t < n ∧ (F n).length ≤ (F t).length := by
      apply Classical.byContradiction
      intro hne
      apply hinf
      intro t0
      apply Classical.byContradiction
      intro hno
      apply hne
      refine ⟨t0, ?_⟩
      intro t ht
      apply Classical.byContradiction
      intro hn
      apply hno
      refine ⟨t, ht, ?_⟩
      intro n hn'
      rcases Nat.lt_or_ge (F t).length (F n).length with h | h
      · exact h
      · exact absurd ⟨n, hn', h⟩ hn
    obtain ⟨t0, hrec⟩ := hfin
    -- a suffix-minimum time t1 ≥ t0, ≥ 1
    obtain ⟨t1, ht1, hlow1⟩ := low_exists (fun n => (F n).length) _ (t0 + 1) (Nat.le_refl _)
    have hF1ne : F t1 ≠ [] := by
      obtain ⟨t', rfl⟩ : ∃ t', t1 = t' + 1 := ⟨t1 - 1, by omega⟩
      exact nonempty_succ F hstep t'
    obtain ⟨x1, rest, hF1⟩ : ∃ x r, F t1 = x :: r := by
      cases hF : F t1 with
      | nil => exact absurd hF hF1ne
      | cons x r => exact ⟨x, r, rfl⟩
    -- the times at which the height is that of t1 again
    have hagain : ∀ s0, ∃ t, s0 ≤ t ∧ (t1 ≤ t ∧ (F t).length = (F t1).length) := by
      intro s0
      induction s0 with
      | zero => exact ⟨t1, Nat.zero_le _, Nat.le_refl _, rfl⟩
      | succ s0 ih =>
        obtain ⟨t, hts, ht1t, hlen⟩ := ih
        rcases Nat.lt_or_ge s0 t with h | h
        · exact ⟨t, by omega, ht1t, hlen⟩
        · obtain ⟨n, hn, hle⟩ := hrec t (by omega)
          have := hlow1 n (by omega)
          exact ⟨n, by omega, by omega, by omega⟩
    obtain ⟨ts, hlen, hpw, hall⟩ := many_times _ hagain (Ks2.length + 1)
    have hshape : ∀ t ∈ ts, ∃ y, F t = y :: rest := by
      intro t ht
      obtain ⟨⟨ht1t, hl⟩, _⟩ := hall t ht
      obtain ⟨π, hπ, hFt⟩ := low_stable F hstep hF1 (fun n hn => hlow1 n hn) t ht1t
      rw [hFt, hF1] at hl
      simp only [List.length_append, List.length_cons] at hl
      match π, hπ, hl, hFt with
      | [y], _, _, hFt => exact ⟨y, by simpa using hFt⟩
      | [], hπ, _, _ => exact absurd rfl hπ
      | _ :: _ :: _, _, hl, _ => simp at hl; omega
    let keys : List κ2 := ts.map fun t => match F t with
      | x :: _ => key2 x
      | [] => key2 x1
    have hkeys : ∀ k ∈ keys, k ∈ Ks2 := by
      intro k hk
      simp only [keys, List.mem_map] at hk
      obtain ⟨t, ht, rfl⟩ := hk
      obtain ⟨y, hF⟩ := hshape t ht
      rw [hF]
      exact hK2 t y rest hF
    obtain ⟨i, j, hi, hj, hij, heq⟩ := pigeonhole keys Ks2 hkeys (by simp [keys, hlen])
    have hi' : i < ts.length := by simpa [keys] using hi
    have hj' : j < ts.length := by simpa [keys] using hj
    have hlt : ts[i] < ts[j] := (List.pairwise_iff_getElem.mp hpw) i j hi' hj' hij
    obtain ⟨x, hFp⟩ := hshape ts[i] (List.getElem_mem hi')
    obtain ⟨y, hFq⟩ := hshape ts[j] (List.getElem_mem hj')
    refine ⟨ts[i], ts[j], hlt, x, y, rest, hFp, hFq, ?_⟩
    simp only [keys, List.getElem_map] at heq
    rw [hFp, hFq] at heq
    simpa using heq

end

end AlgoVerif.C11.Term
