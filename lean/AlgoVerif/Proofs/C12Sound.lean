import AlgoVerif.Proofs.C10Main
/-! The predictive parser's loop: what an `accept` answer means (soundness). -/
set_option linter.unusedSectionVars false
namespace AlgoVerif.C10
open AlgoVerif AlgoVerif.Gram
variable {T N : Type} [DecidableEq T] [DecidableEq N]

/-- the productions handed to the production callback, in order -/
def eventProds : List (Event T N) → List (GProd T N)
  | [] => []
  | .prod p :: es => p :: eventProds es
  | .tok _ _ :: es => eventProds es

/-- the tokens handed to the token callback, in order, with their positions -/
def eventToks : List (Event T N) → List (T × Nat)
  | [] => []
  | .prod _ :: es => eventToks es
  | .tok t k :: es => (t, k) :: eventToks es

/-- `w` with positions `k, k+1, …` -/
def withPos : List T → Nat → List (T × Nat)
  | [], _ => []
  | t :: ts, k => (t, k) :: withPos ts (k + 1)

theorem eventProds_append (a b : List (Event T N)) : eventProds (a ++ b) = eventProds a ++ eventProds b := by
  induction a with
  | nil => rfl
  | cons e es ih => cases e <;> simp [eventProds, ih]

theorem eventToks_append (a b : List (Event T N)) : eventToks (a ++ b) = eventToks a ++ eventToks b := by
  induction a with
  | nil => rfl
  | cons e es ih => cases e <;> simp [eventToks, ih]

theorem LeftmostDerives.cons_term {g : Grammar T N} {π : List (GProd T N)} {α β : List (Sym T N)}
    (h : Spec.LeftmostDerives g π α β) (t : T) :
    Spec.LeftmostDerives g π (Sym.term t :: α) (Sym.term t :: β) := by
  induction h with
  | nil => exact Spec.LeftmostDerives.nil _
  | cons u p v hp _ ih =>
    have := Spec.LeftmostDerives.cons (g := g) (t :: u) p v hp (by simpa using ih)
    simpa using this

theorem LeftmostDerives.toDerives {g : Grammar T N} {π : List (GProd T N)} {α β : List (Sym T N)}
    (h : Spec.LeftmostDerives g π α β) : Derives g α β := by
  induction h with
  | nil => exact Derives.refl _
  | cons u p v hp _ ih => exact (Derives.single (Step.mk _ v p hp)).trans ih

/-- every entry the parser uses is a production of the non-terminal on top of the stack -/
def TableSound (g : Grammar T N) (M : N → Option T → List (GProd T N)) : Prop :=
  ∀ A col p, M A col = [p] → p ∈ g.prods ∧ p.head = A

theorem parseLoop_sound {g : Grammar T N} {M : N → Option T → List (GProd T N)} (hM : TableSound g M) :
    ∀ (fuel : Nat) (stack : List (Sym T N)) (input : List T) (pos : Nat) (evs E : List (Event T N)),
      parseLoop M fuel stack input pos evs = .ok (.accept E) →
      ∃ E', E = evs.reverse ++ E' ∧
        Spec.LeftmostDerives g (eventProds E') stack (input.map Sym.term) ∧
        eventToks E' = withPos input pos := by
  intro fuel
  induction fuel with
  | zero => intro stack input pos evs E h; simp [parseLoop] at h
  | succ fuel ih =>
    intro stack input pos evs E h
    cases stack with
    | nil =>
      cases input with
      | nil =>
        simp only [parseLoop] at h
        cases h
        exact ⟨[], by simp, Spec.LeftmostDerives.nil _, rfl⟩
      | cons a rest => simp [parseLoop] at h
    | cons s stack =>
      cases s with
      | term t =>
        cases input with
        | nil => simp [parseLoop] at h
        | cons a rest =>
          simp only [parseLoop] at h
          split at h
          · rename_i hta
            subst hta
            obtain ⟨E', hE, hd, ht⟩ := ih _ _ _ _ _ h
            refine ⟨Event.tok t pos :: E', by simp [hE], ?_, ?_⟩
            · simpa [eventProds] using LeftmostDerives.cons_term hd t
            · simp [eventToks, withPos, ht]
          · cases h
      | nonterm A =>
        simp only [parseLoop] at h
        split at h
        · cases h
        · rename_i p hp
          obtain ⟨hpg, hph⟩ := hM _ _ _ hp
          obtain ⟨E', hE, hd, ht⟩ := ih _ _ _ _ _ h
          refine ⟨Event.prod p :: E', by simp [hE], ?_, ?_⟩
          · have := Spec.LeftmostDerives.cons (g := g) [] p stack hpg (by simpa using hd)
            simpa [eventProds, hph] using this
          · simpa [eventToks] using ht
        · cases h

/-- accepted ⇒ the emitted productions are a leftmost derivation of exactly the input, and the token
callback saw exactly the input -/
theorem parse_sound {g : Grammar T N} {M : N → Option T → List (GProd T N)} (hM : TableSound g M)
    {fuel : Nat} {w : List T} {E : List (Event T N)}
    (h : parseLoop M fuel [Sym.nonterm g.start] w 0 [] = .ok (.accept E)) :
    Spec.LeftmostDerives g (eventProds E) [Sym.nonterm g.start] (w.map Sym.term) ∧
    eventToks E = withPos w 0 := by
  obtain ⟨E', hE, hd, ht⟩ := parseLoop_sound hM _ _ _ _ _ _ h
  simp at hE; subst hE
  exact ⟨hd, ht⟩

theorem cell_tableSound (g : Grammar T N) (fi : List (Sym T N) → TE T) (fo : N → TEnd T) :
    TableSound g (cell g fi fo) := by
  intro A col p h
  have : p ∈ cell g fi fo A col := by rw [h]; simp
  obtain ⟨h1, h2, _⟩ := mem_cell.1 this
  exact ⟨h1, h2⟩

/-- more fuel never changes an answer -/
theorem parseLoop_mono {M : N → Option T → List (GProd T N)} :
    ∀ (fuel : Nat) (stack : List (Sym T N)) (input : List T) (pos : Nat) (evs : List (Event T N))
      (r : PResult T N), parseLoop M fuel stack input pos evs = .ok r →
      ∀ k, parseLoop M (fuel + k) stack input pos evs = .ok r := by
  intro fuel
  induction fuel with
  | zero => intro stack input pos evs r h; simp [parseLoop] at h
  | succ fuel ih =>
    intro stack input pos evs r h k
    have e : fuel + 1 + k = (fuel + k) + 1 := by omega
    rw [e]
    cases stack with
    | nil =>
      cases input with
      | nil => simpa [parseLoop] using h
      | cons a rest => simpa [parseLoop] using h
    | cons s stack =>
      cases s with
      | term t =>
        cases input with
        | nil => simpa [parseLoop] using h
        | cons a rest =>
          simp only [parseLoop] at h ⊢
          split
          · rename_i hta
            rw [if_pos hta] at h
            exact ih _ _ _ _ _ h k
          · rename_i hta
            rw [if_neg hta] at h
            exact h
      | nonterm A =>
        simp only [parseLoop] at h ⊢
        split
        · rename_i hc; rw [hc] at h; exact h
        · rename_i p hc; rw [hc] at h; exact ih _ _ _ _ _ h k
        · rename_i hc; rw [hc] at h; exact h

end AlgoVerif.C10
