import AlgoVerif.Proofs.C14Paths
/-!
# C14 proofs — `traverseDFSi` / `traverseBFS` (one loop, two containers) as used by `Paths`

`iterLoop_paths`: with a container whose `push` adds exactly one element, the loop returns `ok`, keeps the
`edgeTo` invariant, and ends with a visited set closed under the arcs.  A client invariant `J` (used for
the BFS level argument) can be threaded through.
-/
namespace AlgoVerif.C14

/-- what the two containers have in common -/
structure PushOK (push : Nat → List Nat → List Nat) : Prop where
  mem : ∀ w l x, x ∈ push w l ↔ x = w ∨ x ∈ l
  len : ∀ w l, (push w l).length = l.length + 1

theorem pushStack_ok : PushOK pushStack := ⟨by simp [pushStack], by simp [pushStack]⟩
theorem pushQueue_ok : PushOK pushQueue :=
  ⟨by intro w l x; simp [pushQueue, or_comm], by simp [pushQueue]⟩

/-- invariant between two iterations of the outer loop (`fr` = stack/queue content) -/
structure IterInv (g : Graph) (s : Nat) (a : Array Bool) (et : Array Nat) (fr : List Nat) : Prop where
  size : a.size = g.n
  pinv : PInv g s a et
  front : ∀ x ∈ fr, Vis a x
  closed : ∀ x, Vis a x → x ∉ fr → ∀ y, g.HasArc x y → Vis a y

/-- invariant inside the adjacency loop of the popped vertex `v` -/
structure IterIn (g : Graph) (s v : Nat) (a : Array Bool) (et : Array Nat) (fr : List Nat) : Prop where
  size : a.size = g.n
  pinv : PInv g s a et
  self : Vis a v
  front : ∀ x ∈ fr, Vis a x
  closed : ∀ x, Vis a x → x ∉ fr → x ≠ v → ∀ y, g.HasArc x y → Vis a y

section

variable (push : Nat → List Nat → List Nat) (hp : PushOK push) (g : Graph) (hg : g.WF) (s : Nat)
  (J : Array Bool → Array Nat → List Nat → Prop)
  (JIn : Nat → Array Bool → Array Nat → List Nat → Prop)

include hp hg

theorem iterInner_paths (v : Nat)
    (h_disc : ∀ a et fr w, IterIn g s v a et fr → JIn v a et fr → a[w]? = some false → g.HasArc v w →
      JIn v (a.set! w true) (et.set! w v) (push w fr)) :
    ∀ rest done (cur : TState (Array Nat)) fr, g.adj.getD v [] = done ++ rest →
      IterIn g s v cur.visited cur.s fr → (∀ x ∈ done, Vis cur.visited x.to) → JIn v cur.visited cur.s fr →
      ∃ cur' fr', iterInner push pathsVisitors v rest cur fr = .ok (cur', fr', true) ∧
        IterIn g s v cur'.visited cur'.s fr' ∧ (∀ x ∈ g.adj.getD v [], Vis cur'.visited x.to) ∧
        JIn v cur'.visited cur'.s fr' ∧
        fr'.length + cntF cur'.visited = fr.length + cntF cur.visited ∧
        (∀ x, Vis cur.visited x → Vis cur'.visited x) := by
  intro rest
  induction rest with
  | nil =>
    intro done cur fr hadj hin hdone hj
    refine ⟨cur, fr, by simp [iterInner], hin, ?_, hj, rfl, fun _ h => h⟩
    intro x hx; rw [hadj] at hx; exact hdone x (by simpa using hx)
  | cons x rest ih =>
    intro done cur fr hadj hin hdone hj
    have hxmem : x ∈ g.adj.getD v [] := by rw [hadj]; simp
    have hxn : x.to < g.n := hg.bound v x hxmem
    have hxlt : x.to < cur.visited.size := by rw [hin.size]; exact hxn
    have harc : g.HasArc v x.to := Graph.HasArc.of_mem hxmem
    have hadj' : g.adj.getD v [] = (done ++ [x]) ++ rest := by rw [hadj]; simp
    rcases vis_or_false hxlt with hvis | hunv
    · have hdone' : ∀ y ∈ done ++ [x], Vis cur.visited y.to := by
        intro y hy
        rcases List.mem_append.1 hy with h | h
        · exact hdone y h
        · have : y = x := by simpa using h
          subst this; exact hvis
      obtain ⟨cur', fr', h1, h2, h3, h4, h5, h6⟩ := ih (done ++ [x]) cur fr hadj' hin hdone' hj
      refine ⟨cur', fr', ?_, h2, h3, h4, h5, h6⟩
      unfold iterInner
      have : cur.visited[x.to]? = some true := hvis
      rw [this]; exact h1
    · -- discover x.to
      let a' := cur.visited.set! x.to true
      let et' := cur.s.set! x.to v
      have hgrow : ∀ y, Vis cur.visited y → Vis a' y := fun y hy => vis_set_of_vis hy
      have hpinv' : PInv g s a' et' := by
        have h1 : PInv g s cur.visited et' := hin.pinv.setEdge hunv
        refine h1.enter hin.size hunv (Or.inr ⟨v, ?_, hin.self, harc⟩)
        exact getElem?_set!_self _ _ (by rw [hin.pinv.1]; exact hxn)
      have hin' : IterIn g s v a' et' (push x.to fr) :=
        { size := by show (cur.visited.set! x.to true).size = g.n; rw [size_set!]; exact hin.size
          pinv := hpinv'
          self := hgrow _ hin.self
          front := by
            intro y hy
            rcases (hp.mem _ _ _).1 hy with rfl | h
            · exact vis_set_self hxlt
            · exact hgrow _ (hin.front y h)
          closed := by
            intro y hy hnf hyv z hz
            have hnf' : y ≠ x.to ∧ y ∉ fr := by
              constructor
              · intro h; exact hnf ((hp.mem _ _ _).2 (Or.inl h))
              · intro h; exact hnf ((hp.mem _ _ _).2 (Or.inr h))
            rcases vis_set.1 hy with ⟨h, _⟩ | h
            · exact absurd h.symm hnf'.1
            · exact hgrow _ (hin.closed y h hnf'.2 hyv z hz) }
      have hj' := h_disc cur.visited cur.s fr x.to hin hj hunv harc
      have hdone' : ∀ y ∈ done ++ [x], Vis a' y.to := by
        intro y hy
        rcases List.mem_append.1 hy with h | h
        · exact hgrow _ (hdone y h)
        · have : y = x := by simpa using h
          subst this; exact vis_set_self hxlt
      obtain ⟨cur', fr', h1, h2, h3, h4, h5, h6⟩ :=
        ih (done ++ [x]) ⟨a', et'⟩ (push x.to fr) hadj' hin' hdone' hj'
      refine ⟨cur', fr', ?_, h2, h3, h4, ?_, fun y hy => h6 y (hgrow y hy)⟩
      · unfold iterInner
        rw [hunv]
        exact h1
      · have hc := cntF_set hunv
        have hl := hp.len x.to fr
        have h5' : fr'.length + cntF cur'.visited = (push x.to fr).length + cntF a' := h5
        show fr'.length + cntF cur'.visited = fr.length + cntF cur.visited
        have : cntF a' + 1 = cntF cur.visited := hc
        omega

theorem iterLoop_paths
    (h_pop : ∀ a et v fr, IterInv g s a et (v :: fr) → J a et (v :: fr) → JIn v a et fr)
    (h_disc : ∀ v a et fr w, IterIn g s v a et fr → JIn v a et fr → a[w]? = some false → g.HasArc v w →
      JIn v (a.set! w true) (et.set! w v) (push w fr))
    (h_fin : ∀ v a et fr, IterIn g s v a et fr → JIn v a et fr → (∀ y, g.HasArc v y → Vis a y) → J a et fr) :
    ∀ fuel (st : TState (Array Nat)) fr, IterInv g s st.visited st.s fr → J st.visited st.s fr →
      fr.length + cntF st.visited ≤ fuel →
      ∃ st', iterLoop push g pathsVisitors fuel st fr = .ok st' ∧ IterInv g s st'.visited st'.s [] ∧
        J st'.visited st'.s [] ∧ (∀ x, Vis st.visited x → Vis st'.visited x) := by
  intro fuel
  induction fuel with
  | zero =>
    intro st fr hinv hj hf
    cases fr with
    | nil => exact ⟨st, by simp [iterLoop], hinv, hj, fun _ h => h⟩
    | cons v fr => simp at hf
  | succ fuel ih =>
    intro st fr hinv hj hf
    cases fr with
    | nil => exact ⟨st, by simp [iterLoop], hinv, hj, fun _ h => h⟩
    | cons v fr =>
      have hvv : Vis st.visited v := hinv.front v (by simp)
      have hvn : v < g.n := hinv.size ▸ vis_lt hvv
      have hin : IterIn g s v st.visited st.s fr :=
        { size := hinv.size
          pinv := hinv.pinv
          self := hvv
          front := fun x hx => hinv.front x (by simp [hx])
          closed := by
            intro x hx hnf hxv y hy
            exact hinv.closed x hx (by simp [hnf, hxv]) y hy }
      have hjin := h_pop st.visited st.s v fr hinv hj
      obtain ⟨cur', fr', h1, h2, h3, h4, h5, h6⟩ :=
        iterInner_paths push hp g hg s JIn v (h_disc v) (g.adj.getD v []) [] st fr (by simp) hin (by simp) hjin
      have hall : ∀ y, g.HasArc v y → Vis cur'.visited y := by
        intro y hy
        obtain ⟨x, hx, rfl⟩ := hy
        exact h3 x hx
      have hinv' : IterInv g s cur'.visited cur'.s fr' :=
        { size := h2.size
          pinv := h2.pinv
          front := h2.front
          closed := by
            intro x hx hnf y hy
            by_cases hxv : x = v
            · subst hxv; exact hall y hy
            · exact h2.closed x hx hnf hxv y hy }
      have hj' := h_fin v cur'.visited cur'.s fr' h2 h4 hall
      have hf' : fr'.length + cntF cur'.visited ≤ fuel := by
        simp only [List.length_cons] at hf
        omega
      obtain ⟨st', k1, k2, k3, k4⟩ := ih cur' fr' hinv' hj' hf'
      refine ⟨st', ?_, k2, k3, fun x hx => k4 x (h6 x hx)⟩
      show iterLoop push g pathsVisitors (fuel + 1) st (v :: fr) = .ok st'
      unfold iterLoop
      have hpost : callV pathsVisitors.post v st.s = (st.s, true) := rfl
      simp only [hpost, if_true]
      rw [hg.adj_get hvn]
      simp only [h1]
      exact k1

end

end AlgoVerif.C14
