import AlgoVerif.Proofs.C06PDel3
import AlgoVerif.Proofs.C06X
/-!
# C06 — the rest of `trie.Trie` on the Patricia trie (simulation under `PInv`)

The six structural traversal orders visit the *nodes* (root and inner nodes of the crit-bit tree), each once; since
every node is the target of exactly one thread (`PInvS.leafPerm`), what they show is an arrangement of the held pairs.
-/
namespace AlgoVerif.C06
variable {V σ : Type}
open BitString (xbit Small)
open PT

namespace PT

/-- the inner nodes in the order a structural traversal visits them -/
def ordIdx (o : Order) : PT V → List Nat
  | leaf _ _ _ => []
  | inner i _ l r =>
    match o with
    | .vlr => i :: (ordIdx o l ++ ordIdx o r)
    | .vrl => i :: (ordIdx o r ++ ordIdx o l)
    | .lvr => ordIdx o l ++ i :: ordIdx o r
    | .rvl => ordIdx o r ++ i :: ordIdx o l
    | .lrv => ordIdx o l ++ ordIdx o r ++ [i]
    | .rlv => ordIdx o r ++ ordIdx o l ++ [i]
    | _ => []

/-- number of downward links on the longest path -/
def height : PT V → Int
  | leaf _ _ _ => 0
  | inner _ _ l r => 1 + Max.max (height l) (height r)

def Structural : Order → Prop
  | .vlr | .vrl | .lvr | .rvl | .lrv | .rlv => True
  | _ => False

theorem ordIdx_perm (o : Order) (ho : Structural o) (T : PT V) : (ordIdx o T).Perm (inners T) := by
  induction T with
  | leaf i k v => cases o <;> simp [ordIdx, inners]
  | inner i bp l r ihl ihr =>
    cases o <;> simp only [Structural] at ho <;> simp only [ordIdx, inners]
    · exact (ihl.append ihr).cons i
    · exact ((ihr.append ihl).trans List.perm_append_comm).cons i
    · exact (List.perm_middle.trans ((ihl.append ihr).cons i))
    · exact (List.perm_middle.trans (((ihr.append ihl).trans List.perm_append_comm).cons i))
    · exact (List.perm_append_singleton i _).trans ((ihl.append ihr).cons i)
    · exact (List.perm_append_singleton i _).trans (((ihr.append ihl).trans List.perm_append_comm).cons i)

end PT

namespace Patricia

/-- key and value stored in the nodes `is` -/
def nodeKV (t : Patricia V) (is : List Nat) : List (Key × V) :=
  is.filterMap fun i => (t.nodes[i]?).map fun n => (n.key, n.val)

theorem nodeKV_append (t : Patricia V) (a b : List Nat) : nodeKV t (a ++ b) = nodeKV t a ++ nodeKV t b := by
  simp [nodeKV, List.filterMap_append]

theorem nodeKV_cons {t : Patricia V} {i : Nat} {n : PNode V} (h : t.nodes[i]? = some n) (is : List Nat) :
    nodeKV t (i :: is) = (n.key, n.val) :: nodeKV t is := by
  simp [nodeKV, List.filterMap_cons, h]

theorem nodeKV_nil (t : Patricia V) : nodeKV t [] = [] := rfl

/-- the nodes the threads of `T` point to hold the entries of `T` -/
theorem nodeKV_leafIdx {t : Patricia V} {T : PT V} {b : Nat} {p : Option Nat} (h : Rep t b p T) :
    nodeKV t (leafIdx T) = ents T := by
  induction T generalizing b p with
  | leaf i k v =>
    obtain ⟨_, n, hn, _, hk, hv⟩ := h
    simp [leafIdx, ents, nodeKV_cons hn, nodeKV_nil, hk, hv]
  | inner i bp l r ihl ihr =>
    obtain ⟨_, n, _, _, _, hl, hr⟩ := h
    simp [leafIdx, ents, nodeKV_append, ihl hl, ihr hr]

theorem andThenO_ok (g : σ → Key → V → σ × Bool) (xs ys : List (Key × V)) (s : σ) :
    andThenO (.ok (foldE g xs s)) (fun s => .ok (foldE g ys s)) = .ok (foldE g (xs ++ ys) s) := by
  rw [foldE_append]
  cases h : (foldE g xs s) with
  | mk a b => cases b <;> simp [andThenO]

theorem andThenO_ok' (g : σ → Key → V → σ × Bool) (xs ys : List (Key × V)) (s : σ) (f : σ → Outcome (σ × Bool))
    (hf : ∀ s, f s = .ok (foldE g ys s)) :
    andThenO (.ok (foldE g xs s)) f = .ok (foldE g (xs ++ ys) s) := by
  have : f = fun s => .ok (foldE g ys s) := funext hf
  rw [this, andThenO_ok]

/-- the structural traversals are folds over the inner nodes in visiting order -/
theorem travOrd_link {t : Patricia V} (o : Order) (ho : Structural o) (visit : σ → PNode V → σ × Bool)
    (g : σ → Key → V → σ × Bool) (hv : ∀ s n, visit s n = g s n.key n.val) (T : PT V) :
    ∀ (b : Nat) (p : Option Nat), Rep t b p T → (∀ i ∈ inners T, some i ≠ t.root) →
      ∃ n, t.node p = .ok n ∧ ∀ (f : Nat) (s : σ), above t b ≤ f →
        (if n.bp ≤ b then (.ok (s, true) : Outcome (σ × Bool)) else travOrd t o visit f p s)
          = .ok (foldE g (nodeKV t (ordIdx o T)) s) := by
  induction T with
  | leaf i k v =>
    intro b p h _
    obtain ⟨hp, n, hn, hb, _, _⟩ := h
    subst hp
    refine ⟨n, node_some hn, fun f s _ => ?_⟩
    simp [hb, ordIdx, nodeKV_nil, foldE]
  | inner i bp l r ihl ihr =>
    intro b p h hroot
    obtain ⟨hp, n, hn, hbp, hb, hl, hr⟩ := h
    subst hp; subst hbp
    refine ⟨n, node_some hn, fun f s hf => ?_⟩
    have hnle : ¬ n.bp ≤ b := by omega
    simp only [hnle, if_false]
    have hlt := above_lt hn hb
    cases f with
    | zero => omega
    | succ f =>
      have hrl : ∀ j ∈ inners l, some j ≠ t.root := fun j hj => hroot j (by simp [inners, hj])
      have hrr : ∀ j ∈ inners r, some j ≠ t.root := fun j hj => hroot j (by simp [inners, hj])
      have hi : (some i != t.root) = true := by simpa using hroot i (by simp [inners])
      obtain ⟨nl, hnl, hL⟩ := ihl n.bp n.left hl hrl
      obtain ⟨nr, hnr, hR⟩ := ihr n.bp n.right hr hrr
      have hL' : ∀ s, (if decide (nl.bp ≤ n.bp) = true then (.ok (s, true) : Outcome (σ × Bool))
          else travOrd t o visit f n.left s) = .ok (foldE g (nodeKV t (ordIdx o l)) s) := by
        intro s; simpa using hL f s (by omega)
      have hR' : ∀ s, (if decide (nr.bp ≤ n.bp) = true then (.ok (s, true) : Outcome (σ × Bool))
          else travOrd t o visit f n.right s) = .ok (foldE g (nodeKV t (ordIdx o r)) s) := by
        intro s; simpa using hR f s (by omega)
      have hV : ∀ s, (.ok (visit s n) : Outcome (σ × Bool)) = .ok (foldE g (nodeKV t [i]) s) := by
        intro s; simp [nodeKV_cons hn, nodeKV_nil, foldE_singleton, hv]
      cases o <;> simp only [Structural] at ho <;>
        simp only [travOrd, node_some hn, hnl, hnr, hi, if_true, bind_ok, pure_eq_ok, ordIdx]
      · -- vlr
        rw [hV, andThenO_ok' g _ _ s _ hL', andThenO_ok' g _ _ s _ hR', ← nodeKV_append, ← nodeKV_append]
        simp
      · -- vrl
        rw [hV, andThenO_ok' g _ _ s _ hR', andThenO_ok' g _ _ s _ hL', ← nodeKV_append, ← nodeKV_append]
        simp
      · -- lvr
        rw [hL', andThenO_ok' g _ _ s _ hV, andThenO_ok' g _ _ s _ hR', ← nodeKV_append, ← nodeKV_append]
        simp
      · -- rvl
        rw [hR', andThenO_ok' g _ _ s _ hV, andThenO_ok' g _ _ s _ hL', ← nodeKV_append, ← nodeKV_append]
        simp
      · -- lrv
        rw [hL', andThenO_ok' g _ _ s _ hR', andThenO_ok' g _ _ s _ hV, ← nodeKV_append, ← nodeKV_append]
      · -- rlv
        rw [hR', andThenO_ok' g _ _ s _ hL', andThenO_ok' g _ _ s _ hV, ← nodeKV_append, ← nodeKV_append]

/-! ## root level -/

/-- the nodes in the order a structural traversal from the root visits them (the root's right link is nil) -/
def rootList (o : Order) (r : Nat) (T : PT V) : List Nat :=
  match o with
  | .vlr | .vrl | .rvl => r :: ordIdx o T
  | _ => ordIdx o T ++ [r]

section
variable {t : Patricia V} {r : Nat} {rn : PNode V} {T : PT V} {m : Spec.Map V}

theorem travOrd_none (t : Patricia V) (o : Order) (visit : σ → PNode V → σ × Bool) (f : Nat) (s : σ) :
    t.travOrd o visit (f + 1) none s = .ok (s, true) := rfl

theorem travOrd_root (h : PInvS t r rn T m) (o : Order) (ho : Structural o) (visit : σ → PNode V → σ × Bool)
    (g : σ → Key → V → σ × Bool) (hv : ∀ s n, visit s n = g s n.key n.val) (s : σ) :
    t.travOrd o visit t.fuel t.root s = .ok (foldE g (nodeKV t (rootList o r T)) s) := by
  have hsz := lt_size_of_getElem? h.hrn
  obtain ⟨f, hfuel, hf1, hfa⟩ : ∃ f, t.fuel = f + 1 ∧ 1 ≤ f ∧ above t 0 ≤ f :=
    ⟨t.nodes.size, rfl, by omega, above_le_size t 0⟩
  obtain ⟨nl, hnl, hL⟩ := travOrd_link o ho visit g hv T 0 rn.left h.rep h.innerNotRoot
  have hL' : ∀ s, (if decide (nl.bp ≤ rn.bp) = true then (.ok (s, true) : Outcome (σ × Bool))
      else travOrd t o visit f rn.left s) = .ok (foldE g (nodeKV t (ordIdx o T)) s) := by
    intro s
    have := hL f s hfa
    simpa [h.hbp] using this
  have hR' : ∀ s, travOrd t o visit f rn.right s = .ok (foldE g (nodeKV t []) s) := by
    intro s
    obtain ⟨f0, rfl⟩ : ∃ f0, f = f0 + 1 := ⟨f - 1, by omega⟩
    simp [h.hright, travOrd_none, nodeKV_nil, foldE]
  have hV : ∀ s, (.ok (visit s rn) : Outcome (σ × Bool)) = .ok (foldE g (nodeKV t [r]) s) := by
    intro s; simp [nodeKV_cons h.hrn, nodeKV_nil, foldE_singleton, hv]
  rw [hfuel, h.hroot]
  cases o <;> simp only [Structural] at ho <;>
    simp only [travOrd, h.hroot, node_some h.hrn, hnl, bne_self_eq_false, Bool.false_eq_true, if_false, bind_ok,
      pure_eq_ok, rootList]
  · rw [hV, andThenO_ok' g _ _ s _ hL', andThenO_ok' g _ _ s _ hR', ← nodeKV_append, ← nodeKV_append]; simp
  · rw [hV, andThenO_ok' g _ _ s _ hR', andThenO_ok' g _ _ s _ hL', ← nodeKV_append, ← nodeKV_append]; simp
  · rw [hL', andThenO_ok' g _ _ s _ hV, andThenO_ok' g _ _ s _ hR', ← nodeKV_append, ← nodeKV_append]; simp
  · rw [hR', andThenO_ok' g _ _ s _ hV, andThenO_ok' g _ _ s _ hL', ← nodeKV_append, ← nodeKV_append]; simp
  · rw [hL', andThenO_ok' g _ _ s _ hR', andThenO_ok' g _ _ s _ hV, ← nodeKV_append, ← nodeKV_append]; simp
  · rw [hR', andThenO_ok' g _ _ s _ hL', andThenO_ok' g _ _ s _ hV, ← nodeKV_append, ← nodeKV_append]; simp

theorem rootList_perm (o : Order) (ho : Structural o) (r : Nat) (T : PT V) : (rootList o r T).Perm (r :: inners T) := by
  have := ordIdx_perm o ho T
  cases o <;> simp only [Structural] at ho <;> simp only [rootList]
  · exact this.cons r
  · exact this.cons r
  · exact (List.perm_append_singleton r _).trans (this.cons r)
  · exact this.cons r
  · exact (List.perm_append_singleton r _).trans (this.cons r)
  · exact (List.perm_append_singleton r _).trans (this.cons r)

/-- what a structural traversal shows is an arrangement of the held pairs -/
theorem nodeKV_rootList_perm (h : PInvS t r rn T m) (o : Order) (ho : Structural o) :
    (nodeKV t (rootList o r T)).Perm m := by
  have h1 : (rootList o r T).Perm (leafIdx T) := (rootList_perm o ho r T).trans h.leafPerm.symm
  have h2 := List.Perm.filterMap (fun i => (t.nodes[i]?).map fun n => (n.key, n.val)) h1
  have h3 : nodeKV t (leafIdx T) = m := by rw [nodeKV_leafIdx h.rep, h.ents]
  rw [← h3]
  exact h2

theorem trav_bad_root (h : PInvS t r rn T m) (visit : σ → PNode V → σ × Bool) (s : σ) :
    t.trav .bad visit t.root s = .ok (s, false) := by
  have hfuel : t.fuel = t.nodes.size + 1 := rfl
  generalize t.nodes.size = f at hfuel
  obtain ⟨nl, hnl, _⟩ := node_of_rep h.rep
  simp only [trav, hfuel, h.hroot, travOrd, node_some h.hrn, hnl, bne_self_eq_false, Bool.false_eq_true, if_false,
    bind_ok, pure_eq_ok]

end

theorem trav_empty {t : Patricia V} (hr : t.root = none) (o : Order) (visit : σ → PNode V → σ × Bool) (s : σ) :
    t.trav o visit t.root s = .ok (s, true) := by
  cases o <;> simp [trav, hr, fuel_succ, travOrd_none, travAsc_none, travDesc_none]

/-- every traversal from the root shows an arrangement of the held pairs: the sorted list (`Ascending`), its reverse
(`Descending`), some permutation (six structural orders) -/
theorem trav_root {t : Patricia V} {m : Spec.Map V} (h : PInv t m) (o : Order) (ho : o ≠ .bad)
    (visit : σ → PNode V → σ × Bool) (g : σ → Key → V → σ × Bool) (hv : ∀ s n, visit s n = g s n.key n.val) (s : σ) :
    ∃ L, L.Perm m ∧ (o = .asc → L = m) ∧ (o = .desc → L = m.reverse) ∧ t.trav o visit t.root s = .ok (foldE g L s) := by
  rcases h with ⟨hr, rfl, _⟩ | ⟨r, rn, T, h⟩
  · exact ⟨[], List.Perm.refl _, fun _ => rfl, fun _ => rfl, by rw [trav_empty hr]; rfl⟩
  · by_cases hs : Structural o
    · refine ⟨_, nodeKV_rootList_perm h o hs, ?_, ?_, ?_⟩
      · intro ho'; subst ho'; exact absurd hs (by simp [Structural])
      · intro ho'; subst ho'; exact absurd hs (by simp [Structural])
      · have : t.trav o visit t.root s = t.travOrd o visit t.fuel t.root s := by
          cases o <;> simp only [Structural] at hs <;> rfl
        rw [this, travOrd_root h o hs visit g hv s]
    · cases o <;> simp only [Structural, not_true_eq_false] at hs
      · refine ⟨m, List.Perm.refl _, fun _ => rfl, (fun hh => nomatch hh), ?_⟩
        simp only [trav]
        exact travAsc_root h visit g hv s
      · refine ⟨m.reverse, List.reverse_perm m, (fun hh => nomatch hh), fun _ => rfl, ?_⟩
        simp only [trav]
        exact travDesc_root h visit g hv s
      · exact absurd rfl ho

theorem trav_bad {t : Patricia V} {m : Spec.Map V} (h : PInv t m) (visit : σ → PNode V → σ × Bool) (s : σ) :
    ∃ b, t.trav .bad visit t.root s = .ok (s, b) := by
  rcases h with ⟨hr, rfl, _⟩ | ⟨r, rn, T, h⟩
  · exact ⟨true, trav_empty hr _ _ _⟩
  · exact ⟨false, trav_bad_root h visit s⟩

/-! ## the recording visitor -/

theorem foldE_record (stop : Int) (L : List (Key × V)) (acc : List (Key × V))
    (hacc : stop ≤ 0 ∨ (acc.length : Int) < stop) :
    (foldE (recordVisit stop) L acc).1 = acc ++ (if stop ≥ 1 then L.take (stop.toNat - acc.length) else L) := by
  induction L generalizing acc with
  | nil => simp [foldE]
  | cons e L ih =>
    simp only [foldE, recordVisit, List.length_append, List.length_cons, List.length_nil]
    by_cases hstop : ((acc.length + 0 + 1 : Nat) : Int) = stop
    · have h1 : stop ≥ 1 := by omega
      have h2 : stop.toNat - acc.length = 1 := by omega
      simp [hstop, h1, h2]
    · have hne : (((acc.length + 0 + 1 : Nat) : Int) == stop) = false := by simpa using hstop
      simp only [hne, Bool.not_false, Bool.not_true, Bool.false_eq_true, if_false]
      rw [ih (acc ++ [e]) (by simp; omega)]
      by_cases h1 : stop ≥ 1
      · have h2 : stop.toNat - acc.length = (stop.toNat - (acc.length + 1)) + 1 := by omega
        simp [h1, h2, List.take_succ_cons]
      · simp [h1]

theorem foldE_record_nil (stop : Int) (L : List (Key × V)) : (foldE (recordVisit stop) L []).1 = Spec.cut stop L := by
  rw [foldE_record stop L [] (by simp; omega)]
  simp [Spec.cut]

end Patricia

/-! ## inserting distinct keys in any order gives the sorted list -/
namespace Spec

/-- `Put` every pair of a list, first to last -/
def insAll (acc : Map V) : List (Key × V) → Map V
  | [] => acc
  | e :: xs => insAll (Map.put acc e.1 e.2) xs

theorem insAll_spec (xs : List (Key × V)) (acc : Map V) (hs : Sorted acc)
    (hd : (acc ++ xs).Pairwise fun a b => a.1 ≠ b.1) :
    Sorted (insAll acc xs) ∧ ∀ e, e ∈ insAll acc xs ↔ e ∈ acc ∨ e ∈ xs := by
  induction xs generalizing acc with
  | nil => exact ⟨hs, fun e => by simp [insAll]⟩
  | cons x xs ih =>
    obtain ⟨k, v⟩ := x
    have hp := List.pairwise_append.mp hd
    have hacc : ∀ e ∈ acc, e.1 ≠ k := fun e he => hp.2.2 e he (k, v) (List.mem_cons_self ..)
    have hmem : ∀ e, e ∈ Map.put acc k v ↔ e = (k, v) ∨ e ∈ acc := by
      intro e
      rw [Map.put_mem hs]
      constructor
      · rintro (h | ⟨h, _⟩)
        · exact .inl h
        · exact .inr h
      · rintro (h | h)
        · exact .inl h
        · exact .inr ⟨h, hacc e h⟩
    have hs' := Map.put_sorted hs k v
    have hd' : (Map.put acc k v ++ xs).Pairwise fun a b => a.1 ≠ b.1 := by
      refine List.pairwise_append.mpr ⟨hs'.imp (fun h => klt_ne h), (List.pairwise_cons.mp hp.2.1).2, ?_⟩
      intro a ha b hb
      rcases (hmem a).mp ha with rfl | ha
      · exact (List.pairwise_cons.mp hp.2.1).1 b hb
      · exact hp.2.2 a ha b (List.mem_cons_of_mem _ hb)
    obtain ⟨h1, h2⟩ := ih (Map.put acc k v) hs' hd'
    refine ⟨h1, fun e => ?_⟩
    simp only [insAll]
    rw [h2 e, hmem e, List.mem_cons]
    constructor
    · rintro ((h | h) | h)
      · exact .inr (.inl h)
      · exact .inl h
      · exact .inr (.inr h)
    · rintro (h | h | h)
      · exact .inl (.inr h)
      · exact .inl (.inl h)
      · exact .inr h

/-- inserting the selected pairs of any arrangement of a sorted map gives the selected sub-map -/
theorem insAll_filter_perm {m L : Map V} (hs : Sorted m) (hL : L.Perm m) (q : Key × V → Bool) :
    insAll [] (L.filter q) = m.filter q := by
  have hd : (L.filter q).Pairwise fun a b => a.1 ≠ b.1 := by
    have h1 : (m.filter q).Pairwise fun a b => a.1 ≠ b.1 := (hs.filter q).imp (fun h => klt_ne h)
    exact ((hL.filter q).pairwise_iff (fun h => Ne.symm h)).mpr h1
  obtain ⟨h1, h2⟩ := insAll_spec (L.filter q) [] Sorted.nil (by simpa using hd)
  apply Sorted.ext h1 (hs.filter q)
  intro e
  rw [h2 e, (hL.filter q).mem_iff]
  simp

end Spec

namespace Patricia
open AlgoVerif.C06.Spec

/-- folding `Put` over the selected pairs of a list of small keys -/
theorem foldE_selectP (p : Key → V → Bool) (xs : List (Key × V)) (acc : Map V) (n : Patricia V)
    (hn : PInv n acc) (hsm : ∀ e ∈ xs, Small e.1) :
    ∃ n', (foldE (fun (s : Outcome (Patricia V)) k v =>
        if p k v then
          match s with
          | .ok m => (match m.put k v with
            | .ok m' => (.ok m', true)
            | .panic => (.panic, false)
            | .diverge => (.diverge, false))
          | e => (e, false)
        else (s, true)) xs (.ok n)) = (.ok n', true) ∧ PInv n' (insAll acc (xs.filter fun e => p e.1 e.2)) := by
  induction xs generalizing acc n with
  | nil => exact ⟨n, by simp [foldE], by simpa [insAll] using hn⟩
  | cons x xs ih =>
    obtain ⟨k, v⟩ := x
    simp only [foldE, List.filter_cons]
    by_cases hp : p k v = true
    · obtain ⟨n1, hput, hinv⟩ := put_sim hn k (hsm (k, v) (List.mem_cons_self ..)) v
      obtain ⟨n', h1, h2⟩ := ih (Map.put acc k v) n1 hinv (fun e he => hsm e (List.mem_cons_of_mem _ he))
      refine ⟨n', ?_, by simpa [hp, insAll] using h2⟩
      simp only [hp, if_true, hput, Bool.not_true, Bool.false_eq_true, if_false]
      exact h1
    · have hp' : p k v = false := by simpa using hp
      obtain ⟨n', h1, h2⟩ := ih acc n hn (fun e he => hsm e (List.mem_cons_of_mem _ he))
      refine ⟨n', ?_, by simpa [hp'] using h2⟩
      simp only [hp', Bool.false_eq_true, if_false, Bool.not_true]
      exact h1

theorem selectMatch_sim {t : Patricia V} {m : Map V} (h : PInv t m) (hsm : ∀ e ∈ m, Small e.1) (p : Key → V → Bool) :
    ∃ r, t.selectMatch p = .ok r ∧ PInv r (m.selectMatch p) := by
  obtain ⟨L, hL, _, _, htr⟩ := trav_root h .vlr (by simp) (fun (s : Outcome (Patricia V)) n =>
        if p n.key n.val then
          match s with
          | .ok m => (match m.put n.key n.val with
            | .ok m' => (.ok m', true)
            | .panic => (.panic, false)
            | .diverge => (.diverge, false))
          | e => (e, false)
        else (s, true))
    (fun (s : Outcome (Patricia V)) k v =>
        if p k v then
          match s with
          | .ok m => (match m.put k v with
            | .ok m' => (.ok m', true)
            | .panic => (.panic, false)
            | .diverge => (.diverge, false))
          | e => (e, false)
        else (s, true)) (fun _ _ => rfl) (.ok Patricia.new)
  obtain ⟨n', h1, h2⟩ := foldE_selectP p L [] Patricia.new PInv.new (fun e he => hsm e (hL.mem_iff.mp he))
  refine ⟨n', ?_, ?_⟩
  · have e : t.selectMatch p = (Outcome.ok (foldE (fun (s : Outcome (Patricia V)) k v =>
        if p k v then
          match s with
          | .ok m => (match m.put k v with
            | .ok m' => (.ok m', true)
            | .panic => (.panic, false)
            | .diverge => (.diverge, false))
          | e => (e, false)
        else (s, true)) L (.ok Patricia.new)) >>= fun r => r.1) := by rw [← htr]; rfl
    rw [e, h1]; rfl
  · rw [insAll_filter_perm h.sortedMap hL] at h2
    exact h2

theorem foldE_partitionP (p : Key → V → Bool) (xs : List (Key × V)) (am au : Map V) (nm nu : Patricia V)
    (hm : PInv nm am) (hu : PInv nu au) (hsm : ∀ e ∈ xs, Small e.1) :
    ∃ nm' nu', (foldE (fun (s : Outcome (Patricia V × Patricia V)) k v =>
        match s with
        | .ok (m, u) =>
          (match (if p k v then (m.put k v).map (fun m' => (m', u)) else (u.put k v).map (fun u' => (m, u'))) with
          | .ok x => (.ok x, true)
          | .panic => (.panic, false)
          | .diverge => (.diverge, false))
        | e => (e, false)) xs (.ok (nm, nu))) = (.ok (nm', nu'), true) ∧
      PInv nm' (insAll am (xs.filter fun e => p e.1 e.2)) ∧ PInv nu' (insAll au (xs.filter fun e => !p e.1 e.2)) := by
  induction xs generalizing am au nm nu with
  | nil => exact ⟨nm, nu, by simp [foldE], by simpa [insAll] using hm, by simpa [insAll] using hu⟩
  | cons x xs ih =>
    obtain ⟨k, v⟩ := x
    simp only [foldE, List.filter_cons]
    by_cases hp : p k v = true
    · obtain ⟨n1, hput, hinv⟩ := put_sim hm k (hsm (k, v) (List.mem_cons_self ..)) v
      obtain ⟨nm', nu', h1, h2, h3⟩ := ih (Map.put am k v) au n1 nu hinv hu (fun e he => hsm e (List.mem_cons_of_mem _ he))
      refine ⟨nm', nu', ?_, by simpa [hp, insAll] using h2, by simpa [hp] using h3⟩
      simp only [hp, if_true, hput, Outcome.map, Bool.not_true, Bool.false_eq_true, if_false]
      exact h1
    · have hp' : p k v = false := by simpa using hp
      obtain ⟨n1, hput, hinv⟩ := put_sim hu k (hsm (k, v) (List.mem_cons_self ..)) v
      obtain ⟨nm', nu', h1, h2, h3⟩ := ih am (Map.put au k v) nm n1 hm hinv (fun e he => hsm e (List.mem_cons_of_mem _ he))
      refine ⟨nm', nu', ?_, by simpa [hp'] using h2, by simpa [hp', insAll] using h3⟩
      simp only [hp', Bool.false_eq_true, if_false, hput, Outcome.map, Bool.not_true]
      exact h1

theorem partitionMatch_sim {t : Patricia V} {m : Map V} (h : PInv t m) (hsm : ∀ e ∈ m, Small e.1) (p : Key → V → Bool) :
    ∃ r u, t.partitionMatch p = .ok (r, u) ∧ PInv r (m.selectMatch p) ∧ PInv u (m.rejectMatch p) := by
  obtain ⟨L, hL, _, _, htr⟩ := trav_root h .vlr (by simp) (fun (s : Outcome (Patricia V × Patricia V)) n =>
        match s with
        | .ok (m, u) =>
          (match (if p n.key n.val then (m.put n.key n.val).map (fun m' => (m', u))
                  else (u.put n.key n.val).map (fun u' => (m, u'))) with
          | .ok x => (.ok x, true)
          | .panic => (.panic, false)
          | .diverge => (.diverge, false))
        | e => (e, false))
    (fun (s : Outcome (Patricia V × Patricia V)) k v =>
        match s with
        | .ok (m, u) =>
          (match (if p k v then (m.put k v).map (fun m' => (m', u)) else (u.put k v).map (fun u' => (m, u'))) with
          | .ok x => (.ok x, true)
          | .panic => (.panic, false)
          | .diverge => (.diverge, false))
        | e => (e, false)) (fun _ _ => rfl) (.ok (Patricia.new, Patricia.new))
  obtain ⟨nm', nu', h1, h2, h3⟩ := foldE_partitionP p L [] [] Patricia.new Patricia.new PInv.new PInv.new
    (fun e he => hsm e (hL.mem_iff.mp he))
  refine ⟨nm', nu', ?_, ?_, ?_⟩
  · have e : t.partitionMatch p = (Outcome.ok (foldE (fun (s : Outcome (Patricia V × Patricia V)) k v =>
        match s with
        | .ok (m, u) =>
          (match (if p k v then (m.put k v).map (fun m' => (m', u)) else (u.put k v).map (fun u' => (m, u'))) with
          | .ok x => (.ok x, true)
          | .panic => (.panic, false)
          | .diverge => (.diverge, false))
        | e => (e, false)) L (.ok (Patricia.new, Patricia.new))) >>= fun r => r.1) := by rw [← htr]; rfl
    rw [e, h1]; rfl
  · rw [insAll_filter_perm h.sortedMap hL] at h2
    exact h2
  · rw [insAll_filter_perm h.sortedMap hL] at h3
    exact h3

theorem anyMatch_sim {t : Patricia V} {m : Map V} (h : PInv t m) (p : Key → V → Bool) :
    t.anyMatch p = .ok (m.anyMatch p) := by
  obtain ⟨L, hL, _, _, htr⟩ := trav_root h .vlr (by simp) (fun (s : Unit) n => (s, !p n.key n.val))
    (fun (s : Unit) k v => (s, !p k v)) (fun _ _ => rfl) ()
  unfold Patricia.anyMatch Map.anyMatch
  rw [htr]
  simp only [bind_ok, pure_eq_ok, Binary.foldE_allS, hL.all_eq]
  congr 1
  generalize m = l
  induction l with
  | nil => rfl
  | cons e l ih => simp only [List.all_cons, List.any_cons]; cases p e.1 e.2 <;> simp_all

theorem allMatch_sim {t : Patricia V} {m : Map V} (h : PInv t m) (p : Key → V → Bool) :
    t.allMatch p = .ok (m.allMatch p) := by
  obtain ⟨L, hL, _, _, htr⟩ := trav_root h .vlr (by simp) (fun (s : Unit) n => (s, p n.key n.val))
    (fun (s : Unit) k v => (s, p k v)) (fun _ _ => rfl) ()
  unfold Patricia.allMatch Map.allMatch
  rw [htr]
  simp only [bind_ok, pure_eq_ok, Binary.foldE_allS, hL.all_eq]

theorem firstMatch_sim {t : Patricia V} {m : Map V} (h : PInv t m) (p : Key → V → Bool) :
    ∃ r, t.firstMatch p = .ok r ∧
      (match r with
       | some e => e ∈ m ∧ p e.1 e.2 = true
       | none => m.anyMatch p = false) := by
  obtain ⟨L, hL, _, _, htr⟩ := trav_root h .vlr (by simp)
    (fun (s : Option (Key × V)) n => if p n.key n.val then (some (n.key, n.val), false) else (s, true))
    (fun (s : Option (Key × V)) k v => if p k v then (some (k, v), false) else (s, true)) (fun _ _ => rfl) none
  refine ⟨L.find? fun e => p e.1 e.2, ?_, ?_⟩
  · unfold Patricia.firstMatch
    rw [htr]
    simp only [bind_ok, pure_eq_ok, foldE_find]
  · cases hf : L.find? fun e => p e.1 e.2 with
    | none =>
      simp only [Map.anyMatch, ← hL.any_eq]
      rw [List.find?_eq_none] at hf
      simpa using hf
    | some e =>
      have := List.find?_some hf
      exact ⟨hL.mem_iff.mp (List.mem_of_find?_eq_some hf), this⟩

theorem subsetOf_sim (eqv : V → V → Bool) {t t2 : Patricia V} {m m2 : Map V} (h : PInv t m) (h2 : PInv t2 m2) :
    t.subsetOf eqv t2 = .ok (m.all fun e => match Map.get m2 e.1 with
      | some v2 => eqv e.2 v2
      | none => false) := by
  obtain ⟨L, _, hasc, _, htr⟩ := trav_root h .asc (by simp) (fun (s : Outcome Unit) n =>
      match t2.get n.key with
      | .ok (some v2) => (s, eqv n.val v2)
      | .ok none => (s, false)
      | .panic => (.panic, false)
      | .diverge => (.diverge, false))
    (fun (s : Outcome Unit) k v => (s, match Map.get m2 k with
      | some v2 => eqv v v2
      | none => false))
    (fun s n => by rw [get_sim h2]; cases Map.get m2 n.key <;> rfl) (.ok ())
  have e : t.subsetOf eqv t2 = (Outcome.ok (foldE (fun (s : Outcome Unit) k v => (s, match Map.get m2 k with
      | some v2 => eqv v v2
      | none => false)) L (.ok ())) >>= fun r => r.1.map fun _ => r.2) := by rw [← htr]; rfl
  rw [e, hasc rfl]
  simp only [bind_ok, Binary.foldE_allS]
  rfl

theorem equal_sim (eqv : V → V → Bool) {t t2 : Patricia V} {m m2 : Map V} (h : PInv t m) (h2 : PInv t2 m2) :
    t.equal eqv t2 = .ok (Map.equal eqv m m2) := by
  unfold Patricia.equal Map.equal
  rw [subsetOf_sim eqv h h2]
  simp only [bind, Outcome.bind]
  cases hA : (m.all fun e => match Map.get m2 e.1 with
      | some v2 => eqv e.2 v2
      | none => false)
  · simp [pure]
  · simp only [subsetOf_sim eqv h2 h, Bool.not_true, Bool.false_eq_true, if_false, Bool.true_and]
    rfl

/-! ## Height -/

theorem heightLoop_link {t : Patricia V} (T : PT V) :
    ∀ (b : Nat) (p : Option Nat) (f : Nat), Rep t b p T → above t b + 1 ≤ f → heightLoop t f b p = .ok (PT.height T) := by
  induction T with
  | leaf i k v =>
    intro b p f h hf
    obtain ⟨hp, n, hn, hb, _, _⟩ := h
    subst hp
    obtain ⟨f, rfl⟩ : ∃ f0, f = f0 + 1 := ⟨f - 1, by omega⟩
    simp [heightLoop, node_some hn, hb, PT.height]
  | inner i bp l r ihl ihr =>
    intro b p f h hf
    obtain ⟨hp, n, hn, hbp, hb, hl, hr⟩ := h
    subst hp; subst hbp
    obtain ⟨f, rfl⟩ : ∃ f0, f = f0 + 1 := ⟨f - 1, by omega⟩
    have hlt := above_lt hn hb
    have hnle : ¬ n.bp ≤ b := by omega
    simp only [heightLoop, node_some hn, bind_ok, hnle, if_false, ihl n.bp n.left f hl (by omega),
      ihr n.bp n.right f hr (by omega), pure_eq_ok, PT.height]

theorem height_total {t : Patricia V} {m : Map V} (h : PInv t m) : ∃ n, t.height = .ok n := by
  rcases h with ⟨hr, _, _⟩ | ⟨r, rn, T, h⟩
  · exact ⟨0, by simp [Patricia.height, hr]⟩
  · refine ⟨PT.height T, ?_⟩
    simp only [Patricia.height, h.hroot, node_some h.hrn, bind_ok, h.hbp]
    exact heightLoop_link T 0 rn.left t.fuel h.rep (by have := above_le_size t 0; unfold fuel; omega)

/-! ## the extended step function -/

theorem holds_of_inv {t : Patricia V} {m : Map V} (h : PInv t m) : t.Holds m := ⟨all_sim h, size_sim h⟩

/-- a base step only adds the key of a `Put` -/
theorem step_mem {m : Map V} (hs : Sorted m) (op : Op V) :
    ∀ e ∈ (Map.step m op).1, e ∈ m ∨ ∃ k v, op = .put k v ∧ e = (k, v) := by
  intro e he
  cases op with
  | put k v =>
    simp only [Map.step] at he
    rcases (Map.put_mem hs k v e).mp he with h | ⟨h, _⟩
    · exact .inr ⟨k, v, rfl, h⟩
    · exact .inl h
  | delete k => exact .inl (List.mem_filter.mp he).1
  | deleteMin => exact .inl (List.mem_of_mem_tail he)
  | deleteMax => exact .inl ((List.dropLast_sublist m).subset he)
  | deleteAll => simp [Map.step] at he
  | _ => exact .inl he

/-- both registers represent sorted maps of non-empty small keys -/
structure XInv (a b : Patricia V) (ma mb : Map V) : Prop where
  ha : PInv a ma
  hb : PInv b mb
  nea : ∀ e ∈ ma, e.1 ≠ []
  neb : ∀ e ∈ mb, e.1 ≠ []
  sma : ∀ e ∈ ma, Small e.1
  smb : ∀ e ∈ mb, Small e.1

theorem XInv.new : XInv (Patricia.new : Patricia V) Patricia.new [] [] :=
  ⟨PInv.new, PInv.new, by simp, by simp, by simp, by simp⟩

theorem xstep_sim (eqv : V → V → Bool) {a b : Patricia V} {ma mb : Map V} (h : XInv a b ma mb)
    (op : XOp V) (hk : op.smallKeys = true) :
    ∃ a' b' o, Patricia.xstep eqv (a, b) op = .ok ((a', b'), o) ∧
      XInv a' b' (Spec.xnext (ma, mb) op).1 (Spec.xnext (ma, mb) op).2 ∧
      Spec.admits true eqv Patricia.Holds (ma, mb) op o := by
  obtain ⟨ha, hb, nea, neb, sma, smb⟩ := h
  cases op with
  | base op =>
    obtain ⟨a', h1, h2, h3⟩ := step_all ha nea op hk
    refine ⟨a', b, _, by simp [Patricia.xstep, h1, Outcome.map], ⟨h2, hb, h3, neb, ?_, smb⟩, rfl⟩
    intro e he
    rcases step_mem ha.sortedMap op e he with h | ⟨k, v, rfl, rfl⟩
    · exact sma e h
    · simp only [XOp.smallKeys, Op.smallKeys, Bool.and_eq_true, decide_eq_true_eq] at hk
      exact hk.2
  | isEmpty =>
    refine ⟨a, b, _, rfl, ⟨ha, hb, nea, neb, sma, smb⟩, ?_⟩
    simp only [Spec.admits, Patricia.isEmpty, size_sim ha, Map.size]
    cases ma <;> simp
    omega
  | height =>
    obtain ⟨n, hn⟩ := height_total ha
    exact ⟨a, b, _, by simp [Patricia.xstep, hn, Outcome.map], ⟨ha, hb, nea, neb, sma, smb⟩, ⟨n, rfl⟩⟩
  | traverse o stop =>
    by_cases ho : o = .bad
    · subst ho
      obtain ⟨bb, hbb⟩ := trav_bad ha (fun (s : List (Key × V)) n => recordVisit stop s n.key n.val) []
      refine ⟨a, b, _, by simp [Patricia.xstep, Patricia.traverse, hbb, Outcome.map],
        ⟨ha, hb, nea, neb, sma, smb⟩, ⟨[], rfl, rfl⟩⟩
    · obtain ⟨L, hL, hasc, hdesc, htr⟩ := trav_root ha o ho (fun (s : List (Key × V)) n => recordVisit stop s n.key n.val)
        (recordVisit stop) (fun _ _ => rfl) []
      refine ⟨a, b, .base (.list (Spec.cut stop L)),
        by simp [Patricia.xstep, Patricia.traverse, htr, Outcome.map, foldE_record_nil],
        ⟨ha, hb, nea, neb, sma, smb⟩, ⟨_, rfl, ?_⟩⟩
      cases o with
      | bad => exact absurd rfl ho
      | asc => intro _; rw [hasc rfl]
      | desc => intro _; rw [hdesc rfl]
      | _ => exact fun _ => ⟨L, hL, rfl⟩
  | anyMatch p =>
    exact ⟨a, b, _, by simp [Patricia.xstep, anyMatch_sim ha, Outcome.map], ⟨ha, hb, nea, neb, sma, smb⟩, rfl⟩
  | allMatch p =>
    exact ⟨a, b, _, by simp [Patricia.xstep, allMatch_sim ha, Outcome.map], ⟨ha, hb, nea, neb, sma, smb⟩, rfl⟩
  | firstMatch p =>
    obtain ⟨r, h1, h2⟩ := firstMatch_sim ha p
    exact ⟨a, b, _, by simp [Patricia.xstep, h1, Outcome.map], ⟨ha, hb, nea, neb, sma, smb⟩, ⟨r, rfl, h2⟩⟩
  | selectMatch p =>
    obtain ⟨r, h1, h2⟩ := selectMatch_sim ha sma p
    refine ⟨a, r, _, by simp [Patricia.xstep, h1, Outcome.map], ⟨ha, h2, nea, ?_, sma, ?_⟩, ⟨r, rfl, holds_of_inv h2⟩⟩
    · intro e he; exact nea e (List.mem_filter.mp he).1
    · intro e he; exact sma e (List.mem_filter.mp he).1
  | partitionMatch p =>
    obtain ⟨r, u, h1, h2, h3⟩ := partitionMatch_sim ha sma p
    refine ⟨a, u, _, by simp [Patricia.xstep, h1, Outcome.map], ⟨ha, h3, nea, ?_, sma, ?_⟩,
      ⟨r, u, rfl, holds_of_inv h2, holds_of_inv h3⟩⟩
    · intro e he; exact nea e (List.mem_filter.mp he).1
    · intro e he; exact sma e (List.mem_filter.mp he).1
  | equal =>
    exact ⟨a, b, _, by simp [Patricia.xstep, equal_sim eqv ha hb, Outcome.map], ⟨ha, hb, nea, neb, sma, smb⟩, rfl⟩
  | equalOther => exact ⟨a, b, _, rfl, ⟨ha, hb, nea, neb, sma, smb⟩, rfl⟩
  | swap => exact ⟨b, a, _, rfl, ⟨hb, ha, neb, nea, smb, sma⟩, rfl⟩

theorem xrun_sim (eqv : V → V → Bool) {a b : Patricia V} {ma mb : Map V} (h : XInv a b ma mb)
    (ops : List (XOp V)) (hk : XPatriciaHistory ops = true) :
    Spec.Admitted true eqv Patricia.Holds (ma, mb) ops (Patricia.xrun eqv (a, b) ops) := by
  induction ops generalizing a b ma mb with
  | nil => trivial
  | cons op ops ih =>
    simp only [XPatriciaHistory, Bool.and_eq_true] at hk
    obtain ⟨a', b', o, h1, h2, h3⟩ := xstep_sim eqv h op hk.1
    simp only [Patricia.xrun, runTrace, h1, Spec.Admitted]
    exact ⟨h3, ih h2 hk.2⟩

end Patricia
end AlgoVerif.C06
