import AlgoVerif.Proofs.C19Buf
import AlgoVerif.Proofs.C19Utf8
/-!
# C19 — `Next` is the decoder applied to the bytes at `forward`

`Next_spec`: under the buffer invariant, for a NUL-free source and any reader without I/O errors, `Input.Next`
behaves as `decodeRune (S.drop p)` says: it returns the rune and advances by its length, or reports invalid
UTF-8, or returns `io.EOF` when the source ends before the sequence is complete — re-establishing the invariant
(and `LexOK`, as long as the pending lexeme stays within `n` bytes) in every case.
-/
set_option maxHeartbeats 400000
namespace AlgoVerif.C19
open AlgoVerif AlgoVerif.Generated

/-- the pending lexeme `[b, p)` lies within the two halves and `lexemeBegin` stands for `b` -/
structure LexOK (n : Nat) (i : Input) (p B s b : Nat) : Prop where
  b_le : b ≤ p
  b_lo : B ≤ b + n
  len : p ≤ b + n
  lb : i.lexemeBegin = idx n s B b

/-- one step of `next()`: the state it reaches from position `p` -/
structure Step (S : List UInt8) (n : Nat) (i : Input) (p B s : Nat) (i' : Input) (B' cnt' s' : Nat) : Prop where
  inv : Inv S n i' (p + 1) B' cnt' s'
  same : SameLex i i'
  lex : ∀ b, LexOK n i p B s b → p + 1 ≤ b + n → LexOK n i' (p + 1) B' s' b

/-- `next()` at position `p`: the end of input, or byte `p` and the invariant at `p + 1` -/
theorem next_cases {S : List UInt8} {n : Nat} {i : Input} {p B cnt s : Nat}
    (hinv : Inv S n i p B cnt s) (hnul : NulFree S) :
    (S.drop p = [] ∧ p = S.length ∧ i.next = .ok (i, .error .eof)) ∨
    (∃ b0, S.drop p = b0 :: S.drop (p + 1) ∧ p < S.length ∧ ∃ i' B' cnt' s',
      i.next = .ok (i', .ok b0) ∧ Step S n i p B s i' B' cnt' s') := by
  by_cases hp : p < B + cnt
  · right
    obtain ⟨b0, hb0, i', B', cnt', s', hnext, hinv', hsl, hstep⟩ := next_spec hinv hnul hp
    have hpL : p < S.length := by have := hinv.hiL; omega
    refine ⟨b0, ?_, hpL, i', B', cnt', s', hnext, hinv', hsl, ?_⟩
    · rw [List.drop_eq_getElem_cons hpL]
      congr 1
      rw [List.getElem?_eq_getElem hpL] at hb0
      exact Option.some.inj hb0
    · intro b hl hlen
      have hcnt := hinv.cnt_le
      have hs01 := hinv.s01
      rcases hstep with ⟨hB, hs, _⟩ | ⟨hB, hs, hpB⟩
      · subst hB hs
        exact ⟨by have := hl.b_le; omega, hl.b_lo, hlen, by rw [hsl.lexemeBegin]; exact hl.lb⟩
      · subst hB hs
        refine ⟨by have := hl.b_le; omega, by omega, hlen, ?_⟩
        rw [hsl.lexemeBegin, hl.lb]
        have := hl.b_le
        simp only [idx]
        split <;> split <;> (try split) <;> (try split) <;> omega
  · left
    have hpe : p = B + cnt := by have := hinv.p_hi; omega
    have hL := hinv.atEnd hpe
    refine ⟨by rw [List.drop_eq_nil_iff]; omega, by omega, next_at_end hinv hpe⟩

theorem Inv.of_eq {S : List UInt8} {n : Nat} {i i' : Input} {p B cnt s : Nat} (h : Inv S n i p B cnt s)
    (h1 : i'.src = i.src) (h2 : i'.buff = i.buff) (h3 : i'.forward = i.forward) (h4 : i'.ahead = i.ahead)
    (h5 : i'.err = i.err) : Inv S n i' p B cnt s :=
  { npos := h.npos, size := by rw [h2]; exact h.size, s01 := h.s01, Bn := h.Bn, cnt_pos := h.cnt_pos, cnt_le := h.cnt_le,
    hiL := h.hiL, rest := by rw [h1]; exact h.rest, noio := by rw [h1]; exact h.noio,
    cur := by rw [h2]; exact h.cur, prev := by rw [h2]; exact h.prev, sent := by rw [h2]; exact h.sent,
    p_lo := h.p_lo, p_lo' := h.p_lo', p_hi := h.p_hi, ahead := by rw [h4]; exact h.ahead,
    fw := by rw [h3]; exact h.fw, err := by rw [h5]; exact h.err, atEnd := h.atEnd }

theorem LexOK.of_eq {n : Nat} {i i' : Input} {p B s b : Nat} (h : LexOK n i p B s b)
    (h1 : i'.lexemeBegin = i.lexemeBegin) : LexOK n i' p B s b :=
  ⟨h.b_le, h.b_lo, h.len, by rw [h1]; exact h.lb⟩

/-- the lexeme bookkeeping after `Next` returned the rune `r` of `k` bytes -/
structure Pushed (i i' : Input) (r k : Nat) : Prop where
  lexemeBegin : i'.lexemeBegin = i.lexemeBegin
  offset : i'.offset = i.offset
  line : i'.line = i.line
  column : i'.column = i.column
  runeSizes : i'.runeSizes = k :: i.runeSizes
  nextColumn : i'.nextColumn = if k = 1 ∧ r = 10 then 1 else i.nextColumn + 1
  lastColumns : i'.lastColumns = if k = 1 ∧ r = 10 then i.nextColumn :: i.lastColumns else i.lastColumns

theorem forwardPos_same {i i' : Input} (h : SameLex i i') : i'.forwardPos = i.forwardPos := by
  simp [Input.forwardPos, h.offset, h.line, h.runeSizes, h.lastColumns, h.nextColumn]

/-- what `Next` does, by the outcome of the decoder on the bytes at `forward` -/
def NextPost (S : List UInt8) (n : Nat) (i : Input) (p B s : Nat) : Dec → Prop
  | .rune r k => ∃ i' B' cnt' s', i.Next = .ok (i', .rune r) ∧ Inv S n i' (p + k) B' cnt' s' ∧
      p + k ≤ S.length ∧ Pushed i i' r k ∧
      (∀ b, LexOK n i p B s b → p + k ≤ b + n → LexOK n i' (p + k) B' s' b)
  | .short => ∃ i' B' cnt' s', i.Next = .ok (i', .err .eof) ∧ Inv S n i' S.length B' cnt' s' ∧ SameLex i i' ∧
      (S.drop p = [] → i' = i)
  | .invalid k => ∃ i' B' cnt' s', i.Next = .ok (i', .invalid i.forwardPos) ∧ Inv S n i' (p + k) B' cnt' s' ∧
      SameLex i i'


set_option maxRecDepth 100000 in
theorem size_table : ∀ k, k < 256 → ¬ (lexer_input_first[k]?.getD 0).toNat ≥ lexer_input_as →
    ((lexer_input_first[k]?.getD 0).toNat &&& 7 = 2 ∨ (lexer_input_first[k]?.getD 0).toNat &&& 7 = 3 ∨
     (lexer_input_first[k]?.getD 0).toNat &&& 7 = 4) := by decide

theorem size_cases (b0 : UInt8) (h : ¬ firstOf b0 ≥ lexer_input_as) :
    firstOf b0 &&& 7 = 2 ∨ firstOf b0 &&& 7 = 3 ∨ firstOf b0 &&& 7 = 4 :=
  size_table b0.toNat b0.toNat_lt h

theorem pushRune_pushed {i i2 : Input} (hs : SameLex i i2) (r k : Nat) (hk : k ≠ 1) : Pushed i (i2.pushRune k) r k := by
  have : ¬ (k = 1 ∧ r = 10) := fun h => hk h.1
  constructor <;> simp [Input.pushRune, this, hs.lexemeBegin, hs.offset, hs.line, hs.column, hs.runeSizes,
    hs.nextColumn, hs.lastColumns]

theorem Next_spec {S : List UInt8} {n : Nat} {i : Input} {p B cnt s : Nat}
    (hinv : Inv S n i p B cnt s) (hnul : NulFree S) : NextPost S n i p B s (decodeRune (S.drop p)) := by
  rcases next_cases hinv hnul with ⟨hd, hpL, hnext⟩ | ⟨b0, hd, hpL, i1, B1, c1, s1, hnext, st1⟩
  · -- end of input
    rw [hd]
    refine ⟨i, B, cnt, s, ?_, by rw [← hpL]; exact hinv, SameLex.refl i, fun _ => rfl⟩
    simp [Input.Next, hnext]
  rw [hd]
  simp only [decodeRune]
  generalize hxv : firstOf b0 = x
  by_cases hx : x ≥ lexer_input_as
  · simp only [hx, if_true]
    by_cases hxx : x = lexer_input_xx
    · -- invalid first byte
      simp only [hxx, if_true]
      refine ⟨i1, B1, c1, s1, ?_, st1.inv, st1.same⟩
      subst hxx
      simp only [Input.Next, hnext, hxv, hx, ↓reduceIte, forwardPos_same st1.same]
    · -- ASCII
      simp only [hxx, if_false, NextPost]
      refine ⟨i1.pushAscii b0, B1, c1, s1, ?_, ?_, by omega, ?_, ?_⟩
      · simp only [Input.Next, hnext, hxv, hx, hxx, ↓reduceIte]
      · exact st1.inv.of_eq (by unfold Input.pushAscii; split <;> rfl) (by unfold Input.pushAscii; split <;> rfl)
          (by unfold Input.pushAscii; split <;> rfl) (by unfold Input.pushAscii; split <;> rfl)
          (by unfold Input.pushAscii; split <;> rfl)
      · have hs := st1.same
        have hb10 : (b0 = 10) ↔ (1 = 1 ∧ b0.toNat = 10) := by
          constructor
          · intro h; subst h; exact ⟨rfl, rfl⟩
          · intro h; exact UInt8.toNat_inj.mp h.2
        by_cases h10 : b0 = 10
        · have h10' : (1 = 1 ∧ b0.toNat = 10) := hb10.mp h10
          constructor <;> simp [Input.pushAscii, h10, hs.lexemeBegin, hs.offset, hs.line, hs.column, hs.runeSizes,
            hs.nextColumn, hs.lastColumns]
        · have h10' : ¬ (b0.toNat = 10) := fun h => h10 (hb10.mpr ⟨rfl, h⟩)
          constructor <;> simp [Input.pushAscii, h10, h10', hs.lexemeBegin, hs.offset, hs.line, hs.column, hs.runeSizes,
            hs.nextColumn, hs.lastColumns]
      · intro b hl hlen
        exact (st1.lex b hl hlen).of_eq (by unfold Input.pushAscii; split <;> rfl)
  · -- multi-byte sequence
    have hsz := size_cases b0 (by rw [hxv]; exact hx)
    rw [hxv] at hsz
    simp only [hx, if_false]
    rcases next_cases st1.inv hnul with ⟨hd1, hpL1, hnext1⟩ | ⟨b1, hd1, hpL1, i2, B2, c2, s2, hnext1, st2⟩
    · -- the source ends after the first byte
      rw [hd1]; simp only [NextPost]
      refine ⟨i1, B1, c1, s1, ?_, by rw [← hpL1]; exact st1.inv, st1.same, ?_⟩
      · simp only [Input.Next, hnext, hxv, hx, if_false, hnext1]
      · intro h; rw [hd] at h; cases h
    rw [hd1]; simp only []
    have same2 := st1.same.trans st2.same
    by_cases hacc : b1.toNat < (acceptOf x).1 ∨ (acceptOf x).2 < b1.toNat
    · simp only [hacc, if_true, NextPost]
      refine ⟨i2, B2, c2, s2, ?_, st2.inv, same2⟩
      simp only [Input.Next, hnext, hxv, hx, if_false, hnext1, hacc, if_true, forwardPos_same same2]
    simp only [hacc, if_false]
    by_cases hs2 : x &&& 7 = 2
    · -- two-byte rune
      simp only [hs2, if_true, NextPost]
      refine ⟨i2.pushRune 2, B2, c2, s2, ?_, st2.inv.of_eq rfl rfl rfl rfl rfl, by omega,
        pushRune_pushed same2 _ 2 (by decide), ?_⟩
      · simp only [Input.Next, hnext, hxv, hx, if_false, hnext1, hacc, hs2, if_true]
      · intro b hl hlen
        exact (st2.lex b (st1.lex b hl (by omega)) (by omega)).of_eq rfl
    simp only [hs2, if_false]
    rcases next_cases st2.inv hnul with ⟨hd2, hpL2, hnext2⟩ | ⟨b2, hd2, hpL2, i3, B3, c3, s3, hnext2, st3⟩
    · -- the source ends after the second byte
      rw [hd2]; simp only [NextPost]
      refine ⟨i2, B2, c2, s2, ?_, by rw [← hpL2]; exact st2.inv, same2, ?_⟩
      · simp only [Input.Next, hnext, hxv, hx, if_false, hnext1, hacc, hs2, hnext2]
      · intro h; rw [hd] at h; cases h
    rw [hd2]; simp only []
    have same3 := same2.trans st3.same
    by_cases hc2 : b2.toNat < lexer_input_locb ∨ lexer_input_hicb < b2.toNat
    · simp only [hc2, if_true, NextPost]
      refine ⟨i3, B3, c3, s3, ?_, st3.inv, same3⟩
      simp only [Input.Next, hnext, hxv, hx, if_false, hnext1, hacc, hs2, hnext2, hc2, if_true,
        forwardPos_same same3]
    simp only [hc2, if_false]
    by_cases hs3 : x &&& 7 = 3
    · -- three-byte rune
      simp only [hs3, if_true, NextPost]
      refine ⟨i3.pushRune 3, B3, c3, s3, ?_, st3.inv.of_eq rfl rfl rfl rfl rfl, by omega,
        pushRune_pushed same3 _ 3 (by decide), ?_⟩
      · have h32 : ¬ ((3 : Nat) = 2) := by decide
        simp only [Input.Next, hnext, hxv, hx, if_false, hnext1, hacc, hnext2, hc2, hs3, h32, if_true]
      · intro b hl hlen
        exact (st3.lex b (st2.lex b (st1.lex b hl (by omega)) (by omega)) (by omega)).of_eq rfl
    simp only [hs3, if_false]
    have hs4 : x &&& 7 = 4 := by
      rcases hsz with h | h | h
      · exact absurd h hs2
      · exact absurd h hs3
      · exact h
    rcases next_cases st3.inv hnul with ⟨hd3, hpL3, hnext3⟩ | ⟨b3, hd3, hpL3, i4, B4, c4, s4, hnext3, st4⟩
    · -- the source ends after the third byte
      rw [hd3]; simp only [NextPost]
      refine ⟨i3, B3, c3, s3, ?_, by rw [← hpL3]; exact st3.inv, same3, ?_⟩
      · simp only [Input.Next, hnext, hxv, hx, if_false, hnext1, hacc, hs2, hnext2, hc2, hs3, hnext3]
      · intro h; rw [hd] at h; cases h
    rw [hd3]; simp only []
    have same4 := same3.trans st4.same
    by_cases hc3 : b3.toNat < lexer_input_locb ∨ lexer_input_hicb < b3.toNat
    · simp only [hc3, if_true, NextPost]
      refine ⟨i4, B4, c4, s4, ?_, st4.inv, same4⟩
      simp only [Input.Next, hnext, hxv, hx, if_false, hnext1, hacc, hs2, hnext2, hc2, hs3, hnext3, hc3, if_true,
        forwardPos_same same4]
    -- four-byte rune
    simp only [hc3, if_false, hs4, NextPost]
    refine ⟨i4.pushRune 4, B4, c4, s4, ?_, st4.inv.of_eq rfl rfl rfl rfl rfl, by omega,
      pushRune_pushed same4 _ 4 (by decide), ?_⟩
    · have h42 : ¬ ((4 : Nat) = 2) := by decide
      have h43 : ¬ ((4 : Nat) = 3) := by decide
      simp only [Input.Next, hnext, hxv, hx, if_false, hnext1, hacc, hnext2, hc2, hnext3, hc3, hs4, h42, h43]
    · intro b hl hlen
      exact (st4.lex b (st3.lex b (st2.lex b (st1.lex b hl (by omega)) (by omega)) (by omega)) (by omega)).of_eq rfl

end AlgoVerif.C19
