import AlgoVerif.Model.C06Run
/-!
# C06 — the order on keys and strictly sorted association lists

`klt` is the lexicographic order of core Lean's `List` (`klt_iff_lt`), a strict total order; a list
strictly sorted by it is determined by its elements (`Sorted.ext`).
-/
namespace AlgoVerif.C06
variable {V : Type}

/-! ## bytes -/

theorem u8_lt_irrefl (a : UInt8) : ¬ a < a := by
  rw [UInt8.lt_iff_toNat_lt]; omega

theorem u8_lt_trans {a b c : UInt8} (h1 : a < b) (h2 : b < c) : a < c := by
  rw [UInt8.lt_iff_toNat_lt] at *; omega

theorem u8_lt_asymm {a b : UInt8} (h1 : a < b) : ¬ b < a := by
  rw [UInt8.lt_iff_toNat_lt] at *; omega

theorem u8_trichotomy (a b : UInt8) : a < b ∨ a = b ∨ b < a := by
  rcases Nat.lt_trichotomy a.toNat b.toNat with h | h | h
  · exact .inl (UInt8.lt_iff_toNat_lt.mpr h)
  · exact .inr (.inl (UInt8.toNat_inj.mp h))
  · exact .inr (.inr (UInt8.lt_iff_toNat_lt.mpr h))

theorem u8_gt_iff {a b : UInt8} : (a > b) ↔ b < a := Iff.rfl

/-! ## `klt` -/

@[simp] theorem klt_nil_nil : klt [] [] = false := rfl
@[simp] theorem klt_nil_cons (b : UInt8) (bs : Key) : klt [] (b :: bs) = true := rfl
@[simp] theorem klt_cons_nil (a : UInt8) (as : Key) : klt (a :: as) [] = false := rfl
theorem klt_cons_cons (a b : UInt8) (as bs : Key) :
    klt (a :: as) (b :: bs) = if a < b then true else if a == b then klt as bs else false := rfl

@[simp] theorem klt_nil_right (a : Key) : klt a [] = false := by cases a <;> rfl

@[simp] theorem klt_cons_same (a : UInt8) (as bs : Key) : klt (a :: as) (a :: bs) = klt as bs := by
  simp [klt_cons_cons]

theorem klt_cons_of_lt {a b : UInt8} (h : a < b) (as bs : Key) : klt (a :: as) (b :: bs) = true := by
  simp [klt_cons_cons, h]

theorem klt_cons_of_gt {a b : UInt8} (h : b < a) (as bs : Key) : klt (a :: as) (b :: bs) = false := by
  have h1 : ¬ a < b := u8_lt_asymm h
  have h2 : a ≠ b := by rintro rfl; exact u8_lt_irrefl _ h
  simp [klt_cons_cons, h1, h2]

/-- `klt` is core Lean's lexicographic `<` on lists of bytes -/
theorem klt_iff_lt (a b : Key) : klt a b = true ↔ a < b := by
  induction a generalizing b with
  | nil => cases b <;> simp
  | cons x xs ih =>
    cases b with
    | nil => simp
    | cons y ys =>
      rw [klt_cons_cons, List.cons_lt_cons_iff]
      rcases u8_trichotomy x y with h | h | h
      · simp [h]
      · subst h; simp [ih]
      · have h1 : ¬ x < y := u8_lt_asymm h
        have h2 : x ≠ y := by rintro rfl; exact u8_lt_irrefl _ h
        simp [h1, h2]

theorem klt_irrefl (a : Key) : klt a a = false := by
  induction a with
  | nil => rfl
  | cons x xs ih => simp [ih]

theorem klt_trans {a b c : Key} (h1 : klt a b = true) (h2 : klt b c = true) : klt a c = true := by
  induction a generalizing b c with
  | nil => cases c with
    | nil => cases b <;> simp at h2
    | cons => rfl
  | cons x xs ih =>
    cases b with
    | nil => simp at h1
    | cons y ys =>
      cases c with
      | nil => simp at h2
      | cons z zs =>
        rw [klt_cons_cons] at h1 h2 ⊢
        rcases u8_trichotomy x y with hxy | hxy | hxy
        · rcases u8_trichotomy y z with hyz | hyz | hyz
          · simp [u8_lt_trans hxy hyz]
          · subst hyz; simp [hxy]
          · have : ¬ y < z := u8_lt_asymm hyz
            have : y ≠ z := by rintro rfl; exact u8_lt_irrefl _ hyz
            simp_all
        · subst hxy
          rcases u8_trichotomy x z with hyz | hyz | hyz
          · simp [hyz]
          · subst hyz
            simp at h1 h2 ⊢
            exact ih h1 h2
          · have : ¬ x < z := u8_lt_asymm hyz
            have : x ≠ z := by rintro rfl; exact u8_lt_irrefl _ hyz
            simp_all
        · have : ¬ x < y := u8_lt_asymm hxy
          have : x ≠ y := by rintro rfl; exact u8_lt_irrefl _ hxy
          simp_all

theorem klt_asymm {a b : Key} (h : klt a b = true) : klt b a = false := by
  cases h' : klt b a with
  | false => rfl
  | true => have := klt_trans h h'; simp [klt_irrefl] at this

theorem klt_trichotomy (a b : Key) : klt a b = true ∨ a = b ∨ klt b a = true := by
  induction a generalizing b with
  | nil => cases b <;> simp
  | cons x xs ih =>
    cases b with
    | nil => simp
    | cons y ys =>
      rcases u8_trichotomy x y with h | h | h
      · exact .inl (klt_cons_of_lt h _ _)
      · subst h
        simp only [klt_cons_same, List.cons.injEq, true_and]
        exact ih ys
      · exact .inr (.inr (klt_cons_of_lt h _ _))

theorem klt_ne {a b : Key} (h : klt a b = true) : a ≠ b := by
  rintro rfl; simp [klt_irrefl] at h

theorem kle_iff (a b : Key) : kle a b = true ↔ klt a b = true ∨ a = b := by
  unfold kle
  rcases klt_trichotomy a b with h | h | h
  · simp [h, klt_asymm h]
  · subst h; simp [klt_irrefl]
  · simp [h, klt_asymm h]
    rintro rfl; simp [klt_irrefl] at h

theorem kle_refl (a : Key) : kle a a = true := by simp [kle, klt_irrefl]

theorem kle_of_klt {a b : Key} (h : klt a b = true) : kle a b = true := (kle_iff a b).mpr (.inl h)

theorem klt_of_klt_of_kle {a b c : Key} (h1 : klt a b = true) (h2 : kle b c = true) : klt a c = true := by
  rcases (kle_iff b c).mp h2 with h | h
  · exact klt_trans h1 h
  · subst h; exact h1

theorem klt_of_kle_of_klt {a b c : Key} (h1 : kle a b = true) (h2 : klt b c = true) : klt a c = true := by
  rcases (kle_iff a b).mp h1 with h | h
  · exact klt_trans h h2
  · subst h; exact h2

theorem kle_trans {a b c : Key} (h1 : kle a b = true) (h2 : kle b c = true) : kle a c = true := by
  rcases (kle_iff a b).mp h1 with h | h
  · exact kle_of_klt (klt_of_klt_of_kle h h2)
  · subst h; exact h2

theorem not_klt_iff_kle (a b : Key) : klt a b = false ↔ kle b a = true := by simp [kle]

theorem not_kle_iff_klt (a b : Key) : kle a b = false ↔ klt b a = true := by simp [kle]

/-- a proper extension is larger -/
theorem klt_append_right (a : Key) {b : Key} (h : b ≠ []) : klt a (a ++ b) = true := by
  induction a with
  | nil => cases b with
    | nil => exact absurd rfl h
    | cons => rfl
  | cons x xs ih => simpa using ih

/-! ## strictly sorted association lists -/

/-- strictly increasing keys -/
def Sorted (m : List (Key × V)) : Prop := m.Pairwise (fun a b => klt a.1 b.1 = true)

theorem Sorted.nil : Sorted ([] : List (Key × V)) := List.Pairwise.nil

theorem Sorted.tail {e : Key × V} {m : List (Key × V)} (h : Sorted (e :: m)) : Sorted m :=
  (List.pairwise_cons.mp h).2

theorem Sorted.head_lt {e : Key × V} {m : List (Key × V)} (h : Sorted (e :: m)) :
    ∀ x ∈ m, klt e.1 x.1 = true := (List.pairwise_cons.mp h).1

theorem Sorted.filter (p : Key × V → Bool) {m : List (Key × V)} (h : Sorted m) : Sorted (m.filter p) :=
  List.Pairwise.filter p h

/-- in a sorted list a key occurs at most once -/
theorem Sorted.unique {m : List (Key × V)} (h : Sorted m) {k : Key} {v w : V}
    (h1 : (k, v) ∈ m) (h2 : (k, w) ∈ m) : v = w := by
  induction m with
  | nil => simp at h1
  | cons e m ih =>
    have hlt := h.head_lt
    rcases List.mem_cons.mp h1 with r1 | r1 <;> rcases List.mem_cons.mp h2 with r2 | r2
    · rw [← r1] at r2; exact (Prod.mk.inj r2).2.symm
    · have := hlt _ r2; rw [← r1] at this; simp [klt_irrefl] at this
    · have := hlt _ r1; rw [← r2] at this; simp [klt_irrefl] at this
    · exact ih h.tail r1 r2

/-- two strictly sorted lists with the same elements are equal -/
theorem Sorted.ext {a b : List (Key × V)} (ha : Sorted a) (hb : Sorted b)
    (h : ∀ e, e ∈ a ↔ e ∈ b) : a = b := by
  induction a generalizing b with
  | nil =>
    cases b with
    | nil => rfl
    | cons y ys => exact absurd ((h y).mpr (List.mem_cons_self ..)) (by simp)
  | cons x xs ih =>
    cases b with
    | nil => exact absurd ((h x).mp (List.mem_cons_self ..)) (by simp)
    | cons y ys =>
      have hx := ha.head_lt
      have hy := hb.head_lt
      have hxy : x = y := by
        rcases List.mem_cons.mp ((h x).mp (List.mem_cons_self ..)) with r | r
        · exact r
        · rcases List.mem_cons.mp ((h y).mpr (List.mem_cons_self ..)) with r' | r'
          · exact r'.symm
          · have h1 := hy _ r
            have h2 := hx _ r'
            simp [klt_asymm h1] at h2
      subst hxy
      congr 1
      apply ih ha.tail hb.tail
      intro e
      constructor
      · intro he
        rcases List.mem_cons.mp ((h e).mp (List.mem_cons_of_mem _ he)) with r | r
        · subst r; have := hx _ he; simp [klt_irrefl] at this
        · exact r
      · intro he
        rcases List.mem_cons.mp ((h e).mpr (List.mem_cons_of_mem _ he)) with r | r
        · subst r; have := hy _ he; simp [klt_irrefl] at this
        · exact r

end AlgoVerif.C06
