import AlgoVerif.Proofs.C08EmptyC
import AlgoVerif.Proofs.C09Post
/-!
# Well-formedness is preserved (pruning, ε-, unit-elimination) and `EliminateCycles` preserves the language
-/
namespace AlgoVerif.C08
open AlgoVerif AlgoVerif.Gram AlgoVerif.C08.Spec

theorem pruneStep_wf {g g' : G} (h : pruneStep g = some g') (hw : WellFormed g) : WellFormed g' := by
  obtain ⟨n, _, hns, hnp, hs, ht, hnt, hp⟩ := pruneStep_spec h
  obtain ⟨h1, h2⟩ := hw
  refine ⟨?_, ?_⟩
  · rw [hs, hnt]
    exact List.mem_filter.mpr ⟨h1, by simpa using fun e => hns e.symm⟩
  · intro p hpp
    rw [hp] at hpp
    obtain ⟨hpg, hpn⟩ := List.mem_filter.mp hpp
    obtain ⟨hh, hb⟩ := h2 p hpg
    refine ⟨?_, ?_⟩
    · rw [hnt]
      refine List.mem_filter.mpr ⟨hh, ?_⟩
      have : p.head ≠ n := by
        intro e
        have : hasProd g.prods n = true := hasProd_iff.mpr ⟨p, hpg, e⟩
        rw [hnp] at this; cases this
      simpa using this
    · intro s hs'
      have := hb s hs'
      cases s with
      | term t => unfold SymDeclared at this ⊢; rw [ht]; exact this
      | nonterm m =>
        unfold SymDeclared at this ⊢
        rw [hnt]
        refine List.mem_filter.mpr ⟨this, ?_⟩
        have hne : m ≠ n := by
          intro e
          subst e
          simp at hpn
          exact hpn hs'
        simpa using hne

theorem pruneN_wf (k : Nat) : ∀ g : G, WellFormed g → WellFormed (pruneN k g) := by
  induction k with
  | zero => intro g h; exact h
  | succ k ih =>
    intro g h
    simp only [pruneN]
    split
    · exact h
    · rename_i g' hg'
      exact ih g' (pruneStep_wf hg' h)

theorem prune_wf {g : G} (h : WellFormed g) : WellFormed (prune g) := pruneN_wf _ g h

theorem elimEmpty_wf {g g' : G} (h : elimEmpty g = .ok g') (hw : WellFormed g) : WellFormed g' := by
  obtain ⟨nul, hn, hcase⟩ := elimEmpty_ok h
  have hspec := emptyFreeProds_spec (g := g) (nullable_sound hn)
  obtain ⟨h1, h2⟩ := hw
  rcases hcase with ⟨_, rfl⟩ | ⟨_, s', hf, rfl⟩
  · apply prune_wf
    refine ⟨h1, ?_⟩
    intro p' hp'
    obtain ⟨_, p, hp, hh, _, hsub⟩ := hspec p' hp'
    obtain ⟨ha, hb⟩ := h2 p hp
    exact ⟨hh ▸ ha, fun s hs => by
      have := hb s (hsub s hs)
      cases s <;> exact this⟩
  · apply prune_wf
    refine ⟨by simp, ?_⟩
    intro p' hp'
    rcases mem_ins.mp hp' with hp' | rfl
    · rcases mem_ins.mp hp' with hp' | rfl
      · obtain ⟨_, p, hp, hh, _, hsub⟩ := hspec p' hp'
        obtain ⟨ha, hb⟩ := h2 p hp
        refine ⟨by simp; exact Or.inl (hh ▸ ha), fun s hs => ?_⟩
        have := hb s (hsub s hs)
        cases s with
        | term t => exact this
        | nonterm m => unfold SymDeclared at this ⊢; simp; exact Or.inl this
      · refine ⟨by simp, fun s hs => ?_⟩
        simp at hs
        subst hs
        unfold SymDeclared; simp; exact Or.inl h1
    · exact ⟨by simp, fun s hs => by simp at hs⟩

theorem elimCycles_language {g g' : G} (h : elimCycles g = .ok g') (hw : WellFormed g) (w : List String) :
    Language g' w ↔ Language g w := by
  obtain ⟨g1, g2, h1, h2, h3⟩ := elimCycles_ok h
  rw [elimUnreachable_language h3, elimSingle_language h2 (elimEmpty_wf h1 hw), elimEmpty_language h1 hw]

end AlgoVerif.C08
