import AlgoVerif.Proofs.C08Macro
/-!
# BIN (`eliminateNonBinaryProductions`): what the result is

Ghost state: `defs`, the list of (fresh name, the string of symbols it stands for).  For the chain
`A → X₁ A₁, A₁ → X₂ A₂, …, Aₙ₋₂ → Xₙ₋₁ Xₙ` built from `A → X₁ … Xₙ`, `Aᵢ` stands for `Xᵢ₊₁ … Xₙ`.
-/
namespace AlgoVerif.C08
open AlgoVerif AlgoVerif.Gram AlgoVerif.C08.Spec

abbrev Defs := List (String × List SSym)

/-- productions BIN copies unchanged -/
def binSkip (p : SProd) : Bool := isTerminalProd p || isBinary p || p.body.isEmpty || isSingle p

/-- a symbol of the body of a production of `g` that BIN chains -/
def OldSym (g : G) (x : SSym) : Prop := ∃ p ∈ g.prods, binSkip p = false ∧ x ∈ p.body

/-- `h` stands for `β`: an original production `h → β` that is being chained, or a recorded fresh name -/
def Exp (g : G) (defs : Defs) (h : String) (β : List SSym) : Prop :=
  (∃ p ∈ g.prods, p.head = h ∧ p.body = β ∧ binSkip p = false) ∨ (h, β) ∈ defs

/-- the body of a chain link for something that stands for `β` -/
def LinkBody (g : G) (defs : Defs) (body β : List SSym) : Prop :=
  (∃ x hN r, body = [x, Sym.nonterm hN] ∧ (hN, r) ∈ defs ∧ β = x :: r ∧ OldSym g x) ∨
  (∃ x y, body = [x, y] ∧ β = [x, y] ∧ OldSym g x ∧ OldSym g y)

def BinProd (g : G) (defs : Defs) (p' : SProd) : Prop :=
  (p' ∈ g.prods ∧ binSkip p' = true) ∨ (∃ β, Exp g defs p'.head β ∧ LinkBody g defs p'.body β)

/-- `h`, which stands for `β`, has its chain link in `ng` -/
def HasLink (g : G) (ng : G) (defs : Defs) (h : String) (β : List SSym) : Prop :=
  ∃ p' ∈ ng.prods, p'.head = h ∧ LinkBody g defs p'.body β

structure BinCore (g ng : G) (defs : Defs) : Prop where
  terms : ng.terms = g.terms
  start : ng.start = g.start
  nonterms : ng.nonterms = g.nonterms ++ defs.map (fun d => d.1)
  freshg : ∀ d ∈ defs, d.1 ∉ g.nonterms
  inj : ∀ d ∈ defs, ∀ d' ∈ defs, d.1 = d'.1 → d = d'
  old : ∀ d ∈ defs, ∀ s ∈ d.2, OldSym g s
  form : ∀ d ∈ defs, ∃ b, ∃ s ∈ numerics, d.1 = b ++ s
  prods : ∀ p' ∈ ng.prods, BinProd g defs p'

theorem Exp.mono {g : G} {defs defs' : Defs} (hs : ∀ d ∈ defs, d ∈ defs') {h : String} {β : List SSym}
    (he : Exp g defs h β) : Exp g defs' h β := by
  rcases he with he | he
  · exact Or.inl he
  · exact Or.inr (hs _ he)

theorem LinkBody.mono {g : G} {defs defs' : Defs} (hs : ∀ d ∈ defs, d ∈ defs') {b β : List SSym}
    (hl : LinkBody g defs b β) : LinkBody g defs' b β := by
  rcases hl with ⟨x, hN, r, h1, h2, h3, h4⟩ | h
  · exact Or.inl ⟨x, hN, r, h1, hs _ h2, h3, h4⟩
  · exact Or.inr h

theorem BinProd.mono {g : G} {defs defs' : Defs} (hs : ∀ d ∈ defs, d ∈ defs') {p' : SProd}
    (h : BinProd g defs p') : BinProd g defs' p' := by
  rcases h with h | ⟨β, he, hl⟩
  · exact Or.inl h
  · exact Or.inr ⟨β, he.mono hs, hl.mono hs⟩

theorem HasLink.mono {g ng ng' : G} {defs defs' : Defs} (hp : ∀ p ∈ ng.prods, p ∈ ng'.prods)
    (hs : ∀ d ∈ defs, d ∈ defs') {h : String} {β : List SSym} (hl : HasLink g ng defs h β) :
    HasLink g ng' defs' h β := by
  obtain ⟨p', hp', hh, hb⟩ := hl
  exact ⟨p', hp p' hp', hh, hb.mono hs⟩

/-- a head that stands for something is either old with no def of that name, or the def itself -/
theorem BinCore.exp_def {g ng : G} {defs : Defs} (hc : BinCore g ng defs) (hw : WellFormed g)
    {h : String} {β : List SSym} (he : Exp g defs h β) {d : String × List SSym} (hd : d ∈ defs) (hdh : d.1 = h) :
    d = (h, β) := by
  rcases he with ⟨p, hp, hh, _, _⟩ | he
  · exfalso
    apply hc.freshg d hd
    rw [hdh, ← hh]
    exact (hw.2 p hp).1
  · exact hc.inj d hd (h, β) he hdh

/-! ## the chain -/

/-- the grammar after one link `head → x hN` with the fresh `hN` -/
def binLink (ng : G) (head : String) (x : SSym) (hN : String) : G :=
  { ng with nonterms := ng.nonterms ++ [hN], prods := ins ng.prods { head := head, body := [x, Sym.nonterm hN] } }

theorem binChain_spec {g : G} (hw : WellFormed g) (A : String) :
    ∀ (fuel : Nat) (head : String) (rest : List SSym) (ng ng' : G) (defs : Defs),
      BinCore g ng defs → Exp g defs head rest → (∀ s ∈ rest, OldSym g s) → 2 ≤ rest.length →
      rest.length ≤ fuel + 1 →
      (∀ d ∈ defs, d.1 ≠ head → HasLink g ng defs d.1 d.2) →
      binChain A fuel head rest ng = .ok ng' →
      ∃ defs', BinCore g ng' defs' ∧ (∀ d ∈ defs, d ∈ defs') ∧ (∀ p ∈ ng.prods, p ∈ ng'.prods) ∧
        (∀ d ∈ defs', HasLink g ng' defs' d.1 d.2) ∧ HasLink g ng' defs' head rest := by
  intro fuel
  induction fuel with
  | zero =>
    intro head rest ng ng' defs _ _ _ h2 hf _ _
    omega
  | succ fuel ih =>
    intro head rest ng ng' defs hc he hold h2 hf hpend hrun
    match rest, h2, hf, he, hold, hrun with
    | [x, y], _, _, he, hold, hrun =>
      simp only [binChain, pure] at hrun
      cases hrun
      have hlb : LinkBody g defs [x, y] [x, y] :=
        Or.inr ⟨x, y, rfl, rfl, hold x (by simp), hold y (by simp)⟩
      have hsub : ∀ p ∈ ng.prods, p ∈ ins ng.prods ({ head := head, body := [x, y] } : SProd) :=
        fun p hp => mem_ins.mpr (Or.inl hp)
      have hlink : HasLink g { ng with prods := ins ng.prods { head := head, body := [x, y] } } defs head [x, y] :=
        ⟨{ head := head, body := [x, y] }, mem_ins.mpr (Or.inr rfl), rfl, hlb⟩
      refine ⟨defs, ⟨hc.terms, hc.start, hc.nonterms, hc.freshg, hc.inj, hc.old, hc.form, ?_⟩, fun _ h => h, hsub, ?_, hlink⟩
      · intro q hq
        rcases mem_ins.mp hq with hq | rfl
        · exact hc.prods q hq
        · exact Or.inr ⟨[x, y], he, hlb⟩
      · intro d hd
        by_cases hdh : d.1 = head
        · have := hc.exp_def hw he hd hdh
          rw [this]; exact hlink
        · exact (hpend d hd hdh).mono hsub (fun _ h => h)
    | x :: y :: z :: rest'', _, hf, he, hold, hrun =>
      simp only [binChain] at hrun
      cases ha : addNew ng A numerics with
      | ok r =>
        obtain ⟨g1, hN⟩ := r
        simp only [ha, bind, Outcome.bind] at hrun
        obtain ⟨sN, hsN, hformN⟩ := addNew_form ha
        obtain ⟨hfresh, rfl⟩ := addNew_ok ha
        -- the grammar and the ghost state after this link
        have hNg : hN ∉ g.nonterms := fun hg => hfresh (by rw [hc.nonterms]; exact List.mem_append.mpr (Or.inl hg))
        have hNd : ∀ d ∈ defs, d.1 ≠ hN := by
          intro d hd hdn
          apply hfresh
          rw [hc.nonterms]
          exact List.mem_append.mpr (Or.inr (List.mem_map.mpr ⟨d, hd, hdn⟩))
        let defs1 : Defs := defs ++ [(hN, y :: z :: rest'')]
        have hs1 : ∀ d ∈ defs, d ∈ defs1 := fun d hd => List.mem_append.mpr (Or.inl hd)
        have hmem1 : (hN, y :: z :: rest'') ∈ defs1 := List.mem_append.mpr (Or.inr (by simp))
        have hlb : LinkBody g defs1 [x, Sym.nonterm hN] (x :: y :: z :: rest'') :=
          Or.inl ⟨x, hN, y :: z :: rest'', rfl, hmem1, rfl, hold x (by simp)⟩
        have hc1 : BinCore g (binLink ng head x hN) defs1 := by
          refine ⟨hc.terms, hc.start, ?_, ?_, ?_, ?_, ?_, ?_⟩
          · simp [binLink, defs1, hc.nonterms]
          · intro d hd
            rcases List.mem_append.mp hd with hd | hd
            · exact hc.freshg d hd
            · simp at hd; subst hd; exact hNg
          · intro d hd d' hd' hdd
            rcases List.mem_append.mp hd with hd | hd <;> rcases List.mem_append.mp hd' with hd' | hd'
            · exact hc.inj d hd d' hd' hdd
            · simp at hd'; subst hd'; exact absurd hdd (hNd d hd)
            · simp at hd; subst hd; exact absurd hdd.symm (hNd d' hd')
            · simp at hd hd'; rw [hd, hd']
          · intro d hd s hs
            rcases List.mem_append.mp hd with hd | hd
            · exact hc.old d hd s hs
            · simp at hd; subst hd
              exact hold s (List.mem_cons_of_mem _ hs)
          · intro d hd
            rcases List.mem_append.mp hd with hd | hd
            · exact hc.form d hd
            · simp at hd; subst hd
              exact ⟨_, sN, hsN, hformN⟩
          · intro q hq
            rcases mem_ins.mp hq with hq | rfl
            · exact (hc.prods q hq).mono hs1
            · exact Or.inr ⟨x :: y :: z :: rest'', he.mono hs1, hlb⟩
        have hsub1 : ∀ p ∈ ng.prods, p ∈ ins ng.prods ({ head := head, body := [x, Sym.nonterm hN] } : SProd) :=
          fun p hp => mem_ins.mpr (Or.inl hp)
        have hlink1 : HasLink g (binLink ng head x hN) defs1 head (x :: y :: z :: rest'') :=
          ⟨{ head := head, body := [x, Sym.nonterm hN] }, mem_ins.mpr (Or.inr rfl), rfl, hlb⟩
        have hpend1 : ∀ d ∈ defs1, d.1 ≠ hN → HasLink g (binLink ng head x hN) defs1 d.1 d.2 := by
          intro d hd hdn
          rcases List.mem_append.mp hd with hd | hd
          · by_cases hdh : d.1 = head
            · have := hc.exp_def hw he hd hdh
              rw [this]; exact hlink1
            · exact (hpend d hd hdh).mono hsub1 hs1
          · simp at hd; subst hd; exact absurd rfl hdn
        obtain ⟨defs', hc', hs', hp', hdone, hlinkN⟩ := ih hN (y :: z :: rest'') _ ng' defs1 hc1 (Or.inr hmem1)
          (fun s hs => hold s (List.mem_cons_of_mem _ hs)) (by simp) (by simp at hf ⊢; omega) hpend1 hrun
        exact ⟨defs', hc', fun d hd => hs' d (hs1 d hd), fun p hp => hp' p (hsub1 p hp), hdone,
          hlink1.mono hp' hs'⟩
      | panic => simp [ha, bind, Outcome.bind] at hrun
      | diverge => simp [ha, bind, Outcome.bind] at hrun
    | [], h2, _, _, _, _ => simp at h2
    | [_], h2, _, _, _, _ => simp at h2

end AlgoVerif.C08
