import AlgoVerif.Proofs.C01Avl
/-!
# C15: AVL balance and cached heights (no assumption on the comparator)
-/
namespace AlgoVerif.C01
open Tree

variable {K V : Type} {cmp : K → K → Int}

/-- every cached height is `1 + max` of the children's cached heights, and they differ by at most one -/
def AVL : Tree K V → Prop
  | .nil => True
  | .node l _ _ _ h _ r => h = 1 + max l.ht r.ht ∧ l.ht ≤ r.ht + 1 ∧ r.ht ≤ l.ht + 1 ∧ AVL l ∧ AVL r

@[simp] theorem AVL_nil : AVL (Tree.nil : Tree K V) = True := rfl
@[simp] theorem AVL_node (l : Tree K V) (k v s h c r) :
    AVL (Tree.node l k v s h c r) =
      (h = 1 + max l.ht r.ht ∧ l.ht ≤ r.ht + 1 ∧ r.ht ≤ l.ht + 1 ∧ AVL l ∧ AVL r) := rfl

/-- the heights of the two subtrees of every node differ by at most one (real heights) -/
def Balanced : Tree K V → Prop
  | .nil => True
  | .node l _ _ _ _ _ r =>
    l.realHeight ≤ r.realHeight + 1 ∧ r.realHeight ≤ l.realHeight + 1 ∧ Balanced l ∧ Balanced r

/-- every cached height is the real height of its subtree -/
def HeightOK : Tree K V → Prop
  | .nil => True
  | .node l k v s h c r => h = (Tree.node l k v s h c r).realHeight ∧ HeightOK l ∧ HeightOK r

theorem AVL.ht_eq : ∀ {t : Tree K V}, AVL t → t.ht = t.realHeight
  | .nil, _ => rfl
  | .node l k v s h c r, ha => by
    simp only [AVL_node] at ha
    simp only [ht_node, realHeight, ha.1, AVL.ht_eq ha.2.2.2.1, AVL.ht_eq ha.2.2.2.2]

theorem AVL.balanced : ∀ {t : Tree K V}, AVL t → Balanced t ∧ HeightOK t
  | .nil, _ => ⟨trivial, trivial⟩
  | .node l k v s h c r, ha => by
    have hh := AVL.ht_eq ha
    simp only [AVL_node] at ha
    obtain ⟨h1, h2, h3, hl, hr⟩ := ha
    have el := AVL.ht_eq hl
    have er := AVL.ht_eq hr
    obtain ⟨bl, ol⟩ := AVL.balanced hl
    obtain ⟨br, or⟩ := AVL.balanced hr
    refine ⟨⟨by omega, by omega, bl, br⟩, ⟨?_, ol, or⟩⟩
    simpa using hh

/-- `balance` after `n.height = …` on two AVL subtrees whose heights differ by at most two -/
theorem avlBalance_avl (l : Tree K V) (k : K) (v : V) (c : Bool) (r : Tree K V)
    (hl : AVL l) (hr : AVL r) (h1 : l.ht ≤ r.ht + 2) (h2 : r.ht ≤ l.ht + 2) :
    ∃ n', avlBalance (avlFix l k v c r) = .ok n' ∧ AVL n' ∧
      (if l.ht = r.ht + 2 then n'.ht = l.ht ∨ n'.ht = l.ht + 1
       else if r.ht = l.ht + 2 then n'.ht = r.ht ∨ n'.ht = r.ht + 1
       else n'.ht = 1 + max l.ht r.ht) := by
  unfold avlFix avlBalance
  simp only [balanceFactor, Outcome.ok_bind']
  by_cases hb2 : (l.ht : Int) - r.ht = 2
  · rw [if_pos hb2]
    have e1 : l.ht = r.ht + 2 := by omega
    cases l with
    | nil => rw [ht_nil] at hb2; omega
    | node ll lk lv ls lh lc lr =>
      simp only [balanceFactor, Outcome.ok_bind']
      simp only [AVL_node] at hl
      simp only [ht_node] at e1 h1 h2 hb2
      by_cases hb1 : (ll.ht : Int) - lr.ht = -1
      · rw [if_pos hb1]
        cases lr with
        | nil => rw [ht_nil] at hb1; omega
        | node a bk bv bs bh bc b =>
          simp only [avlRotateLeft, avlRotateRight, Outcome.ok_bind']
          simp only [AVL_node] at hl
          simp only [ht_node] at hb1 hl
          refine ⟨_, rfl, ?_, ?_⟩
          · simp only [AVL_node, ht_node] at *; grind
          · simp only [AVL_node, ht_node] at *; grind
      · rw [if_neg hb1]
        simp only [avlRotateRight, Outcome.ok_bind', Outcome.pure_eq']
        refine ⟨_, rfl, ?_, ?_⟩
        · simp only [AVL_node, ht_node] at *; grind
        · simp only [AVL_node, ht_node] at *; grind
  · rw [if_neg hb2]
    have e1 : ¬ l.ht = r.ht + 2 := by omega
    by_cases hb3 : (l.ht : Int) - r.ht = -2
    · rw [if_pos hb3]
      have e2 : r.ht = l.ht + 2 := by omega
      cases r with
      | nil => rw [ht_nil] at hb3; omega
      | node rl rk rv rs rh rc rr =>
        simp only [balanceFactor, Outcome.ok_bind']
        simp only [AVL_node] at hr
        simp only [ht_node] at e1 e2 h1 h2 hb3
        by_cases hb1 : (rl.ht : Int) - rr.ht = 1
        · rw [if_pos hb1]
          cases rl with
          | nil => rw [ht_nil] at hb1; omega
          | node a bk bv bs bh bc b =>
            simp only [avlRotateLeft, avlRotateRight, Outcome.ok_bind']
            simp only [AVL_node] at hr
            simp only [ht_node] at hb1 hr
            refine ⟨_, rfl, ?_, ?_⟩
            · simp only [AVL_node, ht_node] at *; grind
            · simp only [AVL_node, ht_node] at *; grind
        · rw [if_neg hb1]
          simp only [avlRotateLeft, Outcome.ok_bind', Outcome.pure_eq']
          refine ⟨_, rfl, ?_, ?_⟩
          · simp only [AVL_node, ht_node] at *; grind
          · simp only [AVL_node, ht_node] at *; grind
    · rw [if_neg hb3]
      have e2 : ¬ r.ht = l.ht + 2 := by omega
      refine ⟨_, rfl, ?_, ?_⟩
      · simp only [AVL_node, ht_node]; exact ⟨trivial, by omega, by omega, hl, hr⟩
      · simp only [ht_node, e1, e2, if_false]

theorem avlPut_avl (key : K) (val : V) : ∀ {t : Tree K V}, AVL t →
    ∃ t', avlPut cmp t key val = .ok t' ∧ AVL t' ∧ (t'.ht = t.ht ∨ t'.ht = t.ht + 1)
  | .nil, _ => ⟨_, rfl, by simp, by simp⟩
  | .node l k v s hh c r, ha => by
    simp only [AVL_node] at ha
    obtain ⟨h0, h1, h2, hl, hr⟩ := ha
    simp only [avlPut]
    split
    · obtain ⟨l', e1, e2, e3⟩ := avlPut_avl key val hl
      obtain ⟨n', f1, f2, f3⟩ := avlBalance_avl l' k v c r e2 hr (by omega) (by omega)
      refine ⟨n', by simp [e1, f1], f2, ?_⟩
      simp only [ht_node]
      split at f3
      · omega
      · split at f3 <;> omega
    · split
      · obtain ⟨r', e1, e2, e3⟩ := avlPut_avl key val hr
        obtain ⟨n', f1, f2, f3⟩ := avlBalance_avl l k v c r' hl e2 (by omega) (by omega)
        refine ⟨n', by simp [e1, f1], f2, ?_⟩
        simp only [ht_node]
        split at f3
        · omega
        · split at f3 <;> omega
      · exact ⟨_, rfl, by simp only [AVL_node]; exact ⟨h0, h1, h2, hl, hr⟩, Or.inl rfl⟩

theorem avlDeleteMin_avl : ∀ (l : Tree K V) (k : K) (v : V) (s hh : Nat) (c : Bool) (r : Tree K V),
    AVL (.node l k v s hh c r) →
    ∃ t' m, avlDeleteMin (.node l k v s hh c r) = .ok (t', m) ∧ AVL t' ∧ (t'.ht = hh ∨ t'.ht + 1 = hh)
  | .nil, k, v, s, hh, c, r, ha => by
    simp only [AVL_node, ht_nil] at ha
    exact ⟨r, (k, v), rfl, ha.2.2.2.2, by omega⟩
  | .node ll lk lv ls lh lc lr, k, v, s, hh, c, r, ha => by
    simp only [AVL_node, ht_node] at ha
    obtain ⟨h0, h1, h2, hl, hr⟩ := ha
    obtain ⟨l', m, e1, e2, e3⟩ := avlDeleteMin_avl ll lk lv ls lh lc lr (by simpa using hl)
    obtain ⟨n', f1, f2, f3⟩ := avlBalance_avl l' k v c r e2 hr (by omega) (by omega)
    refine ⟨n', m, ?_, f2, ?_⟩
    · rw [avlDeleteMin]; simp [e1, f1]
    · split at f3
      · omega
      · split at f3 <;> omega

theorem avlDeleteMax_avl : ∀ (r : Tree K V) (l : Tree K V) (k : K) (v : V) (s hh : Nat) (c : Bool),
    AVL (.node l k v s hh c r) →
    ∃ t' m, avlDeleteMax (.node l k v s hh c r) = .ok (t', m) ∧ AVL t' ∧ (t'.ht = hh ∨ t'.ht + 1 = hh)
  | .nil, l, k, v, s, hh, c, ha => by
    simp only [AVL_node, ht_nil] at ha
    exact ⟨l, (k, v), rfl, ha.2.2.2.1, by omega⟩
  | .node rl rk rv rs rh rc rr, l, k, v, s, hh, c, ha => by
    simp only [AVL_node, ht_node] at ha
    obtain ⟨h0, h1, h2, hl, hr⟩ := ha
    obtain ⟨r', m, e1, e2, e3⟩ := avlDeleteMax_avl rr rl rk rv rs rh rc (by simpa using hr)
    obtain ⟨n', f1, f2, f3⟩ := avlBalance_avl l k v c r' hl e2 (by omega) (by omega)
    refine ⟨n', m, ?_, f2, ?_⟩
    · rw [avlDeleteMax]; simp [e1, f1]
    · split at f3
      · omega
      · split at f3 <;> omega

theorem avlDelete_avl (key : K) : ∀ {t : Tree K V}, AVL t →
    ∃ t' res, avlDelete cmp t key = .ok (t', res) ∧ AVL t' ∧ (t'.ht = t.ht ∨ t'.ht + 1 = t.ht)
  | .nil, _ => ⟨.nil, none, rfl, trivial, Or.inl rfl⟩
  | .node l k v s hh c r, ha => by
    have ha' := ha
    simp only [AVL_node] at ha
    obtain ⟨h0, h1, h2, hl, hr⟩ := ha
    simp only [avlDelete]
    split
    · obtain ⟨l', res, e1, e2, e3⟩ := avlDelete_avl key hl
      obtain ⟨n', f1, f2, f3⟩ := avlBalance_avl l' k v c r e2 hr (by omega) (by omega)
      refine ⟨n', res, by simp [e1, f1], f2, ?_⟩
      simp only [ht_node]
      split at f3
      · omega
      · split at f3 <;> omega
    · split
      · obtain ⟨r', res, e1, e2, e3⟩ := avlDelete_avl key hr
        obtain ⟨n', f1, f2, f3⟩ := avlBalance_avl l k v c r' hl e2 (by omega) (by omega)
        refine ⟨n', res, by simp [e1, f1], f2, ?_⟩
        simp only [ht_node]
        split at f3
        · omega
        · split at f3 <;> omega
      · cases l with
        | nil =>
          simp only [ht_nil] at h0 h1 h2
          exact ⟨r, some v, rfl, hr, by simp only [ht_node]; omega⟩
        | node ll lk lv ls lh lc lr =>
          cases r with
          | nil =>
            simp only [ht_nil, ht_node] at h0 h1 h2
            exact ⟨_, some v, rfl, hl, by simp only [ht_node]; omega⟩
          | node rl rk rv rs rh rc rr =>
            simp only [ht_node] at h0 h1 h2
            obtain ⟨r', m, e1, e2, e3⟩ := avlDeleteMin_avl rl rk rv rs rh rc rr hr
            obtain ⟨n', f1, f2, f3⟩ :=
              avlBalance_avl (.node ll lk lv ls lh lc lr) (minOf rl rk rv).1 (minOf rl rk rv).2 false r' hl e2
                (by simp only [ht_node]; omega) (by simp only [ht_node]; omega)
            refine ⟨n', some v, by simp [e1, f1], f2, ?_⟩
            simp only [ht_node]
            have hx : (Tree.node ll lk lv ls lh lc lr).ht = lh := rfl
            split at f3
            · omega
            · split at f3 <;> omega

end AlgoVerif.C01
