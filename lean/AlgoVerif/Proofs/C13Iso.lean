import AlgoVerif.Proofs.C13Closure
/-! C13: `Isomorphic` (after the fix): the permutation search tries the order-preserving renaming first. -/
namespace AlgoVerif.C13
open AlgoVerif

theorem swapAt_self (l : List Int) (i : Nat) : swapAt l i i = l := by
  simp only [swapAt]
  cases h : l[i]? with
  | none => rfl
  | some x =>
    simp only
    have hi : i < l.length := (List.getElem?_eq_some_iff.1 h).1
    have hx : l[i] = x := (List.getElem?_eq_some_iff.1 h).2
    rw [← hx]
    simp

/-- the identity arrangement is among the leaves of `generatePermutations` -/
theorem genPerms_of_yield_false (yield : List Int → Bool) (k : Nat) (l : List Int) (start : Nat)
    (h : yield l = false) : genPerms yield k l start = false := by
  induction k generalizing start with
  | zero => simpa [genPerms] using h
  | succ k ih =>
    simp only [genPerms]
    rw [List.all_eq_false]
    exact ⟨0, by simp, by simp [swapAt_self, ih]⟩

/-- `Isomorphic` answers `true` whenever its pre-checks pass and renaming the i-th smallest state of the
receiver to the i-th smallest state of the argument yields the argument -/
theorem NFA.isomorphic_of_sorted_renaming (n rhs : NFA)
    (h1 : n.final.length = rhs.final.length) (h2 : n.states.length = rhs.states.length)
    (h3 : setEq n.symbols rhs.symbols = true)
    (h4 : degreesAgree n.sortedDegrees rhs.sortedDegrees = some true)
    (hne : rhs.states.isEmpty = false)
    (heq : (n.permuted (bij n.states rhs.states)).equal rhs = true) :
    n.isomorphic rhs = .ok true := by
  simp only [NFA.isomorphic, h1, h2, h3, h4, hne]
  simp
  exact genPerms_of_yield_false _ _ _ _ (by rw [heq]; rfl)

theorem DFA.isomorphic_of_sorted_renaming (d rhs : DFA)
    (h1 : d.final.length = rhs.final.length) (h2 : d.states.length = rhs.states.length)
    (h3 : setEq d.symbols rhs.symbols = true)
    (h4 : degreesAgree d.sortedDegrees rhs.sortedDegrees = some true)
    (hne : rhs.states.isEmpty = false)
    (heq : (d.permuted (bij d.states rhs.states)).equal rhs = true) :
    d.isomorphic rhs = .ok true := by
  simp only [DFA.isomorphic, h1, h2, h3, h4, hne]
  simp
  exact genPerms_of_yield_false _ _ _ _ (by rw [heq]; rfl)

end AlgoVerif.C13
