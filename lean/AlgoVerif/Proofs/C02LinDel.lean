import AlgoVerif.Proofs.C02Lin
/-!
# C02/C03 — linear probing: `Delete` with re-insertion of the rest of the cluster

After the entry of `key` (found at probe `i0`) is removed, the loop walks on along the same probe
sequence `P`, takes every entry out and puts it back.  Loop invariant at pointer `i` (`LoopInv`): there is
one hole `P iH` behind the pointer (`i0 ≤ iH < i`); every entry is reached by its own probe sequence
through occupied slots or through that hole (`weak`); the entries re-inserted since the hole last moved
are reached through occupied slots only (`strict`); the slots ahead of the pointer are untouched
(`ahead`).  Re-inserting the entry at `P i` either puts it back where it was (nothing changes) or moves
it into the hole, and then `P i` is the new hole.  The loop stops at the first nil slot `P c` that the
original table had after `i0`; there, an entry whose path contained the hole would have to sit strictly
between the hole and `P c` (probe sequences are translates of each other), so it is `strict` anyway.
-/
set_option linter.unusedSectionVars false
namespace AlgoVerif.C02
open Spec AlgoVerif.Generated
variable {K V σ : Type} [DecidableEq K]

/-- the probe sequence of `k` in a linear-probing table of capacity `m` -/
def lp (hash : K → UInt64) (m : Nat) (k : K) (b : Nat) : Nat := Lin.probeIdx m (mix (hash k)) b

theorem lp_eq (hash : K → UInt64) (m : Nat) (k : K) (b : Nat) (hm : 0 < m) :
    lp hash m k b = (((mix (hash k)).toNat &&& (m - 1)) + b) % m := Lin.probeIdx_eq m _ b hm

theorem lp_lt (hash : K → UInt64) (m : Nat) (k : K) (b : Nat) (hm : 0 < m) : lp hash m k b < m := by
  rw [lp_eq hash m k b hm]; exact Nat.mod_lt _ hm

/-- injective on every window of length `m` -/
theorem lp_inj (hash : K → UInt64) (m : Nat) (k : K) (b b' : Nat) (hm : 0 < m) (h1 : b < b') (h2 : b' < b + m) :
    lp hash m k b ≠ lp hash m k b' := by
  rw [lp_eq hash m k b hm, lp_eq hash m k b' hm]
  have := linear_cover m (((mix (hash k)).toNat &&& (m - 1)) + b) 0 (b' - b) (by omega) (by omega)
  have e : ((mix (hash k)).toNat &&& (m - 1)) + b + (b' - b) = ((mix (hash k)).toNat &&& (m - 1)) + b' := by omega
  rw [Nat.add_zero, e] at this
  exact this

/-- probe sequences are translates of each other -/
theorem lp_shift (hash : K → UInt64) (m : Nat) (k1 k2 : K) (b1 b2 x : Nat) (hm : 0 < m)
    (h : lp hash m k1 b1 = lp hash m k2 b2) : lp hash m k1 (b1 + x) = lp hash m k2 (b2 + x) := by
  rw [lp_eq hash m k1 _ hm, lp_eq hash m k2 _ hm] at *
  rw [← Nat.add_assoc, ← Nat.add_assoc, ← Nat.mod_add_mod, h, Nat.mod_add_mod]

theorem keyAtL_rem (s : LSlots K V) (idx : Nat) (hidx : idx < s.size) (j : Nat) :
    keyAtL (s.setIfInBounds idx none) j = if j = idx then none else keyAtL s j := by
  unfold keyAtL
  rw [getL_set s idx hidx]
  by_cases h : j = idx <;> simp [h]

theorem isUsedL_rem (s : LSlots K V) (idx : Nat) (hidx : idx < s.size) (j : Nat) :
    isUsedL (s.setIfInBounds idx none) j = if j = idx then false else isUsedL s j := by
  unfold isUsedL
  rw [keyAtL_rem s idx hidx]
  by_cases h : j = idx <;> simp [h]

/-- `Put` of a key that no slot holds, into a table whose load check does not fire: the pair lands in the
first nil slot of its probe sequence -/
theorem Lin.put_absent (sh : Shuffle σ) (hash : K → UInt64) (d : Nat) (t : LinTable K V) (g : σ) (k : K) (v : V)
    (m0 : Nat) (hm0 : t.m = m0)
    (hsize : t.slots.size = m0) (hm : 0 < m0)
    (hcheck : ratioGE t.n t.m t.maxLF = false)
    (habs : ∀ j, keyAtL t.slots j ≠ some k)
    (ck : Nat) (hck : ck < m0) (hnil : t.slots[lp hash m0 k ck]? = some none)
    (hused : ∀ b, b < ck → isUsedL t.slots (lp hash m0 k b) = true) :
    Lin.put sh hash (d + 1) t g k v =
      .ok ({ t with slots := t.slots.setIfInBounds (lp hash m0 k ck) (some (k, v)), n := t.n + 1 }, g) := by
  subst hm0
  have hloop : Lin.putLoop t (mix (hash k)) k v t.m 0 =
      .ok { t with slots := t.slots.setIfInBounds (lp hash t.m k ck) (some (k, v)), n := t.n + 1 } := by
    rw [Lin.putLoop_eq]
    have := walk_spec t.slots (Lin.pr hash t k)
      (fun i x => if stopL k x then some (putAtL t (Lin.pr hash t k i) k v x) else none) t.m 0 ck none
      (putAtL t (Lin.pr hash t k ck) k v none) (Nat.zero_le _) (by omega)
      (by
        intro j _ hj
        have hu := hused j hj
        have hlt : lp hash t.m k j < t.slots.size := by rw [hsize]; exact lp_lt hash t.m k j hm
        cases hx : t.slots[lp hash t.m k j]? with
        | none => rw [Array.getElem?_eq_none_iff] at hx; omega
        | some x =>
          cases x with
          | none => rw [isUsedL_false_of_none hx] at hu; cases hu
          | some e =>
            refine ⟨some e, hx, ?_⟩
            have hne : e.1 ≠ k := by
              intro he
              obtain ⟨k', v'⟩ := e
              simp only at he; subst he
              exact habs _ (keyAtL_eq_some.2 ⟨v', hx⟩)
            simp [stopL, hne])
      hnil (by simp [stopL])
    exact this
  unfold Lin.put
  simp only [hcheck, Bool.false_eq_true, if_false, hloop]

/-! ### the loop invariant -/

/-- context of one `Delete`: `key` was found at probe `i0` of its sequence; `c` is the first probe after `i0`
whose slot is nil in the table `t` the operation started from -/
structure Lin.DelCtx (hash : K → UInt64) (t : LinTable K V) (key : K) (i0 c : Nat) : Prop where
  inv : Lin.Inv hash t
  c_lo : i0 < c
  c_hi : c < i0 + t.m
  c_nil : t.slots[lp hash t.m key c]? = some none
  c_first : ∀ j, i0 < j → j < c → isUsedL t.slots (lp hash t.m key j) = true

structure Lin.LoopInv (hash : K → UInt64) (t : LinTable K V) (key : K) (i0 c i iH : Nat) (t' : LinTable K V) : Prop where
  hole_lo : i0 ≤ iH
  hole_hi : iH < i
  ptr : i ≤ c
  m_eq : t'.m = t.m
  min_eq : t'.minLF = t.minLF
  max_eq : t'.maxLF = t.maxLF
  size : t'.slots.size = t.m
  n_eq : t'.n = ((cnt (isUsedL t'.slots) t.m : Nat) : Int)
  n_val : t'.n = t.n - 1
  uniq : ∀ a b k, keyAtL t'.slots a = some k → keyAtL t'.slots b = some k → a = b
  hole : t'.slots[lp hash t.m key iH]? = some none
  weak : ∀ idx k, keyAtL t'.slots idx = some k → ∃ a, a < t.m ∧ lp hash t.m k a = idx ∧
    ∀ b, b < a → isUsedL t'.slots (lp hash t.m k b) = true ∨ lp hash t.m k b = lp hash t.m key iH
  strict : ∀ j, iH < j → j < i → ∀ k, keyAtL t'.slots (lp hash t.m key j) = some k → ∃ a, a < t.m ∧
    lp hash t.m k a = lp hash t.m key j ∧ ∀ b, b < a → isUsedL t'.slots (lp hash t.m k b) = true
  ahead : ∀ j, i ≤ j → j < i0 + t.m → t'.slots[lp hash t.m key j]? = t.slots[lp hash t.m key j]?
  live : ∀ k v, Lin.Live t' k v ↔ k ≠ key ∧ Lin.Live t k v

/-- at the first nil slot the full invariant holds again -/
theorem Lin.LoopInv.final {hash : K → UInt64} {t : LinTable K V} {key : K} {i0 c iH : Nat} {t' : LinTable K V}
    (hx : Lin.DelCtx hash t key i0 c) (h : Lin.LoopInv hash t key i0 c c iH t') : Lin.Inv hash t' := by
  have hm := Lin.m_pos hx.inv.1
  have hmp : 0 < t.m := by omega
  have hcnil : t'.slots[lp hash t.m key c]? = some none := by
    rw [h.ahead c (Nat.le_refl _) hx.c_hi]; exact hx.c_nil
  refine ⟨⟨by rw [h.size, h.m_eq], by rw [h.m_eq]; exact hx.inv.1.pow2, by rw [h.m_eq]; exact hx.inv.1.minM,
    by rw [h.m_eq]; exact h.n_eq, by rw [h.min_eq, h.max_eq]; exact hx.inv.1.lf, h.uniq, ?_⟩, ?_⟩
  · intro idx k hk
    show ∃ i, i < t'.m ∧ lp hash t'.m k i = idx ∧ ∀ j, j < i → isUsedL t'.slots (lp hash t'.m k j) = true
    rw [h.m_eq]
    obtain ⟨a, ha, hpa, hpath⟩ := h.weak idx k hk
    by_cases hall : ∀ b, b < a → isUsedL t'.slots (lp hash t.m k b) = true
    · exact ⟨a, ha, hpa, hall⟩
    · -- the path passes through the hole at some `b`
      have hex : ∃ b, b < a ∧ ¬ isUsedL t'.slots (lp hash t.m k b) = true := by
        by_contra hne
        exact hall (fun b hb => by by_contra hc; exact hne ⟨b, hb, hc⟩)
      obtain ⟨b, hb, hnu⟩ := hex
      have hbH : lp hash t.m k b = lp hash t.m key iH := by
        rcases hpath b hb with h1 | h1
        · exact absurd h1 hnu
        · exact h1
      have hshift : ∀ x, lp hash t.m k (b + x) = lp hash t.m key (iH + x) := fun x => lp_shift hash t.m k key b iH x hmp hbH
      have hiHc : iH < c := h.hole_hi
      have hcm : c - iH < t.m := by have := h.hole_lo; have := hx.c_hi; omega
      rcases Nat.lt_trichotomy (b + (c - iH)) a with hlt | heq | hgt
      · -- the nil slot `P c` would lie on the path
        have hpc : lp hash t.m k (b + (c - iH)) = lp hash t.m key c := by
          rw [hshift]; congr 1; omega
        rcases hpath _ hlt with h1 | h1
        · rw [hpc, isUsedL_false_of_none hcnil] at h1; cases h1
        · rw [hpc] at h1
          exact absurd h1.symm (lp_inj hash t.m key iH c hmp hiHc (by omega))
      · -- the entry would sit in the nil slot `P c`
        have hpc : idx = lp hash t.m key c := by
          rw [← hpa, ← heq, hshift]; congr 1; omega
        rw [hpc] at hk
        obtain ⟨v, hv⟩ := keyAtL_eq_some.1 hk
        rw [hcnil] at hv; cases hv
      · -- the entry sits strictly between the hole and `P c`: it was re-inserted since the hole moved
        have hidx : idx = lp hash t.m key (iH + (a - b)) := by
          rw [← hpa, ← hshift]; congr 1; omega
        rw [hidx] at hk ⊢
        exact h.strict (iH + (a - b)) (by omega) (by omega) k hk
  · rw [h.n_val, h.max_eq, h.m_eq]
    have := hx.inv.2
    have hd : (0 : Int) ≤ (t.maxLF.den : Int) := Int.natCast_nonneg _
    push_cast at this ⊢
    nlinarith

/-! ### one iteration -/

theorem getL_set2 (s : LSlots K V) (i1 i2 : Nat) (h1 : i1 < s.size) (h2 : i2 < s.size) (x y : Option (K × V)) (j : Nat) :
    ((s.setIfInBounds i1 x).setIfInBounds i2 y)[j]? = if j = i2 then some y else if j = i1 then some x else s[j]? := by
  rw [getL_set _ i2 (by simpa using h2), getL_set s i1 h1]

theorem Lin.LoopInv.congr {hash : K → UInt64} {t : LinTable K V} {key : K} {i0 c i iH : Nat} {t' t'' : LinTable K V}
    (hs : t''.slots = t'.slots) (hn : t''.n = t'.n) (hm : t''.m = t'.m) (h1 : t''.minLF = t'.minLF)
    (h2 : t''.maxLF = t'.maxLF) (h : Lin.LoopInv hash t key i0 c i iH t') : Lin.LoopInv hash t key i0 c i iH t'' := by
  obtain ⟨sl, m, n, a, b⟩ := t''
  obtain ⟨sl', m', n', a', b'⟩ := t'
  simp only at hs hn hm h1 h2
  subst hs hn hm h1 h2
  exact h

/-- re-inserting the entry under the pointer re-establishes the loop invariant at the next probe -/
theorem Lin.LoopInv.step (sh : Shuffle σ) {hash : K → UInt64} (d : Nat) {t : LinTable K V} {key : K} {i0 c i iH : Nat}
    {t' : LinTable K V} (g : σ) (hx : Lin.DelCtx hash t key i0 c) (h : Lin.LoopInv hash t key i0 c i iH t') (hi : i < c) :
    ∃ e, t'.slots[lp hash t.m key i]? = some (some e) ∧ ∃ t'' iH',
      Lin.put sh hash (d + 1)
        { t' with slots := t'.slots.setIfInBounds (lp hash t.m key i) none, n := t'.n - 1 } g e.1 e.2 = .ok (t'', g) ∧
      Lin.LoopInv hash t key i0 c (i + 1) iH' t'' := by
  have hm := Lin.m_pos hx.inv.1
  have hmp : 0 < t.m := by omega
  have hlo := h.hole_lo
  have hhi := h.hole_hi
  have hchi := hx.c_hi
  have hPi_lt : lp hash t.m key i < t'.slots.size := by rw [h.size]; exact lp_lt hash t.m key i hmp
  have hH_lt : lp hash t.m key iH < t'.slots.size := by rw [h.size]; exact lp_lt hash t.m key iH hmp
  have hHPi : lp hash t.m key iH ≠ lp hash t.m key i := lp_inj hash t.m key iH i hmp hhi (by omega)
  -- the slot under the pointer is occupied
  have hslot : ∃ e, t'.slots[lp hash t.m key i]? = some (some e) := by
    rw [h.ahead i (Nat.le_refl _) (by omega)]
    have hu := hx.c_first i (by omega) hi
    have hlt : lp hash t.m key i < t.slots.size := by rw [hx.inv.1.size]; exact lp_lt hash t.m key i hmp
    cases hs : t.slots[lp hash t.m key i]? with
    | none => rw [Array.getElem?_eq_none_iff] at hs; omega
    | some x =>
      cases x with
      | none => rw [isUsedL_false_of_none hs] at hu; cases hu
      | some e => exact ⟨e, rfl⟩
  obtain ⟨⟨k, v⟩, he⟩ := hslot
  refine ⟨(k, v), he, ?_⟩
  have hk : keyAtL t'.slots (lp hash t.m key i) = some k := keyAtL_eq_some.2 ⟨v, he⟩
  obtain ⟨a, ha, hpa, hpath⟩ := h.weak _ k hk
  -- the table with the entry taken out
  have hkr := keyAtL_rem t'.slots (lp hash t.m key i) hPi_lt
  have hur := isUsedL_rem t'.slots (lp hash t.m key i) hPi_lt
  have hgr := getL_set t'.slots (lp hash t.m key i) hPi_lt none
  have hcheck : ratioGE (t'.n - 1) t'.m t'.maxLF = false := by
    unfold ratioGE
    rw [decide_eq_false_iff_not, h.n_val, h.max_eq, h.m_eq]
    have := hx.inv.2
    have hd : (0 : Int) ≤ (t.maxLF.den : Int) := Int.natCast_nonneg _
    push_cast at this ⊢
    nlinarith
  have habs : ∀ j, keyAtL (t'.slots.setIfInBounds (lp hash t.m key i) none) j ≠ some k := by
    intro j hj
    rw [hkr] at hj
    by_cases hji : j = lp hash t.m key i
    · simp [hji] at hj
    · simp only [hji, if_false] at hj
      exact hji (h.uniq _ _ _ hj hk)
  -- first nil slot on the path of `k`
  obtain ⟨ck, ⟨hcka, hcknil⟩, hckmin⟩ := exists_least
    (P := fun b => b ≤ a ∧ (t'.slots.setIfInBounds (lp hash t.m key i) none)[lp hash t.m k b]? = some none)
    ⟨a, Nat.le_refl _, by rw [hpa, hgr]; simp⟩
  have hckused : ∀ b, b < ck → isUsedL (t'.slots.setIfInBounds (lp hash t.m key i) none) (lp hash t.m k b) = true := by
    intro b hb
    by_contra hnu
    have hnu' : isUsedL (t'.slots.setIfInBounds (lp hash t.m key i) none) (lp hash t.m k b) = false := by simpa using hnu
    exact hckmin b hb ⟨by omega, none_of_not_usedL (by simp [h.size]; exact lp_lt hash t.m k b hmp) hnu'⟩
  have hput := Lin.put_absent sh hash d
    ({ t' with slots := t'.slots.setIfInBounds (lp hash t.m key i) none, n := t'.n - 1 } : LinTable K V) g k v
    t.m h.m_eq (by simp [h.size]) hmp hcheck habs ck (by omega) hcknil hckused
  refine ⟨_, if ck = a then iH else i, hput, ?_⟩
  by_cases hcka' : ck = a
  · -- back into the same slot: the table is what it was
    simp only [hcka', if_true]
    subst hcka'
    have hs : ((t'.slots.setIfInBounds (lp hash t.m key i) none).setIfInBounds (lp hash t.m k ck) (some (k, v))) = t'.slots := by
      apply Array.ext_getElem?
      intro j
      rw [hpa, getL_set2 t'.slots _ _ hPi_lt hPi_lt]
      by_cases hj : j = lp hash t.m key i
      · simp [hj, he]
      · simp [hj]
    refine Lin.LoopInv.congr hs (by simp) rfl rfl rfl ?_
    refine { h with hole_hi := by omega, ptr := by omega, strict := ?_, ahead := fun j hj1 hj2 => h.ahead j (by omega) hj2 }
    intro j hj1 hj2 k1 hk1
    rcases Nat.lt_or_ge j i with hlt | hge
    · exact h.strict j hj1 hlt k1 hk1
    · have hji : j = i := by omega
      subst hji
      rw [hk] at hk1
      injection hk1 with hk1
      subst hk1
      refine ⟨ck, ha, hpa, fun b hb => ?_⟩
      have := hckused b hb
      rw [hur] at this
      split at this
      · cases this
      · exact this
  · -- into the hole: the slot under the pointer is the new hole
    simp only [hcka', if_false]
    have hcklt : ck < a := by omega
    have hckH : lp hash t.m k ck = lp hash t.m key iH := by
      rcases hpath ck hcklt with h1 | h1
      · exfalso
        have hne : lp hash t.m k ck ≠ lp hash t.m key i := by
          rw [← hpa]; exact lp_inj hash t.m k ck a hmp hcklt (by omega)
        have : isUsedL (t'.slots.setIfInBounds (lp hash t.m key i) none) (lp hash t.m k ck) = true := by
          rw [hur]; simp [hne, h1]
        rw [isUsedL_false_of_none hcknil] at this; cases this
      · exact h1
    rw [hckH] at hput ⊢
    have hg2 := getL_set2 t'.slots (lp hash t.m key i) (lp hash t.m key iH) hPi_lt hH_lt none (some (k, v))
    have hk2 : ∀ j, keyAtL ((t'.slots.setIfInBounds (lp hash t.m key i) none).setIfInBounds (lp hash t.m key iH) (some (k, v))) j =
        if j = lp hash t.m key iH then some k else if j = lp hash t.m key i then none else keyAtL t'.slots j := by
      intro j
      unfold keyAtL
      rw [hg2]
      by_cases h1 : j = lp hash t.m key iH
      · simp [h1]
      · by_cases h2 : j = lp hash t.m key i
        · subst h2; simp [Ne.symm hHPi]
        · simp [h1, h2]
    have hu2 : ∀ j, isUsedL ((t'.slots.setIfInBounds (lp hash t.m key i) none).setIfInBounds (lp hash t.m key iH) (some (k, v))) j =
        if j = lp hash t.m key iH then true else if j = lp hash t.m key i then false else isUsedL t'.slots j := by
      intro j
      unfold isUsedL
      rw [hk2]
      by_cases h1 : j = lp hash t.m key iH
      · simp [h1]
      · by_cases h2 : j = lp hash t.m key i
        · subst h2; simp [Ne.symm hHPi]
        · simp [h1, h2]
    have hHm : lp hash t.m key iH < t.m := lp_lt hash t.m key iH hmp
    have hPim : lp hash t.m key i < t.m := lp_lt hash t.m key i hmp
    have hHunused : isUsedL t'.slots (lp hash t.m key iH) = false := isUsedL_false_of_none h.hole
    have hPiused : isUsedL t'.slots (lp hash t.m key i) = true := isUsedL_true_of_some he
    refine ⟨by omega, by omega, by omega, h.m_eq, h.min_eq, h.max_eq, by simp [h.size], ?_, ?_, ?_, ?_, ?_, ?_, ?_, ?_⟩
    · -- n_eq
      show t'.n - 1 + 1 = ((cnt (isUsedL ((t'.slots.setIfInBounds (lp hash t.m key i) none).setIfInBounds
        (lp hash t.m key iH) (some (k, v)))) t.m : Nat) : Int)
      have c1 := cnt_flip_false (P := isUsedL t'.slots) (Q := isUsedL (t'.slots.setIfInBounds (lp hash t.m key i) none))
        hPim hPiused (by simp [hur]) (by intro j hj; simp [hur, hj])
      have c2 := cnt_flip_true (P := isUsedL (t'.slots.setIfInBounds (lp hash t.m key i) none))
        (Q := isUsedL ((t'.slots.setIfInBounds (lp hash t.m key i) none).setIfInBounds (lp hash t.m key iH) (some (k, v))))
        hHm (by rw [hur]; simp [hHPi, hHunused]) (by simp [hu2])
        (by
          intro j hj
          rw [hu2, hur]
          simp [hj])
      have := h.n_eq
      omega
    · show t'.n - 1 + 1 = t.n - 1
      have := h.n_val; omega
    · -- uniq
      intro x y k1 hx1 hy1
      simp only [hk2] at hx1 hy1
      by_cases hxH : x = lp hash t.m key iH <;> by_cases hyH : y = lp hash t.m key iH
      · rw [hxH, hyH]
      · simp only [hxH, if_true, Option.some.injEq] at hx1
        subst hx1
        simp only [hyH, if_false] at hy1
        by_cases hyP : y = lp hash t.m key i
        · simp [hyP] at hy1
        · simp only [hyP, if_false] at hy1
          exact absurd (h.uniq _ _ _ hy1 hk) hyP
      · simp only [hyH, if_true, Option.some.injEq] at hy1
        subst hy1
        simp only [hxH, if_false] at hx1
        by_cases hxP : x = lp hash t.m key i
        · simp [hxP] at hx1
        · simp only [hxP, if_false] at hx1
          exact absurd (h.uniq _ _ _ hx1 hk) hxP
      · simp only [hxH, hyH, if_false] at hx1 hy1
        by_cases hxP : x = lp hash t.m key i
        · simp [hxP] at hx1
        · by_cases hyP : y = lp hash t.m key i
          · simp [hyP] at hy1
          · simp only [hxP, hyP, if_false] at hx1 hy1
            exact h.uniq _ _ _ hx1 hy1
    · -- the new hole
      show ((t'.slots.setIfInBounds (lp hash t.m key i) none).setIfInBounds (lp hash t.m key iH) (some (k, v)))[lp hash t.m key i]? = some none
      rw [hg2]; simp [Ne.symm hHPi]
    · -- weak, with respect to the new hole
      intro idx k1 hk1
      simp only [hk2] at hk1
      show ∃ a, a < t.m ∧ lp hash t.m k1 a = idx ∧ ∀ b, b < a →
        isUsedL ((t'.slots.setIfInBounds (lp hash t.m key i) none).setIfInBounds (lp hash t.m key iH) (some (k, v))) (lp hash t.m k1 b) = true ∨
        lp hash t.m k1 b = lp hash t.m key i
      by_cases hidxH : idx = lp hash t.m key iH
      · simp only [hidxH, if_true, Option.some.injEq] at hk1
        subst hk1
        refine ⟨ck, by omega, hckH.trans hidxH.symm, fun b hb => Or.inl ?_⟩
        have := hckused b hb
        rw [hur] at this
        rw [hu2]
        by_cases h1 : lp hash t.m k b = lp hash t.m key iH
        · simp [h1]
        · by_cases h2 : lp hash t.m k b = lp hash t.m key i
          · simp [h2] at this
          · simp only [h2, if_false] at this
            simp [h1, h2, this]
      · simp only [hidxH, if_false] at hk1
        by_cases hidxP : idx = lp hash t.m key i
        · simp [hidxP] at hk1
        · simp only [hidxP, if_false] at hk1
          obtain ⟨a1, ha1, hpa1, hpath1⟩ := h.weak idx k1 hk1
          refine ⟨a1, ha1, hpa1, fun b hb => ?_⟩
          rw [hu2]
          by_cases h1 : lp hash t.m k1 b = lp hash t.m key iH
          · left; simp [h1]
          · by_cases h2 : lp hash t.m k1 b = lp hash t.m key i
            · right; exact h2
            · left
              simp only [h1, h2, if_false]
              rcases hpath1 b hb with h3 | h3
              · exact h3
              · exact absurd h3 h1
    · -- strict: nothing lies between the new hole and the pointer
      intro j hj1 hj2; omega
    · -- ahead
      intro j hj1 hj2
      show ((t'.slots.setIfInBounds (lp hash t.m key i) none).setIfInBounds (lp hash t.m key iH) (some (k, v)))[lp hash t.m key j]? = _
      have n1 : lp hash t.m key j ≠ lp hash t.m key iH := (lp_inj hash t.m key iH j hmp (by omega) (by omega)).symm
      have n2 : lp hash t.m key j ≠ lp hash t.m key i := (lp_inj hash t.m key i j hmp (by omega) (by omega)).symm
      rw [hg2]
      simp only [n1, n2, if_false]
      exact h.ahead j (by omega) hj2
    · -- live: the same pairs
      intro k' v'
      rw [← h.live]
      unfold Lin.Live
      show (∃ j, ((t'.slots.setIfInBounds (lp hash t.m key i) none).setIfInBounds (lp hash t.m key iH) (some (k, v)))[j]? = some (some (k', v'))) ↔ _
      simp only [hg2]
      constructor
      · rintro ⟨j, hj⟩
        by_cases h1 : j = lp hash t.m key iH
        · simp only [h1, if_true, Option.some.injEq, Prod.mk.injEq] at hj
          obtain ⟨rfl, rfl⟩ := hj
          exact ⟨_, he⟩
        · by_cases h2 : j = lp hash t.m key i
          · subst h2
            simp [Ne.symm hHPi] at hj
          · simp only [h1, h2, if_false] at hj
            exact ⟨j, hj⟩
      · rintro ⟨j, hj⟩
        by_cases h2 : j = lp hash t.m key i
        · subst h2
          rw [he] at hj
          injection hj with hj; injection hj with hj
          exact ⟨lp hash t.m key iH, by simp [hj]⟩
        · have h1 : j ≠ lp hash t.m key iH := by
            rintro rfl
            rw [h.hole] at hj; cases hj
          exact ⟨j, by simp only [h1, h2, if_false]; exact hj⟩

/-! ### the whole loop -/

theorem Lin.reLoop_spec (sh : Shuffle σ) {hash : K → UInt64} (d : Nat) {t : LinTable K V} {key : K} {i0 c : Nat}
    (hx : Lin.DelCtx hash t key i0 c) : ∀ (fuel i iH : Nat) (t' : LinTable K V) (g : σ),
    Lin.LoopInv hash t key i0 c i iH t' → c - i < fuel →
    ∃ t'', Lin.reLoop (Lin.put sh hash (d + 1)) t.m (mix (hash key)) fuel i t' g = .ok (t'', g) ∧ Lin.Inv hash t'' ∧
      (∀ k v, Lin.Live t'' k v ↔ k ≠ key ∧ Lin.Live t k v) := by
  intro fuel
  induction fuel with
  | zero => intro i iH t' g _ h; omega
  | succ f ih =>
    intro i iH t' g h hf
    have hpr : Lin.probeIdx t.m (mix (hash key)) i = lp hash t.m key i := rfl
    unfold Lin.reLoop
    simp only [hpr]
    rcases Nat.lt_or_ge i c with hic | hic
    · obtain ⟨e, he, t'', iH', hput, hnext⟩ := Lin.LoopInv.step sh d g hx h hic
      simp only [he, hput]
      exact ih (i + 1) iH' t'' g hnext (by omega)
    · have hic' : i = c := by have := h.ptr; omega
      subst hic'
      have hnil : t'.slots[lp hash t.m key i]? = some none := by
        rw [h.ahead i (Nat.le_refl _) hx.c_hi]; exact hx.c_nil
      simp only [hnil]
      exact ⟨t', rfl, Lin.LoopInv.final hx h, h.live⟩

/-- the first nil slot after probe `i0` -/
theorem Lin.exists_next_nil {hash : K → UInt64} {t : LinTable K V} (h : Lin.Inv hash t) (key : K) (i0 : Nat)
    (hused : isUsedL t.slots (lp hash t.m key i0) = true) :
    ∃ c, Lin.DelCtx hash t key i0 c := by
  have hm := Lin.m_pos h.1
  have hmp : 0 < t.m := by omega
  have hex : ∃ x, x < t.m ∧ isUsedL t.slots (lp hash t.m key (i0 + x)) = false := by
    by_contra hc
    have hall : ∀ x, x < t.m → isUsedL t.slots (lp hash t.m key (i0 + x)) = true := by
      intro x hx
      by_contra hu
      exact hc ⟨x, hx, by simpa using hu⟩
    have := pigeonhole (isUsedL t.slots) (fun x => lp hash t.m key (i0 + x)) t.m t.m
      (fun x _ => lp_lt hash t.m key _ hmp)
      (fun x y hxy hy => lp_inj hash t.m key (i0 + x) (i0 + y) hmp (by omega) (by omega))
      hall
    have := Lin.n_lt_m h
    omega
  obtain ⟨x, ⟨hx1, hx2⟩, hmin⟩ := exists_least hex
  have hx0 : x ≠ 0 := by
    rintro rfl
    rw [Nat.add_zero, hused] at hx2; cases hx2
  refine ⟨i0 + x, h, by omega, by omega, ?_, ?_⟩
  · exact none_of_not_usedL (by rw [h.1.size]; exact lp_lt hash t.m key _ hmp) hx2
  · intro j hj1 hj2
    by_contra hu
    have := hmin (j - i0) (by omega) ⟨by omega, by
      have e : i0 + (j - i0) = j := by omega
      rw [e]; simpa using hu⟩
    exact this

/-- the table right after the entry of `key` was removed satisfies the loop invariant -/
theorem Lin.LoopInv.init {hash : K → UInt64} {t : LinTable K V} {key : K} {i0 c : Nat} (hx : Lin.DelCtx hash t key i0 c)
    (v0 : V) (hi0 : i0 < t.m) (hslot : t.slots[lp hash t.m key i0]? = some (some (key, v0))) :
    Lin.LoopInv hash t key i0 c (i0 + 1) i0
      { t with slots := t.slots.setIfInBounds (lp hash t.m key i0) none, n := t.n - 1 } := by
  have hInv := hx.inv
  have hm := Lin.m_pos hInv.1
  have hmp : 0 < t.m := by omega
  have hP_lt : lp hash t.m key i0 < t.slots.size := by rw [hInv.1.size]; exact lp_lt hash t.m key i0 hmp
  have hkr := keyAtL_rem t.slots (lp hash t.m key i0) hP_lt
  have hur := isUsedL_rem t.slots (lp hash t.m key i0) hP_lt
  have hgr := getL_set t.slots (lp hash t.m key i0) hP_lt none
  have hk0 : keyAtL t.slots (lp hash t.m key i0) = some key := keyAtL_eq_some.2 ⟨v0, hslot⟩
  refine ⟨Nat.le_refl _, by omega, by have := hx.c_lo; omega, rfl, rfl, rfl, by simp [hInv.1.size], ?_, rfl, ?_, ?_, ?_, ?_, ?_, ?_⟩
  · show t.n - 1 = ((cnt (isUsedL (t.slots.setIfInBounds (lp hash t.m key i0) none)) t.m : Nat) : Int)
    have c1 := cnt_flip_false (P := isUsedL t.slots) (Q := isUsedL (t.slots.setIfInBounds (lp hash t.m key i0) none))
      (lp_lt hash t.m key i0 hmp) (isUsedL_true_of_some hslot) (by simp [hur]) (by intro j hj; simp [hur, hj])
    have := hInv.1.n_eq
    omega
  · intro a b k ha hb
    simp only [hkr] at ha hb
    by_cases h1 : a = lp hash t.m key i0
    · simp [h1] at ha
    · by_cases h2 : b = lp hash t.m key i0
      · simp [h2] at hb
      · simp only [h1, h2, if_false] at ha hb
        exact hInv.1.uniq a b k ha hb
  · show (t.slots.setIfInBounds (lp hash t.m key i0) none)[lp hash t.m key i0]? = some none
    rw [hgr]; simp
  · intro idx k hk
    simp only [hkr] at hk
    by_cases h1 : idx = lp hash t.m key i0
    · simp [h1] at hk
    · simp only [h1, if_false] at hk
      obtain ⟨a, ha, hpa, hpath⟩ := hInv.1.reach idx k hk
      refine ⟨a, ha, hpa, fun b hb => ?_⟩
      show isUsedL (t.slots.setIfInBounds (lp hash t.m key i0) none) (lp hash t.m k b) = true ∨ _
      rw [hur]
      by_cases h2 : lp hash t.m k b = lp hash t.m key i0
      · exact Or.inr h2
      · left; simp only [h2, if_false]; exact hpath b hb
  · intro j hj1 hj2; omega
  · intro j hj1 hj2
    show (t.slots.setIfInBounds (lp hash t.m key i0) none)[lp hash t.m key j]? = _
    rw [hgr]
    have : lp hash t.m key j ≠ lp hash t.m key i0 := (lp_inj hash t.m key i0 j hmp (by omega) (by omega)).symm
    simp [this]
  · intro k v
    unfold Lin.Live
    show (∃ j, (t.slots.setIfInBounds (lp hash t.m key i0) none)[j]? = some (some (k, v))) ↔ _
    simp only [hgr]
    constructor
    · rintro ⟨j, hj⟩
      by_cases h1 : j = lp hash t.m key i0
      · simp [h1] at hj
      · simp only [h1, if_false] at hj
        refine ⟨?_, j, hj⟩
        rintro rfl
        exact h1 (hInv.1.uniq _ _ _ (keyAtL_eq_some.2 ⟨v, hj⟩) hk0)
    · rintro ⟨hne, j, hj⟩
      have h1 : j ≠ lp hash t.m key i0 := by
        rintro rfl
        rw [hslot] at hj
        injection hj with hj; injection hj with hj; injection hj with hj1 hj2
        exact hne hj1.symm
      exact ⟨j, by simp only [h1, if_false]; exact hj⟩

/-! ### `Delete` -/

theorem Lin.delete_spec {sh : Shuffle σ} (hsh : ShufflePerm sh) (hash : K → UInt64) (d : Nat) (t : LinTable K V) (g : σ)
    (key : K) (h : Lin.Inv hash t) :
    ∃ t' g' o, Lin.delete sh hash (d + 2) t g key = .ok (t', g', o) ∧ Lin.Inv hash t' ∧
      (∀ k' v', Lin.Live t' k' v' ↔ k' ≠ key ∧ Lin.Live t k' v') ∧ ∀ v, o = some v ↔ Lin.Live t key v := by
  obtain ⟨i1, x1, hi1, hx1, hstop, _, hwalk, hother⟩ := Lin.find_result hash t key h
  have hfind : Lin.findLoop t (mix (hash key)) key t.m 0 = .ok (i1, Lin.pr hash t key i1) := by
    rw [Lin.findLoop_eq]
    exact hwalk _ (fun i _ => (i, Lin.pr hash t key i))
  unfold Lin.delete
  simp only [hfind, hx1]
  cases x1 with
  | none =>
    have hno : ∀ v, ¬ Lin.Live t key v := by
      rintro v ⟨j, hj⟩
      by_cases hji : j = Lin.pr hash t key i1
      · subst hji; rw [hx1] at hj; cases hj
      · exact hother j hji (keyAtL_eq_some.2 ⟨v, hj⟩)
    refine ⟨t, g, none, rfl, h, ?_, ?_⟩
    · intro k' v'
      constructor
      · intro hl
        refine ⟨?_, hl⟩
        rintro rfl
        exact hno v' hl
      · intro hl; exact hl.2
    · intro v
      constructor
      · intro hc; cases hc
      · intro hl; exact absurd hl (hno v)
  | some e =>
    obtain ⟨k0, v0⟩ := e
    have hke : k0 = key := by simpa [stopL] using hstop
    subst hke
    have hslot : t.slots[lp hash t.m k0 i1]? = some (some (k0, v0)) := hx1
    obtain ⟨c, hctx⟩ := Lin.exists_next_nil h k0 i1 (isUsedL_true_of_some hslot)
    have hinit := Lin.LoopInv.init hctx v0 hi1 hslot
    obtain ⟨t2, hre, hinv2, hlive2⟩ := Lin.reLoop_spec sh (d + 1) hctx t.m (i1 + 1) i1 _ g hinit
      (by have := hctx.c_hi; omega)
    have ho : ∀ v, some v0 = some v ↔ Lin.Live t k0 v := by
      intro v
      constructor
      · intro hv; injection hv with hv; subst hv; exact ⟨_, hslot⟩
      · rintro ⟨j, hj⟩
        have hji : j = Lin.pr hash t k0 i1 := by
          by_contra hne
          exact hother j hne (keyAtL_eq_some.2 ⟨v, hj⟩)
        subst hji
        rw [hx1] at hj
        injection hj with hj; injection hj with hj; injection hj with _ hj2
        rw [hj2]
    have hre' : Lin.reLoop (Lin.put sh hash (d + 2)) t.m (mix (hash k0)) t.m (i1 + 1)
        { t with slots := t.slots.setIfInBounds (Lin.pr hash t k0 i1) none, n := t.n - 1 } g = .ok (t2, g) := hre
    simp only [hre']
    split
    · obtain ⟨t3, g3, hr, hinv3, hsame, hL3⟩ := Lin.resize_any hsh hash d t2 g (t2.m / 2) hinv2.1
        (by
          intro hmin
          have : 2 ≤ t2.m := by have := lpMinM_ge; omega
          exact (isPowerOf2_half t2.m this hinv2.1.pow2).1)
      refine ⟨t3, g3, some v0, by simp only [hr], ?_, ?_, ho⟩
      · by_cases hmin : symboltable_lpMinM ≤ t2.m / 2
        · exact hinv3 hmin
        · rw [hsame (Nat.not_le.1 hmin)]; exact hinv2
      · intro k' v'
        rw [hL3, hlive2]
    · exact ⟨t2, g, some v0, rfl, hinv2, hlive2, ho⟩

/-! ### the refinement -/

theorem Lin.live_func {hash : K → UInt64} {t : LinTable K V} (hI : Lin.InvCore hash t) {k : K} {v v' : V}
    (h1 : Lin.Live t k v) (h2 : Lin.Live t k v') : v = v' := by
  obtain ⟨i, hi⟩ := h1
  obtain ⟨j, hj⟩ := h2
  have := hI.uniq i j k (keyAtL_eq_some.2 ⟨v, hi⟩) (keyAtL_eq_some.2 ⟨v', hj⟩)
  subst this
  rw [hi] at hj
  injection hj with hj; injection hj with hj; injection hj

theorem Lin.correct {sh : Shuffle σ} (hsh : ShufflePerm sh) (hash : K → UInt64) (eqVal : V → V → Bool) :
    Correct eqVal (Lin.impl sh hash eqVal) (Lin.Inv hash) Lin.Live where
  func := fun t k v v' hI h1 h2 => Lin.live_func hI.1 h1 h2
  put := by
    intro t g k v hI
    obtain ⟨t', g', h1, h2, _, _, h5⟩ := Lin.put_any hsh hash (depth - 2) t g k v hI
    exact ⟨t', g', h1, h2, h5⟩
  get := fun t k hI => Lin.get_spec hash t k hI
  delete := fun _ t g k hI => Lin.delete_spec hsh hash (depth - 2) t g k hI
  deleteAll := fun t hI => Lin.deleteAll_spec hash t hI
  all := by
    intro t g hI
    obtain ⟨h1, h2, _⟩ := Lin.all_spec hsh hI.1 g
    exact ⟨h1.nodup, h2⟩
  size := by
    intro t g hI
    obtain ⟨_, _, h3⟩ := Lin.all_spec hsh hI.1 g
    exact h3.symm
  equal := fun _ _ _ => rfl

/-! ### valid options and the initial table -/

def Lin.ValidOpts (o : Opts) : Prop :=
  (o.cap = 0 ∨ (symboltable_lpMinM ≤ o.cap ∧ isPowerOf2 o.cap = true)) ∧
  ValidLF lpMinLF lpMaxLF (effLF o.minLF lpMinLF) (effLF o.maxLF lpMaxLF)

theorem Lin.new_eff (o : Opts) :
    (Lin.new o : Outcome (LinTable K V)) =
      Lin.new ⟨if o.cap = 0 then symboltable_lpMinM else o.cap, effLF o.minLF lpMinLF, effLF o.maxLF lpMaxLF⟩ := by
  have c1 : symboltable_lpMinM ≠ 0 := by decide
  have c2 : lpMinLF.num ≠ 0 := by decide
  have c3 : lpMaxLF.num ≠ 0 := by decide
  unfold Lin.new effLF
  by_cases h1 : o.cap = 0 <;> by_cases h2 : o.minLF.num = 0 <;> by_cases h3 : o.maxLF.num = 0 <;>
    simp [h1, h2, h3, c1, c2, c3]

theorem Lin.init_spec (hash : K → UInt64) (o : Opts) (hv : Lin.ValidOpts o) :
    ∃ t0 : LinTable K V, Lin.new o = .ok t0 ∧ Lin.Inv hash t0 ∧ ∀ k v, ¬ Lin.Live t0 k v := by
  obtain ⟨hcap, hlf⟩ := hv
  have hc : symboltable_lpMinM ≤ (if o.cap = 0 then symboltable_lpMinM else o.cap) ∧
      isPowerOf2 (if o.cap = 0 then symboltable_lpMinM else o.cap) = true := by
    rcases hcap with h | ⟨h1, h2⟩
    · simp only [h, if_true]; exact ⟨Nat.le_refl _, by decide⟩
    · have : o.cap ≠ 0 := by have := lpMinM_ge; omega
      simp only [this, if_false]; exact ⟨h1, h2⟩
  obtain ⟨fresh, hnew, hfI, _, hfn, _, _, hfempty⟩ := Lin.new_spec (V := V) hash _ _ _ hlf hc.1 hc.2
  refine ⟨fresh, by rw [Lin.new_eff, hnew], ⟨hfI, ?_⟩, hfempty⟩
  have := Lin.den_le hfI
  have hd : (0 : Int) < (fresh.maxLF.den : Int) := by exact_mod_cast hfI.lf.maxDen
  rw [hfn]; push_cast; linarith

/-- a probe walk stops within `m` probes -/
theorem Lin.probes_bound (hash : K → UInt64) (t : LinTable K V) (key : K) (h : Lin.Inv hash t) :
    ∃ c, Lin.probes t (mix (hash key)) key t.m 0 = some c ∧ c ≤ t.m := by
  obtain ⟨i1, x1, hi1, _, _, _, hwalk, _⟩ := Lin.find_result hash t key h
  exact ⟨i1 + 1, Lin.probes_eq hash t key t.m 0 _ (hwalk _ (fun i _ => i + 1)), by omega⟩

end AlgoVerif.C02
