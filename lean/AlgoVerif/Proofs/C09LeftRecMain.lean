import AlgoVerif.Proofs.C09LeftRecImm
/-!
# `EliminateLeftRecursion` leaves no left recursion (C09)

`C09_leftrec_noLeftRecursion : Valid g → elimLeftRec g = .ok g' → NoLeftRecursion g'`
(`NoLeftRecursion g' = ∀ A α, ¬ A ⇒⁺ A α`, `Spec/C09.lean`).

Ingredients: the order `orderNT` returns is duplicate-free and is exactly the set of declared
non-terminals; the grammar `elimCycles` returns has no unit productions and ε only for a start symbol that
occurs in no body — so the loop invariant `LRInv9` holds initially; it is kept by `lrSubst`, `lrImmediate`
(`Proofs/C09LeftRecInv.lean`, `C09LeftRecImm.lean`); at the end it yields the ranking certificate of
`Proofs/C09LeftRecSem.lean`, which survives the final `prune`.
-/
set_option linter.unusedSectionVars false
namespace AlgoVerif.C08
open AlgoVerif AlgoVerif.Gram AlgoVerif.C08.Spec AlgoVerif.C09.Spec

/-! ## list facts: `ins`, `insAll`, `sortBy` -/

theorem ins_nodup_lr {α : Type} [DecidableEq α] {l : List α} (h : l.Nodup) (x : α) : (ins l x).Nodup := by
  unfold ins
  split
  · exact h
  · rename_i hx
    apply List.nodup_append.2
    exact ⟨h, by simp, by intro a ha b hb e; simp at hb; subst hb; subst e; exact hx ha⟩

theorem insAll_nodup_lr {α : Type} [DecidableEq α] (xs : List α) {l : List α} (h : l.Nodup) : (insAll l xs).Nodup := by
  unfold insAll
  induction xs generalizing l with
  | nil => exact h
  | cons x xs ih => exact ih (ins_nodup_lr h x)

theorem mem_insertBy_lr {α : Type} (lt : α → α → Bool) (x : α) (l : List α) (y : α) :
    y ∈ insertBy lt x l ↔ y = x ∨ y ∈ l := by
  induction l with
  | nil => simp [insertBy]
  | cons z zs ih =>
    simp only [insertBy]
    split
    · simp
    · simp only [List.mem_cons, ih]
      constructor
      · rintro (h | h | h)
        · exact Or.inr (Or.inl h)
        · exact Or.inl h
        · exact Or.inr (Or.inr h)
      · rintro (h | h | h)
        · exact Or.inr (Or.inl h)
        · exact Or.inl h
        · exact Or.inr (Or.inr h)

theorem nodup_insertBy {α : Type} (lt : α → α → Bool) {x : α} {l : List α} (hx : x ∉ l) (h : l.Nodup) :
    (insertBy lt x l).Nodup := by
  induction l with
  | nil => simp [insertBy]
  | cons z zs ih =>
    simp only [insertBy]
    obtain ⟨hz, hzs⟩ := List.nodup_cons.1 h
    split
    · exact List.nodup_cons.2 ⟨hx, h⟩
    · refine List.nodup_cons.2 ⟨?_, ih (fun hm => hx (List.mem_cons_of_mem _ hm)) hzs⟩
      intro hm
      rcases (mem_insertBy_lr lt x zs z).1 hm with e | hm
      · exact hx (e ▸ List.mem_cons_self ..)
      · exact hz hm

theorem sortBy_aux {α : Type} (lt : α → α → Bool) (l : List α) :
    ∀ acc : List α, (∀ y, y ∈ l.foldl (fun acc x => insertBy lt x acc) acc ↔ y ∈ acc ∨ y ∈ l) ∧
      (acc.Nodup → l.Nodup → (∀ y, y ∈ acc → y ∉ l) → (l.foldl (fun acc x => insertBy lt x acc) acc).Nodup) := by
  induction l with
  | nil => intro acc; exact ⟨by simp, fun h _ _ => h⟩
  | cons x xs ih =>
    intro acc
    obtain ⟨ih1, ih2⟩ := ih (insertBy lt x acc)
    constructor
    · intro y
      simp only [List.foldl_cons, ih1, mem_insertBy_lr, List.mem_cons]
      constructor
      · rintro ((h | h) | h)
        · exact Or.inr (Or.inl h)
        · exact Or.inl h
        · exact Or.inr (Or.inr h)
      · rintro (h | h | h)
        · exact Or.inl (Or.inr h)
        · exact Or.inl (Or.inl h)
        · exact Or.inr h
    · intro hacc hl hdis
      obtain ⟨hx, hxs⟩ := List.nodup_cons.1 hl
      simp only [List.foldl_cons]
      apply ih2
      · exact nodup_insertBy lt (fun hm => hdis x hm (List.mem_cons_self ..)) hacc
      · exact hxs
      · intro y hy hyx
        rcases (mem_insertBy_lr lt x acc y).1 hy with e | hy
        · subst e; exact hx hyx
        · exact hdis y hy (List.mem_cons_of_mem _ hyx)

theorem mem_sortBy_lr {α : Type} (lt : α → α → Bool) (l : List α) (y : α) : y ∈ sortBy lt l ↔ y ∈ l := by
  unfold sortBy
  simpa using (sortBy_aux lt l []).1 y

theorem nodup_sortBy_lr {α : Type} (lt : α → α → Bool) {l : List α} (h : l.Nodup) : (sortBy lt l).Nodup := by
  unfold sortBy
  exact (sortBy_aux lt l []).2 (by simp) h (by simp)

/-! ## `orderNT` -/

theorem visitPass_inv (g : G) (hw : WellFormed g) (sorted : List SProd) (hs : ∀ p, p ∈ sorted → p ∈ g.prods)
    (v : List String) (h : v.Nodup ∧ ∀ X, X ∈ v → X ∈ g.nonterms) :
    (visitPass sorted v).Nodup ∧ ∀ X, X ∈ visitPass sorted v → X ∈ g.nonterms := by
  unfold visitPass
  refine foldl_inv (fun v : List String => v.Nodup ∧ ∀ X, X ∈ v → X ∈ g.nonterms) _ sorted ?_ v h
  intro a p hp ⟨ha1, ha2⟩
  split
  · refine ⟨insAll_nodup_lr _ ha1, ?_⟩
    intro X hX
    rcases mem_insAll.1 hX with hX | hX
    · exact ha2 X hX
    · have := (hw.2 p (hs p hp)).2 (Sym.nonterm X) (mem_bodyNTs.1 hX)
      exact this
  · exact ⟨ha1, ha2⟩

theorem orderNT_spec {g : G} {nts : List String} (h : orderNT g = .ok nts) (hw : WellFormed g)
    (hnd : g.nonterms.Nodup) :
    nts.Nodup ∧ (∀ X, X ∈ nts ↔ X ∈ g.nonterms) := by
  unfold orderNT at h
  cases hv : ofOpt (iterFix (visitPass (sortBy prodLt g.prods)) (sizeOf g + 2) [g.start]) with
  | ok visited =>
    simp only [hv, bind, Outcome.bind, pure] at h
    cases h
    have hv' := ofOpt_ok hv
    have hvis : visited.Nodup ∧ ∀ X, X ∈ visited → X ∈ g.nonterms := by
      refine iterFix_inv (visitPass (sortBy prodLt g.prods))
        (fun v : List String => v.Nodup ∧ ∀ X, X ∈ v → X ∈ g.nonterms) ?_ _ _ _ ?_ hv'
      · intro a ha
        exact visitPass_inv g hw _ (fun p hp => (mem_sortBy_lr prodLt g.prods p).1 hp) a ha
      · exact ⟨by simp, by intro X hX; simp at hX; subst hX; exact hw.1⟩
    constructor
    · apply List.nodup_append.2
      refine ⟨hvis.1, nodup_sortBy_lr _ (hnd.filter _), ?_⟩
      intro a ha b hb e
      subst e
      have := (List.mem_filter.1 ((mem_sortBy_lr _ _ a).1 hb)).2
      simp at this
      exact this ha
    · intro X
      simp only [List.mem_append, mem_sortBy_lr, List.mem_filter, decide_eq_true_eq]
      constructor
      · rintro (hX | ⟨hX, _⟩)
        · exact hvis.2 X hX
        · exact hX
      · intro hX
        by_cases hm : X ∈ visited
        · exact Or.inl hm
        · exact Or.inr ⟨hX, hm⟩
  | panic => simp [hv, bind, Outcome.bind] at h
  | diverge => simp [hv, bind, Outcome.bind] at h

/-! ## what `elimCycles` guarantees -/

theorem reachPass_nodup (ps : List SProd) {r : List String} (h : r.Nodup) : (reachPass ps r).Nodup := by
  unfold reachPass
  refine foldl_inv (fun r : List String => r.Nodup) _ ps ?_ r h
  intro a p _ ha
  split
  · exact insAll_nodup_lr _ ha
  · exact ha

theorem elimUnreachable_nodup {g g' : G} (h : elimUnreachable g = .ok g') : g'.nonterms.Nodup := by
  obtain ⟨r, hr, _, hn, _, _⟩ := elimUnreachable_ok h
  rw [hn]
  unfold reachable at hr
  exact iterFix_inv (reachPass g.prods) (fun r : List String => r.Nodup) (fun a ha => reachPass_nodup _ ha)
    _ _ _ (by simp) (ofOpt_ok hr)

theorem elimCycles_epsOnlyStart {g g' : G} (h : elimCycles g = .ok g') (hv : WellFormed g) : EpsOnlyStart g' := by
  obtain ⟨g1, g2, h1, h2, h3⟩ := elimCycles_ok h
  have he1 : EpsOnlyStart g1 := by
    intro p hp hpb
    obtain ⟨a, _, c⟩ := elimEmpty_noEmpty h1 hv p hp hpb
    exact ⟨a, c⟩
  have he2 := elimSingle_epsOnlyStart h2 he1
  have hsub := elimUnreachable_prods_subset h3
  obtain ⟨_, _, hs3, _, _, _⟩ := elimUnreachable_ok h3
  intro p hp hpb
  obtain ⟨a, b⟩ := he2 p (hsub p hp) hpb
  exact ⟨by rw [hs3]; exact a, fun q hq => by rw [hs3]; exact b q (hsub q hq)⟩

theorem elimCycles_nodup {g g' : G} (h : elimCycles g = .ok g') : g'.nonterms.Nodup := by
  obtain ⟨_, _, _, _, h3⟩ := elimCycles_ok h
  exact elimUnreachable_nodup h3

/-- the loop invariant holds before the first round -/
theorem lrInv9_init {g0 : G} {nts : List String} (hw : WellFormed g0) (hu : NoUnit g0) (he : EpsOnlyStart g0)
    (hnts : ∀ X, X ∈ nts ↔ X ∈ g0.nonterms) : LRInv9 nts [] g0 := by
  refine ⟨hw, fun X hX => (hnts X).1 hX, ?_, ?_, ?_, ?_⟩
  · intro p hp Y rest hb
    exact (hnts Y).2 ((hw.2 p hp).2 (Sym.nonterm Y) (by rw [hb]; simp))
  · intro p hp _ Y rest hb
    cases rest with
    | nil =>
      have := hu p hp
      unfold isSingle at this
      rw [hb] at this
      simp at this
    | cons s rest' =>
      refine ⟨s, rest', rfl, ?_⟩
      intro Z hZ
      exact (hnts Z).2 ((hw.2 p hp).2 (Sym.nonterm Z) (by rw [hb, hZ]; simp))
  · intro p hp hb
    obtain ⟨h1, h2⟩ := he p hp hb
    exact Or.inr (fun q hq => by rw [h1]; exact h2 q hq)
  · intro p _ hd; cases hd

theorem elimLeftRec_noLeftRecursion {g g' : G} (h : elimLeftRec g = .ok g') (hw : WellFormed g) :
    NoLeftRecursion g' := by
  obtain ⟨g0, nts, g1, h0, hn, h2, rfl⟩ := elimLeftRec_ok h
  have hw0 := elimCycles_wf h0 hw
  obtain ⟨hnd, hmem⟩ := orderNT_spec hn hw0 (elimCycles_nodup h0)
  have hinit := lrInv9_init hw0 (elimCycles_noUnit h0) (elimCycles_epsOnlyStart h0 hw) hmem
  have hfin := lrLoop_inv9 hnd nts [] g0 g1 (by simp) hinit h2
  exact noLeftRecursion_of_cert ((cert_of_inv hfin).mono (prune_prods_subset g1))

/-- **`EliminateLeftRecursion` reaches its normal form**: the result has no derivation `A ⇒⁺ A α` — every
valid grammar; conditional on the Model returning `.ok`. -/
theorem C09_leftrec_noLeftRecursion (g g' : G) (hv : Valid g) (h : elimLeftRec g = .ok g') :
    NoLeftRecursion g' :=
  elimLeftRec_noLeftRecursion h hv.wellFormed

end AlgoVerif.C08

/-! ## non-vacuity: the D14 grammar (`S → A a | b`, `A → S c | d`) is valid, the Model returns `.ok`, and the
theorem applies to the result -/
open AlgoVerif AlgoVerif.Gram AlgoVerif.C08 AlgoVerif.C08.Spec AlgoVerif.C09.Spec in
example : ∃ g', elimLeftRec C08LRex2 = .ok g' ∧ NoLeftRecursion g' := by
  have hok : (elimLeftRec C08LRex2).isOk = true := by decide
  cases hh : elimLeftRec C08LRex2 with
  | ok g' => exact ⟨g', rfl, C09_leftrec_noLeftRecursion _ _ (by decide) hh⟩
  | panic => rw [hh] at hok; cases hok
  | diverge => rw [hh] at hok; cases hok
