import AlgoVerif.Model.GoRt
import Lean
/-!
Simp lemmas about the `Outcome` monad and the translator's runtime (`Model/GoRt.lean`), used by the proofs
that a GENERATED definition equals the hand-written Model (`Proofs/C*Gen.lean`).
-/
namespace AlgoVerif

namespace Outcome
variable {α β γ : Type}

@[simp] theorem pure_eq (a : α) : (pure a : Outcome α) = .ok a := rfl
@[simp] theorem ok_bind (a : α) (f : α → Outcome β) : (Outcome.ok a >>= f) = f a := rfl
@[simp] theorem panic_bind (f : α → Outcome β) : (Outcome.panic >>= f) = .panic := rfl
@[simp] theorem diverge_bind (f : α → Outcome β) : (Outcome.diverge >>= f) = .diverge := rfl
@[simp] theorem bind_ok (x : Outcome α) : (x >>= Outcome.ok) = x := by cases x <;> rfl
@[simp] theorem map_ok (f : α → β) (a : α) : (Outcome.ok a).map f = .ok (f a) := rfl
@[simp] theorem map_panic (f : α → β) : (Outcome.panic : Outcome α).map f = .panic := rfl
@[simp] theorem map_diverge (f : α → β) : (Outcome.diverge : Outcome α).map f = .diverge := rfl
@[simp] theorem fmap_eq (f : α → β) (x : Outcome α) : f <$> x = x.map f := by cases x <;> rfl

theorem bind_assoc (x : Outcome α) (f : α → Outcome β) (g : β → Outcome γ) :
    (x >>= f >>= g) = (x >>= fun a => f a >>= g) := by cases x <;> rfl

theorem map_bind (x : Outcome α) (f : α → Outcome β) (g : β → γ) :
    (x >>= f).map g = (x >>= fun a => (f a).map g) := by cases x <;> rfl

instance : LawfulMonad Outcome := LawfulMonad.mk' Outcome
  (id_map := fun x => by cases x <;> rfl)
  (pure_bind := fun _ _ => rfl)
  (bind_assoc := fun x _ _ => by cases x <;> rfl)
  (bind_pure_comp := fun _ x => by cases x <;> rfl)

/-- `x ≼ y`: `y` is what `x` computes when it is given at least as much fuel — either `x` ran out of fuel
(`diverge`), or they agree.  Used to relate a hand Model, whose loops carry a fuel chosen per loop, to the
generated definition, whose loops all draw on the one fuel its caller supplies. -/
def le (x y : Outcome α) : Prop := x = .diverge ∨ x = y
scoped infix:50 " ≼ " => Outcome.le

@[simp] theorem le_refl (x : Outcome α) : x ≼ x := .inr rfl
@[simp] theorem diverge_le (y : Outcome α) : (.diverge : Outcome α) ≼ y := .inl rfl
@[simp] theorem ok_le (a : α) (y : Outcome α) : (Outcome.ok a ≼ y) = (y = .ok a) := by
  simp [le, eq_comm]
@[simp] theorem panic_le (y : Outcome α) : ((.panic : Outcome α) ≼ y) = (y = .panic) := by
  simp [le, eq_comm]
theorem le_of_eq {x y : Outcome α} (h : x = y) : x ≼ y := .inr h
theorem bind_le {x x' : Outcome α} {f f' : α → Outcome β} (hx : x ≼ x') (hf : ∀ a, f a ≼ f' a) :
    (x >>= f) ≼ (x' >>= f') := by
  rcases hx with rfl | rfl
  · exact .inl rfl
  · cases x <;> simp [hf]
theorem le.ok {x y : Outcome α} {a : α} (h : x ≼ y) (hx : x = .ok a) : y = .ok a := by
  subst hx; simpa using h
theorem ite_bind (c : Prop) [Decidable c] (x y : Outcome α) (f : α → Outcome β) :
    ((if c then x else y) >>= f) = if c then x >>= f else y >>= f := by split <;> rfl
theorem map_ite (c : Prop) [Decidable c] (x y : Outcome α) (f : α → β) :
    (if c then x else y).map f = if c then x.map f else y.map f := by split <;> rfl
theorem le.trans_eq {x y z : Outcome α} (h : x ≼ y) (e : y = z) : x ≼ z := e ▸ h

end Outcome

open Lean Elab Tactic Meta in
/-- case analysis on the first `x >>= f` (or `Outcome.map g x`) of the goal whose `x : Outcome _` is
neither a constructor nor a conditional; proof automation only -/
elab "outcome_cases1" : tactic => withMainContext do
  let g ← instantiateMVars (← getMainTarget)
  let isCtor (e : Expr) : Bool :=
    e.isAppOf ``Outcome.ok || e.isAppOf ``Outcome.panic || e.isAppOf ``Outcome.diverge
  let some b := g.find? (fun e =>
      (e.isAppOfArity ``Bind.bind 6 && (e.getArg! 0).isConstOf ``Outcome &&
        !(e.getArg! 4).hasLooseBVars && !isCtor (e.getArg! 4)) ||
      (e.isAppOfArity ``Outcome.map 4 && !(e.getArg! 3).hasLooseBVars && !isCtor (e.getArg! 3) &&
        !(e.getArg! 3).isAppOf ``Bind.bind && !(e.getArg! 3).isAppOf ``ite && !(e.getArg! 3).isAppOf ``dite))
    | throwError "outcome_cases1: no `x >>= f` with an undetermined `x` in the goal"
  let x := if b.isAppOf ``Bind.bind then b.getArg! 4 else b.getArg! 3
  let stx ← Term.exprToSyntax x
  evalTactic (← `(tactic| cases h__ : $stx:term <;> (try simp only [h__, Outcome.ok_bind, Outcome.panic_bind,
    Outcome.diverge_bind, Outcome.map_ok, Outcome.map_panic, Outcome.map_diverge])))

/-- one normalisation pass over the goal: monad laws, `≼` on constructors, Bool tests as propositions,
tests decided by the hypotheses (`*` — also rewrites with the induction hypothesis and with the outcomes
already fixed by `outcome_cases1`) -/
syntax "outcome_norm" (" [" Lean.Parser.Tactic.simpLemma,* "]")? : tactic
macro_rules
  | `(tactic| outcome_norm) => `(tactic|
    simp only [Outcome.bind_assoc, Outcome.pure_eq, Outcome.ok_bind, Outcome.panic_bind, Outcome.diverge_bind,
      Outcome.map_ok, Outcome.map_panic, Outcome.map_diverge, Outcome.map_bind, Outcome.le_refl, Outcome.diverge_le,
      Outcome.ok_le, Outcome.panic_le, Outcome.ok.injEq, reduceCtorEq, Outcome.ite_bind, Outcome.map_ite,
      decide_eq_true_eq, decide_eq_false_iff_not, Bool.not_eq_true', Bool.not_eq_true, Bool.not_not,
      Bool.and_eq_true, Bool.or_eq_true, Bool.not_eq_false', Bool.not_eq_false, Bool.false_eq_true,
      Bool.true_eq_false, if_true, if_false, ite_not, ge_iff_le, gt_iff_lt, not_true_eq_false, not_false_eq_true,
      and_true, true_and, and_false, false_and, Prod.mk.injEq, and_self, *])
  | `(tactic| outcome_norm [$ls,*]) => `(tactic|
    simp only [Outcome.bind_assoc, Outcome.pure_eq, Outcome.ok_bind, Outcome.panic_bind, Outcome.diverge_bind,
      Outcome.map_ok, Outcome.map_panic, Outcome.map_diverge, Outcome.map_bind, Outcome.le_refl, Outcome.diverge_le,
      Outcome.ok_le, Outcome.panic_le, Outcome.ok.injEq, reduceCtorEq, Outcome.ite_bind, Outcome.map_ite,
      decide_eq_true_eq, decide_eq_false_iff_not, Bool.not_eq_true', Bool.not_eq_true, Bool.not_not,
      Bool.and_eq_true, Bool.or_eq_true, Bool.not_eq_false', Bool.not_eq_false, Bool.false_eq_true,
      Bool.true_eq_false, if_true, if_false, ite_not, ge_iff_le, gt_iff_lt, not_true_eq_false, not_false_eq_true,
      and_true, true_and, and_false, false_and, Prod.mk.injEq, and_self, *, $ls,*])

/-- closes an equation (or a `≼`) between two `Outcome` programs: normalise, split on the next test, case
analysis on the outcome of the next bound call, until the branches agree — so the order of independent
reads, the names of locals and the nesting of the tests do not matter -/
syntax "outcome_auto" (" [" Lean.Parser.Tactic.simpLemma,* "]")? : tactic
macro_rules
  | `(tactic| outcome_auto) =>
    `(tactic| repeat' (first | rfl | outcome_norm | split | outcome_cases1 | (simp_all; first | done | omega) | omega))
  | `(tactic| outcome_auto [$ls,*]) =>
    `(tactic| repeat' (first | rfl | outcome_norm [$ls,*] | split | outcome_cases1 | (simp_all [$ls,*]; first | done | omega) | omega))

namespace Go
variable {α : Type}

theorem idx_of_valid {s : Array α} {i : Int} (h : 0 ≤ i ∧ i < s.size) :
    idx s i = .ok (s[i.toNat]'(by omega)) := by simp [idx, h]

theorem idx_of_invalid {s : Array α} {i : Int} (h : ¬ (0 ≤ i ∧ i < s.size)) : idx s i = .panic := by
  simp [idx, h]

theorem setIdx_of_valid {s : Array α} {i : Int} {v : α} (h : 0 ≤ i ∧ i < s.size) :
    setIdx s i v = .ok (s.set i.toNat v (by omega)) := by simp [setIdx, h]

theorem setIdx_of_invalid {s : Array α} {i : Int} {v : α} (h : ¬ (0 ≤ i ∧ i < s.size)) :
    setIdx s i v = .panic := by simp [setIdx, h]

@[simp] theorem idx_nat {s : Array α} {i : Nat} (h : i < s.size) : idx s (i : Int) = .ok s[i] := by
  have : 0 ≤ (i : Int) ∧ (i : Int) < s.size := by omega
  simp [idx, this]

@[simp] theorem setIdx_nat {s : Array α} {i : Nat} {v : α} (h : i < s.size) :
    setIdx s (i : Int) v = .ok (s.set i v) := by
  have : 0 ≤ (i : Int) ∧ (i : Int) < s.size := by omega
  simp [setIdx, this]

theorem make_nat (zero : α) (n : Nat) : make zero (n : Int) = .ok (Array.replicate n zero) := by
  simp [make]

theorem make_neg (zero : α) {n : Int} (h : n < 0) : make zero n = .panic := by
  have : ¬ 0 ≤ n := by omega
  simp [make, this]

end Go
end AlgoVerif
