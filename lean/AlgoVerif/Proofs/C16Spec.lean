import AlgoVerif.Spec.C16
/-!
# C16 helper lemmas: the abstract finite sets of `Spec/C16.lean`
-/
namespace AlgoVerif.C16.Spec
variable {α : Type}

theorem equiv_of_mem_iff {a b : FSet α} (ha : a.Nodup) (hb : b.Nodup) (h : ∀ x, x ∈ a ↔ x ∈ b) : FSet.Equiv a b :=
  (List.perm_ext_iff_of_nodup ha hb).2 h

/-- a sublist of a duplicate-free list is determined by its members -/
theorem sublist_ext : ∀ {l l₁ l₂ : List α}, l.Nodup → l₁.Sublist l → l₂.Sublist l → (∀ x, x ∈ l₁ ↔ x ∈ l₂) → l₁ = l₂
  | [], l₁, l₂, _, h₁, h₂, _ => by
    rw [List.sublist_nil.1 h₁, List.sublist_nil.1 h₂]
  | a :: l, l₁, l₂, hnd, h₁, h₂, hm => by
    have hnd' := List.nodup_cons.1 hnd
    -- does a belong to the sublists?
    have key : ∀ {l' : List α}, l'.Sublist (a :: l) → (a ∉ l' ∧ l'.Sublist l) ∨ (∃ t, l' = a :: t ∧ t.Sublist l) := by
      intro l' h
      cases h with
      | cons _ h => exact .inl ⟨fun ha => hnd'.1 (h.subset ha), h⟩
      | cons_cons _ h => exact .inr ⟨_, rfl, h⟩
    rcases key h₁ with ⟨hn₁, hs₁⟩ | ⟨t₁, rfl, hs₁⟩ <;> rcases key h₂ with ⟨hn₂, hs₂⟩ | ⟨t₂, rfl, hs₂⟩
    · exact sublist_ext hnd'.2 hs₁ hs₂ hm
    · exact absurd ((hm a).2 (List.mem_cons_self ..)) hn₁
    · exact absurd ((hm a).1 (List.mem_cons_self ..)) hn₂
    · congr 1
      refine sublist_ext hnd'.2 hs₁ hs₂ (fun x => ?_)
      have hx := hm x
      simp only [List.mem_cons] at hx
      constructor
      · intro h
        rcases hx.1 (.inr h) with rfl | h'
        · exact absurd (hs₁.subset h) hnd'.1
        · exact h'
      · intro h
        rcases hx.2 (.inr h) with rfl | h'
        · exact absurd (hs₂.subset h) hnd'.1
        · exact h'

variable [DecidableEq α]

/-! ### insert / erase -/

theorem FSet.mem_insert {s : FSet α} {v x : α} : x ∈ s.insert v ↔ x = v ∨ x ∈ s := by
  unfold FSet.insert
  split
  · constructor
    · exact fun h => .inr h
    · rintro (rfl | h)
      · assumption
      · exact h
  · simp

theorem FSet.valid_insert {s : FSet α} (h : s.Valid) (v : α) : (s.insert v).Valid := by
  unfold FSet.insert FSet.Valid
  split
  · exact h
  · exact List.nodup_cons.2 ⟨by assumption, h⟩

theorem FSet.mem_insertAll {vs : List α} : ∀ {s : FSet α} {x : α}, x ∈ s.insertAll vs ↔ x ∈ s ∨ x ∈ vs := by
  induction vs with
  | nil => intro s x; simp [FSet.insertAll]
  | cons v vs ih =>
    intro s x
    have := ih (s := s.insert v) (x := x)
    simp only [FSet.insertAll, List.foldl_cons] at this ⊢
    rw [this, FSet.mem_insert]; simp only [List.mem_cons]
    constructor
    · rintro ((rfl | h) | h)
      · exact .inr (.inl rfl)
      · exact .inl h
      · exact .inr (.inr h)
    · rintro (h | rfl | h)
      · exact .inl (.inr h)
      · exact .inl (.inl rfl)
      · exact .inr h

theorem FSet.valid_insertAll {vs : List α} : ∀ {s : FSet α}, s.Valid → (s.insertAll vs).Valid := by
  induction vs with
  | nil => intro s h; exact h
  | cons v vs ih => intro s h; exact ih (FSet.valid_insert h v)

theorem FSet.mem_erase {s : FSet α} {v x : α} : x ∈ s.erase v ↔ x ∈ s ∧ x ≠ v := by
  simp [FSet.erase]

theorem FSet.valid_erase {s : FSet α} (h : s.Valid) (v : α) : (s.erase v).Valid :=
  List.Pairwise.sublist List.filter_sublist h

theorem FSet.mem_eraseAll {vs : List α} : ∀ {s : FSet α} {x : α}, x ∈ s.eraseAll vs ↔ x ∈ s ∧ x ∉ vs := by
  induction vs with
  | nil => intro s x; simp [FSet.eraseAll]
  | cons v vs ih =>
    intro s x
    have := ih (s := s.erase v) (x := x)
    simp only [FSet.eraseAll, List.foldl_cons] at this ⊢
    rw [this, FSet.mem_erase]; simp only [List.mem_cons, not_or]
    constructor
    · rintro ⟨⟨h, hne⟩, hn⟩; exact ⟨h, hne, hn⟩
    · rintro ⟨h, hne, hn⟩; exact ⟨⟨h, hne⟩, hn⟩

theorem FSet.eraseAll_sublist {vs : List α} : ∀ {s : FSet α}, (s.eraseAll vs).Sublist s := by
  induction vs with
  | nil => intro s; exact List.Sublist.refl _
  | cons v vs ih => intro s; exact (ih (s := s.erase v)).trans List.filter_sublist

theorem FSet.valid_eraseAll {vs : List α} {s : FSet α} (h : s.Valid) : (s.eraseAll vs).Valid :=
  List.Pairwise.sublist FSet.eraseAll_sublist h

/-! ### observers -/

theorem FSet.memAll_iff {s : FSet α} {vs : List α} : s.memAll vs = true ↔ ∀ v ∈ vs, v ∈ s := by
  simp [FSet.memAll]

theorem FSet.subset_iff {a b : FSet α} : a.subset b = true ↔ ∀ x ∈ a, x ∈ b := by
  simp [FSet.subset]

theorem FSet.eq_iff {a b : FSet α} : a.eq b = true ↔ ∀ x, x ∈ a ↔ x ∈ b := by
  simp only [FSet.eq, Bool.and_eq_true, FSet.subset_iff]
  exact ⟨fun h x => ⟨h.1 x, h.2 x⟩, fun h => ⟨fun x => (h x).1, fun x => (h x).2⟩⟩

/-! ### union / inter / diff -/

theorem FSet.mem_union {a b : FSet α} {x : α} : x ∈ a.union b ↔ x ∈ a ∨ x ∈ b := by
  simp only [FSet.union, List.mem_append, List.mem_filter, decide_eq_true_eq]
  constructor
  · rintro (h | ⟨h, _⟩)
    · exact .inl h
    · exact .inr h
  · rintro (h | h)
    · exact .inl h
    · by_cases hx : x ∈ a
      · exact .inl hx
      · exact .inr ⟨h, hx⟩

theorem FSet.valid_union {a b : FSet α} (ha : a.Valid) (hb : b.Valid) : (a.union b).Valid := by
  unfold FSet.union FSet.Valid
  refine List.nodup_append.2 ⟨ha, List.Pairwise.sublist List.filter_sublist hb, ?_⟩
  intro x hx y hy hxy
  subst hxy
  simp at hy
  exact hy.2 hx

theorem FSet.mem_inter {a b : FSet α} {x : α} : x ∈ a.inter b ↔ x ∈ a ∧ x ∈ b := by
  simp [FSet.inter]

theorem FSet.mem_diff {a b : FSet α} {x : α} : x ∈ a.diff b ↔ x ∈ a ∧ x ∉ b := by
  simp [FSet.diff]

theorem FSet.mem_unionAll {bs : List (FSet α)} : ∀ {a : FSet α} {x : α},
    x ∈ a.unionAll bs ↔ x ∈ a ∨ ∃ b ∈ bs, x ∈ b := by
  induction bs with
  | nil => intro a x; simp [FSet.unionAll]
  | cons b bs ih =>
    intro a x
    have := ih (a := a.union b) (x := x)
    simp only [FSet.unionAll, List.foldl_cons] at this ⊢
    rw [this, FSet.mem_union]; simp only [List.mem_cons, exists_eq_or_imp]
    constructor
    · rintro ((h | h) | h)
      · exact .inl h
      · exact .inr (.inl h)
      · exact .inr (.inr h)
    · rintro (h | h | h)
      · exact .inl (.inl h)
      · exact .inl (.inr h)
      · exact .inr h

theorem FSet.valid_unionAll {bs : List (FSet α)} : ∀ {a : FSet α}, a.Valid → (∀ b ∈ bs, b.Valid) →
    (a.unionAll bs).Valid := by
  induction bs with
  | nil => intro a h _; exact h
  | cons b bs ih =>
    intro a h hb
    exact ih (FSet.valid_union h (hb b (List.mem_cons_self ..))) (fun c hc => hb c (List.mem_cons_of_mem _ hc))

theorem FSet.mem_interAll {bs : List (FSet α)} : ∀ {a : FSet α} {x : α},
    x ∈ a.interAll bs ↔ x ∈ a ∧ ∀ b ∈ bs, x ∈ b := by
  induction bs with
  | nil => intro a x; simp [FSet.interAll]
  | cons b bs ih =>
    intro a x
    have := ih (a := a.inter b) (x := x)
    simp only [FSet.interAll, List.foldl_cons] at this ⊢
    rw [this, FSet.mem_inter]; simp only [List.mem_cons, forall_eq_or_imp]
    constructor
    · rintro ⟨⟨h, h'⟩, hall⟩; exact ⟨h, h', hall⟩
    · rintro ⟨h, h', hall⟩; exact ⟨⟨h, h'⟩, hall⟩

theorem FSet.interAll_sublist {bs : List (FSet α)} : ∀ {a : FSet α}, (a.interAll bs).Sublist a := by
  induction bs with
  | nil => intro a; exact List.Sublist.refl _
  | cons b bs ih => intro a; exact (ih (a := a.inter b)).trans List.filter_sublist

theorem FSet.mem_diffAll {bs : List (FSet α)} : ∀ {a : FSet α} {x : α},
    x ∈ a.diffAll bs ↔ x ∈ a ∧ ∀ b ∈ bs, x ∉ b := by
  induction bs with
  | nil => intro a x; simp [FSet.diffAll]
  | cons b bs ih =>
    intro a x
    have := ih (a := a.diff b) (x := x)
    simp only [FSet.diffAll, List.foldl_cons] at this ⊢
    rw [this, FSet.mem_diff]; simp only [List.mem_cons, forall_eq_or_imp]
    constructor
    · rintro ⟨⟨h, h'⟩, hall⟩; exact ⟨h, h', hall⟩
    · rintro ⟨h, h', hall⟩; exact ⟨⟨h, h'⟩, hall⟩

theorem FSet.diffAll_sublist {bs : List (FSet α)} : ∀ {a : FSet α}, (a.diffAll bs).Sublist a := by
  induction bs with
  | nil => intro a; exact List.Sublist.refl _
  | cons b bs ih => intro a; exact (ih (a := a.diff b)).trans List.filter_sublist

/-! ### the sequence reading -/

theorem Seq.eraseAll_eq (l vs : List α) : Seq.eraseAll l vs = FSet.eraseAll l vs := rfl

end AlgoVerif.C16.Spec
