import AlgoVerif.Proofs.C08Fresh
/-!
# LeftFactor, part 1: folding fresh non-terminals preserves the language

The general rewriting lemma behind `LeftFactor`.  Let `F` be a list of *prefix groups* `(key, sufs, name)`
of a non-terminal `A` of `g`: `A → key ++ s ∈ g` for every `s ∈ sufs`, and the `name`s are pairwise
different and not non-terminals of `g`.  Let `g'` have, besides productions of `g`, only the productions
`A → key ++ [name]` and `name → s` (`s ∈ sufs`), and let every production of `g` either survive in `g'` or
be one of the folded `A → key ++ s` whose two halves are in `g'` (`Factoring`).  Then `g'` and `g`
generate the same language (`Factoring.sameLanguage`), and `g'` is well-formed when `g` is.

* `L(g) ⊆ L(g')`: every production of `g` is a derivation of at most two steps in `g'`.
* `L(g') ⊆ L(g)`: by induction on the length of a derivation of a *terminal* string from a sentential form
  that mentions no fresh name: the first step at a non-terminal `B` of the form uses an old production
  (induction), or `A → key ++ [name]` — then the part derived from `name` starts with some `name → s`, and
  `A → key ++ s` does the same in `g` with shorter derivations of the two halves.
-/
namespace AlgoVerif.C08
open AlgoVerif AlgoVerif.Gram AlgoVerif.C08.Spec

namespace LF

theorem bind_eq_ok {β γ : Type} {x : Outcome β} {f : β → Outcome γ} {r : γ} (h : (x >>= f) = .ok r) :
    ∃ a, x = .ok a ∧ f a = .ok r := by
  cases x with
  | ok a => exact ⟨a, rfl, h⟩
  | panic => cases h
  | diverge => cases h

/-- a string of terminals -/
def TermStr (γ : List SSym) : Prop := ∀ s ∈ γ, ∃ t, s = Sym.term t

theorem TermStr.of_map (w : List String) : TermStr (w.map Sym.term) := by
  intro s hs
  obtain ⟨t, _, rfl⟩ := List.mem_map.1 hs
  exact ⟨t, rfl⟩

theorem TermStr.left {γ₁ γ₂ : List SSym} (h : TermStr (γ₁ ++ γ₂)) : TermStr γ₁ :=
  fun s hs => h s (List.mem_append_left _ hs)

theorem TermStr.right {γ₁ γ₂ : List SSym} (h : TermStr (γ₁ ++ γ₂)) : TermStr γ₂ :=
  fun s hs => h s (List.mem_append_right _ hs)

/-- nothing steps from the empty form -/
theorem step_nil_false {g : G} {γ : List SSym} (s : Step g [] γ) : False := by
  generalize hx : ([] : List SSym) = x at s
  cases s with
  | mk u v p hp =>
    have : (u ++ [Sym.nonterm p.head] ++ v).length = 0 := by rw [← hx]; rfl
    simp at this

theorem derivesIn_nil {g : G} {n : Nat} {γ : List SSym} (d : DerivesIn g n [] γ) : γ = [] := by
  cases d with
  | refl => rfl
  | head s _ => exact (step_nil_false s).elim

/-- a single terminal does not step -/
theorem step_term_false {g : G} {t : String} {γ : List SSym} (s : Step g [Sym.term t] γ) : False := by
  have : Step g ([t].map Sym.term) γ := by simpa using s
  exact this.not_of_terms

theorem derivesIn_term {g : G} {n : Nat} {t : String} {γ : List SSym} (d : DerivesIn g n [Sym.term t] γ) :
    γ = [Sym.term t] := by
  cases d with
  | refl => rfl
  | head s _ => exact (step_term_false s).elim

end LF

open LF

/-- a prefix group that is factored out: `A → key ++ [name]`, `name → s` for `s ∈ sufs` -/
structure FGroup where
  key : List SSym
  sufs : List (List SSym)
  name : String

/-- `g'` is `g` with the prefix groups `F` of `A` folded into fresh non-terminals -/
structure Factoring (g g' : G) (A : String) (F : List FGroup) : Prop where
  start : g'.start = g.start
  terms : g'.terms = g.terms
  nts : ∀ n, n ∈ g'.nonterms ↔ n ∈ g.nonterms ∨ ∃ e ∈ F, e.name = n
  headA : A ∈ g.nonterms
  fresh : ∀ e ∈ F, e.name ∉ g.nonterms
  inj : ∀ e ∈ F, ∀ e' ∈ F, e.name = e'.name → e = e'
  nonempty : ∀ e ∈ F, e.sufs ≠ []
  old : ∀ e ∈ F, ∀ s ∈ e.sufs, (⟨A, e.key ++ s⟩ : SProd) ∈ g.prods
  new_prods : ∀ p ∈ g'.prods, p ∈ g.prods ∨ (∃ e ∈ F, p = ⟨A, e.key ++ [Sym.nonterm e.name]⟩) ∨
    (∃ e ∈ F, ∃ s ∈ e.sufs, p = ⟨e.name, s⟩)
  present : ∀ e ∈ F, (⟨A, e.key ++ [Sym.nonterm e.name]⟩ : SProd) ∈ g'.prods ∧
    ∀ s ∈ e.sufs, (⟨e.name, s⟩ : SProd) ∈ g'.prods
  kept : ∀ p ∈ g.prods, p ∈ g'.prods ∨ ∃ e ∈ F, ∃ s ∈ e.sufs, p = ⟨A, e.key ++ s⟩ ∧
    (⟨A, e.key ++ [Sym.nonterm e.name]⟩ : SProd) ∈ g'.prods ∧ (⟨e.name, s⟩ : SProd) ∈ g'.prods

/-- the form mentions no fresh name -/
def Clean (F : List FGroup) (α : List SSym) : Prop := ∀ e ∈ F, Sym.nonterm e.name ∉ α

namespace Factoring
variable {g g' : G} {A : String} {F : List FGroup}

theorem body_clean (hF : Factoring g g' A F) (hw : WellFormed g) {p : SProd} (hp : p ∈ g.prods) : Clean F p.body :=
  fun e he => (WellFormed.fresh_not_in hw (hF.fresh e he) p hp).2

/-- `L(g) ⊆ L(g')`: derivations of `g` are derivations of `g'` -/
theorem complete (hF : Factoring g g' A F) {α β : List SSym} (d : Derives g α β) : Derives g' α β := by
  refine Derives.of_derivable_prods (g := g') (g' := g) ?_ d
  intro p hp
  rcases hF.kept p hp with hp' | ⟨e, _, s, _, rfl, h₁, h₂⟩
  · exact Derives.of_prod hp'
  · have d₁ : Derives g' [Sym.nonterm A] (e.key ++ [Sym.nonterm e.name]) := Derives.of_prod h₁
    have d₂ : Derives g' [Sym.nonterm e.name] s := Derives.of_prod h₂
    exact d₁.trans (d₂.append_left e.key)

/-- `L(g') ⊆ L(g)`, for terminal strings derived from forms without fresh names -/
theorem sound_aux (hF : Factoring g g' A F) (hw : WellFormed g) : ∀ (n : Nat) (α : List SSym) (m : Nat), m ≤ n →
    ∀ γ, Clean F α → TermStr γ → DerivesIn g' m α γ → Derives g α γ := by
  intro n
  induction n with
  | zero =>
    intro α m hm γ _ _ d
    have : m = 0 := by omega
    subst this
    cases d
    exact Derives.refl _
  | succ n ih =>
    intro α
    induction α with
    | nil =>
      intro m _ γ _ _ d
      rw [derivesIn_nil d]
      exact Derives.refl _
    | cons x α' ihα =>
      intro m hm γ hclean hterm d
      have d' : DerivesIn g' m ([x] ++ α') γ := by simpa using d
      obtain ⟨γ₁, γ₂, n₁, n₂, rfl, d₁, d₂, hn⟩ := d'.split
      have hclean' : Clean F α' := fun e he hm' => hclean e he (List.mem_cons_of_mem _ hm')
      have h₂ : Derives g α' γ₂ := ihα n₂ (by omega) γ₂ hclean' hterm.right d₂
      suffices h₁ : Derives g [x] γ₁ by
        have := h₁.append h₂
        simpa using this
      cases x with
      | term t =>
        rw [derivesIn_term d₁]
        exact Derives.refl _
      | nonterm B =>
        have hB : ∀ e ∈ F, e.name ≠ B := fun e he h => hclean e he (by rw [h]; exact List.mem_cons_self ..)
        cases d₁ with
        | refl =>
          obtain ⟨t, ht⟩ := hterm.left (Sym.nonterm B) (List.mem_cons_self ..)
          cases ht
        | head st dβ =>
          rename_i k β
          obtain ⟨p, hp, hpB, rfl⟩ := st.of_single
          rcases hF.new_prods p hp with hp' | ⟨e, he, rfl⟩ | ⟨e, he, s', _, rfl⟩
          · -- an old production
            have hβ : Derives g p.body γ₁ := ih p.body k (by omega) γ₁ (hF.body_clean hw hp') hterm.left dβ
            rw [← hpB]
            exact (Derives.of_prod hp').trans hβ
          · -- `A → key ++ [name]`: the part derived from `name` starts with some `name → s`
            simp only at hpB dβ
            subst hpB
            obtain ⟨δ₁, δ₂, a, b, rfl, da, db, hab⟩ := dβ.split
            have hδ := hterm.left
            cases db with
            | refl =>
              obtain ⟨t, ht⟩ := hδ.right (Sym.nonterm e.name) (List.mem_cons_self ..)
              cases ht
            | head st₂ dβ₂ =>
              rename_i b' β₂
              obtain ⟨q, hq, hqh, rfl⟩ := st₂.of_single
              have hqs : ∃ s ∈ e.sufs, q.body = s := by
                rcases hF.new_prods q hq with hq' | ⟨e', _, rfl⟩ | ⟨e', he', s, hs, rfl⟩
                · exact absurd (hqh ▸ (hw.2 q hq').1) (hF.fresh e he)
                · exact absurd (hqh ▸ hF.headA) (hF.fresh e he)
                · have := hF.inj e' he' e he hqh
                  subst this
                  exact ⟨s, hs, rfl⟩
              obtain ⟨sf, hs, hqb⟩ := hqs
              rw [hqb] at dβ₂
              have hold := hF.old e he sf hs
              have hcl : Clean F (e.key ++ sf) := hF.body_clean hw hold
              have hk : Clean F e.key := fun e' he' hm' => hcl e' he' (List.mem_append_left _ hm')
              have hs' : Clean F sf := fun e' he' hm' => hcl e' he' (List.mem_append_right _ hm')
              have h₁ : Derives g e.key δ₁ := ih e.key a (by omega) δ₁ hk hδ.left da
              have h₂ : Derives g sf δ₂ := ih sf b' (by omega) δ₂ hs' hδ.right dβ₂
              exact (Derives.of_prod hold).trans (h₁.append h₂)
          · -- a production of a fresh name: `B` is not one
            exact absurd hpB (hB e he)

theorem sound (hF : Factoring g g' A F) (hw : WellFormed g) {α : List SSym} {w : List String} (hα : Clean F α)
    (d : Derives g' α (w.map Sym.term)) : Derives g α (w.map Sym.term) := by
  obtain ⟨n, dn⟩ := d.toDerivesIn
  exact hF.sound_aux hw n α n (Nat.le_refl _) _ hα (TermStr.of_map w) dn

theorem sameLanguage (hF : Factoring g g' A F) (hw : WellFormed g) : SameLanguage g g' := by
  intro w
  unfold Language
  rw [hF.start]
  constructor
  · refine hF.sound hw ?_
    intro e he hm
    simp at hm
    exact hF.fresh e he (hm ▸ hw.1)
  · exact hF.complete

theorem wellFormed (hF : Factoring g g' A F) (hw : WellFormed g) : WellFormed g' := by
  have hsym : ∀ s, SymDeclared g s → SymDeclared g' s := by
    intro s hs
    cases s with
    | term t => simpa [SymDeclared, hF.terms] using hs
    | nonterm n => exact (hF.nts n).2 (.inl hs)
  refine ⟨by rw [hF.start]; exact (hF.nts _).2 (.inl hw.1), ?_⟩
  intro p hp
  rcases hF.new_prods p hp with hp' | ⟨e, he, rfl⟩ | ⟨e, he, s, hs, rfl⟩
  · exact ⟨(hF.nts _).2 (.inl (hw.2 p hp').1), fun s hs => hsym s ((hw.2 p hp').2 s hs)⟩
  · refine ⟨(hF.nts _).2 (.inl hF.headA), ?_⟩
    intro s hs
    rcases List.mem_append.1 hs with hs | hs
    · obtain ⟨s', hs'⟩ := List.exists_mem_of_ne_nil _ (hF.nonempty e he)
      exact hsym s ((hw.2 _ (hF.old e he s' hs')).2 s (List.mem_append_left _ hs))
    · simp at hs
      subst hs
      exact (hF.nts _).2 (.inr ⟨e, he, rfl⟩)
  · refine ⟨(hF.nts _).2 (.inr ⟨e, he, rfl⟩), ?_⟩
    intro x hx
    have := (hw.2 _ (hF.old e he s hs)).2 x (List.mem_append_right _ hx)
    exact hsym x this

/-- `Verify()` still accepts the result: every declared non-terminal has a production -/
theorem valid (hF : Factoring g g' A F) (hv : Valid g) : Valid g' := by
  obtain ⟨hs, hp⟩ := hF.wellFormed hv.wellFormed
  refine ⟨hs, ?_, hp⟩
  intro n hn
  rcases (hF.nts n).1 hn with hn | ⟨e, he, rfl⟩
  · obtain ⟨p, hp, hh⟩ := hv.2.1 n hn
    rcases hF.kept p hp with hp' | ⟨e, _, s, _, rfl, h₁, _⟩
    · exact ⟨p, hp', hh⟩
    · exact ⟨_, h₁, hh⟩
  · obtain ⟨s, hs⟩ := List.exists_mem_of_ne_nil _ (hF.nonempty e he)
    exact ⟨_, (hF.present e he).2 s hs, rfl⟩

end Factoring

end AlgoVerif.C08
