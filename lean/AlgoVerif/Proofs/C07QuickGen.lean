import AlgoVerif.Generated.C07QuickGen
import AlgoVerif.Proofs.C07Gen
import AlgoVerif.Spec.C07
/-!
# The GENERATED model of `sort/quick.go` and `sort/shuffle.go` and the hand-written Model

`Generated/C07QuickGen.lean` is rewritten from /repo's source by `/verif/extract/go2lean` on every check run
(`bin/pre-C07`).  As in `Proofs/C07Gen.lean` the hand Model (`Model/C07.lean`) is related to the generated
definitions by `x ≼ y`: the hand Model's outcome is `diverge` (its own per-loop fuel ran out — excluded by the
`C07_*` theorems for total preorders), or the generated definition, given at least the stated fuel, computes
exactly the same outcome (same slice, same index, same panic).

Two things are new here.

* **Fuel of a recursive function.**  The generated `quick` / `quick3Way` recurse structurally on their fuel and
  hand the *remaining* fuel to `partition` and to their loops, whereas the hand Model gives every loop
  `len(a) + 1` at every depth.  The statements therefore ask for `f + (len(a) + 1)` units where `f` is the hand
  Model's recursion fuel; the proofs need that none of the functions changes the length of the slice
  (`*_size`).
* **The random generator.**  A `*rand.Rand` is a `Go.Rand` (stream of future draws + number consumed) and
  `r.Intn(n)` is the next draw reduced into `[0, n)`.  The hand Model's `choice i` (value of the `i`-th
  `Intn(n - i)` of `Shuffle`) is then `choiceOf r n i = r.stream (r.pos + i) % (n - i)`, which satisfies
  `IntnContract` for EVERY stream (`choiceOf_contract`) — so the generated statements need no hypothesis about
  the generator at all.
-/
set_option linter.unusedSectionVars false
set_option linter.unusedSimpArgs false
namespace AlgoVerif.C07.Gen
open AlgoVerif AlgoVerif.Outcome AlgoVerif.C07 AlgoVerif.Generated.Sort
variable {α : Type} [Inhabited α]

/-- from a refinement up to a projection `p` of the generated result (the generated loop also returns variables
the hand Model drops) to a refinement of what follows -/
theorem le_bind_of_map {β γ δ : Type} {x : Outcome β} {y : Outcome γ} {p : γ → β} {g : β → Outcome δ}
    {g' : γ → Outcome δ} (h : x ≼ y.map p) (hg : ∀ c, x = .ok (p c) → y = .ok c → g (p c) ≼ g' c) :
    (x >>= g) ≼ (y >>= g') := by
  cases y with
  | ok c =>
    rcases h with rfl | h
    · simp
    · rw [h]; simp only [Outcome.map_ok, Outcome.ok_bind]; exact hg c h rfl
  | panic => rcases h with rfl | h <;> simp_all
  | diverge => rcases h with rfl | h <;> simp_all

theorem le_map_of_bind {β γ : Type} {x : Outcome β} {y : Outcome γ} {p : γ → β} (h : x ≼ y.map p) :
    x ≼ (y >>= fun c => .ok (p c)) := by
  cases y <;> simpa using h

/-! ## length preservation (hand Model, any comparator) -/

theorem partLoop_size (cmp : α → α → Int) (v : α) (lo hi : Int) : ∀ (f : Nat) (i j : Int) (a a' : Array α) (j' : Int),
    partLoop cmp v lo hi f i j a = .ok (a', j') → a'.size = a.size := by
  intro f
  induction f with
  | zero => intro i j a a' j' h; cases h
  | succ f ih =>
    intro i j a a' j' h
    simp only [partLoop] at h
    obtain ⟨i1, -, h⟩ := bind_eq_ok'.1 h
    obtain ⟨j1, -, h⟩ := bind_eq_ok'.1 h
    split at h
    · cases h; rfl
    · obtain ⟨a1, h1, h2⟩ := bind_eq_ok'.1 h
      rw [ih _ _ _ _ _ h2, swap_size h1]

theorem partition_size (cmp : α → α → Int) {a a' : Array α} {lo hi j : Int}
    (h : C07.partition cmp a lo hi = .ok (a', j)) : a'.size = a.size := by
  simp only [C07.partition] at h
  obtain ⟨v, -, h⟩ := bind_eq_ok'.1 h
  obtain ⟨⟨a1, j1⟩, h1, h⟩ := bind_eq_ok'.1 h
  obtain ⟨a2, h2, h⟩ := bind_eq_ok'.1 h
  cases h
  rw [swap_size h2, partLoop_size cmp v lo hi _ _ _ _ _ _ h1]

theorem quickAux_size (cmp : α → α → Int) : ∀ (f : Nat) (a a' : Array α) (lo hi : Int),
    quickAux cmp f a lo hi = .ok a' → a'.size = a.size := by
  intro f
  induction f with
  | zero => intro a a' lo hi h; cases h
  | succ f ih =>
    intro a a' lo hi h
    simp only [quickAux] at h
    split at h
    · cases h; rfl
    · obtain ⟨⟨a1, j⟩, h1, h⟩ := bind_eq_ok'.1 h
      obtain ⟨a2, h2, h3⟩ := bind_eq_ok'.1 h
      rw [ih _ _ _ _ h3, ih _ _ _ _ h2, partition_size cmp h1]

theorem q3Loop_size (cmp : α → α → Int) (v : α) : ∀ (f : Nat) (lt i gt : Int) (a a' : Array α) (lt' gt' : Int),
    q3Loop cmp v f lt i gt a = .ok (a', lt', gt') → a'.size = a.size := by
  intro f
  induction f with
  | zero => intro lt i gt a a' lt' gt' h; cases h
  | succ f ih =>
    intro lt i gt a a' lt' gt' h
    simp only [q3Loop] at h
    split at h
    · obtain ⟨x, -, h⟩ := bind_eq_ok'.1 h
      split at h
      · obtain ⟨a1, h1, h2⟩ := bind_eq_ok'.1 h
        rw [ih _ _ _ _ _ _ _ h2, swap_size h1]
      · split at h
        · obtain ⟨a1, h1, h2⟩ := bind_eq_ok'.1 h
          rw [ih _ _ _ _ _ _ _ h2, swap_size h1]
        · exact ih _ _ _ _ _ _ _ h
    · cases h; rfl

theorem quick3WayAux_size (cmp : α → α → Int) : ∀ (f : Nat) (a a' : Array α) (lo hi : Int),
    quick3WayAux cmp f a lo hi = .ok a' → a'.size = a.size := by
  intro f
  induction f with
  | zero => intro a a' lo hi h; cases h
  | succ f ih =>
    intro a a' lo hi h
    simp only [quick3WayAux] at h
    split at h
    · cases h; rfl
    · obtain ⟨v, -, h⟩ := bind_eq_ok'.1 h
      obtain ⟨⟨a1, lt, gt⟩, h1, h⟩ := bind_eq_ok'.1 h
      obtain ⟨a2, h2, h3⟩ := bind_eq_ok'.1 h
      rw [ih _ _ _ _ h3, ih _ _ _ _ h2, q3Loop_size cmp v _ _ _ _ _ _ _ _ h1]

theorem shuffleLoop_size (choice : Nat → Int) (n : Int) : ∀ (f : Nat) (i : Int) (a a' : Array α),
    shuffleLoop choice n f i a = .ok a' → a'.size = a.size := by
  intro f
  induction f with
  | zero => intro i a a' h; cases h
  | succ f ih =>
    intro i a a' h
    simp only [shuffleLoop] at h
    split at h
    · split at h
      · cases h
      · obtain ⟨a1, h1, h2⟩ := bind_eq_ok'.1 h
        rw [ih _ _ _ h2, swap_size h1]
    · cases h; rfl

theorem shuffle_size (choice : Nat → Int) {a a' : Array α} (h : shuffle choice a = .ok a') : a'.size = a.size :=
  shuffleLoop_size choice _ _ _ _ _ h

/-! ## shuffle.go -/

/-- the hand Model's `choice` that a generator `r` induces on a `Shuffle` of `n` elements -/
def choiceOf (r : Go.Rand) (n : Int) : Nat → Int := fun i => r.stream (r.pos + i) % (n - (i : Int))

/-- every generator honours the contract of `Intn` -/
theorem choiceOf_contract (r : Go.Rand) (n : Nat) : IntnContract (choiceOf r (n : Int)) n := by
  intro i hi
  have hp : (0 : Int) < (n : Int) - (i : Int) := by omega
  exact ⟨Int.emod_nonneg _ (by omega), Int.emod_lt_of_pos _ hp⟩

/-- `for i := 0; i < n; i++ { r := i + r.Intn(n-i); a[i], a[r] = a[r], a[i] }` (counted: no fuel on the generated
side); at index `i` the generator has produced `i` draws -/
theorem shuffle_loop1 (r : Go.Rand) (n : Int) : ∀ (f : Nat) (i : Nat) (a : Array α),
    shuffleLoop (choiceOf r n) n f (i : Int) a ≼
      (Shuffle.loop1 n (n - (i : Int)).toNat (i : Int) a { r with pos := r.pos + i }).map Prod.fst := by
  intro f
  induction f with
  | zero => intro i a; simp [shuffleLoop]
  | succ f ih =>
    intro i a
    simp only [shuffleLoop]
    split
    · rename_i hlt
      have hn : ¬ (n - (i : Int) ≤ 0) := by omega
      rw [show (n - (i : Int)).toNat = (n - ((i : Int) + 1)).toNat + 1 by omega]
      simp only [Shuffle.loop1, Go.Rand.intn, hn, if_false, Outcome.bind_assoc, Outcome.pure_eq, Outcome.ok_bind,
        Outcome.map_bind, swap_bind, Int.toNat_natCast, choiceOf]
      refine bind_le' (le_refl _) fun a1 _ => ?_
      have := ih (i + 1) a1
      simpa [Nat.add_assoc, choiceOf] using this
    · rw [show (n - (i : Int)).toNat = 0 by omega]
      simp [Shuffle.loop1]

/-- `Shuffle` (no fuel on the generated side), for every generator -/
theorem shuffle_le (r : Go.Rand) (a : Array α) :
    shuffle (choiceOf r a.size) a ≼ (Shuffle a r).map Prod.fst := by
  obtain ⟨s, p⟩ := r
  have := shuffle_loop1 ⟨s, p⟩ (a.size : Int) (a.size + 1) 0 a
  simp only [Int.natCast_zero, Nat.add_zero] at this
  simp only [shuffle, Shuffle, Outcome.pure_eq, Outcome.bind_assoc, Outcome.ok_bind, Outcome.map_bind, Outcome.map_ok]
  exact le_map_of_bind this

/-! ## quick.go: partition -/

/-- `for i++; i < hi && cmp(a[i], v) < 0; i++ {}` -/
theorem partition_loop2 (cmp : α → α → Int) (a : Array α) (v : α) (hi : Int) (F : Nat) : ∀ (f d : Nat) (i : Int),
    scanUp cmp a v hi f i ≼ partition.loop2 F a hi cmp v (f + d) i := by
  intro f
  induction f with
  | zero => intro d i; simp [scanUp]
  | succ f ih =>
    intro d i
    rw [show f + 1 + d = (f + d) + 1 by omega]
    simp only [scanUp, partition.loop2, get_eq]
    outcome_auto

/-- `for j--; j > lo && cmp(a[j], v) > 0; j-- {}` -/
theorem partition_loop3 (cmp : α → α → Int) (a : Array α) (v : α) (lo : Int) (F : Nat) : ∀ (f d : Nat) (j : Int),
    scanDown cmp a v lo f j ≼ partition.loop3 F a lo cmp v (f + d) j := by
  intro f
  induction f with
  | zero => intro d j; simp [scanDown]
  | succ f ih =>
    intro d j
    rw [show f + 1 + d = (f + d) + 1 by omega]
    simp only [scanDown, partition.loop3, get_eq]
    outcome_auto

/-- the `for { … if i >= j { break }; swap }` loop -/
theorem partition_loop1 (cmp : α → α → Int) (v : α) (lo hi : Int) (F : Nat) : ∀ (f d : Nat) (i j : Int) (a : Array α),
    a.size + 1 ≤ F →
    partLoop cmp v lo hi f i j a ≼ (partition.loop1 F lo hi cmp v (f + d) a i j).map (fun r => (r.1, r.2.2)) := by
  intro f
  induction f with
  | zero => intro d i j a _; simp [partLoop]
  | succ f ih =>
    intro d i j a hF
    rw [show f + 1 + d = (f + d) + 1 by omega]
    obtain ⟨e, rfl⟩ : ∃ e, F = a.size + 1 + e := ⟨F - (a.size + 1), by omega⟩
    simp only [partLoop, partition.loop1, Outcome.bind_assoc, Outcome.pure_eq, Outcome.ok_bind, Outcome.map_bind]
    refine bind_le' (partition_loop2 cmp a v hi _ (a.size + 1) e (i + 1)) fun i1 _ => ?_
    refine bind_le' (partition_loop3 cmp a v lo _ (a.size + 1) e (j - 1)) fun j1 _ => ?_
    by_cases hij : i1 ≥ j1
    · simp [hij]
    · simp only [hij, decide_false, if_false, Bool.false_eq_true, swap_bind, Outcome.map_bind]
      refine bind_le' (le_refl _) fun a1 h1 => ?_
      exact ih d i1 j1 a1 (by rw [swap_size h1]; omega)

/-- `partition` with any fuel `≥ len(a) + 1` -/
theorem partition_le (cmp : α → α → Int) (a : Array α) (lo hi : Int) (F : Nat) (hF : a.size + 1 ≤ F) :
    C07.partition cmp a lo hi ≼ Generated.Sort.partition F a lo hi cmp := by
  obtain ⟨e, rfl⟩ : ∃ e, F = a.size + 1 + e := ⟨F - (a.size + 1), by omega⟩
  simp only [C07.partition, Generated.Sort.partition, get_eq, Outcome.bind_assoc, Outcome.pure_eq, Outcome.ok_bind]
  refine bind_le' (le_refl _) fun v _ => ?_
  have := partition_loop1 cmp v lo hi (a.size + 1 + e) (a.size + 1) e lo (hi + 1) a (by omega)
  refine le_bind_of_map this fun c _ _ => ?_
  obtain ⟨a1, i1, j1⟩ := c
  simp only [swap_bind]
  refine bind_le' (le_refl _) fun a2 _ => ?_
  simp

/-! ## quick.go: quick, Quick -/

/-- `quick` (recursion depth `f` on the hand side): `f + len(a) + 1` units suffice -/
theorem quick_le (cmp : α → α → Int) : ∀ (f d : Nat) (a : Array α) (lo hi : Int),
    quickAux cmp f a lo hi ≼ Generated.Sort.quick (f + (a.size + 1) + d) a lo hi cmp := by
  intro f
  induction f with
  | zero => intro d a lo hi; simp [quickAux]
  | succ f ih =>
    intro d a lo hi
    rw [show f + 1 + (a.size + 1) + d = (f + (a.size + 1) + d) + 1 by omega]
    simp only [quickAux, Generated.Sort.quick]
    split
    · rename_i h
      have hd : decide (lo ≥ hi) = true := by simpa using h
      simp [hd]
    · rename_i h
      have hd : decide (lo ≥ hi) = false := by simpa using h
      simp only [hd, Bool.false_eq_true, if_false, Outcome.bind_assoc, Outcome.pure_eq, Outcome.ok_bind]
      refine bind_le' (partition_le cmp a lo hi _ (by omega)) fun r h1 => ?_
      obtain ⟨a1, j⟩ := r
      have s1 := partition_size cmp h1
      simp only
      have i1 := ih d a1 lo (j - 1)
      rw [s1] at i1
      refine bind_le' i1 fun a2 h2 => ?_
      have s2 := quickAux_size cmp _ _ _ _ _ h2
      have i2 := ih d a2 (j + 1) hi
      rw [s2, s1] at i2
      revert i2
      cases Generated.Sort.quick (f + (a.size + 1) + d) a2 (j + 1) hi cmp <;> simp

/-- `quick(a, 0, len(a)-1, cmp)` with any fuel `≥ 2·len(a) + 2` -/
theorem quickCore_le (cmp : α → α → Int) (a : Array α) (d : Nat) :
    quickCore cmp a ≼ Generated.Sort.quick (2 * a.size + 2 + d) a 0 ((a.size : Int) - 1) cmp := by
  have := quick_le cmp (a.size + 1) d a 0 ((a.size : Int) - 1)
  rwa [show a.size + 1 + (a.size + 1) + d = 2 * a.size + 2 + d by omega] at this

/-- `Quick` with any fuel `≥ 2·len(a) + 2`, for every stream of the clock-seeded generator -/
theorem quick_pub_le (cmp : α → α → Int) (rand : Nat → Int) (a : Array α) (d : Nat) :
    C07.quick (choiceOf (Go.Rand.new rand) a.size) cmp a ≼ Generated.Sort.Quick (2 * a.size + 2 + d) rand a cmp := by
  simp only [C07.quick, Generated.Sort.Quick, Outcome.bind_assoc, Outcome.pure_eq, Outcome.ok_bind]
  refine le_bind_of_map (shuffle_le (Go.Rand.new rand) a) fun c hx _ => ?_
  obtain ⟨a1, r1⟩ := c
  have s1 : a1.size = a.size := shuffle_size _ hx
  have := quickCore_le cmp a1 d
  rw [← s1]
  simpa using this

/-! ## quick.go: Select -/

/-- what `Select` does with the result of its loop: a `return a[k]` inside the loop is the function's result,
otherwise `a[k]` is read after the loop -/
def selectExit (k : Int) : Go.Ctl (Array α × Int × Int) (Array α × α) → Outcome (Array α × α)
  | .ret r => .ok r
  | .next s => Go.idx s.1 k >>= fun t => .ok (s.1, t)

/-- the `for lo < hi { j := partition(…); switch … }` loop -/
theorem select_loop1 (cmp : α → α → Int) (k : Int) (F : Nat) : ∀ (f d : Nat) (lo hi : Int) (a : Array α),
    a.size + 1 ≤ F →
    selectLoop cmp k f lo hi a ≼ (Select.loop1 F k cmp (f + d) a lo hi >>= selectExit k) := by
  intro f
  induction f with
  | zero => intro d lo hi a _; simp [selectLoop]
  | succ f ih =>
    intro d lo hi a hF
    rw [show f + 1 + d = (f + d) + 1 by omega]
    simp only [selectLoop, Select.loop1]
    split
    · rename_i h
      have hd : decide (lo < hi) = true := by simpa using h
      simp only [hd, Bool.not_true, Bool.false_eq_true, if_false, Outcome.bind_assoc, Outcome.pure_eq, Outcome.ok_bind]
      refine bind_le' (partition_le cmp a lo hi F hF) fun r h1 => ?_
      obtain ⟨a1, j⟩ := r
      have s1 := partition_size cmp h1
      simp only
      by_cases hjk : j < k
      · have := ih d (j + 1) hi a1 (by omega)
        simpa [hjk] using this
      · by_cases hkj : j > k
        · have := ih d lo (j - 1) a1 (by omega)
          simpa [hjk, hkj] using this
        · simp only [hjk, hkj, decide_false, Bool.false_eq_true, if_false, get_eq, Outcome.bind_assoc,
            Outcome.pure_eq, Outcome.ok_bind]
          refine bind_le' (le_refl _) fun v _ => ?_
          simp [selectExit]
    · rename_i h
      have hd : decide (lo < hi) = false := by simpa using h
      simp [hd, selectExit, get_eq]

/-- `Select` with any fuel `≥ len(a) + 1`, for every stream of the clock-seeded generator -/
theorem select_le (cmp : α → α → Int) (rand : Nat → Int) (a : Array α) (k : Int) (d : Nat) :
    C07.select (choiceOf (Go.Rand.new rand) a.size) cmp a k ≼ Generated.Sort.Select (a.size + 1 + d) rand a k cmp := by
  simp only [C07.select, Generated.Sort.Select, Outcome.bind_assoc, Outcome.pure_eq, Outcome.ok_bind]
  refine le_bind_of_map (shuffle_le (Go.Rand.new rand) a) fun c hx _ => ?_
  obtain ⟨a1, r1⟩ := c
  have s1 : a1.size = a.size := shuffle_size _ hx
  have := select_loop1 cmp k (a1.size + 1 + d) (a1.size + 1) d 0 ((a1.size : Int) - 1) a1 (by omega)
  rw [← s1]
  refine this.trans_eq ?_
  congr 1 <;> (funext c; cases c <;> simp [selectExit])

/-! ## quick.go: quick3Way, Quick3Way -/

/-- the `for i <= gt { c := cmp(a[i], v); switch … }` loop -/
theorem quick3Way_loop1 (cmp : α → α → Int) (v : α) (F : Nat) : ∀ (f d : Nat) (lt i gt : Int) (a : Array α),
    q3Loop cmp v f lt i gt a ≼
      (quick3Way.loop1 F cmp v (f + d) a lt i gt).map (fun r => (r.1, r.2.1, r.2.2.2)) := by
  intro f
  induction f with
  | zero => intro d lt i gt a; simp [q3Loop]
  | succ f ih =>
    intro d lt i gt a
    rw [show f + 1 + d = (f + d) + 1 by omega]
    simp only [q3Loop, quick3Way.loop1, get_eq, swap_eq]
    outcome_auto

/-- `quick3Way` (recursion depth `f` on the hand side): `f + len(a) + 1` units suffice -/
theorem quick3Way_le (cmp : α → α → Int) : ∀ (f d : Nat) (a : Array α) (lo hi : Int),
    quick3WayAux cmp f a lo hi ≼ Generated.Sort.quick3Way (f + (a.size + 1) + d) a lo hi cmp := by
  intro f
  induction f with
  | zero => intro d a lo hi; simp [quick3WayAux]
  | succ f ih =>
    intro d a lo hi
    rw [show f + 1 + (a.size + 1) + d = (f + (a.size + 1) + d) + 1 by omega]
    simp only [quick3WayAux, Generated.Sort.quick3Way]
    split
    · rename_i h
      have hd : decide (lo ≥ hi) = true := by simpa using h
      simp [hd]
    · rename_i h
      have hd : decide (lo ≥ hi) = false := by simpa using h
      simp only [hd, Bool.false_eq_true, if_false, Outcome.bind_assoc, Outcome.pure_eq, Outcome.ok_bind, get_eq]
      refine bind_le' (le_refl _) fun v _ => ?_
      have hl := quick3Way_loop1 cmp v (f + (a.size + 1) + d) (a.size + 1) (f + d) lo (lo + 1) hi a
      rw [show a.size + 1 + (f + d) = f + (a.size + 1) + d by omega] at hl
      cases h1 : q3Loop cmp v (a.size + 1) lo (lo + 1) hi a with
      | ok q =>
        obtain ⟨a1, lt, gt⟩ := q
        rw [h1] at hl
        cases h2 : quick3Way.loop1 (f + (a.size + 1) + d) cmp v (f + (a.size + 1) + d) a lo (lo + 1) hi with
        | ok r =>
          obtain ⟨a1', lt', i', gt'⟩ := r
          rw [h2] at hl
          simp only [Outcome.map_ok, ok_le, Outcome.ok.injEq, Prod.mk.injEq] at hl
          obtain ⟨rfl, rfl, rfl⟩ := hl
          have s1 := q3Loop_size cmp v _ _ _ _ _ _ _ _ h1
          simp only [Outcome.ok_bind]
          have i1 := ih d a1' lo (lt' - 1)
          rw [s1] at i1
          refine bind_le' i1 fun a2 h3 => ?_
          have s2 := quick3WayAux_size cmp _ _ _ _ _ h3
          have i2 := ih d a2 (gt' + 1) hi
          rw [s2, s1] at i2
          revert i2
          cases Generated.Sort.quick3Way (f + (a.size + 1) + d) a2 (gt' + 1) hi cmp <;> simp
        | panic => rw [h2] at hl; simp at hl
        | diverge => rw [h2] at hl; simp at hl
      | panic =>
        rw [h1] at hl
        cases h2 : quick3Way.loop1 (f + (a.size + 1) + d) cmp v (f + (a.size + 1) + d) a lo (lo + 1) hi <;>
          rw [h2] at hl <;> simp at hl ⊢
      | diverge => simp

/-- `Quick3Way` with any fuel `≥ 2·len(a) + 2` -/
theorem quick3Way_pub_le (cmp : α → α → Int) (a : Array α) (d : Nat) :
    C07.quick3Way cmp a ≼ Generated.Sort.Quick3Way (2 * a.size + 2 + d) a cmp := by
  have := quick3Way_le cmp (a.size + 1) d a 0 ((a.size : Int) - 1)
  rw [show a.size + 1 + (a.size + 1) + d = 2 * a.size + 2 + d by omega] at this
  simp only [C07.quick3Way, Generated.Sort.Quick3Way, Outcome.pure_eq, Outcome.bind_assoc, Outcome.ok_bind]
  revert this
  cases Generated.Sort.quick3Way (2 * a.size + 2 + d) a 0 ((a.size : Int) - 1) cmp <;> simp

end AlgoVerif.C07.Gen
