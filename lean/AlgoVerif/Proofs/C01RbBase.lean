import AlgoVerif.Proofs.C01Bst
/-!
# C01 / C15: the LLRB helpers (`rotateLeft`, `rotateRight`, `flipColors`, the fix-up sequence) as pure
functions, and what they do to listings, sizes, colours and black heights
-/
namespace AlgoVerif.C01
open Tree

variable {K V : Type}

@[simp] theorem isRed_nil : (Tree.nil : Tree K V).isRed = false := rfl
@[simp] theorem isRed_node (l : Tree K V) (k v s h c r) : (Tree.node l k v s h c r).isRed = c := rfl
@[simp] theorem isNil_nil : (Tree.nil : Tree K V).isNil = true := rfl
@[simp] theorem isNil_node (l : Tree K V) (k v s h c r) : (Tree.node l k v s h c r).isNil = false := rfl
@[simp] theorem nodes_nil : (Tree.nil : Tree K V).nodes = 0 := rfl
@[simp] theorem nodes_node (l : Tree K V) (k v s h c r) :
    (Tree.node l k v s h c r).nodes = 1 + l.nodes + r.nodes := rfl

/-- `n.left` (nil for nil) -/
def Tree.lt : Tree K V → Tree K V
  | .nil => .nil
  | .node l _ _ _ _ _ _ => l

/-- `n.right` (nil for nil) -/
def Tree.rt : Tree K V → Tree K V
  | .nil => .nil
  | .node _ _ _ _ _ _ r => r

@[simp] theorem lt_nil : (Tree.nil : Tree K V).lt = .nil := rfl
@[simp] theorem rt_nil : (Tree.nil : Tree K V).rt = .nil := rfl
@[simp] theorem lt_node (l : Tree K V) (k v s h c r) : (Tree.node l k v s h c r).lt = l := rfl
@[simp] theorem rt_node (l : Tree K V) (k v s h c r) : (Tree.node l k v s h c r).rt = r := rfl

theorem isNil_of_isRed {t : Tree K V} (h : t.isRed = true) : t.isNil = false := by
  cases t <;> simp_all

/-! ### pure versions (identity where the Go code would dereference nil) -/

def rotLP : Tree K V → Tree K V
  | .node a k v s h c (.node b rk rv _ rh _ d) =>
    .node (.node a k v (1 + a.sz + b.sz) h true b) rk rv s rh c d
  | t => t

def rotRP : Tree K V → Tree K V
  | .node (.node a lk lv _ lh _ b) k v s h c d =>
    .node a lk lv s lh c (.node b k v (1 + b.sz + d.sz) h true d)
  | t => t

def flipP : Tree K V → Tree K V
  | .node (.node a lk lv ls lh lc b) k v s h c (.node e rk rv rs rh rc d) =>
    .node (.node a lk lv ls lh (!lc) b) k v s h (!c) (.node e rk rv rs rh (!rc) d)
  | t => t

def fixSizeP : Tree K V → Tree K V
  | .nil => .nil
  | .node l k v _ h c r => .node l k v (1 + l.sz + r.sz) h c r

def fix1P (strict : Bool) (n : Tree K V) : Tree K V :=
  if n.rt.isRed && (!strict || !n.lt.isRed) then rotLP n else n

def fix2P (n : Tree K V) : Tree K V :=
  if n.lt.isRed && n.lt.lt.isRed then rotRP n else n

def fix3P (n : Tree K V) : Tree K V :=
  if n.lt.isRed && n.rt.isRed then flipP n else n

def fixP (strict : Bool) (n : Tree K V) : Tree K V :=
  fixSizeP (fix3P (fix2P (fix1P strict n)))

theorem rbRotateLeft_eq' {n : Tree K V} (h : n.rt.isNil = false) : rbRotateLeft n = .ok (rotLP n) := by
  rcases n with _ | ⟨a, k, v, s, hh, c, _ | ⟨b, rk, rv, rs, rh, rc, d⟩⟩ <;> simp_all [rbRotateLeft, rotLP]

theorem rbRotateRight_eq' {n : Tree K V} (h : n.lt.isNil = false) : rbRotateRight n = .ok (rotRP n) := by
  rcases n with _ | ⟨_ | ⟨a, lk, lv, ls, lh, lc, b⟩, k, v, s, hh, c, d⟩ <;> simp_all [rbRotateRight, rotRP]

theorem rbRotateLeft_eq {n : Tree K V} (h : n.rt.isRed = true) : rbRotateLeft n = .ok (rotLP n) :=
  rbRotateLeft_eq' (isNil_of_isRed h)

theorem rbRotateRight_eq {n : Tree K V} (h : n.lt.isRed = true) : rbRotateRight n = .ok (rotRP n) :=
  rbRotateRight_eq' (isNil_of_isRed h)

theorem rbFlipColors_eq {n : Tree K V} (h1 : n.lt.isNil = false) (h2 : n.rt.isNil = false) :
    rbFlipColors n = .ok (flipP n) := by
  rcases n with _ | ⟨_ | ⟨a, lk, lv, ls, lh, lc, b⟩, k, v, s, hh, c, _ | ⟨e, rk, rv, rs, rh, rc, d⟩⟩ <;>
    simp_all [rbFlipColors, flipP]

theorem isNil_rotLP (n : Tree K V) : (rotLP n).isNil = n.isNil := by
  rcases n with _ | ⟨a, k, v, s, hh, c, _ | ⟨b, rk, rv, rs, rh, rc, d⟩⟩ <;> simp [rotLP]

theorem isNil_rotRP (n : Tree K V) : (rotRP n).isNil = n.isNil := by
  rcases n with _ | ⟨_ | ⟨a, lk, lv, ls, lh, lc, b⟩, k, v, s, hh, c, d⟩ <;> simp [rotRP]

theorem isNil_flipP (n : Tree K V) : (flipP n).isNil = n.isNil := by
  rcases n with _ | ⟨_ | ⟨a, lk, lv, ls, lh, lc, b⟩, k, v, s, hh, c, _ | ⟨e, rk, rv, rs, rh, rc, d⟩⟩ <;>
    simp [flipP]

theorem isNil_fix1P (strict : Bool) (n : Tree K V) : (fix1P strict n).isNil = n.isNil := by
  unfold fix1P; split <;> simp [isNil_rotLP]

theorem isNil_fix2P (n : Tree K V) : (fix2P n).isNil = n.isNil := by
  unfold fix2P; split <;> simp [isNil_rotRP]

theorem isNil_fix3P (n : Tree K V) : (fix3P n).isNil = n.isNil := by
  unfold fix3P; split <;> simp [isNil_flipP]

theorem rbFix1_eq (strict : Bool) {n : Tree K V} (hn : n.isNil = false) :
    rbFix1 strict n = .ok (fix1P strict n) := by
  rcases n with _ | ⟨l, k, v, s, hh, c, r⟩
  · simp at hn
  · cases hr : r.isRed <;> cases hl : l.isRed <;> cases strict <;>
      simp [rbFix1, rightOf, leftOf, fix1P, hr, hl] <;>
      exact rbRotateLeft_eq (by simp [hr])

theorem rbFix2_eq {n : Tree K V} (hn : n.isNil = false) : rbFix2 n = .ok (fix2P n) := by
  rcases n with _ | ⟨l, k, v, s, hh, c, r⟩
  · simp at hn
  · rcases l with _ | ⟨ll, lk, lv, ls, lh, lc, lr⟩
    · simp [rbFix2, leftOf, fix2P]
    · cases lc <;> cases hll : ll.isRed <;>
        simp [rbFix2, leftOf, fix2P, hll] <;>
        exact rbRotateRight_eq (by simp)

theorem rbFix3_eq {n : Tree K V} (hn : n.isNil = false) : rbFix3 n = .ok (fix3P n) := by
  rcases n with _ | ⟨l, k, v, s, hh, c, r⟩
  · simp at hn
  · cases hr : r.isRed <;> cases hl : l.isRed <;>
      simp [rbFix3, rightOf, leftOf, fix3P, hr, hl] <;>
      exact rbFlipColors_eq (isNil_of_isRed (by simp [hl])) (isNil_of_isRed (by simp [hr]))

theorem rbFixSize_eq {n : Tree K V} (hn : n.isNil = false) : rbFixSize n = .ok (fixSizeP n) := by
  cases n <;> simp_all [rbFixSize, fixSizeP]

theorem rbFixUp_eq (strict : Bool) {n : Tree K V} (hn : n.isNil = false) :
    rbFixUp strict n = .ok (fixP strict n) := by
  unfold rbFixUp fixP
  rw [rbFix1_eq strict hn]
  simp only [Outcome.ok_bind']
  rw [rbFix2_eq (by rw [isNil_fix1P]; exact hn)]
  simp only [Outcome.ok_bind']
  rw [rbFix3_eq (by rw [isNil_fix2P, isNil_fix1P]; exact hn)]
  simp only [Outcome.ok_bind']
  rw [rbFixSize_eq (by rw [isNil_fix3P, isNil_fix2P, isNil_fix1P]; exact hn)]

/-! ### listings, node counts, sizes -/

@[simp] theorem toList_rotLP (n : Tree K V) : (rotLP n).toList = n.toList := by
  rcases n with _ | ⟨a, k, v, s, hh, c, _ | ⟨b, rk, rv, rs, rh, rc, d⟩⟩ <;> simp [rotLP]

@[simp] theorem toList_rotRP (n : Tree K V) : (rotRP n).toList = n.toList := by
  rcases n with _ | ⟨_ | ⟨a, lk, lv, ls, lh, lc, b⟩, k, v, s, hh, c, d⟩ <;> simp [rotRP]

@[simp] theorem toList_flipP (n : Tree K V) : (flipP n).toList = n.toList := by
  rcases n with _ | ⟨_ | ⟨a, lk, lv, ls, lh, lc, b⟩, k, v, s, hh, c, _ | ⟨e, rk, rv, rs, rh, rc, d⟩⟩ <;>
    simp [flipP]

@[simp] theorem toList_fixSizeP (n : Tree K V) : (fixSizeP n).toList = n.toList := by
  cases n <;> simp [fixSizeP]

@[simp] theorem toList_fixP (strict : Bool) (n : Tree K V) : (fixP strict n).toList = n.toList := by
  unfold fixP fix3P fix2P fix1P
  repeat' split
  all_goals simp

@[simp] theorem nodes_rotLP (n : Tree K V) : (rotLP n).nodes = n.nodes := by
  rcases n with _ | ⟨a, k, v, s, hh, c, _ | ⟨b, rk, rv, rs, rh, rc, d⟩⟩ <;> simp [rotLP] <;> omega

@[simp] theorem nodes_rotRP (n : Tree K V) : (rotRP n).nodes = n.nodes := by
  rcases n with _ | ⟨_ | ⟨a, lk, lv, ls, lh, lc, b⟩, k, v, s, hh, c, d⟩ <;> simp [rotRP] <;> omega

@[simp] theorem nodes_flipP (n : Tree K V) : (flipP n).nodes = n.nodes := by
  rcases n with _ | ⟨_ | ⟨a, lk, lv, ls, lh, lc, b⟩, k, v, s, hh, c, _ | ⟨e, rk, rv, rs, rh, rc, d⟩⟩ <;>
    simp [flipP]

@[simp] theorem nodes_fixSizeP (n : Tree K V) : (fixSizeP n).nodes = n.nodes := by
  cases n <;> simp [fixSizeP]

@[simp] theorem nodes_fixP (strict : Bool) (n : Tree K V) : (fixP strict n).nodes = n.nodes := by
  unfold fixP fix3P fix2P fix1P
  repeat' split
  all_goals simp

/-- both children have consistent sizes (the root's own `size` may be stale) -/
def SizeOKc (n : Tree K V) : Prop := SizeOK n.lt ∧ SizeOK n.rt

theorem sizeOKc_rotLP {n : Tree K V} (h : SizeOKc n) : SizeOKc (rotLP n) := by
  rcases n with _ | ⟨a, k, v, s, hh, c, _ | ⟨b, rk, rv, rs, rh, rc, d⟩⟩ <;>
    simp_all [rotLP, SizeOKc, SizeOK]

theorem sizeOKc_rotRP {n : Tree K V} (h : SizeOKc n) : SizeOKc (rotRP n) := by
  rcases n with _ | ⟨_ | ⟨a, lk, lv, ls, lh, lc, b⟩, k, v, s, hh, c, d⟩ <;>
    simp_all [rotRP, SizeOKc, SizeOK]

theorem sizeOKc_flipP {n : Tree K V} (h : SizeOKc n) : SizeOKc (flipP n) := by
  rcases n with _ | ⟨_ | ⟨a, lk, lv, ls, lh, lc, b⟩, k, v, s, hh, c, _ | ⟨e, rk, rv, rs, rh, rc, d⟩⟩ <;>
    simp_all [flipP, SizeOKc, SizeOK]

theorem sizeOK_fixSizeP {n : Tree K V} (h : SizeOKc n) : SizeOK (fixSizeP n) := by
  cases n <;> simp_all [fixSizeP, SizeOKc, SizeOK]

theorem sizeOK_fixP (strict : Bool) {n : Tree K V} (h : SizeOKc n) : SizeOK (fixP strict n) := by
  unfold fixP
  apply sizeOK_fixSizeP
  unfold fix3P fix2P fix1P
  repeat' split
  all_goals first
    | exact h
    | exact sizeOKc_flipP (sizeOKc_rotRP (sizeOKc_rotLP h))
    | exact sizeOKc_flipP (sizeOKc_rotRP h)
    | exact sizeOKc_flipP (sizeOKc_rotLP h)
    | exact sizeOKc_rotRP (sizeOKc_rotLP h)
    | exact sizeOKc_flipP h
    | exact sizeOKc_rotRP h
    | exact sizeOKc_rotLP h

theorem sizeOKc_of_sizeOK {n : Tree K V} (h : SizeOK n) : SizeOKc n := by
  cases n <;> simp_all [SizeOKc, SizeOK]

/-! ### `moveRedLeft` / `moveRedRight` -/

def setRightP (n x : Tree K V) : Tree K V :=
  match n with
  | .nil => .nil
  | .node l k v s h c _ => .node l k v s h c x

def setLeftP (n x : Tree K V) : Tree K V :=
  match n with
  | .nil => .nil
  | .node _ k v s h c r => .node x k v s h c r

def mrlP (n : Tree K V) : Tree K V :=
  if (flipP n).rt.lt.isRed then flipP (rotLP (setRightP (flipP n) (rotRP (flipP n).rt))) else flipP n

def mrrP (n : Tree K V) : Tree K V :=
  if (flipP n).lt.lt.isRed then flipP (rotRP (flipP n)) else flipP n

theorem rbMoveRedLeft_eq {n : Tree K V} (h1 : n.lt.isNil = false) (h2 : n.rt.isNil = false) :
    rbMoveRedLeft n = .ok (mrlP n) := by
  rcases n with _ | ⟨_ | ⟨a, lk, lv, ls, lh, lc, b⟩, k, v, s, hh, c, _ | ⟨e, rk, rv, rs, rh, rc, d⟩⟩
  all_goals try (simp at h1; done)
  all_goals try (simp at h2; done)
  rcases e with _ | ⟨ea, ek, ev, es, eh, ec, eb⟩
  · simp [rbMoveRedLeft, rbFlipColors, rightOf, leftOf, mrlP, flipP]
  · cases ec <;>
      simp [rbMoveRedLeft, rbFlipColors, rightOf, leftOf, mrlP, flipP, rbRotateRight, setRight, rbRotateLeft,
        rotRP, rotLP, setRightP]

theorem rbMoveRedRight_eq {n : Tree K V} (h1 : n.lt.isNil = false) (h2 : n.rt.isNil = false) :
    rbMoveRedRight n = .ok (mrrP n) := by
  rcases n with _ | ⟨_ | ⟨a, lk, lv, ls, lh, lc, b⟩, k, v, s, hh, c, _ | ⟨e, rk, rv, rs, rh, rc, d⟩⟩
  all_goals try (simp at h1; done)
  all_goals try (simp at h2; done)
  rcases a with _ | ⟨aa, ak, av, as, ah, ac, ab⟩
  · simp [rbMoveRedRight, rbFlipColors, rightOf, leftOf, mrrP, flipP]
  · cases ac <;>
      simp [rbMoveRedRight, rbFlipColors, rightOf, leftOf, mrrP, flipP, rbRotateRight, rotRP]

@[simp] theorem toList_setRightP_rotRP (n : Tree K V) : (setRightP n (rotRP n.rt)).toList = n.toList := by
  cases n <;> simp [setRightP]

@[simp] theorem toList_mrlP (n : Tree K V) : (mrlP n).toList = n.toList := by
  unfold mrlP; split <;> simp

@[simp] theorem toList_mrrP (n : Tree K V) : (mrrP n).toList = n.toList := by
  unfold mrrP; split <;> simp

@[simp] theorem nodes_setRightP_rotRP (n : Tree K V) : (setRightP n (rotRP n.rt)).nodes = n.nodes := by
  cases n <;> simp [setRightP]

@[simp] theorem nodes_mrlP (n : Tree K V) : (mrlP n).nodes = n.nodes := by
  unfold mrlP; split <;> simp

@[simp] theorem nodes_mrrP (n : Tree K V) : (mrrP n).nodes = n.nodes := by
  unfold mrrP; split <;> simp

theorem sizeOK_rotRP_of_sizeOK {n : Tree K V} (h : SizeOK n) : SizeOK (fixSizeP (rotRP n)) :=
  sizeOK_fixSizeP (sizeOKc_rotRP (sizeOKc_of_sizeOK h))

theorem sizeOKc_mrlP {n : Tree K V} (h : SizeOKc n) : SizeOKc (mrlP n) := by
  rcases n with _ | ⟨_ | ⟨a, lk, lv, ls, lh, lc, b⟩, k, v, s, hh, c, _ | ⟨e, rk, rv, rs, rh, rc, d⟩⟩
  all_goals try (rcases e with _ | ⟨ea, ek, ev, es, eh, ec, eb⟩)
  all_goals try (cases ec)
  all_goals simp_all [mrlP, flipP, SizeOKc, SizeOK, rotRP, rotLP, setRightP]

theorem sizeOKc_mrrP {n : Tree K V} (h : SizeOKc n) : SizeOKc (mrrP n) := by
  unfold mrrP
  split
  · exact sizeOKc_flipP (sizeOKc_rotRP (sizeOKc_flipP h))
  · exact sizeOKc_flipP h

theorem isNil_mrlP (n : Tree K V) : (mrlP n).isNil = n.isNil := by
  rcases n with _ | ⟨_ | ⟨a, lk, lv, ls, lh, lc, b⟩, k, v, s, hh, c, _ | ⟨e, rk, rv, rs, rh, rc, d⟩⟩
  all_goals try (rcases e with _ | ⟨ea, ek, ev, es, eh, ec, eb⟩)
  all_goals try (cases ec)
  all_goals simp [mrlP, flipP, rotRP, rotLP, setRightP]

theorem isNil_mrrP (n : Tree K V) : (mrrP n).isNil = n.isNil := by
  unfold mrrP; split <;> simp [isNil_flipP, isNil_rotRP]

theorem nodes_lt_lt {n : Tree K V} (h : n.isNil = false) : n.lt.nodes < n.nodes := by
  cases n <;> simp_all <;> omega

theorem nodes_rt_lt {n : Tree K V} (h : n.isNil = false) : n.rt.nodes < n.nodes := by
  cases n <;> simp_all <;> omega

end AlgoVerif.C01
