import AlgoVerif.Proofs.C01RbBase
/-!
# LLRB colour invariants and what the fix-up sequence does to them (used by C01 and C15)
-/
namespace AlgoVerif.C01
open Tree

variable {K V : Type}

/-- black height along the left spine -/
def bh : Tree K V → Nat
  | .nil => 0
  | .node l _ _ _ _ c _ => bh l + (if c then 0 else 1)

/-- left-leaning red-black subtree (the root may be red): no red right link, no red node with a red
left child, equal black heights -/
def RB : Tree K V → Prop
  | .nil => True
  | .node l _ _ _ _ c r => r.isRed = false ∧ (c = true → l.isRed = false) ∧ bh l = bh r ∧ RB l ∧ RB r

/-- as `RB`, except that a red root may have a red left child (what `_put` hands to its caller) -/
def ARB : Tree K V → Prop
  | .nil => True
  | .node l _ _ _ _ _ r => r.isRed = false ∧ bh l = bh r ∧ RB l ∧ RB r

@[simp] theorem bh_nil : bh (Tree.nil : Tree K V) = 0 := rfl
@[simp] theorem bh_node (l : Tree K V) (k v s h c r) :
    bh (Tree.node l k v s h c r) = bh l + (if c then 0 else 1) := rfl
@[simp] theorem RB_nil : RB (Tree.nil : Tree K V) = True := rfl
@[simp] theorem RB_node (l : Tree K V) (k v s h c r) :
    RB (Tree.node l k v s h c r) =
      (r.isRed = false ∧ (c = true → l.isRed = false) ∧ bh l = bh r ∧ RB l ∧ RB r) := rfl
@[simp] theorem ARB_nil : ARB (Tree.nil : Tree K V) = True := rfl
@[simp] theorem ARB_node (l : Tree K V) (k v s h c r) :
    ARB (Tree.node l k v s h c r) = (r.isRed = false ∧ bh l = bh r ∧ RB l ∧ RB r) := rfl

theorem RB.arb {t : Tree K V} (h : RB t) : ARB t := by
  cases t <;> simp_all

theorem bh_fixSizeP (n : Tree K V) : bh (fixSizeP n) = bh n := by cases n <;> simp [fixSizeP]
theorem isRed_fixSizeP (n : Tree K V) : (fixSizeP n).isRed = n.isRed := by cases n <;> simp [fixSizeP]
theorem RB_fixSizeP (n : Tree K V) : RB (fixSizeP n) = RB n := by cases n <;> simp [fixSizeP]
theorem ARB_fixSizeP (n : Tree K V) : ARB (fixSizeP n) = ARB n := by cases n <;> simp [fixSizeP]

/-- `balance(n)` on a node whose children are valid and of equal black height, and are both black when
the node is red: the result is valid, has the black height of the node, and is red exactly when the
node was red or both children were -/
theorem fixP_balance (L : Tree K V) (k : K) (v : V) (s h : Nat) (c : Bool) (R : Tree K V)
    (hL : RB L) (hR : RB R) (hb : bh L = bh R) (hc : c = true → L.isRed = false ∧ R.isRed = false) :
    RB (fixP false (.node L k v s h c R)) ∧
      bh (fixP false (.node L k v s h c R)) = bh L + (if c then 0 else 1) ∧
      (fixP false (.node L k v s h c R)).isRed = (c || (L.isRed && R.isRed)) := by
  unfold fixP
  rw [RB_fixSizeP, bh_fixSizeP, isRed_fixSizeP]
  rcases R with _ | ⟨RL, Rk, Rv, Rs, Rh, Rc, RR⟩
  · rcases L with _ | ⟨LL, Lk, Lv, Ls, Lh, Lc, LR⟩
    · simp [fix1P, fix2P, fix3P]
    · cases Lc <;> cases c <;> simp_all [fix1P, fix2P, fix3P]
  · rcases L with _ | ⟨LL, Lk, Lv, Ls, Lh, Lc, LR⟩
    · cases Rc <;> cases c <;> simp_all [fix1P, fix2P, fix3P, rotLP]
    · cases Rc <;> cases Lc <;> cases c <;> simp_all [fix1P, fix2P, fix3P, rotLP, rotRP, flipP] <;> grind

/-- the fix-up in `_put` after inserting into the left subtree -/
theorem fixP_putL (L : Tree K V) (k : K) (v : V) (s h : Nat) (c : Bool) (R : Tree K V)
    (hR : RB R) (hRb : R.isRed = false) (hL : ARB L) (hb : bh L = bh R) (hc : c = true → RB L) :
    ARB (fixP true (.node L k v s h c R)) ∧
      bh (fixP true (.node L k v s h c R)) = bh L + (if c then 0 else 1) ∧
      (c = false → RB (fixP true (.node L k v s h c R))) := by
  unfold fixP
  rw [RB_fixSizeP, bh_fixSizeP, ARB_fixSizeP]
  rcases R with _ | ⟨RL, Rk, Rv, Rs, Rh, Rc, RR⟩
  · rcases L with _ | ⟨LL, Lk, Lv, Ls, Lh, Lc, LR⟩
    · simp [fix1P, fix2P, fix3P]
    · rcases LL with _ | ⟨LLL, LLk, LLv, LLs, LLh, LLc, LLR⟩
      · cases Lc <;> cases c <;> simp_all [fix1P, fix2P, fix3P]
      · cases Lc <;> cases LLc <;> cases c <;> simp_all [fix1P, fix2P, fix3P, rotRP, flipP] <;> grind
  · simp only [isRed_node] at hRb; subst hRb
    rcases L with _ | ⟨LL, Lk, Lv, Ls, Lh, Lc, LR⟩
    · cases c <;> simp_all [fix1P, fix2P, fix3P]
    · rcases LL with _ | ⟨LLL, LLk, LLv, LLs, LLh, LLc, LLR⟩
      · cases Lc <;> cases c <;> simp_all [fix1P, fix2P, fix3P]
      · cases Lc <;> cases LLc <;> cases c <;> simp_all [fix1P, fix2P, fix3P, rotRP, flipP] <;> grind

/-- the fix-up in `_put` after inserting into the right subtree -/
theorem fixP_putR (L : Tree K V) (k : K) (v : V) (s h : Nat) (c : Bool) (R : Tree K V)
    (hL : RB L) (hcl : c = true → L.isRed = false) (hR : RB R) (hb : bh L = bh R) :
    ARB (fixP true (.node L k v s h c R)) ∧
      bh (fixP true (.node L k v s h c R)) = bh L + (if c then 0 else 1) ∧
      (c = false → RB (fixP true (.node L k v s h c R))) := by
  unfold fixP
  rw [RB_fixSizeP, bh_fixSizeP, ARB_fixSizeP]
  rcases R with _ | ⟨RL, Rk, Rv, Rs, Rh, Rc, RR⟩
  · rcases L with _ | ⟨LL, Lk, Lv, Ls, Lh, Lc, LR⟩
    · simp [fix1P, fix2P, fix3P]
    · cases Lc <;> cases c <;> simp_all [fix1P, fix2P, fix3P]
  · rcases L with _ | ⟨LL, Lk, Lv, Ls, Lh, Lc, LR⟩
    · cases Rc <;> cases c <;> simp_all [fix1P, fix2P, fix3P, rotLP]
    · cases Rc <;> cases Lc <;> cases c <;> simp_all [fix1P, fix2P, fix3P, rotLP, rotRP, flipP] <;> grind

/-! ### the delete paths -/

/-- what `_deleteMax` and `_delete` are entered with: both subtrees valid and of equal black height; the
node is red, or has a red child; a red right child only below a black node with a black left child -/
def PreR : Tree K V → Prop
  | .nil => False
  | .node l _ _ _ _ c r =>
    RB l ∧ RB r ∧ bh l = bh r ∧ (c = true → l.isRed = false) ∧
      (c = true ∨ l.isRed = true ∨ r.isRed = true) ∧ (r.isRed = true → l.isRed = false ∧ c = false)

@[simp] theorem PreR_nil : PreR (Tree.nil : Tree K V) = False := rfl
@[simp] theorem PreR_node (l : Tree K V) (k v s h c r) :
    PreR (Tree.node l k v s h c r) =
      (RB l ∧ RB r ∧ bh l = bh r ∧ (c = true → l.isRed = false) ∧
        (c = true ∨ l.isRed = true ∨ r.isRed = true) ∧ (r.isRed = true → l.isRed = false ∧ c = false)) := rfl

/-- what `_deleteMin` is entered with (`RB n` and `n` or `n.left` red) is a special case -/
theorem preR_of_RB {n : Tree K V} (h : RB n) (hr : n.isRed = true ∨ n.lt.isRed = true) : PreR n := by
  rcases n with _ | ⟨l, k, v, s, hh, c, r⟩
  · simp at hr
  · simp_all

theorem mrlP_spec (l : Tree K V) (k : K) (v : V) (s h : Nat) (r : Tree K V)
    (hL : RB l) (hR : RB r) (hb : bh l = bh r) (hln : l.isNil = false) (hl : l.isRed = false)
    (hll : l.lt.isRed = false) (hr : r.isRed = false) :
    r.isNil = false ∧
    (mrlP (.node l k v s h true r)).isNil = false ∧
    RB (mrlP (.node l k v s h true r)).lt ∧
    ((mrlP (.node l k v s h true r)).lt.isRed = true ∨ (mrlP (.node l k v s h true r)).lt.lt.isRed = true) ∧
    RB (mrlP (.node l k v s h true r)).rt ∧
    bh (mrlP (.node l k v s h true r)).lt = bh (mrlP (.node l k v s h true r)).rt ∧
    ((mrlP (.node l k v s h true r)).isRed = true →
      (mrlP (.node l k v s h true r)).lt.isRed = false ∧ (mrlP (.node l k v s h true r)).rt.isRed = false) ∧
    bh (mrlP (.node l k v s h true r)) = bh l := by
  rcases l with _ | ⟨ll, lk, lv, ls, lh, lc, lr⟩
  · simp at hln
  · simp only [isRed_node] at hl; subst hl
    rcases r with _ | ⟨rl, rk, rv, rs, rh, rc, rr⟩
    · simp at hb
    · simp only [isRed_node] at hr; subst hr
      rcases rl with _ | ⟨rll, rlk, rlv, rls, rlh, rlc, rlr⟩
      · simp_all [mrlP, flipP]
      · cases rlc <;> simp_all [mrlP, flipP, rotRP, rotLP, setRightP] <;> grind

theorem mrrP_spec (l : Tree K V) (k : K) (v : V) (s h : Nat) (r : Tree K V)
    (hL : RB l) (hR : RB r) (hb : bh l = bh r) (hrn : r.isNil = false) (hl : l.isRed = false)
    (hr : r.isRed = false) (hrl : r.lt.isRed = false) :
    l.isNil = false ∧
    (mrrP (.node l k v s h true r)).isNil = false ∧
    PreR (mrrP (.node l k v s h true r)).rt ∧
    RB (mrrP (.node l k v s h true r)).lt ∧
    bh (mrrP (.node l k v s h true r)).lt = bh (mrrP (.node l k v s h true r)).rt ∧
    ((mrrP (.node l k v s h true r)).isRed = true →
      (mrrP (.node l k v s h true r)).lt.isRed = false ∧ (mrrP (.node l k v s h true r)).rt.isRed = false) ∧
    bh (mrrP (.node l k v s h true r)) = bh l := by
  rcases r with _ | ⟨rl, rk, rv, rs, rh, rc, rr⟩
  · simp at hrn
  · simp only [isRed_node] at hr; subst hr
    rcases l with _ | ⟨ll, lk, lv, ls, lh, lc, lr⟩
    · simp at hb
    · simp only [isRed_node] at hl; subst hl
      rcases ll with _ | ⟨lll, llk, llv, lls, llh, llc, llr⟩
      · simp_all [mrrP, flipP]
      · cases llc <;> simp_all [mrrP, flipP, rotRP] <;> grind

/-- `rotateRight(n)` at the top of `_deleteMax` / `_delete` (black `n` with a red left child) -/
theorem rotRP_spec (l : Tree K V) (k : K) (v : V) (s h : Nat) (r : Tree K V)
    (hL : RB l) (hR : RB r) (hb : bh l = bh r) (hl : l.isRed = true) (hr : r.isRed = false) :
    (rotRP (.node l k v s h false r)).isNil = false ∧
    (rotRP (.node l k v s h false r)).rt.isNil = false ∧
    (rotRP (.node l k v s h false r)).rt.isRed = true ∧
    PreR (rotRP (.node l k v s h false r)).rt ∧
    RB (rotRP (.node l k v s h false r)).lt ∧
    bh (rotRP (.node l k v s h false r)).lt = bh (rotRP (.node l k v s h false r)).rt ∧
    (rotRP (.node l k v s h false r)).isRed = false ∧
    (rotRP (.node l k v s h false r)).lt.isRed = false ∧
    bh (rotRP (.node l k v s h false r)) = bh l + 1 := by
  rcases l with _ | ⟨ll, lk, lv, ls, lh, lc, lr⟩
  · simp at hl
  · simp only [isRed_node] at hl; subst hl
    simp_all [rotRP]

/-- after the optional `rotateRight` at the top of `_deleteMax` / `_delete` the precondition still holds
and the left child is black -/
theorem preR_rotRP {n : Tree K V} (hp : PreR n) (hl : n.lt.isRed = true) :
    PreR (rotRP n) ∧ (rotRP n).lt.isRed = false ∧ bh (rotRP n) = bh n ∧ n.isRed = false ∧
      (rotRP n).isRed = false ∧ (rotRP n).rt.isRed = true := by
  rcases n with _ | ⟨l, k, v, s, h, c, r⟩
  · simp at hl
  · rcases l with _ | ⟨ll, lk, lv, ls, lh, lc, lr⟩
    · simp at hl
    · simp only [lt_node, isRed_node] at hl; subst hl
      cases c <;> simp_all [rotRP] <;> omega

theorem preR_isNil {n : Tree K V} (hp : PreR n) : n.isNil = false := by
  cases n <;> simp_all

/-- where the root pair of `n` ends up after `moveRedRight(n)`: it stays at the root and the right child
is a valid red node (no rotation), or it becomes the root of the right child (rotation) -/
theorem mrrP_key (l : Tree K V) (k : K) (v : V) (s h : Nat) (r : Tree K V)
    (hR : RB r) (hln : l.isNil = false) (hrn : r.isNil = false) (hr : r.isRed = false)
    (hrl : r.lt.isRed = false) :
    (RB (mrrP (.node l k v s h true r)).rt ∧ (mrrP (.node l k v s h true r)).rt.isRed = true ∧
        (mrrP (.node l k v s h true r)).rt.rt.isRed = false ∧
        kvOf (mrrP (.node l k v s h true r)) = .ok (k, v)) ∨
      kvOf (mrrP (.node l k v s h true r)).rt = .ok (k, v) := by
  rcases r with _ | ⟨rl, rk, rv, rs, rh, rc, rr⟩
  · simp at hrn
  · simp only [isRed_node] at hr; subst hr
    rcases l with _ | ⟨ll, lk, lv, ls, lh, lc, lr⟩
    · simp at hln
    · rcases ll with _ | ⟨lll, llk, llv, lls, llh, llc, llr⟩
      · simp_all [mrrP, flipP, kvOf]
      · cases llc <;> simp_all [mrrP, flipP, rotRP, kvOf]

/-- the root pair after `moveRedLeft(n)`: unchanged, or a pair of the old right subtree -/
theorem mrlP_key (l : Tree K V) (k : K) (v : V) (s h : Nat) (c : Bool) (r : Tree K V) :
    kvOf (mrlP (.node l k v s h c r)) = .ok (k, v) ∨
      ∃ k' v', kvOf (mrlP (.node l k v s h c r)) = .ok (k', v') ∧ (k', v') ∈ r.toList := by
  rcases l with _ | ⟨ll, lk, lv, ls, lh, lc, lr⟩
  · rcases r with _ | ⟨rl, rk, rv, rs, rh, rc, rr⟩
    · simp [mrlP, flipP, kvOf]
    · rcases rl with _ | ⟨rll, rlk, rlv, rls, rlh, rlc, rlr⟩
      · simp [mrlP, flipP, kvOf]
      · cases rlc <;> simp [mrlP, flipP, rotRP, rotLP, setRightP, kvOf] <;>
          exact Or.inr ⟨_, _, ⟨rfl, rfl⟩, Or.inr (Or.inl ⟨rfl, rfl⟩)⟩
  · rcases r with _ | ⟨rl, rk, rv, rs, rh, rc, rr⟩
    · simp [mrlP, flipP, kvOf]
    · rcases rl with _ | ⟨rll, rlk, rlv, rls, rlh, rlc, rlr⟩
      · simp [mrlP, flipP, kvOf]
      · cases rlc <;> simp [mrlP, flipP, rotRP, rotLP, setRightP, kvOf] <;>
          exact Or.inr ⟨_, _, ⟨rfl, rfl⟩, Or.inr (Or.inl ⟨rfl, rfl⟩)⟩

theorem RB_bh_zero {t : Tree K V} (h : RB t) (hb : bh t = 0) (hr : t.isRed = false) : t = .nil := by
  rcases t with _ | ⟨l, k, v, s, hh, c, r⟩
  · rfl
  · simp only [isRed_node] at hr; subst hr
    simp at hb

end AlgoVerif.C01
