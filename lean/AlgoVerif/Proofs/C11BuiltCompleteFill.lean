import AlgoVerif.Proofs.C11Valid
/-!
# C11 — `fillFull` (SLR and canonical LR(1)) leaves no entry out

For every state `i` with item set `I` of the state map the filled table has

* `shift FindItemSet(GOTO(I,a)) ∈ ACTION[i,a]` for every item of `I` with the terminal `a` after the dot,
* `GOTO[i,B] = FindItemSet(GOTO(I,B))` for every listed non-terminal `B ≠ S′` (unless `FindItemSet` fails),
* `reduce A→α ∈ ACTION[i,a]` for every complete item `A → α•` of `I` other than `S′ → S•` and every `a` of its lookaheads,
* `accept ∈ ACTION[i,$]` if `S′ → S• ∈ I`.

(`AddACTION` only ever adds to a cell; `SetGOTO` of later rows does not touch earlier rows.)
-/
namespace AlgoVerif.C11.BuiltComplete
open AlgoVerif AlgoVerif.Gram AlgoVerif.C11 AlgoVerif.C11.Spec AlgoVerif.C11.Built

/-! ## association lists -/

section
variable {K V : Type} [BEq K] [LawfulBEq K]

theorem lookup_upd (k : K) (h : V → V) (k' : K) : ∀ (l : List (K × V)),
    (l.map fun e => if e.1 == k then (e.1, h e.2) else e).lookup k' =
      if k' == k then (l.lookup k').map h else l.lookup k'
  | [] => by simp
  | (k0, v0) :: l => by
    have ih := lookup_upd k h k' l
    by_cases h0 : (k0 == k) = true
    · have e0 : k0 = k := by simpa using h0
      subst e0
      by_cases h1 : (k' == k0) = true
      · simp [List.lookup_cons, h1]
      · simp only [Bool.not_eq_true] at h1
        simpa [List.lookup_cons, h1] using ih
    · simp only [Bool.not_eq_true] at h0
      by_cases h1 : (k' == k0) = true
      · have e1 : k' = k0 := by simpa using h1
        subst e1
        simp [h0]
      · simp only [Bool.not_eq_true] at h1
        simpa [List.lookup_cons, h0, h1] using ih

theorem lookup_of_any (k : K) : ∀ (l : List (K × V)), l.any (fun e => e.1 == k) = true → ∃ v, l.lookup k = some v
  | [], h => by simp at h
  | (k0, v0) :: l, h => by
    by_cases h0 : (k == k0) = true
    · exact ⟨v0, by simp [List.lookup_cons, h0]⟩
    · simp only [Bool.not_eq_true] at h0
      have h0' : (k0 == k) = false := by
        cases hh : (k0 == k) with
        | false => rfl
        | true =>
          have e : k0 = k := by simpa using hh
          subst e
          simp at h0
      simp only [List.any_cons, h0', Bool.false_or] at h
      obtain ⟨v, hv⟩ := lookup_of_any k l h
      exact ⟨v, by simp [List.lookup_cons, h0, hv]⟩

theorem lookup_of_not_any (k : K) : ∀ (l : List (K × V)), l.any (fun e => e.1 == k) = false → l.lookup k = none
  | [], _ => by simp
  | (k0, v0) :: l, h => by
    simp only [List.any_cons, Bool.or_eq_false_iff] at h
    have h0 : (k == k0) = false := by
      cases hh : (k == k0) with
      | false => rfl
      | true =>
        have e : k = k0 := by simpa using hh
        subst e
        simp at h
    simp [List.lookup_cons, h0, lookup_of_not_any k l h.2]

omit [LawfulBEq K] in
theorem lookup_snoc (k : K) (v : V) (k' : K) : ∀ (l : List (K × V)),
    (l ++ [(k, v)]).lookup k' = match l.lookup k' with
      | some x => some x
      | none => if k' == k then some v else none
  | [] => by cases h : (k' == k) <;> simp [List.lookup_cons, h]
  | (k0, v0) :: l => by
    have ih := lookup_snoc k v k' l
    by_cases h1 : (k' == k0) = true
    · simp [List.lookup_cons, h1]
    · simp only [Bool.not_eq_true] at h1
      simp only [List.cons_append, List.lookup_cons, h1]
      exact ih

end

/-! ## `AddACTION`, `SetGOTO` -/

theorem cell_addAction (T : Table) (s : Int) (a : String) (act : Action) (s' : Int) (a' : String) :
    (T.addAction s a act).cell s' a' = if (s', a') = (s, a) then addNew (T.cell s a) act else T.cell s' a' := by
  unfold Table.addAction
  split
  · rename_i hany
    obtain ⟨v, hv⟩ := lookup_of_any (s, a) T.actions hany
    unfold Table.cell
    simp only
    rw [lookup_upd (s, a) (fun acts => addNew acts act) (s', a') T.actions]
    by_cases hk : (s', a') = (s, a)
    · rw [hk]
      simp [hv]
    · have : ((s', a') == (s, a)) = false := by simpa using hk
      rw [this]
      simp [hk]
  · rename_i hany
    simp only [Bool.not_eq_true] at hany
    have hnone := lookup_of_not_any (s, a) T.actions hany
    unfold Table.cell
    simp only
    rw [lookup_snoc]
    by_cases hk : (s', a') = (s, a)
    · rw [hk, hnone]
      simp [addNew]
    · have : ((s', a') == (s, a)) = false := by simpa using hk
      rw [this]
      cases hl : T.actions.lookup (s', a') <;> simp [hk]

theorem addAction_gotos (T : Table) (s : Int) (a : String) (act : Action) : (T.addAction s a act).gotos = T.gotos := by
  unfold Table.addAction
  split <;> rfl

theorem setGoto_actions (T : Table) (s : Int) (B : String) (t : Int) : (T.setGoto s B t).actions = T.actions := by
  unfold Table.setGoto
  split
  · rfl
  · split <;> rfl

theorem goto_setGoto (T : Table) (s : Int) (B : String) (t : Int) (s' : Int) (B' : String) :
    (T.setGoto s B t).goto s' B' = if t ≠ -1 ∧ (s', B') = (s, B) then some t else T.goto s' B' := by
  unfold Table.setGoto
  split
  · rename_i ht
    simp [ht]
  · rename_i ht
    split
    · rename_i hany
      obtain ⟨v, hv⟩ := lookup_of_any (s, B) T.gotos hany
      unfold Table.goto
      simp only
      rw [lookup_upd (s, B) (fun _ => t) (s', B') T.gotos]
      by_cases hk : (s', B') = (s, B)
      · rw [hk]
        simp [hv, ht]
      · have : ((s', B') == (s, B)) = false := by simpa using hk
        rw [this]
        simp [hk]
    · rename_i hany
      simp only [Bool.not_eq_true] at hany
      have hnone := lookup_of_not_any (s, B) T.gotos hany
      unfold Table.goto
      simp only
      rw [lookup_snoc]
      by_cases hk : (s', B') = (s, B)
      · rw [hk, hnone]
        simp [ht]
      · have : ((s', B') == (s, B)) = false := by simpa using hk
        rw [this]
        cases hl : T.gotos.lookup (s', B') <;> simp [hk]

/-- the cells of `T'` contain those of `T`, the GOTO part is the same -/
def ActMono (T T' : Table) : Prop :=
  (∀ s a act, act ∈ T.cell s a → act ∈ T'.cell s a) ∧ T'.gotos = T.gotos

theorem actMono_refl (T : Table) : ActMono T T := ⟨fun _ _ _ h => h, rfl⟩

theorem actMono_trans {T1 T2 T3 : Table} (h1 : ActMono T1 T2) (h2 : ActMono T2 T3) : ActMono T1 T3 :=
  ⟨fun s a act h => h2.1 s a act (h1.1 s a act h), h2.2.trans h1.2⟩

theorem actMono_addAction (T : Table) (s : Int) (a : String) (act : Action) : ActMono T (T.addAction s a act) := by
  refine ⟨?_, addAction_gotos T s a act⟩
  intro s' a' x hx
  rw [cell_addAction]
  split
  · rename_i hk
    simp only [Prod.mk.injEq] at hk
    rw [hk.1, hk.2] at hx
    exact mem_addNew.mpr (Or.inl hx)
  · exact hx

theorem mem_cell_addAction (T : Table) (s : Int) (a : String) (act : Action) : act ∈ (T.addAction s a act).cell s a := by
  rw [cell_addAction]
  simp only [if_true]
  exact mem_addNew.mpr (Or.inr rfl)

theorem foldl_addAction_spec (s : Int) (act : Action) : ∀ (l : List String) (T : Table),
    ActMono T (l.foldl (fun T a => T.addAction s a act) T) ∧
      ∀ a ∈ l, act ∈ (l.foldl (fun T a => T.addAction s a act) T).cell s a
  | [], T => ⟨actMono_refl T, by simp⟩
  | b :: l, T => by
    simp only [List.foldl_cons]
    obtain ⟨h1, h2⟩ := foldl_addAction_spec s act l (T.addAction s b act)
    refine ⟨actMono_trans (actMono_addAction T s b act) h1, ?_⟩
    intro a ha
    rcases List.mem_cons.mp ha with rfl | ha'
    · exact h1.1 _ _ _ (mem_cell_addAction T s a act)
    · exact h2 a ha'

/-! ## one item -/

/-- what item `it` of row `i` must have put into the table -/
def ItemDone (A : Auto) (S : StateMap) (reduceOn : Item → List String) (i : Nat) (I : List Item) (it : Item) (T : Table) :
    Prop :=
  (∀ a, it.dotSym = some (Sym.term a) →
    ∃ J, A.goto I (Sym.term a) = Outcome.ok J ∧ Action.shift (findItemSet S J) ∈ T.cell (i : Int) a) ∧
  (it.isComplete = true → it.isFinal A.g.start = false → ∀ a ∈ reduceOn it, Action.reduce it.prod ∈ T.cell (i : Int) a) ∧
  (it.isFinal A.g.start = true → Action.accept ∈ T.cell (i : Int) endmarker)

theorem itemDone_mono {A : Auto} {S : StateMap} {reduceOn : Item → List String} {i : Nat} {I : List Item} {it : Item}
    {T T' : Table} (hm : ∀ s a act, act ∈ T.cell s a → act ∈ T'.cell s a) (h : ItemDone A S reduceOn i I it T) :
    ItemDone A S reduceOn i I it T' := by
  obtain ⟨h1, h2, h3⟩ := h
  refine ⟨?_, ?_, ?_⟩
  · intro a hd
    obtain ⟨J, hJ, hmem⟩ := h1 a hd
    exact ⟨J, hJ, hm _ _ _ hmem⟩
  · intro hc hf a ha
    exact hm _ _ _ (h2 hc hf a ha)
  · intro hf
    exact hm _ _ _ (h3 hf)

theorem itemReduce_spec (start : String) (i : Int) (item : Item) (reduceOn : Item → List String) (T : Table) :
    ActMono T (itemReduce start i item reduceOn T) ∧
    (item.isComplete = true → item.isFinal start = false →
      ∀ a ∈ reduceOn item, Action.reduce item.prod ∈ (itemReduce start i item reduceOn T).cell i a) ∧
    (item.isFinal start = true → Action.accept ∈ (itemReduce start i item reduceOn T).cell i endmarker) := by
  unfold itemReduce
  simp only
  -- the first stage
  have h1 : ActMono T (if (item.isComplete && !item.isFinal start) = true then
        (reduceOn item).foldl (fun T a => T.addAction i a (Action.reduce item.prod)) T else T) ∧
      (item.isComplete = true → item.isFinal start = false → ∀ a ∈ reduceOn item,
        Action.reduce item.prod ∈ (if (item.isComplete && !item.isFinal start) = true then
          (reduceOn item).foldl (fun T a => T.addAction i a (Action.reduce item.prod)) T else T).cell i a) := by
    split
    · have := foldl_addAction_spec i (Action.reduce item.prod) (reduceOn item) T
      exact ⟨this.1, fun _ _ => this.2⟩
    · rename_i hc
      refine ⟨actMono_refl T, ?_⟩
      intro h1 h2
      simp [h1, h2] at hc
  split
  · rename_i hf
    refine ⟨actMono_trans h1.1 (actMono_addAction _ _ _ _), ?_, fun _ => mem_cell_addAction _ _ _ _⟩
    intro hc hf'
    rw [hf] at hf'
    cases hf'
  · rename_i hf
    refine ⟨h1.1, h1.2, ?_⟩
    intro hf'
    exact absurd hf' hf

theorem itemActions_spec {A : Auto} {S : StateMap} {reduceOn : Item → List String} {i : Nat} {I : List Item}
    {item : Item} {T T' : Table}
    (hr : itemActions A.g.start (i : Int) item
      (fun a => A.goto I (Sym.term a) >>= fun J => pure (findItemSet S J)) reduceOn T = Outcome.ok T') :
    ActMono T T' ∧ ItemDone A S reduceOn i I item T' := by
  unfold itemActions at hr
  obtain ⟨T1, hT1, hrest⟩ := bind_eq_ok hr
  rw [← pure_eq_ok hrest]
  obtain ⟨m2, r2, r3⟩ := itemReduce_spec A.g.start (i : Int) item reduceOn T1
  unfold itemShift at hT1
  split at hT1
  · rename_i a hd
    obtain ⟨j, hj, hrest1⟩ := bind_eq_ok hT1
    obtain ⟨J, hJ, hrest2⟩ := bind_eq_ok hj
    have hjeq : findItemSet S J = j := pure_eq_ok hrest2
    have hT1eq : T.addAction (i : Int) a (Action.shift j) = T1 := pure_eq_ok hrest1
    refine ⟨actMono_trans (hT1eq ▸ actMono_addAction T _ _ _) m2, ?_, r2, r3⟩
    intro a' hd'
    rw [hd] at hd'
    simp only [Option.some.injEq, Sym.term.injEq] at hd'
    subst hd'
    refine ⟨J, hJ, m2.1 _ _ _ ?_⟩
    rw [← hT1eq, hjeq]
    exact mem_cell_addAction _ _ _ _
  · rename_i hnt
    have hT1eq : T = T1 := pure_eq_ok hT1
    subst hT1eq
    refine ⟨m2, ?_, r2, r3⟩
    intro a hd
    exact absurd hd (hnt a)

theorem items_fold_spec {A : Auto} {S : StateMap} {reduceOn : Item → List String} {i : Nat} {I : List Item} :
    ∀ (l : List Item) (T T' : Table),
      l.foldlM (fun T item => itemActions A.g.start (i : Int) item
        (fun a => A.goto I (Sym.term a) >>= fun J => pure (findItemSet S J)) reduceOn T) T = Outcome.ok T' →
      ActMono T T' ∧ ∀ it ∈ l, ItemDone A S reduceOn i I it T'
  | [], T, T', h => by
    have : T = T' := by simpa [List.foldlM, pure] using h
    subst this
    exact ⟨actMono_refl T, by simp⟩
  | x :: l, T, T', h => by
    rw [List.foldlM_cons] at h
    obtain ⟨T1, hstep, hrest⟩ := bind_eq_ok h
    obtain ⟨m1, d1⟩ := itemActions_spec hstep
    obtain ⟨m2, d2⟩ := items_fold_spec l T1 T' hrest
    refine ⟨actMono_trans m1 m2, ?_⟩
    intro it hit
    rcases List.mem_cons.mp hit with rfl | hit'
    · exact itemDone_mono m2.1 d1
    · exact d2 it hit'

/-! ## the GOTO part of a row -/

/-- the GOTO entry for non-terminal `n` of row `i` is there (whenever `FindItemSet` succeeds) -/
def GotoDone (A : Auto) (S : StateMap) (i : Nat) (I : List Item) (n : String) (T : Table) : Prop :=
  n ≠ A.g.start → ∃ J, A.goto I (Sym.nonterm n) = Outcome.ok J ∧
    (findItemSet S J ≠ -1 → T.goto (i : Int) n = some (findItemSet S J))

theorem gotos_fold_spec {A : Auto} {S : StateMap} {i : Nat} {I : List Item} :
    ∀ (ns : List String) (T T' : Table),
      ns.foldlM (fun T n =>
        if n = A.g.start then pure T else do
          let J ← A.goto I (Sym.nonterm n)
          pure (T.setGoto (i : Int) n (findItemSet S J))) T = Outcome.ok T' →
      T'.actions = T.actions ∧ (∀ (s : Int) m, s ≠ (i : Int) → T'.goto s m = T.goto s m) ∧
      (∀ m, T'.goto (i : Int) m = T.goto (i : Int) m ∨
        ∃ J, A.goto I (Sym.nonterm m) = Outcome.ok J ∧ T'.goto (i : Int) m = some (findItemSet S J)) ∧
      ∀ n ∈ ns, GotoDone A S i I n T'
  | [], T, T', h => by
    have : T = T' := by simpa [List.foldlM, pure] using h
    subst this
    exact ⟨rfl, fun _ _ _ => rfl, fun _ => Or.inl rfl, by simp⟩
  | n :: ns, T, T', h => by
    rw [List.foldlM_cons] at h
    obtain ⟨T1, hstep, hrest⟩ := bind_eq_ok h
    obtain ⟨a2, o2, r2, d2⟩ := gotos_fold_spec ns T1 T' hrest
    split at hstep
    · rename_i hn
      have hT1 : T = T1 := pure_eq_ok hstep
      subst hT1
      refine ⟨a2, o2, r2, ?_⟩
      intro m hm
      rcases List.mem_cons.mp hm with rfl | hm'
      · intro hne; exact absurd hn hne
      · exact d2 m hm'
    · obtain ⟨J, hJ, hrest1⟩ := bind_eq_ok hstep
      have hT1 : T.setGoto (i : Int) n (findItemSet S J) = T1 := pure_eq_ok hrest1
      refine ⟨?_, ?_, ?_, ?_⟩
      · rw [a2, ← hT1, setGoto_actions]
      · intro s m hs
        rw [o2 s m hs, ← hT1, goto_setGoto]
        have : ¬ (s, m) = ((i : Int), n) := by
          intro he; simp only [Prod.mk.injEq] at he; exact hs he.1
        simp [this]
      · intro m
        rcases r2 m with h1 | h1
        · rw [h1, ← hT1, goto_setGoto]
          by_cases hc : findItemSet S J ≠ -1 ∧ ((i : Int), m) = ((i : Int), n)
          · right
            simp only [Prod.mk.injEq, true_and] at hc
            rw [hc.2]
            exact ⟨J, hJ, by simp [hc.1]⟩
          · left
            rw [if_neg hc]
        · exact Or.inr h1
      · intro m hm
        rcases List.mem_cons.mp hm with rfl | hm'
        · intro _
          refine ⟨J, hJ, ?_⟩
          intro hfound
          rcases r2 m with h1 | ⟨J', hJ', h1⟩
          · rw [h1, ← hT1, goto_setGoto]
            simp [hfound]
          · rw [hJ] at hJ'
            simp only [Outcome.ok.injEq] at hJ'
            rw [h1, hJ']
        · exact d2 m hm'

/-! ## the rows -/

def RowDone (A : Auto) (S : StateMap) (reduceOn : Item → List String) (i : Nat) (I : List Item) (T : Table) : Prop :=
  (∀ it ∈ I, ItemDone A S reduceOn i I it T) ∧ ∀ n ∈ A.g.nonterms, GotoDone A S i I n T

/-- later rows do not disturb earlier ones -/
def RowKeep (i : Nat) (T T' : Table) : Prop :=
  (∀ s a act, act ∈ T.cell s a → act ∈ T'.cell s a) ∧
  ∀ (k : Nat) m, k < i → T'.goto (k : Int) m = T.goto (k : Int) m

theorem rowDone_keep {A : Auto} {S : StateMap} {reduceOn : Item → List String} {i j : Nat} {I : List Item}
    {T T' : Table} (hij : i < j) (hk : RowKeep j T T') (h : RowDone A S reduceOn i I T) : RowDone A S reduceOn i I T' := by
  refine ⟨fun it hit => ?_, fun n hn => ?_⟩
  · exact itemDone_mono hk.1 (h.1 it hit)
  · intro hne
    obtain ⟨J, hJ, hg⟩ := h.2 n hn hne
    exact ⟨J, hJ, fun hf => by rw [hk.2 i n hij]; exact hg hf⟩

theorem cell_of_actions_eq {T T' : Table} (h : T'.actions = T.actions) (s : Int) (a : String) : T'.cell s a = T.cell s a := by
  unfold Table.cell; rw [h]

theorem goto_of_gotos_eq {T T' : Table} (h : T'.gotos = T.gotos) (s : Int) (B : String) : T'.goto s B = T.goto s B := by
  unfold Table.goto; rw [h]

theorem rows_spec (A : Auto) (S : StateMap) (reduceOn : Item → List String) :
    ∀ (l : List (List Item)) (i : Nat) (T T' : Table),
      fillFull.rows A S reduceOn l i T = Outcome.ok T' →
      RowKeep i T T' ∧ ∀ k I, l[k]? = some I → RowDone A S reduceOn (i + k) I T'
  | [], i, T, T', hr => by
    unfold fillFull.rows at hr
    have : T = T' := pure_eq_ok hr
    subst this
    exact ⟨⟨fun _ _ _ h => h, fun _ _ _ => rfl⟩, by intro k I hk; simp at hk⟩
  | I :: rest, i, T, T', hr => by
    unfold fillFull.rows at hr
    obtain ⟨T1, hT1, hr1⟩ := bind_eq_ok hr
    obtain ⟨T2, hT2, hr2⟩ := bind_eq_ok hr1
    obtain ⟨m1, d1⟩ := items_fold_spec (A := A) (S := S) (reduceOn := reduceOn) (i := i) (I := I) I T T1 hT1
    obtain ⟨a2, o2, _, d2⟩ := gotos_fold_spec (A := A) (S := S) (i := i) (I := I) A.g.nonterms T1 T2 hT2
    obtain ⟨k3, d3⟩ := rows_spec A S reduceOn rest (i + 1) T2 T' hr2
    have hrow2 : RowDone A S reduceOn i I T2 := by
      refine ⟨fun it hit => ?_, d2⟩
      exact itemDone_mono (fun s a act h => by rw [cell_of_actions_eq a2]; exact h) (d1 it hit)
    refine ⟨⟨?_, ?_⟩, ?_⟩
    · intro s a act h
      apply k3.1
      rw [cell_of_actions_eq a2]
      exact m1.1 _ _ _ h
    · intro k m hk
      rw [k3.2 k m (by omega), o2 (k : Int) m (by omega), goto_of_gotos_eq m1.2]
    · intro k I' hk
      cases k with
      | zero =>
        simp only [List.getElem?_cons_zero, Option.some.injEq] at hk
        subst hk
        exact rowDone_keep (Nat.lt_succ_self i) k3 hrow2
      | succ k =>
        simp only [List.getElem?_cons_succ] at hk
        have := d3 k I' hk
        rw [show i + (k + 1) = i + 1 + k by omega]
        exact this

theorem fillFull_spec (A : Auto) (S : StateMap) (reduceOn : Item → List String) (T : Table)
    (hr : fillFull A S reduceOn = Outcome.ok T) :
    ∀ i I, S[i]? = some I → RowDone A S reduceOn i I T := by
  unfold fillFull at hr
  intro i I hI
  have := (rows_spec A S reduceOn S 0 _ T hr).2 i I hI
  simpa using this

end AlgoVerif.C11.BuiltComplete
