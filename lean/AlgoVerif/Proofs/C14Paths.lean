import AlgoVerif.Proofs.C14Dfs
/-!
# C14 proofs — `Paths`: the `edgeTo` invariant, `To`, and the recursive DFS client
-/
namespace AlgoVerif.C14

/-- following `edgeTo` from `x` reaches `s` after exactly `k` steps; every step is an arc of the graph,
every vertex on the way is visited -/
inductive Chain (g : Graph) (s : Nat) (a : Array Bool) (et : Array Nat) : Nat → Nat → Prop
  | base : Vis a s → Chain g s a et s 0
  | step {x y k : Nat} : x ≠ s → Vis a x → et[x]? = some y → g.HasArc y x →
      Chain g s a et y k → Chain g s a et x (k + 1)

theorem Chain.vis {g : Graph} {s : Nat} {a : Array Bool} {et : Array Nat} {x k : Nat}
    (h : Chain g s a et x k) : Vis a x := by
  cases h with
  | base h => exact h
  | step _ h _ _ _ => exact h

theorem Chain.mono {g : Graph} {s : Nat} {a a' : Array Bool} {et et' : Array Nat}
    (ha : ∀ x, Vis a x → Vis a' x) (he : ∀ x, Vis a x → et'[x]? = et[x]?) {x k : Nat}
    (h : Chain g s a et x k) : Chain g s a' et' x k := by
  induction h with
  | base h => exact .base (ha _ h)
  | step hne hv het harc _ ih => exact .step hne (ha _ hv) (by rw [he _ hv]; exact het) harc ih

theorem Chain.reach {g : Graph} {s : Nat} {a : Array Bool} {et : Array Nat} {x k : Nat}
    (h : Chain g s a et x k) : Reach g.HasArc s x := by
  induction h with
  | base _ => exact .refl _
  | step _ _ _ harc _ ih => exact .tail ih harc

/-- the invariant of `Paths`: every visited vertex has a chain to `s`, shorter than the number of visited
vertices -/
def PInv (g : Graph) (s : Nat) (a : Array Bool) (et : Array Nat) : Prop :=
  et.size = g.n ∧ ∀ x, Vis a x → ∃ k, Chain g s a et x k ∧ k + cntF a < g.n


/-! ## walks -/

theorem IsWalk.snoc {E : Nat → Nat → Prop} {p : List Nat} {y x : Nat}
    (hw : IsWalk E p) (hl : p.getLast? = some y) (e : E y x) : IsWalk E (p ++ [x]) := by
  induction p with
  | nil => simp at hl
  | cons a r ih =>
    cases r with
    | nil =>
      simp at hl; subst hl
      simp [IsWalk, e]
    | cons b r' =>
      simp only [IsWalk] at hw
      have hl' : (b :: r').getLast? = some y := by simpa [List.getLast?_cons_cons] using hl
      have := ih hw.2 hl'
      simp only [List.cons_append, IsWalk]
      exact ⟨hw.1, this⟩

theorem WalkFromTo.snoc {E : Nat → Nat → Prop} {s y x : Nat} {p : List Nat}
    (h : WalkFromTo E s y p) (e : E y x) : WalkFromTo E s x (p ++ [x]) := by
  obtain ⟨h1, h2, h3⟩ := h
  refine ⟨?_, by simp, h3.snoc h2 e⟩
  cases p with
  | nil => simp at h1
  | cons a r => simpa using h1

theorem WalkFromTo.single (E : Nat → Nat → Prop) (s : Nat) : WalkFromTo E s s [s] := by
  simp [WalkFromTo, IsWalk]

theorem WalkFromTo.reach {E : Nat → Nat → Prop} {s v : Nat} {p : List Nat}
    (h : WalkFromTo E s v p) : Reach E s v := by
  obtain ⟨h1, h2, h3⟩ := h
  induction p generalizing s with
  | nil => simp at h1
  | cons a r ih =>
    simp at h1; subst h1
    cases r with
    | nil => simp at h2; subst h2; exact .refl _
    | cons b r' =>
      simp only [IsWalk] at h3
      have h2' : (b :: r').getLast? = some v := by simpa [List.getLast?_cons_cons] using h2
      exact Reach.head h3.1 (ih (by simp) h2' h3.2)

/-! ## `To` -/

/-- the loop of `To` along a chain: it returns the chain (without `s`) in front of the stack -/
theorem toLoop_chain {g : Graph} {s : Nat} {a : Array Bool} {et : Array Nat} {x k : Nat}
    (h : Chain g s a et x k) (p : Paths) (hps : p.s = (s : Int)) (hpe : p.edgeTo = et) :
    ∀ fuel stk, k < fuel → ∃ l, p.toLoop fuel x stk = .ok (l ++ stk) ∧ l.length = k ∧
      WalkFromTo g.HasArc s x (s :: l) := by
  induction h with
  | base _ =>
    intro fuel stk hf
    cases fuel with
    | zero => omega
    | succ fuel =>
      refine ⟨[], ?_, rfl, WalkFromTo.single _ _⟩
      simp [Paths.toLoop, hps]
  | @step x y k hne _ het harc _ ih =>
    intro fuel stk hf
    cases fuel with
    | zero => omega
    | succ fuel =>
      obtain ⟨l, h1, h2, h3⟩ := ih fuel (x :: stk) (by omega)
      refine ⟨l ++ [x], ?_, by simp [h2], ?_⟩
      · have hne' : ¬ ((x : Int) = p.s) := by rw [hps]; omega
        simp only [Paths.toLoop, hne', if_false, hpe, het]
        rw [h1]; simp
      · have := h3.snoc harc
        simpa using this

/-- what `To(v)` answers once the invariant holds -/
theorem to_spec {g : Graph} {s : Nat} (p : Paths) (hps : p.s = (s : Int))
    (hsize : p.visited.size = g.n) (hinv : PInv g s p.visited p.edgeTo) (v : Nat) (hv : v < g.n) :
    (Vis p.visited v → ∃ path, p.to (v : Int) = .ok (some path) ∧ WalkFromTo g.HasArc s v path) ∧
    (¬ Vis p.visited v → p.to (v : Int) = .ok none) := by
  have hvlt : v < p.visited.size := hsize ▸ hv
  constructor
  · intro hvis
    obtain ⟨k, hc, hk⟩ := hinv.2 v hvis
    obtain ⟨l, h1, _, h3⟩ := toLoop_chain hc p hps rfl (p.visited.size + 1) [] (by omega)
    refine ⟨s :: l, ?_, h3⟩
    have : p.visited[v]? = some true := hvis
    simp [Paths.to, this, h1, hps]
  · intro hnv
    rcases vis_or_false hvlt with h | h
    · exact absurd h hnv
    · simp [Paths.to, h]

/-! ## the DFS client -/

theorem callV_none {σ : Type} (v : Nat) (s : σ) : callV (none : Option (Nat → σ → σ × Bool)) v s = (s, true) := rfl

theorem pathsVisitors_allTrue : pathsVisitors.AllTrue :=
  ⟨fun _ _ => rfl, fun _ _ => rfl, fun _ _ _ _ => rfl⟩

/-- entering a vertex keeps the invariant -/
theorem PInv.enter {g : Graph} {s v : Nat} {a : Array Bool} {et : Array Nat}
    (hinv : PInv g s a et) (hsize : a.size = g.n) (hunv : a[v]? = some false)
    (hsrc : v = s ∨ ∃ u, et[v]? = some u ∧ Vis a u ∧ g.HasArc u v) :
    PInv g s (a.set! v true) et := by
  have hvlt : v < a.size := by
    by_cases hx : v < a.size
    · exact hx
    · simp [Array.getElem?_eq_none (Nat.le_of_not_lt hx)] at hunv
  have hcnt := cntF_set hunv
  have hle := cntF_le_size a
  have hmono : ∀ x, Vis a x → Vis (a.set! v true) x := fun x hx => vis_set_of_vis hx
  refine ⟨hinv.1, ?_⟩
  intro x hx
  rcases vis_set.1 hx with ⟨rfl, _⟩ | hxa
  · by_cases hvs : v = s
    · subst hvs
      exact ⟨0, .base (vis_set_self hvlt), by omega⟩
    · rcases hsrc with h | ⟨u, hu, hvu, harc⟩
      · exact absurd h hvs
      · obtain ⟨k, hc, hk⟩ := hinv.2 u hvu
        refine ⟨k + 1, .step hvs (vis_set_self hvlt) hu harc (hc.mono hmono (fun _ _ => rfl)), by omega⟩
  · obtain ⟨k, hc, hk⟩ := hinv.2 x hxa
    exact ⟨k, hc.mono hmono (fun _ _ => rfl), by omega⟩

/-- recording `edgeTo[w] = v` for an unvisited `w` keeps the invariant -/
theorem PInv.setEdge {g : Graph} {s v w : Nat} {a : Array Bool} {et : Array Nat}
    (hinv : PInv g s a et) (hunv : a[w]? = some false) : PInv g s a (et.set! w v) := by
  refine ⟨by rw [size_set!]; exact hinv.1, ?_⟩
  intro x hx
  obtain ⟨k, hc, hk⟩ := hinv.2 x hx
  refine ⟨k, hc.mono (fun _ h => h) ?_, hk⟩
  intro y hy
  have : w ≠ y := by
    intro h; subst h
    exact not_vis_of_false hunv hy
  exact getElem?_set!_ne _ _ this

theorem dfs_paths {g : Graph} (hg : g.WF) (s : Nat) :
    ∀ fuel v (st : TState (Array Nat)),
      (PInv g s st.visited st.s ∧ (v = s ∨ ∃ u, st.s[v]? = some u ∧ Vis st.visited u ∧ g.HasArc u v)) →
      st.visited.size = g.n → st.visited[v]? = some false → cntF st.visited ≤ fuel →
      ∃ st', dfs g pathsVisitors fuel v st = .ok st' ∧ PInv g s st'.visited st'.s ∧
        StdPost g v st.visited st'.visited := by
  apply dfs_rule g hg pathsVisitors pathsVisitors_allTrue
    (fun v st => PInv g s st.visited st.s ∧
      (v = s ∨ ∃ u, st.s[v]? = some u ∧ Vis st.visited u ∧ g.HasArc u v))
    (fun _ _ st' => PInv g s st'.visited st'.s)
    (fun _ _ _ _ cur => PInv g s cur.visited cur.s)
  · intro v st hpre hsize hunv
    exact hpre.1.enter hsize hunv hpre.2
  · intro v st done x rest cur hm _ _
    exact hm
  · intro v st done x rest cur hm hs hunv
    have hxmem : x ∈ g.adj.getD v [] := by rw [hs.adj]; simp
    have hxlt : x.to < g.n := hg.bound v x hxmem
    refine ⟨⟨?_, Or.inr ⟨v, ?_, hs.self, Graph.HasArc.of_mem hxmem⟩⟩, fun cur' hp _ => hp⟩
    · exact hm.setEdge hunv
    · show (cur.s.set! x.to v)[x.to]? = some v
      exact getElem?_set!_self _ _ (by rw [hm.1]; exact hxlt)
  · intro v st done cur hm _
    exact hm

end AlgoVerif.C14
