import AlgoVerif.Proofs.C04FibTree
/-!
# C04: the integer `maxDegree` of the Model is `⌊log_φ n⌋ + 1`

Core Lean has no real numbers, so "φ^k ≤ n" is stated through the closed form
`φ^k = (L_k + F_k·√5) / 2` (`L` Lucas, `F` Fibonacci numbers; Binet's formulas):

    φ^k ≤ n  ⇔  F_k·√5 ≤ 2n − L_k  ⇔  L_k ≤ 2n  ∧  5·F_k² ≤ (2n − L_k)²        (`PhiLe k n`)

(squaring is an equivalence because both sides are non-negative).  What is proved here, over the integers:
the parity test the Model uses (`phiPowLe`) is equivalent to `PhiLe`, `PhiLe` is antitone in `k`, and
`floorLogPhi n` is the largest `k` with `PhiLe k n`.  What stays outside Lean: Binet's closed form itself and
the relation between this exact value and Go's `float64` computation (cross-checked on every run).
-/
namespace AlgoVerif.C04

/-- Fibonacci numbers -/
def fibn : Nat → Nat
  | 0 => 0
  | 1 => 1
  | n + 2 => fibn (n + 1) + fibn n

/-- `φ^k ≤ n` written over the integers: `L_k ≤ 2n ∧ 5·F_k² ≤ (2n − L_k)²` -/
def PhiLe (k n : Nat) : Prop :=
  (lucas k : Int) ≤ 2 * n ∧ 5 * ((fibn k : Int) * fibn k) ≤ (2 * (n : Int) - lucas k) * (2 * (n : Int) - lucas k)

/-- `(-1)^k` -/
def sgn (k : Nat) : Int := if k % 2 = 0 then 1 else -1

theorem sgn_succ (k : Nat) : sgn (k + 1) = - sgn k := by
  unfold sgn
  by_cases h : k % 2 = 0
  · rw [if_pos h, if_neg (by omega)]
  · rw [if_neg h, if_pos (by omega)]; omega

theorem lucas_add_two (k : Nat) : lucas (k + 2) = lucas (k + 1) + lucas k := by rw [lucas]
theorem fibn_add_two (k : Nat) : fibn (k + 2) = fibn (k + 1) + fibn k := by rw [fibn]

/-- `L_k² − 5·F_k² = 4·(−1)^k`, together with the mixed identity that makes the induction go through -/
theorem lucas_fib_identity (k : Nat) :
    (lucas k : Int) * lucas k - 5 * ((fibn k : Int) * fibn k) = 4 * sgn k ∧
    (lucas (k + 1) : Int) * lucas (k + 1) - 5 * ((fibn (k + 1) : Int) * fibn (k + 1)) = -4 * sgn k ∧
    (lucas k : Int) * lucas (k + 1) - 5 * ((fibn k : Int) * fibn (k + 1)) = 2 * sgn k := by
  induction k with
  | zero => simp [lucas, fibn, sgn]
  | succ k ih =>
    obtain ⟨hA, hA1, hB⟩ := ih
    have hl : (lucas (k + 1 + 1) : Int) = lucas (k + 1) + lucas k := by
      rw [lucas_add_two]; simp
    have hf : (fibn (k + 1 + 1) : Int) = fibn (k + 1) + fibn k := by
      rw [fibn_add_two]; simp
    rw [sgn_succ, hl, hf]
    generalize (lucas (k + 1) : Int) = l1 at *
    generalize (lucas k : Int) = l0 at *
    generalize (fibn (k + 1) : Int) = f1 at *
    generalize (fibn k : Int) = f0 at *
    generalize sgn k = s at *
    refine ⟨?_, ?_, ?_⟩ <;> grind

theorem lucas_ge (k : Nat) (hk : 1 ≤ k) : k ≤ lucas k ∧ 1 ≤ lucas (k - 1) := by
  induction k with
  | zero => omega
  | succ k ih =>
    cases k with
    | zero => simp [lucas]
    | succ j =>
      obtain ⟨h1, h2⟩ := ih (by omega)
      rw [lucas_add_two]
      simp only [Nat.add_sub_cancel] at h2 ⊢
      omega

theorem lucas_ge_three (k : Nat) (hk : 2 ≤ k) : 3 ≤ lucas k := by
  by_cases h : k = 2
  · subst h; simp [lucas]
  · have := (lucas_ge k (by omega)).1; omega

theorem lucas_lt_succ (k : Nat) (hk : 1 ≤ k) : lucas k < lucas (k + 1) := by
  obtain ⟨j, rfl⟩ : ∃ j, k = j + 1 := ⟨k - 1, by omega⟩
  rw [lucas_add_two]
  have := (lucas_ge (j + 1) (by omega)).2
  simp only [Nat.add_sub_cancel] at this
  omega

theorem int_sq_le {a b : Int} (h0 : 0 ≤ a) (h : a ≤ b) : a * a ≤ b * b :=
  Int.mul_le_mul h h h0 (Int.le_trans h0 h)

/-- the parity test of the Model is `φ^k ≤ n` -/
theorem phiPowLe_iff (k n : Nat) (hk : 1 ≤ k) : phiPowLe k (lucas k) n = true ↔ PhiLe k n := by
  have hid := (lucas_fib_identity k).1
  unfold PhiLe phiPowLe
  have hL0 : (0 : Int) ≤ lucas k := Int.natCast_nonneg _
  by_cases hpar : k % 2 = 0
  · -- even k ≥ 2: 5 F² = L² − 4 and L ≥ 3
    have hs : sgn k = 1 := by simp [sgn, hpar]
    have h3 : (3 : Int) ≤ lucas k := by have := lucas_ge_three k (by omega); omega
    rw [hs] at hid
    rw [if_pos hpar]
    simp only [decide_eq_true_eq]
    rw [show (lucas k ≤ n) ↔ ((lucas k : Int) ≤ (n : Int)) from by omega]
    generalize (lucas k : Int) = L at *
    generalize ((fibn k : Int) * fibn k) = FF at *
    constructor
    · intro hle
      have hle' : L ≤ (n : Int) := by omega
      refine ⟨by omega, ?_⟩
      have := int_sq_le (a := L) (b := 2 * (n : Int) - L) (by omega) (by omega)
      omega
    · rintro ⟨h1, h2⟩
      by_cases hc : L ≤ (n : Int)
      · omega
      · exfalso
        have hm := int_sq_le (a := 2 * (n : Int) - L) (b := L - 2) (by omega) (by omega)
        have : (L - 2) * (L - 2) = L * L - 4 * L + 4 := by grind
        omega
  · -- odd k: 5 F² = L² + 4
    have hs : sgn k = -1 := by simp [sgn, hpar]
    rw [hs] at hid
    rw [if_neg hpar]
    simp only [decide_eq_true_eq]
    rw [show (lucas k + 1 ≤ n) ↔ ((lucas k : Int) + 1 ≤ (n : Int)) from by omega]
    generalize (lucas k : Int) = L at *
    generalize ((fibn k : Int) * fibn k) = FF at *
    constructor
    · intro hle
      have hle' : L + 1 ≤ (n : Int) := by omega
      refine ⟨by omega, ?_⟩
      have := int_sq_le (a := L + 2) (b := 2 * (n : Int) - L) (by omega) (by omega)
      have : (L + 2) * (L + 2) = L * L + 4 * L + 4 := by grind
      omega
    · rintro ⟨h1, h2⟩
      by_cases hc : L + 1 ≤ (n : Int)
      · omega
      · exfalso
        have hm := int_sq_le (a := 2 * (n : Int) - L) (b := L) (by omega) (by omega)
        omega

theorem PhiLe_zero (n : Nat) (hn : 1 ≤ n) : PhiLe 0 n := by
  unfold PhiLe
  simp only [lucas, fibn]
  refine ⟨by omega, ?_⟩
  have : (0 : Int) ≤ (2 * (n : Int) - (2 : Nat)) * (2 * (n : Int) - (2 : Nat)) :=
    Int.mul_nonneg (by omega) (by omega)
  simpa using this

/-- `φ^(k+1) ≤ n → φ^k ≤ n` -/
theorem PhiLe_of_succ (k n : Nat) (hn : 1 ≤ n) (h : PhiLe (k + 1) n) : PhiLe k n := by
  by_cases hk : k = 0
  · subst hk; exact PhiLe_zero n hn
  · rw [← phiPowLe_iff _ _ (by omega)] at h ⊢
    have hlt := lucas_lt_succ k (by omega)
    unfold phiPowLe at h ⊢
    by_cases hpar : k % 2 = 0
    · rw [if_pos hpar]; rw [if_neg (by omega)] at h
      simp only [decide_eq_true_eq] at h ⊢; omega
    · rw [if_neg hpar]; rw [if_pos (by omega)] at h
      simp only [decide_eq_true_eq] at h ⊢; omega

theorem lucas_sub_one (k : Nat) (hk : 1 ≤ k) : lucas k + lucas (k - 1) = lucas (k + 1) := by
  obtain ⟨j, rfl⟩ : ∃ j, k = j + 1 := ⟨k - 1, by omega⟩
  simp [lucas_add_two]

theorem logPhiLoop_spec (n : Nat) :
    ∀ (fuel k : Nat), 1 ≤ k → n + 2 ≤ fuel + k →
      k - 1 ≤ logPhiLoop n fuel k (lucas k) (lucas (k - 1)) ∧
      (∀ j, k ≤ j → j ≤ logPhiLoop n fuel k (lucas k) (lucas (k - 1)) → phiPowLe j (lucas j) n = true) ∧
      phiPowLe (logPhiLoop n fuel k (lucas k) (lucas (k - 1)) + 1)
        (lucas (logPhiLoop n fuel k (lucas k) (lucas (k - 1)) + 1)) n = false := by
  intro fuel
  induction fuel with
  | zero =>
    intro k hk hf
    simp only [logPhiLoop]
    refine ⟨Nat.le_refl _, by intro j h1 h2; omega, ?_⟩
    have hk' : k - 1 + 1 = k := by omega
    rw [hk']
    have := (lucas_ge k hk).1
    unfold phiPowLe
    split <;> simp <;> omega
  | succ fuel ih =>
    intro k hk hf
    unfold logPhiLoop
    by_cases hp : phiPowLe k (lucas k) n = true
    · rw [if_pos hp, lucas_sub_one k hk]
      have := ih (k + 1) (by omega) (by omega)
      simp only [Nat.add_sub_cancel] at this
      obtain ⟨h1, h2, h3⟩ := this
      refine ⟨by omega, ?_, h3⟩
      intro j hj1 hj2
      by_cases hjk : j = k
      · rw [hjk]; exact hp
      · exact h2 j (by omega) hj2
    · rw [if_neg hp]
      have hk' : k - 1 + 1 = k := by omega
      refine ⟨Nat.le_refl _, by intro j h1 h2; omega, ?_⟩
      rw [hk']; simpa using hp

/-- `floorLogPhi n` is the largest `k` with `φ^k ≤ n` -/
theorem floorLogPhi_spec (n : Nat) (hn : 1 ≤ n) :
    (∀ k, k ≤ floorLogPhi n → PhiLe k n) ∧ (∀ k, floorLogPhi n < k → ¬ PhiLe k n) := by
  have h := logPhiLoop_spec n (n + 1) 1 (Nat.le_refl _) (by omega)
  have e : lucas (1 - 1) = 2 := rfl
  have e' : lucas 1 = 1 := rfl
  rw [e, e'] at h
  obtain ⟨_, h2, h3⟩ := h
  have hr : floorLogPhi n = logPhiLoop n (n + 1) 1 1 2 := rfl
  rw [← hr] at h2 h3
  constructor
  · intro k hk
    by_cases hk0 : k = 0
    · subst hk0; exact PhiLe_zero n hn
    · exact (phiPowLe_iff k n (by omega)).mp (h2 k (by omega) hk)
  · intro k hk
    -- antitone: from k down to floorLogPhi n + 1
    have hnot : ¬ PhiLe (floorLogPhi n + 1) n := by
      intro hle
      have := (phiPowLe_iff _ n (by omega)).mpr hle
      rw [h3] at this; cases this
    obtain ⟨d, rfl⟩ : ∃ d, k = floorLogPhi n + 1 + d := ⟨k - (floorLogPhi n + 1), by omega⟩
    clear hk
    induction d with
    | zero => exact hnot
    | succ d ihd => exact fun hle => ihd (PhiLe_of_succ _ n hn hle)

end AlgoVerif.C04
