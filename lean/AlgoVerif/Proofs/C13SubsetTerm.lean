import AlgoVerif.Proofs.C13Subset
/-! C13: the subset construction terminates: the queue holds pairwise distinct sorted subsets of the
NFA's states, so it never holds more than `2^|Q|` of them, and the fuel `2^|Q| + 1` is never exhausted. -/
namespace AlgoVerif.C13
open AlgoVerif AlgoVerif.C13.Spec

/-! ### counting distinct sorted subsets -/

theorem nodup_all_eq_length {α : Type} (q : List α) (a : α) (hnd : q.Nodup) (h : ∀ x ∈ q, x = a) : q.length ≤ 1 := by
  cases q with
  | nil => simp
  | cons x q =>
    cases q with
    | nil => simp
    | cons y q =>
      exfalso
      have hx := h x (by simp)
      have hy := h y (by simp)
      rw [List.nodup_cons] at hnd
      exact hnd.1 (by simp [hx, hy])

theorem card_bound (Q : List Int) (q : List (List Int)) (hnd : q.Nodup)
    (hs : ∀ S ∈ q, SSorted S ∧ ∀ x ∈ S, x ∈ Q) : q.length ≤ 2 ^ Q.length := by
  induction Q generalizing q with
  | nil =>
    simp only [List.length_nil, Nat.pow_zero]
    apply nodup_all_eq_length q [] hnd
    intro S hS
    cases S with
    | nil => rfl
    | cons y S => exact absurd ((hs _ hS).2 y (by simp)) (by simp)
  | cons x Q ih =>
    have hlen : q.length = (q.filter (fun S => S.contains x)).length + (q.filter (fun S => !S.contains x)).length := by
      have := (List.filter_append_perm (fun S => S.contains x) q).length_eq
      simp only [List.length_append] at this
      omega
    have hnd' : q.Pairwise (· ≠ ·) := List.nodup_iff_pairwise_ne.1 hnd
    -- the subsets without `x`
    have h0 : (q.filter (fun S => !S.contains x)).length ≤ 2 ^ Q.length := by
      apply ih
      · exact List.nodup_iff_pairwise_ne.2 (List.Pairwise.filter _ hnd')
      · intro S hS
        rw [List.mem_filter] at hS
        refine ⟨(hs S hS.1).1, ?_⟩
        intro y hy
        have := (hs S hS.1).2 y hy
        simp at this hS
        rcases this with rfl | h
        · exact absurd hy hS.2
        · exact h
    -- the subsets with `x`, with `x` removed
    have h1 : (q.filter (fun S => S.contains x)).length ≤ 2 ^ Q.length := by
      have := ih ((q.filter (fun S => S.contains x)).map (fun S => S.filter (fun y => y ≠ x))) ?_ ?_
      · simpa using this
      · apply List.nodup_iff_pairwise_ne.2
        rw [List.pairwise_map]
        apply List.Pairwise.imp_of_mem _ (List.Pairwise.filter _ hnd')
        intro S1 S2 hS1 hS2 hne heq
        rw [List.mem_filter] at hS1 hS2
        apply hne
        apply ssorted_ext (hs S1 hS1.1).1 (hs S2 hS2.1).1
        intro y
        by_cases hy : y = x
        · subst hy; simp at hS1 hS2; simp [hS1.2, hS2.2]
        · have e1 : y ∈ S1.filter (fun y => y ≠ x) ↔ y ∈ S1 := by simp [hy]
          have e2 : y ∈ S2.filter (fun y => y ≠ x) ↔ y ∈ S2 := by simp [hy]
          rw [← e1, ← e2, heq]
      · intro S' hS'
        rw [List.mem_map] at hS'
        obtain ⟨S, hS, rfl⟩ := hS'
        rw [List.mem_filter] at hS
        refine ⟨List.Pairwise.filter _ (hs S hS.1).1, ?_⟩
        intro y hy
        simp at hy
        have := (hs S hS.1).2 y hy.1
        simp at this
        rcases this with rfl | h
        · exact absurd rfl hy.2
        · exact h
    simp only [List.length_cons, Nat.pow_succ]
    omega

/-! ### members of the queue are sets of states -/

theorem NFA.mem_states_of (n : NFA) (x : Int)
    (h : x = n.start ∨ x ∈ n.final ∨ ∃ st ∈ n.trans, ∃ e ∈ st.2, x = st.1 ∨ x ∈ e.2) : x ∈ n.states := by
  simp only [NFA.states]
  have inner : ∀ (s : Int) (l : List (Int × List Int)) (acc : List Int), (x ∈ acc ∨ ∃ e ∈ l, x = s ∨ x ∈ e.2) →
      x ∈ l.foldl (fun acc e => sunion (sins s acc) e.2) acc := by
    intro s l
    induction l with
    | nil => intro acc h; simpa using h
    | cons e l ih =>
      intro acc h
      simp only [List.foldl_cons]
      apply ih
      rcases h with h | ⟨e', he', h⟩
      · left; simp [h]
      · simp at he'; rcases he' with rfl | he'
        · left; simp; rcases h with h | h <;> simp [h]
        · right; exact ⟨e', he', h⟩
  have outer : ∀ (l : List (Int × List (Int × List Int))) (acc : List Int),
      (x ∈ acc ∨ ∃ st ∈ l, ∃ e ∈ st.2, x = st.1 ∨ x ∈ e.2) →
      x ∈ l.foldl (fun acc st => st.2.foldl (fun acc e => sunion (sins st.1 acc) e.2) acc) acc := by
    intro l
    induction l with
    | nil => intro acc h; simpa using h
    | cons st l ih =>
      intro acc h
      simp only [List.foldl_cons]
      apply ih
      rcases h with h | ⟨st', hst', h⟩
      · left; exact inner _ _ _ (Or.inl h)
      · simp at hst'; rcases hst' with rfl | hst'
        · left; exact inner _ _ _ (Or.inr h)
        · right; exact ⟨st', hst', h⟩
  apply outer
  rcases h with h | h | h
  · left; simp [h]
  · left; simp [h]
  · right; exact h

theorem NFA.target_mem_states (n : NFA) {s a t : Int} (h : n.Δ s a t) : t ∈ n.states := by
  obtain ⟨nx, hnx, ht⟩ := h
  simp only [NFA.next] at hnx
  split at hnx
  · rename_i st hst
    exact n.mem_states_of t (Or.inr (Or.inr ⟨(s, st), aget_mem hst, (a, nx), aget_mem hnx, Or.inr ht⟩))
  · simp at hnx

theorem NFA.closure_subset_states (n : NFA) (T c : List Int) (h : n.εClosure T = .ok c)
    (hT : ∀ x ∈ T, x ∈ n.states) : ∀ x ∈ c, x ∈ n.states := by
  obtain ⟨c', hc', hm⟩ := n.εClosure_spec T
  rw [h] at hc'; injection hc' with hc'; subst hc'
  intro x hx
  obtain ⟨s, hs, hr⟩ := (hm x).1 hx
  cases hr with
  | refl => exact hT _ hs
  | step _ hd => exact n.target_mem_states hd

/-- the queue holds pairwise distinct sorted subsets of `Q` -/
def QInv (Q : List Int) (q : List (List Int)) : Prop :=
  q.Nodup ∧ ∀ S ∈ q, SSorted S ∧ ∀ x ∈ S, x ∈ Q

theorem subsetStep_qinv (n : NFA) (T : List Int) (i : Nat) (rem : List Int) (acc r : List (List Int) × DFA)
    (h : subsetStep n T i rem acc = .ok r) (hq : QInv n.states acc.1) : QInv n.states r.1 := by
  induction rem generalizing acc with
  | nil => simp [subsetStep] at h; subst h; exact hq
  | cons a rem ih =>
    obtain ⟨U, hU, _⟩ := n.εClosure_spec (n.move T a)
    have hUs : SSorted U := n.εClosure_sorted _ _ hU (n.move_sorted T a)
    have hUQ : ∀ x ∈ U, x ∈ n.states := n.closure_subset_states _ _ hU (by
      intro x hx
      rw [n.mem_move] at hx
      obtain ⟨s, _, hd⟩ := hx
      exact n.target_mem_states hd)
    simp only [subsetStep, hU] at h
    cases hf : sqFind acc.1 U with
    | some j => simp only [hf] at h; exact ih _ h hq
    | none =>
      simp only [hf] at h
      refine ih _ h ⟨?_, ?_⟩
      · simp only
        rw [List.nodup_append]
        refine ⟨hq.1, by simp, ?_⟩
        intro v hv u hu
        simp at hu; subst hu
        simp only [sqFind, List.findIdx?_eq_none_iff] at hf
        intro heq; subst heq
        have := hf v hv
        rw [setEq_refl] at this; simp at this
      · intro S hS
        simp at hS
        rcases hS with hS | rfl
        · exact hq.2 S hS
        · exact ⟨hUs, hUQ⟩

theorem subsetStep_ok (n : NFA) (T : List Int) (i : Nat) (rem : List Int) (acc : List (List Int) × DFA) :
    ∃ r, subsetStep n T i rem acc = .ok r := by
  induction rem generalizing acc with
  | nil => exact ⟨acc, by simp [subsetStep]⟩
  | cons a rem ih =>
    obtain ⟨U, hU, _⟩ := n.εClosure_spec (n.move T a)
    simp only [subsetStep, hU]
    cases sqFind acc.1 U with
    | some j => exact ih _
    | none => exact ih _

theorem subsetLoop_ok (n : NFA) (syms : List Int) (fuel : Nat) (q : List (List Int)) (front : Nat) (dfa : DFA)
    (hq : QInv n.states q) (hf : 2 ^ n.states.length ≤ fuel + front) :
    ∃ r, subsetLoop n syms fuel q front dfa = .ok r := by
  induction fuel generalizing q front dfa with
  | zero =>
    unfold subsetLoop
    cases hT : q[front]? with
    | none => exact ⟨_, rfl⟩
    | some T =>
      exfalso
      have h1 : front < q.length := (List.getElem?_eq_some_iff.1 hT).1
      have h2 := card_bound n.states q hq.1 hq.2
      omega
  | succ fuel ih =>
    unfold subsetLoop
    cases hT : q[front]? with
    | none => exact ⟨_, rfl⟩
    | some T =>
      simp only
      obtain ⟨r, hr⟩ := subsetStep_ok n T front syms (q, dfa)
      simp only [hr]
      exact ih r.1 (front + 1) r.2 (subsetStep_qinv n T front syms (q, dfa) r hr hq) (by omega)

/-- `ToDFA` always returns: the fuel `2^|Q| + 1` is never exhausted and nothing panics -/
theorem NFA.toDFA_ok (n : NFA) : ∃ d, n.toDFA = .ok d := by
  obtain ⟨S0, hS0, _⟩ := n.εClosure_spec (mkSet [n.start])
  have hq0 : QInv n.states [S0] := by
    refine ⟨by simp, ?_⟩
    intro S hS; simp at hS; subst hS
    refine ⟨n.εClosure_sorted _ _ hS0 (ssorted_mkSet _), n.closure_subset_states _ _ hS0 ?_⟩
    intro x hx; simp at hx; subst hx
    exact n.mem_states_of _ (Or.inl rfl)
  obtain ⟨r, hr⟩ := subsetLoop_ok n n.symbols n.subsetFuel [S0] 0 (DFA.new 0 []) hq0 (by simp [NFA.subsetFuel])
  exact ⟨{ r.2 with final := subsetFinals n.final r.1 }, by simp only [NFA.toDFA, NFA.subsets, hS0, hr]⟩

end AlgoVerif.C13
