import AlgoVerif.Proofs.C02Sim
import Mathlib.Data.Nat.Bitwise
import Mathlib.Tactic.Linarith
/-!
# C02/C03 — separate chaining: the Model satisfies `Correct`
-/
set_option linter.unusedSectionVars false
namespace AlgoVerif.C02
open Spec AlgoVerif.Generated
variable {K V σ : Type} [DecidableEq K]

/-! ### powers of two, as tested by `isPowerOf2` -/

theorem land_double (n : Nat) (hn : 1 ≤ n) : (2 * n) &&& (2 * n - 1) = 2 * (n &&& (n - 1)) := by
  apply Nat.eq_of_testBit_eq
  intro i
  have h1 : 2 * n - 1 = 2 * (n - 1) + 1 := by omega
  rw [h1, Nat.testBit_and]
  cases i with
  | zero => simp [Nat.testBit_zero]
  | succ i =>
    have a1 : 2 * n / 2 = n := by omega
    have a2 : (2 * (n - 1) + 1) / 2 = n - 1 := by omega
    have a3 : 2 * (n &&& (n - 1)) / 2 = n &&& (n - 1) := by omega
    simp only [Nat.testBit_succ, a1, a2, a3, Nat.testBit_and]

theorem land_odd (k : Nat) : (2 * k + 1) &&& (2 * k + 1 - 1) = 2 * k := by
  apply Nat.eq_of_testBit_eq
  intro i
  rw [Nat.testBit_and]
  cases i with
  | zero => simp [Nat.testBit_zero]
  | succ i =>
    have a1 : (2 * k + 1) / 2 = k := by omega
    have a2 : (2 * k + 1 - 1) / 2 = k := by omega
    have a3 : 2 * k / 2 = k := by omega
    simp only [Nat.testBit_succ, a1, a2, a3, Bool.and_self]

theorem isPowerOf2_iff (n : Nat) : isPowerOf2 n = true ↔ n &&& (n - 1) = 0 := by
  simp [isPowerOf2]

theorem isPowerOf2_double (n : Nat) (hn : 1 ≤ n) (h : isPowerOf2 n = true) : isPowerOf2 (2 * n) = true := by
  rw [isPowerOf2_iff] at *
  rw [land_double n hn, h]

theorem isPowerOf2_half (n : Nat) (hn : 2 ≤ n) (h : isPowerOf2 n = true) :
    isPowerOf2 (n / 2) = true ∧ 2 * (n / 2) = n := by
  rw [isPowerOf2_iff] at *
  rcases Nat.even_or_odd' n with ⟨k, rfl | rfl⟩
  · have hk : 1 ≤ k := by omega
    rw [land_double k hk] at h
    have : 2 * k / 2 = k := by omega
    rw [this]
    exact ⟨by omega, rfl⟩
  · rw [land_odd] at h
    omega

theorem hashIdx_lt (m : Nat) (h : UInt64) (hm : 0 < m) : Chain.hashIdx m h < m := by
  unfold Chain.hashIdx
  have := Nat.and_le_right (n := h.toNat) (m := m - 1)
  omega

/-! ### sums over `[0,n)` -/

def sumTo (f : Nat → Nat) : Nat → Nat
  | 0 => 0
  | n + 1 => sumTo f n + f n

theorem sumTo_congr {f f' : Nat → Nat} {n : Nat} (h : ∀ i, i < n → f' i = f i) : sumTo f' n = sumTo f n := by
  induction n with
  | zero => rfl
  | succ n ih => simp [sumTo, ih (fun i hi => h i (by omega)), h n (by omega)]

theorem sumTo_update {f f' : Nat → Nat} {n idx : Nat} (hidx : idx < n) (h : ∀ i, i ≠ idx → f' i = f i) :
    sumTo f' n + f idx = sumTo f n + f' idx := by
  induction n with
  | zero => omega
  | succ n ih =>
    simp only [sumTo]
    by_cases hn : idx = n
    · subst hn
      rw [sumTo_congr (f := f) (f' := f') (fun i hi => h i (by omega))]
      omega
    · have := ih (by omega)
      rw [h n (by omega)]
      omega

theorem sumTo_zero {f : Nat → Nat} {n : Nat} (h : ∀ i, i < n → f i = 0) : sumTo f n = 0 := by
  induction n with
  | zero => rfl
  | succ n ih => simp [sumTo, ih (fun i hi => h i (by omega)), h n (by omega)]

theorem length_flatMap_range {α : Type} (g : Nat → List α) (n : Nat) :
    ((List.range n).flatMap g).length = sumTo (fun i => (g i).length) n := by
  induction n with
  | zero => simp [sumTo]
  | succ n ih => rw [List.range_succ, List.flatMap_append, List.length_append, ih]; simp [sumTo]

/-! ### buckets -/

theorem bucketGet_eq (key : K) (b : List (K × V)) : Chain.bucketGet key b = Map.lookup b key := by
  induction b with
  | nil => rfl
  | cons e r ih =>
    obtain ⟨k, v⟩ := e
    simp only [Chain.bucketGet, Map.lookup, ih]

theorem bucketSet_none {key : K} {val : V} {b : List (K × V)} :
    Chain.bucketSet key val b = none ↔ key ∉ b.map Prod.fst := by
  induction b with
  | nil => simp [Chain.bucketSet]
  | cons e r ih =>
    obtain ⟨k, v⟩ := e
    unfold Chain.bucketSet
    by_cases hk : k = key
    · simp [hk]
    · simp only [hk, if_false, List.map_cons, List.mem_cons, not_or]
      cases hr : Chain.bucketSet key val r with
      | none => simp [ih.1 hr, Ne.symm hk]
      | some r' =>
        simp only [reduceCtorEq, false_iff, not_and, not_not]
        intro _
        by_contra hc
        rw [ih.2 hc] at hr
        cases hr

theorem bucketSet_some {key : K} {val : V} {b b' : List (K × V)} (hnd : NodupKeys b)
    (h : Chain.bucketSet key val b = some b') :
    b'.map Prod.fst = b.map Prod.fst ∧ b'.length = b.length ∧
      ∀ k' v', (k', v') ∈ b' ↔ (k' = key ∧ v' = val) ∨ (k' ≠ key ∧ (k', v') ∈ b) := by
  induction b generalizing b' with
  | nil => simp [Chain.bucketSet] at h
  | cons e r ih =>
    obtain ⟨k, v⟩ := e
    have hnd' : k ∉ r.map Prod.fst ∧ NodupKeys r := by
      simpa [NodupKeys, List.nodup_cons] using hnd
    unfold Chain.bucketSet at h
    by_cases hk : k = key
    · subst hk
      simp only [if_true, Option.some.injEq] at h
      subst h
      refine ⟨rfl, rfl, ?_⟩
      intro k' v'
      simp only [List.mem_cons, Prod.mk.injEq]
      constructor
      · rintro (⟨rfl, rfl⟩ | hm)
        · exact Or.inl ⟨rfl, rfl⟩
        · refine Or.inr ⟨?_, Or.inr hm⟩
          rintro rfl
          exact hnd'.1 (List.mem_map_of_mem (f := Prod.fst) hm)
      · rintro (⟨rfl, rfl⟩ | ⟨hne, (⟨rfl, _⟩ | hm)⟩)
        · exact Or.inl ⟨rfl, rfl⟩
        · exact absurd rfl hne
        · exact Or.inr hm
    · simp only [hk, if_false] at h
      cases hr : Chain.bucketSet key val r with
      | none => simp [hr] at h
      | some r' =>
        simp only [hr, Option.some.injEq] at h
        subst h
        obtain ⟨h1, h2, h3⟩ := ih hnd'.2 hr
        refine ⟨by simp [h1], by simp [h2], ?_⟩
        intro k' v'
        simp only [List.mem_cons, Prod.mk.injEq, h3]
        constructor
        · rintro (⟨rfl, rfl⟩ | (h | ⟨hne, hm⟩))
          · exact Or.inr ⟨hk, Or.inl ⟨rfl, rfl⟩⟩
          · exact Or.inl h
          · exact Or.inr ⟨hne, Or.inr hm⟩
        · rintro (h | ⟨hne, (⟨rfl, rfl⟩ | hm)⟩)
          · exact Or.inr (Or.inl h)
          · exact Or.inl ⟨rfl, rfl⟩
          · exact Or.inr (Or.inr ⟨hne, hm⟩)

theorem bucketDelete_spec {key : K} {b : List (K × V)} (hnd : NodupKeys b) :
    (Chain.bucketDelete key b).2 = Map.lookup b key ∧ NodupKeys (Chain.bucketDelete key b).1 ∧
      (∀ k' v', (k', v') ∈ (Chain.bucketDelete key b).1 ↔ k' ≠ key ∧ (k', v') ∈ b) ∧
      ((Chain.bucketDelete key b).1.length + (if (Map.lookup b key).isSome then 1 else 0) = b.length) := by
  induction b with
  | nil => simp [Chain.bucketDelete, Map.lookup, nodupKeys_nil]
  | cons e r ih =>
    obtain ⟨k, v⟩ := e
    have hnd' : k ∉ r.map Prod.fst ∧ NodupKeys r := by
      simpa [NodupKeys, List.nodup_cons] using hnd
    obtain ⟨h1, h2, h3, h4⟩ := ih hnd'.2
    unfold Chain.bucketDelete Map.lookup
    by_cases hk : k = key
    · subst hk
      simp only [if_true, Option.isSome_some]
      refine ⟨trivial, hnd'.2, ?_, rfl⟩
      intro k' v'
      simp only [List.mem_cons, Prod.mk.injEq]
      constructor
      · intro hm
        refine ⟨?_, Or.inr hm⟩
        rintro rfl
        exact hnd'.1 (List.mem_map_of_mem (f := Prod.fst) hm)
      · rintro ⟨hne, (⟨rfl, _⟩ | hm)⟩
        · exact absurd rfl hne
        · exact hm
    · simp only [hk, if_false]
      refine ⟨h1, ?_, ?_, ?_⟩
      · simp only [NodupKeys, List.map_cons, List.nodup_cons]
        refine ⟨?_, h2⟩
        intro hm
        rw [List.mem_map] at hm
        obtain ⟨⟨k', v'⟩, hmem, hk'⟩ := hm
        have := (h3 k' v').1 hmem
        simp only at hk'
        subst hk'
        exact hnd'.1 (List.mem_map_of_mem (f := Prod.fst) this.2)
      · intro k' v'
        simp only [List.mem_cons, Prod.mk.injEq, h3]
        constructor
        · rintro (⟨rfl, rfl⟩ | ⟨hne, hm⟩)
          · exact ⟨hk, Or.inl ⟨rfl, rfl⟩⟩
          · exact ⟨hne, Or.inr hm⟩
        · rintro ⟨hne, (h | hm)⟩
          · exact Or.inl h
          · exact Or.inr ⟨hne, hm⟩
      · simp only [List.length_cons]
        omega

/-! ### invariant and abstraction -/

def Chain.bucket (t : ChainTable K V) (i : Nat) : List (K × V) := t.buckets[i]?.getD []

/-- "`t` holds the pair `(k, v)`" -/
def Chain.Live (t : ChainTable K V) (k : K) (v : V) : Prop := ∃ i, i < t.buckets.size ∧ (k, v) ∈ Chain.bucket t i

structure Chain.InvCore (hash : K → UInt64) (t : ChainTable K V) : Prop where
  size : t.buckets.size = t.m
  minM : symboltable_scMinM ≤ t.m
  pow2 : isPowerOf2 t.m = true
  home : ∀ i, i < t.m → ∀ e ∈ Chain.bucket t i, Chain.hashIdx t.m (mix (hash e.1)) = i
  nodup : ∀ i, i < t.m → NodupKeys (Chain.bucket t i)
  n_eq : t.n = ((sumTo (fun i => (Chain.bucket t i).length) t.m : Nat) : Int)
  lf : ValidLF scMinLF scMaxLF t.minLF t.maxLF

/-- invariant with room for `r` more insertions before `Put` would resize:
`(n + r - 1) / m < maxLF` -/
def Chain.Room (hash : K → UInt64) (r : Nat) (t : ChainTable K V) : Prop :=
  Chain.InvCore hash t ∧ (t.n + (r : Int)) * (t.maxLF.den : Int) < (t.maxLF.num : Int) * (t.m : Int) + (t.maxLF.den : Int)

abbrev Chain.Inv (hash : K → UInt64) (t : ChainTable K V) : Prop := Chain.Room hash 0 t

theorem scMinM_pos : 0 < symboltable_scMinM := by decide

theorem Chain.bucket_of_get {t : ChainTable K V} {i : Nat} {b : List (K × V)} (h : t.buckets[i]? = some b) :
    Chain.bucket t i = b := by simp [Chain.bucket, h]

theorem Chain.get_of_lt {t : ChainTable K V} {i : Nat} (h : i < t.buckets.size) :
    t.buckets[i]? = some (Chain.bucket t i) := by
  simp [Chain.bucket, h]

theorem Chain.live_iff_bucket {hash : K → UInt64} {t : ChainTable K V} (hI : Chain.InvCore hash t) (k : K) (v : V) :
    Chain.Live t k v ↔ (k, v) ∈ Chain.bucket t (Chain.hashIdx t.m (mix (hash k))) := by
  have hm : 0 < t.m := Nat.lt_of_lt_of_le scMinM_pos hI.minM
  constructor
  · rintro ⟨i, hi, hmem⟩
    rw [hI.size] at hi
    have := hI.home i hi _ hmem
    simp only at this
    rw [this]; exact hmem
  · intro hmem
    exact ⟨_, by rw [hI.size]; exact hashIdx_lt _ _ hm, hmem⟩

/-- bucket `j` after replacing bucket `i` -/
theorem Chain.bucket_set (t : ChainTable K V) (i : Nat) (hi : i < t.buckets.size) (b : List (K × V)) (n' : Int) (j : Nat) :
    Chain.bucket { t with buckets := t.buckets.setIfInBounds i b, n := n' } j = if j = i then b else Chain.bucket t j := by
  unfold Chain.bucket
  simp only [Array.getElem?_setIfInBounds]
  by_cases hj : i = j
  · subst hj; simp [hi]
  · simp [hj, Ne.symm hj]

/-- replacing the home bucket of `key` by a duplicate-free list whose new keys are `key` -/
theorem Chain.replace_bucket {hash : K → UInt64} {t : ChainTable K V} (hI : Chain.InvCore hash t) (key : K)
    (b : List (K × V)) (n' : Int)
    (hsub : ∀ e ∈ b, e.1 = key ∨ e ∈ Chain.bucket t (Chain.hashIdx t.m (mix (hash key))))
    (hnd : NodupKeys b)
    (hn : n' + ((Chain.bucket t (Chain.hashIdx t.m (mix (hash key)))).length : Int) = t.n + (b.length : Int)) :
    Chain.InvCore hash { t with buckets := t.buckets.setIfInBounds (Chain.hashIdx t.m (mix (hash key))) b, n := n' } ∧
    ∀ k' v', Chain.Live { t with buckets := t.buckets.setIfInBounds (Chain.hashIdx t.m (mix (hash key))) b, n := n' } k' v' ↔
      (k', v') ∈ (if Chain.hashIdx t.m (mix (hash k')) = Chain.hashIdx t.m (mix (hash key)) then b
        else Chain.bucket t (Chain.hashIdx t.m (mix (hash k')))) := by
  have hm : 0 < t.m := Nat.lt_of_lt_of_le scMinM_pos hI.minM
  have hi : Chain.hashIdx t.m (mix (hash key)) < t.buckets.size := by rw [hI.size]; exact hashIdx_lt _ _ hm
  generalize hidef : Chain.hashIdx t.m (mix (hash key)) = i at *
  have hbs := Chain.bucket_set t i hi b n'
  have hcore : Chain.InvCore hash { t with buckets := t.buckets.setIfInBounds i b, n := n' } := by
    refine ⟨by simp [hI.size], hI.minM, hI.pow2, ?_, ?_, ?_, hI.lf⟩
    · intro j hj e he
      rw [hbs] at he
      by_cases hji : j = i
      · subst hji
        simp only [if_true] at he
        rcases hsub e he with h | h
        · simp only [h, hidef]
        · exact hI.home j hj e h
      · simp only [hji, if_false] at he
        exact hI.home j hj e he
    · intro j hj
      rw [hbs]
      by_cases hji : j = i
      · simp [hji, hnd]
      · simp only [hji, if_false]; exact hI.nodup j hj
    · have hfun : (fun j => (Chain.bucket { t with buckets := t.buckets.setIfInBounds i b, n := n' } j).length) =
          fun j => (if j = i then b else Chain.bucket t j).length := by
        funext j; rw [hbs]
      show n' = ((sumTo (fun j => (Chain.bucket { t with buckets := t.buckets.setIfInBounds i b, n := n' } j).length) t.m : Nat) : Int)
      rw [hfun]
      have hupd := sumTo_update (f := fun j => (Chain.bucket t j).length)
        (f' := fun j => (if j = i then b else Chain.bucket t j).length)
        (n := t.m) (idx := i) (by rw [← hI.size]; exact hi)
        (by intro j hj; simp only [hj, if_false])
      simp only [if_true] at hupd
      have := hI.n_eq
      omega
  refine ⟨hcore, ?_⟩
  intro k' v'
  rw [Chain.live_iff_bucket hcore]
  simp only [hbs]

/-! ### `Put` after the load check -/

theorem Chain.putBucket_spec (hash : K → UInt64) (t : ChainTable K V) (key : K) (val : V) (r : Nat)
    (h : Chain.Room hash (r + 1) t) :
    ∃ t', Chain.putBucket t (mix (hash key)) key val = .ok t' ∧ Chain.Room hash r t' ∧ t'.m = t.m ∧
      t'.minLF = t.minLF ∧ t'.maxLF = t.maxLF ∧
      ∀ k' v', Chain.Live t' k' v' ↔ (k' = key ∧ v' = val) ∨ (k' ≠ key ∧ Chain.Live t k' v') := by
  obtain ⟨hI, hroom⟩ := h
  have hm : 0 < t.m := Nat.lt_of_lt_of_le scMinM_pos hI.minM
  have hi : Chain.hashIdx t.m (mix (hash key)) < t.buckets.size := by rw [hI.size]; exact hashIdx_lt _ _ hm
  have hnd := hI.nodup _ (by rw [← hI.size]; exact hi)
  unfold Chain.putBucket
  simp only [Chain.get_of_lt hi]
  have hlive : ∀ (t' : ChainTable K V) (b : List (K × V)),
      (∀ k' v', (k', v') ∈ b ↔ (k' = key ∧ v' = val) ∨ (k' ≠ key ∧ (k', v') ∈ Chain.bucket t (Chain.hashIdx t.m (mix (hash key))))) →
      (∀ k' v', Chain.Live t' k' v' ↔
        (k', v') ∈ (if Chain.hashIdx t.m (mix (hash k')) = Chain.hashIdx t.m (mix (hash key)) then b
          else Chain.bucket t (Chain.hashIdx t.m (mix (hash k'))))) →
      ∀ k' v', Chain.Live t' k' v' ↔ (k' = key ∧ v' = val) ∨ (k' ≠ key ∧ Chain.Live t k' v') := by
    intro t' b hb hl k' v'
    rw [hl, Chain.live_iff_bucket hI]
    by_cases hh : Chain.hashIdx t.m (mix (hash k')) = Chain.hashIdx t.m (mix (hash key))
    · simp only [hh, if_true, hb]
    · simp only [hh, if_false]
      have hne : k' ≠ key := by rintro rfl; exact hh rfl
      simp [hne]
  cases hs : Chain.bucketSet key val (Chain.bucket t (Chain.hashIdx t.m (mix (hash key)))) with
  | some b' =>
    obtain ⟨hk, hlen, hmem⟩ := bucketSet_some hnd hs
    have hrep := Chain.replace_bucket hI key b' t.n
      (by
        intro e he
        obtain ⟨k', v'⟩ := e
        rcases (hmem k' v').1 he with ⟨h1, _⟩ | ⟨_, h2⟩
        · exact Or.inl h1
        · exact Or.inr h2)
      (by unfold NodupKeys; rw [hk]; exact hnd)
      (by rw [hlen])
    refine ⟨_, rfl, ⟨hrep.1, ?_⟩, rfl, rfl, rfl, hlive _ b' hmem hrep.2⟩
    simp only
    push_cast at hroom ⊢
    have := Int.mul_nonneg (Int.natCast_nonneg 1) (Int.natCast_nonneg t.maxLF.den)
    nlinarith
  | none =>
    have hnot := bucketSet_none.1 hs
    have hmem : ∀ k' v', (k', v') ∈ ((key, val) :: Chain.bucket t (Chain.hashIdx t.m (mix (hash key)))) ↔
        (k' = key ∧ v' = val) ∨ (k' ≠ key ∧ (k', v') ∈ Chain.bucket t (Chain.hashIdx t.m (mix (hash key)))) := by
      intro k' v'
      simp only [List.mem_cons, Prod.mk.injEq]
      constructor
      · rintro (h | h)
        · exact Or.inl h
        · refine Or.inr ⟨?_, h⟩
          rintro rfl
          exact hnot (List.mem_map_of_mem (f := Prod.fst) h)
      · rintro (h | ⟨_, h⟩)
        · exact Or.inl h
        · exact Or.inr h
    have hrep := Chain.replace_bucket hI key ((key, val) :: Chain.bucket t (Chain.hashIdx t.m (mix (hash key)))) (t.n + 1)
      (by
        intro e he
        rcases List.mem_cons.1 he with rfl | h
        · exact Or.inl rfl
        · exact Or.inr h)
      (by
        simp only [NodupKeys, List.map_cons, List.nodup_cons]
        exact ⟨hnot, hnd⟩)
      (by simp only [List.length_cons]; push_cast; omega)
    refine ⟨_, rfl, ⟨hrep.1, ?_⟩, rfl, rfl, rfl, hlive _ _ hmem hrep.2⟩
    simp only
    push_cast at hroom ⊢
    linarith

/-! ### constructor -/

theorem Chain.lf_facts {minLF maxLF : LF} (h : ValidLF scMinLF scMaxLF minLF maxLF) :
    0 < minLF.num ∧ 0 < maxLF.num ∧ maxLF.den < maxLF.num := by
  obtain ⟨h1, h2, h3, h4, _⟩ := h
  simp only [scMinLF, symboltable_scMinLoadFactor_num, symboltable_scMinLoadFactor_den] at h3
  have a : 0 < minLF.num := by omega
  have b : 0 < maxLF.num := by
    rcases Nat.eq_zero_or_pos maxLF.num with hz | hz
    · rw [hz] at h4; simp at h4
    · exact hz
  refine ⟨a, b, ?_⟩
  by_contra hc
  have hc' : maxLF.num ≤ maxLF.den := by omega
  have e1 := Nat.mul_le_mul_right maxLF.den h3
  have e2 := Nat.mul_le_mul_right minLF.den hc'
  have e3 := Nat.mul_pos h1 h2
  nlinarith

theorem Chain.bucket_replicate (m : Nat) (n : Int) (a b : LF) (j : Nat) :
    Chain.bucket ({ buckets := Array.replicate m [], m := m, n := n, minLF := a, maxLF := b } : ChainTable K V) j = [] := by
  unfold Chain.bucket
  simp only [Array.getElem?_replicate]
  split <;> rfl

theorem Chain.new_spec (hash : K → UInt64) (m' : Nat) (minLF maxLF : LF) (hlf : ValidLF scMinLF scMaxLF minLF maxLF)
    (hm : symboltable_scMinM ≤ m') (hp : isPowerOf2 m' = true) :
    ∃ fresh : ChainTable K V, Chain.new ⟨m', minLF, maxLF⟩ = .ok fresh ∧ Chain.InvCore hash fresh ∧ fresh.m = m' ∧
      fresh.n = 0 ∧ fresh.minLF = minLF ∧ fresh.maxLF = maxLF ∧ ∀ k v, ¬ Chain.Live fresh k v := by
  obtain ⟨a, b, _⟩ := Chain.lf_facts hlf
  have hm0 : m' ≠ 0 := by have := scMinM_pos; omega
  refine ⟨{ buckets := Array.replicate m' [], m := m', n := 0, minLF := minLF, maxLF := maxLF }, ?_, ?_, rfl, rfl, rfl, rfl, ?_⟩
  · unfold Chain.new
    simp [hm0, Nat.ne_of_gt a, Nat.ne_of_gt b, hp, Nat.not_lt.2 hm]
  · refine ⟨by simp, hm, hp, ?_, ?_, ?_, hlf⟩
    · intro i _ e he; rw [Chain.bucket_replicate] at he; cases he
    · intro i _; rw [Chain.bucket_replicate]; exact nodupKeys_nil
    · simp only [Chain.bucket_replicate, List.length_nil]
      rw [sumTo_zero (fun _ _ => rfl)]; rfl
  · rintro k v ⟨i, _, hmem⟩
    rw [Chain.bucket_replicate] at hmem; cases hmem

/-! ### `All` -/

theorem Chain.all_spec {sh : Shuffle σ} (hsh : ShufflePerm sh) {hash : K → UInt64} {t : ChainTable K V}
    (hI : Chain.InvCore hash t) (g : σ) :
    NodupKeys (Chain.all sh t g).1 ∧ (∀ k v, (k, v) ∈ (Chain.all sh t g).1 ↔ Chain.Live t k v) ∧
      (((Chain.all sh t g).1.length : Nat) : Int) = t.n := by
  have hperm : (Chain.all sh t g).1.Perm ((List.range t.buckets.size).flatMap (Chain.bucket t)) := by
    unfold Chain.all
    exact (hsh g t.buckets.size).flatMap_right _
  refine ⟨?_, ?_, ?_⟩
  · unfold NodupKeys
    rw [(hperm.map Prod.fst).nodup_iff, List.map_flatMap, List.nodup_flatMap]
    constructor
    · intro i hi
      rw [List.mem_range, hI.size] at hi
      exact hI.nodup i hi
    · apply List.Nodup.pairwise_of_forall_ne List.nodup_range
      intro i hi j hj hij
      rw [List.mem_range, hI.size] at hi hj
      simp only [Function.onFun]
      rw [List.disjoint_left]
      intro k hk1 hk2
      rw [List.mem_map] at hk1 hk2
      obtain ⟨e1, he1, rfl⟩ := hk1
      obtain ⟨e2, he2, hk⟩ := hk2
      have h1 := hI.home i hi e1 he1
      have h2 := hI.home j hj e2 he2
      rw [hk] at h2
      exact hij (h1.symm.trans h2)
  · intro k v
    rw [hperm.mem_iff, List.mem_flatMap]
    simp only [List.mem_range, Chain.Live]
  · rw [hperm.length_eq, length_flatMap_range, hI.size, hI.n_eq]

/-! ### `Put` with the load check, `resize` -/

theorem Chain.den_le {hash : K → UInt64} {t : ChainTable K V} (hI : Chain.InvCore hash t) :
    (t.maxLF.den : Int) ≤ (t.maxLF.num : Int) * (t.m : Int) := by
  obtain ⟨_, _, h⟩ := Chain.lf_facts hI.lf
  have hm : 1 ≤ t.m := Nat.lt_of_lt_of_le scMinM_pos hI.minM
  have : t.maxLF.den ≤ t.maxLF.num * t.m := by
    calc t.maxLF.den ≤ t.maxLF.num := h.le
      _ = t.maxLF.num * 1 := (Nat.mul_one _).symm
      _ ≤ t.maxLF.num * t.m := Nat.mul_le_mul_left _ hm
  exact_mod_cast this

/-- predicate carried through a re-insertion: room for `r` more pairs, fixed load factors -/
def Chain.Fill (hash : K → UInt64) (m0 : Nat) (minLF maxLF : LF) (r : Nat) (t : ChainTable K V) : Prop :=
  Chain.Room hash r t ∧ t.minLF = minLF ∧ t.maxLF = maxLF ∧ t.m = m0

/-- `Put` does not resize while there is room -/
theorem Chain.put_room (sh : Shuffle σ) (hash : K → UInt64) (d : Nat) (t : ChainTable K V) (g : σ) (key : K) (val : V)
    (r : Nat) (h : Chain.Room hash (r + 1) t) :
    ∃ t', Chain.put sh hash (d + 1) t g key val = .ok (t', g) ∧ Chain.Room hash r t' ∧ t'.m = t.m ∧
      t'.minLF = t.minLF ∧ t'.maxLF = t.maxLF ∧
      ∀ k' v', Chain.Live t' k' v' ↔ (k' = key ∧ v' = val) ∨ (k' ≠ key ∧ Chain.Live t k' v') := by
  have hcheck : ratioGE t.n t.m t.maxLF = false := by
    unfold ratioGE
    rw [decide_eq_false_iff_not]
    have h2 := h.2
    push_cast at h2
    have : (0 : Int) ≤ (r : Int) * (t.maxLF.den : Int) := Int.mul_nonneg (Int.natCast_nonneg _) (Int.natCast_nonneg _)
    nlinarith
  obtain ⟨t', h1, h2, h3, h4, h5, h6⟩ := Chain.putBucket_spec hash t key val r h
  refine ⟨t', ?_, h2, h3, h4, h5, h6⟩
  unfold Chain.put
  simp only [hcheck, Bool.false_eq_true, if_false, h1]

/-- `resize` into a table in which all pairs fit without a nested resize -/
theorem Chain.resize_fits {sh : Shuffle σ} (hsh : ShufflePerm sh) (hash : K → UInt64) (d : Nat) (t : ChainTable K V) (g : σ)
    (m' : Nat) (hI : Chain.InvCore hash t) (hm : symboltable_scMinM ≤ m') (hp : isPowerOf2 m' = true)
    (hfit : (t.n + 1) * (t.maxLF.den : Int) < (t.maxLF.num : Int) * (m' : Int) + (t.maxLF.den : Int)) :
    ∃ t' g', Chain.resizeWith sh (Chain.put sh hash (d + 1)) t g m' = .ok (t', g') ∧ Chain.Room hash 1 t' ∧ t'.m = m' ∧
      t'.minLF = t.minLF ∧ t'.maxLF = t.maxLF ∧ ∀ k v, Chain.Live t' k v ↔ Chain.Live t k v := by
  obtain ⟨fresh, hnew, hfI, hfm, hfn, hfmin, hfmax, hfempty⟩ := Chain.new_spec (V := V) hash m' t.minLF t.maxLF hI.lf hm hp
  obtain ⟨hnd, hmem, hlen⟩ := Chain.all_spec hsh hI g
  have hfold := foldPut_spec (σ := σ) Chain.Live (fun r t' => Chain.Fill hash m' t.minLF t.maxLF (r + 1) t')
    (Chain.put sh hash (d + 1))
    (by
      intro r t1 g1 k v hP
      obtain ⟨t2, h1, h2, h3, h4, h5, h6⟩ := Chain.put_room sh hash d t1 g1 k v (r + 1) hP.1
      exact ⟨t2, g1, h1, ⟨h2, h4.trans hP.2.1, h5.trans hP.2.2.1, h3.trans hP.2.2.2⟩, h6⟩)
    (Chain.all sh t g).1 fresh (Chain.all sh t g).2 hnd
    (by
      refine ⟨⟨hfI, ?_⟩, hfmin, hfmax, hfm⟩
      rw [hfn, hfmax, hfm]
      push_cast
      rw [← hlen] at hfit
      push_cast at hfit
      linarith)
  obtain ⟨nt, g2, hf, hP, hL⟩ := hfold
  refine ⟨{ t with buckets := nt.buckets, m := nt.m, n := nt.n }, g2, ?_, ?_, ?_, rfl, rfl, ?_⟩
  · unfold Chain.resizeWith
    simp only [Nat.not_lt.2 hm, if_false, hnew, hf]
  · obtain ⟨⟨hc, hr⟩, hmin, hmax, _⟩ := hP
    refine ⟨⟨hc.size, hc.minM, hc.pow2, hc.home, hc.nodup, hc.n_eq, ?_⟩, ?_⟩
    · have := hc.lf; rw [hmin, hmax] at this; exact this
    · rw [hmax] at hr; exact hr
  · exact hP.2.2.2
  · intro k v
    show Chain.Live nt k v ↔ _
    rw [hL, hmem]
    constructor
    · rintro (h | ⟨h, _⟩)
      · exact h
      · exact absurd h (hfempty k v)
    · intro h; exact Or.inl h

/-- `Put` on any table satisfying the invariant (one nested level of `resize` suffices) -/
theorem Chain.put_any {sh : Shuffle σ} (hsh : ShufflePerm sh) (hash : K → UInt64) (d : Nat) (t : ChainTable K V) (g : σ)
    (key : K) (val : V) (h : Chain.Inv hash t) :
    ∃ t' g', Chain.put sh hash (d + 2) t g key val = .ok (t', g') ∧ Chain.Inv hash t' ∧
      t'.minLF = t.minLF ∧ t'.maxLF = t.maxLF ∧
      ∀ k' v', Chain.Live t' k' v' ↔ (k' = key ∧ v' = val) ∨ (k' ≠ key ∧ Chain.Live t k' v') := by
  by_cases hcheck : ratioGE t.n t.m t.maxLF = true
  · -- resize(2m), then the bucket scan
    have hm : 1 ≤ t.m := Nat.lt_of_lt_of_le scMinM_pos h.1.minM
    have hden := Chain.den_le h.1
    have hroom := h.2
    obtain ⟨t1, g1, hr, hR1, hm1, hmin1, hmax1, hL1⟩ := Chain.resize_fits hsh hash d t g (2 * t.m) h.1
      (by have := h.1.minM; omega) (isPowerOf2_double t.m hm h.1.pow2)
      (by push_cast at hroom ⊢; nlinarith)
    obtain ⟨t2, h2, hR2, _, hmin2, hmax2, hL2⟩ := Chain.putBucket_spec hash t1 key val 0 hR1
    refine ⟨t2, g1, ?_, hR2, hmin2.trans hmin1, hmax2.trans hmax1, ?_⟩
    · rw [Chain.put]
      simp only [hcheck, if_true, hr, h2]
    · intro k' v'
      rw [hL2, hL1]
  · have hroom : Chain.Room hash 1 t := by
      refine ⟨h.1, ?_⟩
      unfold ratioGE at hcheck
      simp only [decide_eq_true_eq, not_le] at hcheck
      push_cast
      linarith
    obtain ⟨t', h1, h2, _, h4, h5, h6⟩ := Chain.put_room sh hash (d + 1) t g key val 0 hroom
    exact ⟨t', g, h1, h2, h4, h5, h6⟩

/-- `resize` to any admissible capacity -/
theorem Chain.resize_any {sh : Shuffle σ} (hsh : ShufflePerm sh) (hash : K → UInt64) (d : Nat) (t : ChainTable K V) (g : σ)
    (m' : Nat) (hI : Chain.InvCore hash t) (hp : symboltable_scMinM ≤ m' → isPowerOf2 m' = true) :
    ∃ t' g', Chain.resizeWith sh (Chain.put sh hash (d + 2)) t g m' = .ok (t', g') ∧
      (symboltable_scMinM ≤ m' → Chain.Inv hash t') ∧ (m' < symboltable_scMinM → t' = t) ∧
      t'.minLF = t.minLF ∧ t'.maxLF = t.maxLF ∧ ∀ k v, Chain.Live t' k v ↔ Chain.Live t k v := by
  by_cases hm : m' < symboltable_scMinM
  · refine ⟨t, g, by simp [Chain.resizeWith, hm], fun h => by omega, fun _ => rfl, rfl, rfl, fun _ _ => Iff.rfl⟩
  · have hm' : symboltable_scMinM ≤ m' := Nat.not_lt.1 hm
    obtain ⟨fresh, hnew, hfI, hfm, hfn, hfmin, hfmax, hfempty⟩ :=
      Chain.new_spec (V := V) hash m' t.minLF t.maxLF hI.lf hm' (hp hm')
    obtain ⟨hnd, hmem, hlen⟩ := Chain.all_spec hsh hI g
    have hfold := foldPut_spec (σ := σ) Chain.Live (fun _ t' => Chain.Inv hash t' ∧ t'.minLF = t.minLF ∧ t'.maxLF = t.maxLF)
      (Chain.put sh hash (d + 2))
      (by
        intro r t1 g1 k v hP
        obtain ⟨t2, g2, h1, h2, h4, h5, h6⟩ := Chain.put_any hsh hash d t1 g1 k v hP.1
        exact ⟨t2, g2, h1, ⟨h2, h4.trans hP.2.1, h5.trans hP.2.2⟩, h6⟩)
      (Chain.all sh t g).1 fresh (Chain.all sh t g).2 hnd
      (by
        refine ⟨⟨hfI, ?_⟩, hfmin, hfmax⟩
        rw [hfn]
        have := Chain.den_le hfI
        have hd : (0 : Int) < (fresh.maxLF.den : Int) := by exact_mod_cast hfI.lf.maxDen
        push_cast
        linarith)
    obtain ⟨nt, g2, hf, hP, hL⟩ := hfold
    refine ⟨{ t with buckets := nt.buckets, m := nt.m, n := nt.n }, g2, ?_, ?_, fun h => by omega, rfl, rfl, ?_⟩
    · unfold Chain.resizeWith
      simp only [hm, if_false, hnew, hf]
    · intro _
      obtain ⟨⟨hc, hr⟩, hmin, hmax⟩ := hP
      refine ⟨⟨hc.size, hc.minM, hc.pow2, hc.home, hc.nodup, hc.n_eq, ?_⟩, ?_⟩
      · have := hc.lf; rw [hmin, hmax] at this; exact this
      · rw [hmax] at hr; exact hr
    · intro k v
      show Chain.Live nt k v ↔ _
      rw [hL, hmem]
      constructor
      · rintro (h | ⟨h, _⟩)
        · exact h
        · exact absurd h (hfempty k v)
      · intro h; exact Or.inl h

/-! ### `Get`, `Delete`, `DeleteAll` -/

theorem Chain.get_spec (hash : K → UInt64) (t : ChainTable K V) (key : K) (h : Chain.InvCore hash t) :
    ∃ o, Chain.get hash t key = .ok o ∧ ∀ v, o = some v ↔ Chain.Live t key v := by
  have hm : 0 < t.m := Nat.lt_of_lt_of_le scMinM_pos h.minM
  have hi : Chain.hashIdx t.m (mix (hash key)) < t.buckets.size := by rw [h.size]; exact hashIdx_lt _ _ hm
  refine ⟨Chain.bucketGet key (Chain.bucket t (Chain.hashIdx t.m (mix (hash key)))), ?_, ?_⟩
  · unfold Chain.get
    simp only [Chain.get_of_lt hi]
  · intro v
    rw [bucketGet_eq, lookup_eq_some_iff (h.nodup _ (hashIdx_lt _ _ hm)), Chain.live_iff_bucket h]

/-- the table right after `_delete` removed the node (before the load check) -/
def Chain.afterDelete (hash : K → UInt64) (t : ChainTable K V) (key : K) : ChainTable K V :=
  { t with
    buckets := t.buckets.setIfInBounds (Chain.hashIdx t.m (mix (hash key)))
      (Chain.bucketDelete key (Chain.bucket t (Chain.hashIdx t.m (mix (hash key))))).1
    n := if (Chain.bucketDelete key (Chain.bucket t (Chain.hashIdx t.m (mix (hash key))))).2.isSome then t.n - 1 else t.n }

theorem Chain.delete_core (hash : K → UInt64) (t : ChainTable K V) (key : K) (h : Chain.Inv hash t) :
    Chain.Inv hash (Chain.afterDelete hash t key) ∧
    (∀ k' v', Chain.Live (Chain.afterDelete hash t key) k' v' ↔ k' ≠ key ∧ Chain.Live t k' v') ∧
    ∀ v, (Chain.bucketDelete key (Chain.bucket t (Chain.hashIdx t.m (mix (hash key))))).2 = some v ↔ Chain.Live t key v := by
  obtain ⟨hI, hroom⟩ := h
  have hm : 0 < t.m := Nat.lt_of_lt_of_le scMinM_pos hI.minM
  have hi' : Chain.hashIdx t.m (mix (hash key)) < t.m := hashIdx_lt _ _ hm
  have hnd := hI.nodup _ hi'
  obtain ⟨hd1, hd2, hd3, hd4⟩ := bucketDelete_spec (key := key) hnd
  unfold Chain.afterDelete
  generalize Chain.bucketDelete key (Chain.bucket t (Chain.hashIdx t.m (mix (hash key)))) = bd at *
  have hrep := Chain.replace_bucket hI key bd.1 (if bd.2.isSome then t.n - 1 else t.n)
    (by
      intro e he
      obtain ⟨k', v'⟩ := e
      exact Or.inr ((hd3 k' v').1 he).2)
    hd2
    (by
      rw [hd1]
      cases hlk : Map.lookup (Chain.bucket t (Chain.hashIdx t.m (mix (hash key)))) key <;>
        simp only [hlk, Option.isSome_none, Option.isSome_some, Bool.false_eq_true, if_false, if_true] at hd4 ⊢ <;> omega)
  refine ⟨⟨hrep.1, ?_⟩, ?_, ?_⟩
  · have hd : (0 : Int) < (t.maxLF.den : Int) := by exact_mod_cast hI.lf.maxDen
    simp only
    push_cast at hroom ⊢
    split <;> nlinarith
  · intro k' v'
    rw [hrep.2, Chain.live_iff_bucket hI]
    by_cases hh : Chain.hashIdx t.m (mix (hash k')) = Chain.hashIdx t.m (mix (hash key))
    · simp only [hh, if_true, hd3]
    · simp only [hh, if_false]
      have hne : k' ≠ key := by rintro rfl; exact hh rfl
      simp [hne]
  · intro v
    rw [hd1, lookup_eq_some_iff hnd, Chain.live_iff_bucket hI]

theorem Chain.delete_spec {sh : Shuffle σ} (hsh : ShufflePerm sh) (hash : K → UInt64) (d : Nat) (t : ChainTable K V) (g : σ)
    (key : K) (h : Chain.Inv hash t) :
    ∃ t' g' o, Chain.delete sh hash (d + 2) t g key = .ok (t', g', o) ∧ Chain.Inv hash t' ∧
      (∀ k' v', Chain.Live t' k' v' ↔ k' ≠ key ∧ Chain.Live t k' v') ∧ ∀ v, o = some v ↔ Chain.Live t key v := by
  obtain ⟨hR1, hL1, ho⟩ := Chain.delete_core hash t key h
  have hm : 0 < t.m := Nat.lt_of_lt_of_le scMinM_pos h.1.minM
  have hi : Chain.hashIdx t.m (mix (hash key)) < t.buckets.size := by
    have := hashIdx_lt t.m (mix (hash key)) hm
    rw [h.1.size]; exact this
  have hdel : Chain.delete sh hash (d + 2) t g key =
      (if ratioLE (Chain.afterDelete hash t key).n (Chain.afterDelete hash t key).m (Chain.afterDelete hash t key).minLF then
        match Chain.resizeWith sh (Chain.put sh hash (d + 2)) (Chain.afterDelete hash t key) g ((Chain.afterDelete hash t key).m / 2) with
        | .ok (t2, g2) => .ok (t2, g2, (Chain.bucketDelete key (Chain.bucket t (Chain.hashIdx t.m (mix (hash key))))).2)
        | .panic => .panic
        | .diverge => .diverge
      else .ok (Chain.afterDelete hash t key, g, (Chain.bucketDelete key (Chain.bucket t (Chain.hashIdx t.m (mix (hash key))))).2)) := by
    unfold Chain.delete
    simp only [Chain.get_of_lt hi]
    rfl
  rw [hdel]
  split
  · obtain ⟨t2, g2, hr, hinv, hsame, _, _, hL2⟩ := Chain.resize_any hsh hash d (Chain.afterDelete hash t key) g
      ((Chain.afterDelete hash t key).m / 2) hR1.1
      (by
        intro hmin
        have hmm : (Chain.afterDelete hash t key).m = t.m := rfl
        rw [hmm] at hmin ⊢
        have : 2 ≤ t.m := by have := scMinM_pos; omega
        exact (isPowerOf2_half t.m this h.1.pow2).1)
    refine ⟨t2, g2, _, by simp only [hr], ?_, ?_, ho⟩
    · by_cases hmin : symboltable_scMinM ≤ (Chain.afterDelete hash t key).m / 2
      · exact hinv hmin
      · rw [hsame (Nat.not_le.1 hmin)]; exact hR1
    · intro k' v'
      rw [hL2, hL1]
  · exact ⟨_, g, _, rfl, hR1, hL1, ho⟩

theorem Chain.deleteAll_spec (hash : K → UInt64) (t : ChainTable K V) (h : Chain.Inv hash t) :
    Chain.Inv hash (Chain.deleteAll t) ∧ ∀ k v, ¬ Chain.Live (Chain.deleteAll t) k v := by
  obtain ⟨hI, _⟩ := h
  refine ⟨⟨⟨by simp [Chain.deleteAll], hI.minM, hI.pow2, ?_, ?_, ?_, hI.lf⟩, ?_⟩, ?_⟩
  · intro i _ e he
    unfold Chain.deleteAll at he
    rw [Chain.bucket_replicate] at he; cases he
  · intro i _
    unfold Chain.deleteAll
    rw [Chain.bucket_replicate]; exact nodupKeys_nil
  · unfold Chain.deleteAll
    simp only [Chain.bucket_replicate, List.length_nil]
    rw [sumTo_zero (fun _ _ => rfl)]; rfl
  · have := Chain.den_le hI
    have hd : (0 : Int) < (t.maxLF.den : Int) := by exact_mod_cast hI.lf.maxDen
    simp only [Chain.deleteAll]
    push_cast
    linarith
  · rintro k v ⟨i, _, hmem⟩
    unfold Chain.deleteAll at hmem
    rw [Chain.bucket_replicate] at hmem; cases hmem

/-! ### the refinement -/

theorem Chain.correct {sh : Shuffle σ} (hsh : ShufflePerm sh) (hash : K → UInt64) (eqVal : V → V → Bool) :
    Correct eqVal (Chain.impl sh hash eqVal) (Chain.Inv hash) Chain.Live where
  func := by
    intro t k v v' hI h1 h2
    rw [Chain.live_iff_bucket hI.1] at h1 h2
    have hm : 0 < t.m := Nat.lt_of_lt_of_le scMinM_pos hI.1.minM
    have hnd := hI.1.nodup _ (hashIdx_lt t.m (mix (hash k)) hm)
    have e1 := (lookup_eq_some_iff hnd).2 h1
    have e2 := (lookup_eq_some_iff hnd).2 h2
    rw [e1] at e2
    exact Option.some.inj e2
  put := by
    intro t g k v hI
    obtain ⟨t', g', h1, h2, _, _, h5⟩ := Chain.put_any hsh hash (depth - 2) t g k v hI
    exact ⟨t', g', h1, h2, h5⟩
  get := fun t k hI => Chain.get_spec hash t k hI.1
  delete := fun _ t g k hI => Chain.delete_spec hsh hash (depth - 2) t g k hI
  deleteAll := fun t hI => Chain.deleteAll_spec hash t hI
  all := by
    intro t g hI
    obtain ⟨h1, h2, _⟩ := Chain.all_spec hsh hI.1 g
    exact ⟨h1.nodup, h2⟩
  size := by
    intro t g hI
    obtain ⟨_, _, h3⟩ := Chain.all_spec hsh hI.1 g
    exact h3.symm
  equal := fun _ _ _ => rfl

/-! ### valid options and the initial table -/

/-- what `NewChainHashTable` accepts (capacity 0 = default, else a power of two ≥ the minimum), with
default-or-tighter load-factor bounds -/
def Chain.ValidOpts (o : Opts) : Prop :=
  (o.cap = 0 ∨ (symboltable_scMinM ≤ o.cap ∧ isPowerOf2 o.cap = true)) ∧
  ValidLF scMinLF scMaxLF (effLF o.minLF scMinLF) (effLF o.maxLF scMaxLF)

theorem Chain.new_eff (o : Opts) :
    (Chain.new o : Outcome (ChainTable K V)) =
      Chain.new ⟨if o.cap = 0 then symboltable_scMinM else o.cap, effLF o.minLF scMinLF, effLF o.maxLF scMaxLF⟩ := by
  have c1 : symboltable_scMinM ≠ 0 := by decide
  have c2 : scMinLF.num ≠ 0 := by decide
  have c3 : scMaxLF.num ≠ 0 := by decide
  unfold Chain.new effLF
  by_cases h1 : o.cap = 0 <;> by_cases h2 : o.minLF.num = 0 <;> by_cases h3 : o.maxLF.num = 0 <;>
    simp [h1, h2, h3, c1, c2, c3]

theorem Chain.init_spec (hash : K → UInt64) (o : Opts) (hv : Chain.ValidOpts o) :
    ∃ t0 : ChainTable K V, Chain.new o = .ok t0 ∧ Chain.Inv hash t0 ∧ ∀ k v, ¬ Chain.Live t0 k v := by
  obtain ⟨hcap, hlf⟩ := hv
  have hc : symboltable_scMinM ≤ (if o.cap = 0 then symboltable_scMinM else o.cap) ∧
      isPowerOf2 (if o.cap = 0 then symboltable_scMinM else o.cap) = true := by
    rcases hcap with h | ⟨h1, h2⟩
    · simp only [h, if_true]; exact ⟨Nat.le_refl _, by decide⟩
    · have : o.cap ≠ 0 := by have := scMinM_pos; omega
      simp only [this, if_false]; exact ⟨h1, h2⟩
  obtain ⟨fresh, hnew, hfI, _, hfn, _, _, hfempty⟩ := Chain.new_spec (V := V) hash _ _ _ hlf hc.1 hc.2
  refine ⟨fresh, by rw [Chain.new_eff, hnew], ⟨hfI, ?_⟩, hfempty⟩
  have := Chain.den_le hfI
  have hd : (0 : Int) < (fresh.maxLF.den : Int) := by exact_mod_cast hfI.lf.maxDen
  rw [hfn]; push_cast; linarith

/-! ### nodes visited (C03) -/

theorem nodesVisited_le (key : K) (b : List (K × V)) : Chain.nodesVisited key b ≤ b.length := by
  induction b with
  | nil => simp [Chain.nodesVisited]
  | cons e r ih =>
    obtain ⟨k, v⟩ := e
    unfold Chain.nodesVisited
    simp only [List.length_cons]
    split <;> omega

theorem le_sumTo (f : Nat → Nat) (n i : Nat) (hi : i < n) : f i ≤ sumTo f n := by
  induction n with
  | zero => omega
  | succ n ih =>
    simp only [sumTo]
    by_cases h : i = n
    · subst h; omega
    · have := ih (by omega); omega

/-- a bucket walk visits at most `n` nodes -/
theorem Chain.nodes_bound (hash : K → UInt64) (t : ChainTable K V) (key : K) (h : Chain.Inv hash t) :
    ((Chain.nodesVisited key (Chain.bucket t (Chain.hashIdx t.m (mix (hash key)))) : Nat) : Int) ≤ t.n := by
  have hm : 0 < t.m := Nat.lt_of_lt_of_le scMinM_pos h.1.minM
  have h1 := nodesVisited_le key (Chain.bucket t (Chain.hashIdx t.m (mix (hash key))))
  have h2 := le_sumTo (fun i => (Chain.bucket t i).length) t.m _ (hashIdx_lt t.m (mix (hash key)) hm)
  rw [h.1.n_eq]
  have h3 : (Chain.bucket t (Chain.hashIdx t.m (mix (hash key)))).length ≤ sumTo (fun i => (Chain.bucket t i).length) t.m := h2
  omega

end AlgoVerif.C02
