import AlgoVerif.Proofs.C13Union
/-! C13: `Star` accepts exactly the Kleene closure of the operand language. -/
namespace AlgoVerif.C13
open AlgoVerif AlgoVerif.C13.Spec

/-- paths as sequences of single moves (equivalent to `Spec.Path`, easier to induct on) -/
inductive Steps (δ : Int → Int → Int → Prop) : Int → Word → Int → Prop
  | nil (x : Int) : Steps δ x [] x
  | eps {x x' y : Int} {w : Word} : δ x Spec.eps x' → Steps δ x' w y → Steps δ x w y
  | sym {x x' y : Int} {a : Int} {w : Word} : δ x a x' → Steps δ x' w y → Steps δ x (a :: w) y

theorem Steps.append {δ : Int → Int → Int → Prop} {x y z : Int} {u v : Word}
    (h1 : Steps δ x u y) (h2 : Steps δ y v z) : Steps δ x (u ++ v) z := by
  induction h1 with
  | nil => exact h2
  | eps hd _ ih => exact Steps.eps hd (ih h2)
  | sym hd _ ih => exact Steps.sym hd (ih h2)

theorem Steps.of_ereach {δ : Int → Int → Int → Prop} {x y : Int} (h : EReach δ x y) : Steps δ x [] y := by
  induction h with
  | refl => exact Steps.nil _
  | step _ hd ih => exact Steps.append ih (Steps.eps hd (Steps.nil _))

theorem Steps.of_path {δ : Int → Int → Int → Prop} {x y : Int} {w : Word} (h : Path δ x w y) : Steps δ x w y := by
  induction h with
  | eps he => exact Steps.of_ereach he
  | cons he hd _ ih => exact Steps.append (Steps.of_ereach he) (Steps.sym hd ih)

theorem Path.prepend_eps {δ : Int → Int → Int → Prop} {x x' y : Int} {w : Word}
    (hd : δ x Spec.eps x') (h : Path δ x' w y) : Path δ x w y := by
  cases h with
  | eps he => exact Path.eps (EReach.trans (EReach.step (EReach.refl _) hd) he)
  | cons he hd' hp => exact Path.cons (EReach.trans (EReach.step (EReach.refl _) hd) he) hd' hp

theorem Steps.to_path {δ : Int → Int → Int → Prop} {x y : Int} {w : Word} (h : Steps δ x w y) : Path δ x w y := by
  induction h with
  | nil => exact Path.eps (EReach.refl _)
  | eps hd _ ih => exact Path.prepend_eps hd ih
  | sym hd _ ih => exact Path.cons (EReach.refl _) hd ih

/-- the finals loop of `Star`: `ff := sm.Get(0, f); star.Add(ff, E, {ss}); star.Add(ff, E, {final})` -/
def finalsFold2 (id : Nat) (ss : Int) (fin : List Int) (m : SM) (u : NFA) : SM × NFA :=
  fin.foldl (fun (acc : SM × NFA) f =>
    ((acc.1.get id f).1, ((acc.2.add (acc.1.get id f).2 E [ss]).add (acc.1.get id f).2 E [1]))) (m, u)

theorem finalsFold2_spec (id : Nat) (ss : Int) (fin : List Int) (m : SM) (u : NFA) (lo : Int) (hm : m.Inv lo) :
    m.Le (finalsFold2 id ss fin m u).1 ∧ (finalsFold2 id ss fin m u).1.Inv lo ∧
    (finalsFold2 id ss fin m u).2.start = u.start ∧ (finalsFold2 id ss fin m u).2.final = u.final ∧
    (∀ f ∈ fin, ∃ x, (finalsFold2 id ss fin m u).1.find id f = some x) ∧
    (∀ x a y, (finalsFold2 id ss fin m u).2.Δ x a y ↔ u.Δ x a y ∨
      (a = E ∧ (y = ss ∨ y = 1) ∧ ∃ f ∈ fin, (finalsFold2 id ss fin m u).1.find id f = some x)) := by
  induction fin generalizing m u with
  | nil => simp [finalsFold2]; exact ⟨SM.Le.refl _, hm⟩
  | cons f fin ih =>
    simp only [finalsFold2, List.foldl_cons]
    obtain ⟨g1, g2, g3⟩ := SM.get_spec m lo hm id f
    have := ih (m.get id f).1 ((u.add (m.get id f).2 E [ss]).add (m.get id f).2 E [1]) g2
    simp only [finalsFold2] at this
    obtain ⟨k1, k2, k3, k4, k5, k6⟩ := this
    refine ⟨SM.Le.trans g1 k1, k2, by rw [k3]; rfl, by rw [k4]; rfl, ?_, ?_⟩
    · intro f' hf'
      simp at hf'; rcases hf' with rfl | hf'
      · exact ⟨_, k1.keep _ _ _ g3⟩
      · exact k5 f' hf'
    · intro x a y
      rw [k6, NFA.Δ_add, NFA.Δ_add]
      simp only [List.mem_cons, List.not_mem_nil, or_false]
      constructor
      · rintro (((h | ⟨h1, h2, h3⟩) | ⟨h1, h2, h3⟩) | ⟨h1, h2, f', h3, h4⟩)
        · left; exact h
        · right; exact ⟨h2, Or.inl h3, f, Or.inl rfl, by rw [h1]; exact k1.keep _ _ _ g3⟩
        · right; exact ⟨h2, Or.inr h3, f, Or.inl rfl, by rw [h1]; exact k1.keep _ _ _ g3⟩
        · right; exact ⟨h1, h2, f', Or.inr h3, h4⟩
      · rintro (h | ⟨h1, h2, f', h3 | h3, h4⟩)
        · left; left; left; exact h
        · subst h3
          have e := SM.find_fun h4 (k1.keep _ _ _ g3)
          rcases h2 with h2 | h2
          · left; left; right; exact ⟨e, h1, h2⟩
          · left; right; exact ⟨e, h1, h2⟩
        · right; exact ⟨h1, h2, f', h3, h4⟩

/-- what `Star` builds -/
theorem NFA.star_struct (n : NFA) (hwf : n.WF) :
    ∃ (m : SM) (gs : Int), m.Inv 1 ∧ Bound m 0 n ∧ m.find 0 n.start = some gs ∧
      n.star.start = 0 ∧ n.star.final = [1] ∧
      ∀ x a y, n.star.Δ x a y ↔
        (∃ s t, n.Δ s a t ∧ m.find 0 s = some x ∧ m.find 0 t = some y) ∨
        (a = E ∧ x = 0 ∧ (y = gs ∨ y = 1)) ∨
        (a = E ∧ (y = gs ∨ y = 1) ∧ ∃ f ∈ n.final, m.find 0 f = some x) := by
  obtain ⟨c1, c2, c3, c4, c5, c6⟩ := copyTransL_spec 0 n.trans (SM.new 1) (NFA.new 0 [1]) 1 (SM.Inv_new 1)
  obtain ⟨g1, g2, g3⟩ := SM.get_spec (copyTransL 0 n.trans (SM.new 1) (NFA.new 0 [1])).1 1 c2 0 n.start
  have fs := finalsFold2_spec 0 ((copyTransL 0 n.trans (SM.new 1) (NFA.new 0 [1])).1.get 0 n.start).2 n.final
    ((copyTransL 0 n.trans (SM.new 1) (NFA.new 0 [1])).1.get 0 n.start).1
    (((copyTransL 0 n.trans (SM.new 1) (NFA.new 0 [1])).2.add 0 E
      [((copyTransL 0 n.trans (SM.new 1) (NFA.new 0 [1])).1.get 0 n.start).2]).add 0 E [1]) 1 g2
  have hstar : n.star = (finalsFold2 0 ((copyTransL 0 n.trans (SM.new 1) (NFA.new 0 [1])).1.get 0 n.start).2 n.final
    ((copyTransL 0 n.trans (SM.new 1) (NFA.new 0 [1])).1.get 0 n.start).1
    (((copyTransL 0 n.trans (SM.new 1) (NFA.new 0 [1])).2.add 0 E
      [((copyTransL 0 n.trans (SM.new 1) (NFA.new 0 [1])).1.get 0 n.start).2]).add 0 E [1])).2 := rfl
  obtain ⟨f1, f2, f3, f4, f5, f6⟩ := fs
  have hle := SM.Le.trans g1 f1
  refine ⟨_, _, f2, ?_, f1.keep _ _ _ g3, by rw [hstar, f3]; simp only [NFA.start_add]; rw [c3]; rfl, by rw [hstar, f4]; simp only [NFA.final_add]; rw [c4]; rfl, ?_⟩
  · refine ⟨?_, ⟨_, f1.keep _ _ _ g3⟩, f5⟩
    intro s a t hd
    obtain ⟨x, y, hx, hy⟩ := c5 s a t ((tblΔ_iff hwf s a t).2 hd)
    exact ⟨⟨x, hle.keep _ _ _ hx⟩, ⟨y, hle.keep _ _ _ hy⟩⟩
  · intro x a y
    rw [hstar, f6, NFA.Δ_add, NFA.Δ_add, c6]
    simp only [List.mem_cons, List.not_mem_nil, or_false]
    have hempty : ∀ x a y, ¬ (NFA.new 0 [1]).Δ x a y := by
      intro x a y; simp [NFA.new, NFA.empty_Δ]
    constructor
    · rintro ((((h | ⟨s, t, h1, h2, h3⟩) | ⟨h1, h2, h3⟩) | ⟨h1, h2, h3⟩) | h)
      · exact absurd h (hempty _ _ _)
      · left; exact ⟨s, t, (tblΔ_iff hwf s a t).1 h1, hle.keep _ _ _ h2, hle.keep _ _ _ h3⟩
      · right; left; exact ⟨h2, h1, Or.inl h3⟩
      · right; left; exact ⟨h2, h1, Or.inr h3⟩
      · right; right; exact h
    · rintro (⟨s, t, h1, h2, h3⟩ | ⟨h1, h2, h3 | h3⟩ | h)
      · left; left; left; right
        obtain ⟨x', y', hx, hy⟩ := c5 s a t ((tblΔ_iff hwf s a t).2 h1)
        have e1 := SM.find_fun h2 (hle.keep _ _ _ hx)
        have e2 := SM.find_fun h3 (hle.keep _ _ _ hy)
        subst e1; subst e2
        exact ⟨s, t, (tblΔ_iff hwf s a t).2 h1, hx, hy⟩
      · left; left; right; exact ⟨h2, h1, h3⟩
      · left; right; exact ⟨h2, h1, h3⟩
      · right; exact h

section lang
variable (δ : Int → Int → Int → Prop) (m : SM) (n : NFA) (gs : Int)
variable (hm : m.Inv 1) (hb : Bound m 0 n) (hgs : m.find 0 n.start = some gs)
variable (hδ : ∀ x a y, δ x a y ↔
        (∃ s t, n.Δ s a t ∧ m.find 0 s = some x ∧ m.find 0 t = some y) ∨
        (a = E ∧ x = 0 ∧ (y = gs ∨ y = 1)) ∨
        (a = E ∧ (y = gs ∨ y = 1) ∧ ∃ f ∈ n.final, m.find 0 f = some x))

include hm hb hgs hδ

theorem star_embed_path {s t : Int} {w : Word} (h : Path n.Δ s w t) {x : Int} (hx : m.find 0 s = some x) :
    ∃ y, m.find 0 t = some y ∧ Steps δ x w y := by
  have h' := Steps.of_path h
  clear h
  induction h' generalizing x with
  | nil => exact ⟨x, hx, Steps.nil _⟩
  | eps hd _ ih =>
    obtain ⟨_, ⟨z, hz⟩⟩ := hb.edge _ _ _ hd
    obtain ⟨y, hy, hs⟩ := ih hz
    exact ⟨y, hy, Steps.eps ((hδ _ _ _).2 (Or.inl ⟨_, _, hd, hx, hz⟩)) hs⟩
  | sym hd _ ih =>
    obtain ⟨_, ⟨z, hz⟩⟩ := hb.edge _ _ _ hd
    obtain ⟨y, hy, hs⟩ := ih hz
    exact ⟨y, hy, Steps.sym ((hδ _ _ _).2 (Or.inl ⟨_, _, hd, hx, hz⟩)) hs⟩

theorem star_from_one {w : Word} {y : Int} (h : Steps δ 1 w y) : w = [] ∧ y = 1 := by
  generalize hone : (1 : Int) = one at h
  cases h with
  | nil => refine ⟨rfl, ?_⟩; omega
  | eps hd _ =>
    subst hone
    rw [hδ] at hd
    rcases hd with ⟨s, t, _, h2, _⟩ | ⟨_, h2, _⟩ | ⟨_, _, f, _, h4⟩
    · have := (SM.find_range hm h2).1; omega
    · omega
    · have := (SM.find_range hm h4).1; omega
  | sym hd _ =>
    subst hone
    rw [hδ] at hd
    rcases hd with ⟨s, t, _, h2, _⟩ | ⟨_, h2, _⟩ | ⟨_, _, f, _, h4⟩
    · have := (SM.find_range hm h2).1; omega
    · omega
    · have := (SM.find_range hm h4).1; omega

/-- from a copied state to state 1: a word of `L(n)` from that state, followed by a word of `L(n)*` -/
theorem star_from_copy {x : Int} {w : Word} (h : Steps δ x w 1) (hE : E ∉ w) :
    ∀ s, m.find 0 s = some x → ∃ u v, w = u ++ v ∧ (∃ f ∈ n.final, Path n.Δ s u f) ∧ Lang.star n.lang v := by
  generalize hone : (1 : Int) = one at h
  induction h with
  | nil =>
    intro s hs; subst hone
    have := (SM.find_range hm hs).1; omega
  | eps hd hrest ih =>
    intro s hs
    have hd' := hd
    rw [hδ] at hd'
    rcases hd' with ⟨s', t, h1, h2, h3⟩ | ⟨_, h2, _⟩ | ⟨_, h2, f, h3, h4⟩
    · obtain ⟨_, rfl⟩ := SM.inj hm h2 hs
      obtain ⟨u, v, e, ⟨f, hf, hp⟩, hst⟩ := ih hE hone t h3
      exact ⟨u, v, e, ⟨f, hf, Path.prepend_eps (by rw [← E_eq]; exact h1) hp⟩, hst⟩
    · have := (SM.find_range hm hs).1; omega
    · obtain ⟨_, rfl⟩ := SM.inj hm h4 hs
      rcases h2 with rfl | rfl
      · obtain ⟨u, v, e, ⟨f', hf', hp⟩, hst⟩ := ih hE hone n.start hgs
        refine ⟨[], _, rfl, ⟨f, h3, Path.eps (EReach.refl _)⟩, ?_⟩
        rw [e]
        exact Lang.star.app ⟨f', hf', hp⟩ hst
      · subst hone
        obtain ⟨rfl, _⟩ := star_from_one δ m n gs hm hb hgs hδ hrest
        exact ⟨[], [], rfl, ⟨f, h3, Path.eps (EReach.refl _)⟩, Lang.star.nil⟩
  | @sym x0 x1 y0 a w' hd _ ih =>
    intro s hs
    simp at hE
    rw [hδ] at hd
    rcases hd with ⟨s', t, h1, h2, h3⟩ | ⟨h1, _, _⟩ | ⟨h1, _, _⟩
    · obtain ⟨_, rfl⟩ := SM.inj hm h2 hs
      obtain ⟨u, v, e, ⟨f, hf, hp⟩, hst⟩ := ih hE.2 hone t h3
      exact ⟨a :: u, v, by rw [e]; rfl, ⟨f, hf, Path.cons (EReach.refl _) h1 hp⟩, hst⟩
    · exact absurd h1.symm hE.1
    · exact absurd h1.symm hE.1

theorem star_lang_abstract (w : Word) (hE : E ∉ w) :
    nfaLang δ 0 (fun f => f ∈ [(1 : Int)]) w ↔ Lang.star n.lang w := by
  have h0gs : δ 0 Spec.eps gs := (hδ _ _ _).2 (Or.inr (Or.inl ⟨E_eq.symm, rfl, Or.inl rfl⟩))
  have h01 : δ 0 Spec.eps 1 := (hδ _ _ _).2 (Or.inr (Or.inl ⟨E_eq.symm, rfl, Or.inr rfl⟩))
  constructor
  · rintro ⟨f, hf, hp⟩
    simp at hf; subst hf
    have hs := Steps.of_path hp
    generalize hz : (0 : Int) = z at hs
    cases hs with
    | nil => omega
    | eps hd hrest =>
      subst hz
      rw [hδ] at hd
      rcases hd with ⟨s, t, _, h2, _⟩ | ⟨_, _, h3⟩ | ⟨_, _, f, _, h4⟩
      · have := (SM.find_range hm h2).1; omega
      · rcases h3 with rfl | rfl
        · obtain ⟨u, v, e, ⟨f, hf, hp'⟩, hst⟩ := star_from_copy δ m n _ hm hb hgs hδ hrest hE n.start hgs
          rw [e]; exact Lang.star.app ⟨f, hf, hp'⟩ hst
        · obtain ⟨rfl, _⟩ := star_from_one δ m n gs hm hb hgs hδ hrest
          exact Lang.star.nil
      · have := (SM.find_range hm h4).1; omega
    | sym hd _ =>
      subst hz
      simp at hE
      rw [hδ] at hd
      rcases hd with ⟨s, t, _, h2, _⟩ | ⟨h1, _, _⟩ | ⟨h1, _, _⟩
      · have := (SM.find_range hm h2).1; omega
      · exact absurd h1.symm hE.1
      · exact absurd h1.symm hE.1
  · intro hst
    -- a non-empty iteration gives steps from the copy of the start state to state 1
    have key : Steps δ gs w 1 ∨ w = [] := by
      induction hst with
      | nil => right; rfl
      | @app u v hu _ ih =>
        obtain ⟨f, hf, hp⟩ := hu
        obtain ⟨y, hy, hs⟩ := star_embed_path δ m n gs hm hb hgs hδ hp hgs
        left
        have hE' : E ∉ v := fun h => hE (by simp [h])
        rcases ih hE' with h | rfl
        · have hyg : δ y Spec.eps gs := (hδ _ _ _).2 (Or.inr (Or.inr ⟨E_eq.symm, Or.inl rfl, f, hf, hy⟩))
          exact Steps.append hs (Steps.eps hyg h)
        · have hy1 : δ y Spec.eps 1 := (hδ _ _ _).2 (Or.inr (Or.inr ⟨E_eq.symm, Or.inr rfl, f, hf, hy⟩))
          simpa using Steps.append hs (Steps.eps hy1 (Steps.nil _))
    refine ⟨1, by simp, ?_⟩
    rcases key with h | rfl
    · exact Steps.to_path (Steps.eps h0gs h)
    · exact Steps.to_path (Steps.eps h01 (Steps.nil _))

end lang

/-- `Star` accepts exactly the Kleene closure (words over non-ε symbols) -/
theorem NFA.star_lang (n : NFA) (hwf : n.WF) (w : Word) (hE : E ∉ w) :
    n.star.lang w ↔ Lang.star n.lang w := by
  obtain ⟨m, gs, hm, hb, hgs, hst, hfin, hδ⟩ := n.star_struct hwf
  simp only [NFA.lang, hst, hfin]
  exact star_lang_abstract _ m n gs hm hb hgs hδ w hE

end AlgoVerif.C13
