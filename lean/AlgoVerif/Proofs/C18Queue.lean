import AlgoVerif.Proofs.C18Core
/-!
# C18 — the block-chain queue refines a list

Invariant (DESIGN.md Appendix B, "Queue").  `nodes` is the chain `frontNode … rearNode`; every block
has `nodeSize` cells.  Writing `cells` for the concatenation of the blocks, the live cells are
`cells[frontIndex … stop)` where `stop` = all cells minus the unused tail of the rear block
(`nodeSize - 1 - rearIndex` cells).  `frontNode = nil` (no blocks) happens exactly when every allocated
cell has been consumed; the next `Enqueue` then starts a fresh block *and resets `rearIndex`*
(the fix of defect D22).
-/
namespace AlgoVerif.C18
variable {α : Type}

/-- all cells of the chain `frontNode … rearNode`, in order -/
def Queue.cells (q : Queue α) : List α := q.nodes.flatMap Array.toList

/-- number of cells up to and including `rearNode.block[rearIndex]` -/
def Queue.stop (q : Queue α) : Nat := q.cells.length + (q.rearIndex + 1).toNat - q.nodeSize

/-- abstraction function: the live cells, front of the queue first -/
def Queue.abs (q : Queue α) : List α := (q.cells.take q.stop).drop q.frontIndex.toNat

structure Queue.Inv (q : Queue α) : Prop where
  pos : 1 ≤ q.nodeSize
  blocks : ∀ b ∈ q.nodes, b.size = q.nodeSize
  idx : q.nodes ≠ [] →
    0 ≤ q.frontIndex ∧ q.frontIndex < q.nodeSize ∧ 0 ≤ q.rearIndex ∧ q.rearIndex < q.nodeSize
  front_le : q.nodes ≠ [] → q.frontIndex.toNat ≤ q.stop
  size : q.listSize = (Queue.abs q).length

theorem Queue.new_inv (B : Nat) (hB : 1 ≤ B) : (Queue.new B : Queue α).Inv := by
  constructor <;> simp [Queue.new, Queue.abs, Queue.cells, hB]

theorem Queue.new_abs (B : Nat) : (Queue.new B : Queue α).abs = [] := by
  simp [Queue.new, Queue.abs, Queue.cells]

theorem setLast_ok (pre : List (Array α)) (b : Array α) (i : Int) (v : α) (h0 : 0 ≤ i)
    (h1 : i.toNat < b.size) : setLast (pre ++ [b]) i v = .ok (pre ++ [b.set! i.toNat v]) := by
  simp [setLast, h0, h1]

theorem take_append_set (P bl : List α) (k : Nat) (v : α) (hk : k < bl.length) :
    (P ++ bl.set k v).take (P.length + k + 1) = (P ++ bl).take (P.length + k) ++ [v] := by
  rw [Nat.add_assoc, List.take_length_add_append, List.take_length_add_append, take_set_succ _ _ _ hk,
    List.append_assoc]

theorem Queue.enqueue_spec (zero : α) (q : Queue α) (v : α) (h : q.Inv) :
    ∃ q', q.enqueue zero v = .ok q' ∧ q'.Inv ∧ q'.abs = q.abs ++ [v] := by
  obtain ⟨hpos, hbl, hidx, hfl, hsz⟩ := h
  have h1 := newBlock_toList zero q.nodeSize hpos
  by_cases hn : q.nodes = []
  · have habs : q.abs = [] := by simp [Queue.abs, Queue.cells, hn]
    have hs : setLast [newBlock zero q.nodeSize] 0 v = .ok [(newBlock zero q.nodeSize).set! 0 v] := by
      simpa using setLast_ok [] (newBlock zero q.nodeSize) 0 v (by omega) (by simp; omega)
    simp only [Queue.enqueue, hn, List.isEmpty_nil, if_true, hs]
    have hstop : Queue.stop (⟨q.nodeSize, q.listSize + 1, 0, 0, [(newBlock zero q.nodeSize).set! 0 v]⟩ : Queue α)
        = 1 := by
      simp [Queue.stop, Queue.cells, h1]; omega
    have habs' : Queue.abs (⟨q.nodeSize, q.listSize + 1, 0, 0, [(newBlock zero q.nodeSize).set! 0 v]⟩ : Queue α)
        = q.abs ++ [v] := by
      rw [habs, Queue.abs, hstop]; simp [Queue.cells, h1]
    refine ⟨_, rfl, ⟨hpos, ?_, ?_, ?_, ?_⟩, habs'⟩
    · simp
    · simp; omega
    · simp
    · rw [habs', habs]; simp [hsz, habs]
  · obtain ⟨pre, b, hpb⟩ : ∃ pre b, q.nodes = pre ++ [b] :=
      ⟨_, _, (List.dropLast_concat_getLast hn).symm⟩
    have hi := hidx hn
    have hf := hfl hn
    have hb : b.size = q.nodeSize := hbl b (by simp [hpb])
    have hcells : q.cells = pre.flatMap Array.toList ++ b.toList := by simp [Queue.cells, hpb]
    have hne : q.nodes.isEmpty = false := by simp [hn]
    by_cases hfull : q.rearIndex + 1 = ↑q.nodeSize
    · have hs : setLast (q.nodes ++ [newBlock zero q.nodeSize]) 0 v
          = .ok (q.nodes ++ [(newBlock zero q.nodeSize).set! 0 v]) := by
        simpa using setLast_ok q.nodes (newBlock zero q.nodeSize) 0 v (by omega) (by simp; omega)
      simp only [Queue.enqueue, hne, hfull, Bool.false_eq_true, if_false, if_true, hs]
      have hstop : q.stop = q.cells.length := by simp [Queue.stop, hfull]
      have hstop' : Queue.stop (⟨q.nodeSize, q.listSize + 1, q.frontIndex, 0,
          q.nodes ++ [(newBlock zero q.nodeSize).set! 0 v]⟩ : Queue α) = q.cells.length + 1 := by
        simp [Queue.stop, Queue.cells, h1]; omega
      have habs' : Queue.abs (⟨q.nodeSize, q.listSize + 1, q.frontIndex, 0,
          q.nodes ++ [(newBlock zero q.nodeSize).set! 0 v]⟩ : Queue α) = q.abs ++ [v] := by
        rw [Queue.abs, hstop', Queue.abs, hstop]
        have hc : Queue.cells (⟨q.nodeSize, q.listSize + 1, q.frontIndex, 0,
            q.nodes ++ [(newBlock zero q.nodeSize).set! 0 v]⟩ : Queue α)
            = q.cells ++ (v :: List.replicate (q.nodeSize - 1) zero) := by
          simp [Queue.cells, h1]
        rw [hc, List.take_length_add_append, List.take_length]
        simp only [List.take_succ_cons, List.take_zero]
        rw [List.drop_append_of_le_length (by omega)]
      refine ⟨_, rfl, ⟨hpos, ?_, ?_, ?_, ?_⟩, habs'⟩
      · intro b' hb'
        simp at hb'
        rcases hb' with hb' | rfl
        · exact hbl _ hb'
        · simp
      · simp; omega
      · intro _; rw [hstop']; simp; omega
      · rw [habs']; simp [hsz]
    · have hs : setLast q.nodes (q.rearIndex + 1) v = .ok (pre ++ [b.set! (q.rearIndex + 1).toNat v]) := by
        rw [hpb]; exact setLast_ok pre b _ v (by omega) (by omega)
      simp only [Queue.enqueue, hne, hfull, Bool.false_eq_true, if_false, hs]
      have hstop : q.stop = (pre.flatMap Array.toList).length + (q.rearIndex + 1).toNat := by
        simp [Queue.stop, hcells, hb]; omega
      have hc : Queue.cells (⟨q.nodeSize, q.listSize + 1, q.frontIndex, q.rearIndex + 1,
          pre ++ [b.set! (q.rearIndex + 1).toNat v]⟩ : Queue α)
          = pre.flatMap Array.toList ++ b.toList.set (q.rearIndex + 1).toNat v := by
        simp [Queue.cells]
      have hstop' : Queue.stop (⟨q.nodeSize, q.listSize + 1, q.frontIndex, q.rearIndex + 1,
          pre ++ [b.set! (q.rearIndex + 1).toNat v]⟩ : Queue α)
          = (pre.flatMap Array.toList).length + (q.rearIndex + 1).toNat + 1 := by
        rw [Queue.stop, hc]; simp [hb]; omega
      have habs' : Queue.abs (⟨q.nodeSize, q.listSize + 1, q.frontIndex, q.rearIndex + 1,
          pre ++ [b.set! (q.rearIndex + 1).toNat v]⟩ : Queue α) = q.abs ++ [v] := by
        rw [Queue.abs, hstop', hc, Queue.abs, hstop, hcells,
          take_append_set _ _ _ _ (by simp; omega)]
        rw [List.drop_append_of_le_length]
        simp only [List.length_take, List.length_append, Array.length_toList]
        omega
      refine ⟨_, rfl, ⟨hpos, ?_, ?_, ?_, ?_⟩, habs'⟩
      · intro b' hb'
        simp at hb'
        rcases hb' with hb' | rfl
        · exact hbl _ (by simp [hpb, hb'])
        · simp [hb]
      · simp; omega
      · intro _; rw [hstop']; show q.frontIndex.toNat ≤ _; omega
      · rw [habs']; simp [hsz]

end AlgoVerif.C18
