import AlgoVerif.Proofs.C18Core
/-!
# C18 — the block-chain queue refines a list

Invariant (DESIGN.md Appendix B, "Queue").  `nodes` is the chain `frontNode … rearNode`; every block
has `nodeSize` cells.  Writing `cells` for the concatenation of the blocks, the live cells are
`cells[frontIndex … stop)` where `stop` = all cells minus the unused tail of the rear block
(`nodeSize - 1 - rearIndex` cells).  `frontNode = nil` (no blocks) happens exactly when every allocated
cell has been consumed; the next `Enqueue` then starts a fresh block *and resets `rearIndex`*
(the fix of defect D22).
-/
namespace AlgoVerif.C18
variable {α : Type}

/-- all cells of the chain `frontNode … rearNode`, in order -/
def Queue.cells (q : Queue α) : List α := q.nodes.flatMap Array.toList

/-- number of cells up to and including `rearNode.block[rearIndex]` -/
def Queue.stop (q : Queue α) : Nat := q.cells.length + (q.rearIndex + 1).toNat - q.nodeSize

/-- abstraction function: the live cells, front of the queue first -/
def Queue.abs (q : Queue α) : List α := (q.cells.take q.stop).drop q.frontIndex.toNat

structure Queue.Inv (q : Queue α) : Prop where
  pos : 1 ≤ q.nodeSize
  blocks : ∀ b ∈ q.nodes, b.size = q.nodeSize
  idx : q.nodes ≠ [] →
    0 ≤ q.frontIndex ∧ q.frontIndex < q.nodeSize ∧ 0 ≤ q.rearIndex ∧ q.rearIndex < q.nodeSize
  front_le : q.nodes ≠ [] → q.frontIndex.toNat ≤ q.stop
  size : q.listSize = (Queue.abs q).length

theorem Queue.new_inv (B : Nat) (hB : 1 ≤ B) : (Queue.new B : Queue α).Inv := by
  constructor <;> simp [Queue.new, Queue.abs, Queue.cells, hB]

theorem Queue.new_abs (B : Nat) : (Queue.new B : Queue α).abs = [] := by
  simp [Queue.new, Queue.abs, Queue.cells]

theorem setLast_ok (pre : List (Array α)) (b : Array α) (i : Int) (v : α) (h0 : 0 ≤ i)
    (h1 : i.toNat < b.size) : setLast (pre ++ [b]) i v = .ok (pre ++ [b.set! i.toNat v]) := by
  simp [setLast, h0, h1]

theorem take_append_set (P bl : List α) (k : Nat) (v : α) (hk : k < bl.length) :
    (P ++ bl.set k v).take (P.length + k + 1) = (P ++ bl).take (P.length + k) ++ [v] := by
  rw [Nat.add_assoc, List.take_length_add_append, List.take_length_add_append, take_set_succ _ _ _ hk,
    List.append_assoc]

end AlgoVerif.C18
