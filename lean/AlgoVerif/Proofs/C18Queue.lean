import AlgoVerif.Proofs.C18Core
/-!
# C18 — the block-chain queue refines a list

Invariant (DESIGN.md Appendix B, "Queue").  `nodes` is the chain `frontNode … rearNode`; every block
has `nodeSize` cells.  Writing `cells` for the concatenation of the blocks, the live cells are
`cells[frontIndex … stop)` where `stop` = all cells minus the unused tail of the rear block
(`nodeSize - 1 - rearIndex` cells).  `frontNode = nil` (no blocks) happens exactly when every allocated
cell has been consumed; the next `Enqueue` then starts a fresh block *and resets `rearIndex`*
(the fix of defect D22).
-/
namespace AlgoVerif.C18
variable {α : Type}

/-- all cells of the chain `frontNode … rearNode`, in order -/
def Queue.cells (q : Queue α) : List α := q.nodes.flatMap Array.toList

/-- number of cells up to and including `rearNode.block[rearIndex]` -/
def Queue.stop (q : Queue α) : Nat := q.cells.length + (q.rearIndex + 1).toNat - q.nodeSize

/-- abstraction function: the live cells, front of the queue first -/
def Queue.abs (q : Queue α) : List α := (q.cells.take q.stop).drop q.frontIndex.toNat

structure Queue.Inv (q : Queue α) : Prop where
  pos : 1 ≤ q.nodeSize
  blocks : ∀ b ∈ q.nodes, b.size = q.nodeSize
  idx : q.nodes ≠ [] →
    0 ≤ q.frontIndex ∧ q.frontIndex < q.nodeSize ∧ 0 ≤ q.rearIndex ∧ q.rearIndex < q.nodeSize
  front_le : q.nodes ≠ [] → q.frontIndex.toNat ≤ q.stop
  size : q.listSize = (Queue.abs q).length

theorem Queue.new_inv (B : Nat) (hB : 1 ≤ B) : (Queue.new B : Queue α).Inv := by
  constructor <;> simp [Queue.new, Queue.abs, Queue.cells, hB]

theorem Queue.new_abs (B : Nat) : (Queue.new B : Queue α).abs = [] := by
  simp [Queue.new, Queue.abs, Queue.cells]

theorem setLast_ok (pre : List (Array α)) (b : Array α) (i : Int) (v : α) (h0 : 0 ≤ i)
    (h1 : i.toNat < b.size) : setLast (pre ++ [b]) i v = .ok (pre ++ [b.set! i.toNat v]) := by
  simp [setLast, h0, h1]

theorem take_append_set (P bl : List α) (k : Nat) (v : α) (hk : k < bl.length) :
    (P ++ bl.set k v).take (P.length + k + 1) = (P ++ bl).take (P.length + k) ++ [v] := by
  rw [Nat.add_assoc, List.take_length_add_append, List.take_length_add_append, take_set_succ _ _ _ hk,
    List.append_assoc]

theorem Queue.enqueue_spec (zero : α) (q : Queue α) (v : α) (h : q.Inv) :
    ∃ q', q.enqueue zero v = .ok q' ∧ q'.Inv ∧ q'.abs = q.abs ++ [v] := by
  obtain ⟨hpos, hbl, hidx, hfl, hsz⟩ := h
  have h1 := newBlock_toList zero q.nodeSize hpos
  by_cases hn : q.nodes = []
  · have habs : q.abs = [] := by simp [Queue.abs, Queue.cells, hn]
    have hs : setLast [newBlock zero q.nodeSize] 0 v = .ok [(newBlock zero q.nodeSize).set! 0 v] := by
      simpa using setLast_ok [] (newBlock zero q.nodeSize) 0 v (by omega) (by simp; omega)
    simp only [Queue.enqueue, hn, List.isEmpty_nil, if_true, hs]
    have hstop : Queue.stop (⟨q.nodeSize, q.listSize + 1, 0, 0, [(newBlock zero q.nodeSize).set! 0 v]⟩ : Queue α)
        = 1 := by
      simp [Queue.stop, Queue.cells, h1]; omega
    have habs' : Queue.abs (⟨q.nodeSize, q.listSize + 1, 0, 0, [(newBlock zero q.nodeSize).set! 0 v]⟩ : Queue α)
        = q.abs ++ [v] := by
      rw [habs, Queue.abs, hstop]; simp [Queue.cells, h1]
    refine ⟨_, rfl, ⟨hpos, ?_, ?_, ?_, ?_⟩, habs'⟩
    · simp
    · simp; omega
    · simp
    · rw [habs', habs]; simp [hsz, habs]
  · obtain ⟨pre, b, hpb⟩ : ∃ pre b, q.nodes = pre ++ [b] :=
      ⟨_, _, (List.dropLast_concat_getLast hn).symm⟩
    have hi := hidx hn
    have hf := hfl hn
    have hb : b.size = q.nodeSize := hbl b (by simp [hpb])
    have hcells : q.cells = pre.flatMap Array.toList ++ b.toList := by simp [Queue.cells, hpb]
    have hne : q.nodes.isEmpty = false := by simp [hn]
    by_cases hfull : q.rearIndex + 1 = ↑q.nodeSize
    · have hs : setLast (q.nodes ++ [newBlock zero q.nodeSize]) 0 v
          = .ok (q.nodes ++ [(newBlock zero q.nodeSize).set! 0 v]) := by
        simpa using setLast_ok q.nodes (newBlock zero q.nodeSize) 0 v (by omega) (by simp; omega)
      simp only [Queue.enqueue, hne, hfull, Bool.false_eq_true, if_false, if_true, hs]
      have hstop : q.stop = q.cells.length := by simp [Queue.stop, hfull]
      have hstop' : Queue.stop (⟨q.nodeSize, q.listSize + 1, q.frontIndex, 0,
          q.nodes ++ [(newBlock zero q.nodeSize).set! 0 v]⟩ : Queue α) = q.cells.length + 1 := by
        simp [Queue.stop, Queue.cells, h1]; omega
      have habs' : Queue.abs (⟨q.nodeSize, q.listSize + 1, q.frontIndex, 0,
          q.nodes ++ [(newBlock zero q.nodeSize).set! 0 v]⟩ : Queue α) = q.abs ++ [v] := by
        rw [Queue.abs, hstop', Queue.abs, hstop]
        have hc : Queue.cells (⟨q.nodeSize, q.listSize + 1, q.frontIndex, 0,
            q.nodes ++ [(newBlock zero q.nodeSize).set! 0 v]⟩ : Queue α)
            = q.cells ++ (v :: List.replicate (q.nodeSize - 1) zero) := by
          simp [Queue.cells, h1]
        rw [hc, List.take_length_add_append, List.take_length]
        simp only [List.take_succ_cons, List.take_zero]
        rw [List.drop_append_of_le_length (by omega)]
      refine ⟨_, rfl, ⟨hpos, ?_, ?_, ?_, ?_⟩, habs'⟩
      · intro b' hb'
        simp at hb'
        rcases hb' with hb' | rfl
        · exact hbl _ hb'
        · simp
      · simp; omega
      · intro _; rw [hstop']; simp; omega
      · rw [habs']; simp [hsz]
    · have hs : setLast q.nodes (q.rearIndex + 1) v = .ok (pre ++ [b.set! (q.rearIndex + 1).toNat v]) := by
        rw [hpb]; exact setLast_ok pre b _ v (by omega) (by omega)
      simp only [Queue.enqueue, hne, hfull, Bool.false_eq_true, if_false, hs]
      have hstop : q.stop = (pre.flatMap Array.toList).length + (q.rearIndex + 1).toNat := by
        simp [Queue.stop, hcells, hb]; omega
      have hc : Queue.cells (⟨q.nodeSize, q.listSize + 1, q.frontIndex, q.rearIndex + 1,
          pre ++ [b.set! (q.rearIndex + 1).toNat v]⟩ : Queue α)
          = pre.flatMap Array.toList ++ b.toList.set (q.rearIndex + 1).toNat v := by
        simp [Queue.cells]
      have hstop' : Queue.stop (⟨q.nodeSize, q.listSize + 1, q.frontIndex, q.rearIndex + 1,
          pre ++ [b.set! (q.rearIndex + 1).toNat v]⟩ : Queue α)
          = (pre.flatMap Array.toList).length + (q.rearIndex + 1).toNat + 1 := by
        rw [Queue.stop, hc]; simp [hb]; omega
      have habs' : Queue.abs (⟨q.nodeSize, q.listSize + 1, q.frontIndex, q.rearIndex + 1,
          pre ++ [b.set! (q.rearIndex + 1).toNat v]⟩ : Queue α) = q.abs ++ [v] := by
        rw [Queue.abs, hstop', hc, Queue.abs, hstop, hcells,
          take_append_set _ _ _ _ (by simp; omega)]
        rw [List.drop_append_of_le_length]
        simp only [List.length_take, List.length_append, Array.length_toList]
        omega
      refine ⟨_, rfl, ⟨hpos, ?_, ?_, ?_, ?_⟩, habs'⟩
      · intro b' hb'
        simp at hb'
        rcases hb' with hb' | rfl
        · exact hbl _ (by simp [hpb, hb'])
        · simp [hb]
      · simp; omega
      · intro _; rw [hstop']; show q.frontIndex.toNat ≤ _; omega
      · rw [habs']; simp [hsz]

theorem Queue.front_facts (q : Queue α) (h : q.Inv) (b : Array α) (rest : List (Array α))
    (hn : q.nodes = b :: rest) (hne : q.listSize ≠ 0) :
    ∃ x, q.frontCell = .ok x ∧
      q.abs = x :: (q.cells.take q.stop).drop (q.frontIndex.toNat + 1) ∧
      q.frontIndex.toNat < q.stop ∧ q.stop ≤ q.cells.length := by
  obtain ⟨hpos, hbl, hidx, hfl, hsz⟩ := h
  have hi := hidx (by simp [hn])
  have hb : b.size = q.nodeSize := hbl b (by simp [hn])
  have hcells : q.cells = b.toList ++ rest.flatMap Array.toList := by simp [Queue.cells, hn]
  have hstop : q.stop ≤ q.cells.length := by simp [Queue.stop]; omega
  have hlen : q.abs.length = q.stop - q.frontIndex.toNat := by
    simp [Queue.abs]; omega
  have hlt : q.frontIndex.toNat < q.stop := by omega
  have hfb : q.frontIndex.toNat < b.size := by omega
  refine ⟨b[q.frontIndex.toNat], ?_, ?_, hlt, hstop⟩
  · simp [Queue.frontCell, hn, hi.1, hfb]
  · rw [Queue.abs, List.drop_eq_getElem_cons (by simp; omega)]
    congr 1
    simp [hcells, List.getElem_append_left, hfb]

theorem Queue.abs_nil_of_nodes (q : Queue α) (hn : q.nodes = []) : q.abs = [] := by
  simp [Queue.abs, Queue.cells, hn]

theorem Queue.dequeue_spec (q : Queue α) (h : q.Inv) :
    ∃ q', q.dequeue = .ok (q', (Spec.Q.dequeue q.abs).2) ∧ q'.Inv ∧ q'.abs = (Spec.Q.dequeue q.abs).1 := by
  by_cases h0 : q.listSize = 0
  · have habs : q.abs = [] := by
      have := h.size; rw [h0] at this
      exact List.eq_nil_of_length_eq_zero (by omega)
    exact ⟨q, by simp [Queue.dequeue, h0, habs, Spec.Q.dequeue], h, by simp [habs, Spec.Q.dequeue]⟩
  · cases hn : q.nodes with
    | nil =>
      have := h.size; rw [Queue.abs_nil_of_nodes q hn] at this; simp at this; omega
    | cons b rest =>
      obtain ⟨x, hcell, habs, hlt, hstop⟩ := Queue.front_facts q h b rest hn h0
      obtain ⟨hpos, hbl, hidx, hfl, hsz⟩ := h
      have hi := hidx (by simp [hn])
      have hb : b.size = q.nodeSize := hbl b (by simp [hn])
      have hcells : q.cells = b.toList ++ rest.flatMap Array.toList := by simp [Queue.cells, hn]
      simp only [Queue.dequeue, h0, if_false, hcell, habs, Spec.Q.dequeue]
      by_cases hfull : q.frontIndex + 1 = ↑q.nodeSize
      · simp only [hfull, if_true, hn, List.tail_cons]
        have hc' : Queue.cells (⟨q.nodeSize, q.listSize - 1, 0, q.rearIndex, rest⟩ : Queue α)
            = q.cells.drop q.nodeSize := by
          rw [hcells]; simp [Queue.cells, hb]
        have hstop' : Queue.stop (⟨q.nodeSize, q.listSize - 1, 0, q.rearIndex, rest⟩ : Queue α)
            = q.stop - q.nodeSize := by
          rw [Queue.stop, hc']; simp [Queue.stop, hcells, hb]; omega
        have habs' : Queue.abs (⟨q.nodeSize, q.listSize - 1, 0, q.rearIndex, rest⟩ : Queue α)
            = (q.cells.take q.stop).drop (q.frontIndex.toNat + 1) := by
          have : q.frontIndex.toNat + 1 = q.nodeSize := by omega
          rw [Queue.abs, hstop', hc', this]
          show List.take (q.stop - q.nodeSize) (List.drop q.nodeSize q.cells) = _
          rw [List.drop_take]
        refine ⟨_, rfl, ⟨hpos, ?_, ?_, ?_, ?_⟩, habs'⟩
        · intro b' hb'; exact hbl b' (by rw [hn]; exact List.mem_cons_of_mem _ hb')
        · intro _; simp; omega
        · intro _; simp
        · rw [habs']; rw [hsz, habs]; simp
      · simp only [hfull, if_false]
        have habs' : Queue.abs (⟨q.nodeSize, q.listSize - 1, q.frontIndex + 1, q.rearIndex, q.nodes⟩ : Queue α)
            = (q.cells.take q.stop).drop (q.frontIndex.toNat + 1) := by
          have : (q.frontIndex + 1).toNat = q.frontIndex.toNat + 1 := by omega
          simp [Queue.abs, Queue.stop, Queue.cells, this]
        refine ⟨_, rfl, ⟨hpos, hbl, ?_, ?_, ?_⟩, habs'⟩
        · intro _; simp; omega
        · intro _; show (q.frontIndex + 1).toNat ≤ q.stop; omega
        · rw [habs']; rw [hsz, habs]; simp

theorem Queue.peek_spec (q : Queue α) (h : q.Inv) : q.peek = .ok (Spec.Q.peek q.abs) := by
  by_cases h0 : q.listSize = 0
  · have habs : q.abs = [] := by
      have := h.size; rw [h0] at this
      exact List.eq_nil_of_length_eq_zero (by omega)
    simp [Queue.peek, h0, habs, Spec.Q.peek]
  · cases hn : q.nodes with
    | nil =>
      have := h.size; rw [Queue.abs_nil_of_nodes q hn] at this; simp at this; omega
    | cons b rest =>
      obtain ⟨x, hcell, habs, _, _⟩ := Queue.front_facts q h b rest hn h0
      simp [Queue.peek, h0, hcell, habs, Spec.Q.peek, Outcome.map]

theorem Queue.containsLoop_spec (eq : α → α → Bool) (B : Nat) (r : Int) (hr0 : 0 ≤ r) (hrB : r < B) (v : α) :
    ∀ (fuel : Nat) (b : Array α) (rest : List (Array α)) (i : Int),
      b.size = B → (∀ b' ∈ rest, b'.size = B) → 0 ≤ i → i < B →
      (b.toList ++ rest.flatMap Array.toList).length + 2 ≤ fuel + i.toNat →
      Queue.containsLoop eq B r v fuel (b :: rest) i =
        .ok ((((b.toList ++ rest.flatMap Array.toList).take
          ((b.toList ++ rest.flatMap Array.toList).length + (r + 1).toNat - B)).drop i.toNat).any
            (fun x => eq x v)) := by
  intro fuel
  induction fuel with
  | zero => intro b rest i hb _ _ _ hf; simp at hf; omega
  | succ fuel ih =>
    intro b rest i hb hrest h0 hlt hf
    have hsz : i.toNat < b.size := by omega
    rw [Queue.containsLoop]
    by_cases hexit : rest.isEmpty = true ∧ ¬ (i ≤ r)
    · have hr : rest = [] := by simpa using hexit.1
      simp only [hexit]
      subst hr
      have : List.drop i.toNat (List.take (b.size + (r + 1).toNat - B) b.toList) = [] := by
        apply List.drop_eq_nil_of_le; simp; omega
      simp [this]
    · simp only [hexit, if_false, h0, hsz, and_self, if_true]
      obtain ⟨x, hget, hxl⟩ : ∃ x, b[i.toNat]? = some x ∧
          (b.toList ++ rest.flatMap Array.toList)[i.toNat]'(by simp; omega) = x :=
        ⟨b[i.toNat], by simp [hsz], by simp [List.getElem_append_left, hsz]⟩
      simp only [hget]
      cases hr : rest with
      | nil =>
        subst hr
        have hir : i ≤ r := by simpa using hexit
        simp only [List.flatMap_nil, List.append_nil, Array.length_toList] at hxl ⊢
        rw [List.drop_eq_getElem_cons (by simp; omega)]
        simp only [List.getElem_take, hxl, List.any_cons]
        by_cases he : eq x v = true
        · simp [he]
        · simp only [he]
          by_cases hnext : i + 1 = ↑B
          · simp only [hnext, if_true]
            have : List.drop (i.toNat + 1) (List.take (b.size + (r + 1).toNat - B) b.toList) = [] := by
              apply List.drop_eq_nil_of_le; simp; omega
            cases fuel with
            | zero => simp at hf; omega
            | succ f => simp [Queue.containsLoop, this]
          · simp only [hnext, if_false]
            rw [ih b [] (i + 1) hb (by simp) (by omega) (by omega) (by simp at hf ⊢; omega)]
            have h4 : (i + 1).toNat = i.toNat + 1 := by omega
            simp [h4]
      | cons b2 rest2 =>
        subst hr
        have hb2 : b2.size = B := hrest b2 (by simp)
        have hrest2 : ∀ b' ∈ rest2, b'.size = B := fun b' hb' => hrest b' (by simp [hb'])
        rw [List.drop_eq_getElem_cons (by simp; omega)]
        simp only [List.getElem_take, hxl, List.any_cons]
        by_cases he : eq x v = true
        · simp [he]
        · simp only [he]
          by_cases hnext : i + 1 = ↑B
          · simp only [hnext, if_true]
            rw [ih b2 rest2 0 hb2 hrest2 (by omega) (by omega) (by simp at hf ⊢; omega)]
            have h4 : i.toNat + 1 = B := by omega
            have hd : List.drop B (b.toList ++ (b2 :: rest2).flatMap Array.toList)
                = b2.toList ++ rest2.flatMap Array.toList := by
              rw [List.drop_left' (by simp [hb])]; simp
            simp only [Int.toNat_zero, List.drop_zero]
            rw [h4, List.drop_take, hd]

            simp [hb, hb2]; congr 2; omega
          · simp only [hnext, if_false]
            rw [ih b (b2 :: rest2) (i + 1) hb hrest (by omega) (by omega) (by simp at hf ⊢; omega)]
            have h4 : (i + 1).toNat = i.toNat + 1 := by omega
            simp [h4]

theorem flat_length (B : Nat) (nodes : List (Array α)) (h : ∀ b ∈ nodes, b.size = B) :
    (nodes.flatMap Array.toList).length = nodes.length * B := by
  induction nodes with
  | nil => simp
  | cons b rest ih =>
    rw [List.flatMap_cons, List.length_append, ih (fun b' hb' => h b' (by simp [hb'])), List.length_cons,
      Nat.succ_mul]
    simp [h b (by simp)]
    omega

theorem Queue.contains_spec (eq : α → α → Bool) (q : Queue α) (v : α) (h : q.Inv) :
    q.contains eq v = .ok (Spec.Q.contains eq q.abs v) := by
  cases hn : q.nodes with
  | nil =>
    simp [Queue.contains, hn, Queue.abs_nil_of_nodes q hn, Spec.Q.contains, Queue.containsLoop]
  | cons b rest =>
    obtain ⟨hpos, hbl, hidx, hfl, hsz⟩ := h
    have hi := hidx (by simp [hn])
    have hb : b.size = q.nodeSize := hbl b (by simp [hn])
    have hrest : ∀ b' ∈ rest, b'.size = q.nodeSize := fun b' hb' => hbl b' (by simp [hn, hb'])
    have hlen := flat_length q.nodeSize rest hrest
    simp only [Queue.contains, hn]
    rw [Queue.containsLoop_spec eq q.nodeSize q.rearIndex hi.2.2.1 hi.2.2.2 v _ b rest q.frontIndex hb hrest
      hi.1 hi.2.1]
    · simp [Queue.abs, Queue.stop, Queue.cells, hn, Spec.Q.contains]
    · rw [List.length_append, hlen]
      simp only [List.length_cons, Nat.add_mul, Nat.mul_add, Array.length_toList, hb]
      omega

/-- the simulation relation: the invariant holds and the live cells are the Spec's list -/
def Queue.Rel (q : Queue α) (l : Spec.Q α) : Prop := q.Inv ∧ q.abs = l

theorem Queue.step_refines (zero : α) (eq : α → α → Bool) (q : Queue α) (l : Spec.Q α) (op : Op α)
    (h : Queue.Rel q l) :
    ∃ q', Queue.step zero eq q op = .ok (q', (Spec.Q.step eq l op).2) ∧
      Queue.Rel q' (Spec.Q.step eq l op).1 := by
  obtain ⟨hinv, rfl⟩ := h
  cases op with
  | add v =>
    obtain ⟨q', h1, h2, h3⟩ := Queue.enqueue_spec zero q v hinv
    exact ⟨q', by simp [Queue.step, h1, Outcome.map, Spec.Q.step], h2, by simp [Spec.Q.step, Spec.Q.enqueue, h3]⟩
  | remove =>
    obtain ⟨q', h1, h2, h3⟩ := Queue.dequeue_spec q hinv
    exact ⟨q', by simp [Queue.step, h1, Outcome.map, Spec.Q.step], h2, by simp [Spec.Q.step, h3]⟩
  | peek =>
    exact ⟨q, by simp [Queue.step, Queue.peek_spec q hinv, Outcome.map, Spec.Q.step], hinv, rfl⟩
  | contains v =>
    exact ⟨q, by simp [Queue.step, Queue.contains_spec eq q v hinv, Outcome.map, Spec.Q.step], hinv, rfl⟩
  | size =>
    exact ⟨q, by simp [Queue.step, Queue.size, hinv.size, Spec.Q.step, Spec.Q.size], hinv, rfl⟩
  | isEmpty =>
    refine ⟨q, ?_, hinv, rfl⟩
    simp [Queue.step, Queue.isEmpty, hinv.size, Spec.Q.step, Spec.Q.isEmpty]
    cases q.abs <;> simp
    omega

theorem Queue.run_refines (zero : α) (eq : α → α → Bool) (B : Nat) (hB : 1 ≤ B) (ops : List (Op α)) :
    Queue.run zero eq (Queue.new B) ops = (Spec.Q.run eq [] ops).map Outcome.ok :=
  runTrace_refines _ _ Queue.Rel (Queue.step_refines zero eq) ops _ _ ⟨Queue.new_inv B hB, Queue.new_abs B⟩

end AlgoVerif.C18
