import AlgoVerif.Generated.C17Gen
import AlgoVerif.Proofs.GoRt
import AlgoVerif.Proofs.C17QF
/-!
# The GENERATED model of `unionfind/unionfind.go` equals the hand-written Model

`Generated/C17Gen.lean` is rewritten from /repo's source by `/verif/extract/go2lean` on every check run
(`bin/pre-C17`).  Here every generated definition is proved equal, for all arguments, to the definition of
`Model/C17.lean` the C17 theorems are about (structures are compared through the field-by-field readings
`qf`, `qu`, `wq`; a method that modifies its receiver returns the new receiver).  The fuel of the
`for p != u.root[p]` loops is a parameter of the generated definitions; the Model fixes it to `len(u.root)`.

The non-loop functions are proved by `outcome_auto` (case analysis on every test and every bound call), so
renaming locals, reordering independent reads or re-nesting tests in the Go source does not break them; the
loops are proved by induction against the closed forms the Model uses (`relabel`, `iota`, `findLoop`).
-/
set_option linter.unusedSimpArgs false
namespace AlgoVerif.C17.Gen
open AlgoVerif AlgoVerif.C17
open AlgoVerif.Generated.UnionFind

/-- the generated structure, read as the hand Model's -/
def qf (u : quickFind) : QuickFind := ⟨u.count, u.id⟩
def qu (u : quickUnion) : QuickUnion := ⟨u.count, u.root⟩
def wq (u : weightedQuickUnion) : Weighted := ⟨u.count, u.root, u.size⟩

@[simp] theorem qf_count (u : quickFind) : (qf u).count = u.count := rfl
@[simp] theorem qf_id (u : quickFind) : (qf u).id = u.id := rfl

/-- the translator's bounds-checked read is the Model's -/
theorem idx_eq (s : Array Int) (i : Int) : Go.idx s i = C17.idx s i := by
  unfold Go.idx C17.idx
  split <;> rename_i h
  · have : i.toNat < s.size := by omega
    simp [h, Array.getD, this]
  · simp [h]

theorem setIdx_eq (s : Array Int) (i v : Int) : Go.setIdx s i v = C17.setIdx s i v := by
  unfold Go.setIdx C17.setIdx
  split <;> rename_i h
  · have : i.toNat < s.size := by omega
    simp [h, Array.setIfInBounds, this]
  · simp [h]

/-- reads and stores never hang: a program that swaps two of them is the same program -/
@[simp] theorem idx_ne_diverge (s : Array Int) (i : Int) : (C17.idx s i = .diverge) = False := by
  unfold C17.idx; split <;> simp

@[simp] theorem setIdx_ne_diverge (s : Array Int) (i v : Int) : (C17.setIdx s i v = .diverge) = False := by
  unfold C17.setIdx; split <;> simp

theorem quickFind_isValid (u : quickFind) (i : Int) : quickFind.isValid u i = (qf u).isValid i := rfl

theorem quickFind_Find (u : quickFind) (p : Int) : quickFind.Find u p = (qf u).find p := by
  simp only [quickFind.Find, QuickFind.find, quickFind_isValid, idx_eq, qf_id]
  outcome_auto

theorem quickFind_IsConnected (u : quickFind) (p q : Int) :
    quickFind.IsConnected u p q = (qf u).isConnected p q := by
  simp only [quickFind.IsConnected, QuickFind.isConnected, quickFind_isValid, quickFind_Find]
  outcome_auto

/-! ### `for i := range u.id { if u.id[i] == pid { u.id[i] = qid } }` -/

theorem getD_lt (a : Array Int) (m : Nat) (h : m < a.size) : a.getD m 0 = a[m] := by
  simp [Array.getD, h]

theorem quickFind_Union_loop (pid qid : Int) : ∀ (k j : Nat) (u : quickFind), j + k = u.id.size →
    ∃ id', quickFind.Union.loop1 pid qid k (j : Int) u = .ok { u with id := id' } ∧ ∃ hs : id'.size = u.id.size,
      ∀ m (hm : m < u.id.size), id'[m] = if j ≤ m ∧ u.id[m] = pid then qid else u.id[m] := by
  intro k
  induction k with
  | zero =>
    intro j u h
    refine ⟨u.id, by simp [quickFind.Union.loop1], rfl, fun m hm => ?_⟩
    have : ¬ j ≤ m := by omega
    simp [this]
  | succ k ih =>
    intro j u h
    have hj : j < u.id.size := by omega
    by_cases hp : u.id[j] = pid
    · obtain ⟨id', e, hs, hg⟩ := ih (j + 1) { u with id := u.id.set j qid } (by simp; omega)
      refine ⟨id', ?_, by simpa using hs, fun m hm => ?_⟩
      · simp [quickFind.Union.loop1, hj, hp]
        simpa using e
      · rw [hg m (by simpa using hm)]
        simp only [Array.getElem_set]
        by_cases hmj : j = m
        · subst hmj; simp [hp]
        · have : j + 1 ≤ m ↔ j ≤ m := by omega
          simp [hmj, this]
    · obtain ⟨id', e, hs, hg⟩ := ih (j + 1) u (by omega)
      refine ⟨id', ?_, hs, fun m hm => ?_⟩
      · simp [quickFind.Union.loop1, hj, hp]
        simpa using e
      · rw [hg m hm]
        by_cases hmj : j = m
        · subst hmj; simp [hp]
        · have : j + 1 ≤ m ↔ j ≤ m := by omega
          simp [this]

theorem quickFind_Union_loop_eq (pid qid : Int) (u : quickFind) :
    quickFind.Union.loop1 pid qid u.id.size 0 u = .ok { u with id := QuickFind.relabel pid qid u.id u.id.size } := by
  obtain ⟨id', e, hs, hg⟩ := quickFind_Union_loop pid qid u.id.size 0 u (by simp)
  have : id' = QuickFind.relabel pid qid u.id u.id.size := by
    apply Array.ext (by rw [hs, relabel_size])
    intro m h1 h2
    have hm : m < u.id.size := by omega
    have b := relabel_getD pid qid u.id u.id.size (Nat.le_refl _) m
    rw [getD_lt _ _ h2, getD_lt _ _ hm] at b
    rw [hg m hm, b]; simp [hm]
  rw [← this]; simpa using e

theorem quickFind_Union (u : quickFind) (p q : Int) :
    (quickFind.Union u p q).map qf = (qf u).union p q := by
  simp only [quickFind.Union, QuickFind.union, quickFind_isValid, quickFind_Find, quickFind_Union_loop_eq]
  outcome_auto [qf]

theorem quickFind_Count (u : quickFind) : quickFind.Count u = (qf u).getCount := rfl

/-! ### constructors: `make` + `for i := 0; i < n; i++ { id[i] = i }` -/

theorem NewQuickFind_loop : ∀ (k j : Nat) (a : Array Int), j + k = a.size →
    ∃ a', NewQuickFind.loop1 k (j : Int) a = .ok a' ∧ ∃ hs : a'.size = a.size,
      ∀ m (hm : m < a.size), a'[m] = if j ≤ m then (m : Int) else a[m] := by
  intro k
  induction k with
  | zero =>
    intro j a h
    refine ⟨a, by simp [NewQuickFind.loop1], rfl, fun m hm => ?_⟩
    have : ¬ j ≤ m := by omega
    simp [this]
  | succ k ih =>
    intro j a h
    have hj : j < a.size := by omega
    obtain ⟨a', e, hs, hg⟩ := ih (j + 1) (a.set j j) (by simp; omega)
    refine ⟨a', ?_, by simpa using hs, fun m hm => ?_⟩
    · simp [NewQuickFind.loop1, hj]
      simpa using e
    · rw [hg m (by simpa using hm)]
      simp only [Array.getElem_set]
      by_cases hmj : j = m
      · subst hmj; simp
      · have : j + 1 ≤ m ↔ j ≤ m := by omega
        simp [hmj, this]

theorem NewQuickFind_eq (n : Nat) : (NewQuickFind n).map qf = .ok (QuickFind.new n) := by
  obtain ⟨a', e, hs, hg⟩ := NewQuickFind_loop n 0 (Array.replicate n 0) (by simp)
  have : a' = iota n := by
    apply Array.ext (by simpa [iota] using hs)
    intro m h1 h2
    rw [hg m (by simp at hs; omega)]
    simp [iota]
  subst this
  simp only [NewQuickFind, Go.make_nat, Int.sub_zero, Int.toNat_natCast]
  simp at e
  simp [e, qf, QuickFind.new]

theorem NewQuickFind_neg {n : Int} (h : n < 0) : NewQuickFind n = .panic := by
  simp only [NewQuickFind, Go.make_neg (0 : Int) h, Outcome.panic_bind]

/-! ## quickUnion -/

@[simp] theorem qu_count (u : quickUnion) : (qu u).count = u.count := rfl
@[simp] theorem qu_root (u : quickUnion) : (qu u).root = u.root := rfl

theorem quickUnion_isValid (u : quickUnion) (i : Int) : quickUnion.isValid u i = (qu u).isValid i := rfl

/-- the `for p != u.root[p] { p = u.root[p] }` loop, for every fuel -/
theorem quickUnion_Find_loop (f : Nat) (u : quickUnion) : ∀ (k : Nat) (p : Int),
    quickUnion.Find.loop1 f u k p = findLoop u.root k p := by
  intro k
  induction k with
  | zero => intro p; rfl
  | succ k ih =>
    intro p
    simp only [quickUnion.Find.loop1, findLoop, idx_eq, ih]
    outcome_auto

/-- `Find` with fuel `len(u.root)` is the Model's `find` -/
theorem quickUnion_Find (u : quickUnion) (p : Int) :
    quickUnion.Find u.root.size u p = (qu u).find p := by
  simp only [quickUnion.Find, QuickUnion.find, quickUnion_isValid, quickUnion_Find_loop, qu_root]
  outcome_auto

theorem quickUnion_Union (u : quickUnion) (p q : Int) :
    (quickUnion.Union u.root.size u p q).map qu = (qu u).union p q := by
  simp only [quickUnion.Union, QuickUnion.union, quickUnion_isValid, quickUnion_Find, setIdx_eq, qu_root, qu_count]
  outcome_auto [qu]

theorem quickUnion_IsConnected (u : quickUnion) (p q : Int) :
    quickUnion.IsConnected u.root.size u p q = (qu u).isConnected p q := by
  simp only [quickUnion.IsConnected, QuickUnion.isConnected, quickUnion_isValid, quickUnion_Find]
  outcome_auto

theorem quickUnion_Count (u : quickUnion) : quickUnion.Count u = (qu u).getCount := rfl

theorem NewQuickUnion_loop : ∀ (k j : Nat) (a : Array Int), j + k = a.size →
    ∃ a', NewQuickUnion.loop1 k (j : Int) a = .ok a' ∧ ∃ hs : a'.size = a.size,
      ∀ m (hm : m < a.size), a'[m] = if j ≤ m then (m : Int) else a[m] := by
  intro k
  induction k with
  | zero =>
    intro j a h
    refine ⟨a, by simp [NewQuickUnion.loop1], rfl, fun m hm => ?_⟩
    have : ¬ j ≤ m := by omega
    simp [this]
  | succ k ih =>
    intro j a h
    have hj : j < a.size := by omega
    obtain ⟨a', e, hs, hg⟩ := ih (j + 1) (a.set j j) (by simp; omega)
    refine ⟨a', ?_, by simpa using hs, fun m hm => ?_⟩
    · simp [NewQuickUnion.loop1, hj]
      simpa using e
    · rw [hg m (by simpa using hm)]
      simp only [Array.getElem_set]
      by_cases hmj : j = m
      · subst hmj; simp
      · have : j + 1 ≤ m ↔ j ≤ m := by omega
        simp [hmj, this]

theorem NewQuickUnion_eq (n : Nat) : (NewQuickUnion n).map qu = .ok (QuickUnion.new n) := by
  obtain ⟨a', e, hs, hg⟩ := NewQuickUnion_loop n 0 (Array.replicate n 0) (by simp)
  have : a' = iota n := by
    apply Array.ext (by simpa [iota] using hs)
    intro m h1 h2
    rw [hg m (by simp at hs; omega)]
    simp [iota]
  subst this
  simp only [NewQuickUnion, Go.make_nat, Int.sub_zero, Int.toNat_natCast]
  simp at e
  simp [e, qu, QuickUnion.new]

theorem NewQuickUnion_neg {n : Int} (h : n < 0) : NewQuickUnion n = .panic := by
  simp only [NewQuickUnion, Go.make_neg (0 : Int) h, Outcome.panic_bind]

/-! ## weightedQuickUnion -/

@[simp] theorem wq_count (u : weightedQuickUnion) : (wq u).count = u.count := rfl
@[simp] theorem wq_root (u : weightedQuickUnion) : (wq u).root = u.root := rfl
@[simp] theorem wq_size (u : weightedQuickUnion) : (wq u).size = u.size := rfl

theorem weighted_isValid (u : weightedQuickUnion) (i : Int) :
    weightedQuickUnion.isValid u i = (wq u).isValid i := rfl

theorem weighted_Find_loop (f : Nat) (u : weightedQuickUnion) : ∀ (k : Nat) (p : Int),
    weightedQuickUnion.Find.loop1 f u k p = findLoop u.root k p := by
  intro k
  induction k with
  | zero => intro p; rfl
  | succ k ih =>
    intro p
    simp only [weightedQuickUnion.Find.loop1, findLoop, idx_eq, ih]
    outcome_auto

theorem weighted_Find (u : weightedQuickUnion) (p : Int) :
    weightedQuickUnion.Find u.root.size u p = (wq u).find p := by
  simp only [weightedQuickUnion.Find, Weighted.find, weighted_isValid, weighted_Find_loop, wq_root]
  outcome_auto

theorem weighted_Union (u : weightedQuickUnion) (p q : Int) :
    (weightedQuickUnion.Union u.root.size u p q).map wq = (wq u).union p q := by
  simp only [weightedQuickUnion.Union, Weighted.union, weighted_isValid, weighted_Find, setIdx_eq, idx_eq,
    wq_root, wq_count, wq_size]
  outcome_auto [wq, Int.add_comm]

theorem weighted_IsConnected (u : weightedQuickUnion) (p q : Int) :
    weightedQuickUnion.IsConnected u.root.size u p q = (wq u).isConnected p q := by
  simp only [weightedQuickUnion.IsConnected, Weighted.isConnected, weighted_isValid, weighted_Find]
  outcome_auto

theorem weighted_Count (u : weightedQuickUnion) : weightedQuickUnion.Count u = (wq u).getCount := rfl

theorem NewWeighted_loop : ∀ (k j : Nat) (a b : Array Int), j + k = a.size → ∀ hb : b.size = a.size,
    ∃ a' b', NewWeightedQuickUnion.loop1 k (j : Int) a b = .ok (a', b') ∧
      ∃ hs : a'.size = a.size, ∃ hs' : b'.size = a.size,
      ∀ m (hm : m < a.size), (a'[m] = if j ≤ m then (m : Int) else a[m]) ∧
        (b'[m] = if j ≤ m then 1 else b[m]'(by omega)) := by
  intro k
  induction k with
  | zero =>
    intro j a b h hb
    refine ⟨a, b, by simp [NewWeightedQuickUnion.loop1], rfl, hb, fun m hm => ?_⟩
    have : ¬ j ≤ m := by omega
    simp [this]
  | succ k ih =>
    intro j a b h hb
    have hj : j < a.size := by omega
    have hj' : j < b.size := by omega
    obtain ⟨a', b', e, hs, hs', hg⟩ := ih (j + 1) (a.set j j) (b.set j 1) (by simp; omega) (by simp; omega)
    refine ⟨a', b', ?_, by simpa using hs, by simpa using hs', fun m hm => ?_⟩
    · simp [NewWeightedQuickUnion.loop1, hj, hj']
      simpa using e
    · obtain ⟨g1, g2⟩ := hg m (by simpa using hm)
      rw [g1, g2]
      simp only [Array.getElem_set]
      by_cases hmj : j = m
      · subst hmj; simp
      · have : j + 1 ≤ m ↔ j ≤ m := by omega
        simp [hmj, this]

theorem NewWeighted_eq (n : Nat) : (NewWeightedQuickUnion n).map wq = .ok (Weighted.new n) := by
  obtain ⟨a', b', e, hs, hs', hg⟩ := NewWeighted_loop n 0 (Array.replicate n 0) (Array.replicate n 0) (by simp) (by simp)
  have h1 : a' = iota n := by
    apply Array.ext (by simpa [iota] using hs)
    intro m h1 h2
    rw [(hg m (by simp at hs; omega)).1]
    simp [iota]
  have h2 : b' = Array.replicate n 1 := by
    apply Array.ext (by simpa using hs')
    intro m h1 h2
    rw [(hg m (by simp at hs'; omega)).2]
    simp
  subst h1 h2
  simp only [NewWeightedQuickUnion, Go.make_nat, Int.sub_zero, Int.toNat_natCast]
  simp at e
  simp [e, wq, Weighted.new]

theorem NewWeighted_neg {n : Int} (h : n < 0) : NewWeightedQuickUnion n = .panic := by
  simp only [NewWeightedQuickUnion, Go.make_neg (0 : Int) h, Outcome.panic_bind]

/-! ## histories on the generated definitions

`Union` is called with fuel `len(u.root)` (the bound the theorems of `Props/C17.lean` establish). -/

def quickFind.run (u : quickFind) : List (Int × Int) → Outcome quickFind
  | [] => .ok u
  | (p, q) :: rest => do
    let u' ← quickFind.Union u p q
    quickFind.run u' rest

def quickUnion.run (u : quickUnion) : List (Int × Int) → Outcome quickUnion
  | [] => .ok u
  | (p, q) :: rest => do
    let u' ← quickUnion.Union u.root.size u p q
    quickUnion.run u' rest

def weightedQuickUnion.run (u : weightedQuickUnion) : List (Int × Int) → Outcome weightedQuickUnion
  | [] => .ok u
  | (p, q) :: rest => do
    let u' ← weightedQuickUnion.Union u.root.size u p q
    weightedQuickUnion.run u' rest

theorem quickFind_run (us : List (Int × Int)) : ∀ u : quickFind,
    (quickFind.run u us).map qf = (qf u).run us := by
  induction us with
  | nil => intro u; rfl
  | cons pq us ih =>
    intro u
    obtain ⟨p, q⟩ := pq
    simp only [quickFind.run, QuickFind.run, ← quickFind_Union, Outcome.map_bind, ih]
    cases quickFind.Union u p q <;> simp

theorem quickUnion_run (us : List (Int × Int)) : ∀ u : quickUnion,
    (quickUnion.run u us).map qu = (qu u).run us := by
  induction us with
  | nil => intro u; rfl
  | cons pq us ih =>
    intro u
    obtain ⟨p, q⟩ := pq
    simp only [quickUnion.run, QuickUnion.run, ← quickUnion_Union, Outcome.map_bind, ih]
    cases quickUnion.Union u.root.size u p q <;> simp

theorem weighted_run (us : List (Int × Int)) : ∀ u : weightedQuickUnion,
    (weightedQuickUnion.run u us).map wq = (wq u).run us := by
  induction us with
  | nil => intro u; rfl
  | cons pq us ih =>
    intro u
    obtain ⟨p, q⟩ := pq
    simp only [weightedQuickUnion.run, Weighted.run, ← weighted_Union, Outcome.map_bind, ih]
    cases weightedQuickUnion.Union u.root.size u p q <;> simp

/-! ## consequences used by `Props/C17.lean` -/

theorem map_eq_ok {α β : Type} {x : Outcome α} {f : α → β} {b : β} (h : x.map f = .ok b) :
    ∃ a, x = .ok a ∧ f a = b := by
  cases x <;> simp_all [Outcome.map]

/-- more fuel does not change an answer -/
theorem findLoop_mono (root : Array Int) : ∀ (k j : Nat) (p r : Int),
    findLoop root k p = .ok r → findLoop root (k + j) p = .ok r := by
  intro k
  induction k with
  | zero => intro j p r h; cases h
  | succ k ih =>
    intro j p r h
    rw [show k + 1 + j = (k + j) + 1 by omega]
    simp only [findLoop] at h ⊢
    cases hrp : C17.idx root p <;> simp only [hrp, Outcome.ok_bind, Outcome.panic_bind, Outcome.diverge_bind] at h ⊢
    · split <;> simp_all
    · cases h
    · cases h

end AlgoVerif.C17.Gen
