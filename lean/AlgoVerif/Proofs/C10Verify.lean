import AlgoVerif.Model.C10Ext
/-!
`Verify()`'s error list (`verifyErrors`, `Model/C10Ext.lean`) is empty exactly when `validB` holds.  Kept apart from
`Proofs/C10Ext.lean` so that C08 / C09 can use it without the C10 proof files.
-/
namespace AlgoVerif.C10
open AlgoVerif AlgoVerif.Gram

set_option linter.unusedSectionVars false

section
variable {T N : Type} [DecidableEq T] [DecidableEq N]

/-! ## `Verify()` -/

theorem bodyErrs_nil_iff (g : Grammar T N) (body : List (Sym T N)) :
    bodyErrs g body = [] ↔ body.all (symDeclared g) = true := by
  induction body with
  | nil => simp [bodyErrs]
  | cons s rest ih =>
    unfold bodyErrs at ih ⊢
    cases s with
    | term t =>
      by_cases h : t ∈ g.terms
      · simp [h, symDeclared, ih]
      · simp [h, symDeclared]
    | nonterm n =>
      by_cases h : n ∈ g.nonterms
      · simp [h, symDeclared, ih]
      · simp [h, symDeclared]

theorem prodErrs_nil_iff (g : Grammar T N) (p : GProd T N) :
    prodErrs g p = [] ↔ (decide (p.head ∈ g.nonterms) && p.body.all (symDeclared g)) = true := by
  unfold prodErrs
  by_cases h : p.head ∈ g.nonterms
  · simp [h, bodyErrs_nil_iff]
  · simp [h]

theorem verifyErrors_nil_iff (g : Grammar T N) : verifyErrors g = [] ↔ validB g = true := by
  unfold verifyErrors validB
  simp only [List.append_eq_nil_iff, Bool.and_eq_true, decide_eq_true_eq]
  constructor
  · rintro ⟨⟨⟨h1, h2⟩, h3⟩, h4⟩
    refine ⟨⟨⟨?_, ?_⟩, ?_⟩, ?_⟩
    · by_cases h : g.start ∈ g.nonterms
      · exact h
      · simp [h] at h1
    · cases h : g.prods.any (fun p => decide (p.head = g.start)) with
      | true => rfl
      | false => simp [h] at h2
    · rw [List.all_eq_true]
      intro n hn
      cases h : g.prods.any (fun p => decide (p.head = n)) with
      | true => rfl
      | false =>
        have := List.filterMap_eq_nil_iff.1 h3 n hn
        simp [h] at this
    · rw [List.all_eq_true]
      intro p hp
      have := List.flatMap_eq_nil_iff.1 h4 p hp
      exact (prodErrs_nil_iff g p).1 this
  · rintro ⟨⟨⟨h1, h2⟩, h3⟩, h4⟩
    refine ⟨⟨⟨?_, ?_⟩, ?_⟩, ?_⟩
    · simp [h1]
    · simp [h2]
    · rw [List.filterMap_eq_nil_iff]
      intro n hn
      have := List.all_eq_true.1 h3 n hn
      simp [this]
    · rw [List.flatMap_eq_nil_iff]
      intro p hp
      exact (prodErrs_nil_iff g p).2 (List.all_eq_true.1 h4 p hp)

end

end AlgoVerif.C10
