import AlgoVerif.Spec.C14
/-!
# C14 proofs — basic facts: `visited` arrays, `Reach`, walks, well-formed graphs
-/
namespace AlgoVerif.C14

/-! ## visited arrays -/

/-- `visited[x]` is in range and `true` -/
def Vis (a : Array Bool) (x : Nat) : Prop := a[x]? = some true

/-- number of unvisited vertices -/
def cntF (a : Array Bool) : Nat := a.count false

theorem vis_lt {a : Array Bool} {x : Nat} (h : Vis a x) : x < a.size := by
  unfold Vis at h
  by_cases hx : x < a.size
  · exact hx
  · simp [Array.getElem?_eq_none (Nat.le_of_not_lt hx)] at h

theorem vis_set {a : Array Bool} {i x : Nat} :
    Vis (a.set! i true) x ↔ (i = x ∧ i < a.size) ∨ Vis a x := by
  unfold Vis
  rw [Array.set!_eq_setIfInBounds, Array.getElem?_setIfInBounds]
  by_cases h : i = x
  · subst h
    by_cases h2 : i < a.size
    · simp [h2]
    · simp [h2]
  · simp [h]

theorem vis_set_of_vis {a : Array Bool} {i x : Nat} (h : Vis a x) : Vis (a.set! i true) x :=
  vis_set.2 (Or.inr h)

theorem vis_set_self {a : Array Bool} {i : Nat} (h : i < a.size) : Vis (a.set! i true) i :=
  vis_set.2 (Or.inl ⟨rfl, h⟩)

theorem size_set! {α : Type} (a : Array α) (i : Nat) (v : α) : (a.set! i v).size = a.size := by
  simp [Array.set!_eq_setIfInBounds]

theorem getElem?_set! {α : Type} (a : Array α) (i j : Nat) (v : α) :
    (a.set! i v)[j]? = if i = j then (if i < a.size then some v else none) else a[j]? := by
  rw [Array.set!_eq_setIfInBounds, Array.getElem?_setIfInBounds]

theorem getElem?_set!_ne {α : Type} (a : Array α) {i j : Nat} (v : α) (h : i ≠ j) :
    (a.set! i v)[j]? = a[j]? := by
  rw [getElem?_set!]; simp [h]

theorem getElem?_set!_self {α : Type} (a : Array α) {i : Nat} (v : α) (h : i < a.size) :
    (a.set! i v)[i]? = some v := by
  rw [getElem?_set!]; simp [h]

theorem cntF_set {a : Array Bool} {i : Nat} (h : a[i]? = some false) :
    cntF (a.set! i true) + 1 = cntF a := by
  have hi : i < a.size := by
    by_cases hx : i < a.size
    · exact hx
    · simp [Array.getElem?_eq_none (Nat.le_of_not_lt hx)] at h
  have hget : a[i] = false := by
    have := Array.getElem?_eq_getElem hi
    rw [this] at h; exact Option.some.inj h
  unfold cntF
  rw [Array.set!_eq_setIfInBounds]
  have : a.setIfInBounds i true = a.set i true hi := by
    simp [Array.setIfInBounds, hi]
  rw [this, Array.count_set hi]
  simp [hget]
  have hpos : 0 < Array.count false a := by
    apply Array.count_pos_iff.2
    exact hget ▸ Array.getElem_mem hi
  omega

theorem cntF_le_size (a : Array Bool) : cntF a ≤ a.size := Array.count_le_size

theorem not_vis_of_false {a : Array Bool} {x : Nat} (h : a[x]? = some false) : ¬ Vis a x := by
  unfold Vis; rw [h]; simp

theorem vis_or_false {a : Array Bool} {x : Nat} (h : x < a.size) : Vis a x ∨ a[x]? = some false := by
  unfold Vis
  rw [Array.getElem?_eq_getElem h]
  cases a[x] <;> simp

theorem vis_replicate_false {n x : Nat} : ¬ Vis (Array.replicate n false) x := by
  unfold Vis
  rw [Array.getElem?_replicate]
  split <;> simp

/-! ## Reach / walks -/

theorem Reach.single {E : Nat → Nat → Prop} {u v : Nat} (h : E u v) : Reach E u v :=
  .tail (.refl u) h

theorem Reach.trans {E : Nat → Nat → Prop} {u v w : Nat} (h1 : Reach E u v) (h2 : Reach E v w) :
    Reach E u w := by
  induction h2 with
  | refl => exact h1
  | tail _ e ih => exact .tail ih e

theorem Reach.head {E : Nat → Nat → Prop} {u v w : Nat} (e : E u v) (h : Reach E v w) : Reach E u w :=
  (Reach.single e).trans h

theorem Reach.mono {E E' : Nat → Nat → Prop} (hE : ∀ a b, E a b → E' a b) {u v : Nat}
    (h : Reach E u v) : Reach E' u v := by
  induction h with
  | refl => exact .refl _
  | tail _ e ih => exact .tail ih (hE _ _ e)

/-- a set containing `u` and closed under `E` contains everything reachable from `u` -/
theorem Reach.closed {E : Nat → Nat → Prop} {S : Nat → Prop} (hS : ∀ a b, S a → E a b → S b)
    {u v : Nat} (h : Reach E u v) (hu : S u) : S v := by
  induction h with
  | refl => exact hu
  | tail _ e ih => exact hS _ _ ih e

theorem Reach.symm {E : Nat → Nat → Prop} (hE : ∀ a b, E a b → E b a) {u v : Nat}
    (h : Reach E u v) : Reach E v u := by
  induction h with
  | refl => exact .refl _
  | tail _ e ih => exact Reach.head (hE _ _ e) ih

theorem Reach.reverse {E : Nat → Nat → Prop} {u v : Nat} (h : Reach (fun p q => E q p) u v) :
    Reach E v u := by
  induction h with
  | refl => exact .refl _
  | tail _ e ih => exact Reach.head e ih

theorem append_cons_inj_of_not_mem {v : Nat} : ∀ {p p' s s' : List Nat}, v ∉ p → v ∉ p' →
    p ++ v :: s = p' ++ v :: s' → p = p' ∧ s = s' := by
  intro p
  induction p with
  | nil =>
    intro p' s s' _ h2 e
    cases p' with
    | nil => simpa using e
    | cons a r =>
      simp at e
      exact absurd (by simp [e.1]) h2
  | cons a r ih =>
    intro p' s s' h1 h2 e
    cases p' with
    | nil =>
      simp at e
      exact absurd (by simp [e.1]) h1
    | cons b r' =>
      simp only [List.cons_append, List.cons.injEq] at e
      have := ih (fun h => h1 (by simp [h])) (fun h => h2 (by simp [h])) e.2
      exact ⟨by rw [e.1, this.1], this.2⟩

/-! ## graphs -/

theorem Graph.WF.adj_get {g : Graph} (hg : g.WF) {v : Nat} (hv : v < g.n) :
    g.adj[v]? = some (g.adj.getD v []) := by
  have : v < g.adj.size := hg.size ▸ hv
  simp [Array.getD, this]

theorem Graph.HasArc.of_mem {g : Graph} {v : Nat} {x : Arc} (h : x ∈ g.adj.getD v []) :
    g.HasArc v x.to := ⟨x, h, rfl⟩

theorem Graph.WF.arc_lt {g : Graph} (hg : g.WF) {u v : Nat} (h : g.HasArc u v) : v < g.n := by
  obtain ⟨x, hx, rfl⟩ := h
  exact hg.bound u x hx

theorem Graph.WF.src_lt {g : Graph} (hg : g.WF) {u v : Nat} (h : g.HasArc u v) : u < g.n := by
  obtain ⟨x, hx, _⟩ := h
  rw [← hg.size]
  by_cases hu : u < g.adj.size
  · exact hu
  · unfold Array.getD at hx
    simp [hu] at hx

/-! ## visitors that never stop the traversal -/

structure Visitors.AllTrue {σ : Type} (vis : Visitors σ) : Prop where
  pre : ∀ v s, (callV vis.pre v s).2 = true
  post : ∀ v s, (callV vis.post v s).2 = true
  edge : ∀ v w wt s, (callE vis.edge v w wt s).2 = true

end AlgoVerif.C14
