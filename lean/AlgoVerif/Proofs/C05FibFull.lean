import AlgoVerif.Proofs.C05FibCons
/-!
# C05 helper: every operation of the indexed Fibonacci heap Model returns, keeps all invariants, and
`Peek`/`Delete` are extremal
-/
namespace AlgoVerif.C05
open AlgoVerif.C05.Hole

namespace FT

theorem nodup_node {id : Nat} {d : Int} {m : Bool} {c nx : FT} (h : (ids (node id d m c nx)).Nodup) :
    id ∉ ids c ∧ id ∉ ids nx ∧ (ids c).Nodup ∧ (ids nx).Nodup ∧ ∀ x, x ∈ ids c → x ∉ ids nx := by
  simp only [ids, List.nodup_cons, List.mem_append, not_or] at h
  obtain ⟨⟨h1, h2⟩, h3⟩ := h
  have := List.nodup_append.mp h3
  exact ⟨h1, h2, this.1, this.2.1, fun x hx hs => this.2.2 x hx x hs rfl⟩

theorem pairs_irrefl : ∀ (t : FT), (ids t).Nodup → ∀ a, (a, a) ∉ pairs t
  | nil, _, _, h => by simp [pairs] at h
  | node id d m c nx, hnd, a, h => by
    obtain ⟨h1, _, h3, h4, _⟩ := nodup_node hnd
    rcases mem_pairs_node.mp h with ⟨ha, hb⟩ | h | h
    · exact h1 (ha ▸ chainIds_sub c a hb)
    · exact pairs_irrefl c h3 a h
    · exact pairs_irrefl nx h4 a h

theorem cutIn_some (target : Nat) : ∀ (t : FT), target ∈ ids t →
    ∃ t' cuts b, cutIn target t = some (t', cuts, b) ∧ ∃ f, f ∈ cuts ∧ f.id = target
  | nil, h => by simp [ids] at h
  | node id d m c nx, h => by
    simp only [cutIn]
    by_cases hid : id = target
    · rw [if_pos hid]
      exact ⟨_, _, _, rfl, _, List.mem_singleton.mpr rfl, hid⟩
    · rw [if_neg hid]
      simp only [ids, List.mem_cons, List.mem_append] at h
      cases hc : cutIn target c with
      | some res =>
        obtain ⟨c', cuts, removed⟩ := res
        have hin : ∃ f, f ∈ cuts ∧ f.id = target := by
          by_cases hm : target ∈ ids c
          · obtain ⟨_, _, _, he, hf⟩ := cutIn_some target c hm
            rw [hc] at he; cases he; exact hf
          · -- cutIn only succeeds when the target is there
            exact absurd hc (by
              have : ∀ (t : FT), target ∉ ids t → cutIn target t = none := by
                intro t
                induction t with
                | nil => intro _; rfl
                | node i2 d2 m2 c2 n2 ihc ihn =>
                  intro hn
                  simp only [ids, List.mem_cons, List.mem_append, not_or] at hn
                  simp only [cutIn]
                  rw [if_neg (fun e => hn.1 e.symm), ihc hn.2.1, ihn hn.2.2]
              rw [this c hm]; simp)
        obtain ⟨f, hf, hfid⟩ := hin
        simp only []
        split
        · split
          · exact ⟨_, _, _, rfl, f, hf, hfid⟩
          · exact ⟨_, _, _, rfl, f, List.mem_append_left _ hf, hfid⟩
        · exact ⟨_, _, _, rfl, f, hf, hfid⟩
      | none =>
        simp only []
        rcases h with h | h | h
        · exact absurd h.symm hid
        · obtain ⟨_, _, _, he, _⟩ := cutIn_some target c h
          rw [hc] at he; cases he
        · obtain ⟨nx', cuts, b, he, hf⟩ := cutIn_some target nx h
          rw [he]
          exact ⟨_, _, _, rfl, hf⟩

theorem parentIn_mem (target : Nat) : ∀ (t : FT) (par p : Nat), parentIn target t par = some p → target ∈ ids t
  | nil, _, _, h => by simp [parentIn] at h
  | node id d m c nx, par, p, h => by
    simp only [parentIn] at h
    simp only [ids, List.mem_cons, List.mem_append]
    split at h
    · rename_i hid; exact Or.inl hid.symm
    · split at h
      · rename_i r hr; exact Or.inr (Or.inl (parentIn_mem target c id r hr))
      · exact Or.inr (Or.inr (parentIn_mem target nx par p h))

theorem parentIn_some (target : Nat) : ∀ (t : FT) (par : Nat), target ∈ ids t → ∃ p, parentIn target t par = some p
  | nil, _, h => by simp [ids] at h
  | node id d m c nx, par, h => by
    simp only [parentIn]
    by_cases hid : id = target
    · exact ⟨par, by rw [if_pos hid]⟩
    · rw [if_neg hid]
      simp only [ids, List.mem_cons, List.mem_append] at h
      cases hc : parentIn target c id with
      | some r => exact ⟨r, rfl⟩
      | none =>
        simp only []
        rcases h with h | h | h
        · exact absurd h.symm hid
        · obtain ⟨p, hp⟩ := parentIn_some target c id h
          rw [hp] at hc; cases hc
        · exact parentIn_some target nx par h

/-- the node found by `parentIn` is the only parent of `target` -/
theorem parentIn_unique (target : Nat) : ∀ (t : FT) (par p : Nat), (ids t).Nodup →
    parentIn target t par = some p →
    ((p = par ∧ target ∈ chainIds t) ∨ (p, target) ∈ pairs t) ∧
    ∀ a, ((a = par ∧ target ∈ chainIds t) ∨ (a, target) ∈ pairs t) → a = p
  | nil, _, _, _, h => by simp [parentIn] at h
  | node id d m c nx, par, p, hnd, h => by
    obtain ⟨h1, h2, h3, h4, h5⟩ := nodup_node hnd
    simp only [parentIn] at h
    split at h
    · rename_i hid
      cases h
      subst hid
      refine ⟨Or.inl ⟨rfl, by simp [chainIds]⟩, ?_⟩
      intro a ha
      rcases ha with ⟨ha, _⟩ | ha
      · exact ha
      · rcases mem_pairs_node.mp ha with ⟨_, hb⟩ | ha | ha
        · exact absurd (chainIds_sub c _ hb) h1
        · exact absurd (pairs_mem_ids c _ _ ha).2 h1
        · exact absurd (pairs_mem_ids nx _ _ ha).2 h2
    · rename_i hid
      split at h
      · rename_i r hr
        cases h
        have hmem := parentIn_mem target c id _ hr
        obtain ⟨hex, huniq⟩ := parentIn_unique target c id _ h3 hr
        refine ⟨Or.inr (mem_pairs_node.mpr ?_), ?_⟩
        · rcases hex with ⟨e, hch⟩ | hex
          · exact Or.inl ⟨e, hch⟩
          · exact Or.inr (Or.inl hex)
        · intro a ha
          apply huniq
          rcases ha with ⟨_, hch⟩ | ha
          · simp only [chainIds, List.mem_cons] at hch
            rcases hch with hch | hch
            · exact absurd hch.symm hid
            · exact absurd (chainIds_sub nx _ hch) (h5 _ hmem)
          · rcases mem_pairs_node.mp ha with ⟨e, hb⟩ | ha | ha
            · exact Or.inl ⟨e, hb⟩
            · exact Or.inr ha
            · exact absurd (pairs_mem_ids nx _ _ ha).2 (h5 _ hmem)
      · rename_i hnone
        have hnc : target ∉ ids c := by
          intro hm
          obtain ⟨q, hq⟩ := parentIn_some target c id hm
          rw [hnone] at hq; cases hq
        obtain ⟨hex, huniq⟩ := parentIn_unique target nx par p h4 h
        refine ⟨?_, ?_⟩
        · rcases hex with ⟨e, hch⟩ | hex
          · exact Or.inl ⟨e, by simp [chainIds, hch]⟩
          · exact Or.inr (mem_pairs_node.mpr (Or.inr (Or.inr hex)))
        · intro a ha
          apply huniq
          rcases ha with ⟨e, hch⟩ | ha
          · simp only [chainIds, List.mem_cons] at hch
            rcases hch with hch | hch
            · exact absurd hch.symm hid
            · exact Or.inl ⟨e, hch⟩
          · rcases mem_pairs_node.mp ha with ⟨_, hb⟩ | ha | ha
            · exact absurd (chainIds_sub c _ hb) hnc
            · exact absurd (pairs_mem_ids c _ _ ha).2 hnc
            · exact Or.inr ha

end FT

namespace IFib
variable {K V : Type} {cmp : K → K → Int}

theorem rootsPairs_irrefl : ∀ (l : List FN), (rootsIds l).Nodup → ∀ a, (a, a) ∉ rootsPairs l
  | [], _, _, h => by simp [rootsPairs] at h
  | r :: rs, hnd, a, h => by
    rw [rootsIds_cons] at hnd
    have hs := List.nodup_append.mp hnd
    have hr : r.id ∉ r.child.ids ∧ r.child.ids.Nodup := by
      have := hs.1; simp only [FN.ids, List.nodup_cons] at this; exact this
    rw [rootsPairs_cons, List.mem_append] at h
    rcases h with h | h
    · rcases FN.mem_pairs.mp h with ⟨ha, hb⟩ | h
      · exact hr.1 (ha ▸ FT.chainIds_sub _ _ hb)
      · exact FT.pairs_irrefl _ hr.2 a h
    · exact rootsPairs_irrefl rs hs.2.1 a h

theorem cutInRoots_some (target : Nat) : ∀ (l : List FN), target ∈ rootsIds l →
    ∃ l' cuts, cutInRoots target l = some (l', cuts) ∧ target ∈ topIds (l' ++ cuts) ∧
      (l' ++ cuts).head?.map (·.id) = l.head?.map (·.id)
  | [], h => by simp [rootsIds] at h
  | r :: rs, h => by
    simp only [cutInRoots]
    by_cases hid : r.id = target
    · rw [if_pos hid]
      exact ⟨_, _, rfl, by simp [topIds, hid], by simp⟩
    · rw [if_neg hid]
      rw [rootsIds_cons, List.mem_append] at h
      cases hc : r.child.cutIn target with
      | some res =>
        obtain ⟨c', cuts, removed⟩ := res
        have hin : ∃ f, f ∈ cuts ∧ f.id = target := by
          by_cases hm : target ∈ r.child.ids
          · obtain ⟨_, _, _, he, hf⟩ := FT.cutIn_some target _ hm
            rw [hc] at he; cases he; exact hf
          · have hperm := FT.cutIn_perm target _ _ _ _ hc
            -- the cut nodes come from the child list
            obtain ⟨t', cs, b, he, hf⟩ : ∃ t' cs b, r.child.cutIn target = some (t', cs, b) ∧ True :=
              ⟨_, _, _, hc, trivial⟩
            exfalso
            have : ∀ (t : FT), target ∉ FT.ids t → FT.cutIn target t = none := by
              intro t
              induction t with
              | nil => intro _; rfl
              | node i2 d2 m2 c2 n2 ihc ihn =>
                intro hn
                simp only [FT.ids, List.mem_cons, List.mem_append, not_or] at hn
                simp only [FT.cutIn]
                rw [if_neg (fun e => hn.1 e.symm), ihc hn.2.1, ihn hn.2.2]
            rw [this _ hm] at hc; cases hc
        obtain ⟨f, hf, hfid⟩ := hin
        simp only []
        split
        · refine ⟨_, _, rfl, ?_, by simp⟩
          simp only [topIds, List.map_append, List.mem_append, List.mem_map]
          exact Or.inr ⟨f, hf, hfid⟩
        · refine ⟨_, _, rfl, ?_, by simp⟩
          simp only [topIds, List.map_append, List.mem_append, List.mem_map]
          exact Or.inr ⟨f, hf, hfid⟩
      | none =>
        simp only []
        rcases h with h | h
        · simp only [FN.ids, List.mem_cons] at h
          rcases h with h | h
          · exact absurd h.symm hid
          · obtain ⟨_, _, _, he, _⟩ := FT.cutIn_some target _ h
            rw [hc] at he; cases he
        · obtain ⟨rs', cuts, he, htop, _⟩ := cutInRoots_some target rs h
          rw [he]
          refine ⟨_, _, rfl, ?_, by simp⟩
          simp only [topIds, List.cons_append, List.map_cons, List.mem_cons]
          exact Or.inr htop

/-- `parentOf`: total on linked nodes; a root has no parent pair, otherwise the result is the only parent -/
theorem parentOf_spec (target : Nat) : ∀ (l : List FN), (rootsIds l).Nodup → target ∈ rootsIds l →
    ∃ par, parentOf target l = some par ∧
      (par = none → target ∈ topIds l) ∧
      (∀ p, par = some p → (p, target) ∈ rootsPairs l ∧ ∀ a, (a, target) ∈ rootsPairs l → a = p)
  | [], _, h => by simp [rootsIds] at h
  | r :: rs, hnd, h => by
    rw [rootsIds_cons] at hnd
    have hs := List.nodup_append.mp hnd
    have hdisj : ∀ y, y ∈ FN.ids r → y ∉ rootsIds rs := fun y hy hs' => hs.2.2 y hy y hs' rfl
    have hr : r.id ∉ r.child.ids ∧ r.child.ids.Nodup := by
      have := hs.1; simp only [FN.ids, List.nodup_cons] at this; exact this
    simp only [parentOf]
    by_cases hid : r.id = target
    · rw [if_pos hid]
      exact ⟨none, rfl, fun _ => by simp [topIds, hid], fun p hp => by cases hp⟩
    · rw [if_neg hid]
      rw [rootsIds_cons, List.mem_append] at h
      cases hc : r.child.parentIn target r.id with
      | some p =>
        simp only []
        have hmem := FT.parentIn_mem target _ _ _ hc
        obtain ⟨hex, huniq⟩ := FT.parentIn_unique target _ _ _ hr.2 hc
        refine ⟨some p, rfl, ?_, ?_⟩
        · intro e; cases e
        intro p' hp'
        cases hp'
        refine ⟨?_, ?_⟩
        · rw [rootsPairs_cons, List.mem_append]
          left
          rcases hex with ⟨e, hch⟩ | hex
          · exact FN.mem_pairs.mpr (Or.inl ⟨e, hch⟩)
          · exact FN.mem_pairs.mpr (Or.inr hex)
        · intro a ha
          rw [rootsPairs_cons, List.mem_append] at ha
          apply huniq
          rcases ha with ha | ha
          · rcases FN.mem_pairs.mp ha with h1 | h1
            · exact Or.inl h1
            · exact Or.inr h1
          · exact absurd (rootsPairs_mem_ids ha).2 (hdisj target (by simp [FN.ids, hmem]))
      | none =>
        simp only []
        have hnc : target ∉ r.child.ids := by
          intro hm
          obtain ⟨q, hq⟩ := FT.parentIn_some target _ r.id hm
          rw [hq] at hc; cases hc
        have hrs : target ∈ rootsIds rs := by
          rcases h with h | h
          · simp only [FN.ids, List.mem_cons] at h
            rcases h with h | h
            · exact absurd h.symm hid
            · exact absurd h hnc
          · exact h
        obtain ⟨par, he, h1, h2⟩ := parentOf_spec target rs hs.2.1 hrs
        refine ⟨par, he, ?_, ?_⟩
        · intro e
          simp only [topIds, List.map_cons, List.mem_cons]
          exact Or.inr (h1 e)
        · intro p hp
          obtain ⟨hpair, huniq⟩ := h2 p hp
          refine ⟨by rw [rootsPairs_cons, List.mem_append]; exact Or.inr hpair, ?_⟩
          intro a ha
          rw [rootsPairs_cons, List.mem_append] at ha
          rcases ha with ha | ha
          · have := (FN.pairs_mem_ids ha).2
            exact absurd this hnc
          · exact huniq a ha


/-! ### the invariant beyond the index map -/

/-- shape, heap order and minimality of the entry root -/
structure Extra (cmp : K → K → Int) (h : IFib K V) : Prop where
  nlen : h.n = ((rootsIds h.roots).length : Int)
  ok : ∀ f, f ∈ h.roots → f.OK
  ho : HO cmp (kf h) h.roots
  ext : ExtAll cmp (kf h) h.roots

structure InvF (cmp : K → K → Int) (cap : Nat) (h : IFib K V) : Prop where
  inv : Inv cap h
  extra : Extra cmp h

theorem readable_of_reg {cap : Nat} {S : List Nat} {h : IFib K V} (r : Reg cap S h.nodes h.cells) :
    Readable h S := by
  intro id hid
  obtain ⟨c, hc, _⟩ := r.reg id hid
  exact ⟨c.key, by unfold kf; rw [hc]; rfl⟩

theorem extremal_of_extall {cap : Nat} {h : IFib K V} (r : Reg cap (rootsIds h.roots) h.nodes h.cells)
    (hext : ExtAll cmp (kf h) h.roots) {e : FN} (he : h.roots.head? = some e) {c : Cell K V}
    (hce : h.cells[e.id]? = some c) : Spec.Extremal cmp (abs h) c.key := by
  intro j kj vj hj
  obtain ⟨_, id, cj, _, hmem, hcj, _, heq⟩ := absOf_some r hj
  cases heq
  obtain ⟨ka, kb, ha, hb, hab⟩ := hext e he id hmem
  have h1 : kf h e.id = some c.key := by unfold kf; rw [hce]; rfl
  have h2 : kf h id = some cj.key := by unfold kf; rw [hcj]; rfl
  rw [h1] at ha; rw [h2] at hb
  cases ha; cases hb; exact hab

theorem removeRoot_full (hc : LawfulCmp cmp) {cap : Nat} {h : IFib K V}
    (r : Reg cap (rootsIds h.roots) h.nodes h.cells) (hn : h.n = ((rootsIds h.roots).length : Int))
    (hok : ∀ f, f ∈ h.roots → f.OK) (ho : HO cmp (kf h) h.roots) {x : Nat} (hx : x ∈ topIds h.roots) :
    ∃ h' c, removeRoot cmp h x = .ok (h', c) ∧ Extra cmp h' := by
  obtain ⟨rn, hrn⟩ := (findRoot_some_iff h.roots x).mpr hx
  obtain ⟨c, hc', hnc⟩ := r.reg x (topIds_sub _ _ hx)
  have hidx : c.index < h.nodes.size := by
    by_cases hh : c.index < h.nodes.size
    · exact hh
    · rw [Array.getElem?_eq_none (by omega)] at hnc; cases hnc
  have hid := findRoot_id _ _ _ hrn
  have hperm : (rootsIds h.roots).Perm (x :: rootsIds (meldChildren (eraseRoot x h.roots) rn.child.toList)) := by
    refine (eraseRoot_perm _ _ _ hrn).trans ?_
    have h1 := rootsIds_perm (meldChildren_perm (eraseRoot x h.roots) rn.child.toList)
    rw [rootsIds_append, FT.toList_ids] at h1
    have h1c := List.Perm.count_eq h1
    simp only [FN.ids, hid]
    simp only [List.perm_iff_count]; intro a
    have := h1c a
    simp only [List.count_cons, List.count_append] at this ⊢; omega
  have hlen := hperm.length_eq
  simp only [List.length_cons] at hlen
  have hok1 : ∀ f, f ∈ meldChildren (eraseRoot x h.roots) rn.child.toList → f.OK :=
    meldChildren_ok (fun f hf => hok f (eraseRoot_sub _ _ _ hf))
      (FT.WFc.toList_ok _ (hok rn (findRoot_mem _ _ _ hrn)).2)
  have ho1 : HO cmp (kf h) (meldChildren (eraseRoot x h.roots) rn.child.toList) := by
    intro a b hab
    obtain ⟨f, hf, hpf⟩ := mem_rootsPairs.mp hab
    have := (meldChildren_perm _ _).mem_iff.mp hf
    rcases List.mem_append.mp this with h1 | h1
    · exact ho a b (mem_rootsPairs.mpr ⟨f, eraseRoot_sub _ _ _ h1, hpf⟩)
    · have h2 : (a, b) ∈ rootsPairs (FT.toList rn.child) := mem_rootsPairs.mpr ⟨f, h1, hpf⟩
      rw [rootsPairs_toList] at h2
      exact ho a b (findRoot_pairs hrn _ (FN.mem_pairs.mpr (Or.inr h2)))
  unfold removeRoot
  simp only [hrn, hc']
  rw [if_pos hidx]
  by_cases hemp : (meldChildren (eraseRoot x h.roots) rn.child.toList).isEmpty = true
  · rw [if_pos hemp]
    have hnil : meldChildren (eraseRoot x h.roots) rn.child.toList = [] := by simpa using hemp
    refine ⟨_, c, rfl, ?_, hok1, ho1, ?_⟩
    · show h.n - 1 = ((rootsIds (meldChildren (eraseRoot x h.roots) rn.child.toList)).length : Int)
      rw [hnil] at hlen ⊢
      rw [rootsIds_nil] at hlen ⊢
      simp only [List.length_nil] at hlen ⊢
      omega
    · intro e he
      have he' : (meldChildren (eraseRoot x h.roots) rn.child.toList).head? = some e := he
      rw [hnil] at he'; cases he'
  · rw [if_neg hemp]
    have hnd := (hperm.nodup_iff.mp r.nodup)
    have hS1 := (List.nodup_cons.mp hnd).2
    have hne : meldChildren (eraseRoot x h.roots) rn.child.toList ≠ [] := by
      intro e; rw [e] at hemp; simp at hemp
    obtain ⟨h2, hcons, hp2, _, hc2, hn2, hok2, ho2, hext2⟩ := consolidate_full hc
      (h := { h with roots := meldChildren (eraseRoot x h.roots) rn.child.toList,
                     nodes := h.nodes.setIfInBounds c.index none, n := h.n - 1 })
      hne hS1
      (fun id hid => readable_of_reg r id (hperm.mem_iff.mpr (List.mem_cons_of_mem _ hid)))
      (by show h.n - 1 = ((rootsIds (meldChildren (eraseRoot x h.roots) rn.child.toList)).length : Int); omega)
      hok1 ho1
    rw [hcons]
    refine ⟨h2, c, rfl, ?_, hok2, ho2, hext2⟩
    rw [hn2, hp2.length_eq]
    show h.n - 1 = ((rootsIds (meldChildren (eraseRoot x h.roots) rn.child.toList)).length : Int)
    omega

theorem cutAndCascade_full {cap : Nat} {h : IFib K V} (r : Reg cap (rootsIds h.roots) h.nodes h.cells)
    (hok : ∀ f, f ∈ h.roots → f.OK) {id : Nat} (hid : id ∈ rootsIds h.roots) :
    ∃ h', cutAndCascade h id = .ok h' ∧ (rootsIds h'.roots).Perm (rootsIds h.roots) ∧ h'.cells = h.cells ∧
      h'.nodes = h.nodes ∧ h'.n = h.n ∧ (∀ f, f ∈ h'.roots → f.OK) ∧
      (∀ p, p ∈ rootsPairs h'.roots → p ∈ rootsPairs h.roots) ∧ id ∈ topIds h'.roots ∧
      h'.roots.head?.map (·.id) = h.roots.head?.map (·.id) := by
  obtain ⟨l', cuts, hcut, htop, hhead⟩ := cutInRoots_some id h.roots hid
  unfold cutAndCascade
  rw [hcut]
  exact ⟨_, rfl, cutInRoots_perm _ _ _ _ hcut, rfl, rfl, rfl, cutInRoots_ok id _ _ _ hok hcut,
    cutInRoots_pairs id _ _ _ hcut, htop, hhead⟩

theorem insertRoots_spec (hc : LawfulCmp cmp) {h : IFib K V} (rd : Readable h (rootsIds h.roots)) (key : K)
    (nd : FN) :
    ∃ R, insertRoots cmp h key nd = .ok R ∧ R.Perm (nd :: h.roots) ∧
      ((R.head? = some nd ∧ ∀ e, h.roots.head? = some e → ∃ ke, kf h e.id = some ke ∧ ¬ cmp ke key ≤ 0) ∨
       (∃ e ke, h.roots.head? = some e ∧ R.head? = some e ∧ kf h e.id = some ke ∧ cmp ke key ≤ 0)) := by
  unfold insertRoots
  cases hroots : h.roots with
  | nil => exact ⟨[nd], rfl, List.Perm.refl _, Or.inl ⟨rfl, fun e he => by cases he⟩⟩
  | cons e rest =>
    simp only []
    have hemem : e.id ∈ rootsIds h.roots := topIds_sub _ _ (by rw [hroots]; simp [topIds])
    obtain ⟨ke, hke⟩ := rd e.id hemem
    rw [keyOf_of_kf hke]
    simp only []
    by_cases hle : cmp ke key ≤ 0
    · rw [if_pos hle]
      exact ⟨_, rfl, List.perm_append_comm, Or.inr ⟨e, ke, rfl, rfl, hke, hle⟩⟩
    · rw [if_neg hle]
      refine ⟨_, rfl, List.Perm.refl _, Or.inl ⟨rfl, ?_⟩⟩
      intro e' he'
      simp only [List.head?_cons, Option.some.injEq] at he'
      subst he'
      exact ⟨ke, hke, hle⟩

/-- the extra invariants after linking a fresh single node with key `key` -/
theorem extra_insert (hc : LawfulCmp cmp) {cap : Nat} {h h' : IFib K V} (iv : InvF cmp cap h) {key : K} {i : Nat}
    {val : V} (hcells : h'.cells = h.cells.push { index := i, key := key, val := val })
    (hn : h'.n = h.n + 1) {R : List FN} (hroots : h'.roots = R)
    (hperm : R.Perm ((⟨h.cells.size, 0, false, .nil⟩ : FN) :: h.roots))
    (hhead : (R.head? = some (⟨h.cells.size, 0, false, .nil⟩ : FN) ∧
        ∀ e, h.roots.head? = some e → ∃ ke, kf h e.id = some ke ∧ ¬ cmp ke key ≤ 0) ∨
       (∃ e ke, h.roots.head? = some e ∧ R.head? = some e ∧ kf h e.id = some ke ∧ cmp ke key ≤ 0)) :
    Extra cmp h' := by
  have r := iv.inv.reg
  have hlt : ∀ y, y ∈ rootsIds h.roots → y < h.cells.size := by
    intro y hy
    obtain ⟨c, hc', _⟩ := r.reg y hy
    by_cases hh : y < h.cells.size
    · exact hh
    · rw [Array.getElem?_eq_none (by omega)] at hc'; cases hc'
  have hk1 : ∀ y, y ∈ rootsIds h.roots → kf h' y = kf h y := by
    intro y hy
    have := hlt y hy
    unfold kf; rw [hcells, Array.getElem?_push, if_neg (by omega)]
  have hk2 : kf h' h.cells.size = some key := by
    unfold kf; rw [hcells, Array.getElem?_push, if_pos rfl]; rfl
  have hids : (rootsIds R).Perm (h.cells.size :: rootsIds h.roots) := by
    refine (rootsIds_perm hperm).trans ?_
    rw [rootsIds_cons]; simp [FN.ids, FT.ids]
  have hndpairs : FN.pairs (⟨h.cells.size, 0, false, .nil⟩ : FN) = [] := by
    simp [FN.pairs, FT.chainIds, FT.pairs]
  refine ⟨?_, ?_, ?_, ?_⟩
  · rw [hn, hroots, hids.length_eq, iv.extra.nlen]; simp
  · intro f hf
    rw [hroots] at hf
    rcases List.mem_cons.mp (hperm.mem_iff.mp hf) with hf | hf
    · subst hf; exact ⟨by simp [FT.len], trivial⟩
    · exact iv.extra.ok f hf
  · rw [hroots]
    apply ho_perm hperm
    intro a b hab
    rw [rootsPairs_cons, hndpairs, List.nil_append] at hab
    have hm := rootsPairs_mem_ids hab
    exact LeP.congr (hk1 a hm.1) (hk1 b hm.2) (iv.extra.ho a b hab)
  · rw [hroots]
    intro e0 he0 y hy
    have hy' := hids.mem_iff.mp hy
    rcases hhead with ⟨hh, hold⟩ | ⟨e, ke, hoh, hh, hke, hle⟩
    · rw [hh] at he0; cases he0
      rcases List.mem_cons.mp hy' with hy' | hy'
      · subst hy'; exact LeP.refl hc hk2
      · -- the old entry root is after the new key
        cases hr : h.roots with
        | nil => rw [hr] at hy'; simp [rootsIds] at hy'
        | cons e rest =>
          obtain ⟨ke, hke, hnle⟩ := hold e (by rw [hr]; rfl)
          have hemem : e.id ∈ rootsIds h.roots := topIds_sub _ _ (by rw [hr]; simp [topIds])
          have h1 : LeP cmp (kf h') h.cells.size e.id :=
            ⟨key, ke, hk2, by rw [hk1 _ hemem]; exact hke, hc.anti _ _ (by omega)⟩
          refine LeP.trans hc h1 ?_
          exact LeP.congr (hk1 _ hemem) (hk1 y hy') (iv.extra.ext e (by rw [hr]; rfl) y hy')
    · rw [hh] at he0; cases he0
      have hemem : e0.id ∈ rootsIds h.roots := by
        cases hr : h.roots with
        | nil => rw [hr] at hoh; cases hoh
        | cons e1 rest =>
          rw [hr] at hoh
          simp only [List.head?_cons, Option.some.injEq] at hoh
          subst hoh
          exact topIds_sub _ _ (by simp [topIds])
      rcases List.mem_cons.mp hy' with hy' | hy'
      · subst hy'
        exact ⟨ke, key, by rw [hk1 _ hemem]; exact hke, hk2, hle⟩
      · exact LeP.congr (hk1 _ hemem) (hk1 y hy') (iv.extra.ext e0 hoh y hy')

theorem insert_full (hc : LawfulCmp cmp) {cap : Nat} {h : IFib K V} (iv : InvF cmp cap h) (i : Int) (key : K)
    (val : V) : ∃ h' b, h.insert cmp i key val = .ok (h', b) ∧ Extra cmp h' := by
  have r := iv.inv.reg
  unfold insert
  split
  · exact ⟨h, false, rfl, iv.extra⟩
  · rename_i hcond
    simp only []
    obtain ⟨R, hR, hperm, hhead⟩ := insertRoots_spec hc (readable_of_reg r) key
      (⟨h.cells.size, 0, false, .nil⟩ : FN)
    rw [hR]
    simp only []
    rw [if_pos (by omega)]
    exact ⟨_, true, rfl, extra_insert hc iv rfl rfl rfl hperm hhead⟩


theorem deleteNode_full (hc : LawfulCmp cmp) {cap : Nat} {h : IFib K V}
    (r : Reg cap (rootsIds h.roots) h.nodes h.cells) (hn : h.n = ((rootsIds h.roots).length : Int))
    (hok : ∀ f, f ∈ h.roots → f.OK) (ho : HO cmp (kf h) h.roots) {id : Nat} (hid : id ∈ rootsIds h.roots) :
    ∃ h' c, deleteNode cmp h id = .ok (h', c) ∧ Extra cmp h' := by
  obtain ⟨h1, hcut, hperm, hcells, hnodes, hn1, hok1, hpairs, htop, _⟩ := cutAndCascade_full r hok hid
  unfold deleteNode
  rw [hcut]
  simp only []
  have r1 : Reg cap (rootsIds h1.roots) h1.nodes h1.cells := by
    rw [hcells, hnodes]; exact r.perm hperm.symm
  have ho1 : HO cmp (kf h1) h1.roots := by
    intro a b hab
    have : kf h1 = kf h := by funext y; unfold kf; rw [hcells]
    rw [this]; exact ho a b (hpairs _ hab)
  exact removeRoot_full hc r1 (by rw [hn1, hn, hperm.length_eq]) hok1 ho1 htop

theorem decreaseKey_full (hc : LawfulCmp cmp) {cap : Nat} {h h1 : IFib K V} (iv : InvF cmp cap h) {id : Nat}
    {c : Cell K V} {key : K} (hmem : id ∈ rootsIds h.roots) (hcell : h.cells[id]? = some c)
    (hlt : cmp key c.key < 0) (hroots1 : h1.roots = h.roots) (hnodes1 : h1.nodes = h.nodes) (hn1 : h1.n = h.n)
    (hcells1 : h1.cells = h.cells.setIfInBounds id { c with key := key }) :
    ∃ h' b, decreaseKey cmp h1 id key = .ok (h', b) ∧ Extra cmp h' := by
  have r := iv.inv.reg
  have hnd := r.nodup
  obtain ⟨r1', _⟩ := r.setKey hmem hcell key
  have r1 : Reg cap (rootsIds h1.roots) h1.nodes h1.cells := by rw [hroots1, hnodes1, hcells1]; exact r1'
  have hidlt : id < h.cells.size := by
    by_cases hh : id < h.cells.size
    · exact hh
    · rw [Array.getElem?_eq_none (by omega)] at hcell; cases hcell
  have hkid : kf h1 id = some key := by
    unfold kf; rw [hcells1, Array.getElem?_setIfInBounds, if_pos rfl, if_pos hidlt]; rfl
  have hkoth : ∀ y, y ≠ id → kf h1 y = kf h y := by
    intro y hy
    unfold kf; rw [hcells1, Array.getElem?_setIfInBounds, if_neg (fun e => hy e.symm)]
  have hkold : kf h id = some c.key := by unfold kf; rw [hcell]; rfl
  -- pairs whose child is not `id` stay ordered (the key only went down)
  have hopart : ∀ a b, (a, b) ∈ rootsPairs h.roots → b ≠ id → LeP cmp (kf h1) a b := by
    intro a b hab hb
    obtain ⟨ka, kb, hka, hkb, hle⟩ := iv.extra.ho a b hab
    by_cases ha : a = id
    · subst ha
      rw [hkold] at hka; cases hka
      exact ⟨key, kb, hkid, by rw [hkoth b hb]; exact hkb, hc.trans _ _ _ (by omega) hle⟩
    · exact ⟨ka, kb, by rw [hkoth a ha]; exact hka, by rw [hkoth b hb]; exact hkb, hle⟩
  have hextpart : ∀ e0, h.roots.head? = some e0 → ∀ y, y ∈ rootsIds h.roots → y ≠ id →
      LeP cmp (kf h1) e0.id y := by
    intro e0 he0 y hy hyid
    obtain ⟨ka, kb, hka, hkb, hle⟩ := iv.extra.ext e0 he0 y hy
    by_cases ha : e0.id = id
    · rw [ha] at hka ⊢
      rw [hkold] at hka; cases hka
      exact ⟨key, kb, hkid, by rw [hkoth y hyid]; exact hkb, hc.trans _ _ _ (by omega) hle⟩
    · exact ⟨ka, kb, by rw [hkoth _ ha]; exact hka, by rw [hkoth y hyid]; exact hkb, hle⟩
  obtain ⟨par, hpar, hparroot, hparsome⟩ := parentOf_spec id h.roots hnd hmem
  unfold decreaseKey
  rw [hroots1, hpar]
  simp only []
  -- the state after the optional cut
  have hmid : ∃ b h2, needsCut cmp h1 par key = .ok b ∧
      (if b = true then cutAndCascade h1 id else .ok h1) = .ok h2 ∧
      Reg cap (rootsIds h2.roots) h2.nodes h2.cells ∧ h2.cells = h1.cells ∧ h2.n = h.n ∧
      (rootsIds h2.roots).Perm (rootsIds h.roots) ∧ (∀ f, f ∈ h2.roots → f.OK) ∧
      HO cmp (kf h1) h2.roots ∧ h2.roots.head?.map (·.id) = h.roots.head?.map (·.id) ∧
      (id ∈ topIds h2.roots ∨ ∃ p, p ≠ id ∧ p ∈ rootsIds h.roots ∧ LeP cmp (kf h1) p id) := by
    cases par with
    | none =>
      have hroot := hparroot rfl
      refine ⟨false, h1, rfl, by simp, r1, rfl, hn1, by rw [hroots1], by rw [hroots1]; exact iv.extra.ok, ?_,
        by rw [hroots1], Or.inl (by rw [hroots1]; exact hroot)⟩
      rw [hroots1]
      intro a b hab
      by_cases hb : b = id
      · subst hb; exact absurd hab (root_no_parent h.roots hnd b a hroot)
      · exact hopart a b hab hb
    | some p =>
      obtain ⟨hpair, huniq⟩ := hparsome p rfl
      have hpmem := (rootsPairs_mem_ids hpair).1
      have hpid : p ≠ id := fun e => rootsPairs_irrefl h.roots hnd id (e ▸ hpair)
      obtain ⟨kp, hkp⟩ := readable_of_reg r p hpmem
      have hkp1 : kf h1 p = some kp := by rw [hkoth p hpid]; exact hkp
      have hnc : needsCut cmp h1 (some p) key = .ok (decide (0 < cmp kp key)) := by
        simp only [needsCut, keyOf_of_kf hkp1]
      rw [hnc]
      by_cases hgt : 0 < cmp kp key
      · -- the node is cut out of its tree
        obtain ⟨h2, hcut, hperm, hcells, hnodes, hn2, hok2, hpairs, htop, hhead⟩ :=
          cutAndCascade_full r1 (by rw [hroots1]; exact iv.extra.ok) (by rw [hroots1]; exact hmem)
        have hnd2 : (rootsIds h2.roots).Nodup := (by rw [hroots1] at hperm; exact hperm.nodup_iff.mpr hnd)
        refine ⟨true, h2, by simp [hgt], by simpa using hcut, ?_, hcells, by rw [hn2, hn1],
          by rw [hroots1] at hperm; exact hperm, hok2, ?_, by rw [hhead, hroots1], Or.inl htop⟩
        · rw [hcells, hnodes]; exact r1.perm hperm.symm
        · intro a b hab
          have hab1 := hpairs _ hab
          rw [hroots1] at hab1
          by_cases hb : b = id
          · subst hb; exact absurd hab (root_no_parent h2.roots hnd2 b a htop)
          · exact hopart a b hab1 hb
      · refine ⟨false, h1, by simp [hgt], by simp, r1, rfl, hn1, by rw [hroots1],
          by rw [hroots1]; exact iv.extra.ok, ?_, by rw [hroots1],
          Or.inr ⟨p, hpid, hpmem, kp, key, hkp1, hkid, by omega⟩⟩
        rw [hroots1]
        intro a b hab
        by_cases hb : b = id
        · subst hb
          have := huniq a hab
          subst this
          exact ⟨kp, key, hkp1, hkid, by omega⟩
        · exact hopart a b hab hb
  obtain ⟨b, h2, hb, hcutres, r2, hcells2, hn2, hperm2, hok2, ho2, hhead2, hor⟩ := hmid
  rw [hb]
  simp only []
  rw [hcutres]
  simp only []
  unfold finishDecrease
  have hkf2 : kf h2 = kf h1 := by funext y; unfold kf; rw [hcells2]
  have hmem2 : id ∈ rootsIds h2.roots := hperm2.mem_iff.mpr hmem
  cases hr2 : h2.roots with
  | nil => rw [hr2] at hmem2; simp [rootsIds] at hmem2
  | cons e rest =>
    simp only []
    have hetop : e.id ∈ topIds h2.roots := by rw [hr2]; simp [topIds]
    have hemem : e.id ∈ rootsIds h.roots := hperm2.mem_iff.mp (topIds_sub _ _ hetop)
    -- the old entry root has the same id
    obtain ⟨e0, he0, he0id⟩ : ∃ e0, h.roots.head? = some e0 ∧ e0.id = e.id := by
      rw [hr2] at hhead2
      simp only [List.head?_cons, Option.map_some] at hhead2
      cases hh : h.roots.head? with
      | none => rw [hh] at hhead2; cases hhead2
      | some e0 => rw [hh] at hhead2; simp at hhead2; exact ⟨e0, rfl, hhead2.symm⟩
    obtain ⟨ke, hke⟩ := readable_of_reg r2 e.id (topIds_sub _ _ hetop)
    rw [keyOf_of_kf hke]
    simp only []
    have hke1 : kf h1 e.id = some ke := by rw [← hkf2]; exact hke
    have hextrest : ∀ y, y ∈ rootsIds h2.roots → y ≠ id → LeP cmp (kf h1) e.id y := by
      intro y hy hyid
      rw [← he0id]; exact hextpart e0 he0 y (hperm2.mem_iff.mp hy) hyid
    by_cases hle : cmp ke key ≤ 0
    · rw [if_pos hle]
      refine ⟨h2, true, rfl, by rw [hn2, iv.extra.nlen, hperm2.length_eq], hok2, by rw [hkf2]; exact ho2, ?_⟩
      rw [hkf2, hr2]
      intro e' he' y hy
      simp only [List.head?_cons, Option.some.injEq] at he'
      subst he'
      by_cases hyid : y = id
      · subst hyid; exact ⟨ke, key, hke1, hkid, hle⟩
      · exact hextrest y (by rw [hr2]; exact hy) hyid
    · rw [if_neg hle]
      have hidtop : id ∈ topIds h2.roots := by
        rcases hor with h1' | ⟨p, hpid, hpmem, hple⟩
        · exact h1'
        · exfalso
          by_cases heid : e.id = id
          · rw [← heid] at hpid
            -- then the entry root would be its own child's child: id is a root
            have : LeP cmp (kf h1) e.id id := by
              have h3 := hextrest p (hperm2.mem_iff.mpr hpmem) (by rw [← heid]; exact hpid)
              exact LeP.trans hc h3 hple
            obtain ⟨ka, kb, hka, hkb, hab⟩ := this
            rw [hke1] at hka; rw [hkid] at hkb; cases hka; cases hkb; exact hle hab
          · have h3 := hextrest p (hperm2.mem_iff.mpr hpmem) hpid
            obtain ⟨ka, kb, hka, hkb, hab⟩ := LeP.trans hc h3 hple
            rw [hke1] at hka; rw [hkid] at hkb; cases hka; cases hkb; exact hle hab
      rw [← hr2]
      obtain ⟨roots', hrot, hperm', e'', hhead', hid'⟩ := rotateTo_spec h2.roots id hidtop
      rw [hrot]
      simp only []
      refine ⟨_, true, rfl, ?_, ?_, ?_, ?_⟩
      · show h2.n = ((rootsIds roots').length : Int)
        rw [hn2, iv.extra.nlen, (rootsIds_perm hperm').length_eq, hperm2.length_eq]
      · intro f hf; exact hok2 f (hperm'.mem_iff.mp hf)
      · show HO cmp (kf h2) roots'
        rw [hkf2]; exact ho_perm hperm' ho2
      · show ExtAll cmp (kf h2) roots'
        rw [hkf2]
        intro e' he' y hy
        rw [hhead'] at he'; cases he'
        rw [hid']
        have hy2 : y ∈ rootsIds h2.roots := (rootsIds_perm hperm').mem_iff.mp hy
        by_cases hyid : y = id
        · subst hyid; exact LeP.refl hc hkid
        · have hnew : LeP cmp (kf h1) id e.id := ⟨key, ke, hkid, hke1, hc.anti _ _ (by omega)⟩
          exact LeP.trans hc hnew (hextrest y hy2 hyid)

theorem changeKey_full (hc : LawfulCmp cmp) {cap : Nat} {h : IFib K V} (iv : InvF cmp cap h) (i : Int) (key : K) :
    ∃ h' b, h.changeKey cmp i key = .ok (h', b) ∧ Extra cmp h' := by
  have r := iv.inv.reg
  unfold changeKey
  split
  · exact ⟨h, false, rfl, iv.extra⟩
  · rename_i hcond
    have hheld : h.containsIndex i = true := by
      cases hx : h.containsIndex i with
      | true => rfl
      | false => exact absurd hx hcond
    obtain ⟨hr, id, c, hnode, hmem, hcell, hci, habs⟩ := node_of_held r hheld
    rw [hnode]
    simp only []
    rw [hcell]
    simp only []
    by_cases hlt : cmp key c.key < 0
    · rw [if_pos hlt]
      exact decreaseKey_full hc iv hmem hcell hlt rfl rfl rfl rfl
    · rw [if_neg hlt]
      by_cases hgt : 0 < cmp key c.key
      · rw [if_pos hgt]
        obtain ⟨h1, c1, hdn, hex1⟩ := deleteNode_full hc r iv.extra.nlen iv.extra.ok iv.extra.ho hmem
        rw [hdn]
        simp only []
        -- the index map after the deletion
        obtain ⟨r1, habs1, _, _, hn1, hc1⟩ := deleteNode_spec r hdn
        have : c1 = c := by rw [hcell] at hc1; exact (Option.some.inj hc1).symm
        subst this
        have hji : ((i.toNat : Nat) : Int) = i := by unfold Spec.InRange at hr; omega
        have inv1 : Inv cap h1 := by
          refine ⟨r1, ?_⟩
          rw [hn1, habs1, hci, hji]
          have := Spec.card_set_none _ hr habs
          have := iv.inv.card
          omega
        obtain ⟨h2, b2, hins, hex2⟩ := insert_full hc ⟨inv1, hex1⟩ i key c1.val
        rw [hins]
        exact ⟨h2, true, rfl, hex2⟩
      · rw [if_neg hgt]
        exact ⟨h, true, rfl, iv.extra⟩


/-- every call returns, the extra invariants are kept, `Peek`/`Delete` answer an extremal key -/
theorem step_total_extra (hc : LawfulCmp cmp) (eq : V → V → Bool) {cap : Nat} (h : IFib K V) (op : Op K V)
    (iv : InvF cmp cap h) :
    ∃ h' res, step cmp eq h op = .ok (h', res) ∧ Extra cmp h' ∧
      ∀ i k v, res = .ikv (some (i, k, v)) → Spec.Extremal cmp (abs h) k := by
  have r := iv.inv.reg
  cases op with
  | insert i k v =>
    obtain ⟨h', b, he, hex⟩ := insert_full hc iv i k v
    exact ⟨h', .bool b, by simp [step, he, Outcome.map], hex, fun _ _ _ e => by cases e⟩
  | changeKey i k =>
    obtain ⟨h', b, he, hex⟩ := changeKey_full hc iv i k
    exact ⟨h', .bool b, by simp [step, he, Outcome.map], hex, fun _ _ _ e => by cases e⟩
  | delete =>
    cases hroots : h.roots with
    | nil =>
      refine ⟨h, .ikv none, by simp [step, delete, hroots, Outcome.map], iv.extra, fun _ _ _ e => by cases e⟩
    | cons e rest =>
      have hetop : e.id ∈ topIds h.roots := by rw [hroots]; simp [topIds]
      obtain ⟨h', c, he, hex⟩ := removeRoot_full hc r iv.extra.nlen iv.extra.ok iv.extra.ho hetop
      obtain ⟨_, _, _, _, _, hce⟩ := removeRoot_spec r he
      refine ⟨h', .ikv (some ((c.index : Int), c.key, c.val)), by simp [step, delete, hroots, he, Outcome.map],
        hex, ?_⟩
      intro i k v e'
      cases e'
      exact extremal_of_extall r iv.extra.ext (by rw [hroots]; rfl) hce
  | deleteIndex i =>
    by_cases hcond : h.containsIndex i = false
    · exact ⟨h, .kv none, by simp [step, deleteIndex, hcond, Outcome.map], iv.extra, fun _ _ _ e => by cases e⟩
    · have hheld : h.containsIndex i = true := by
        cases hx : h.containsIndex i with
        | true => rfl
        | false => exact absurd hx hcond
      obtain ⟨_, id, c, hnode, hmem, _, _, _⟩ := node_of_held r hheld
      obtain ⟨h', c', he, hex⟩ := deleteNode_full hc r iv.extra.nlen iv.extra.ok iv.extra.ho hmem
      exact ⟨h', .kv (some (c'.key, c'.val)), by simp [step, deleteIndex, hheld, hnode, he, Outcome.map], hex,
        fun _ _ _ e => by cases e⟩
  | deleteAll =>
    refine ⟨h.deleteAll, .unit, rfl, ⟨rfl, ?_, ?_, ?_⟩, fun _ _ _ e => by cases e⟩
    · intro f hf; cases hf
    · intro a b hab; simp [deleteAll, rootsPairs] at hab
    · intro e he; cases he
  | peek =>
    cases hroots : h.roots with
    | nil => exact ⟨h, .ikv none, by simp [step, peek, hroots, Outcome.map], iv.extra, fun _ _ _ e => by cases e⟩
    | cons e rest =>
      have hetop : e.id ∈ topIds h.roots := by rw [hroots]; simp [topIds]
      obtain ⟨c, hce, _⟩ := r.reg e.id (topIds_sub _ _ hetop)
      refine ⟨h, .ikv (some ((c.index : Int), c.key, c.val)), by simp [step, peek, hroots, hce, Outcome.map],
        iv.extra, ?_⟩
      intro i k v e'
      cases e'
      exact extremal_of_extall r iv.extra.ext (by rw [hroots]; rfl) hce
  | peekIndex i =>
    by_cases hcond : h.containsIndex i = false
    · exact ⟨h, .kv none, by simp [step, peekIndex, hcond, Outcome.map], iv.extra, fun _ _ _ e => by cases e⟩
    · have hheld : h.containsIndex i = true := by
        cases hx : h.containsIndex i with
        | true => rfl
        | false => exact absurd hx hcond
      obtain ⟨_, id, c, hnode, _, hcell, _, _⟩ := node_of_held r hheld
      exact ⟨h, .kv (some (c.key, c.val)), by simp [step, peekIndex, hheld, hnode, hcell, Outcome.map],
        iv.extra, fun _ _ _ e => by cases e⟩
  | containsIndex i => exact ⟨h, _, rfl, iv.extra, fun _ _ _ e => by cases e⟩
  | containsKey k =>
    obtain ⟨b, hb⟩ := anyCell_total r (fun c => cmp c.key k == 0)
    exact ⟨h, .bool b, by simp [step, containsKey, hb, Outcome.map], iv.extra, fun _ _ _ e => by cases e⟩
  | containsValue v =>
    obtain ⟨b, hb⟩ := anyCell_total r (fun c => eq c.val v)
    exact ⟨h, .bool b, by simp [step, containsValue, hb, Outcome.map], iv.extra, fun _ _ _ e => by cases e⟩
  | size => exact ⟨h, _, rfl, iv.extra, fun _ _ _ e => by cases e⟩
  | isEmpty => exact ⟨h, _, rfl, iv.extra, fun _ _ _ e => by cases e⟩

theorem step_full (hc : LawfulCmp cmp) (eq : V → V → Bool) {cap : Nat} (h : IFib K V) (op : Op K V)
    (iv : InvF cmp cap h) :
    ∃ h' res, step cmp eq h op = .ok (h', res) ∧ InvF cmp cap h' ∧ Spec.Admit cmp eq cap (abs h) op res (abs h') := by
  obtain ⟨h', res, hstep, hex, hext⟩ := step_total_extra hc eq h op iv
  obtain ⟨inv', hadm⟩ := step_sim eq h op h' res iv.inv hstep
  exact ⟨h', res, hstep, ⟨inv', hex⟩, hadm.upgrade hext⟩

theorem invF_new (cmp : K → K → Int) (cap : Nat) : InvF cmp cap (new cap : IFib K V) := by
  refine ⟨inv_new cap, rfl, ?_, ?_, ?_⟩
  · intro f hf; cases hf
  · intro a b hab; simp [new, rootsPairs] at hab
  · intro e he; cases he

end IFib
end AlgoVerif.C05
