import AlgoVerif.Proofs.C11LalrLA
import AlgoVerif.Proofs.C11LalrValid
/-!
# C11 — the LALR(1) kernels and the state lookup `findSuperset` of the table fill

* `kernelOf_mem`: the kernel built for LR(0) state `s` consists of the items `[k, a]`, `k` a kernel item of `s`, `a` one
  of its lookaheads; every kernel item has at least one lookahead (the builder would have panicked otherwise, and
  entries of the lookahead table are never empty);
* `kernels_all` / `kernels_src`: the kernel list `K1` contains (up to set equality) the kernel of every LR(0) state and
  nothing else;
* `superset_found`: for every LALR state `I` (a row of the table fill), every item `it` of `c = CLOSURE(I)` with `X` after the
  dot: `findSuperset(S, GOTO(I, X))` succeeds and the state it returns contains `it.next`.  The state with the same
  core exists because the lookaheads are closed under GOTO (`la_closed`); it has the *same core* — which the
  patched `findSuperset` insists on — because every item of the LR(0) closure carries a lookahead in the LR(1)
  closure, and that is where productivity of the grammar is needed.
-/
namespace AlgoVerif.C11.Lalr
open AlgoVerif AlgoVerif.Gram AlgoVerif.C11 AlgoVerif.C11.Spec AlgoVerif.C11.Built AlgoVerif.C11.BuiltComplete

/-! ## `lalrKernelOf` -/

theorem lalrKernelOf_complete {las : LaTable} {I : List Item} {s : Nat} {J : List Item}
    (hk : lalrKernelOf las (I, s) = Outcome.ok J) :
    ∀ (i : Nat) (item : Item), I[i]? = some item → ∃ ls, laGet las ((s : Int), (i : Int)) = some ls ∧
      ∀ a ∈ ls, withLa item a ∈ J := by
  unfold lalrKernelOf at hk
  have := foldlM_done _ (fun (J J' : List Item) => ∀ x ∈ J, x ∈ J') (fun _ _ h => h)
    (fun _ _ _ h1 h2 x hx => h2 x (h1 x hx))
    (fun (ii : Item × Nat) (J : List Item) => ∃ ls, laGet las ((s : Int), (ii.2 : Int)) = some ls ∧
      ∀ a ∈ ls, withLa ii.1 a ∈ J)
    (fun ii b b' hle ⟨ls, hls, hall⟩ => ⟨ls, hls, fun a ha => hle _ (hall a ha)⟩) _ [] J ?_ hk
  · intro i item hi
    exact this.2 (item, i) (List.mem_zipIdx_iff_getElem?.mpr hi)
  · intro b ii b' _ hstep
    split at hstep
    · rename_i ls hls
      rw [← pure_eq_ok hstep]
      refine ⟨fun x hx => (mem_foldl_decorate ii.1 ls b x).mpr (Or.inl hx), ls, hls, ?_⟩
      intro a ha
      exact (mem_foldl_decorate ii.1 ls b _).mpr (Or.inr ⟨a, ha, rfl⟩)
    · simp at hstep

section
variable {g' : SGrammar} {fuel : Nat} {K1 : List (List Item)} (R : LalrRun g' fuel K1)

/-- the kernel of LR(0) state `s` -/
theorem kernelOf_mem {s : Nat} {Is J : List Item} (hIs : R.S0[s]? = some Is)
    (hk : lalrKernelOf R.las (Is, s) = Outcome.ok J) (x : Item) :
    x ∈ J ↔ ∃ k a, LA R.S0 R.las s k a ∧ x = withLa k a := by
  constructor
  · intro hx
    obtain ⟨item, i, ls, a, hget, hla, ha, rfl⟩ := lalrKernelOf_spec hk x hx
    exact ⟨item, a, ⟨Is, i, ls, hIs, hget, hla, ha⟩, rfl⟩
  · rintro ⟨k, a, ⟨Is', i, ls, hIs', hget, hla, ha⟩, rfl⟩
    rw [hIs] at hIs'
    simp only [Option.some.injEq] at hIs'
    subst hIs'
    obtain ⟨ls', hls', hall⟩ := lalrKernelOf_complete hk i k hget
    rw [hla] at hls'
    simp only [Option.some.injEq] at hls'
    subst hls'
    exact hall a ha

theorem las_ne : NE R.las := by
  have h0 : NE ([((0, 0), [endmarker])] : LaTable) := by
    intro e he
    simp only [List.mem_singleton] at he
    subst he
    simp
  have h1 : NE R.lp.1 := by
    refine foldlM_inv _ (fun acc => NE acc.1) _ _ R.lp ?_ h0 R.hlp
    intro b Is b' _ hb hstep
    exact ne_lalrState hb hstep
  exact ne_propagate R.lp.2 fuel R.lp.1 R.las h1 R.hlas

/-- `K1` holds (a set-equal copy of) the kernel of every LR(0) state … -/
theorem kernels_all : ∀ (s : Nat) (Is : List Item), R.S0[s]? = some Is →
    ∃ J, lalrKernelOf R.las (Is, s) = Outcome.ok J ∧ ∃ K ∈ K1, ∀ x, x ∈ K ↔ x ∈ J := by
  have := foldlM_done _ (fun (K K' : List (List Item)) => ∀ x ∈ K, x ∈ K') (fun _ _ h => h)
    (fun _ _ _ h1 h2 x hx => h2 x (h1 x hx))
    (fun (Is : List Item × Nat) (K : List (List Item)) =>
      ∃ J, lalrKernelOf R.las Is = Outcome.ok J ∧ ∃ K' ∈ K, ∀ x, x ∈ K' ↔ x ∈ J)
    (fun Is b b' hle ⟨J, hJ, K', hK', hs⟩ => ⟨J, hJ, K', hle _ hK', hs⟩) _ [] K1 ?_ R.hK1
  · intro s Is hIs
    exact this.2 (Is, s) (List.mem_zipIdx_iff_getElem?.mpr hIs)
  · intro b Is b' _ hstep
    obtain ⟨J, hJ, hrest⟩ := bind_eq_ok hstep
    have hb' := pure_eq_ok hrest
    split at hb'
    · rename_i hc
      subst hb'
      exact ⟨fun _ h => h, J, hJ, containsSet_iff.mp hc⟩
    · subst hb'
      exact ⟨fun x hx => List.mem_append_left _ hx, J, hJ, J, by simp, fun _ => Iff.rfl⟩

/-- … and nothing else -/
theorem kernels_src : ∀ K ∈ K1, ∃ (s : Nat) (Is : List Item), R.S0[s]? = some Is ∧
    lalrKernelOf R.las (Is, s) = Outcome.ok K := by
  refine foldlM_inv _ (fun (K1 : List (List Item)) => ∀ K ∈ K1, ∃ (s : Nat) (Is : List Item), R.S0[s]? = some Is ∧
    lalrKernelOf R.las (Is, s) = Outcome.ok K) _ [] K1 ?_ (by simp) R.hK1
  intro b Is b' hIs hb hstep
  obtain ⟨J, hJ, hrest⟩ := bind_eq_ok hstep
  have hb' := pure_eq_ok hrest
  split at hb'
  · subst hb'; exact hb
  · subst hb'
    intro K hK
    rcases List.mem_append.mp hK with h1 | h1
    · exact hb K h1
    · simp only [List.mem_singleton] at h1
      subst h1
      exact ⟨Is.2, Is.1, List.mem_zipIdx_iff_getElem?.mp hIs, hJ⟩

/-- every kernel item of every LR(0) state has a lookahead -/
theorem kernel_has_la {s : Nat} {Is : List Item} (hIs : R.S0[s]? = some Is) {k : Item} (hk : k ∈ Is) :
    ∃ a, LA R.S0 R.las s k a := by
  obtain ⟨J, hJ, _⟩ := kernels_all R s Is hIs
  obtain ⟨i, hi⟩ := List.mem_iff_getElem?.mp hk
  obtain ⟨ls, hls, _⟩ := lalrKernelOf_complete hJ i k hi
  have hmem : ((((s : Int), (i : Int)) : Key), ls) ∈ R.las := by
    unfold laGet at hls
    exact AlgoVerif.C11.Sound.lookup_mem _ _ _ hls
  have hne := las_ne R _ hmem
  obtain ⟨a, ha⟩ := List.exists_mem_of_ne_nil _ hne
  exact ⟨a, Is, i, ls, hIs, hi, hls, ha⟩

end

/-! ## the state lookup of the table fill -/

theorem findSuperset_found {S : StateMap} {J K : List Item} (hne : J ≠ []) (hK : K ∈ S) (hsub : ∀ x ∈ J, x ∈ K)
    (hcore : ∀ y, y ∈ coreOf K ↔ y ∈ coreOf J) :
    ∃ (n : Nat) (K' : List Item), findSuperset S J = (n : Int) ∧ S[n]? = some K' ∧ ∀ x ∈ J, x ∈ K' := by
  rcases findSuperset_spec S J with hneg | ⟨n, K', hn, hK', _, hsub', _⟩
  · exfalso
    unfold findSuperset at hneg
    have hemp : J.isEmpty = false := by
      cases J with
      | nil => exact absurd rfl hne
      | cons _ _ => rfl
    simp only [hemp, Bool.false_eq_true, if_false] at hneg
    cases hf : S.findIdx? (fun K => subsetOf J K && sameSet (coreOf K) (coreOf J)) with
    | none =>
      rw [List.findIdx?_eq_none_iff] at hf
      have := hf K hK
      rw [subsetOf_iff.mpr hsub, sameSet_iff.mpr hcore] at this
      simp at this
    | some n =>
      rw [hf] at hneg
      simp only at hneg
      omega
  · exact ⟨n, K', hn, hK', hsub'⟩

section
variable {g g' : SGrammar} (hv : ValidG g) (ht : TermsListed g) (ha : augment g = Outcome.ok g')
  (hprod : Productive g) {fuel : Nat} {K1 : List (List Item)} (R : LalrRun g' fuel K1)
include hv ht ha hprod R

/-- `findSuperset` finds a state for every transition the table fill asks for, and that state holds the advanced item -/
theorem superset_found {I c : List Item} (hI : I ∈ buildStateMap g'.start K1)
    (hc : (mkAuto g' true true fuel).closure I = Outcome.ok c) {it : Item} (hit : it ∈ c) {X : Sy}
    (hd : it.dotSym = some X) :
    ∃ (n : Nat) (K : List Item), findSuperset (buildStateMap g'.start K1) (advance c X) = (n : Int) ∧
      (buildStateMap g'.start K1)[n]? = some K ∧ it.next ∈ K := by
  have h := augOK_of_augment hv ha
  -- the LR(0) state `s` whose kernel `I` is
  obtain ⟨K', hK', rfl⟩ := mem_buildStateMap.mp hI
  obtain ⟨s, Is, hIs, hKs⟩ := kernels_src R K' hK'
  have hImem : ∀ x, x ∈ sortBy (cmpItem g'.start) K' ↔ ∃ k a, LA R.S0 R.las s k a ∧ x = withLa k a := by
    intro x
    rw [mem_sortBy]
    exact kernelOf_mem R hIs hKs x
  replace hc : closure g' (nullableOf g') (firstEnv g' (nullableOf g')) fuel (sortBy (cmpItem g'.start) K') =
      Outcome.ok c := hc
  have hcmem := mem_closure_iff (g := g') hc
  -- one transition on X
  have hstep : ∀ y ∈ c, y.dotSym = some X →
      ∃ (nextI : List Item) (n : Nat) (Kn : List Item),
        (mkAuto g' false true fuel).goto Is X = Outcome.ok nextI ∧ findItemSet R.S0 nextI = (n : Int) ∧
        R.S0[n]? = some Kn ∧ (∀ z, z ∈ Kn ↔ z ∈ nextI) ∧ ∃ b, y.la = some b ∧ LA R.S0 R.las n y.next.core b := by
    intro y hy hyd
    obtain ⟨k0, hk0, hclo⟩ := clo_single ((hcmem y).mp hy)
    obtain ⟨k, a, hLA, rfl⟩ := (hImem k0).mp hk0
    exact la_closed hv ht ha R hIs hLA hclo hyd
  obtain ⟨nextI, n, Kn, hgo, hn, hKn, hsame, _⟩ := hstep it hit hd
  -- the candidate: the kernel of LR(0) state n
  obtain ⟨Jn, hJn, Kc, hKc, hKcJ⟩ := kernels_all R n Kn hKn
  have hJnmem := kernelOf_mem R hKn hJn
  have hcand : sortBy (cmpItem g'.start) Kc ∈ buildStateMap g'.start K1 := mem_buildStateMap.mpr ⟨Kc, hKc, rfl⟩
  have hsub : ∀ x ∈ advance c X, x ∈ sortBy (cmpItem g'.start) Kc := by
    intro x hx
    obtain ⟨y, hy, hyd, rfl⟩ := mem_advance.mp hx
    obtain ⟨nextI', n', Kn', hgo', hn', _, _, b, hyb, hLA'⟩ := hstep y hy hyd
    rw [hgo] at hgo'
    simp only [Outcome.ok.injEq] at hgo'
    subst hgo'
    have hnn : n' = n := by rw [hn] at hn'; omega
    subst hnn
    rw [mem_sortBy, hKcJ, hJnmem]
    refine ⟨y.next.core, b, hLA', ?_⟩
    exact (withLa_core (x := y.next) (b := b) hyb).symm
  have hcore : ∀ z, z ∈ coreOf (sortBy (cmpItem g'.start) Kc) ↔ z ∈ coreOf (advance c X) := by
    intro z
    constructor
    · intro hz
      obtain ⟨w, hw, rfl⟩ := mem_coreOf.mp hz
      rw [mem_sortBy, hKcJ, hJnmem] at hw
      obtain ⟨k', a', hLA', rfl⟩ := hw
      obtain ⟨Kn', i', ls', hKn', hki', _, _⟩ := hLA'
      rw [hKn] at hKn'
      simp only [Option.some.injEq] at hKn'
      subst hKn'
      have hk'mem : k' ∈ Kn := List.mem_of_getElem? hki'
      have hk'none : k'.la = none := s0_la_none R Kn (List.mem_of_getElem? hKn) k' hk'mem
      rw [core_withLa, core_of_none hk'none]
      -- k' is the advanced version of an item of the LR(0) closure of Is
      have hk'next : k' ∈ nextI := (hsame _).mp hk'mem
      obtain ⟨c0, hc0, hnextEq⟩ := kgoto_spec h (A := mkAuto g' false true fuel) rfl rfl hgo
      rw [hnextEq] at hk'next
      obtain ⟨j0, hj0, hj0d, rfl⟩ := mem_advance.mp hk'next
      replace hc0 : closure g' (nullableOf g') (firstEnv g' (nullableOf g')) fuel Is = Outcome.ok c0 := hc0
      have hj0clo := (mem_closure_iff (g := g') hc0 j0).mp hj0
      have hIsnone : ∀ i, i ∈ Is → i.la = none := fun i hi => s0_la_none R Is (List.mem_of_getElem? hIs) i hi
      have hj0none : j0.la = none := clo_la_none (g := g') hIsnone hj0clo
      -- lift j0 into the LR(1) closure
      obtain ⟨b, hb⟩ := clo_lift (g := g') (seed1 := fun i => i ∈ sortBy (cmpItem g'.start) K') hIsnone
        (fun i hi => by
          obtain ⟨a, hLA⟩ := kernel_has_la R hIs hi
          exact ⟨a, (hImem _).mpr ⟨i, a, hLA, rfl⟩⟩)
        (fun x hx => live_item hv ht ha hprod (clo_prod hv ht ha
          (fun i hi => (statesOK_good (s0_ok hv ht ha R) s Is hIs i hi).1) hx)) hj0clo
      have hbc : withLa j0 b ∈ c := (hcmem _).mpr hb
      apply mem_coreOf.mpr
      refine ⟨(withLa j0 b).next, mem_advance.mpr ⟨withLa j0 b, hbc, hj0d, rfl⟩, ?_⟩
      show (withLa j0 b).next.core = j0.next
      have : (withLa j0 b).next.core = j0.next.core := rfl
      rw [this]
      exact core_of_none hj0none
    · intro hz
      obtain ⟨w, hw, rfl⟩ := mem_coreOf.mp hz
      exact mem_coreOf.mpr ⟨w, hsub w hw, rfl⟩
  have hne : advance c X ≠ [] := by
    intro he
    have : it.next ∈ advance c X := mem_advance.mpr ⟨it, hit, hd, rfl⟩
    rw [he] at this
    simp at this
  obtain ⟨n2, K2, hn2, hK2, hsub2⟩ := findSuperset_found hne hcand hsub hcore
  exact ⟨n2, K2, hn2, hK2, hsub2 _ (mem_advance.mpr ⟨it, hit, hd, rfl⟩)⟩

end

end AlgoVerif.C11.Lalr
