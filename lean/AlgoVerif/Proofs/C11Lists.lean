import AlgoVerif.Model.C11
/-!
# C11 — list-as-set, sorting and monadic-fold lemmas used by `C11Built`
-/
namespace AlgoVerif.C11.Built
open AlgoVerif AlgoVerif.Gram AlgoVerif.C11

theorem mem_addNew {α} [DecidableEq α] {l : List α} {x y : α} : y ∈ addNew l x ↔ y ∈ l ∨ y = x := by
  unfold addNew
  by_cases h : x ∈ l
  · simp only [h, if_true]
    constructor
    · exact Or.inl
    · rintro (h' | rfl)
      · exact h'
      · exact h
  · simp [h]

theorem mem_foldl_addNew {α} [DecidableEq α] (add : List α) : ∀ (l : List α) (y : α),
    y ∈ add.foldl addNew l ↔ y ∈ l ∨ y ∈ add := by
  induction add with
  | nil => intro l y; simp
  | cons a add ih =>
    intro l y
    simp only [List.foldl_cons, ih, mem_addNew, List.mem_cons]
    constructor
    · rintro ((h | h) | h)
      · exact Or.inl h
      · exact Or.inr (Or.inl h)
      · exact Or.inr (Or.inr h)
    · rintro (h | h | h)
      · exact Or.inl (Or.inl h)
      · exact Or.inl (Or.inr h)
      · exact Or.inr h

theorem mem_unionNew {α} [DecidableEq α] {l add : List α} {y : α} : y ∈ unionNew l add ↔ y ∈ l ∨ y ∈ add :=
  mem_foldl_addNew add l y

theorem mem_dedupProds {ps : List Pr} {p : Pr} : p ∈ dedupProds ps ↔ p ∈ ps := by
  unfold dedupProds
  rw [mem_foldl_addNew]; simp

theorem subsetOf_iff {α} [DecidableEq α] {a b : List α} : subsetOf a b = true ↔ ∀ x ∈ a, x ∈ b := by
  simp [subsetOf, List.all_eq_true]

theorem sameSet_iff {α} [DecidableEq α] {a b : List α} : sameSet a b = true ↔ ∀ x, x ∈ a ↔ x ∈ b := by
  simp only [sameSet, Bool.and_eq_true, subsetOf_iff]
  constructor
  · rintro ⟨h1, h2⟩ x; exact ⟨h1 x, h2 x⟩
  · intro h; exact ⟨fun x hx => (h x).mp hx, fun x hx => (h x).mpr hx⟩

/-! ## sorting -/

theorem insertBy_perm {α} (cmp : α → α → Int) (x : α) : ∀ l : List α, (insertBy cmp x l).Perm (x :: l)
  | [] => by simp [insertBy]
  | y :: ys => by
    unfold insertBy
    split
    · exact List.Perm.refl _
    · exact ((insertBy_perm cmp x ys).cons y).trans (List.Perm.swap x y ys)

theorem foldl_insertBy_perm {α} (cmp : α → α → Int) : ∀ (l acc : List α),
    (l.foldl (fun acc x => insertBy cmp x acc) acc).Perm (l ++ acc)
  | [], acc => by simp
  | x :: l, acc => by
    simp only [List.foldl_cons]
    refine (foldl_insertBy_perm cmp l _).trans ?_
    refine (List.Perm.append_left l (insertBy_perm cmp x acc)).trans ?_
    simpa using (List.perm_middle (a := x) (l₁ := l) (l₂ := acc))

theorem sortBy_perm {α} (cmp : α → α → Int) (l : List α) : (sortBy cmp l).Perm l := by
  simpa [sortBy] using foldl_insertBy_perm cmp l []

theorem mem_sortBy {α} (cmp : α → α → Int) (l : List α) (y : α) : y ∈ sortBy cmp l ↔ y ∈ l :=
  (sortBy_perm cmp l).mem_iff

/-- `x` is put in front of every other element -/
def Dominates {α} (cmp : α → α → Int) (x : α) (l : List α) : Prop :=
  ∀ y ∈ l, y ≠ x → cmp x y ≤ 0 ∧ ¬ cmp y x ≤ 0

theorem head_insertBy {α} (cmp : α → α → Int) (x y : α) (acc : List α)
    (hdom : ∀ z ∈ y :: acc, z ≠ x → cmp x z ≤ 0 ∧ ¬ cmp z x ≤ 0)
    (hinv : x ∈ acc → acc.head? = some x) :
    x ∈ insertBy cmp y acc → (insertBy cmp y acc).head? = some x := by
  intro hmem
  cases acc with
  | nil =>
    simp only [insertBy, List.mem_cons, List.not_mem_nil, or_false] at hmem
    simp [insertBy, hmem]
  | cons z zs =>
    unfold insertBy at hmem ⊢
    by_cases hc : cmp y z ≤ 0
    · simp only [hc, if_true] at hmem ⊢
      by_cases hyx : y = x
      · simp [hyx]
      · -- x is in the old list, so it is its head z; then cmp y x ≤ 0 contradicts dominance
        have hx : x ∈ z :: zs := by
          rcases List.mem_cons.mp hmem with h | h
          · exact absurd h.symm hyx
          · exact h
        have hz : z = x := by simpa using hinv hx
        subst hz
        exact absurd hc (hdom y (by simp) hyx).2
    · simp only [hc, if_false] at hmem ⊢
      by_cases hzx : z = x
      · simp [hzx]
      · -- x is not the head of the old list, so it is not in it; it must be y, but then cmp y z ≤ 0
        have hxacc : x ∉ z :: zs := by
          intro h
          have := hinv h
          simp at this
          exact hzx this
        have hyx : y = x := by
          rcases List.mem_cons.mp hmem with h | h
          · exact absurd h.symm hzx |> False.elim
          · have := (insertBy_perm cmp y zs).mem_iff.mp h
            rcases List.mem_cons.mp this with h' | h'
            · exact h'.symm
            · exact absurd (List.mem_cons_of_mem _ h') hxacc
        subst hyx
        exact absurd (hdom z (by simp) hzx).1 hc

theorem head_foldl_insertBy {α} (cmp : α → α → Int) (x : α) : ∀ (l acc : List α),
    (∀ z ∈ l ++ acc, z ≠ x → cmp x z ≤ 0 ∧ ¬ cmp z x ≤ 0) →
    (x ∈ acc → acc.head? = some x) →
    x ∈ l.foldl (fun acc y => insertBy cmp y acc) acc →
    (l.foldl (fun acc y => insertBy cmp y acc) acc).head? = some x
  | [], acc, _, hinv, hmem => by simpa using hinv (by simpa using hmem)
  | y :: l, acc, hdom, hinv, hmem => by
    simp only [List.foldl_cons] at hmem ⊢
    apply head_foldl_insertBy cmp x l (insertBy cmp y acc)
    · intro z hz
      apply hdom
      rcases List.mem_append.mp hz with h | h
      · simp [h]
      · have := (insertBy_perm cmp y acc).mem_iff.mp h
        rcases List.mem_cons.mp this with h' | h'
        · simp [h']
        · simp [h']
    · exact head_insertBy cmp x y acc (fun z hz => hdom z (by
        rcases List.mem_cons.mp hz with h | h
        · simp [h]
        · simp [h])) hinv
    · exact hmem

/-- an element that dominates all others ends up at the head of the sorted list -/
theorem head_sortBy {α} (cmp : α → α → Int) (x : α) (l : List α) (hx : x ∈ l) (hdom : Dominates cmp x l) :
    (sortBy cmp l).head? = some x := by
  unfold sortBy
  apply head_foldl_insertBy cmp x l []
  · intro z hz; exact hdom z (by simpa using hz)
  · intro h; simp at h
  · exact (mem_sortBy cmp l x).mpr hx

/-! ## `findIdx?` -/

theorem findIdx?_some {α} (p : α → Bool) : ∀ (l : List α) (i : Nat), l.findIdx? p = some i →
    ∃ x, l[i]? = some x ∧ p x = true
  | [], i, h => by simp at h
  | a :: l, i, h => by
    rw [List.findIdx?_cons] at h
    by_cases hp : p a = true
    · simp only [hp, if_true, Option.some.injEq] at h
      subst h
      exact ⟨a, by simp, hp⟩
    · simp only [hp, Bool.false_eq_true, if_false, Option.map_eq_some_iff] at h
      obtain ⟨j, hj, rfl⟩ := h
      obtain ⟨x, hx, hpx⟩ := findIdx?_some p l j hj
      exact ⟨x, by simpa using hx, hpx⟩

/-! ## folds in the `Outcome` monad -/

theorem bind_eq_ok {α β} {x : Outcome α} {f : α → Outcome β} {r : β} (h : (x >>= f) = Outcome.ok r) :
    ∃ a, x = Outcome.ok a ∧ f a = Outcome.ok r := by
  cases x with
  | ok a => exact ⟨a, rfl, h⟩
  | panic => simp [bind, Outcome.bind] at h
  | diverge => simp [bind, Outcome.bind] at h

theorem pure_eq_ok {α} {a r : α} (h : (pure a : Outcome α) = Outcome.ok r) : a = r := by
  simpa [pure] using h

theorem foldlM_inv {α β} (f : β → α → Outcome β) (P : β → Prop) :
    ∀ (l : List α) (init r : β), (∀ b a b', a ∈ l → P b → f b a = Outcome.ok b' → P b') →
      P init → l.foldlM f init = Outcome.ok r → P r
  | [], init, r, _, hP, h => by
    have : init = r := by simpa [List.foldlM, pure] using h
    exact this ▸ hP
  | a :: l, init, r, hstep, hP, h => by
    rw [List.foldlM_cons] at h
    obtain ⟨b', hb', hrest⟩ := bind_eq_ok h
    exact foldlM_inv f P l b' r (fun b a' b'' ha' => hstep b a' b'' (List.mem_cons_of_mem _ ha'))
      (hstep init a b' (by simp) hP hb') hrest

end AlgoVerif.C11.Built
