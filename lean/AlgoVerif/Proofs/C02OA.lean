import AlgoVerif.Proofs.C02Sim
import AlgoVerif.Proofs.C02Num
import Mathlib.Tactic.Linarith
/-!
# C02/C03 — quadratic probing and double hashing: the Model satisfies `Correct`

Invariant (Appendix B of DESIGN.md): no key occupies two slots (soft-deleted ones included); every
occupied slot is reached by the probe sequence of its key through occupied slots only, within the
first `cover` probes; `n` = number of live slots, `u` = number of occupied slots; `u/m ≤ maxLF ≤ 1/2`.
-/
set_option linter.unusedSectionVars false
namespace AlgoVerif.C02
open Spec AlgoVerif.Generated
variable {K V σ : Type} [DecidableEq K]

abbrev Slots (K V : Type) := Array (Option (Entry K V))

/-- the key stored in slot `i` (live or soft-deleted) -/
def keyAt (s : Slots K V) (i : Nat) : Option K :=
  match s[i]? with
  | some (some e) => some e.key
  | _ => none

def isUsed (s : Slots K V) (i : Nat) : Bool := (keyAt s i).isSome

def isLive (s : Slots K V) (i : Nat) : Bool :=
  match s[i]? with
  | some (some e) => !e.deleted
  | _ => false

theorem exists_least {P : Nat → Prop} (h : ∃ i, P i) : ∃ i, P i ∧ ∀ j, j < i → ¬ P j := by
  classical
  exact ⟨Nat.find h, Nat.find_spec h, fun j hj => Nat.find_min h hj⟩

theorem keyAt_eq_some {s : Slots K V} {i : Nat} {k : K} :
    keyAt s i = some k ↔ ∃ e, s[i]? = some (some e) ∧ e.key = k := by
  unfold keyAt
  split
  · rename_i e he
    simp [he]
  · rename_i hne
    constructor
    · intro h; cases h
    · rintro ⟨e, he, _⟩; exact absurd he (hne e)

theorem isUsed_false_of_none {s : Slots K V} {i : Nat} (h : s[i]? = some none) : isUsed s i = false := by
  simp [isUsed, keyAt, h]

theorem isUsed_true_of_some {s : Slots K V} {i : Nat} {e : Entry K V} (h : s[i]? = some (some e)) : isUsed s i = true := by
  simp [isUsed, keyAt, h]

/-- below `size`, a slot that is not used is nil -/
theorem none_of_not_used {s : Slots K V} {i : Nat} (hi : i < s.size) (h : isUsed s i = false) : s[i]? = some none := by
  have hs : s[i]? = some s[i] := by simp [hi]
  cases hx : s[i] with
  | none => rw [hs, hx]
  | some e =>
    rw [hx] at hs
    rw [isUsed_true_of_some hs] at h; cases h

theorem isLive_imp_isUsed {s : Slots K V} {i : Nat} (h : isLive s i = true) : isUsed s i = true := by
  unfold isLive at h
  split at h
  · rename_i e he; exact isUsed_true_of_some he
  · cases h

/-! ### slots after writing one entry -/

theorem get_set (s : Slots K V) (idx : Nat) (hidx : idx < s.size) (x : Option (Entry K V)) (j : Nat) :
    (s.setIfInBounds idx x)[j]? = if j = idx then some x else s[j]? := by
  rw [Array.getElem?_setIfInBounds]
  by_cases h : idx = j
  · subst h; simp [hidx]
  · simp [h, Ne.symm h]

theorem keyAt_set (s : Slots K V) (idx : Nat) (hidx : idx < s.size) (e : Entry K V) (j : Nat) :
    keyAt (s.setIfInBounds idx (some e)) j = if j = idx then some e.key else keyAt s j := by
  unfold keyAt
  rw [get_set s idx hidx]
  by_cases h : j = idx <;> simp [h]

theorem isLive_set (s : Slots K V) (idx : Nat) (hidx : idx < s.size) (e : Entry K V) (j : Nat) :
    isLive (s.setIfInBounds idx (some e)) j = if j = idx then !e.deleted else isLive s j := by
  unfold isLive
  rw [get_set s idx hidx]
  by_cases h : j = idx <;> simp [h]

/-! ### invariant and abstraction -/

/-- "`t` holds the live pair `(k, v)`" -/
def OA.Live (t : OATable K V) (k : K) (v : V) : Prop :=
  ∃ (i : Nat) (e : Entry K V), t.slots[i]? = some (some e) ∧ e.key = k ∧ e.val = v ∧ e.deleted = false

/-- the probe sequence of `key` in `t` -/
def OA.pr (hash : K → UInt64) (t : OATable K V) (key : K) (i : Nat) : Nat :=
  probeIdx t.kind t.m t.p (mix (hash key)) i

structure OA.InvCore (hash : K → UInt64) (t : OATable K V) : Prop where
  size : t.slots.size = t.m
  prime : Nat.Prime t.m
  minM : t.kind.minM ≤ t.m
  p_eq : t.kind = .dbl → t.p = (t.m : Int)
  n_eq : t.n = ((cnt (isLive t.slots) t.m : Nat) : Int)
  u_eq : t.u = ((cnt (isUsed t.slots) t.m : Nat) : Int)
  lf : ValidLF t.kind.defMinLF t.kind.defMaxLF t.minLF t.maxLF
  uniq : ∀ i j k, keyAt t.slots i = some k → keyAt t.slots j = some k → i = j
  reach : ∀ idx k, keyAt t.slots idx = some k → ∃ i, i < cover t.kind t.m ∧ OA.pr hash t k i = idx ∧
    ∀ j, j < i → isUsed t.slots (OA.pr hash t k j) = true

/-- invariant with room for `r` more occupied slots: `(u + r)/m ≤ maxLF` -/
def OA.Room (hash : K → UInt64) (r : Nat) (t : OATable K V) : Prop :=
  OA.InvCore hash t ∧ (t.u + (r : Int)) * (t.maxLF.den : Int) ≤ (t.maxLF.num : Int) * (t.m : Int)

abbrev OA.Inv (hash : K → UInt64) (t : OATable K V) : Prop := OA.Room hash 0 t

theorem OA.minM_ge (kind : Kind) : 31 ≤ kind.minM := by cases kind <;> decide

theorem OA.lf_facts {kind : Kind} {minLF maxLF : LF} (h : ValidLF kind.defMinLF kind.defMaxLF minLF maxLF) :
    0 < minLF.num ∧ 0 < maxLF.num ∧ maxLF.den < 8 * maxLF.num ∧ 2 * maxLF.num ≤ maxLF.den := by
  obtain ⟨h1, h2, h3, h4, h5⟩ := h
  have e3 : minLF.den ≤ minLF.num * 8 := by
    cases kind <;> simpa [Kind.defMinLF, symboltable_qpMinLoadFactor_num, symboltable_qpMinLoadFactor_den,
      symboltable_dhMinLoadFactor_num, symboltable_dhMinLoadFactor_den] using h3
  have e5 : maxLF.num * 2 ≤ maxLF.den := by
    cases kind <;> simpa [Kind.defMaxLF, symboltable_qpMaxLoadFactor_num, symboltable_qpMaxLoadFactor_den,
      symboltable_dhMaxLoadFactor_num, symboltable_dhMaxLoadFactor_den] using h5
  have a : 0 < minLF.num := by omega
  have b : 0 < maxLF.num := by
    rcases Nat.eq_zero_or_pos maxLF.num with hz | hz
    · rw [hz] at h4; simp at h4
    · exact hz
  refine ⟨a, b, ?_, by omega⟩
  by_contra hc
  have hc' : 8 * maxLF.num ≤ maxLF.den := by omega
  have e1 := Nat.mul_le_mul_right maxLF.den e3
  have e2 := Nat.mul_le_mul_right minLF.den hc'
  have e6 := Nat.mul_pos h1 h2
  nlinarith

theorem OA.m_facts {hash : K → UInt64} {t : OATable K V} (hI : OA.InvCore hash t) :
    31 ≤ t.m ∧ t.m % 2 = 1 := by
  have h1 := OA.minM_ge t.kind
  have h2 := hI.minM
  refine ⟨by omega, ?_⟩
  rcases Nat.Prime.eq_two_or_odd hI.prime with h | h
  · omega
  · exact h

theorem OA.pr_lt {hash : K → UInt64} {t : OATable K V} (hI : OA.InvCore hash t) (key : K) (i : Nat) :
    OA.pr hash t key i < t.slots.size := by
  rw [hI.size]
  exact probeIdx_lt _ _ _ _ _ hI.prime.pos

theorem OA.den_le {hash : K → UInt64} {t : OATable K V} (hI : OA.InvCore hash t) :
    (t.maxLF.den : Int) ≤ (t.maxLF.num : Int) * (t.m : Int) := by
  obtain ⟨_, _, h, _⟩ := OA.lf_facts hI.lf
  have hm := (OA.m_facts hI).1
  have : t.maxLF.den ≤ t.maxLF.num * t.m := by
    calc t.maxLF.den ≤ 8 * t.maxLF.num := h.le
      _ = t.maxLF.num * 8 := Nat.mul_comm _ _
      _ ≤ t.maxLF.num * t.m := Nat.mul_le_mul_left _ (by omega)
  exact_mod_cast this

/-- the load bound leaves an unoccupied slot among the first `cover` probes -/
theorem OA.u_lt_cover {hash : K → UInt64} {t : OATable K V} (h : OA.Inv hash t) :
    cnt (isUsed t.slots) t.m < cover t.kind t.m := by
  obtain ⟨hI, hroom⟩ := h
  obtain ⟨_, hnum, _, h2⟩ := OA.lf_facts hI.lf
  obtain ⟨hm, hodd⟩ := OA.m_facts hI
  rw [hI.u_eq] at hroom
  have hr : cnt (isUsed t.slots) t.m * t.maxLF.den ≤ t.maxLF.num * t.m := by
    have : ((cnt (isUsed t.slots) t.m * t.maxLF.den : Nat) : Int) ≤ ((t.maxLF.num * t.m : Nat) : Int) := by
      push_cast; push_cast at hroom; linarith
    exact_mod_cast this
  have h2u : 2 * cnt (isUsed t.slots) t.m ≤ t.m := by
    have e1 : cnt (isUsed t.slots) t.m * (2 * t.maxLF.num) ≤ cnt (isUsed t.slots) t.m * t.maxLF.den :=
      Nat.mul_le_mul_left _ h2
    have e2 : t.maxLF.num * (2 * cnt (isUsed t.slots) t.m) ≤ t.maxLF.num * t.m := by nlinarith
    exact Nat.le_of_mul_le_mul_left e2 hnum
  cases hk : t.kind <;> simp only [cover] <;> omega

theorem OA.exists_free {hash : K → UInt64} {t : OATable K V} (h : OA.Inv hash t) (key : K) :
    ∃ i, i < cover t.kind t.m ∧ t.slots[OA.pr hash t key i]? = some none := by
  by_contra hc
  have hall : ∀ i, i < cover t.kind t.m → isUsed t.slots (OA.pr hash t key i) = true := by
    intro i hi
    by_contra hu
    have hu' : isUsed t.slots (OA.pr hash t key i) = false := by simpa using hu
    exact hc ⟨i, hi, none_of_not_used (OA.pr_lt h.1 key i) hu'⟩
  have := pigeonhole (isUsed t.slots) (OA.pr hash t key) (cover t.kind t.m) t.m
    (fun i _ => by have := OA.pr_lt h.1 key i; rw [h.1.size] at this; exact this)
    (fun i j hij hj => probeIdx_inj t.kind t.m h.1.prime t.p h.1.p_eq _ i j hij hj)
    hall
  have := OA.u_lt_cover h
  omega

/-! ### the probe loops as one generic walk -/

/-- inspect the slots `P i, P (i+1), …` until `stop` answers -/
def walk {α β : Type} (slots : Array (Option α)) (P : Nat → Nat) (stop : Nat → Option α → Option β) :
    Nat → Nat → Outcome β
  | 0, _ => .diverge
  | fuel + 1, i =>
    match slots[P i]? with
    | none => .panic
    | some x =>
      match stop i x with
      | some r => .ok r
      | none => walk slots P stop fuel (i + 1)

theorem walk_spec {α β : Type} (slots : Array (Option α)) (P : Nat → Nat) (stop : Nat → Option α → Option β) :
    ∀ fuel i i1 x1 r, i ≤ i1 → i1 < i + fuel →
      (∀ j, i ≤ j → j < i1 → ∃ x, slots[P j]? = some x ∧ stop j x = none) →
      slots[P i1]? = some x1 → stop i1 x1 = some r →
      walk slots P stop fuel i = .ok r := by
  intro fuel
  induction fuel with
  | zero => intro i i1 _ _ h1 h2; omega
  | succ f ih =>
    intro i i1 x1 r h1 h2 hbefore hx hs
    unfold walk
    rcases Nat.eq_or_lt_of_le h1 with rfl | hlt
    · simp only [hx, hs]
    · obtain ⟨x, hx', hs'⟩ := hbefore i (Nat.le_refl i) hlt
      simp only [hx', hs']
      exact ih (i + 1) i1 x1 r (by omega) (by omega) (fun j hj1 hj2 => hbefore j (by omega) hj2) hx hs

/-- if the walk can stop somewhere, it stops at the least such probe -/
theorem walk_least {α β : Type} (slots : Array (Option α)) (P : Nat → Nat) (stop : Nat → Option α → Option β)
    (hin : ∀ i, P i < slots.size) (i0 : Nat) (x0 : Option α) (hx0 : slots[P i0]? = some x0) (hs0 : (stop i0 x0).isSome)
    (fuel : Nat) (hfuel : i0 < fuel) :
    ∃ i1 x1 r, i1 ≤ i0 ∧ slots[P i1]? = some x1 ∧ stop i1 x1 = some r ∧
      (∀ j, j < i1 → ∃ x, slots[P j]? = some x ∧ stop j x = none) ∧
      walk slots P stop fuel 0 = .ok r := by
  obtain ⟨i1, ⟨x1, hx1, hs1⟩, hmin⟩ := exists_least (P := fun i => ∃ x, slots[P i]? = some x ∧ (stop i x).isSome)
    ⟨i0, x0, hx0, hs0⟩
  obtain ⟨r, hr⟩ := Option.isSome_iff_exists.1 hs1
  have hle : i1 ≤ i0 := by
    by_contra hc
    exact hmin i0 (by omega) ⟨x0, hx0, hs0⟩
  have hbefore : ∀ j, j < i1 → ∃ x, slots[P j]? = some x ∧ stop j x = none := by
    intro j hj
    obtain ⟨x, hsj⟩ : ∃ x, slots[P j]? = some x := ⟨slots[P j]'(hin j), by simp [hin j]⟩
    refine ⟨x, hsj, ?_⟩
    by_contra hne
    exact hmin j hj ⟨x, hsj, Option.isSome_iff_ne_none.2 hne⟩
  exact ⟨i1, x1, r, hle, hx1, hr, hbefore,
    walk_spec slots P stop fuel 0 i1 x1 r (Nat.zero_le _) (by omega) (fun j _ hj => hbefore j hj) hx1 hr⟩

/-- `stop` of the search loop shared by `Put` and `Delete`: nil slot or the key -/
def stopFind (key : K) (x : Option (Entry K V)) : Bool :=
  match x with
  | none => true
  | some e => decide (e.key = key)

/-- `stop` of the loop of `Get`: nil slot or the live key -/
def stopGet (key : K) (x : Option (Entry K V)) : Bool :=
  match x with
  | none => true
  | some e => !e.deleted && decide (e.key = key)

theorem OA.findLoop_eq (hash : K → UInt64) (t : OATable K V) (key : K) : ∀ fuel i,
    OA.findLoop t (mix (hash key)) key fuel i =
      walk t.slots (OA.pr hash t key) (fun i x => if stopFind key x then some (OA.pr hash t key i) else none) fuel i := by
  intro fuel
  induction fuel with
  | zero => intro i; rfl
  | succ f ih =>
    intro i
    have hpr : ∀ i, probeIdx t.kind t.m t.p (mix (hash key)) i = OA.pr hash t key i := fun _ => rfl
    unfold OA.findLoop walk
    simp only [hpr]
    cases hx : t.slots[OA.pr hash t key i]? with
    | none => rfl
    | some x =>
      cases x with
      | none => simp [stopFind]
      | some e =>
        by_cases hk : e.key = key
        · simp [stopFind, hk]
        · simp only [stopFind, hk, if_false, decide_false, Bool.false_eq_true]
          exact ih (i + 1)

theorem OA.getLoop_eq (hash : K → UInt64) (t : OATable K V) (key : K) : ∀ fuel i,
    OA.getLoop t (mix (hash key)) key fuel i =
      walk t.slots (OA.pr hash t key) (fun _ x => if stopGet key x then some (x.map (·.val)) else none) fuel i := by
  intro fuel
  induction fuel with
  | zero => intro i; rfl
  | succ f ih =>
    intro i
    have hpr : ∀ i, probeIdx t.kind t.m t.p (mix (hash key)) i = OA.pr hash t key i := fun _ => rfl
    unfold OA.getLoop walk
    simp only [hpr]
    cases hx : t.slots[OA.pr hash t key i]? with
    | none => rfl
    | some x =>
      cases x with
      | none => simp [stopGet]
      | some e =>
        by_cases hk : (!e.deleted && decide (e.key = key)) = true
        · simp [stopGet, hk]
        · simp only [stopGet, hk, if_false, Bool.false_eq_true]
          exact ih (i + 1)

/-- what `Put` writes when its search stops at slot content `x` -/
def putAt (t : OATable K V) (idx : Nat) (key : K) (val : V) (x : Option (Entry K V)) : OATable K V :=
  match x with
  | none => { t with slots := t.slots.setIfInBounds idx (some ⟨key, val, false⟩), n := t.n + 1, u := t.u + 1 }
  | some e => { t with slots := t.slots.setIfInBounds idx (some ⟨e.key, val, false⟩),
                       n := if e.deleted then t.n + 1 else t.n }

theorem OA.putLoop_eq (hash : K → UInt64) (t : OATable K V) (key : K) (val : V) : ∀ fuel i,
    OA.putLoop t (mix (hash key)) key val fuel i =
      walk t.slots (OA.pr hash t key)
        (fun i x => if stopFind key x then some (putAt t (OA.pr hash t key i) key val x) else none) fuel i := by
  intro fuel
  induction fuel with
  | zero => intro i; rfl
  | succ f ih =>
    intro i
    have hpr : ∀ i, probeIdx t.kind t.m t.p (mix (hash key)) i = OA.pr hash t key i := fun _ => rfl
    unfold OA.putLoop walk
    simp only [hpr]
    cases hx : t.slots[OA.pr hash t key i]? with
    | none => rfl
    | some x =>
      cases x with
      | none => simp [stopFind, putAt]
      | some e =>
        by_cases hk : e.key = key
        · simp [stopFind, hk, putAt]
        · simp only [stopFind, hk, if_false, decide_false, Bool.false_eq_true]
          exact ih (i + 1)

/-- the probe counters are the same walks, counting -/
theorem OA.probesFind_eq (hash : K → UInt64) (t : OATable K V) (key : K) : ∀ fuel i c,
    walk t.slots (OA.pr hash t key) (fun i x => if stopFind key x then some (i + 1) else none) fuel i = .ok c →
    OA.probesFind t (mix (hash key)) key fuel i = some c := by
  intro fuel
  induction fuel with
  | zero => intro i c h; simp [walk] at h
  | succ f ih =>
    intro i c
    have hpr : ∀ i, probeIdx t.kind t.m t.p (mix (hash key)) i = OA.pr hash t key i := fun _ => rfl
    unfold OA.probesFind walk
    simp only [hpr]
    cases hx : t.slots[OA.pr hash t key i]? with
    | none => simp
    | some x =>
      cases x with
      | none => simp [stopFind]
      | some e =>
        by_cases hk : e.key = key
        · simp [stopFind, hk]
        · simp only [stopFind, hk, if_false, decide_false, Bool.false_eq_true]
          exact ih (i + 1) c

theorem OA.probesGet_eq (hash : K → UInt64) (t : OATable K V) (key : K) : ∀ fuel i c,
    walk t.slots (OA.pr hash t key) (fun i x => if stopGet key x then some (i + 1) else none) fuel i = .ok c →
    OA.probesGet t (mix (hash key)) key fuel i = some c := by
  intro fuel
  induction fuel with
  | zero => intro i c h; simp [walk] at h
  | succ f ih =>
    intro i c
    have hpr : ∀ i, probeIdx t.kind t.m t.p (mix (hash key)) i = OA.pr hash t key i := fun _ => rfl
    unfold OA.probesGet walk
    simp only [hpr]
    cases hx : t.slots[OA.pr hash t key i]? with
    | none => simp
    | some x =>
      cases x with
      | none => simp [stopGet]
      | some e =>
        by_cases hk : (!e.deleted && decide (e.key = key)) = true
        · simp [stopGet, hk]
        · simp only [stopGet, hk, if_false, Bool.false_eq_true]
          exact ih (i + 1) c

/-! ### where the loops stop -/

theorem OA.room_weaken {hash : K → UInt64} {t : OATable K V} {r : Nat} (h : OA.Room hash r t) : OA.Inv hash t := by
  refine ⟨h.1, ?_⟩
  have h2 := h.2
  have : (0 : Int) ≤ (r : Int) * (t.maxLF.den : Int) := Int.mul_nonneg (Int.natCast_nonneg _) (Int.natCast_nonneg _)
  push_cast at h2 ⊢
  nlinarith

/-- the search loop of `Put`/`Delete` stops within `cover` probes, at the first slot that is nil or holds
`key`; if that slot is nil, no slot holds `key` -/
theorem OA.find_result (hash : K → UInt64) (t : OATable K V) (key : K) (h : OA.Inv hash t) :
    ∃ i1 x1, i1 < cover t.kind t.m ∧ t.slots[OA.pr hash t key i1]? = some x1 ∧ stopFind key x1 = true ∧
      (∀ j, j < i1 → isUsed t.slots (OA.pr hash t key j) = true) ∧
      (∀ (β : Type) (f : Nat → Option (Entry K V) → β),
        walk t.slots (OA.pr hash t key) (fun i x => if stopFind key x then some (f i x) else none) t.m 0 = .ok (f i1 x1)) ∧
      (∀ i, i ≠ OA.pr hash t key i1 → keyAt t.slots i ≠ some key) := by
  obtain ⟨i0, hi0, hfree⟩ := OA.exists_free h key
  have hcov := cover_le t.kind t.m
  obtain ⟨i1, x1, _, hle, hx1, hs1, hbefore, _⟩ := walk_least t.slots (OA.pr hash t key)
    (fun _ x => if stopFind key x then some () else none) (OA.pr_lt h.1 key) i0 none hfree (by simp [stopFind]) t.m (by omega)
  have hstop : stopFind key x1 = true := by
    by_contra hc
    simp [hc] at hs1
  have hbefore' : ∀ j, j < i1 → ∃ e, t.slots[OA.pr hash t key j]? = some (some e) ∧ e.key ≠ key := by
    intro j hj
    obtain ⟨x, hx, hs⟩ := hbefore j hj
    cases x with
    | none => simp [stopFind] at hs
    | some e =>
      refine ⟨e, hx, ?_⟩
      intro hk
      simp [stopFind, hk] at hs
  refine ⟨i1, x1, by omega, hx1, hstop, ?_, ?_, ?_⟩
  · intro j hj
    obtain ⟨e, he, _⟩ := hbefore' j hj
    exact isUsed_true_of_some he
  · intro β f
    apply walk_spec _ _ _ t.m 0 i1 x1 (f i1 x1) (Nat.zero_le _) (by omega)
    · intro j _ hj
      obtain ⟨e, he, hk⟩ := hbefore' j hj
      exact ⟨some e, he, by simp [stopFind, hk]⟩
    · exact hx1
    · simp [hstop]
  · intro i hi hk
    cases x1 with
    | some e =>
      have hke : e.key = key := by simpa [stopFind] using hstop
      have : keyAt t.slots (OA.pr hash t key i1) = some key := keyAt_eq_some.2 ⟨e, hx1, hke⟩
      exact hi (h.1.uniq _ _ _ hk this)
    | none =>
      obtain ⟨i', _, hpi, hused⟩ := h.1.reach i key hk
      rcases Nat.lt_trichotomy i' i1 with hlt | heq | hgt
      · obtain ⟨e, he, hne⟩ := hbefore' i' hlt
        rw [hpi] at he
        obtain ⟨e', he', hk'⟩ := keyAt_eq_some.1 hk
        rw [he] at he'
        injection he' with he'; injection he' with he'
        subst he'
        exact hne hk'
      · subst heq; exact hi hpi.symm
      · have := hused i1 hgt
        rw [isUsed_false_of_none hx1] at this
        cases this

/-- the loop of `Get` stops within `cover` probes, at the first slot that is nil or holds the live `key` -/
theorem OA.get_result (hash : K → UInt64) (t : OATable K V) (key : K) (h : OA.Inv hash t) :
    ∃ i1 x1, i1 < cover t.kind t.m ∧ t.slots[OA.pr hash t key i1]? = some x1 ∧ stopGet key x1 = true ∧
      (∀ (β : Type) (f : Nat → Option (Entry K V) → β),
        walk t.slots (OA.pr hash t key) (fun i x => if stopGet key x then some (f i x) else none) t.m 0 = .ok (f i1 x1)) ∧
      (∀ v, x1.map (·.val) = some v ↔ OA.Live t key v) := by
  obtain ⟨i0, hi0, hfree⟩ := OA.exists_free h key
  have hcov := cover_le t.kind t.m
  obtain ⟨i1, x1, _, hle, hx1, hs1, hbefore, _⟩ := walk_least t.slots (OA.pr hash t key)
    (fun _ x => if stopGet key x then some () else none) (OA.pr_lt h.1 key) i0 none hfree (by simp [stopGet]) t.m (by omega)
  have hstop : stopGet key x1 = true := by
    by_contra hc
    simp [hc] at hs1
  have hbefore' : ∀ j, j < i1 → ∃ e, t.slots[OA.pr hash t key j]? = some (some e) ∧ ¬ (e.deleted = false ∧ e.key = key) := by
    intro j hj
    obtain ⟨x, hx, hs⟩ := hbefore j hj
    cases x with
    | none => simp [stopGet] at hs
    | some e =>
      refine ⟨e, hx, ?_⟩
      rintro ⟨h1, h2⟩
      simp [stopGet, h1, h2] at hs
  refine ⟨i1, x1, by omega, hx1, hstop, ?_, ?_⟩
  · intro β f
    apply walk_spec _ _ _ t.m 0 i1 x1 (f i1 x1) (Nat.zero_le _) (by omega)
    · intro j _ hj
      obtain ⟨e, he, hk⟩ := hbefore' j hj
      refine ⟨some e, he, ?_⟩
      have : stopGet key (some e) = false := by
        simp only [stopGet]
        by_contra hc
        simp only [Bool.not_eq_false, Bool.and_eq_true, Bool.not_eq_eq_eq_not, Bool.not_true, decide_eq_true_eq] at hc
        exact hk hc
      simp [this]
    · exact hx1
    · simp [hstop]
  · intro v
    cases x1 with
    | some e1 =>
      have hlive : e1.deleted = false ∧ e1.key = key := by simpa [stopGet] using hstop
      simp only [Option.map_some, Option.some.injEq]
      constructor
      · intro hv
        exact ⟨_, e1, hx1, hlive.2, hv, hlive.1⟩
      · rintro ⟨idx, e, he, hk, hv, _⟩
        have k1 : keyAt t.slots idx = some key := keyAt_eq_some.2 ⟨e, he, hk⟩
        have k2 : keyAt t.slots (OA.pr hash t key i1) = some key := keyAt_eq_some.2 ⟨e1, hx1, hlive.2⟩
        have := h.1.uniq _ _ _ k1 k2
        subst this
        rw [he] at hx1
        injection hx1 with hx1; injection hx1 with hx1
        subst hx1; exact hv
    | none =>
      simp only [Option.map_none, reduceCtorEq, false_iff]
      rintro ⟨idx, e, he, hk, hv, hd⟩
      have k1 : keyAt t.slots idx = some key := keyAt_eq_some.2 ⟨e, he, hk⟩
      obtain ⟨i', _, hpi, hused⟩ := h.1.reach idx key k1
      rcases Nat.lt_trichotomy i' i1 with hlt | heq | hgt
      · obtain ⟨e', he', hne⟩ := hbefore' i' hlt
        rw [hpi, he] at he'
        injection he' with he'; injection he' with he'
        subst he'
        exact hne ⟨hd, hk⟩
      · subst heq
        rw [hpi, he] at hx1
        cases hx1
      · have := hused i1 hgt
        rw [isUsed_false_of_none hx1] at this
        cases this

theorem OA.get_spec (hash : K → UInt64) (t : OATable K V) (key : K) (h : OA.Inv hash t) :
    ∃ o, OA.get hash t key = .ok o ∧ ∀ v, o = some v ↔ OA.Live t key v := by
  obtain ⟨i1, x1, _, _, _, hwalk, hlive⟩ := OA.get_result hash t key h
  refine ⟨x1.map (·.val), ?_, hlive⟩
  unfold OA.get
  rw [OA.getLoop_eq]
  exact hwalk _ (fun _ x => x.map (·.val))

/-! ### `Put` after the load check -/

theorem isUsed_set (s : Slots K V) (idx : Nat) (hidx : idx < s.size) (e : Entry K V) (j : Nat) :
    isUsed (s.setIfInBounds idx (some e)) j = if j = idx then true else isUsed s j := by
  unfold isUsed
  rw [keyAt_set s idx hidx]
  by_cases h : j = idx <;> simp [h]

/-- writing `(key, val, live)` into the slot where the search for `key` stopped keeps the structural part of
the invariant and has the expected effect on the abstraction -/
theorem OA.write_spec (hash : K → UInt64) (t : OATable K V) (key : K) (val : V) (h : OA.Inv hash t)
    (i1 : Nat) (x1 : Option (Entry K V)) (hi1 : i1 < cover t.kind t.m)
    (hx1 : t.slots[OA.pr hash t key i1]? = some x1) (hstop : stopFind key x1 = true)
    (hbefore : ∀ j, j < i1 → isUsed t.slots (OA.pr hash t key j) = true)
    (hother : ∀ i, i ≠ OA.pr hash t key i1 → keyAt t.slots i ≠ some key)
    (n' u' : Int)
    (hn : n' = ((cnt (isLive (t.slots.setIfInBounds (OA.pr hash t key i1) (some ⟨key, val, false⟩))) t.m : Nat) : Int))
    (hu : u' = ((cnt (isUsed (t.slots.setIfInBounds (OA.pr hash t key i1) (some ⟨key, val, false⟩))) t.m : Nat) : Int)) :
    OA.InvCore hash { t with slots := t.slots.setIfInBounds (OA.pr hash t key i1) (some ⟨key, val, false⟩), n := n', u := u' } ∧
    ∀ k' v', OA.Live { t with slots := t.slots.setIfInBounds (OA.pr hash t key i1) (some ⟨key, val, false⟩), n := n', u := u' } k' v' ↔
      (k' = key ∧ v' = val) ∨ (k' ≠ key ∧ OA.Live t k' v') := by
  have hidx := OA.pr_lt h.1 key i1
  generalize hpr : OA.pr hash t key i1 = idx at *
  have hk := keyAt_set t.slots idx hidx ⟨key, val, false⟩
  have hus := isUsed_set t.slots idx hidx ⟨key, val, false⟩
  have hg := get_set t.slots idx hidx (some ⟨key, val, false⟩)
  constructor
  · refine ⟨by simp [h.1.size], h.1.prime, h.1.minM, h.1.p_eq, hn, hu, h.1.lf, ?_, ?_⟩
    · intro i j k hi hj
      simp only [hk] at hi hj
      by_cases hii : i = idx <;> by_cases hjj : j = idx
      · rw [hii, hjj]
      · simp only [hii, if_true, Option.some.injEq] at hi
        simp only [hjj, if_false] at hj
        subst hi
        exact absurd hj (hother j hjj)
      · simp only [hjj, if_true, Option.some.injEq] at hj
        simp only [hii, if_false] at hi
        subst hj
        exact absurd hi (hother i hii)
      · simp only [hii, hjj, if_false] at hi hj
        exact h.1.uniq i j k hi hj
    · intro idx' k hk'
      simp only [hk] at hk'
      have hmono : ∀ j, isUsed t.slots j = true → isUsed (t.slots.setIfInBounds idx (some ⟨key, val, false⟩)) j = true := by
        intro j hj
        rw [hus]; split <;> simp [hj]
      by_cases hii : idx' = idx
      · simp only [hii, if_true, Option.some.injEq] at hk'
        subst hk'
        exact ⟨i1, hi1, hpr.trans hii.symm, fun j hj => hmono _ (hbefore j hj)⟩
      · simp only [hii, if_false] at hk'
        obtain ⟨i, hi, hpi, hused⟩ := h.1.reach idx' k hk'
        exact ⟨i, hi, hpi, fun j hj => hmono _ (hused j hj)⟩
  · intro k' v'
    unfold OA.Live
    simp only [hg]
    constructor
    · rintro ⟨i, e, he, hke, hve, hde⟩
      by_cases hii : i = idx
      · simp only [hii, if_true, Option.some.injEq] at he
        subst he
        exact Or.inl ⟨hke.symm, hve.symm⟩
      · simp only [hii, if_false] at he
        refine Or.inr ⟨?_, i, e, he, hke, hve, hde⟩
        rintro rfl
        exact hother i hii (keyAt_eq_some.2 ⟨e, he, hke⟩)
    · rintro (⟨rfl, rfl⟩ | ⟨hne, i, e, he, hke, hve, hde⟩)
      · exact ⟨idx, ⟨k', v', false⟩, by simp, rfl, rfl, rfl⟩
      · have hii : i ≠ idx := by
          rintro rfl
          rw [he] at hx1
          injection hx1 with hx1
          subst hx1
          have : e.key = key := by simpa [stopFind] using hstop
          exact hne (hke.symm.trans this)
        exact ⟨i, e, by simp only [hii, if_false]; exact he, hke, hve, hde⟩

theorem isLive_false_of_none {s : Slots K V} {i : Nat} (h : s[i]? = some none) : isLive s i = false := by
  simp [isLive, h]

theorem OA.putLoop_spec (hash : K → UInt64) (t : OATable K V) (key : K) (val : V) (r : Nat)
    (h : OA.Room hash (r + 1) t) :
    ∃ t', OA.putLoop t (mix (hash key)) key val t.m 0 = .ok t' ∧ OA.Room hash r t' ∧ t'.kind = t.kind ∧ t'.m = t.m ∧
      t'.minLF = t.minLF ∧ t'.maxLF = t.maxLF ∧
      ∀ k' v', OA.Live t' k' v' ↔ (k' = key ∧ v' = val) ∨ (k' ≠ key ∧ OA.Live t k' v') := by
  have hInv := OA.room_weaken h
  obtain ⟨i1, x1, hi1, hx1, hstop, hbefore, hwalk, hother⟩ := OA.find_result hash t key hInv
  have hidx := OA.pr_lt hInv.1 key i1
  have hidxm : OA.pr hash t key i1 < t.m := by rw [← hInv.1.size]; exact hidx
  have hloop : OA.putLoop t (mix (hash key)) key val t.m 0 = .ok (putAt t (OA.pr hash t key i1) key val x1) := by
    rw [OA.putLoop_eq]
    exact hwalk _ (fun i x => putAt t (OA.pr hash t key i) key val x)
  have hls := isLive_set t.slots (OA.pr hash t key i1) hidx ⟨key, val, false⟩
  have hus := isUsed_set t.slots (OA.pr hash t key i1) hidx ⟨key, val, false⟩
  have hroom := h.2
  cases x1 with
  | none =>
    have hn : t.n + 1 = ((cnt (isLive (t.slots.setIfInBounds (OA.pr hash t key i1) (some ⟨key, val, false⟩))) t.m : Nat) : Int) := by
      rw [cnt_flip_true (P := isLive t.slots) hidxm (isLive_false_of_none hx1) (by simp [hls])
        (by intro i hi; simp [hls, hi]), hInv.1.n_eq]
      push_cast; rfl
    have hu : t.u + 1 = ((cnt (isUsed (t.slots.setIfInBounds (OA.pr hash t key i1) (some ⟨key, val, false⟩))) t.m : Nat) : Int) := by
      rw [cnt_flip_true (P := isUsed t.slots) hidxm (isUsed_false_of_none hx1) (by simp [hus])
        (by intro i hi; simp [hus, hi]), hInv.1.u_eq]
      push_cast; rfl
    obtain ⟨hcore, hlive⟩ := OA.write_spec hash t key val hInv i1 none hi1 hx1 hstop hbefore hother _ _ hn hu
    refine ⟨_, hloop, ⟨hcore, ?_⟩, rfl, rfl, rfl, rfl, hlive⟩
    simp only [putAt]
    push_cast at hroom ⊢
    linarith
  | some e =>
    have hke : e.key = key := by simpa [stopFind] using hstop
    have hused : isUsed t.slots (OA.pr hash t key i1) = true := isUsed_true_of_some hx1
    have hu : t.u = ((cnt (isUsed (t.slots.setIfInBounds (OA.pr hash t key i1) (some ⟨key, val, false⟩))) t.m : Nat) : Int) := by
      rw [hInv.1.u_eq]
      congr 1
      apply cnt_congr
      intro i _
      rw [hus]
      split
      · rename_i hi; rw [hi, hused]
      · rfl
    have hn : (if e.deleted then t.n + 1 else t.n) =
        ((cnt (isLive (t.slots.setIfInBounds (OA.pr hash t key i1) (some ⟨key, val, false⟩))) t.m : Nat) : Int) := by
      have hl : isLive t.slots (OA.pr hash t key i1) = !e.deleted := by simp [isLive, hx1]
      cases hd : e.deleted with
      | true =>
        simp only [if_true]
        rw [cnt_flip_true (P := isLive t.slots) hidxm (by rw [hl, hd]; rfl) (by simp [hls])
          (by intro i hi; simp [hls, hi]), hInv.1.n_eq]
        push_cast; rfl
      | false =>
        simp only [Bool.false_eq_true, if_false]
        rw [hInv.1.n_eq]
        congr 1
        apply cnt_congr
        intro i _
        rw [hls]
        split
        · rename_i hi; rw [hi, hl, hd]
        · rfl
    obtain ⟨hcore, hlive⟩ := OA.write_spec hash t key val hInv i1 (some e) hi1 hx1 hstop hbefore hother _ _ hn hu
    have hput : putAt t (OA.pr hash t key i1) key val (some e) =
        { t with slots := t.slots.setIfInBounds (OA.pr hash t key i1) (some ⟨key, val, false⟩),
                 n := if e.deleted then t.n + 1 else t.n, u := t.u } := by
      simp only [putAt, hke]
    rw [hput] at hloop
    refine ⟨_, hloop, ⟨hcore, ?_⟩, rfl, rfl, rfl, rfl, hlive⟩
    have : (0 : Int) ≤ (t.maxLF.den : Int) := Int.natCast_nonneg _
    push_cast at hroom ⊢
    nlinarith

/-! ### soft delete -/

theorem lt_size_of_get {s : Slots K V} {i : Nat} {x : Option (Entry K V)} (h : s[i]? = some x) : i < s.size := by
  by_contra hc
  rw [Array.getElem?_eq_none (Nat.le_of_not_lt hc)] at h
  cases h

/-- the table right after `Delete` marked the entry in slot `idx` (before the load check) -/
def OA.afterDelete (t : OATable K V) (idx : Nat) (e : Entry K V) : OATable K V :=
  { t with slots := t.slots.setIfInBounds idx (some { e with deleted := true }), n := t.n - 1 }

theorem OA.softDelete_spec (hash : K → UInt64) (t : OATable K V) (key : K) (h : OA.Inv hash t) (idx : Nat)
    (e : Entry K V) (hx : t.slots[idx]? = some (some e)) (hk : e.key = key) (hd : e.deleted = false) :
    OA.Inv hash (OA.afterDelete t idx e) ∧
      ∀ k' v', OA.Live (OA.afterDelete t idx e) k' v' ↔ k' ≠ key ∧ OA.Live t k' v' := by
  have hidx := lt_size_of_get hx
  have hidxm : idx < t.m := by rw [← h.1.size]; exact hidx
  have hkeq : ∀ j, keyAt (t.slots.setIfInBounds idx (some { e with deleted := true })) j = keyAt t.slots j := by
    intro j
    rw [keyAt_set t.slots idx hidx]
    split
    · rename_i hj; rw [hj]; exact (keyAt_eq_some.2 ⟨e, hx, rfl⟩).symm
    · rfl
  have hueq : ∀ j, isUsed (t.slots.setIfInBounds idx (some { e with deleted := true })) j = isUsed t.slots j := by
    intro j; simp only [isUsed, hkeq]
  have hls := isLive_set t.slots idx hidx { e with deleted := true }
  have hg := get_set t.slots idx hidx (some { e with deleted := true })
  unfold OA.afterDelete
  refine ⟨⟨⟨by simp [h.1.size], h.1.prime, h.1.minM, h.1.p_eq, ?_, ?_, h.1.lf, ?_, ?_⟩, ?_⟩, ?_⟩
  · have := cnt_flip_false (P := isLive t.slots) (Q := isLive (t.slots.setIfInBounds idx (some { e with deleted := true })))
      hidxm (by simp [isLive, hx, hd]) (by simp [hls]) (by intro i hi; simp [hls, hi])
    have hn := h.1.n_eq
    simp only
    omega
  · simp only
    rw [h.1.u_eq]
    congr 1
    exact cnt_congr (fun i _ => (hueq i).symm)
  · intro i j k hi hj
    simp only [hkeq] at hi hj
    exact h.1.uniq i j k hi hj
  · intro idx' k hk'
    simp only [hkeq] at hk'
    obtain ⟨i, hi, hpi, hused⟩ := h.1.reach idx' k hk'
    exact ⟨i, hi, hpi, fun j hj => by rw [hueq]; exact hused j hj⟩
  · exact h.2
  · intro k' v'
    unfold OA.Live
    simp only [hg]
    constructor
    · rintro ⟨i, e', he, hke, hve, hde⟩
      by_cases hii : i = idx
      · simp only [hii, if_true, Option.some.injEq] at he
        subst he
        cases hde
      · simp only [hii, if_false] at he
        refine ⟨?_, i, e', he, hke, hve, hde⟩
        rintro rfl
        exact hii (h.1.uniq _ _ _ (keyAt_eq_some.2 ⟨e', he, hke⟩) (keyAt_eq_some.2 ⟨e, hx, hk⟩))
    · rintro ⟨hne, i, e', he, hke, hve, hde⟩
      have hii : i ≠ idx := by
        rintro rfl
        rw [hx] at he
        injection he with he; injection he with he
        subst he
        exact hne (hke.symm.trans hk)
      exact ⟨i, e', by simp only [hii, if_false]; exact he, hke, hve, hde⟩

/-- `Delete` up to the load check: either the key is not live and nothing changes, or its slot is marked -/
theorem OA.delete_find (hash : K → UInt64) (t : OATable K V) (key : K) (h : OA.Inv hash t) :
    ∃ idx x, OA.findLoop t (mix (hash key)) key t.m 0 = .ok idx ∧ t.slots[idx]? = some x ∧
      ((∀ e, x = some e → e.deleted = true) → ∀ v, ¬ OA.Live t key v) ∧
      (∀ e, x = some e → e.key = key ∧ (e.deleted = false → ∀ v, e.val = v ↔ OA.Live t key v)) := by
  obtain ⟨i1, x1, _, hx1, hstop, _, hwalk, hother⟩ := OA.find_result hash t key h
  refine ⟨OA.pr hash t key i1, x1, ?_, hx1, ?_, ?_⟩
  · rw [OA.findLoop_eq]
    exact hwalk _ (fun i _ => OA.pr hash t key i)
  · intro hdead v
    rintro ⟨i, e, he, hke, _, hde⟩
    have hi : i = OA.pr hash t key i1 := by
      by_contra hne
      exact hother i hne (keyAt_eq_some.2 ⟨e, he, hke⟩)
    subst hi
    rw [he] at hx1
    injection hx1 with hx1
    have := hdead e hx1.symm
    rw [hde] at this; cases this
  · intro e hxe
    subst hxe
    have hke : e.key = key := by simpa [stopFind] using hstop
    refine ⟨hke, fun hd v => ?_⟩
    constructor
    · intro hv; exact ⟨_, e, hx1, hke, hv, hd⟩
    · rintro ⟨i, e', he, hke', hve, _⟩
      have hi : i = OA.pr hash t key i1 := by
        by_contra hne
        exact hother i hne (keyAt_eq_some.2 ⟨e', he, hke'⟩)
      subst hi
      rw [he] at hx1
      injection hx1 with hx1; injection hx1 with hx1
      subst hx1; exact hve

/-! ### `All`, `DeleteAll`, constructor -/

theorem OA.liveAt_isSome (s : Slots K V) (i : Nat) : (OA.liveAt s i).isSome = isLive s i := by
  unfold OA.liveAt isLive
  cases hx : s[i]? with
  | none => rfl
  | some x =>
    cases x with
    | none => rfl
    | some e => cases hd : e.deleted <;> simp [hd]

theorem OA.liveAt_eq_some {s : Slots K V} {i : Nat} {k : K} {v : V} :
    OA.liveAt s i = some (k, v) ↔ ∃ e, s[i]? = some (some e) ∧ e.key = k ∧ e.val = v ∧ e.deleted = false := by
  unfold OA.liveAt
  cases hx : s[i]? with
  | none => simp
  | some x =>
    cases x with
    | none => simp
    | some e =>
      constructor
      · intro h
        by_cases hd : e.deleted = true
        · simp [hd] at h
        · have hd' : e.deleted = false := by simpa using hd
          simp only [hd', Bool.false_eq_true, if_false, Option.some.injEq, Prod.mk.injEq] at h
          exact ⟨e, rfl, h.1, h.2, hd'⟩
      · rintro ⟨e', he', h1, h2, hd'⟩
        injection he' with he'; injection he' with he'
        subst he'
        simp [hd', h1, h2]

theorem OA.all_spec {sh : Shuffle σ} (hsh : ShufflePerm sh) {hash : K → UInt64} {t : OATable K V}
    (hI : OA.InvCore hash t) (g : σ) :
    NodupKeys (OA.all sh t g).1 ∧ (∀ k v, (k, v) ∈ (OA.all sh t g).1 ↔ OA.Live t k v) ∧
      (((OA.all sh t g).1.length : Nat) : Int) = t.n := by
  have hperm : (OA.all sh t g).1.Perm ((List.range t.slots.size).filterMap (OA.liveAt t.slots)) := by
    unfold OA.all
    exact (hsh g t.slots.size).filterMap _
  refine ⟨?_, ?_, ?_⟩
  · unfold NodupKeys
    rw [(hperm.map Prod.fst).nodup_iff, List.map_filterMap]
    apply List.Nodup.filterMap _ List.nodup_range
    intro i j k hi hj
    simp only [Option.mem_def, Option.map_eq_some_iff] at hi hj
    obtain ⟨⟨k1, v1⟩, h1, rfl⟩ := hi
    obtain ⟨⟨k2, v2⟩, h2, hk2⟩ := hj
    simp only at hk2
    subst hk2
    obtain ⟨e1, he1, hk1, _⟩ := OA.liveAt_eq_some.1 h1
    obtain ⟨e2, he2, hk2, _⟩ := OA.liveAt_eq_some.1 h2
    exact hI.uniq i j _ (keyAt_eq_some.2 ⟨e1, he1, hk1⟩) (keyAt_eq_some.2 ⟨e2, he2, hk2⟩)
  · intro k v
    rw [hperm.mem_iff, List.mem_filterMap]
    constructor
    · rintro ⟨i, _, hi⟩
      obtain ⟨e, he, h1, h2, h3⟩ := OA.liveAt_eq_some.1 hi
      exact ⟨i, e, he, h1, h2, h3⟩
    · rintro ⟨i, e, he, h1, h2, h3⟩
      exact ⟨i, List.mem_range.2 (lt_size_of_get he), OA.liveAt_eq_some.2 ⟨e, he, h1, h2, h3⟩⟩
  · rw [hperm.length_eq, length_filterMap_range, hI.size, hI.n_eq]
    congr 1
    exact cnt_congr (fun i _ => OA.liveAt_isSome t.slots i)

theorem keyAt_replicate (m j : Nat) : keyAt (Array.replicate m (none : Option (Entry K V))) j = none := by
  unfold keyAt
  simp only [Array.getElem?_replicate]
  split <;> simp_all

theorem isLive_replicate (m j : Nat) : isLive (Array.replicate m (none : Option (Entry K V))) j = false := by
  unfold isLive
  simp only [Array.getElem?_replicate]
  split <;> simp_all

theorem get_replicate_ne (m j : Nat) (e : Entry K V) : (Array.replicate m (none : Option (Entry K V)))[j]? ≠ some (some e) := by
  simp only [Array.getElem?_replicate]
  split <;> simp

/-- the table allocated by the constructor and by `DeleteAll` -/
def OA.emptyTable (kind : Kind) (mp : Nat) (p : Int) (minLF maxLF : LF) : OATable K V :=
  { kind := kind, slots := Array.replicate mp none, m := mp, p := p, n := 0, u := 0, minLF := minLF, maxLF := maxLF }

/-- an empty table of prime capacity satisfies the structural invariant -/
theorem OA.empty_inv (hash : K → UInt64) (kind : Kind) (mp : Nat) (p : Int) (minLF maxLF : LF)
    (hlf : ValidLF kind.defMinLF kind.defMaxLF minLF maxLF) (hm : kind.minM ≤ mp) (hp : Nat.Prime mp)
    (hpp : kind = .dbl → p = (mp : Int)) :
    OA.InvCore hash (OA.emptyTable kind mp p minLF maxLF : OATable K V) ∧
    ∀ k v, ¬ OA.Live (OA.emptyTable kind mp p minLF maxLF : OATable K V) k v := by
  unfold OA.emptyTable
  constructor
  · refine ⟨by simp, hp, hm, hpp, ?_, ?_, hlf, ?_, ?_⟩
    · simp only
      rw [cnt_false (fun i _ => isLive_replicate mp i)]; rfl
    · simp only
      rw [cnt_false (fun i _ => by simp [isUsed, keyAt_replicate])]; rfl
    · intro i j k hi; simp only [keyAt_replicate] at hi; cases hi
    · intro idx k hi; simp only [keyAt_replicate] at hi; cases hi
  · rintro k v ⟨i, e, he, _⟩
    exact get_replicate_ne mp i e he

/-- the field `p` of a fresh table -/
def OA.pOf : Kind → Nat → Int
  | .quad, _ => 0
  | .dbl, mp => (mp : Int)

theorem OA.new_spec (hash : K → UInt64) (kind : Kind) (mp : Nat) (minLF maxLF : LF)
    (hlf : ValidLF kind.defMinLF kind.defMaxLF minLF maxLF) (hm : kind.minM ≤ mp) (hp : Nat.Prime mp) :
    ∃ fresh : OATable K V, OA.new kind ⟨mp, minLF, maxLF⟩ = .ok fresh ∧ OA.InvCore hash fresh ∧ fresh.kind = kind ∧
      fresh.m = mp ∧ fresh.n = 0 ∧ fresh.u = 0 ∧ fresh.minLF = minLF ∧ fresh.maxLF = maxLF ∧
      ∀ k v, ¬ OA.Live fresh k v := by
  obtain ⟨a, b, _, _⟩ := OA.lf_facts hlf
  have hm0 : mp ≠ 0 := hp.pos.ne'
  obtain ⟨hcore, hempty⟩ := OA.empty_inv (V := V) hash kind mp (OA.pOf kind mp) minLF maxLF hlf hm hp
    (by intro hk; subst hk; rfl)
  refine ⟨OA.emptyTable kind mp (OA.pOf kind mp) minLF maxLF, ?_, hcore, rfl, rfl, rfl, rfl, rfl, rfl, hempty⟩
  unfold OA.new OA.emptyTable
  have hpr := (isPrime_correct mp).2 hp
  have hlp := largestPrimeSmallerThan_prime mp hp
  cases kind <;>
    simp [hm0, Nat.ne_of_gt a, Nat.ne_of_gt b, Nat.not_lt.2 hm, hpr, OA.pOf, hlp]

theorem OA.deleteAll_spec (hash : K → UInt64) (t : OATable K V) (h : OA.Inv hash t) :
    OA.Inv hash (OA.deleteAll t) ∧ ∀ k v, ¬ OA.Live (OA.deleteAll t) k v := by
  obtain ⟨hcore, hempty⟩ := OA.empty_inv (V := V) hash t.kind t.m t.p t.minLF t.maxLF h.1.lf h.1.minM h.1.prime h.1.p_eq
  refine ⟨⟨hcore, ?_⟩, hempty⟩
  have := Int.mul_nonneg (Int.natCast_nonneg t.maxLF.num) (Int.natCast_nonneg t.m)
  simp only [OA.deleteAll]
  push_cast
  linarith

/-! ### `Put` with the load check, `resize` -/

/-- predicate carried through a re-insertion -/
def OA.Fill (hash : K → UInt64) (kind : Kind) (minLF maxLF : LF) (r : Nat) (t : OATable K V) : Prop :=
  OA.Room hash r t ∧ t.kind = kind ∧ t.minLF = minLF ∧ t.maxLF = maxLF

/-- `Put` does not resize while there is room -/
theorem OA.put_room (sh : Shuffle σ) (hash : K → UInt64) (d : Nat) (t : OATable K V) (g : σ) (key : K) (val : V)
    (r : Nat) (h : OA.Room hash (r + 1) t) :
    ∃ t', OA.put sh hash (d + 1) t g key val = .ok (t', g) ∧ OA.Room hash r t' ∧ t'.kind = t.kind ∧ t'.m = t.m ∧
      t'.minLF = t.minLF ∧ t'.maxLF = t.maxLF ∧
      ∀ k' v', OA.Live t' k' v' ↔ (k' = key ∧ v' = val) ∨ (k' ≠ key ∧ OA.Live t k' v') := by
  have hcheck : ratioGT (t.u + 1) t.m t.maxLF = false := by
    unfold ratioGT
    rw [decide_eq_false_iff_not]
    have h2 := h.2
    push_cast at h2
    have : (0 : Int) ≤ (r : Int) * (t.maxLF.den : Int) := Int.mul_nonneg (Int.natCast_nonneg _) (Int.natCast_nonneg _)
    nlinarith
  obtain ⟨t', h1, h2, h3, h4, h5, h6, h7⟩ := OA.putLoop_spec hash t key val r h
  refine ⟨t', ?_, h2, h3, h4, h5, h6, h7⟩
  unfold OA.put
  simp only [hcheck, Bool.false_eq_true, if_false, h1]

theorem OA.copy_back (t nt : OATable K V) (hk : nt.kind = t.kind) (hmin : nt.minLF = t.minLF) (hmax : nt.maxLF = t.maxLF) :
    ({ t with slots := nt.slots, m := nt.m, n := nt.n, u := nt.u, p := nt.p } : OATable K V) = nt := by
  obtain ⟨k, sl, m, p, n, u, a, b⟩ := nt
  simp only at hk hmin hmax
  subst hk hmin hmax
  rfl

/-- `resize` into a table in which all live pairs fit without a nested resize -/
theorem OA.resize_fits {sh : Shuffle σ} (hsh : ShufflePerm sh) (hash : K → UInt64) (d : Nat) (t : OATable K V) (g : σ)
    (m' : Nat) (hI : OA.InvCore hash t) (hm : t.kind.minM ≤ m')
    (hfit : (t.n + 1) * (t.maxLF.den : Int) ≤ (t.maxLF.num : Int) * (m' : Int)) :
    ∃ t' g', OA.resizeWith sh (OA.put sh hash (d + 1)) t g m' = .ok (t', g') ∧ OA.Room hash 1 t' ∧ t'.kind = t.kind ∧
      t'.minLF = t.minLF ∧ t'.maxLF = t.maxLF ∧ ∀ k v, OA.Live t' k v ↔ OA.Live t k v := by
  have hm1 : 1 ≤ m' := by have := OA.minM_ge t.kind; omega
  obtain ⟨mp, hsp, hpp, hle, _⟩ := smallestPrimeLargerThan_terminates m' hm1
  obtain ⟨fresh, hnew, hfI, hfk, hfm, hfn, hfu, hfmin, hfmax, hfempty⟩ :=
    OA.new_spec (V := V) hash t.kind mp t.minLF t.maxLF hI.lf (by omega) hpp
  obtain ⟨hnd, hmem, hlen⟩ := OA.all_spec hsh hI g
  have hfold := foldPut_spec (σ := σ) OA.Live (fun r t' => OA.Fill hash t.kind t.minLF t.maxLF (r + 1) t')
    (OA.put sh hash (d + 1))
    (by
      intro r t1 g1 k v hP
      obtain ⟨t2, h1, h2, h3, _, h5, h6, h7⟩ := OA.put_room sh hash d t1 g1 k v (r + 1) hP.1
      exact ⟨t2, g1, h1, ⟨h2, h3.trans hP.2.1, h5.trans hP.2.2.1, h6.trans hP.2.2.2⟩, h7⟩)
    (OA.all sh t g).1 fresh (OA.all sh t g).2 hnd
    (by
      refine ⟨⟨hfI, ?_⟩, hfk, hfmin, hfmax⟩
      rw [hfu, hfmax, hfm]
      have hmp : (m' : Int) ≤ (mp : Int) := by exact_mod_cast hle
      have hnn : (0 : Int) ≤ (t.maxLF.num : Int) := Int.natCast_nonneg _
      rw [← hlen] at hfit
      push_cast at hfit ⊢
      nlinarith)
  obtain ⟨nt, g2, hf, hP, hL⟩ := hfold
  obtain ⟨hroom, hk, hmin, hmax⟩ := hP
  have hcopy := OA.copy_back t nt hk hmin hmax
  refine ⟨nt, g2, ?_, hroom, hk, hmin, hmax, ?_⟩
  · unfold OA.resizeWith
    simp only [Nat.not_lt.2 hm, if_false, hsp, hnew, hf, hcopy]
  · intro k v
    rw [hL, hmem]
    constructor
    · rintro (h | ⟨h, _⟩)
      · exact h
      · exact absurd h (hfempty k v)
    · intro h; exact Or.inl h

theorem OA.n_le_u {hash : K → UInt64} {t : OATable K V} (hI : OA.InvCore hash t) : 0 ≤ t.n ∧ t.n ≤ t.u := by
  rw [hI.n_eq, hI.u_eq]
  have := cnt_mono (P := isLive t.slots) (Q := isUsed t.slots) (n := t.m) (fun i _ h => isLive_imp_isUsed h)
  omega

/-- `Put` on any table satisfying the invariant (one nested level of `resize` suffices) -/
theorem OA.put_any {sh : Shuffle σ} (hsh : ShufflePerm sh) (hash : K → UInt64) (d : Nat) (t : OATable K V) (g : σ)
    (key : K) (val : V) (h : OA.Inv hash t) :
    ∃ t' g', OA.put sh hash (d + 2) t g key val = .ok (t', g') ∧ OA.Inv hash t' ∧ t'.kind = t.kind ∧
      t'.minLF = t.minLF ∧ t'.maxLF = t.maxLF ∧
      ∀ k' v', OA.Live t' k' v' ↔ (k' = key ∧ v' = val) ∨ (k' ≠ key ∧ OA.Live t k' v') := by
  by_cases hcheck : ratioGT (t.u + 1) t.m t.maxLF = true
  · have hden := OA.den_le h.1
    have hroom := h.2
    obtain ⟨hn0, hnu⟩ := OA.n_le_u h.1
    have hdn : (0 : Int) ≤ (t.maxLF.den : Int) := Int.natCast_nonneg _
    have hmm := h.1.minM
    have hres : ∃ t1 g1, (if 2 * t.n ≥ t.u then OA.resizeWith sh (OA.put sh hash (d + 1)) t g (2 * t.m)
          else OA.resizeWith sh (OA.put sh hash (d + 1)) t g t.m) = .ok (t1, g1) ∧ OA.Room hash 1 t1 ∧
        t1.kind = t.kind ∧ t1.minLF = t.minLF ∧ t1.maxLF = t.maxLF ∧ ∀ k v, OA.Live t1 k v ↔ OA.Live t k v := by
      by_cases h2 : 2 * t.n ≥ t.u
      · simp only [h2, if_true]
        exact OA.resize_fits hsh hash d t g (2 * t.m) h.1 (by omega)
          (by push_cast at hroom ⊢; nlinarith)
      · simp only [h2, if_false]
        exact OA.resize_fits hsh hash d t g t.m h.1 hmm
          (by
            have : t.n + 1 ≤ t.u := by omega
            push_cast at hroom ⊢; nlinarith)
    obtain ⟨t1, g1, hr, hR1, hk1, hmin1, hmax1, hL1⟩ := hres
    obtain ⟨t2, h2, hR2, hk2, _, hmin2, hmax2, hL2⟩ := OA.putLoop_spec hash t1 key val 0 hR1
    refine ⟨t2, g1, ?_, hR2, hk2.trans hk1, hmin2.trans hmin1, hmax2.trans hmax1, ?_⟩
    · rw [OA.put]
      simp only [hcheck, if_true, hr, h2]
    · intro k' v'
      rw [hL2, hL1]
  · have hroom : OA.Room hash 1 t := by
      refine ⟨h.1, ?_⟩
      unfold ratioGT at hcheck
      simp only [decide_eq_true_eq, not_lt] at hcheck
      push_cast at hcheck ⊢
      linarith
    obtain ⟨t', h1, h2, h3, _, h5, h6, h7⟩ := OA.put_room sh hash (d + 1) t g key val 0 hroom
    exact ⟨t', g, h1, h2, h3, h5, h6, h7⟩

/-- `resize` to any capacity -/
theorem OA.resize_any {sh : Shuffle σ} (hsh : ShufflePerm sh) (hash : K → UInt64) (d : Nat) (t : OATable K V) (g : σ)
    (m' : Nat) (hI : OA.InvCore hash t) :
    ∃ t' g', OA.resizeWith sh (OA.put sh hash (d + 2)) t g m' = .ok (t', g') ∧
      (t.kind.minM ≤ m' → OA.Inv hash t') ∧ (m' < t.kind.minM → t' = t) ∧ ∀ k v, OA.Live t' k v ↔ OA.Live t k v := by
  by_cases hm : m' < t.kind.minM
  · exact ⟨t, g, by simp [OA.resizeWith, hm], fun h => by omega, fun _ => rfl, fun _ _ => Iff.rfl⟩
  · have hm' : t.kind.minM ≤ m' := Nat.not_lt.1 hm
    have hm1 : 1 ≤ m' := by have := OA.minM_ge t.kind; omega
    obtain ⟨mp, hsp, hpp, hle, _⟩ := smallestPrimeLargerThan_terminates m' hm1
    obtain ⟨fresh, hnew, hfI, hfk, hfm, hfn, hfu, hfmin, hfmax, hfempty⟩ :=
      OA.new_spec (V := V) hash t.kind mp t.minLF t.maxLF hI.lf (by omega) hpp
    obtain ⟨hnd, hmem, hlen⟩ := OA.all_spec hsh hI g
    have hfold := foldPut_spec (σ := σ) OA.Live
      (fun _ t' => OA.Inv hash t' ∧ t'.kind = t.kind ∧ t'.minLF = t.minLF ∧ t'.maxLF = t.maxLF)
      (OA.put sh hash (d + 2))
      (by
        intro r t1 g1 k v hP
        obtain ⟨t2, g2, h1, h2, h3, h5, h6, h7⟩ := OA.put_any hsh hash d t1 g1 k v hP.1
        exact ⟨t2, g2, h1, ⟨h2, h3.trans hP.2.1, h5.trans hP.2.2.1, h6.trans hP.2.2.2⟩, h7⟩)
      (OA.all sh t g).1 fresh (OA.all sh t g).2 hnd
      (by
        refine ⟨⟨hfI, ?_⟩, hfk, hfmin, hfmax⟩
        rw [hfu]
        have := Int.mul_nonneg (Int.natCast_nonneg fresh.maxLF.num) (Int.natCast_nonneg fresh.m)
        push_cast
        linarith)
    obtain ⟨nt, g2, hf, hP, hL⟩ := hfold
    obtain ⟨hinv, hk, hmin, hmax⟩ := hP
    have hcopy := OA.copy_back t nt hk hmin hmax
    refine ⟨nt, g2, ?_, fun _ => hinv, fun h => by omega, ?_⟩
    · unfold OA.resizeWith
      simp only [hm, if_false, hsp, hnew, hf, hcopy]
    · intro k v
      rw [hL, hmem]
      constructor
      · rintro (h | ⟨h, _⟩)
        · exact h
        · exact absurd h (hfempty k v)
      · intro h; exact Or.inl h

/-! ### `Delete` -/

theorem OA.delete_spec {sh : Shuffle σ} (hsh : ShufflePerm sh) (hash : K → UInt64) (d : Nat) (t : OATable K V) (g : σ)
    (key : K) (h : OA.Inv hash t) :
    ∃ t' g' o, OA.delete sh hash (d + 2) t g key = .ok (t', g', o) ∧ OA.Inv hash t' ∧
      (∀ k' v', OA.Live t' k' v' ↔ k' ≠ key ∧ OA.Live t k' v') ∧ ∀ v, o = some v ↔ OA.Live t key v := by
  obtain ⟨idx, x, hfind, hx, hdead, hpres⟩ := OA.delete_find hash t key h
  have hnone : (∀ v, ¬ OA.Live t key v) →
      (∀ k' v', OA.Live t k' v' ↔ k' ≠ key ∧ OA.Live t k' v') ∧ ∀ v, (none : Option V) = some v ↔ OA.Live t key v := by
    intro hno
    constructor
    · intro k' v'
      constructor
      · intro hl
        refine ⟨?_, hl⟩
        rintro rfl
        exact hno v' hl
      · intro hl; exact hl.2
    · intro v
      constructor
      · intro hc; cases hc
      · intro hl; exact absurd hl (hno v)
  unfold OA.delete
  simp only [hfind, hx]
  cases x with
  | none =>
    obtain ⟨h1, h2⟩ := hnone (hdead (fun e he => by cases he))
    exact ⟨t, g, none, rfl, h, h1, h2⟩
  | some e =>
    obtain ⟨hke, hval⟩ := hpres e rfl
    cases hd : e.deleted with
    | true =>
      obtain ⟨h1, h2⟩ := hnone (hdead (fun e' he' => by injection he' with he'; subst he'; exact hd))
      exact ⟨t, g, none, by simp [hd], h, h1, h2⟩
    | false =>
      obtain ⟨hInv1, hL1⟩ := OA.softDelete_spec hash t key h idx e hx hke hd
      have ho : ∀ v, some e.val = some v ↔ OA.Live t key v := by
        intro v
        rw [← hval hd v]
        simp
      simp only [hd, Bool.false_eq_true, if_false]
      show ∃ t' g' o, (if ratioLE (OA.afterDelete t idx e).n (OA.afterDelete t idx e).m (OA.afterDelete t idx e).minLF then
          (match OA.resizeWith sh (OA.put sh hash (d + 2)) (OA.afterDelete t idx e) g ((OA.afterDelete t idx e).m / 2) with
            | .ok (t2, g2) => Outcome.ok (t2, g2, some e.val)
            | .panic => .panic
            | .diverge => .diverge)
          else Outcome.ok (OA.afterDelete t idx e, g, some e.val)) = .ok (t', g', o) ∧ _
      split
      · obtain ⟨t2, g2, hr, hinv, hsame, hL2⟩ := OA.resize_any hsh hash d (OA.afterDelete t idx e) g
          ((OA.afterDelete t idx e).m / 2) hInv1.1
        refine ⟨t2, g2, some e.val, by simp only [hr], ?_, ?_, ho⟩
        · by_cases hmin : (OA.afterDelete t idx e).kind.minM ≤ (OA.afterDelete t idx e).m / 2
          · exact hinv hmin
          · rw [hsame (Nat.not_le.1 hmin)]; exact hInv1
        · intro k' v'
          rw [hL2, hL1]
      · exact ⟨_, g, some e.val, rfl, hInv1, hL1, ho⟩

/-! ### the refinement -/

theorem OA.live_func {hash : K → UInt64} {t : OATable K V} (hI : OA.InvCore hash t) {k : K} {v v' : V}
    (h1 : OA.Live t k v) (h2 : OA.Live t k v') : v = v' := by
  obtain ⟨i, e, he, hk, hv, _⟩ := h1
  obtain ⟨j, e', he', hk', hv', _⟩ := h2
  have := hI.uniq i j k (keyAt_eq_some.2 ⟨e, he, hk⟩) (keyAt_eq_some.2 ⟨e', he', hk'⟩)
  subst this
  rw [he] at he'
  injection he' with he'; injection he' with he'
  subst he'
  exact hv.symm.trans hv'

theorem OA.correct {sh : Shuffle σ} (hsh : ShufflePerm sh) (hash : K → UInt64) (eqVal : V → V → Bool) :
    Correct eqVal (OA.impl sh hash eqVal) (OA.Inv hash) OA.Live where
  func := fun t k v v' hI h1 h2 => OA.live_func hI.1 h1 h2
  put := by
    intro t g k v hI
    obtain ⟨t', g', h1, h2, _, _, _, h5⟩ := OA.put_any hsh hash (depth - 2) t g k v hI
    exact ⟨t', g', h1, h2, h5⟩
  get := fun t k hI => OA.get_spec hash t k hI
  delete := fun _ t g k hI => OA.delete_spec hsh hash (depth - 2) t g k hI
  deleteAll := fun t hI => OA.deleteAll_spec hash t hI
  all := by
    intro t g hI
    obtain ⟨h1, h2, _⟩ := OA.all_spec hsh hI.1 g
    exact ⟨h1.nodup, h2⟩
  size := by
    intro t g hI
    obtain ⟨_, _, h3⟩ := OA.all_spec hsh hI.1 g
    exact h3.symm
  equal := fun _ _ _ => rfl

/-! ### valid options and the initial table -/

/-- what `NewQuadraticHashTable` / `NewDoubleHashTable` accept (capacity 0 = default, else a prime ≥ the
minimum), with default-or-tighter load-factor bounds -/
def OA.ValidOpts (kind : Kind) (o : Opts) : Prop :=
  (o.cap = 0 ∨ (kind.minM ≤ o.cap ∧ isPrime o.cap = true)) ∧
  ValidLF kind.defMinLF kind.defMaxLF (effLF o.minLF kind.defMinLF) (effLF o.maxLF kind.defMaxLF)

theorem OA.new_eff (kind : Kind) (o : Opts) :
    (OA.new kind o : Outcome (OATable K V)) =
      OA.new kind ⟨if o.cap = 0 then kind.minM else o.cap, effLF o.minLF kind.defMinLF, effLF o.maxLF kind.defMaxLF⟩ := by
  have c1 : kind.minM ≠ 0 := by cases kind <;> decide
  have c2 : kind.defMinLF.num ≠ 0 := by cases kind <;> decide
  have c3 : kind.defMaxLF.num ≠ 0 := by cases kind <;> decide
  unfold OA.new effLF
  by_cases h1 : o.cap = 0 <;> by_cases h2 : o.minLF.num = 0 <;> by_cases h3 : o.maxLF.num = 0 <;>
    simp [h1, h2, h3, c1, c2, c3]

theorem OA.init_spec (hash : K → UInt64) (kind : Kind) (o : Opts) (hv : OA.ValidOpts kind o) :
    ∃ t0 : OATable K V, OA.new kind o = .ok t0 ∧ OA.Inv hash t0 ∧ ∀ k v, ¬ OA.Live t0 k v := by
  obtain ⟨hcap, hlf⟩ := hv
  have hc : kind.minM ≤ (if o.cap = 0 then kind.minM else o.cap) ∧
      Nat.Prime (if o.cap = 0 then kind.minM else o.cap) := by
    rcases hcap with h | ⟨h1, h2⟩
    · simp only [h, if_true]
      refine ⟨Nat.le_refl _, (isPrime_correct _).1 ?_⟩
      cases kind <;> decide
    · have : o.cap ≠ 0 := by have := OA.minM_ge kind; omega
      simp only [this, if_false]; exact ⟨h1, (isPrime_correct _).1 h2⟩
  obtain ⟨fresh, hnew, hfI, _, _, _, hfu, _, _, hfempty⟩ := OA.new_spec (V := V) hash kind _ _ _ hlf hc.1 hc.2
  refine ⟨fresh, by rw [OA.new_eff, hnew], ⟨hfI, ?_⟩, hfempty⟩
  have := Int.mul_nonneg (Int.natCast_nonneg fresh.maxLF.num) (Int.natCast_nonneg fresh.m)
  rw [hfu]; push_cast; linarith

/-! ### probe counts (C03) -/

/-- under the invariant both probe walks of any key stop within `cover ≤ m` probes -/
theorem OA.probes_bound (hash : K → UInt64) (t : OATable K V) (key : K) (h : OA.Inv hash t) :
    ∃ cg cf, OA.probesGet t (mix (hash key)) key t.m 0 = some cg ∧ OA.probesFind t (mix (hash key)) key t.m 0 = some cf ∧
      cg ≤ cover t.kind t.m ∧ cf ≤ cover t.kind t.m := by
  obtain ⟨i1, x1, hi1, _, _, _, hwalk, _⟩ := OA.find_result hash t key h
  obtain ⟨i2, x2, hi2, _, _, hwalk2, _⟩ := OA.get_result hash t key h
  exact ⟨i2 + 1, i1 + 1, OA.probesGet_eq hash t key t.m 0 _ (hwalk2 _ (fun i _ => i + 1)),
    OA.probesFind_eq hash t key t.m 0 _ (hwalk _ (fun i _ => i + 1)), by omega, by omega⟩

end AlgoVerif.C02
