import AlgoVerif.Proofs.C06PPut
import AlgoVerif.Proofs.C06BinarySim
/-!
# C06 — Patricia trie: every step of a delete-free history is the Spec's step

`PInv t m`: the store `t` is empty and so is `m`, or it unfolds from `root.left` into a crit-bit tree
whose in-order leaves are exactly the Spec's association list `m`.
-/
namespace AlgoVerif.C06
variable {V : Type}
open BitString (xbit Small)

open PT

namespace Patricia

/-! ## value update -/

def setVal (t : Patricia V) (li : Nat) (v : V) : Patricia V :=
  { t with nodes := t.nodes.modify li fun n => { n with val := v } }

theorem setVal_nodes (t : Patricia V) (li : Nat) (v : V) (j : Nat) :
    (setVal t li v).nodes[j]? = if li = j then (t.nodes[j]?).map (fun n => { n with val := v }) else t.nodes[j]? := by
  simp [setVal, Array.getElem?_modify]

theorem frame_setVal (t : Patricia V) (li : Nat) (v : V) (X : PT V) (hli : li ∉ leafIdx X) :
    Frame t (setVal t li v) X := by
  constructor
  · intro j _ n hn
    rw [setVal_nodes]
    by_cases h : li = j
    · simp only [h, if_true, hn, Option.map_some]
      exact ⟨_, rfl, rfl, rfl, rfl⟩
    · simp only [h, if_false]
      exact ⟨n, hn, rfl, rfl, rfl⟩
  · intro j hj n hn
    rw [setVal_nodes]
    have h : li ≠ j := fun h => hli (h ▸ hj)
    simp only [h, if_false]
    exact ⟨n, hn, rfl, rfl, rfl⟩

theorem rep_upd {t : Patricia V} (key : Key) (v : V) (T : PT V) :
    ∀ (b : Nat) (p : Option Nat), Rep t b p T → (leafIdx T).Nodup →
      Rep (setVal t (descend T key).1 v) b p (upd T key v) := by
  induction T with
  | leaf i k v' =>
    intro b p h _
    obtain ⟨hp, n, hn, hb, hk, _⟩ := h
    refine ⟨hp, { n with val := v }, ?_, hb, hk, rfl⟩
    simp [descend, setVal_nodes, hn]
  | inner i bp l r ihl ihr =>
    intro b p h hnd
    obtain ⟨hp, n, hn, hbp, hb, hl, hr⟩ := h
    simp only [leafIdx, List.nodup_append] at hnd
    obtain ⟨hnl, hnr, hdis⟩ := hnd
    have hnode : ∀ li, ∃ n', (setVal t li v).nodes[i]? = some n' ∧ n'.bp = n.bp ∧ n'.left = n.left ∧ n'.right = n.right := by
      intro li
      rw [setVal_nodes]
      by_cases h : li = i
      · simp only [h, if_true, hn, Option.map_some]; exact ⟨_, rfl, rfl, rfl, rfl⟩
      · simp only [h, if_false]; exact ⟨n, hn, rfl, rfl, rfl⟩
    simp only [descend, upd]
    cases hbit : xbit key (bp - 1)
    · simp only [Bool.false_eq_true, if_false]
      obtain ⟨n', hn', h1, h2, h3⟩ := hnode (descend l key).1
      refine ⟨hp, n', hn', by omega, hb, ?_, ?_⟩
      · rw [h2]; exact ihl bp n.left hl hnl
      · rw [h3]
        apply hr.frame
        apply frame_setVal
        exact fun h => hdis _ (descend_idx_mem l key) _ h rfl
    · simp only [if_true]
      obtain ⟨n', hn', h1, h2, h3⟩ := hnode (descend r key).1
      refine ⟨hp, n', hn', by omega, hb, ?_, ?_⟩
      · rw [h2]
        apply hl.frame
        apply frame_setVal
        exact fun h => hdis _ h _ (descend_idx_mem r key) rfl
      · rw [h3]; exact ihr bp n.right hr hnr

/-! ## the invariant -/

structure PInvS (t : Patricia V) (r : Nat) (rn : PNode V) (T : PT V) (m : Spec.Map V) : Prop where
  hroot : t.root = some r
  hrn : t.nodes[r]? = some rn
  hbp : rn.bp = 0
  hright : rn.right = none
  rep : Rep t 0 rn.left T
  crit : Crit T
  ents : ents T = m
  size : t.size = m.length
  nodupI : (inners T).Nodup
  nodupL : (leafIdx T).Nodup
  rootNotInner : r ∉ inners T
  topLeaf : ∀ i k v, T = .leaf i k v → i = r
  selfBelow : SelfBelow T
  leafPerm : (leafIdx T).Perm (r :: inners T)

def PInv (t : Patricia V) (m : Spec.Map V) : Prop :=
  (t.root = none ∧ m = [] ∧ t.size = 0) ∨ ∃ r rn T, PInvS t r rn T m

theorem PInv.new : PInv (Patricia.new : Patricia V) [] := .inl ⟨rfl, rfl, rfl⟩

theorem PInvS.sorted {t : Patricia V} {r : Nat} {rn : PNode V} {T : PT V} {m : Spec.Map V} (h : PInvS t r rn T m) :
    Sorted m := h.ents ▸ PT.sorted_ents h.crit

theorem PInvS.innerNotRoot {t : Patricia V} {r : Nat} {rn : PNode V} {T : PT V} {m : Spec.Map V} (h : PInvS t r rn T m) :
    ∀ i ∈ inners T, some i ≠ t.root := by
  intro i hi heq
  rw [h.hroot] at heq
  exact h.rootNotInner (Option.some.inj heq ▸ hi)

theorem above_zero_lt {t : Patricia V} {r : Nat} {rn : PNode V} (hrn : t.nodes[r]? = some rn) (hbp : rn.bp = 0) :
    above t 0 < t.nodes.size := by
  unfold above
  have hmem : rn ∈ t.nodes.toList := by
    rw [← Array.getElem?_toList] at hrn
    exact List.mem_of_getElem? hrn
  have h1 := countP_lt_of_witness (fun _ => true) (fun n : PNode V => decide (n.bp > 0)) t.nodes.toList
    (fun _ _ => rfl) rn hmem rfl (by simp [hbp])
  simpa using h1

/-! ## root-level traversal results -/

theorem travAsc_some {σ : Type} (t : Patricia V) (visit : σ → PNode V → σ × Bool) (f i : Nat) (s : σ) :
    t.travAsc visit (f + 1) (some i) s = (do
      let nn ← t.node (some i)
      let l ← t.node nn.left
      let isLeftThread := l.bp ≤ nn.bp
      let isRightThread ← (if some i != t.root then do let r ← t.node nn.right; pure (decide (r.bp ≤ nn.bp)) else pure false)
      let a ← (if isLeftThread then pure (visit s l) else travAsc t visit f nn.left s)
      if !a.2 then pure (a.1, false) else
      if isRightThread then do
        let r ← t.node nn.right
        pure (visit a.1 r)
      else travAsc t visit f nn.right a.1) := rfl

theorem travAsc_none {σ : Type} (t : Patricia V) (visit : σ → PNode V → σ × Bool) (f : Nat) (s : σ) :
    t.travAsc visit (f + 1) none s = .ok (s, true) := rfl

theorem travDesc_some {σ : Type} (t : Patricia V) (visit : σ → PNode V → σ × Bool) (f i : Nat) (s : σ) :
    t.travDesc visit (f + 1) (some i) s = (do
      let nn ← t.node (some i)
      let l ← t.node nn.left
      let isLeftThread := l.bp ≤ nn.bp
      let isRightThread ← (if some i != t.root then do let r ← t.node nn.right; pure (decide (r.bp ≤ nn.bp)) else pure false)
      let a ← (if isRightThread then do
          let r ← t.node nn.right
          pure (visit s r)
        else travDesc t visit f nn.right s)
      if !a.2 then pure (a.1, false) else
      if isLeftThread then pure (visit a.1 l) else travDesc t visit f nn.left a.1) := rfl

theorem travDesc_none {σ : Type} (t : Patricia V) (visit : σ → PNode V → σ × Bool) (f : Nat) (s : σ) :
    t.travDesc visit (f + 1) none s = .ok (s, true) := rfl

section
variable {t : Patricia V} {r : Nat} {rn : PNode V} {T : PT V} {m : Spec.Map V}

theorem travAsc_root {σ : Type} (h : PInvS t r rn T m) (visit : σ → PNode V → σ × Bool) (g : σ → Key → V → σ × Bool)
    (hv : ∀ s n, visit s n = g s n.key n.val) (s : σ) :
    t.travAsc visit t.fuel t.root s = .ok (foldE g m s) := by
  have hsz := lt_size_of_getElem? h.hrn
  obtain ⟨f, hf⟩ : ∃ f, t.nodes.size = f + 1 := ⟨t.nodes.size - 1, by omega⟩
  have hfuel : t.fuel = f + 1 + 1 := by unfold fuel; omega
  obtain ⟨nl, hnl, hL⟩ := travAsc_link visit g hv T 0 rn.left (f + 1) s h.rep h.innerNotRoot
    (by have := above_le_size t 0; omega)
  rw [hfuel, h.hroot, travAsc_some]
  simp only [h.hroot, node_some h.hrn, hnl, bind_ok, pure_eq_ok, bne_self_eq_false, Bool.false_eq_true, if_false,
    h.hbp, h.hright, travAsc_none]
  rw [hL, h.ents]
  simp only [bind_ok]
  cases h2 : (foldE g m s).2 <;> simp [← h2]

theorem travAsc_rootLeft {σ : Type} (h : PInvS t r rn T m) (visit : σ → PNode V → σ × Bool) (g : σ → Key → V → σ × Bool)
    (hv : ∀ s n, visit s n = g s n.key n.val) (s : σ) :
    t.rootLeft = .ok rn.left ∧ t.travAsc visit t.fuel rn.left s = .ok (foldE g m s) := by
  refine ⟨by simp [rootLeft, h.hroot, node_some h.hrn], ?_⟩
  cases hT : T with
  | leaf i k v =>
    have hrep := h.rep
    rw [hT] at hrep
    have : rn.left = some r := by rw [hrep.1, h.topLeaf i k v hT]
    rw [this, ← h.hroot]
    exact travAsc_root h visit g hv s
  | inner i bp l r' =>
    obtain ⟨nl, hnl, hL⟩ := travAsc_link visit g hv T 0 rn.left t.fuel s h.rep h.innerNotRoot
      (by have := above_le_size t 0; unfold fuel; omega)
    have hrep := h.rep
    rw [hT] at hrep
    obtain ⟨hp, n, hn, hbp, hb, _, _⟩ := hrep
    rw [hp, node_some hn] at hnl
    cases hnl
    have : ¬ nl.bp ≤ 0 := by omega
    simp only [this, if_false] at hL
    rw [hL, h.ents]

theorem travDesc_root {σ : Type} (h : PInvS t r rn T m) (visit : σ → PNode V → σ × Bool) (g : σ → Key → V → σ × Bool)
    (hv : ∀ s n, visit s n = g s n.key n.val) (s : σ) :
    t.travDesc visit t.fuel t.root s = .ok (foldE g m.reverse s) := by
  have hsz := lt_size_of_getElem? h.hrn
  obtain ⟨f, hf⟩ : ∃ f, t.nodes.size = f + 1 := ⟨t.nodes.size - 1, by omega⟩
  have hfuel : t.fuel = f + 1 + 1 := by unfold fuel; omega
  obtain ⟨nl, hnl, hL⟩ := travDesc_link visit g hv T 0 rn.left (f + 1) s h.rep h.innerNotRoot
    (by have := above_le_size t 0; omega)
  rw [hfuel, h.hroot, travDesc_some]
  simp only [h.hroot, node_some h.hrn, hnl, bind_ok, pure_eq_ok, bne_self_eq_false, Bool.false_eq_true, if_false,
    h.hbp, h.hright, Bool.not_true, travDesc_none]
  rw [hL, h.ents]

theorem min_root (h : PInvS t r rn T m) : t.min = .ok m.head? := by
  have hsz := lt_size_of_getElem? h.hrn
  obtain ⟨nl, hnl, hL⟩ := minLoop_link T 0 rn.left t.nodes.size h.rep (above_le_size t 0)
  have hfuel : t.fuel = t.nodes.size + 1 := rfl
  unfold Patricia.min
  rw [hfuel, h.hroot]
  simp only [minLoop, node_some h.hrn, hnl, bind_ok, pure_eq_ok, h.hbp]
  rw [hL, h.ents]

theorem max_root (h : PInvS t r rn T m) : t.max = .ok m.getLast? := by
  have hsz := lt_size_of_getElem? h.hrn
  obtain ⟨nl, hnl, hL⟩ := maxLoop_link T 0 rn.left t.nodes.size h.rep h.innerNotRoot (above_le_size t 0)
  have hfuel : t.fuel = t.nodes.size + 1 := rfl
  unfold Patricia.max
  rw [hfuel]
  simp only [maxLoop, h.hroot, node_some h.hrn, beq_self_eq_true, if_true, hnl, bind_ok, pure_eq_ok, h.hbp]
  rw [hL, h.ents]

end

/-! ## Get and Put -/

open Spec

theorem Rep.congr {t t' : Patricia V} (hn : t'.nodes = t.nodes) {T : PT V} {b : Nat} {p : Option Nat} (h : Rep t b p T) :
    Rep t' b p T := by
  apply h.frame
  constructor
  · intro j _ n hj; exact ⟨n, by rw [hn]; exact hj, rfl, rfl, rfl⟩
  · intro j _ n hj; exact ⟨n, by rw [hn]; exact hj, rfl, rfl, rfl⟩

section
variable {t : Patricia V} {r : Nat} {rn : PNode V} {T : PT V} {m : Spec.Map V}

theorem search_root (h : PInvS t r rn T m) (key : Key) : t.search key = .ok (some (descend T key).1) := by
  unfold search
  rw [h.hroot]
  simp only [node_some h.hrn, bind_ok, h.hbp]
  exact searchLoop_rep h.rep key t.fuel (by have := above_le_size t 0; unfold fuel; omega)

theorem get_root (h : PInvS t r rn T m) (key : Key) : t.get key = .ok (Map.get m key) := by
  obtain ⟨n, hn, hk, hv⟩ := h.rep.descend_node key
  unfold Patricia.get
  rw [search_root h key]
  simp only [bind_ok, node_some hn, pure_eq_ok]
  congr 1
  apply option_ext
  intro v
  rw [Map.get_eq_some h.sorted, ← h.ents]
  constructor
  · intro hif
    by_cases he : n.key.equal key = true
    · simp only [he, if_true, Option.some.injEq] at hif
      have hkk : n.key = key := (BitString.equal_iff _ _).mp he
      have := descend_mem T key
      rw [← hk, ← hv, hkk, hif] at this
      exact this
    · simp [he] at hif
  · intro hmem
    have hkm : key ∈ keys T := List.mem_map.mpr ⟨_, hmem, rfl⟩
    have hfound := descend_of_mem h.crit hkm
    have he : n.key.equal key = true := (BitString.equal_iff _ _).mpr (by rw [hk, hfound])
    simp only [he, if_true, Option.some.injEq]
    have hm2 := descend_mem T key
    rw [hfound] at hm2
    rw [hv]
    exact (PT.sorted_ents h.crit).unique hm2 hmem

end

theorem ins_not_leaf (T : PT V) (key : Key) (v : V) (d i' : Nat) : ∀ i k v', ins T key v d i' ≠ .leaf i k v' := by
  intro i k v'
  cases T with
  | leaf => simp only [ins, graft]; split <;> simp
  | inner j bp l r =>
    simp only [ins]
    split
    · split <;> simp
    · simp only [graft]; split <;> simp

theorem upd_leaf_inv (T : PT V) (key : Key) (v : V) {i : Nat} {k : Key} {v' : V} (h : upd T key v = .leaf i k v') :
    ∃ v0, T = .leaf i k v0 := by
  cases T with
  | leaf j k' v0 => simp only [upd, PT.leaf.injEq] at h; exact ⟨v0, by rw [h.1, h.2.1]⟩
  | inner j bp l r => simp only [upd] at h; split at h <;> cases h

theorem put_empty (t : Patricia V) (hr : t.root = none) (key : Key) (hsk : Small key) (v : V) :
    ∃ t', t.put key v = .ok t' ∧ PInv t' (Map.put [] key v) := by
  refine ⟨Patricia.mk 1 (some t.nodes.size) (t.nodes.push (PNode.mk 0 key v (some t.nodes.size) none)),
    by simp [Patricia.put, hr], .inr ⟨t.nodes.size,
    { bp := 0, key := key, val := v, left := some t.nodes.size, right := none }, .leaf t.nodes.size key v, ?_⟩⟩
  have hnode : (t.nodes.push ({ bp := 0, key := key, val := v, left := some t.nodes.size, right := none } : PNode V))[t.nodes.size]?
      = some { bp := 0, key := key, val := v, left := some t.nodes.size, right := none } := by simp
  exact {
    hroot := rfl, hrn := hnode, hbp := rfl, hright := rfl,
    rep := ⟨rfl, _, hnode, Nat.le_refl _, rfl, rfl⟩,
    crit := hsk, ents := rfl, size := rfl,
    nodupI := by simp [inners], nodupL := by simp [leafIdx],
    rootNotInner := by simp [inners],
    topLeaf := by intro i k v' h; cases h; rfl,
    selfBelow := trivial,
    leafPerm := by simp [leafIdx, inners] }

theorem put_root {t : Patricia V} {r : Nat} {rn : PNode V} {T : PT V} {m : Spec.Map V} (h : PInvS t r rn T m)
    (key : Key) (hsk : Small key) (v : V) :
    ∃ t', t.put key v = .ok t' ∧ PInv t' (Map.put m key v) := by
  obtain ⟨n, hn, hk, hv⟩ := h.rep.descend_node key
  have hmem := descend_mem T key
  unfold Patricia.put
  rw [h.hroot]
  simp only [search_root h key, bind_ok, node_some hn]
  by_cases he : n.key.equal key = true
  · -- update
    have hkk : (descend T key).2.1 = key := by rw [← hk]; exact (BitString.equal_iff _ _).mp he
    simp only [he, if_true, pure_eq_ok]
    refine ⟨_, rfl, .inr ⟨r, if (descend T key).1 = r then { rn with val := v } else rn, upd T key v, ?_⟩⟩
    have hcrit := crit_upd h.crit key v
    have hents : ents (upd T key v) = Map.put m key v := by
      apply Sorted.ext (PT.sorted_ents hcrit) (Map.put_sorted h.sorted _ _)
      intro e
      rw [mem_ents_upd h.crit key v hkk, Map.put_mem h.sorted, h.ents]
    have hrn' : (setVal t (descend T key).1 v).nodes[r]? = some (if (descend T key).1 = r then { rn with val := v } else rn) := by
      rw [setVal_nodes]
      by_cases hli : (descend T key).1 = r
      · simp [hli, h.hrn]
      · simp [hli, h.hrn]
    have hleft : (if (descend T key).1 = r then { rn with val := v } else rn).left = rn.left := by split <;> rfl
    exact {
      hroot := rfl, hrn := hrn',
      hbp := by split <;> exact h.hbp,
      hright := by split <;> exact h.hright,
      rep := by
        rw [hleft]
        refine Rep.congr ?_ (rep_upd key v T 0 rn.left h.rep h.nodupL)
        rfl,
      crit := hcrit, ents := hents,
      size := by
        show t.size = _
        rw [h.size, ← hents, length_ents_upd, h.ents],
      nodupI := by rw [inners_upd]; exact h.nodupI,
      nodupL := by rw [leafIdx_upd]; exact h.nodupL,
      rootNotInner := by rw [inners_upd]; exact h.rootNotInner,
      topLeaf := by
        intro i k v' hT
        obtain ⟨v0, hT0⟩ := upd_leaf_inv T key v hT
        exact h.topLeaf i k v0 hT0,
      selfBelow := selfBelow_upd key v h.selfBelow,
      leafPerm := by rw [leafIdx_upd, inners_upd]; exact h.leafPerm }
  · -- a new key
    have he' : n.key.equal key = false := by simpa using he
    have hkne : (descend T key).2.1 ≠ key := by
      intro hkk; apply he; rw [hk, hkk]; exact (BitString.equal_iff _ _).mpr rfl
    have habsent : key ∉ keys T := fun hkm => hkne (descend_of_mem h.crit hkm)
    have hd0 : BitString.diffPos n.key key ≠ 0 := by
      rw [hk]
      exact fun h0 => hkne ((BitString.diffPos_eq_zero_iff _ _).mp h0)
    have hsn : Small n.key := by rw [hk]; exact h.crit.small _ (descend_key_mem T key)
    obtain ⟨p, hp⟩ : ∃ p, BitString.diffPos n.key key = p + 1 := ⟨BitString.diffPos n.key key - 1, by omega⟩
    obtain ⟨hdiff, hsame⟩ := BitString.diffPos_succ _ _ hsn hsk _ hp
    rw [hk] at hdiff hsame
    have hfuel : above t 0 < t.fuel := by have := above_le_size t 0; unfold fuel; omega
    have hloop := putLoop_rep key (p + 1) T 0 rn.left r rn t.fuel h.rep h.hrn h.hbp hfuel
    simp only [he', Bool.false_eq_true, if_false, hp, node_some h.hrn, bind_ok, hloop,
      BitString.bit_succ, pure_eq_ok]
    -- the node the descent stopped below
    have hprev_valid : ∃ ppn, t.nodes[(stopAt T r key (p + 1)).1]? = some ppn := by
      rcases stopAt_prev T r key (p + 1) with hh | hh
      · rw [hh]; exact ⟨rn, h.hrn⟩
      · have := h.rep.valid _ (List.mem_append.mpr (.inr hh))
        exact ⟨_, Array.getElem?_eq_getElem this⟩
    obtain ⟨ppn, hppn⟩ := hprev_valid
    simp only [node_some hppn, bind_ok]
    let nw : PNode V := newNode key v (p + 1) (some (stopAt T r key (p + 1)).2) t.nodes.size
    let t' : Patricia V := linked t nw (stopAt T r key (p + 1)).1 ppn (some (stopAt T r key (p + 1)).2)
    have hres := rep_ins (t := t) (t' := t') key v (p + 1) (by omega) nw T 0 rn.left r rn h.rep h.hrn h.hbp (by omega)
      (.inl rfl) h.crit (by simpa using fun hh => hdiff hh.symm) h.rootNotInner h.nodupI ⟨ppn, hppn, rfl⟩ rfl
    obtain ⟨hrep, rn', hrn', hbp', _, _, hsame', hchg'⟩ := hres
    have hsz : r < t.nodes.size := lt_size_of_getElem? h.hrn
    have hfresh : ∀ i, i ∈ leafIdx T ++ inners T → i ≠ t.nodes.size := fun i hi => by
      have := h.rep.valid i hi; omega
    have hcrit := crit_ins h.crit key hsk v (p + 1) t.nodes.size (by omega)
      (by simpa using fun hh => hdiff hh.symm) (by simpa using fun j hj => (hsame j hj).symm)
    have hents : ents (ins T key v (p + 1) t.nodes.size) = Map.put m key v := by
      apply Sorted.ext (PT.sorted_ents hcrit) (Map.put_sorted h.sorted _ _)
      intro e
      rw [mem_ents_ins, Map.put_mem h.sorted, h.ents]
      constructor
      · rintro (hh | hh)
        · exact .inl hh
        · refine .inr ⟨hh, ?_⟩
          intro heq
          exact habsent (List.mem_map.mpr ⟨e, h.ents ▸ hh, heq⟩)
      · rintro (hh | ⟨hh, _⟩)
        · exact .inl hh
        · exact .inr hh
    have hroot' : t'.root = some r := by rw [(linked_root _ _ _ _ _).1]; exact h.hroot
    have hrnleft : rn'.left = (if (stopAt T r key (p + 1)).1 = r then some t.nodes.size else rn.left) ∧ rn'.right = none := by
      by_cases hst : (stopAt T r key (p + 1)).1 = r
      · rw [hchg' hst]; simp [hst, h.hright]
      · rw [hsame' hst]; simp [hst, h.hright]
    refine ⟨{ t' with size := t.size + 1 }, ?_, .inr ⟨r, rn', ins T key v (p + 1) t.nodes.size, ?_⟩⟩
    · -- the Model computes exactly `t'`
      show Outcome.ok _ = Outcome.ok _
      congr 1
      simp only [t', nw, linked, newNode, Nat.add_sub_cancel]
      cases hb : xbit key p <;> simp <;> split <;> simp [setLeft, setRight, h.hroot]
    · exact {
        hroot := hroot', hrn := hrn',
        hbp := by rw [hbp']; exact h.hbp,
        hright := hrnleft.2,
        rep := by
          rw [hrnleft.1]
          refine Rep.congr ?_ hrep
          rfl,
        crit := hcrit, ents := hents,
        size := by
          show t.size + 1 = _
          rw [← hents, length_ents_ins, h.ents, h.size]; simp,
        nodupI := nodup_inners_ins key v _ _ h.nodupI (fun hh => hfresh _ (List.mem_append.mpr (.inr hh)) rfl),
        nodupL := nodup_leafIdx_ins key v _ _ h.nodupL (fun hh => hfresh _ (List.mem_append.mpr (.inl hh)) rfl),
        rootNotInner := by
          rw [mem_inners_ins]
          rintro (hh | hh)
          · omega
          · exact h.rootNotInner hh,
        topLeaf := by
          intro i k v' hT
          exact absurd hT (ins_not_leaf T key v _ _ i k v'),
        selfBelow := selfBelow_ins key v _ _ h.selfBelow,
        leafPerm :=
          (leafIdx_ins_perm T key v _ _).trans
            (((List.Perm.cons _ h.leafPerm).trans (List.Perm.swap _ _ _)).trans
              (List.Perm.cons _ (inners_ins_perm T key v _ _).symm)) }

/-! ## the queries -/

theorem fuel_succ (t : Patricia V) : t.fuel = t.nodes.size + 1 := rfl

section
variable {t : Patricia V} {m : Spec.Map V}

theorem floor_sim (h : PInv t m) (key : Key) : t.floor key = .ok (m.floor key) := by
  unfold Patricia.floor
  rcases h with ⟨hr, rfl, _⟩ | ⟨r, rn, T, h⟩
  · simp [hr, fuel_succ, travAsc_none, Map.floor]
  · rw [travAsc_root h _ (fun s k v => if klt key k then (s, false) else (some (k, v), true)) (fun _ _ => rfl)]
    simp only [bind_ok, pure_eq_ok, foldE_floor key m h.sorted]
    simp [Map.floor]

theorem ceiling_sim (h : PInv t m) (key : Key) : t.ceiling key = .ok (m.ceiling key) := by
  unfold Patricia.ceiling
  rcases h with ⟨hr, rfl, _⟩ | ⟨r, rn, T, h⟩
  · simp [hr, fuel_succ, travDesc_none, Map.ceiling]
  · rw [travDesc_root h _ (fun s k v => if klt k key then (s, false) else (some (k, v), true)) (fun _ _ => rfl)]
    simp only [bind_ok, pure_eq_ok, (foldE_ceiling key m h.sorted none).1]
    simp [Map.ceiling]

theorem all_sim (h : PInv t m) : t.all = .ok m := by
  unfold Patricia.all
  rcases h with ⟨hr, rfl, _⟩ | ⟨r, rn, T, h⟩
  · simp [hr, fuel_succ, travAsc_none]
  · rw [travAsc_root h _ (fun kvs k v => (kvs ++ [(k, v)], true)) (fun _ _ => rfl)]
    simp [foldE_all]

theorem min_sim (h : PInv t m) : t.min = .ok m.min := by
  rcases h with ⟨hr, rfl, _⟩ | ⟨r, rn, T, h⟩
  · simp [Patricia.min, hr, fuel_succ, minLoop, Map.min]
  · exact min_root h

theorem max_sim (h : PInv t m) : t.max = .ok m.max := by
  rcases h with ⟨hr, rfl, _⟩ | ⟨r, rn, T, h⟩
  · simp [Patricia.max, hr, fuel_succ, maxLoop, Map.max]
  · exact max_root h

theorem select_sim (h : PInv t m) (rank : Int) : t.select rank = .ok (m.select rank) := by
  unfold Patricia.select Map.select
  rcases h with ⟨hr, rfl, _⟩ | ⟨r, rn, T, h⟩
  · simp [hr]
  · by_cases h1 : rank < 0
    · simp [h1]
    · by_cases h2 : rank ≥ t.size
      · have : m[rank.toNat]? = none := by
          rw [List.getElem?_eq_none_iff]; rw [h.size] at h2; omega
        simp [h1, h2, this]
      · obtain ⟨hrl, htr⟩ := travAsc_rootLeft h (fun (s : Int × Option (Key × V)) n =>
          if s.1 == rank then ((s.1, some (n.key, n.val)), false) else ((s.1 + 1, s.2), true))
          (fun (s : Int × Option (Key × V)) k v =>
            if s.1 == rank then ((s.1, some (k, v)), false) else ((s.1 + 1, s.2), true)) (fun _ _ => rfl) (0, none)
        simp only [h.hroot, Option.isNone_some, h1, h2, decide_false, Bool.or_self, Bool.false_eq_true, if_false,
          hrl, bind_ok, htr, pure_eq_ok, foldE_select rank m 0 (by omega)]
        simp

theorem rank_sim (h : PInv t m) (key : Key) : t.rank key = .ok (m.rank key) := by
  unfold Patricia.rank
  rcases h with ⟨hr, rfl, _⟩ | ⟨r, rn, T, h⟩
  · simp [hr, Map.rank]
  · obtain ⟨hrl, htr⟩ := travAsc_rootLeft h (fun (i : Int) n => if kle key n.key then (i, false) else (i + 1, true))
      (fun (i : Int) k _ => if kle key k then (i, false) else (i + 1, true)) (fun _ _ => rfl) 0
    simp only [h.hroot, Option.isNone_some, Bool.false_eq_true, if_false, hrl, bind_ok, htr, pure_eq_ok,
      foldE_rank key m h.sorted]
    simp [Map.rank]

theorem range_sim (h : PInv t m) (lo hi : Key) : t.range lo hi = .ok (m.range lo hi) := by
  unfold Patricia.range
  rcases h with ⟨hr, rfl, _⟩ | ⟨r, rn, T, h⟩
  · simp [hr, Map.range]
  · obtain ⟨hrl, htr⟩ := travAsc_rootLeft h (fun (kvs : List (Key × V)) n =>
        if kle lo n.key && kle n.key hi then (kvs ++ [(n.key, n.val)], true)
        else if klt hi n.key then (kvs, false) else (kvs, true))
      (fun (kvs : List (Key × V)) k v =>
        if kle lo k && kle k hi then (kvs ++ [(k, v)], true)
        else if klt hi k then (kvs, false) else (kvs, true)) (fun _ _ => rfl) []
    simp only [h.hroot, Option.isNone_some, Bool.false_eq_true, if_false, hrl, bind_ok, htr, pure_eq_ok,
      foldE_range lo hi m h.sorted]
    simp [Map.range]

theorem rangeSize_sim (h : PInv t m) (lo hi : Key) : t.rangeSize lo hi = .ok (m.rangeSize lo hi) := by
  unfold Patricia.rangeSize
  rcases h with ⟨hr, rfl, _⟩ | ⟨r, rn, T, h⟩
  · simp [hr, Map.rangeSize, Map.range]
  · obtain ⟨hrl, htr⟩ := travAsc_rootLeft h (fun (i : Int) n =>
        if kle lo n.key && kle n.key hi then (i + 1, true)
        else if klt hi n.key then (i, false) else (i, true))
      (fun (i : Int) k _ =>
        if kle lo k && kle k hi then (i + 1, true)
        else if klt hi k then (i, false) else (i, true)) (fun _ _ => rfl) 0
    simp only [h.hroot, Option.isNone_some, Bool.false_eq_true, if_false, hrl, bind_ok, htr, pure_eq_ok,
      foldE_rangeSize lo hi m h.sorted]
    simp [Map.rangeSize, Map.range]

theorem get_sim (h : PInv t m) (key : Key) : t.get key = .ok (Map.get m key) := by
  rcases h with ⟨hr, rfl, _⟩ | ⟨r, rn, T, h⟩
  · simp [Patricia.get, search, hr, Map.get]
  · exact get_root h key

theorem size_sim (h : PInv t m) : t.size = m.size := by
  rcases h with ⟨_, rfl, hs⟩ | ⟨r, rn, T, h⟩
  · simp [hs, Map.size]
  · exact h.size

theorem put_sim (h : PInv t m) (key : Key) (hsk : Small key) (v : V) :
    ∃ t', t.put key v = .ok t' ∧ PInv t' (Map.put m key v) := by
  rcases h with ⟨hr, rfl, _⟩ | ⟨r, rn, T, h⟩
  · exact put_empty t hr key hsk v
  · exact put_root h key hsk v

end

end Patricia
end AlgoVerif.C06
