import AlgoVerif.Model.C16X
import AlgoVerif.Proofs.C16Basic
/-!
# C16 helper lemmas: the `format` field is ghost state

Forgetting the formats (`eraseX`) turns the register machine with formats (`stepX`, `runX` of
`Model/C16X.lean`) into the functional register machine (`C16.stepOp`, `C16.runOps`), step by step and
history by history; and the format a result carries is the receiver's.
-/
namespace AlgoVerif.C16
variable {α : Type} {σ : Type}

/-! ### Outcome.map -/

@[simp] theorem map_ok {β γ} (f : β → γ) (a : β) : (Outcome.ok a).map f = .ok (f a) := rfl
@[simp] theorem map_panic {β γ} (f : β → γ) : (Outcome.panic : Outcome β).map f = .panic := rfl
@[simp] theorem map_diverge {β γ} (f : β → γ) : (Outcome.diverge : Outcome β).map f = .diverge := rfl

theorem map_bind {β γ δ} (x : Outcome β) (k : β → Outcome γ) (f : γ → δ) :
    (x >>= k).map f = x >>= fun b => (k b).map f := by
  cases x <;> rfl

theorem map_map {β γ δ} (x : Outcome β) (f : β → γ) (h : γ → δ) : (x.map f).map h = x.map (h ∘ f) := by
  cases x <;> rfl

/-! ### operands -/

theorem getRegs_erase (regs : List (FmtSet α)) : ∀ js : List Nat,
    getRegs (regs.map (·.set)) js = (getRegsX regs js).map (List.map (·.set))
  | [] => rfl
  | j :: js => by
    simp only [getRegs, getRegsX, getRegs_erase regs js, List.getElem?_map]
    cases regs[j]? <;> cases getRegsX regs js <;> rfl

/-! ### the set part of each operation is the functional Model's -/

theorem FmtSet.add_set (s : FmtSet α) (vs : List α) :
    (s.add vs).map (·.set) = s.set.add vs := by
  simp only [FmtSet.add]
  cases s.set.add vs <;> rfl

theorem FmtSet.remove_set (s : FmtSet α) (vs : List α) :
    (s.remove vs).map (·.set) = s.set.remove vs := by
  simp only [FmtSet.remove]
  cases s.set.remove vs <;> rfl

theorem FmtSet.newWithFormat_set (impl : Impl α) (format : StringFormat α) (vals : List α) :
    (FmtSet.newWithFormat impl format vals).map (·.set) = MSet.newWith impl vals :=
  FmtSet.add_set _ _

theorem FmtSet.new_set (pv : α → String) (impl : Impl α) (vals : List α) :
    (FmtSet.new pv impl vals).map (·.set) = MSet.newWith impl vals :=
  FmtSet.add_set _ _

theorem FmtSet.union_set (sh : Shuffle σ) (s : FmtSet α) (sets : List (FmtSet α)) (g : σ) :
    (s.union sh sets g).map (fun r => (r.1.set, r.2)) = s.set.union sh (sets.map (·.set)) g := by
  simp only [FmtSet.union, MSet.union, FmtSet.clone]
  cases unionLoop sh s.set.clone (sets.map (·.set)) g <;> rfl

theorem FmtSet.difference_set (sh : Shuffle σ) (s : FmtSet α) (sets : List (FmtSet α)) (g : σ) :
    (s.difference sh sets g).map (fun r => (r.1.set, r.2)) = s.set.difference sh (sets.map (·.set)) g := by
  simp only [FmtSet.difference, MSet.difference, FmtSet.clone]
  cases diffLoop sh s.set.clone (sets.map (·.set)) g <;> rfl

theorem FmtSet.intersection_set (s : FmtSet α) (sets : List (FmtSet α)) :
    (s.intersection sets).map (·.set) = s.set.intersection (sets.map (·.set)) := by
  simp only [FmtSet.intersection, MSet.intersection, FmtSet.cloneEmpty]
  cases interLoop (sets.map (·.set)) s.set.cloneEmpty s.set.members <;> rfl

theorem FmtSet.selectMatch_set (s : FmtSet α) (p : α → Bool) :
    (s.selectMatch p).map (·.set) = s.set.selectMatch p := by
  simp only [FmtSet.selectMatch, MSet.selectMatch, FmtSet.cloneEmpty]
  cases selectLoop p s.set.cloneEmpty s.set.members <;> rfl

theorem FmtSet.partitionMatch_set (s : FmtSet α) (p : α → Bool) :
    (s.partitionMatch p).map (fun r => (r.1.set, r.2.set)) = s.set.partitionMatch p := by
  simp only [FmtSet.partitionMatch, MSet.partitionMatch, FmtSet.cloneEmpty]
  cases partitionLoop p s.set.cloneEmpty s.set.cloneEmpty s.set.members <;> rfl

/-! ### the format of each result is the receiver's -/

theorem FmtSet.add_format {s t : FmtSet α} {vs : List α} (h : s.add vs = .ok t) : t.format = s.format := by
  simp only [FmtSet.add] at h
  cases hm : s.set.add vs <;> rw [hm] at h <;> cases h
  rfl

theorem FmtSet.remove_format {s t : FmtSet α} {vs : List α} (h : s.remove vs = .ok t) : t.format = s.format := by
  simp only [FmtSet.remove] at h
  cases hm : s.set.remove vs <;> rw [hm] at h <;> cases h
  rfl

theorem FmtSet.union_format {sh : Shuffle σ} {s t : FmtSet α} {sets : List (FmtSet α)} {g g' : σ}
    (h : s.union sh sets g = .ok (t, g')) : t.format = s.format := by
  simp only [FmtSet.union, FmtSet.clone] at h
  cases hm : unionLoop sh s.set.clone (sets.map (·.set)) g <;> rw [hm] at h <;> cases h
  rfl

theorem FmtSet.difference_format {sh : Shuffle σ} {s t : FmtSet α} {sets : List (FmtSet α)} {g g' : σ}
    (h : s.difference sh sets g = .ok (t, g')) : t.format = s.format := by
  simp only [FmtSet.difference, FmtSet.clone] at h
  cases hm : diffLoop sh s.set.clone (sets.map (·.set)) g <;> rw [hm] at h <;> cases h
  rfl

theorem FmtSet.intersection_format {s t : FmtSet α} {sets : List (FmtSet α)}
    (h : s.intersection sets = .ok t) : t.format = s.format := by
  simp only [FmtSet.intersection, FmtSet.cloneEmpty] at h
  cases hm : interLoop (sets.map (·.set)) s.set.cloneEmpty s.set.members <;> rw [hm] at h <;> cases h
  rfl

theorem FmtSet.selectMatch_format {s t : FmtSet α} {p : α → Bool}
    (h : s.selectMatch p = .ok t) : t.format = s.format := by
  simp only [FmtSet.selectMatch, FmtSet.cloneEmpty] at h
  cases hm : selectLoop p s.set.cloneEmpty s.set.members <;> rw [hm] at h <;> cases h
  rfl

theorem FmtSet.partitionMatch_format {s t u : FmtSet α} {p : α → Bool}
    (h : s.partitionMatch p = .ok (t, u)) : t.format = s.format ∧ u.format = s.format := by
  simp only [FmtSet.partitionMatch, FmtSet.cloneEmpty] at h
  cases hm : partitionLoop p s.set.cloneEmpty s.set.cloneEmpty s.set.members <;> rw [hm] at h <;> cases h
  exact ⟨rfl, rfl⟩

/-! ### the operations that only read -/

theorem bindX_eq_ok {β γ} {x : Outcome β} {f : β → Outcome γ} {r : γ} (h : (x >>= f) = .ok r) :
    ∃ a, x = .ok a ∧ f a = .ok r := by
  cases x with
  | ok a => exact ⟨a, rfl, h⟩
  | panic => cases h
  | diverge => cases h

/-- the operations of `C16.Op` that neither create nor change a set object -/
def Op.IsRead : Op α → Prop
  | .contains .. | .size _ | .isEmpty _ | .all _ | .equal .. | .subset .. | .superset ..
  | .anyMatch .. | .allMatch .. | .firstMatch .. => True
  | _ => False

theorem stepOp_read_regs (sh : Shuffle σ) (st : RegState α σ) (op : Op α) (hr : op.IsRead)
    (st' : RegState α σ) (obs : Obs α) (h : C16.stepOp sh st op = .ok (st', obs)) : st'.1 = st.1 := by
  cases op with
  | contains i vs =>
    simp only [C16.stepOp] at h
    split at h
    · cases h; rfl
    · obtain ⟨b, _, h₂⟩ := bindX_eq_ok h; cases h₂; rfl
  | size i => simp only [C16.stepOp] at h; split at h <;> cases h <;> rfl
  | isEmpty i => simp only [C16.stepOp] at h; split at h <;> cases h <;> rfl
  | all i =>
    simp only [C16.stepOp] at h
    split at h
    · cases h; rfl
    · obtain ⟨⟨ms, g⟩, _, h₂⟩ := bindX_eq_ok h; cases h₂; rfl
  | equal i j =>
    simp only [C16.stepOp] at h
    split at h
    · obtain ⟨b, _, h₂⟩ := bindX_eq_ok h; cases h₂; rfl
    · cases h; rfl
  | subset i j =>
    simp only [C16.stepOp] at h
    split at h
    · obtain ⟨⟨b, g⟩, _, h₂⟩ := bindX_eq_ok h; cases h₂; rfl
    · cases h; rfl
  | superset i j =>
    simp only [C16.stepOp] at h
    split at h
    · obtain ⟨⟨b, g⟩, _, h₂⟩ := bindX_eq_ok h; cases h₂; rfl
    · cases h; rfl
  | anyMatch i p => simp only [C16.stepOp] at h; split at h <;> cases h <;> rfl
  | allMatch i p => simp only [C16.stepOp] at h; split at h <;> cases h <;> rfl
  | firstMatch i p => simp only [C16.stepOp] at h; split at h <;> cases h <;> rfl
  | _ => exact hr.elim

theorem read_pair_eq {regs : List (MSet α)} (a : RegState α σ × Obs α) (h : a.1.1 = regs) :
    ((regs, a.1.2), a.2) = a := by
  obtain ⟨⟨r, g⟩, obs⟩ := a
  simp only at h
  subst h
  rfl

/-! ### one step -/

/-- a reading operation: `stepX` runs `C16.stepOp` on the erased state and keeps the registers -/
local macro "read_op" sh:ident regs:ident g:ident : tactic => `(tactic| (
  simp only [stepX, eraseX, map_bind]
  cases hx : C16.stepOp $sh (List.map (·.set) $regs, $g) _ with
  | ok a =>
    have h₁ := stepOp_read_regs $sh _ _ (by trivial) _ _ hx
    simp only [ok_bind, pure_eq_ok, map_ok]
    exact congrArg Outcome.ok (read_pair_eq a h₁)
  | panic => rfl
  | diverge => rfl))

/-- forgetting the formats (and the `String()` column) of a step of the machine with formats gives the step
of the functional machine on the state without formats -/
theorem stepX_erase (sh : Shuffle σ) (pv : α → String) (st : StateX α σ) (op : Op α) :
    (stepX sh pv st (.base op)).map (fun r => (eraseX r.1, r.2.1)) = C16.stepOp sh (eraseX st) op := by
  obtain ⟨regs, g⟩ := st
  cases op with
  | add i vs =>
    simp only [stepX, C16.stepOp, eraseX, List.getElem?_map]
    cases regs[i]? with
    | none => rfl
    | some s =>
      simp only [Option.map_some, map_bind, ← FmtSet.add_set s vs]
      cases s.add vs <;> simp [List.map_set]
  | remove i vs =>
    simp only [stepX, C16.stepOp, eraseX, List.getElem?_map]
    cases regs[i]? with
    | none => rfl
    | some s =>
      simp only [Option.map_some, map_bind, ← FmtSet.remove_set s vs]
      cases s.remove vs <;> simp [List.map_set]
  | removeAll i =>
    simp only [stepX, C16.stepOp, eraseX, List.getElem?_map]
    cases regs[i]? <;> simp [List.map_set, FmtSet.removeAll]
  | clone d i =>
    simp only [stepX, C16.stepOp, eraseX, List.getElem?_map, List.length_map]
    cases regs[i]? with
    | none => rfl
    | some s => by_cases hd : d < regs.length <;> simp [hd, List.map_set, FmtSet.clone]
  | cloneEmpty d i =>
    simp only [stepX, C16.stepOp, eraseX, List.getElem?_map, List.length_map]
    cases regs[i]? with
    | none => rfl
    | some s => by_cases hd : d < regs.length <;> simp [hd, List.map_set, FmtSet.cloneEmpty]
  | new d impl =>
    simp only [stepX, C16.stepOp, eraseX, List.length_map]
    by_cases hd : d < regs.length <;> simp [hd, List.map_set]
  | union d i js =>
    simp only [stepX, C16.stepOp, eraseX, List.getElem?_map, List.length_map, getRegs_erase]
    cases regs[i]? with
    | none => cases getRegsX regs js <;> rfl
    | some s =>
      cases getRegsX regs js with
      | none => rfl
      | some sets =>
        by_cases hd : d < regs.length
        · simp only [Option.map_some, hd, ↓reduceIte, map_bind, ← FmtSet.union_set sh s sets g]
          cases s.union sh sets g <;> simp [List.map_set]
        · simp [hd]
  | inter d i js =>
    simp only [stepX, C16.stepOp, eraseX, List.getElem?_map, List.length_map, getRegs_erase]
    cases regs[i]? with
    | none => cases getRegsX regs js <;> rfl
    | some s =>
      cases getRegsX regs js with
      | none => rfl
      | some sets =>
        by_cases hd : d < regs.length
        · simp only [Option.map_some, hd, ↓reduceIte, map_bind, ← FmtSet.intersection_set s sets]
          cases s.intersection sets <;> simp [List.map_set]
        · simp [hd]
  | diff d i js =>
    simp only [stepX, C16.stepOp, eraseX, List.getElem?_map, List.length_map, getRegs_erase]
    cases regs[i]? with
    | none => cases getRegsX regs js <;> rfl
    | some s =>
      cases getRegsX regs js with
      | none => rfl
      | some sets =>
        by_cases hd : d < regs.length
        · simp only [Option.map_some, hd, ↓reduceIte, map_bind, ← FmtSet.difference_set sh s sets g]
          cases s.difference sh sets g <;> simp [List.map_set]
        · simp [hd]
  | select d i p =>
    simp only [stepX, C16.stepOp, eraseX, List.getElem?_map, List.length_map]
    cases regs[i]? with
    | none => rfl
    | some s =>
      by_cases hd : d < regs.length
      · simp only [Option.map_some, hd, ↓reduceIte, map_bind, ← FmtSet.selectMatch_set s p]
        cases s.selectMatch p <;> simp [List.map_set]
      · simp [hd]
  | partitionM d e i p =>
    simp only [stepX, C16.stepOp, eraseX, List.getElem?_map, List.length_map]
    cases regs[i]? with
    | none => rfl
    | some s =>
      by_cases hd : d < regs.length ∧ e < regs.length
      · simp only [Option.map_some, hd, and_self, ↓reduceIte, map_bind, ← FmtSet.partitionMatch_set s p]
        cases s.partitionMatch p <;> simp [List.map_set]
      · simp [hd]
  | contains i vs => read_op sh regs g
  | size i => read_op sh regs g
  | isEmpty i => read_op sh regs g
  | all i => read_op sh regs g
  | equal i j => read_op sh regs g
  | subset i j => read_op sh regs g
  | superset i j => read_op sh regs g
  | anyMatch i p => read_op sh regs g
  | allMatch i p => read_op sh regs g
  | firstMatch i p => read_op sh regs g

/-! ### histories -/

theorem runOps_append (sh : Shuffle σ) : ∀ (a b : List (Op α)) (st : RegState α σ),
    (C16.runOps sh (a ++ b) st).map (·.1) =
      ((C16.runOps sh a st).map (·.1) >>= fun st₁ => (C16.runOps sh b st₁).map (·.1))
  | [], b, st => rfl
  | op :: a, b, st => by
    simp only [List.cons_append, C16.runOps, map_bind]
    cases C16.stepOp sh st op with
    | ok r =>
      obtain ⟨st₁, o⟩ := r
      have ih := runOps_append sh a b st₁
      simp only [ok_bind]
      cases h₁ : C16.runOps sh (a ++ b) st₁ with
      | ok r₁ =>
        rw [h₁] at ih
        cases h₂ : C16.runOps sh a st₁ with
        | ok r₂ => rw [h₂] at ih; simpa using ih
        | panic => rw [h₂] at ih; cases ih
        | diverge => rw [h₂] at ih; cases ih
      | panic =>
        rw [h₁] at ih
        cases h₂ : C16.runOps sh a st₁ with
        | ok r₂ => rw [h₂] at ih; simpa using ih
        | panic => rfl
        | diverge => rw [h₂] at ih; cases ih
      | diverge =>
        rw [h₁] at ih
        cases h₂ : C16.runOps sh a st₁ with
        | ok r₂ => rw [h₂] at ih; simpa using ih
        | panic => rw [h₂] at ih; cases ih
        | diverge => rfl
    | panic => rfl
    | diverge => rfl

theorem runOps_single (sh : Shuffle σ) (op : Op α) (st : RegState α σ) :
    (C16.runOps sh [op] st).map (·.1) = (C16.stepOp sh st op).map (·.1) := by
  simp only [C16.runOps]
  cases C16.stepOp sh st op <;> rfl

/-- a step of the machine with formats, formats forgotten, is the run of the lowered operations -/
theorem stepX_lower (sh : Shuffle σ) (pv : α → String) (st : StateX α σ) (opx : OpX α) :
    (stepX sh pv st opx).map (fun r => eraseX r.1) = (C16.runOps sh opx.lower (eraseX st)).map (·.1) := by
  cases opx with
  | base op =>
    simp only [OpX.lower, runOps_single, ← stepX_erase sh pv st op, map_map]
    rfl
  | newWith d impl vals =>
    obtain ⟨regs, g⟩ := st
    simp only [stepX, OpX.lower, C16.runOps, C16.stepOp, eraseX, List.length_map]
    by_cases hd : d < regs.length
    · have hd' : d < (regs.map (·.set)).length := by simpa using hd
      simp only [hd, ↓reduceIte, ok_bind, List.getElem?_set_self hd', map_bind, List.set_set]
      have := FmtSet.new_set pv impl vals
      simp only [MSet.newWith] at this
      rw [← this]
      cases FmtSet.new pv impl vals <;> simp [List.map_set]
    · simp [hd]
  | newWithFormat d impl format vals =>
    obtain ⟨regs, g⟩ := st
    simp only [stepX, OpX.lower, C16.runOps, C16.stepOp, eraseX, List.length_map]
    by_cases hd : d < regs.length
    · have hd' : d < (regs.map (·.set)).length := by simpa using hd
      simp only [hd, ↓reduceIte, ok_bind, List.getElem?_set_self hd', map_bind, List.set_set]
      have := FmtSet.newWithFormat_set impl format vals
      simp only [MSet.newWith] at this
      rw [← this]
      cases FmtSet.newWithFormat impl format vals <;> simp [List.map_set]
    · simp [hd]
  | string i =>
    simp only [stepX, OpX.lower, C16.runOps]
    cases st.1[i]? <;> rfl

/-- **every history**: forgetting the formats of the final state of a history with formats gives the final
state of the lowered history on the functional machine (and one fails exactly when the other does) -/
theorem runX_lower (sh : Shuffle σ) (pv : α → String) : ∀ (ops : List (OpX α)) (st : StateX α σ),
    (runX sh pv ops st).map (fun r => eraseX r.1) =
      (C16.runOps sh (ops.flatMap OpX.lower) (eraseX st)).map (·.1)
  | [], st => rfl
  | opx :: ops, st => by
    simp only [List.flatMap_cons, runOps_append, ← stepX_lower sh pv st opx, runX, map_bind]
    cases stepX sh pv st opx with
    | ok r =>
      obtain ⟨st₁, o⟩ := r
      simp only [ok_bind, map_ok, ← runX_lower sh pv ops st₁]
      cases runX sh pv ops st₁ <;> rfl
    | panic => rfl
    | diverge => rfl

end AlgoVerif.C16
