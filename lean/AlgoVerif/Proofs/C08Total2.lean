import AlgoVerif.Proofs.C08Total
/-!
# Totality, part 2: the closure loop; `EliminateSingleProductions`, `EliminateEmptyProductions`,
`EliminateCycles` return a grammar
-/
namespace AlgoVerif.C08
open AlgoVerif AlgoVerif.Gram AlgoVerif.C08.Spec

/-! ## the closure loop -/

/-- every target of a unit production -/
def allUnitTargets (ps : List SProd) : List String :=
  ps.filterMap fun p => match p.body with
    | [.nonterm b] => some b
    | _ => none

def closureUniverse (g : G) : List String := g.nonterms ++ allUnitTargets g.prods

theorem unitTargets_sub {ps : List SProd} {A x : String} (h : x ∈ unitTargets ps A) : x ∈ allUnitTargets ps := by
  have := mem_unitTargets h
  unfold allUnitTargets
  exact List.mem_filterMap.mpr ⟨_, this, rfl⟩

def sumLen (cl : Closure) : Nat := (cl.map (fun e => e.2.length)).sum

/-- keys are the declared non-terminals; the sets are duplicate-free and inside the universe -/
def ClosureBound (g : G) (cl : Closure) : Prop :=
  cl.map (fun e => e.1) = g.nonterms ∧ ∀ e ∈ cl, e.2.Nodup ∧ ∀ x ∈ e.2, x ∈ closureUniverse g

theorem closureInit_bound (g : G) : ClosureBound g (closureInit g) := by
  unfold closureInit
  refine ⟨by simp [List.map_map, Function.comp_def], ?_⟩
  intro e he
  obtain ⟨A, hA, rfl⟩ := List.mem_map.mp he
  refine ⟨insAll_nodup (by simp) _, ?_⟩
  intro x hx
  rcases mem_insAll.mp hx with hx | hx
  · simp at hx; subst hx
    exact List.mem_append.mpr (Or.inl hA)
  · exact List.mem_append.mpr (Or.inr (unitTargets_sub hx))

theorem closurePass_bound {g : G} {cl : Closure} (h : ClosureBound g cl) : ClosureBound g (closurePass cl) := by
  obtain ⟨hk, hs⟩ := h
  rw [closurePass_eq]
  refine ⟨by simpa [List.map_map, Function.comp_def] using hk, ?_⟩
  intro e he
  obtain ⟨e0, he0, rfl⟩ := List.mem_map.mp he
  obtain ⟨hnd, hsub⟩ := hs e0 he0
  unfold closureGrow
  constructor
  · refine foldl_inv List.Nodup _ e0.2 ?_ e0.2 hnd
    intro acc B _ hacc
    exact insAll_nodup hacc _
  · refine foldl_inv (fun acc => ∀ x ∈ acc, x ∈ closureUniverse g) _ e0.2 ?_ e0.2 hsub
    intro acc B _ hacc x hx
    rcases mem_insAll.mp hx with hx | hx
    · exact hacc x hx
    · obtain ⟨e', he', _, hx'⟩ := lookup_mem hx
      exact (hs e' he').2 x hx'

theorem sum_le_mul (l : List Nat) (b : Nat) (h : ∀ x ∈ l, x ≤ b) : l.sum ≤ l.length * b := by
  induction l with
  | nil => simp
  | cons a l ih =>
    simp only [List.sum_cons, List.length_cons]
    have := ih (fun x hx => h x (List.mem_cons_of_mem _ hx))
    have ha := h a (List.mem_cons_self ..)
    rw [Nat.succ_mul]
    omega

theorem sumLen_grow (F : List String → List String) (hF : ∀ c, c <+: F c) :
    ∀ cl : Closure, sumLen cl ≤ sumLen (cl.map (fun e => (e.1, F e.2))) ∧
      (cl.map (fun e => (e.1, F e.2)) ≠ cl → sumLen cl < sumLen (cl.map (fun e => (e.1, F e.2)))) := by
  intro cl
  induction cl with
  | nil => exact ⟨Nat.le_refl _, fun h => absurd rfl h⟩
  | cons e cl ih =>
    obtain ⟨ih1, ih2⟩ := ih
    have hle := (hF e.2).length_le
    unfold sumLen at ih1 ih2 ⊢
    simp only [List.map_cons, List.sum_cons]
    refine ⟨by omega, ?_⟩
    intro hne
    by_cases he : F e.2 = e.2
    · have htail : List.map (fun e => (e.1, F e.2)) cl ≠ cl := by
        intro ht
        apply hne
        rw [ht, he]
      have := ih2 htail
      omega
    · have := prefix_ne_length (hF e.2) he
      omega

theorem closureOf_total (g : G) : ∃ cl, closureOf g = .ok cl := by
  unfold closureOf
  have hU : (closureUniverse g).length ≤ g.nonterms.length + g.prods.length := by
    unfold closureUniverse allUnitTargets
    simp only [List.length_append]
    have := List.length_filterMap_le (fun p : SProd => match p.body with
      | [.nonterm b] => some b
      | _ => none) g.prods
    omega
  have hB : ∀ cl, ClosureBound g cl → sumLen cl ≤ g.nonterms.length * (g.nonterms.length + g.prods.length) := by
    intro cl ⟨hk, hs⟩
    have hlen : cl.length = g.nonterms.length := by rw [← hk]; simp
    unfold sumLen
    have := sum_le_mul (cl.map (fun e => e.2.length)) (g.nonterms.length + g.prods.length) (by
      intro x hx
      obtain ⟨e, he, rfl⟩ := List.mem_map.mp hx
      obtain ⟨hnd, hsub⟩ := hs e he
      exact Nat.le_trans (nodup_subset_length _ _ hnd hsub) hU)
    simpa [hlen] using this
  have := iterFix_total closurePass sumLen (g.nonterms.length * (g.nonterms.length + g.prods.length)) (ClosureBound g)
    (fun _ => closurePass_bound) hB ?_
    ((g.nonterms.length + g.prods.length + 2) * (g.nonterms.length + g.prods.length + 2)) (closureInit g)
    (closureInit_bound g) ?_
  · obtain ⟨y, hy⟩ := this
    exact ⟨y, by rw [hy]; rfl⟩
  · intro cl _ hne
    rw [closurePass_eq] at hne ⊢
    exact (sumLen_grow (closureGrow cl) (closureGrow_prefix cl) cl).2 hne
  · have h1 : g.nonterms.length * (g.nonterms.length + g.prods.length)
        ≤ (g.nonterms.length + g.prods.length + 2) * (g.nonterms.length + g.prods.length) :=
      Nat.mul_le_mul_right _ (by omega)
    have h2 : (g.nonterms.length + g.prods.length + 2) * (g.nonterms.length + g.prods.length)
        < (g.nonterms.length + g.prods.length + 2) * (g.nonterms.length + g.prods.length + 2) :=
      Nat.mul_lt_mul_of_le_of_lt (Nat.le_refl _) (by omega) (by omega)
    omega

theorem closureOf_bound {g : G} {cl : Closure} (h : closureOf g = .ok cl) : ClosureBound g cl := by
  unfold closureOf at h
  exact iterFix_inv closurePass (ClosureBound g) (fun _ => closurePass_bound) _ _ _ (closureInit_bound g) (ofOpt_ok h)

/-! ## `EliminateSingleProductions` returns a grammar for every valid grammar -/

theorem allUnitTargets_decl {g : G} (hw : WellFormed g) : ∀ x ∈ allUnitTargets g.prods, x ∈ g.nonterms := by
  intro x hx
  unfold allUnitTargets at hx
  obtain ⟨p, hp, hpx⟩ := List.mem_filterMap.mp hx
  split at hpx
  · rename_i b hb
    cases hpx
    exact (hw.2 p hp).2 (Sym.nonterm x) (by rw [hb]; simp)
  · cases hpx

theorem elimSingle_total {g : G} (hv : Valid g) : ∃ g', elimSingle g = .ok g' := by
  obtain ⟨cl, hc⟩ := closureOf_total g
  have hb := closureOf_bound hc
  have hw := hv.wellFormed
  unfold elimSingle
  have h1 : (g.prods.any fun p => isSingle p && decide (p.head ∉ g.nonterms)) = false := by
    rw [List.any_eq_false]
    intro p hp
    have := (hw.2 p hp).1
    simp [this]
  have h2 : (cl.any fun e => e.2.any fun B => !hasProd g.prods B) = false := by
    rw [List.any_eq_false]
    intro e he
    rw [Bool.not_eq_true, List.any_eq_false]
    intro B hB
    have hBU := (hb.2 e he).2 B hB
    have hBd : B ∈ g.nonterms := by
      rcases List.mem_append.mp hBU with h | h
      · exact h
      · exact allUnitTargets_decl hw B h
    have : hasProd g.prods B = true := hasProd_iff.mpr (hv.2.1 B hBd)
    simp [this]
  simp only [h1, hc, Outcome.bind, h2]
  exact ⟨_, rfl⟩

end AlgoVerif.C08
