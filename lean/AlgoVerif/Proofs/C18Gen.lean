import AlgoVerif.Generated.C18Gen
import AlgoVerif.Proofs.GoRt
import AlgoVerif.Model.C18Run
/-!
# The GENERATED model of `list/soft_queue.go` equals the hand-written Model

`Generated/C18Gen.lean` is rewritten from /repo's source by `/verif/extract/go2lean` on every check run
(`bin/pre-C18`).  Every generated definition is proved equal, for all arguments, to the definition of
`Model/C18.lean` (`SoftQueue.*`) the C18 theorems are about, through the reading `sq` of the generated structure
(the Model keeps the cells in a `List`, the generated structure in an `Array`) and `valIdx` of Go's `(T, int)`
results (index `-1` = nothing).  `run` executes a history on the generated definitions; `run_eq` says its trace is
the Model's.

`list/stack.go` and `list/queue.go` are outside the translator's subset (pointer-linked blocks, and in the queue
two pointers into one chain with stores through one of them): for them the hand Model + correspondence stand alone.
-/
set_option linter.unusedSectionVars false
set_option linter.unusedSimpArgs false
namespace AlgoVerif.C18.Gen
open AlgoVerif AlgoVerif.C18 AlgoVerif.Generated.List
variable {α : Type} [Inhabited α]

/-- the generated structure read as the hand Model's (the Model keeps the cells in a `List`) -/
def sq (q : softQueue α) : SoftQueue α := ⟨q.front, q.rear, q.list.toList⟩

/-- Go's `(T, int)` result of `Dequeue` / `Peek`: index `-1` means "empty" -/
def valIdx (r : α × Int) : Option (α × Int) := if r.2 = -1 then none else some r

theorem New_eq (eq : α → α → Bool) : (NewSoftQueue eq).map sq = .ok SoftQueue.new := by
  simp [NewSoftQueue, Go.make, sq, SoftQueue.new]

theorem New_equal (eq : α → α → Bool) : ∃ q, NewSoftQueue eq = .ok q ∧ q.equal = eq := by
  simp [NewSoftQueue, Go.make]

theorem Size_eq (q : softQueue α) : softQueue.Size q = (sq q).size := rfl
theorem IsEmpty_eq (q : softQueue α) : softQueue.IsEmpty q = (sq q).isEmpty := rfl

theorem Enqueue_eq (q : softQueue α) (v : α) :
    ((softQueue.Enqueue q v).1 |> sq, (softQueue.Enqueue q v).2) = (sq q).enqueue v := by
  simp only [softQueue.Enqueue, SoftQueue.enqueue, sq, Id.run]
  by_cases h : q.list.size + 1 = 1
  · have h' : ((q.list.push v).size : Int) = 1 := by simp; omega
    simp [h, h', pure]
  · have h' : ¬ ((q.list.push v).size : Int) = 1 := by simp; omega
    have h2 : ¬ q.list = #[] := fun e => h (by simp [e])
    have h3 : ¬ ((q.list.size : Int) + 1 = 1) := by omega
    simp [h, h', h2, h3, pure]

theorem cell_eq (q : softQueue α) : Go.idx q.list q.front = (sq q).cell := by
  simp only [Go.idx, SoftQueue.cell, sq]
  by_cases h0 : 0 ≤ q.front
  · by_cases h1 : q.front < q.list.size
    · have : q.front.toNat < q.list.size := by omega
      simp [h0, h1, this]
    · have : ¬ q.front.toNat < q.list.size := by omega
      simp [h0, h1, this]
  · simp [h0]

theorem cell_ok_front (q : softQueue α) (v : α) (h : Go.idx q.list q.front = .ok v) : 0 ≤ q.front := by
  unfold Go.idx at h
  split at h
  · omega
  · cases h

theorem Dequeue_eq (q : softQueue α) :
    (softQueue.Dequeue q).map (fun r => (sq r.1, valIdx r.2)) = (sq q).dequeue := by
  simp only [softQueue.Dequeue, SoftQueue.dequeue, IsEmpty_eq, ← cell_eq]
  by_cases he : q.front > q.rear
  · simp [he, SoftQueue.isEmpty, sq, Outcome.map, valIdx]
  · cases hc : Go.idx q.list q.front with
    | ok v =>
      have := cell_ok_front q v hc
      have h1 : q.front ≠ -1 := by omega
      simp [he, SoftQueue.isEmpty, Outcome.map, sq, valIdx, h1]
    | panic => simp [he, SoftQueue.isEmpty, sq, Outcome.map]
    | diverge => simp [he, SoftQueue.isEmpty, sq, Outcome.map]

theorem Peek_eq (q : softQueue α) : (softQueue.Peek q).map valIdx = (sq q).peek := by
  simp only [softQueue.Peek, SoftQueue.peek, IsEmpty_eq, ← cell_eq]
  by_cases he : q.front > q.rear
  · simp [he, SoftQueue.isEmpty, sq, Outcome.map, valIdx]
  · cases hc : Go.idx q.list q.front with
    | ok v =>
      have := cell_ok_front q v hc
      have h1 : q.front ≠ -1 := by omega
      simp [he, SoftQueue.isEmpty, Outcome.map, sq, valIdx, h1]
    | panic => simp [he, SoftQueue.isEmpty, sq, Outcome.map]
    | diverge => simp [he, SoftQueue.isEmpty, sq, Outcome.map]

/-- `for i, v := range q.list { if q.equal(v, val) { return i } }` from index `j`: the first match at or after `j` -/
theorem Contains_loop (q : softQueue α) (v : α) : ∀ (k j : Nat), j + k = q.list.size →
    softQueue.Contains.loop1 q v k (j : Int) =
      .ok (match (q.list.toList.drop j).findIdx? (fun x => q.equal x v) with
           | some i => .ret ((j + i : Nat) : Int)
           | none => .next ()) := by
  intro k
  induction k with
  | zero =>
    intro j h
    have : q.list.toList.drop j = [] := by simp; omega
    simp [softQueue.Contains.loop1, this]
  | succ k ih =>
    intro j h
    have hj : j < q.list.size := by omega
    have hd : q.list.toList.drop j = q.list[j] :: q.list.toList.drop (j + 1) := by
      rw [List.drop_eq_getElem_cons (by simpa using hj)]; simp
    simp only [softQueue.Contains.loop1, Go.idx_nat hj, Outcome.ok_bind, hd, List.findIdx?_cons]
    by_cases he : q.equal q.list[j] v = true
    · simp [he]
    · have := ih (j + 1) (by omega)
      rw [show ((j + 1 : Nat) : Int) = (j : Int) + 1 by omega] at this
      simp only [he, Bool.false_eq_true, if_false, this]
      cases List.findIdx? (fun x => q.equal x v) (List.drop (j + 1) q.list.toList) <;> simp <;> omega

theorem Contains_eq (q : softQueue α) (v : α) :
    softQueue.Contains q v = .ok ((sq q).contains q.equal v) := by
  have := Contains_loop q v q.list.size 0 (by simp)
  simp only [show ((0 : Nat) : Int) = 0 from rfl, List.drop_zero, Nat.zero_add] at this
  simp only [softQueue.Contains, this, SoftQueue.contains, sq]
  cases List.findIdx? (fun x => q.equal x v) q.list.toList <;> simp

theorem Values_eq (q : softQueue α) : (softQueue.Values q).map Array.toList = .ok (sq q).values := by
  have : Go.copy (Array.replicate q.list.size (default : α)) q.list = q.list := by
    apply Array.ext (by simp [Go.copy])
    intro i h1 h2
    simp [Go.copy, h2]
  simp [softQueue.Values, Go.make_nat, this, SoftQueue.values, sq]

/-! ## histories on the generated definitions (same observable outputs as `SoftQueue.step`) -/

def step (q : softQueue α) : SoftOp α → Outcome (softQueue α × Out α)
  | .enq v => .ok ((softQueue.Enqueue q v).1, .int (softQueue.Enqueue q v).2)
  | .deq => (softQueue.Dequeue q).map fun r => (r.1, .valIdx (valIdx r.2))
  | .peek => (softQueue.Peek q).map fun r => (q, .valIdx (valIdx r))
  | .contains v => (softQueue.Contains q v).map fun i => (q, .int i)
  | .size => .ok (q, .int (softQueue.Size q))
  | .isEmpty => .ok (q, .bool (softQueue.IsEmpty q))
  | .values => (softQueue.Values q).map fun l => (q, .list l.toList)

def run : softQueue α → List (SoftOp α) → List (Outcome (Out α)) := runTrace step

theorem step_eq (q : softQueue α) (op : SoftOp α) :
    (step q op).map (fun r => (sq r.1, r.2)) = SoftQueue.step q.equal (sq q) op := by
  cases op with
  | enq v =>
    have := Enqueue_eq q v
    simp only [step, SoftQueue.step, Outcome.map_ok, ← this]
  | deq =>
    simp only [step, SoftQueue.step, ← Dequeue_eq]
    cases softQueue.Dequeue q <;> simp
  | peek =>
    simp only [step, SoftQueue.step, ← Peek_eq]
    cases softQueue.Peek q <;> simp
  | contains v => simp [step, SoftQueue.step, Contains_eq]
  | size => simp [step, SoftQueue.step, Size_eq]
  | isEmpty => simp [step, SoftQueue.step, IsEmpty_eq]
  | values =>
    have := Values_eq q
    simp only [step, SoftQueue.step]
    revert this
    cases softQueue.Values q <;> simp

/-- no operation changes the `equal` callback -/
theorem step_equal (q q' : softQueue α) (op : SoftOp α) (o : Out α) (h : step q op = .ok (q', o)) :
    q'.equal = q.equal := by
  cases op with
  | enq v =>
    simp only [step, Outcome.ok.injEq, Prod.mk.injEq] at h
    rw [← h.1]
    simp only [softQueue.Enqueue, Id.run]
    split <;> rfl
  | deq =>
    simp only [step, softQueue.Dequeue] at h
    split at h
    · simp [Outcome.map] at h; rw [← h.1]
    · cases hc : Go.idx q.list q.front <;> simp [hc, Outcome.map] at h
      rw [← h.1]
  | peek => cases hp : softQueue.Peek q <;> simp [step, hp] at h; rw [← h.1]
  | contains v => cases hp : softQueue.Contains q v <;> simp [step, hp] at h; rw [← h.1]
  | size => simp [step] at h; rw [← h.1]
  | isEmpty => simp [step] at h; rw [← h.1]
  | values => cases hp : softQueue.Values q <;> simp [step, hp] at h; rw [← h.1]

theorem run_eq (ops : List (SoftOp α)) : ∀ q : softQueue α, run q ops = SoftQueue.run q.equal (sq q) ops := by
  induction ops with
  | nil => intro q; rfl
  | cons op ops ih =>
    intro q
    have hs := step_eq q op
    simp only [run, SoftQueue.run, runTrace]
    cases h : step q op with
    | ok r =>
      obtain ⟨q', o⟩ := r
      rw [h] at hs
      simp only [Outcome.map_ok] at hs
      rw [← hs]
      have := ih q'
      simp only [run, SoftQueue.run, step_equal q q' op o h] at this
      simp [this]
    | panic => rw [h] at hs; simp only [Outcome.map_panic] at hs; rw [← hs]
    | diverge => rw [h] at hs; simp only [Outcome.map_diverge] at hs; rw [← hs]
end AlgoVerif.C18.Gen
