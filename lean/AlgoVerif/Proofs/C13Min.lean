import AlgoVerif.Proofs.C13DfaTerm
/-! C13: step 4 of `Minimize` — the quotient of a DFA by a *stable* partition accepts the same language. -/
namespace AlgoVerif.C13
open AlgoVerif AlgoVerif.C13.Spec

/-- what the refinement loop is meant to establish for the partition it returns -/
structure Stable (d : DFA) (P : Partition) : Prop where
  cover : ∀ s ∈ d.states, P.rep s ≠ -1
  fin : ∀ s ∈ d.states, ∀ t ∈ d.states, P.rep s = P.rep t → (s ∈ d.final ↔ t ∈ d.final)
  sig : ∀ s ∈ d.states, ∀ t ∈ d.states, P.rep s = P.rep t → ∀ a, (d.δ s a).map P.rep = (d.δ t a).map P.rep
  head : ∀ G ∈ P.groups, (G.1 = [] ∧ ∀ s ∈ d.states, P.rep s ≠ G.2) ∨
    (G.1.headD 0 ∈ d.states ∧ P.rep (G.1.headD 0) = G.2)

theorem Partition.rep_grp (P : Partition) (s : Int) (h : P.rep s ≠ -1) : ∃ G ∈ P.groups, G.2 = P.rep s := by
  unfold Partition.rep at h ⊢
  cases hf : P.groups.find? (fun g => g.1.contains s) with
  | none => rw [hf] at h; exact absurd rfl h
  | some g => exact ⟨g, List.mem_of_find?_eq_some hf, rfl⟩

theorem DFA.step_mem_states (d : DFA) (hwf : d.WF) {s a t : Int} (h : d.δ s a = some t) :
    s ∈ d.states ∧ t ∈ d.states :=
  ⟨d.mem_states_of s (Or.inr (Or.inr ⟨s, a, t, (mem_entries_DFA hwf _ _ _).2 h, Or.inl rfl⟩)),
   d.mem_states_of t (Or.inr (Or.inr ⟨s, a, t, (mem_entries_DFA hwf _ _ _).2 h, Or.inr rfl⟩))⟩

/-- the transitions `buildMin` adds for one group -/
def minGroupEntries (d : DFA) (P : Partition) (G : List Int × Int) : List (Int × Int × Int) :=
  match aget (G.1.headD 0) d.trans with
  | some v => v.map (fun e => (G.2, e.1, P.rep e.2))
  | none => []

theorem buildMin_eq (d : DFA) (P : Partition) :
    buildMin d P = DFA.ofEntries (P.rep d.start) (d.final.foldl (fun acc f => sins (P.rep f) acc) [])
      (P.groups.flatMap (minGroupEntries d P)) := by
  simp only [buildMin, DFA.ofEntries, List.foldl_flatMap]
  congr 1
  funext dfa G
  simp only [minGroupEntries]
  cases aget (G.1.headD 0) d.trans with
  | none => simp
  | some v => simp [List.foldl_map]

theorem mem_minGroupEntries (d : DFA) (hwf : d.WF) (P : Partition) (G : List Int × Int) (r a r' : Int) :
    (r, a, r') ∈ minGroupEntries d P G ↔ r = G.2 ∧ ∃ t, d.δ (G.1.headD 0) a = some t ∧ P.rep t = r' := by
  simp only [minGroupEntries, DFA.δ]
  cases h : aget (G.1.headD 0) d.trans with
  | none => simp
  | some v =>
    have hv : ASorted v := hwf.2 _ (aget_mem h)
    simp only [List.mem_map]
    constructor
    · rintro ⟨e, he, heq⟩
      obtain ⟨a1, t1⟩ := e
      simp at heq
      obtain ⟨rfl, rfl, rfl⟩ := heq
      exact ⟨rfl, t1, (mem_iff_aget hv _ _).1 he, rfl⟩
    · rintro ⟨rfl, t, ht, rfl⟩
      exact ⟨(a, t), (mem_iff_aget hv _ _).2 ht, rfl⟩

theorem mem_foldl_sins_map (f : Int → Int) (l : List Int) (acc : List Int) (x : Int) :
    x ∈ l.foldl (fun acc y => sins (f y) acc) acc ↔ x ∈ acc ∨ ∃ y ∈ l, f y = x := by
  induction l generalizing acc with
  | nil => simp
  | cons y l ih =>
    simp only [List.foldl_cons]
    rw [ih]
    simp only [mem_sins, List.mem_cons]
    constructor
    · rintro ((h | h) | ⟨z, h1, h2⟩)
      · right; exact ⟨y, Or.inl rfl, h.symm⟩
      · left; exact h
      · right; exact ⟨z, Or.inr h1, h2⟩
    · rintro (h | ⟨z, h1 | h1, h2⟩)
      · left; right; exact h
      · subst h1; left; left; exact h2.symm
      · right; exact ⟨z, h1, h2⟩

/-- the quotient by a stable partition: start state, final states, transition function, runs, and where
its table entries come from -/
theorem buildMin_facts (d : DFA) (hwf : d.WF) (P : Partition) (hs : Stable d P) :
    (buildMin d P).start = P.rep d.start ∧
    (∀ x, x ∈ (buildMin d P).final ↔ ∃ f ∈ d.final, P.rep f = x) ∧
    (∀ s ∈ d.states, ∀ a, (buildMin d P).δ (P.rep s) a = (d.δ s a).map P.rep) ∧
    (∀ (w : Word) (s : Int), s ∈ d.states →
      dfaRun (buildMin d P).δ (some (P.rep s)) w = (dfaRun d.δ (some s) w).map P.rep) ∧
    (∀ r a r', (buildMin d P).δ r a = some r' →
      ∃ G ∈ P.groups, r = G.2 ∧ ∃ t, d.δ (G.1.headD 0) a = some t ∧ P.rep t = r') ∧
    (buildMin d P).WF := by
  have hstart : d.start ∈ d.states := d.mem_states_of _ (Or.inl rfl)
  have hfinal : ∀ f ∈ d.final, f ∈ d.states := fun f hf => d.mem_states_of _ (Or.inr (Or.inl hf))
  rw [buildMin_eq]
  have hsf := DFA.ofEntries_start_final (P.rep d.start) (d.final.foldl (fun acc f => sins (P.rep f) acc) [])
    (P.groups.flatMap (minGroupEntries d P))
  generalize hres : DFA.ofEntries (P.rep d.start) (d.final.foldl (fun acc f => sins (P.rep f) acc) [])
    (P.groups.flatMap (minGroupEntries d P)) = res at hsf
  have hmem : ∀ r a r', (r, a, r') ∈ P.groups.flatMap (minGroupEntries d P) ↔
      ∃ G ∈ P.groups, r = G.2 ∧ ∃ t, d.δ (G.1.headD 0) a = some t ∧ P.rep t = r' := by
    intro r a r'
    simp only [List.mem_flatMap, mem_minGroupEntries d hwf]
  have hsound : ∀ r a r', res.δ r a = some r' →
      ∃ G ∈ P.groups, r = G.2 ∧ ∃ t, d.δ (G.1.headD 0) a = some t ∧ P.rep t = r' := by
    intro r a r' h
    rw [← hres] at h
    rcases DFA.fold_sound _ _ r a r' h with h' | h'
    · simp [DFA.δ, aget] at h'
    · exact (hmem _ _ _).1 h'
  have hdef : ∀ r a, (∃ G ∈ P.groups, r = G.2 ∧ ∃ t, d.δ (G.1.headD 0) a = some t) → (res.δ r a).isSome := by
    intro r a ⟨G, hG, hr, t, ht⟩
    rw [← hres]
    exact DFA.fold_defined _ _ r a (Or.inr ⟨P.rep t, (hmem _ _ _).2 ⟨G, hG, hr, t, ht, rfl⟩⟩)
  -- the quotient's transition function is the image of `d`'s
  have key : ∀ s ∈ d.states, ∀ a, res.δ (P.rep s) a = (d.δ s a).map P.rep := by
    intro s hs' a
    -- whatever the table holds for `rep s` comes from a state with the same representative
    have from_tbl : ∀ r', res.δ (P.rep s) a = some r' → (d.δ s a).map P.rep = some r' := by
      intro r' h
      obtain ⟨G, hG, hr, t, ht, hrt⟩ := hsound _ _ _ h
      rcases hs.head G hG with ⟨_, hjunk⟩ | ⟨hh1, hh2⟩
      · exact absurd hr (hjunk s hs')
      · have := hs.sig _ hh1 s hs' (by rw [hh2, hr]) a
        rw [← this, ht]; simp [hrt]
    cases hd : d.δ s a with
    | none =>
      cases hr : res.δ (P.rep s) a with
      | none => rfl
      | some r' => have := from_tbl r' hr; rw [hd] at this; simp at this
    | some t =>
      obtain ⟨G, hG, hGr⟩ := P.rep_grp s (hs.cover s hs')
      have hne : ∃ t', d.δ (G.1.headD 0) a = some t' := by
        rcases hs.head G hG with ⟨_, hjunk⟩ | ⟨hh1, hh2⟩
        · exact absurd hGr.symm (hjunk s hs')
        · have := hs.sig _ hh1 s hs' (by rw [hh2, hGr]) a
          rw [hd] at this
          cases hx : d.δ (G.1.headD 0) a with
          | none => rw [hx] at this; simp at this
          | some t' => exact ⟨t', rfl⟩
      obtain ⟨t', ht'⟩ := hne
      have := hdef (P.rep s) a ⟨G, hG, hGr.symm, t', ht'⟩
      rw [Option.isSome_iff_exists] at this
      obtain ⟨r', hr'⟩ := this
      have := from_tbl r' hr'
      rw [hd] at this
      rw [hr', ← this]
  have hrun : ∀ (w : Word) (s : Int), s ∈ d.states →
      dfaRun res.δ (some (P.rep s)) w = (dfaRun d.δ (some s) w).map P.rep := by
    intro w
    induction w with
    | nil => intro s _; simp [dfaRun]
    | cons a w ih =>
      intro s hs'
      simp only [dfaRun]
      rw [key s hs' a]
      cases hd : d.δ s a with
      | none => simp [dfaRun_none]
      | some t => simp only [Option.map_some]; exact ih t (d.step_mem_states hwf hd).2
  refine ⟨hsf.1, ?_, key, hrun, hsound, ?_⟩
  · intro x
    rw [hsf.2, mem_foldl_sins_map]
    simp
  · rw [← hres]
    unfold DFA.ofEntries
    suffices h : ∀ (L : List (Int × Int × Int)) (d0 : DFA), d0.WF →
        (L.foldl (fun (acc : DFA) e => acc.add e.1 e.2.1 e.2.2) d0).WF from h _ _ (by simp [DFA.WF, ASorted])
    intro L
    induction L with
    | nil => intro d0 h; exact h
    | cons e L ih => intro d0 h; simp only [List.foldl_cons]; exact ih _ (DFA.WF_add h _ _ _)

/-- the quotient by a stable partition accepts the same language -/
theorem buildMin_lang (d : DFA) (hwf : d.WF) (P : Partition) (hs : Stable d P) (w : Word) :
    (buildMin d P).lang w ↔ d.lang w := by
  have hstart : d.start ∈ d.states := d.mem_states_of _ (Or.inl rfl)
  have hfinal : ∀ f ∈ d.final, f ∈ d.states := fun f hf => d.mem_states_of _ (Or.inr (Or.inl hf))
  rw [buildMin_eq]
  have hsf := DFA.ofEntries_start_final (P.rep d.start) (d.final.foldl (fun acc f => sins (P.rep f) acc) [])
    (P.groups.flatMap (minGroupEntries d P))
  generalize hres : DFA.ofEntries (P.rep d.start) (d.final.foldl (fun acc f => sins (P.rep f) acc) [])
    (P.groups.flatMap (minGroupEntries d P)) = res at hsf
  have hmem : ∀ r a r', (r, a, r') ∈ P.groups.flatMap (minGroupEntries d P) ↔
      ∃ G ∈ P.groups, r = G.2 ∧ ∃ t, d.δ (G.1.headD 0) a = some t ∧ P.rep t = r' := by
    intro r a r'
    simp only [List.mem_flatMap, mem_minGroupEntries d hwf]
  have hsound : ∀ r a r', res.δ r a = some r' →
      ∃ G ∈ P.groups, r = G.2 ∧ ∃ t, d.δ (G.1.headD 0) a = some t ∧ P.rep t = r' := by
    intro r a r' h
    rw [← hres] at h
    rcases DFA.fold_sound _ _ r a r' h with h' | h'
    · simp [DFA.δ, aget] at h'
    · exact (hmem _ _ _).1 h'
  have hdef : ∀ r a, (∃ G ∈ P.groups, r = G.2 ∧ ∃ t, d.δ (G.1.headD 0) a = some t) → (res.δ r a).isSome := by
    intro r a ⟨G, hG, hr, t, ht⟩
    rw [← hres]
    exact DFA.fold_defined _ _ r a (Or.inr ⟨P.rep t, (hmem _ _ _).2 ⟨G, hG, hr, t, ht, rfl⟩⟩)
  -- the quotient's transition function is the image of `d`'s
  have key : ∀ s ∈ d.states, ∀ a, res.δ (P.rep s) a = (d.δ s a).map P.rep := by
    intro s hs' a
    -- whatever the table holds for `rep s` comes from a state with the same representative
    have from_tbl : ∀ r', res.δ (P.rep s) a = some r' → (d.δ s a).map P.rep = some r' := by
      intro r' h
      obtain ⟨G, hG, hr, t, ht, hrt⟩ := hsound _ _ _ h
      rcases hs.head G hG with ⟨_, hjunk⟩ | ⟨hh1, hh2⟩
      · exact absurd hr (hjunk s hs')
      · have := hs.sig _ hh1 s hs' (by rw [hh2, hr]) a
        rw [← this, ht]; simp [hrt]
    cases hd : d.δ s a with
    | none =>
      cases hr : res.δ (P.rep s) a with
      | none => rfl
      | some r' => have := from_tbl r' hr; rw [hd] at this; simp at this
    | some t =>
      obtain ⟨G, hG, hGr⟩ := P.rep_grp s (hs.cover s hs')
      have hne : ∃ t', d.δ (G.1.headD 0) a = some t' := by
        rcases hs.head G hG with ⟨_, hjunk⟩ | ⟨hh1, hh2⟩
        · exact absurd hGr.symm (hjunk s hs')
        · have := hs.sig _ hh1 s hs' (by rw [hh2, hGr]) a
          rw [hd] at this
          cases hx : d.δ (G.1.headD 0) a with
          | none => rw [hx] at this; simp at this
          | some t' => exact ⟨t', rfl⟩
      obtain ⟨t', ht'⟩ := hne
      have := hdef (P.rep s) a ⟨G, hG, hGr.symm, t', ht'⟩
      rw [Option.isSome_iff_exists] at this
      obtain ⟨r', hr'⟩ := this
      have := from_tbl r' hr'
      rw [hd] at this
      rw [hr', ← this]
  have hrun : ∀ (w : Word) (s : Int), s ∈ d.states →
      dfaRun res.δ (some (P.rep s)) w = (dfaRun d.δ (some s) w).map P.rep := by
    intro w
    induction w with
    | nil => intro s _; simp [dfaRun]
    | cons a w ih =>
      intro s hs'
      simp only [dfaRun]
      rw [key s hs' a]
      cases hd : d.δ s a with
      | none => simp [dfaRun_none]
      | some t => simp only [Option.map_some]; exact ih t (d.step_mem_states hwf hd).2
  simp only [DFA.lang, dfaLang, hsf.1, hsf.2, hrun w d.start hstart]
  constructor
  · rintro ⟨f', h1, h2⟩
    rw [mem_foldl_sins_map] at h2
    simp only [List.not_mem_nil, false_or] at h2
    obtain ⟨f, hf, hff⟩ := h2
    cases hr : dfaRun d.δ (some d.start) w with
    | none => rw [hr] at h1; simp at h1
    | some t =>
      rw [hr] at h1; simp at h1
      refine ⟨t, rfl, ?_⟩
      have ht : t ∈ d.states := by
        -- the run stays inside the states
        have : ∀ (w : Word) (s t : Int), s ∈ d.states → dfaRun d.δ (some s) w = some t → t ∈ d.states := by
          intro w
          induction w with
          | nil => intro s t hs' h; simp [dfaRun] at h; subst h; exact hs'
          | cons a w ih =>
            intro s t hs' h
            simp only [dfaRun] at h
            cases hd : d.δ s a with
            | none => rw [hd, dfaRun_none] at h; simp at h
            | some t2 => rw [hd] at h; exact ih t2 t (d.step_mem_states hwf hd).2 h
        exact this w _ _ hstart hr
      exact (hs.fin f (hfinal f hf) t ht (by rw [hff, h1])).1 hf
  · rintro ⟨t, h1, h2⟩
    refine ⟨P.rep t, by rw [h1]; rfl, ?_⟩
    rw [mem_foldl_sins_map]
    right; exact ⟨t, h2, rfl⟩

theorem DFA.mem_symbols (d : DFA) (hwf : d.WF) {s a t : Int} (h : d.δ s a = some t) : a ∈ d.symbols := by
  have hsy : d.symbols = (entries d.trans).foldl (fun acc e => sins e.2.1 acc) [] := by
    simp only [DFA.symbols]
    exact foldl_nested (γ := List Int) d.trans (fun acc _ a _ => sins a acc) _
  rw [hsy]
  have gen : ∀ (L : List (Int × Int × Int)) (acc : List Int), (a ∈ acc ∨ ∃ s t, (s, a, t) ∈ L) →
      a ∈ L.foldl (fun acc e => sins e.2.1 acc) acc := by
    intro L
    induction L with
    | nil => intro acc h; simpa using h
    | cons e L ih =>
      intro acc h
      simp only [List.foldl_cons]
      apply ih
      obtain ⟨s1, a1, t1⟩ := e
      rcases h with h | ⟨s, t, hm⟩
      · left; simp [h]
      · simp at hm
        rcases hm with ⟨_, rfl, _⟩ | hm
        · left; simp
        · right; exact ⟨s, t, hm⟩
  exact gen _ _ (Or.inr ⟨s, t, (mem_entries_DFA hwf _ _ _).2 h⟩)

/-- the computable check implies stability -/
theorem stable_of_stableB (d : DFA) (hwf : d.WF) (P : Partition) (h : stableB d P = true) : Stable d P := by
  simp only [stableB, Bool.and_eq_true, List.all_eq_true] at h
  obtain ⟨⟨h1, h2⟩, h3⟩ := h
  refine ⟨?_, ?_, ?_, ?_⟩
  · intro s hs; simpa using h1 s hs
  · intro s hs t ht hr
    have := h2 s hs t ht
    simp only [Bool.or_eq_true, bne_iff_ne, ne_eq, Bool.and_eq_true, beq_iff_eq] at this
    rcases this with h' | ⟨h', _⟩
    · exact absurd hr h'
    · constructor
      · intro hx; have : d.final.contains s = true := by simpa using hx
        rw [h'] at this; simpa using this
      · intro hx; have : d.final.contains t = true := by simpa using hx
        rw [← h'] at this; simpa using this
  · intro s hs t ht hr a
    have := h2 s hs t ht
    simp only [Bool.or_eq_true, bne_iff_ne, ne_eq, Bool.and_eq_true, beq_iff_eq, List.all_eq_true] at this
    rcases this with h' | ⟨_, h'⟩
    · exact absurd hr h'
    · by_cases ha : a ∈ d.symbols
      · exact h' a ha
      · have e1 : d.δ s a = none := by
          cases hd : d.δ s a with
          | none => rfl
          | some x => exact absurd (d.mem_symbols hwf hd) ha
        have e2 : d.δ t a = none := by
          cases hd : d.δ t a with
          | none => rfl
          | some x => exact absurd (d.mem_symbols hwf hd) ha
        rw [e1, e2]
  · intro G hG
    have := h3 G hG
    simp only [Bool.or_eq_true, Bool.and_eq_true, List.all_eq_true, bne_iff_ne, ne_eq, beq_iff_eq,
      List.isEmpty_iff, List.contains_eq_mem, decide_eq_true_eq] at this
    rcases this with ⟨a1, a2⟩ | ⟨a1, a2⟩
    · left; exact ⟨a1, a2⟩
    · right; exact ⟨a1, a2⟩

end AlgoVerif.C13
