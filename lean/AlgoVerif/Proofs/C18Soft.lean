import AlgoVerif.Proofs.C18Core
/-!
# C18 — the soft queue refines (all values ever enqueued, number dequeued); positions are stable
-/
namespace AlgoVerif.C18
variable {α : Type}

/-- simulation relation for the soft queue: the slice is the Spec's `all`, `rear` is the last index,
`front` is the number of values dequeued so far. -/
structure SoftQueue.Rel (q : SoftQueue α) (t : Spec.SQ α) : Prop where
  all : t.all = q.list
  rear : q.rear = (q.list.length : Int) - 1
  front_nonneg : 0 ≤ q.front
  front_le : q.front ≤ q.list.length
  front : t.front = q.front.toNat

theorem SoftQueue.new_rel : SoftQueue.Rel (SoftQueue.new : SoftQueue α) {} := by
  constructor <;> simp [SoftQueue.new]

theorem SoftQueue.step_refines (eq : α → α → Bool) (q : SoftQueue α) (t : Spec.SQ α) (op : SoftOp α)
    (h : SoftQueue.Rel q t) :
    ∃ q', SoftQueue.step eq q op = .ok (q', (Spec.SQ.step eq t op).2) ∧
      SoftQueue.Rel q' (Spec.SQ.step eq t op).1 := by
  obtain ⟨hall, hrear, hf0, hfl, hfront⟩ := h
  cases op with
  | enq v =>
    simp only [SoftQueue.step, Spec.SQ.step, SoftQueue.enqueue, Spec.SQ.enqueue]
    by_cases h1 : (q.list ++ [v]).length = 1
    · have hl : q.list = [] := by
        cases hq : q.list with
        | nil => rfl
        | cons a l => rw [hq] at h1; simp at h1
      simp only [h1, if_true]
      refine ⟨_, by rw [hall, hl]; rfl, ?_⟩
      constructor <;> simp [hall, hl, hfront]
      rw [hl] at hfl; simp at hfl; omega
    · simp only [h1, if_false]
      refine ⟨_, by rw [hall, hrear]; congr 3; omega, ?_⟩
      constructor <;> simp [hall, hfront, hf0]
      omega
  | deq =>
    simp only [SoftQueue.step, Spec.SQ.step, SoftQueue.dequeue, Spec.SQ.dequeue]
    by_cases he : q.front < q.list.length
    · have hne : q.isEmpty = false := by simp [SoftQueue.isEmpty, hrear]; omega
      have hlt : q.front.toNat < q.list.length := by omega
      have hc : q.cell = .ok q.list[q.front.toNat] := by simp [SoftQueue.cell, hf0, hlt]
      have hg : t.all[t.front]? = some q.list[q.front.toNat] := by simp [hall, hfront, hlt]
      simp only [hne, hc, hg, Outcome.map]
      have hcast : q.front = ↑t.front := by rw [hfront]; omega
      simp only [Bool.false_eq_true, if_false, ← hcast]
      refine ⟨_, rfl, ?_⟩
      constructor <;> simp [hall, hrear, hfront]
      all_goals omega
    · have hem : q.isEmpty = true := by simp [SoftQueue.isEmpty, hrear]; omega
      have hg : t.all[t.front]? = none := by simp [hall, hfront]; omega
      simp only [hem, hg, if_true]
      exact ⟨q, rfl, ⟨hall, hrear, hf0, hfl, hfront⟩⟩
  | peek =>
    simp only [SoftQueue.step, Spec.SQ.step, SoftQueue.peek, Spec.SQ.peek]
    refine ⟨q, ?_, ⟨hall, hrear, hf0, hfl, hfront⟩⟩
    by_cases he : q.front < q.list.length
    · have hne : q.isEmpty = false := by simp [SoftQueue.isEmpty, hrear]; omega
      have hlt : q.front.toNat < q.list.length := by omega
      have hc : q.cell = .ok q.list[q.front.toNat] := by simp [SoftQueue.cell, hf0, hlt]
      have hg : t.all[t.front]? = some q.list[q.front.toNat] := by simp [hall, hfront, hlt]
      have hcast : q.front = ↑t.front := by rw [hfront]; omega
      simp [hne, hc, hg, Outcome.map, ← hcast]
    · have hem : q.isEmpty = true := by simp [SoftQueue.isEmpty, hrear]; omega
      have hg : t.all[t.front]? = none := by simp [hall, hfront]; omega
      simp [hem, hg, Outcome.map]
  | contains v =>
    refine ⟨q, ?_, ⟨hall, hrear, hf0, hfl, hfront⟩⟩
    simp only [SoftQueue.step, SoftQueue.contains, Spec.SQ.step, Spec.SQ.contains, hall]
    cases List.findIdx? (fun x => eq x v) q.list <;> rfl
  | size =>
    refine ⟨q, ?_, ⟨hall, hrear, hf0, hfl, hfront⟩⟩
    simp [SoftQueue.step, SoftQueue.size, Spec.SQ.step, Spec.SQ.size, hall, hrear, hfront]
    omega
  | isEmpty =>
    refine ⟨q, ?_, ⟨hall, hrear, hf0, hfl, hfront⟩⟩
    simp [SoftQueue.step, SoftQueue.isEmpty, Spec.SQ.step, Spec.SQ.isEmpty, hall, hrear, hfront]
    omega
  | values =>
    exact ⟨q, by simp [SoftQueue.step, SoftQueue.values, Spec.SQ.step, Spec.SQ.values, hall], ⟨hall, hrear, hf0, hfl, hfront⟩⟩

theorem SoftQueue.run_refines (eq : α → α → Bool) (ops : List (SoftOp α)) :
    SoftQueue.run eq SoftQueue.new ops = (Spec.SQ.run eq {} ops).map Outcome.ok :=
  runTrace_refines _ _ SoftQueue.Rel (SoftQueue.step_refines eq) ops _ _ SoftQueue.new_rel

/-- a Spec step only ever appends to `all` -/
theorem Spec.SQ.step_all (eq : α → α → Bool) (t : Spec.SQ α) (op : SoftOp α) :
    ∃ ext, (Spec.SQ.step eq t op).1.all = t.all ++ ext := by
  cases op with
  | enq v => exact ⟨[v], rfl⟩
  | deq =>
    refine ⟨[], ?_⟩
    simp only [Spec.SQ.step, Spec.SQ.dequeue]
    split <;> simp
  | peek => exact ⟨[], by simp [Spec.SQ.step]⟩
  | contains v => exact ⟨[], by simp [Spec.SQ.step]⟩
  | size => exact ⟨[], by simp [Spec.SQ.step]⟩
  | isEmpty => exact ⟨[], by simp [Spec.SQ.step]⟩
  | values => exact ⟨[], by simp [Spec.SQ.step]⟩

theorem Spec.SQ.final_all (eq : α → α → Bool) (t : Spec.SQ α) (ops : List (SoftOp α)) :
    ∃ ext, (specFinal (Spec.SQ.step eq) t ops).all = t.all ++ ext := by
  induction ops generalizing t with
  | nil => exact ⟨[], by simp [specFinal]⟩
  | cons op ops ih =>
    obtain ⟨e1, h1⟩ := Spec.SQ.step_all eq t op
    obtain ⟨e2, h2⟩ := ih (Spec.SQ.step eq t op).1
    exact ⟨e1 ++ e2, by simp [specFinal, h2, h1]⟩

/-- Spec level: the index returned by `Enqueue v` is where `Values()` holds `v` after any further
history. -/
theorem Spec.SQ.stable_positions (eq : α → α → Bool) (t : Spec.SQ α) (ops₁ : List (SoftOp α)) (v : α)
    (ops₂ : List (SoftOp α)) :
    ∃ (i : Nat) (l : List α),
      (Spec.SQ.run eq t (ops₁ ++ SoftOp.enq v :: (ops₂ ++ [SoftOp.values])))[ops₁.length]? = some (Out.int i) ∧
      (Spec.SQ.run eq t (ops₁ ++ SoftOp.enq v :: (ops₂ ++ [SoftOp.values]))).getLast? = some (Out.list l) ∧
      l[i]? = some v := by
  let t₁ := specFinal (Spec.SQ.step eq) t ops₁
  let t₂ := (Spec.SQ.step eq t₁ (SoftOp.enq v)).1
  obtain ⟨ext, hext⟩ := Spec.SQ.final_all eq t₂ ops₂
  refine ⟨t₁.all.length, (specFinal (Spec.SQ.step eq) t₂ ops₂).all, ?_, ?_, ?_⟩
  · simp only [Spec.SQ.run, runSpec_append, runSpec]
    rw [List.getElem?_append_right (by simp [runSpec_length])]
    simp [runSpec_length, Spec.SQ.step, Spec.SQ.enqueue, t₁]
  · simp only [Spec.SQ.run, runSpec_append, runSpec]
    simp only [Spec.SQ.step, Spec.SQ.values, t₂, t₁]
    rw [← List.cons_append, ← List.append_assoc, List.getLast?_concat]
  · rw [hext]
    simp [t₂, Spec.SQ.step, Spec.SQ.enqueue]

theorem SoftQueue.stable_positions (eq : α → α → Bool) (ops₁ : List (SoftOp α)) (v : α)
    (ops₂ : List (SoftOp α)) :
    ∃ (i : Nat) (l : List α),
      (SoftQueue.run eq SoftQueue.new (ops₁ ++ SoftOp.enq v :: (ops₂ ++ [SoftOp.values])))[ops₁.length]?
        = some (.ok (Out.int i)) ∧
      (SoftQueue.run eq SoftQueue.new (ops₁ ++ SoftOp.enq v :: (ops₂ ++ [SoftOp.values]))).getLast?
        = some (.ok (Out.list l)) ∧
      l[i]? = some v := by
  obtain ⟨i, l, h1, h2, h3⟩ := Spec.SQ.stable_positions eq {} ops₁ v ops₂
  refine ⟨i, l, ?_, ?_, h3⟩
  · rw [SoftQueue.run_refines]; simp [h1]
  · rw [SoftQueue.run_refines]; simp [List.getLast?_map, h2]

end AlgoVerif.C18
