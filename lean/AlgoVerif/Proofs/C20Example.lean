import AlgoVerif.Proofs.C20
/-!
Concrete programs for the non-vacuity examples of `Props/C20.lean`: a three-thread program with
data-dependent control flow that satisfies the ownership discipline, and the D25-shaped program in
which two threads update one package-level cell.  Core Lean only.
-/
namespace AlgoVerif.C20.C20Example
open AlgoVerif AlgoVerif.C20

/-- Locations 0,1,2 are the private cells of threads 0,1,2; every other location is package level. -/
def owner (l : Nat) : Option Tid := if l < 3 then some l else none

/-- local state = (program counter, register).  Thread `t`: read the package-level cell 100, store
`value + t + 1` into its own cell, read it back, store the double if it is even else the triple
(data-dependent control flow), done. -/
def prog : Prog Nat Nat (Nat × Nat) where
  step t σ :=
    match σ.1 with
    | 0 => .load 100 (fun v => (1, v))
    | 1 => if t < 3 then .store t (σ.2 + t + 1) (2, 0) else .done
    | 2 => if t < 3 then .load t (fun v => (3, v)) else .done
    | 3 => if t < 3 then (if σ.2 % 2 = 0 then .store t (2 * σ.2) (4, σ.2) else .store t (3 * σ.2) (4, σ.2)) else .done
    | _ => .done

def c0 : Cfg Nat Nat (Nat × Nat) := { loc := fun _ => (0, 0), mem := fun l => if l = 100 then 7 else 0 }

theorem disciplined : Disciplined prog owner where
  load_ok := by
    intro t σ l k h
    unfold prog at h
    simp only at h
    split at h
    · cases h; right; simp [owner]
    · split at h <;> cases h
    · split at h
      · cases h; left; simp [owner, *]
      · cases h
    · split at h
      · split at h <;> cases h
      · cases h
    · cases h
  store_ok := by
    intro t σ l v n h
    unfold prog at h
    simp only at h
    split at h
    · cases h
    · split at h
      · cases h; simp [owner, *]
      · cases h
    · split at h <;> cases h
    · split at h
      · split at h <;> (cases h; simp [owner, *])
      · cases h
    · cases h

/-- D25 in the abstract: both threads do `cell100 := cell100 + 1` on the PACKAGE-LEVEL cell 100
(a shared hasher / random source).  The discipline fails, there is a race, and the result depends on
the schedule (lost update: 9 when the goroutines run one after the other, 8 when interleaved). -/
def bad : Prog Nat Nat (Nat × Nat) where
  step _ σ :=
    match σ.1 with
    | 0 => .load 100 (fun v => (1, v))
    | 1 => .store 100 (σ.2 + 1) (2, 0)
    | _ => .done

end AlgoVerif.C20.C20Example
