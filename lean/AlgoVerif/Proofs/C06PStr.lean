import AlgoVerif.Proofs.C06PSim
/-!
# C06 — Patricia trie: Match, LongestPrefixOf, WithPrefix on the represented tree
-/
namespace AlgoVerif.C06
variable {V : Type}
open BitString (xbit Small xbit_lt xbit_ge lenPos)
open PT

/-! ## patterns -/

theorem kmatches_length {pat k : Key} (h : kmatches pat k = true) : k.length = pat.length := by
  induction pat generalizing k with
  | nil => cases k <;> simp_all [kmatches]
  | cons p ps ih =>
    cases k with
    | nil => simp [kmatches] at h
    | cons c cs =>
      simp only [kmatches, Bool.and_eq_true] at h
      simp [ih h.2]

theorem kmatches_getElem {pat k : Key} (h : kmatches pat k = true) (i : Nat) (x : UInt8) (hx : pat[i]? = some x)
    (hs : x ≠ star) : k[i]? = some x := by
  induction pat generalizing k i with
  | nil => simp at hx
  | cons p ps ih =>
    cases k with
    | nil => simp [kmatches] at h
    | cons c cs =>
      simp only [kmatches, Bool.and_eq_true, Bool.or_eq_true, beq_iff_eq] at h
      cases i with
      | zero =>
        simp only [List.getElem?_cons_zero, Option.some.injEq] at hx ⊢
        subst hx
        rcases h.1 with h1 | h1
        · exact absurd h1 hs
        · exact h1.symm
      | succ i =>
        simp only [List.getElem?_cons_succ] at hx ⊢
        exact ih h.2 i hx

/-- what `bitPattern.Bit` answers at a bit position: `'*'`, or the value every matching key has there -/
theorem patBit_cases (pat : Key) (bp : Nat) (hbp : 1 ≤ bp) :
    BitString.patBit pat bp = .ok star ∨
    (BitString.patBit pat bp = .ok 48 ∧ ∀ k, kmatches pat k = true → xbit k (bp - 1) = false) ∨
    (BitString.patBit pat bp = .ok 49 ∧ ∀ k, kmatches pat k = true → xbit k (bp - 1) = true) := by
  unfold BitString.patBit BitString.len
  by_cases h1 : bp > lenPos
  · simp only [h1, if_true]
    by_cases h2 : bp - lenPos ≤ pat.length
    · right; right
      refine ⟨by simp [h2], ?_⟩
      intro k hk
      rw [xbit_ge k (by omega), kmatches_length hk]
      simp; omega
    · right; left
      refine ⟨by simp [h2], ?_⟩
      intro k hk
      rw [xbit_ge k (by omega), kmatches_length hk]
      simp; omega
  · simp only [h1, if_false]
    by_cases h2 : bp > 8 * pat.length
    · right; left
      refine ⟨by simp [h2], ?_⟩
      intro k hk
      rw [xbit_lt k (by omega)]
      exact kbit_of_len_le k (by rw [kmatches_length hk]; omega)
    · simp only [h2, if_false, show ¬ bp = 0 by omega]
      have hlt : (bp - 1) / 8 < pat.length := by omega
      rw [List.getElem?_eq_getElem hlt]
      simp only
      by_cases h3 : (pat[(bp - 1) / 8] == star) = true
      · left; simp [h3]
      · have hne : pat[(bp - 1) / 8] ≠ star := by simpa using h3
        have hmask := mask_testBit pat[(bp - 1) / 8] (k := (bp - 1) % 8) (Nat.mod_lt _ (by omega))
        have hkbit : ∀ k, kmatches pat k = true → xbit k (bp - 1) = (pat[(bp - 1) / 8]).toNat.testBit (7 - (bp - 1) % 8) := by
          intro k hk
          rw [xbit_lt k (by omega)]
          have := kmatches_getElem hk ((bp - 1) / 8) _ (List.getElem?_eq_getElem hlt) hne
          simp [kbit, this]
        simp only [h3, Bool.false_eq_true, if_false]
        by_cases h4 : (pat[(bp - 1) / 8] &&& ((0x80 : UInt8) >>> ((bp - 1) % 8).toUInt8)) == 0
        · right; left
          refine ⟨by simp [h4], ?_⟩
          intro k hk
          rw [hkbit k hk, ← hmask]
          simpa using h4
        · right; right
          refine ⟨by simp [h4], ?_⟩
          intro k hk
          rw [hkbit k hk, ← hmask]
          simpa using h4

namespace Patricia
open Spec

theorem filter_side_nil {X : PT V} (p : Key × V → Bool) (bit : Bool) (d : Nat)
    (hX : ∀ k ∈ keys X, xbit k d = bit) (hp : ∀ k, (∃ v, p (k, v) = true) → xbit k d = !bit) :
    (ents X).filter p = [] := by
  apply filter_eq_nil_of_all_false
  intro e he
  cases h : p e with
  | false => rfl
  | true =>
    have h1 := hX e.1 (List.mem_map.mpr ⟨e, he, rfl⟩)
    have h2 := hp e.1 ⟨e.2, h⟩
    rw [h1] at h2
    cases bit <;> simp at h2

theorem matchLoop_rep {t : Patricia V} (pat : Key) (T : PT V) :
    ∀ (b : Nat) (p : Option Nat) (f : Nat), Rep t b p T → Crit T → above t b < f →
      matchLoop t pat f b p = .ok ((ents T).filter (fun e => kmatches pat e.1)) := by
  induction T with
  | leaf i k v =>
    intro b p f h _ hf
    obtain ⟨hp, n, hn, hb, hk, hv⟩ := h
    subst hp
    cases f with
    | zero => omega
    | succ f =>
      have : b ≥ n.bp := hb
      simp only [matchLoop, node_some hn, bind_ok, this, if_true, pure_eq_ok, BitString.patMatches, ents, hk, hv]
      cases hm : kmatches pat k <;> simp [hm]
  | inner i bp l r ihl ihr =>
    intro b p f h hc hf
    obtain ⟨hp, n, hn, hbp, hb, hl, hr⟩ := h
    subst hp; subst hbp
    obtain ⟨hbp1, hcl1, hcr1, _, hcl, hcr⟩ := hc
    cases f with
    | zero => omega
    | succ f =>
      have hlt := above_lt hn hb
      have hnge : ¬ b ≥ n.bp := by omega
      simp only [matchLoop, node_some hn, bind_ok, hnge, if_false, ents, List.filter_append]
      have hL := ihl n.bp n.left f hl hcl (by omega)
      have hR := ihr n.bp n.right f hr hcr (by omega)
      rcases patBit_cases pat n.bp hbp1 with hs | ⟨h0, hall⟩ | ⟨h1, hall⟩
      · rw [hs]
        simp only [bind_ok, hL, hR, pure_eq_ok]
        have e1 : (star == (48 : UInt8)) = false := by decide
        have e2 : (star == (49 : UInt8)) = false := by decide
        simp [e1, e2]
      · rw [h0]
        have hrn : (ents r).filter (fun e => kmatches pat e.1) = [] :=
          filter_side_nil _ true (n.bp - 1) hcr1 (fun k ⟨_, hk⟩ => by simpa using hall k hk)
        simp [hL, hrn]
      · rw [h1]
        have hln : (ents l).filter (fun e => kmatches pat e.1) = [] :=
          filter_side_nil _ false (n.bp - 1) hcl1 (fun k ⟨_, hk⟩ => by simpa using hall k hk)
        have e1 : ((49 : UInt8) == 48) = false := by decide
        simp [hR, hln, e1]

theorem match_sim {t : Patricia V} {m : Map V} (h : PInv t m) (pat : Key) : t.match pat = .ok (m.match pat) := by
  unfold Patricia.match
  rcases h with ⟨hr, rfl, _⟩ | ⟨r, rn, T, h⟩
  · simp [hr, Map.match]
  · have hnode : t.node t.root = .ok rn := by rw [h.hroot]; exact node_some h.hrn
    rw [h.hroot]
    simp only [← h.hroot, hnode, bind_ok, h.hbp]
    rw [matchLoop_rep pat T 0 rn.left t.fuel h.rep h.crit (by have := above_le_size t 0; unfold fuel; omega), h.ents]
    rfl

/-! ## LongestPrefixOf -/

/-- the loop of `LongestPrefixOf`, over the Spec's lookups -/
def lpoSpec (m : Map V) (key : Key) : Nat → Option (Key × V)
  | 0 => none
  | i + 1 =>
    match Map.get m (key.take (i + 1)) with
    | some v => some (key.take (i + 1), v)
    | none => lpoSpec m key i

theorem longestLoop_eq {t : Patricia V} {m : Map V} (h : PInv t m) (key : Key) (i : Nat) :
    t.longestLoop key i = .ok (lpoSpec m key i) := by
  induction i with
  | zero => rfl
  | succ i ih =>
    simp only [longestLoop, get_sim h, bind_ok, lpoSpec]
    cases Map.get m (List.take (i + 1) key) with
    | none => exact ih
    | some v => rfl

theorem getLast?_of_sorted_max {l : List (Key × V)} (hs : Sorted l) {e : Key × V} (he : e ∈ l)
    (hmax : ∀ x ∈ l, x = e ∨ klt x.1 e.1 = true) : l.getLast? = some e := by
  induction l with
  | nil => simp at he
  | cons x r ih =>
    cases r with
    | nil => simp at he; simp [he]
    | cons y r' =>
      rw [List.getLast?_cons_cons]
      apply ih hs.tail
      · rcases List.mem_cons.mp he with rfl | he
        · exfalso
          have h1 := hs.head_lt y (List.mem_cons_self ..)
          rcases hmax y (List.mem_cons_of_mem _ (List.mem_cons_self ..)) with h2 | h2
          · subst h2; simp [klt_irrefl] at h1
          · simp [klt_asymm h1] at h2
        · exact he
      · exact fun z hz => hmax z (List.mem_cons_of_mem _ hz)

theorem lpoSpec_eq {m : Map V} (hs : Sorted m) (hne : ∀ e ∈ m, e.1 ≠ []) (s : Key) (i : Nat) (hi : i ≤ s.length) :
    lpoSpec m s i = (m.filter (fun e => e.1.isPrefixOf (s.take i))).getLast? := by
  induction i with
  | zero =>
    simp only [lpoSpec, List.take_zero]
    symm
    rw [filter_eq_nil_of_all_false]
    · rfl
    · intro e he
      have := hne e he
      cases h : e.1 with
      | nil => exact absurd h this
      | cons => simp [List.isPrefixOf]
  | succ i ih =>
    have hlt : i < s.length := by omega
    have htake : s.take (i + 1) = s.take i ++ [s[i]] := (List.take_append_getElem hlt).symm
    have hpre : ∀ a : Key, a.isPrefixOf (s.take (i + 1)) = (a == s.take (i + 1) || a.isPrefixOf (s.take i)) := by
      intro a
      rw [Bool.eq_iff_iff]
      simp only [List.isPrefixOf_iff_prefix, Bool.or_eq_true, beq_iff_eq]
      rw [htake, List.prefix_concat_iff]
    simp only [lpoSpec]
    cases hg : Map.get m (s.take (i + 1)) with
    | some v =>
      simp only
      have hmem : (s.take (i + 1), v) ∈ m := (Map.get_eq_some hs _ _).mp hg
      symm
      apply getLast?_of_sorted_max (hs.filter _)
      · rw [List.mem_filter]; exact ⟨hmem, by simp [List.isPrefixOf_iff_prefix]⟩
      · intro x hx
        rw [List.mem_filter] at hx
        obtain ⟨hxm, hxp⟩ := hx
        by_cases hk : x.1 = s.take (i + 1)
        · left
          have : x = (x.1, x.2) := rfl
          rw [this, hk]
          congr 1
          exact hs.unique (hk ▸ hxm) hmem
        · right
          rw [List.isPrefixOf_iff_prefix] at hxp
          obtain ⟨z, hz⟩ := hxp
          have hzne : z ≠ [] := by
            rintro rfl
            simp at hz
            exact hk hz
          show klt x.1 (s.take (i + 1)) = true
          rw [← hz]
          exact klt_append_right _ hzne
    | none =>
      simp only
      rw [ih (by omega)]
      congr 1
      apply List.filter_congr
      intro e he
      rw [hpre]
      have : (e.1 == s.take (i + 1)) = false := by
        rw [beq_eq_false_iff_ne]
        intro heq
        have : Map.get m (s.take (i + 1)) = some e.2 := (Map.get_eq_some hs _ _).mpr (heq ▸ he)
        rw [hg] at this; cases this
      simp [this]

theorem longestPrefixOf_sim {t : Patricia V} {m : Map V} (h : PInv t m) (hs : Sorted m) (hne : ∀ e ∈ m, e.1 ≠ [])
    (s : Key) : t.longestPrefixOf s = .ok (m.longestPrefixOf s) := by
  unfold Patricia.longestPrefixOf Map.longestPrefixOf
  rw [longestLoop_eq h, lpoSpec_eq hs hne s s.length (Nat.le_refl _), List.take_length]

/-! ## WithPrefix -/

theorem hasPrefix_eq_isPrefixOf (k key : Key) (h : key.length ≤ k.length) :
    BitString.hasPrefix k key = key.isPrefixOf k := by
  induction key generalizing k with
  | nil => simp [BitString.hasPrefix]
  | cons y ys ih =>
    cases k with
    | nil => simp at h
    | cons x xs =>
      simp only [BitString.hasPrefix, List.isPrefixOf, ih xs (by simpa using h)]
      congr 1
      rw [Bool.eq_iff_iff, beq_iff_eq, beq_iff_eq]; exact eq_comm

/-- the test `WithPrefix` applies to every candidate -/
theorem prefix_test (k key : Key) :
    (decide (BitString.len k ≥ BitString.len key) && BitString.hasPrefix k key) = key.isPrefixOf k := by
  by_cases h : key.length ≤ k.length
  · have : BitString.len k ≥ BitString.len key := by unfold BitString.len; omega
    simp [this, hasPrefix_eq_isPrefixOf k key h]
  · have h1 : ¬ BitString.len k ≥ BitString.len key := by unfold BitString.len; omega
    have h2 : key.isPrefixOf k = false := by
      cases hp : key.isPrefixOf k with
      | false => rfl
      | true =>
        have := (List.isPrefixOf_iff_prefix.mp hp).length_le
        omega
    simp [h1, h2]

theorem kbit_of_isPrefixOf {k key : Key} (h : key.isPrefixOf k = true) : ∀ j, j < 8 * key.length → kbit k j = kbit key j := by
  have hl := (List.isPrefixOf_iff_prefix.mp h).length_le
  have := (BitString.hasPrefix_iff k key).mp (by rw [hasPrefix_eq_isPrefixOf k key hl]; exact h)
  simpa [BitString.len] using this

theorem foldE_filter (p : Key → Bool) (m : List (Key × V)) (kvs : List (Key × V)) :
    (foldE (fun (kvs : List (Key × V)) k v => if p k then (kvs ++ [(k, v)], true) else (kvs, true)) m kvs).1
      = kvs ++ m.filter (fun e => p e.1) := by
  induction m generalizing kvs with
  | nil => simp [foldE]
  | cons e m ih =>
    simp only [foldE]
    by_cases h : p e.1 = true
    · simp [h, ih]
    · have h' : p e.1 = false := by simpa using h
      simp [h', ih]

theorem Rep.leaf_key_mem {t : Patricia V} {T : PT V} {b : Nat} {p : Option Nat} (h : Rep t b p T) {i : Nat}
    (hi : i ∈ leafIdx T) {n : PNode V} (hn : t.nodes[i]? = some n) : n.key ∈ keys T := by
  induction T generalizing b p with
  | leaf j k v =>
    obtain ⟨_, n', hn', _, hk, _⟩ := h
    simp only [leafIdx, List.mem_singleton] at hi
    subst hi
    rw [hn] at hn'; cases hn'
    simp [hk]
  | inner j bp l r ihl ihr =>
    obtain ⟨_, n', _, _, _, hl, hr⟩ := h
    simp only [leafIdx, List.mem_append] at hi
    rw [keys_inner, List.mem_append]
    rcases hi with hi | hi
    · exact .inl (ihl hl hi)
    · exact .inr (ihr hr hi)

/-- what `WithPrefix` does once the descent has stopped at `(prev, curr)` -/
def prefixTail (t : Patricia V) (key : Key) (p c : PNode V) (curr : Option Nat) : Outcome (List (Key × V)) :=
  let visit := fun (kvs : List (Key × V)) (n : PNode V) =>
    if n.key.len ≥ BitString.len key && n.key.hasPrefix key then (kvs ++ [(n.key, n.val)], true) else (kvs, true)
  if c.bp ≤ p.bp then pure (visit [] c).1
  else if c.key.hasPrefix key then do
    let r ← t.travAsc visit t.fuel curr []
    pure r.1
  else pure []

theorem prefixLoop_rep {t : Patricia V} (key : Key) (hsk : Small key) (T : PT V) :
    ∀ (b : Nat) (p : Option Nat) (pi : Nat) (pn : PNode V) (f : Nat),
      Rep t b p T → t.nodes[pi]? = some pn → pn.bp = b → Crit T → SelfBelow T →
      (∀ i ∈ inners T, some i ≠ t.root) → above t b < f →
      ∃ prev curr pn' cn', prefixLoop t key f (some pi) p = .ok (prev, curr) ∧
        t.node prev = .ok pn' ∧ t.node curr = .ok cn' ∧
        prefixTail t key pn' cn' curr = .ok ((ents T).filter (fun e => key.isPrefixOf e.1)) := by
  unfold Small at hsk
  induction T with
  | leaf i k v =>
    intro b p pi pn f h hpn hpb _ _ _ hf
    obtain ⟨hp, n, hn, hb, hk, hv⟩ := h
    subst hp
    cases f with
    | zero => omega
    | succ f =>
      refine ⟨some pi, some i, pn, n, ?_, node_some hpn, node_some hn, ?_⟩
      · have : ¬ n.bp > pn.bp := by omega
        simp [prefixLoop, node_some hpn, node_some hn, this]
      · have hle : n.bp ≤ pn.bp := by omega
        simp only [prefixTail, hle, if_true, pure_eq_ok, ents, prefix_test, hk, hv]
        cases hq : key.isPrefixOf k <;> simp [hq]
  | inner i bp l r ihl ihr =>
    intro b p pi pn f h hpn hpb hc hsb hroot hf
    have hT := h
    obtain ⟨hp, n, hn, hbp, hb, hl, hr⟩ := h
    subst hp; subst hbp
    have hagree := Crit.agree hc
    obtain ⟨hbp1, hcl1, hcr1, _, hcl, hcr⟩ := hc
    obtain ⟨hself, hsl, hsr⟩ := hsb
    cases f with
    | zero => omega
    | succ f =>
      have hlt := above_lt hn hb
      have hgt : n.bp > pn.bp := by omega
      by_cases hcont : n.bp ≤ BitString.len key
      · -- the descent goes on: keys with the prefix share the prefix's bit at this position
        have hlen : n.bp ≤ 8 * key.length := hcont
        have hbitk : ∀ k, key.isPrefixOf k = true → xbit k (n.bp - 1) = xbit key (n.bp - 1) := by
          intro k hk
          rw [xbit_lt k (by omega), xbit_lt key (by omega)]
          exact kbit_of_isPrefixOf hk _ (by omega)
        have hrl : ∀ j ∈ inners l, some j ≠ t.root := fun j hj => hroot j (by simp [inners, hj])
        have hrr : ∀ j ∈ inners r, some j ≠ t.root := fun j hj => hroot j (by simp [inners, hj])
        simp only [prefixLoop, node_some hpn, node_some hn, bind_ok, hgt, hcont, decide_true, Bool.and_self, if_true]
        rw [BitString.bit_ok_of_pos _ (by omega)]
        simp only [bind_ok, ents, List.filter_append]
        cases hbit : xbit key (n.bp - 1)
        · simp only [Bool.false_eq_true, if_false]
          obtain ⟨prev, curr, pn', cn', h1, h2, h3, h4⟩ := ihl n.bp n.left i n f hl hn rfl hcl hsl hrl (by omega)
          have hrn : (ents r).filter (fun e => key.isPrefixOf e.1) = [] :=
            filter_side_nil _ true (n.bp - 1) hcr1 (fun k ⟨_, hk⟩ => by rw [hbitk k hk, hbit]; rfl)
          exact ⟨prev, curr, pn', cn', h1, h2, h3, by rw [h4, hrn, List.append_nil]⟩
        · simp only [if_true]
          obtain ⟨prev, curr, pn', cn', h1, h2, h3, h4⟩ := ihr n.bp n.right i n f hr hn rfl hcr hsr hrr (by omega)
          have hln : (ents l).filter (fun e => key.isPrefixOf e.1) = [] :=
            filter_side_nil _ false (n.bp - 1) hcl1 (fun k ⟨_, hk⟩ => by rw [hbitk k hk, hbit]; rfl)
          exact ⟨prev, curr, pn', cn', h1, h2, h3, by rw [h4, hln, List.nil_append]⟩
      · -- the descent stops above node i
        refine ⟨some pi, some i, pn, n, ?_, node_some hpn, node_some hn, ?_⟩
        · simp [prefixLoop, node_some hpn, node_some hn, hcont]
        · have hnle : ¬ n.bp ≤ pn.bp := by omega
          have hlen : 8 * key.length < n.bp := by simpa [BitString.len] using hcont
          -- the node's own key is one of the keys below it
          have hkey : n.key ∈ keys (.inner i n.bp l r) := by
            apply Rep.leaf_key_mem hT _ hn
            simpa [leafIdx] using hself
          -- all keys below agree with it on the bits of the prefix
          have huni : ∀ k ∈ keys (.inner i n.bp l r), BitString.hasPrefix k key = BitString.hasPrefix n.key key := by
            intro k hk
            rw [Bool.eq_iff_iff, BitString.hasPrefix_iff, BitString.hasPrefix_iff]
            have hag : ∀ j, j < BitString.len key → kbit k j = kbit n.key j := by
              intro j hj
              have hj' : j < 8 * key.length := hj
              have := hagree k hk n.key hkey j (by omega)
              rwa [xbit_lt k (by omega), xbit_lt n.key (by omega)] at this
            constructor
            · intro h j hj; rw [← hag j hj]; exact h j hj
            · intro h j hj; rw [hag j hj]; exact h j hj
          simp only [prefixTail, hnle, if_false]
          by_cases hpre : BitString.hasPrefix n.key key = true
          · simp only [hpre, if_true]
            obtain ⟨n', hn', hL⟩ := travAsc_link (t := t)
              (fun (kvs : List (Key × V)) (n : PNode V) =>
                if n.key.len ≥ BitString.len key && n.key.hasPrefix key then (kvs ++ [(n.key, n.val)], true) else (kvs, true))
              (fun (kvs : List (Key × V)) k v =>
                if (decide (BitString.len k ≥ BitString.len key) && BitString.hasPrefix k key) then (kvs ++ [(k, v)], true) else (kvs, true))
              (fun _ _ => rfl) (.inner i n.bp l r) pn.bp (some i) t.fuel [] (hpb ▸ hT) hroot
              (by have := above_le_size t pn.bp; unfold fuel; omega)
            rw [node_some hn] at hn'
            cases hn'
            simp only [hnle, if_false] at hL
            rw [hL]
            simp only [bind_ok, pure_eq_ok, foldE_filter, List.nil_append]
            congr 1
            apply List.filter_congr
            intro e _
            exact prefix_test e.1 key
          · have hpre' : BitString.hasPrefix n.key key = false := by simpa using hpre
            simp only [hpre', Bool.false_eq_true, if_false, pure_eq_ok]
            congr 1
            symm
            apply filter_eq_nil_of_all_false
            intro e he
            have hk : e.1 ∈ keys (.inner i n.bp l r) := List.mem_map.mpr ⟨e, he, rfl⟩
            rw [← prefix_test e.1 key, huni e.1 hk, hpre']
            simp

theorem withPrefix_sim {t : Patricia V} {m : Map V} (h : PInv t m) (key : Key) (hsk : Small key) :
    t.withPrefix key = .ok (m.withPrefix key) := by
  rcases h with ⟨hr, rfl, _⟩ | ⟨r, rn, T, h⟩
  · simp [Patricia.withPrefix, hr, Map.withPrefix]
  · have hnode : t.node t.root = .ok rn := by rw [h.hroot]; exact node_some h.hrn
    obtain ⟨prev, curr, pn', cn', h1, h2, h3, h4⟩ := prefixLoop_rep key hsk T 0 rn.left r rn t.fuel h.rep h.hrn h.hbp
      h.crit h.selfBelow h.innerNotRoot (by have := above_le_size t 0; unfold fuel; omega)
    have hrep : t.withPrefix key = (do
        let rt ← t.node t.root
        let (prev, curr) ← prefixLoop t key t.fuel t.root rt.left
        let p ← t.node prev
        let c ← t.node curr
        prefixTail t key p c curr) := by
      unfold Patricia.withPrefix prefixTail
      rw [h.hroot]
    rw [hrep, hnode]
    simp only [bind_ok]
    rw [h.hroot, h1]
    simp only [bind_ok, h2, h3, h4, h.ents]
    rfl

/-! ## one step and whole histories (everything except deletion) -/

theorem PInv.sortedMap {t : Patricia V} {m : Map V} (h : PInv t m) : Sorted m := by
  rcases h with ⟨_, rfl, _⟩ | ⟨r, rn, T, h⟩
  · exact Sorted.nil
  · exact h.sorted

theorem Spec.Map.mem_put_subset (m : Map V) (k : Key) (v : V) (e : Key × V) (h : e ∈ Map.put m k v) : e = (k, v) ∨ e ∈ m := by
  induction m with
  | nil => simpa [Map.put] using h
  | cons x m ih =>
    obtain ⟨k', v'⟩ := x
    simp only [Map.put] at h
    split at h
    · rcases List.mem_cons.mp h with h | h
      · exact .inl h
      · exact .inr h
    · split at h
      · rcases List.mem_cons.mp h with h | h
        · exact .inl h
        · exact .inr (List.mem_cons_of_mem _ h)
      · rcases List.mem_cons.mp h with h | h
        · exact .inr (h ▸ List.mem_cons_self ..)
        · rcases ih h with h | h
          · exact .inl h
          · exact .inr (List.mem_cons_of_mem _ h)

/-- one step of a history in scope; `hne`: no empty key is held -/
theorem step_sim {t : Patricia V} {m : Map V} (h : PInv t m) (hne : ∀ e ∈ m, e.1 ≠ []) (op : Op V)
    (hs : (∀ k, op ≠ .delete k) ∧ op ≠ .deleteMin ∧ op ≠ .deleteMax) (hk : op.smallKeys = true) :
    ∃ t', t.step op = .ok (t', (Map.step m op).2) ∧ PInv t' (Map.step m op).1 ∧ ∀ e ∈ (Map.step m op).1, e.1 ≠ [] := by
  cases op with
  | put k v =>
    simp only [Op.smallKeys, Bool.and_eq_true, Bool.not_eq_eq_eq_not, Bool.not_true, List.isEmpty_eq_false_iff,
      decide_eq_true_eq] at hk
    obtain ⟨t', h1, h2⟩ := put_sim h k hk.2 v
    refine ⟨t', by simp [Patricia.step, h1, Outcome.map, Map.step], h2, ?_⟩
    intro e he
    rcases Spec.Map.mem_put_subset m k v e he with rfl | he
    · exact hk.1
    · exact hne e he
  | get k => exact ⟨t, by simp [Patricia.step, get_sim h, Outcome.map, Map.step], h, hne⟩
  | delete k => exact absurd rfl (hs.1 k)
  | deleteMin => exact absurd rfl hs.2.1
  | deleteMax => exact absurd rfl hs.2.2
  | deleteAll => exact ⟨_, rfl, PInv.new, by simp [Map.step]⟩
  | size => exact ⟨t, by simp [Patricia.step, Map.step, size_sim h], h, hne⟩
  | min => exact ⟨t, by simp [Patricia.step, min_sim h, Outcome.map, Map.step], h, hne⟩
  | max => exact ⟨t, by simp [Patricia.step, max_sim h, Outcome.map, Map.step], h, hne⟩
  | floor k => exact ⟨t, by simp [Patricia.step, floor_sim h, Outcome.map, Map.step], h, hne⟩
  | ceiling k => exact ⟨t, by simp [Patricia.step, ceiling_sim h, Outcome.map, Map.step], h, hne⟩
  | select i => exact ⟨t, by simp [Patricia.step, select_sim h, Outcome.map, Map.step], h, hne⟩
  | rank k => exact ⟨t, by simp [Patricia.step, rank_sim h, Outcome.map, Map.step], h, hne⟩
  | range lo hi => exact ⟨t, by simp [Patricia.step, range_sim h, Outcome.map, Map.step], h, hne⟩
  | rangeSize lo hi => exact ⟨t, by simp [Patricia.step, rangeSize_sim h, Outcome.map, Map.step], h, hne⟩
  | all => exact ⟨t, by simp [Patricia.step, all_sim h, Outcome.map, Map.step], h, hne⟩
  | withPrefix p =>
    simp only [Op.smallKeys, decide_eq_true_eq] at hk
    exact ⟨t, by simp [Patricia.step, withPrefix_sim h p hk, Outcome.map, Map.step], h, hne⟩
  | longestPrefixOf s =>
    exact ⟨t, by simp [Patricia.step, longestPrefixOf_sim h h.sortedMap hne s, Outcome.map, Map.step], h, hne⟩
  | «match» pat => exact ⟨t, by simp [Patricia.step, match_sim h, Outcome.map, Map.step], h, hne⟩

end Patricia
end AlgoVerif.C06
