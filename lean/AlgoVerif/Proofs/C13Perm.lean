import AlgoVerif.Proofs.C13Iso
import AlgoVerif.Proofs.C13Minimal
/-! C13: list lemmas for `Isomorphic`: `generatePermutations` reaches every arrangement, the bijection built
from two state lists, the sorted degree sequence only depends on the multiset of degrees. -/
namespace AlgoVerif.C13
open AlgoVerif

/-! ### swapping two positions -/

theorem set_perm_cons {α : Type} (t : List α) (j : Nat) (y h : α) (hy : t[j]? = some y) :
    (y :: t.set j h).Perm (h :: t) := by
  induction t generalizing j with
  | nil => simp at hy
  | cons z t ih =>
    cases j with
    | zero => simp at hy; subst hy; simp only [List.set_cons_zero]; exact List.Perm.swap _ _ _
    | succ j =>
      simp at hy
      simp only [List.set_cons_succ]
      have := ih j hy
      exact (List.Perm.swap z y _).trans ((this.cons z).trans (List.Perm.swap h z _))

theorem set_set_perm {α : Type} (l : List α) (i j : Nat) (x y : α) (hx : l[i]? = some x) (hy : l[j]? = some y) :
    ((l.set i y).set j x).Perm l := by
  induction l generalizing i j with
  | nil => simp at hx
  | cons h t ih =>
    cases i with
    | zero =>
      simp at hx; subst hx
      cases j with
      | zero => simp at hy; subst hy; simp
      | succ j =>
        simp at hy
        simp only [List.set_cons_zero, List.set_cons_succ]
        exact set_perm_cons t j y _ hy
    | succ i =>
      simp at hx
      cases j with
      | zero =>
        simp at hy; subst hy
        simp only [List.set_cons_succ, List.set_cons_zero]
        exact (set_perm_cons t i x _ hx)
      | succ j =>
        simp at hy
        simp only [List.set_cons_succ]
        exact (ih i j hx hy).cons h

theorem swapAt_perm (l : List Int) (i j : Nat) : (swapAt l i j).Perm l := by
  simp only [swapAt]
  cases hi : l[i]? with
  | none => exact List.Perm.refl _
  | some x =>
    cases hj : l[j]? with
    | none => exact List.Perm.refl _
    | some y => exact set_set_perm l i j x y hi hj

theorem swapAt_take (l : List Int) (i j n : Nat) (hi : n ≤ i) (hj : n ≤ j) : (swapAt l i j).take n = l.take n := by
  simp only [swapAt]
  cases l[i]? with
  | none => rfl
  | some x =>
    cases l[j]? with
    | none => rfl
    | some y =>
      simp only [List.take_set]
      rw [List.set_eq_of_length_le (by simp; omega), List.set_eq_of_length_le (by simp; omega)]

theorem swapAt_getElem (l : List Int) (i j : Nat) (x y : Int) (hx : l[i]? = some x) (hy : l[j]? = some y) :
    (swapAt l i j)[i]? = some y := by
  simp only [swapAt, hx, hy]
  have hi : i < l.length := (List.getElem?_eq_some_iff.1 hx).1
  by_cases hij : i = j
  · subst hij; rw [hx] at hy; injection hy with hy; subst hy; simp [hi]
  · rw [List.getElem?_set]
    simp [Ne.symm hij, hi]

/-! ### `generatePermutations` reaches every arrangement -/

theorem genPerms_complete (yield : List Int → Bool) (k : Nat) (l : List Int) (start : Nat) (π : List Int)
    (hlen : l.length = start + k + 1) (hnd : l.Nodup) (hperm : π.Perm l) (htake : π.take start = l.take start)
    (hy : yield π = false) : genPerms yield k l start = false := by
  induction k generalizing l start with
  | zero =>
    have hπlen : π.length = start + 1 := by rw [hperm.length_eq]; omega
    have e1 := List.take_append_drop start π
    have e2 := List.take_append_drop start l
    have hp : (l.take start ++ π.drop start).Perm (l.take start ++ l.drop start) := by
      rw [e2, ← htake, e1]; exact hperm
    rw [List.perm_append_left_iff] at hp
    have hd1 : (π.drop start).length = 1 := by simp; omega
    have hd2 : (l.drop start).length = 1 := by simp; omega
    match hπ : π.drop start, hl : l.drop start, hd1, hd2 with
    | [x], [y], _, _ =>
      rw [hπ, hl] at hp
      have := List.singleton_perm_singleton.1 hp
      have : π = l := by rw [← e1, ← e2, htake, hπ, hl, this]
      simp only [genPerms]; rw [← this]; exact hy
  | succ k ih =>
    have hπlen : π.length = start + (k + 1) + 1 := by rw [hperm.length_eq]; omega
    have hπnd : π.Nodup := hperm.symm.nodup hnd
    -- the element of `π` at position `start`
    obtain ⟨x, hx⟩ : ∃ x, π[start]? = some x := ⟨π[start]'(by omega), by simp⟩
    have hxl : x ∈ l := hperm.subset (List.mem_of_getElem? hx)
    have hxnot : x ∉ l.take start := by
      rw [← htake]
      intro hmem
      rw [List.mem_take_iff_getElem] at hmem
      obtain ⟨j, hj, hjx⟩ := hmem
      have hjs : j < start := by omega
      have h1 : π[j]? = some x := by rw [← hjx]; simp
      -- two positions of a duplicate-free list hold `x`
      have := List.nodup_iff_pairwise_ne.1 hπnd
      have hj' : j < π.length := by omega
      have hs' : start < π.length := by omega
      have e1 : π[j] = x := by have := List.getElem?_eq_some_iff.1 h1; exact this.2
      have e2 : π[start] = x := by have := List.getElem?_eq_some_iff.1 hx; exact this.2
      exact absurd (e1.trans e2.symm) (List.pairwise_iff_getElem.1 this j start hj' hs' hjs)
    obtain ⟨j, hj⟩ := List.mem_iff_getElem?.1 hxl
    have hjlen : j < l.length := (List.getElem?_eq_some_iff.1 hj).1
    have hjs : start ≤ j := by
      rcases Nat.lt_or_ge j start with h | h
      · exfalso; apply hxnot
        rw [List.mem_take_iff_getElem]
        exact ⟨j, by omega, (List.getElem?_eq_some_iff.1 hj).2⟩
      · exact h
    obtain ⟨y, hyl⟩ : ∃ y, l[start]? = some y := ⟨l[start]'(by omega), by simp⟩
    simp only [genPerms]
    rw [List.all_eq_false]
    refine ⟨j - start, by simp; omega, ?_⟩
    rw [show start + (j - start) = j by omega]
    have := ih (swapAt l start j) (start + 1) (by rw [(swapAt_perm l start j).length_eq]; omega)
      ((swapAt_perm l start j).symm.nodup hnd) (hperm.trans (swapAt_perm l start j).symm) (by
        rw [List.take_add_one, List.take_add_one, swapAt_take l start j start (Nat.le_refl _) hjs, htake,
          swapAt_getElem l start j y x hyl hj, hx])
    simp [this]

/-! ### the bijection `states1[i] ↦ perm[i]` -/

theorem bij_map (states1 : List Int) (f : Int → Int) (s : Int) (hs : s ∈ states1) :
    bij states1 (states1.map f) s = f s := by
  simp only [bij]
  cases hi : states1.idxOf? s with
  | none =>
    exfalso
    rw [List.idxOf?_eq_none_iff] at hi
    exact hi hs
  | some i =>
    rw [List.idxOf?_eq_some_iff] at hi
    obtain ⟨h, he, _⟩ := hi
    simp only
    rw [List.getD_eq_getElem?_getD, List.getElem?_map]
    simp [h, he]

/-! ### the sorted degree sequence -/

theorem insSorted_perm (x : Int) (l : List Int) : (insSorted x l).Perm (x :: l) := by
  induction l with
  | nil => simp [insSorted]
  | cons y l ih =>
    simp only [insSorted]
    split
    · exact List.Perm.refl _
    · exact (ih.cons y).trans (List.Perm.swap x y l)

theorem insSorted_sorted (x : Int) (l : List Int) (h : l.Pairwise (· ≤ ·)) : (insSorted x l).Pairwise (· ≤ ·) := by
  induction l with
  | nil => simp [insSorted]
  | cons y l ih =>
    simp only [insSorted]
    simp only [List.pairwise_cons] at h
    split
    · rename_i hxy
      simp only [List.pairwise_cons]
      refine ⟨?_, h⟩
      intro a ha; simp at ha; rcases ha with rfl | ha
      · exact hxy
      · have := h.1 a ha; omega
    · rename_i hxy
      simp only [List.pairwise_cons]
      refine ⟨?_, ih h.2⟩
      intro a ha
      have := (insSorted_perm x l).subset ha
      simp at this; rcases this with rfl | h'
      · omega
      · exact h.1 a h'

theorem sortInts_facts (l : List Int) : (sortInts l).Perm l ∧ (sortInts l).Pairwise (· ≤ ·) := by
  simp only [sortInts]
  suffices h : ∀ acc : List Int, acc.Pairwise (· ≤ ·) →
      (l.foldl (fun acc x => insSorted x acc) acc).Perm (l ++ acc) ∧
      (l.foldl (fun acc x => insSorted x acc) acc).Pairwise (· ≤ ·) by
    simpa using h [] (by simp)
  induction l with
  | nil => intro acc h; exact ⟨by simp, h⟩
  | cons x l ih =>
    intro acc h
    simp only [List.foldl_cons]
    obtain ⟨h1, h2⟩ := ih (insSorted x acc) (insSorted_sorted x acc h)
    refine ⟨h1.trans ?_, h2⟩
    have := insSorted_perm x acc
    exact ((List.Perm.refl l).append this).trans (by simpa using List.perm_middle)

theorem sorted_perm_eq (l1 l2 : List Int) (h1 : l1.Pairwise (· ≤ ·)) (h2 : l2.Pairwise (· ≤ ·)) (hp : l1.Perm l2) :
    l1 = l2 := by
  induction l1 generalizing l2 with
  | nil => have := hp.length_eq; cases l2 with
    | nil => rfl
    | cons _ _ => simp at this
  | cons a t1 ih =>
    cases l2 with
    | nil => have := hp.length_eq; simp at this
    | cons b t2 =>
      simp only [List.pairwise_cons] at h1 h2
      have hab : a = b := by
        have ha : a ∈ b :: t2 := hp.subset (by simp)
        have hb : b ∈ a :: t1 := hp.symm.subset (by simp)
        simp at ha hb
        rcases ha with ha | ha
        · exact ha
        · rcases hb with hb | hb
          · exact hb.symm
          · have := h1.1 b hb; have := h2.1 a ha; omega
      subst hab
      rw [ih t2 h1.2 h2.2 ((List.perm_cons a).1 hp)]

theorem sortInts_perm (l l' : List Int) (h : l.Perm l') : sortInts l = sortInts l' := by
  obtain ⟨a1, a2⟩ := sortInts_facts l
  obtain ⟨b1, b2⟩ := sortInts_facts l'
  exact sorted_perm_eq _ _ a2 b2 (a1.trans (h.trans b1.symm))

theorem degreesAgree_refl (l : List Int) : degreesAgree l l = some true := by
  induction l with
  | nil => simp [degreesAgree]
  | cons x l ih => simp [degreesAgree, ih]

/-! ### duplicate-free images -/

theorem nodup_map_of_injOn {α β : Type} (f : α → β) (l : List α) (hnd : l.Nodup)
    (hinj : ∀ a ∈ l, ∀ b ∈ l, f a = f b → a = b) : (l.map f).Nodup := by
  apply List.nodup_iff_pairwise_ne.2
  rw [List.pairwise_map]
  exact (List.nodup_iff_pairwise_ne.1 hnd).imp_of_mem (fun ha hb hne he => hne (hinj _ ha _ hb he))

theorem sins_perm (x : Int) (l : List Int) (h : x ∉ l) : (sins x l).Perm (x :: l) := by
  induction l with
  | nil => simp [sins]
  | cons y l ih =>
    simp at h
    simp only [sins]
    split
    · exact List.Perm.refl _
    · split
      · exact absurd ‹x = y› h.1
      · exact ((ih h.2).cons y).trans (List.Perm.swap x y l)

theorem saddAll_perm (acc xs : List Int) (hnd : xs.Nodup) (hdis : ∀ x ∈ xs, x ∉ acc) :
    (saddAll acc xs).Perm (xs ++ acc) := by
  induction xs generalizing acc with
  | nil => simp [saddAll]
  | cons x xs ih =>
    rw [List.nodup_cons] at hnd
    simp only [saddAll, List.foldl_cons]
    have := ih (sins x acc) hnd.2 (by
      intro z hz; simp; exact ⟨fun h => hnd.1 (h ▸ hz), hdis z (by simp [hz])⟩)
    simp only [saddAll] at this
    refine this.trans ?_
    have h2 := sins_perm x acc (hdis x (by simp))
    exact ((List.Perm.refl xs).append h2).trans (by simpa using List.perm_middle)

theorem mkSet_perm (xs : List Int) (hnd : xs.Nodup) : (mkSet xs).Perm xs := by
  simpa [mkSet] using saddAll_perm [] xs hnd (by simp)

theorem flatMap_perm_pointwise {α β : Type} (l : List α) (g h : α → List β) (hp : ∀ x ∈ l, (g x).Perm (h x)) :
    (l.flatMap g).Perm (l.flatMap h) := by
  induction l with
  | nil => simp
  | cons x l ih =>
    simp only [List.flatMap_cons]
    exact (hp x (by simp)).append (ih (fun y hy => hp y (by simp [hy])))

theorem aEqual_refl {β : Type} (eqv : β → β → Bool) (t : List (Int × β)) (hs : ASorted t)
    (hr : ∀ kv ∈ t, eqv kv.2 kv.2 = true) : aEqual eqv t t = true := by
  simp only [aEqual, Bool.and_self, List.all_eq_true]
  intro kv hkv
  obtain ⟨k, v⟩ := kv
  rw [(mem_iff_aget hs k v).1 hkv]
  exact hr _ hkv

end AlgoVerif.C13
