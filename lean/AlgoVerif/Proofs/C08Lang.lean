import AlgoVerif.Model.GrammarCore
/-!
# General facts about derivations (used by the C08 theorems), for arbitrary `T`, `N`

* monotonicity in the production set;
* head-first case analysis and induction;
* the splitting lemma (`α ++ β ⇒* γ` splits into `α ⇒* γ₁`, `β ⇒* γ₂`);
* the simulation lemma: if every production of `g'` is, after renaming non-terminals by `φ`, a derivation of
  `g`, then `φ` maps derivations of `g'` to derivations of `g` (soundness direction of every transformation).

Core Lean only.
-/
namespace AlgoVerif.Gram
variable {T N : Type}

theorem Step.mono {g g' : Grammar T N} (h : ∀ p ∈ g.prods, p ∈ g'.prods) {α β} (s : Step g α β) : Step g' α β := by
  cases s with
  | mk u v p hp => exact Step.mk u v p (h p hp)

theorem Derives.mono {g g' : Grammar T N} (h : ∀ p ∈ g.prods, p ∈ g'.prods) {α β} (d : Derives g α β) :
    Derives g' α β := by
  induction d with
  | refl => exact Derives.refl _
  | tail _ s ih => exact Derives.tail ih (s.mono h)

/-- a production is a one-step derivation of its body from its head -/
theorem Derives.of_prod {g : Grammar T N} {p : Prod T N} (hp : p ∈ g.prods) :
    Derives g [Sym.nonterm p.head] p.body := by
  have := Step.mk (g := g) [] [] p hp
  simpa using Derives.single this

theorem Derives.head {g : Grammar T N} {α β γ} (s : Step g α β) (d : Derives g β γ) : Derives g α γ :=
  (Derives.single s).trans d

/-- head-first case analysis -/
theorem Derives.cases_head {g : Grammar T N} {α γ} (d : Derives g α γ) :
    α = γ ∨ ∃ β, Step g α β ∧ Derives g β γ := by
  induction d with
  | refl => exact Or.inl rfl
  | tail d s ih =>
    rcases ih with rfl | ⟨β, s₁, d₁⟩
    · exact Or.inr ⟨_, s, Derives.refl _⟩
    · exact Or.inr ⟨β, s₁, Derives.tail d₁ s⟩

/-- number of steps, to do induction head-first -/
inductive DerivesIn (g : Grammar T N) : Nat → List (Sym T N) → List (Sym T N) → Prop where
  | refl (α) : DerivesIn g 0 α α
  | head {n α β γ} : Step g α β → DerivesIn g n β γ → DerivesIn g (n + 1) α γ

theorem DerivesIn.toDerives {g : Grammar T N} {n α β} (d : DerivesIn g n α β) : Derives g α β := by
  induction d with
  | refl => exact Derives.refl _
  | head s _ ih => exact Derives.head s ih

theorem DerivesIn.tail {g : Grammar T N} {n α β γ} (d : DerivesIn g n α β) (s : Step g β γ) :
    DerivesIn g (n + 1) α γ := by
  induction d with
  | refl => exact DerivesIn.head s (DerivesIn.refl _)
  | head s₁ _ ih => exact DerivesIn.head s₁ (ih s)

theorem Derives.toDerivesIn {g : Grammar T N} {α β} (d : Derives g α β) : ∃ n, DerivesIn g n α β := by
  induction d with
  | refl => exact ⟨0, DerivesIn.refl _⟩
  | tail _ s ih =>
    obtain ⟨n, dn⟩ := ih
    exact ⟨n + 1, dn.tail s⟩

/-- a step from `α ++ β` happens in `α` or in `β` -/
theorem Step.split {g : Grammar T N} {α β γ : List (Sym T N)} (s : Step g (α ++ β) γ) :
    (∃ α', γ = α' ++ β ∧ Step g α α') ∨ (∃ β', γ = α ++ β' ∧ Step g β β') := by
  generalize hx : α ++ β = x at s
  cases s with
  | mk u v p hp =>
    -- α ++ β = u ++ [A] ++ v
    have hx' : α ++ β = u ++ (Sym.nonterm p.head :: v) := by simpa [List.append_assoc] using hx
    rcases List.append_eq_append_iff.mp hx' with ⟨a', h1, h2⟩ | ⟨c', h1, h2⟩
    · -- u = α ++ a', β = a' ++ A :: v
      right
      refine ⟨a' ++ p.body ++ v, ?_, ?_⟩
      · subst h1; simp [List.append_assoc]
      · subst h2
        have := Step.mk (g := g) a' v p hp
        simpa [List.append_assoc] using this
    · -- α = u ++ c', A :: v = c' ++ β
      cases c' with
      | nil =>
        right
        simp at h1 h2
        refine ⟨p.body ++ v, ?_, ?_⟩
        · subst h1; simp [List.append_assoc]
        · subst h2
          have := Step.mk (g := g) [] v p hp
          simpa using this
      | cons c cs =>
        left
        simp at h2
        obtain ⟨hc, hv⟩ := h2
        refine ⟨u ++ p.body ++ cs, ?_, ?_⟩
        · subst hv; simp [List.append_assoc]
        · subst h1 hc
          have := Step.mk (g := g) u cs p hp
          simpa [List.append_assoc] using this

/-- the splitting lemma, with step counts -/
theorem DerivesIn.split {g : Grammar T N} {n : Nat} : ∀ {α β γ : List (Sym T N)}, DerivesIn g n (α ++ β) γ →
    ∃ γ₁ γ₂ n₁ n₂, γ = γ₁ ++ γ₂ ∧ DerivesIn g n₁ α γ₁ ∧ DerivesIn g n₂ β γ₂ ∧ n₁ + n₂ = n := by
  induction n with
  | zero =>
    intro α β γ d
    cases d
    exact ⟨α, β, 0, 0, rfl, DerivesIn.refl _, DerivesIn.refl _, rfl⟩
  | succ n ih =>
    intro α β γ d
    cases d with
    | head s d' =>
      rcases s.split with ⟨α', rfl, sα⟩ | ⟨β', rfl, sβ⟩
      · obtain ⟨γ₁, γ₂, n₁, n₂, h, d₁, d₂, hn⟩ := ih d'
        exact ⟨γ₁, γ₂, n₁ + 1, n₂, h, DerivesIn.head sα d₁, d₂, by omega⟩
      · obtain ⟨γ₁, γ₂, n₁, n₂, h, d₁, d₂, hn⟩ := ih d'
        exact ⟨γ₁, γ₂, n₁, n₂ + 1, h, d₁, DerivesIn.head sβ d₂, by omega⟩

theorem Derives.split {g : Grammar T N} {α β γ : List (Sym T N)} (d : Derives g (α ++ β) γ) :
    ∃ γ₁ γ₂, γ = γ₁ ++ γ₂ ∧ Derives g α γ₁ ∧ Derives g β γ₂ := by
  obtain ⟨n, dn⟩ := d.toDerivesIn
  obtain ⟨γ₁, γ₂, _, _, h, d₁, d₂, _⟩ := dn.split
  exact ⟨γ₁, γ₂, h, d₁.toDerives, d₂.toDerives⟩

/-- a single non-terminal steps only by one of its productions -/
theorem Step.of_single {g : Grammar T N} {A : N} {γ} (s : Step g [Sym.nonterm A] γ) :
    ∃ p ∈ g.prods, p.head = A ∧ γ = p.body := by
  generalize hx : [Sym.nonterm A] = x at s
  cases s with
  | mk u v p hp =>
    have : u = [] ∧ v = [] ∧ p.head = A := by
      cases u with
      | nil =>
        simp at hx
        exact ⟨rfl, hx.2, hx.1.symm⟩
      | cons a u' =>
        simp at hx
    obtain ⟨rfl, rfl, rfl⟩ := this
    exact ⟨p, hp, rfl, by simp⟩

/-- terminal strings do not step -/
theorem Step.not_of_terms {g : Grammar T N} {w : List T} {γ} (s : Step g (w.map Sym.term) γ) : False := by
  generalize hx : w.map Sym.term = x at s
  cases s with
  | mk u v p hp =>
    have hmem : Sym.nonterm p.head ∈ w.map (Sym.term (N := N)) := by
      rw [hx]; simp
    simp at hmem

/-- if a sentential form derives a terminal string, every non-terminal in it derives a terminal string -/
theorem Derives.nonterm_productive {g : Grammar T N} {u v : List (Sym T N)} {A : N} {w : List T}
    (d : Derives g (u ++ [Sym.nonterm A] ++ v) (w.map Sym.term)) :
    ∃ w' : List T, Derives g [Sym.nonterm A] (w'.map Sym.term) := by
  rw [List.append_assoc] at d
  obtain ⟨γ₁, γ₂, h, _, d₂⟩ := d.split
  obtain ⟨δ₁, δ₂, h', dA, _⟩ := d₂.split
  -- δ₁ is a segment of a terminal string
  have hδ : ∃ w' : List T, δ₁ = w'.map Sym.term := by
    have h2 : w.map Sym.term = γ₁ ++ (δ₁ ++ δ₂) := by rw [h, h']
    obtain ⟨w₁, w₂, _, _, hw₂⟩ := List.map_eq_append_iff.mp h2
    obtain ⟨w₃, w₄, _, hw₃, _⟩ := List.map_eq_append_iff.mp hw₂
    exact ⟨w₃, hw₃.symm⟩
  obtain ⟨w', rfl⟩ := hδ
  exact ⟨w', dA⟩

/-- a non-terminal that derives a terminal string has a production -/
theorem Derives.has_prod {g : Grammar T N} {A : N} {w : List T}
    (d : Derives g [Sym.nonterm A] (w.map Sym.term)) : ∃ p ∈ g.prods, p.head = A := by
  rcases d.cases_head with h | ⟨β, s, _⟩
  · cases w <;> simp at h
  · obtain ⟨p, hp, hh, _⟩ := s.of_single
    exact ⟨p, hp, hh⟩

/-! ## renaming non-terminals -/

def mapSym (φ : N → N) : Sym T N → Sym T N
  | .term t => .term t
  | .nonterm n => .nonterm (φ n)

theorem mapSym_terms (φ : N → N) (w : List T) : (w.map Sym.term).map (mapSym φ) = w.map (Sym.term (N := N)) := by
  induction w with
  | nil => rfl
  | cons a w ih => simp [mapSym]

/-- the simulation lemma -/
theorem Derives.simulate {g g' : Grammar T N} (φ : N → N)
    (h : ∀ p ∈ g'.prods, Derives g [Sym.nonterm (φ p.head)] (p.body.map (mapSym φ)))
    {α β} (d : Derives g' α β) : Derives g (α.map (mapSym φ)) (β.map (mapSym φ)) := by
  induction d with
  | refl => exact Derives.refl _
  | tail _ s ih =>
    refine ih.trans ?_
    cases s with
    | mk u v p hp =>
      have := ((h p hp).append_left (u.map (mapSym φ))).append_right (v.map (mapSym φ))
      simpa [mapSym, List.append_assoc] using this

/-- soundness from simulation: `L(g') ⊆ L(g)` -/
theorem Language.of_simulation {g g' : Grammar T N} (φ : N → N) (hs : φ g'.start = g.start)
    (h : ∀ p ∈ g'.prods, Derives g [Sym.nonterm (φ p.head)] (p.body.map (mapSym φ)))
    {w : List T} (hw : Language g' w) : Language g w := by
  have := Derives.simulate φ h hw
  rw [mapSym_terms] at this
  simpa [Language, mapSym, hs] using this

/-- `map` with a function that fixes every element is the identity -/
theorem map_mapSym_id (φ : N → N) (b : List (Sym T N)) (h : ∀ n, Sym.nonterm n ∈ b → φ n = n) :
    b.map (mapSym φ) = b := by
  induction b with
  | nil => rfl
  | cons s b ih =>
    have hb : b.map (mapSym φ) = b := ih (fun n hn => h n (List.mem_cons_of_mem _ hn))
    cases s with
    | term t => simp [mapSym, hb]
    | nonterm n => simp [mapSym, hb, h n (List.mem_cons_self ..)]

end AlgoVerif.Gram
