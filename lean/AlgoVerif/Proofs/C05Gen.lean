import AlgoVerif.Generated.C05Gen
import AlgoVerif.Proofs.GoRt
import AlgoVerif.Model.C05
import AlgoVerif.Proofs.C05Binary
/-!
# The GENERATED model of `heap/indexed_binary.go` and the hand-written Model of the indexed binary heap

`Generated/C05Gen.lean` is rewritten from /repo's source by `/verif/extract/go2lean` on every check run
(`bin/pre-C05`; every function of the file except `DOT` and `verify`).  The hand Model (`Model/C05.lean`,
`IBinary.*`) keeps `n`, the heap entries and all positions as `Nat`, an entry `*generic.KeyValue` as
`Option (K × V)`, is written with `[i]?` / `setIfInBounds` / explicit matches on the outcome, and gives each loop its
own fuel; the generated definitions use `Int`, the generated record `KeyValue K V`, the bounds-checked `Go.idx` /
`Go.setIdx` and the caller's fuel.

`ofM cmp eq h` reads a state of the hand Model as the generated structure (so every theorem below is for EVERY state
`h` of the hand Model — no invariant is assumed — and every comparator).  Relations:

* `x ≼ y` (`Proofs/GoRt.lean`): the hand Model's outcome is `diverge` (its fuel ran out) or the generated definition
  computes exactly the same outcome — `compare`, `swap`, `ContainsIndex`, `Peek`, `PeekIndex`, `ContainsKey`,
  `ContainsValue`, `DeleteAll`, `NewIndexedBinary` (equalities), `promote`, `demote`, `Insert`, `ChangeKey`;
* `x ≼ₚ y` for `Delete` and `DeleteIndex`: additionally the hand Model may have stopped with `panic` — it does so
  earlier than the Go code at a nil `kvs[i]` (the code panics only at the final `ext.Key`), at a negative stored
  position and at `n = 0`; `C05_ibinary` proves these states unreachable.

`step_le` combines them for one call of the interface, `genRun_eq` for a whole history from `NewIndexedBinary`:
under a lawful comparator the generated definitions answer exactly what the hand Model answers.
-/
set_option linter.unusedSectionVars false
set_option linter.unusedSimpArgs false
namespace AlgoVerif.C05.Gen
open AlgoVerif AlgoVerif.Outcome AlgoVerif.C05 AlgoVerif.Generated.IHeap
variable {K V : Type} [Inhabited K] [Inhabited V]

def unpair (e : K × V) : KeyValue K V := ⟨e.1, e.2⟩
def uncells (a : Array (Option (K × V))) : Array (Option (KeyValue K V)) := a.map (Option.map unpair)
def ints (a : Array Nat) : Array Int := a.map Int.ofNat

/-- the hand Model's state read as the generated structure -/
def ofM (cmp : K → K → Int) (eq : V → V → Bool) (h : IBinary K V) : indexedBinary K V :=
  ⟨cmp, eq, (h.n : Int), ints h.heap, h.pos, uncells h.kvs⟩

/-- `s[k]` for an index that is a natural number -/
def at? {α : Type} (o : Option α) : Outcome α := match o with | some x => .ok x | none => .panic

theorem idx_natCast {α : Type} (a : Array α) (k : Nat) : Go.idx a (k : Int) = at? a[k]? := by
  by_cases h : k < a.size
  · simp [Go.idx_nat h, h, at?]
  · have : Go.idx a (k : Int) = .panic := Go.idx_of_invalid (by omega)
    simp [this, at?, h]

theorem idx_ofNat {α : Type} (a : Array α) (k : Nat) : Go.idx a (Int.ofNat k) = at? a[k]? := idx_natCast a k

theorem setIdx_natCast {α : Type} (a : Array α) (k : Nat) (v : α) :
    Go.setIdx a (k : Int) v = if k < a.size then .ok (a.setIfInBounds k v) else .panic := by
  by_cases h : k < a.size
  · simp [Go.setIdx_nat h, h, Array.setIfInBounds]
  · have : Go.setIdx a (k : Int) v = .panic := Go.setIdx_of_invalid (by omega)
    simp [this, h]

@[simp] theorem idx_ne_diverge {α : Type} (s : Array α) (i : Int) : (Go.idx s i = .diverge) = False := by
  unfold Go.idx; split <;> simp

theorem idx_neg {α : Type} (a : Array α) {k : Int} (h : k < 0) : Go.idx a k = .panic :=
  Go.idx_of_invalid (by omega)

@[simp] theorem ints_size (a : Array Nat) : (ints a).size = a.size := by simp [ints]
@[simp] theorem uncells_size (a : Array (Option (K × V))) : (uncells a).size = a.size := by simp [uncells]
@[simp] theorem ints_get? (a : Array Nat) (k : Nat) : (ints a)[k]? = a[k]?.map Int.ofNat := by simp [ints]
@[simp] theorem uncells_get? (a : Array (Option (K × V))) (k : Nat) :
    (uncells a)[k]? = a[k]?.map (Option.map unpair) := by simp [uncells]
theorem ints_set (a : Array Nat) (k v : Nat) : (ints a).setIfInBounds k (v : Int) = ints (a.setIfInBounds k v) := by
  by_cases h : k < a.size <;> simp [ints, Array.setIfInBounds, h]
theorem uncells_set (a : Array (Option (K × V))) (k : Nat) (e : Option (K × V)) :
    (uncells a).setIfInBounds k (e.map unpair) = uncells (a.setIfInBounds k e) := by
  by_cases h : k < a.size <;> simp [uncells, Array.setIfInBounds, h]

theorem uncells_set_some (a : Array (Option (K × V))) (k : Nat) (e : K × V) :
    (uncells a).setIfInBounds k (some (unpair e)) = uncells (a.setIfInBounds k (some e)) := uncells_set a k (some e)
theorem uncells_set_none (a : Array (Option (K × V))) (k : Nat) :
    (uncells a).setIfInBounds k none = uncells (a.setIfInBounds k none) := uncells_set a k none

@[simp] theorem at?_some {α : Type} (x : α) : at? (some x) = .ok x := rfl
@[simp] theorem at?_none {α : Type} : at? (none : Option α) = .panic := rfl
@[simp] theorem at?_ne_diverge {α : Type} (o : Option α) : (at? o = .diverge) = False := by cases o <;> simp [at?]
@[simp] theorem deref_some {α : Type} (x : α) : Go.deref (some x) = .ok x := rfl
@[simp] theorem deref_none {α : Type} : Go.deref (none : Option α) = .panic := rfl
@[simp] theorem unpair_Key (e : K × V) : (unpair e).Key = e.1 := rfl
@[simp] theorem unpair_Val (e : K × V) : (unpair e).Val = e.2 := rfl

/-- `h.kvs[h.heap[p]].Key` as the sequence of checked reads it is -/
theorem keyAt_nf (h : IBinary K V) (p : Nat) :
    h.keyAt p = (at? h.heap[p]? >>= fun i => at? h.kvs[i]? >>= fun c => at? c >>= fun e => .ok e.1) := by
  unfold IBinary.keyAt
  cases h.heap[p]? with
  | none => rfl
  | some i =>
    simp only [at?_some, Outcome.ok_bind]
    rcases h.kvs[i]? with _ | _ | ⟨k, v⟩ <;> rfl

theorem compare_nf (cmp : K → K → Int) (h : IBinary K V) (a b : Nat) :
    h.compare cmp a b = (h.keyAt a >>= fun ka => h.keyAt b >>= fun kb => .ok (cmp ka kb)) := by
  unfold IBinary.compare
  have ha : h.keyAt a ≠ .diverge := by rw [keyAt_nf]; intro e; revert e; cases h.heap[a]? <;> simp <;> rename_i i <;> rcases h.kvs[i]? with _ | _ | _ <;> simp
  have hb : h.keyAt b ≠ .diverge := by rw [keyAt_nf]; intro e; revert e; cases h.heap[b]? <;> simp <;> rename_i i <;> rcases h.kvs[i]? with _ | _ | _ <;> simp
  cases ea : h.keyAt a <;> cases eb : h.keyAt b <;> simp_all

theorem compare_eq (cmp : K → K → Int) (eq : V → V → Bool) (h : IBinary K V) (a b : Nat) :
    indexedBinary.compare (ofM cmp eq h) (a : Int) (b : Int) = h.compare cmp a b := by
  simp only [compare_nf, keyAt_nf, indexedBinary.compare, ofM, idx_natCast, ints_get?, uncells_get?]
  cases h.heap[a]? with
  | none => simp
  | some i =>
    cases h.heap[b]? with
    | none =>
      simp only [Option.map_some, Option.map_none, at?_some, at?_none, Outcome.ok_bind, Outcome.panic_bind]
      rcases h.kvs[i]? with _ | _ | _ <;> simp
    | some j =>
      simp only [Option.map_some, at?_some, Outcome.ok_bind, Outcome.pure_eq, Int.ofNat_eq_natCast, idx_natCast, uncells_get?]
      rcases h.kvs[i]? with _ | _ | e <;> rcases h.kvs[j]? with _ | _ | e' <;> simp

/-- `swap(i, j)` -/
theorem swap_eq (cmp : K → K → Int) (eq : V → V → Bool) (h : IBinary K V) (i j : Nat) :
    indexedBinary.swap (ofM cmp eq h) (i : Int) (j : Int) = (h.swap i j).map (ofM cmp eq) := by
  simp only [indexedBinary.swap, IBinary.swap, ofM, idx_natCast, ints_get?]
  cases ei : h.heap[i]? with
  | none => cases h.heap[j]? <;> simp
  | some a =>
    cases ej : h.heap[j]? with
    | none => simp
    | some b =>
      obtain ⟨hi, hai⟩ := Array.getElem?_eq_some_iff.1 ei
      obtain ⟨hj, hbj⟩ := Array.getElem?_eq_some_iff.1 ej
      simp only [Option.map_some, at?_some, Outcome.ok_bind, Outcome.pure_eq, Int.ofNat_eq_natCast, setIdx_natCast,
        ints_size, hi, hj, if_true, ints_set, Array.size_setIfInBounds, idx_natCast, ints_get?]
      have g1 : ((h.heap.setIfInBounds i b).setIfInBounds j a)[i]? = some b := by
        by_cases hij : i = j
        · subst hij; simp [hi]; omega
        · simp [Array.getElem?_setIfInBounds, hi, hj, hij, Ne.symm hij]
      have g2 : ((h.heap.setIfInBounds i b).setIfInBounds j a)[j]? = some a := by
        simp [Array.getElem?_setIfInBounds, hi, hj]
      simp only [g1, g2, Option.map_some, at?_some, Outcome.ok_bind, Int.ofNat_eq_natCast, setIdx_natCast,
        Array.size_setIfInBounds]
      by_cases hb : b < h.pos.size <;> by_cases ha : a < h.pos.size <;> simp [hb, ha, ofM]


theorem tdiv2 (k : Nat) : Int.tdiv (k : Int) 2 = ((k / 2 : Nat) : Int) := by
  rw [Int.tdiv_eq_ediv_of_nonneg (by omega)]; omega

/-- `for ; k > 1 && h.compare(k/2, k) > 0; k /= 2 { h.swap(k, k/2) }` -/
theorem promote_loop (cmp : K → K → Int) (eq : V → V → Bool) (F : Nat) : ∀ (f d : Nat) (h : IBinary K V) (k : Nat),
    (IBinary.promote cmp f h k).map (ofM cmp eq) ≼
      (indexedBinary.promote.loop1 F (f + d) (ofM cmp eq h) (k : Int)).map Prod.fst := by
  intro f
  induction f with
  | zero => intro d h k; simp [IBinary.promote]
  | succ f ih =>
    intro d h k
    rw [show f + 1 + d = (f + d) + 1 by omega]
    simp only [IBinary.promote, indexedBinary.promote.loop1, tdiv2, compare_eq, swap_eq]
    outcome_auto

theorem promote_le (cmp : K → K → Int) (eq : V → V → Bool) (f d : Nat) (h : IBinary K V) (k : Nat) :
    (IBinary.promote cmp f h k).map (ofM cmp eq) ≼ indexedBinary.promote (f + d) (ofM cmp eq h) (k : Int) := by
  have := promote_loop cmp eq (f + d) f d h k
  simp only [indexedBinary.promote, Outcome.bind_assoc, Outcome.pure_eq]
  revert this
  cases indexedBinary.promote.loop1 (f + d) (f + d) (ofM cmp eq h) (k : Int) <;> simp

theorem natCast_succ (j : Nat) : ((j : Int) + 1) = ((j + 1 : Nat) : Int) := by omega
theorem natCast_two_mul (k : Nat) : (2 * (k : Int)) = ((2 * k : Nat) : Int) := by omega

theorem pickChild_nf (cmp : K → K → Int) (h : IBinary K V) (j : Nat) :
    h.pickChild cmp j =
      if j < h.n then h.compare cmp (j + 1) j >>= fun c => .ok (if c < 0 then j + 1 else j) else .ok j := by
  simp only [IBinary.pickChild]
  split
  · cases h.compare cmp (j + 1) j <;> rfl
  · rfl

theorem demote_succ (cmp : K → K → Int) (f : Nat) (h : IBinary K V) (k : Nat) :
    IBinary.demote cmp (f + 1) h k =
      if 2 * k ≤ h.n then
        h.pickChild cmp (2 * k) >>= fun j => h.compare cmp k j >>= fun c =>
          if c < 0 then .ok h else h.swap k j >>= fun h' => IBinary.demote cmp f h' j
      else .ok h := by
  simp only [IBinary.demote]
  split
  · cases h.pickChild cmp (2 * k) with
    | ok j =>
      simp only [Outcome.ok_bind]
      cases h.compare cmp k j with
      | ok c =>
        simp only [Outcome.ok_bind]
        split
        · rfl
        · cases h.swap k j <;> rfl
      | panic => rfl
      | diverge => rfl
    | panic => rfl
    | diverge => rfl
  · rfl

/-- `for j := 2*k; j <= h.n; k, j = j, 2*j { pick the smaller child; if compare(k, j) < 0 { break }; swap(k, j) }` -/
theorem demote_loop (cmp : K → K → Int) (eq : V → V → Bool) (F : Nat) : ∀ (f d : Nat) (h : IBinary K V) (k : Nat),
    (IBinary.demote cmp f h k).map (ofM cmp eq) ≼
      (indexedBinary.demote.loop1 F (f + d) ((2 * k : Nat) : Int) (ofM cmp eq h) (k : Int)).map Prod.fst := by
  intro f
  induction f with
  | zero => intro d h k; simp [IBinary.demote]
  | succ f ih =>
    intro d h k
    rw [show f + 1 + d = (f + d) + 1 by omega]
    have en : (ofM cmp eq h).n = (h.n : Int) := rfl
    simp only [demote_succ, pickChild_nf, indexedBinary.demote.loop1, natCast_succ, natCast_two_mul, compare_eq, swap_eq, en]
    outcome_auto

theorem demote_le (cmp : K → K → Int) (eq : V → V → Bool) (f d : Nat) (h : IBinary K V) (k : Nat) :
    (IBinary.demote cmp f h k).map (ofM cmp eq) ≼ indexedBinary.demote (f + d) (ofM cmp eq h) (k : Int) := by
  have := demote_loop cmp eq (f + d) f d h k
  simp only [indexedBinary.demote, Outcome.bind_assoc, Outcome.pure_eq, natCast_two_mul]
  revert this
  cases indexedBinary.demote.loop1 (f + d) (f + d) ((2 * k : Nat) : Int) (ofM cmp eq h) (k : Int) <;> simp

/-! ## the operations -/

/-- a refinement `x.map f ≼ y` of a call, followed by related continuations -/
theorem map_le_bind {α β γ δ : Type} {x : Outcome α} {y : Outcome β} {f : α → β} {g : α → Outcome γ}
    {g' : β → Outcome δ} {p : γ → δ} (h : x.map f ≼ y) (hg : ∀ a, x = .ok a → (g a).map p ≼ g' (f a)) :
    (x >>= g).map p ≼ (y >>= g') := by
  cases x with
  | ok a =>
    have : y = .ok (f a) := by simpa using h
    subst this
    simpa using hg a rfl
  | panic =>
    have : y = .panic := by simpa using h
    subst this; simp
  | diverge => simp


theorem map_le_bind' {α β γ : Type} {x : Outcome α} {y : Outcome β} {f : α → β} {g : α → Outcome γ}
    {g' : β → Outcome γ} (h : x.map f ≼ y) (hg : ∀ a, x = .ok a → g a ≼ g' (f a)) :
    (x >>= g) ≼ (y >>= g') := by
  cases x with
  | ok a =>
    have : y = .ok (f a) := by simpa using h
    subst this
    simpa using hg a rfl
  | panic =>
    have : y = .panic := by simpa using h
    subst this; simp
  | diverge => simp

theorem ContainsIndex_eq (cmp : K → K → Int) (eq : V → V → Bool) (h : IBinary K V) (i : Int) :
    indexedBinary.ContainsIndex (ofM cmp eq h) i = h.containsIndex i := by
  simp only [indexedBinary.ContainsIndex, IBinary.containsIndex, ofM, uncells_size]
  by_cases hr : 0 ≤ i ∧ i < (h.kvs.size : Int)
  · obtain ⟨m, rfl⟩ : ∃ m : Nat, i = (m : Int) := ⟨i.toNat, by omega⟩
    have hd : (decide (0 ≤ (m : Int)) && decide ((m : Int) < (h.kvs.size : Int))) = true := by simpa using hr
    simp only [hr, hd, and_self, if_true, idx_natCast, Int.toNat_natCast, Outcome.bind_assoc, Outcome.pure_eq]
    cases h.pos[m]? <;> simp
  · have hd : (decide (0 ≤ i) && decide (i < (h.kvs.size : Int))) = false := by
      rw [Bool.and_eq_false_iff]; simp only [decide_eq_false_iff_not]; omega
    simp [hr, hd]

theorem insert_nf (cmp : K → K → Int) (h : IBinary K V) (i : Int) (key : K) (val : V) :
    h.insert cmp i key val =
      if i < 0 ∨ i ≥ (h.kvs.size : Int) then .ok (h, false) else
        h.containsIndex i >>= fun b =>
          if b then .ok (h, false) else
            if h.n + 1 < h.heap.size ∧ i.toNat < h.pos.size ∧ i.toNat < h.kvs.size then
              IBinary.promote cmp (h.n + 1 + 1)
                { n := h.n + 1, heap := h.heap.setIfInBounds (h.n + 1) i.toNat,
                  pos := h.pos.setIfInBounds i.toNat ((h.n + 1 : Nat) : Int),
                  kvs := h.kvs.setIfInBounds i.toNat (some (key, val)) } (h.n + 1) >>= fun h2 => .ok (h2, true)
            else .panic := by
  simp only [IBinary.insert]
  split
  · rfl
  · cases h.containsIndex i with
    | ok b =>
      cases b with
      | true => rfl
      | false =>
        simp only [Outcome.ok_bind, Bool.false_eq_true, if_false]
        split
        · cases IBinary.promote cmp (h.n + 1 + 1) _ (h.n + 1) <;> rfl
        · rfl
    | panic => rfl
    | diverge => rfl

/-- `Insert` with any fuel `≥ h.n + 2` -/
theorem Insert_le (cmp : K → K → Int) (eq : V → V → Bool) (h : IBinary K V) (i : Int) (key : K) (val : V) (d : Nat) :
    (h.insert cmp i key val).map (fun r => (ofM cmp eq r.1, r.2)) ≼
      indexedBinary.Insert (h.n + 2 + d) (ofM cmp eq h) i key val := by
  rw [insert_nf]
  simp only [indexedBinary.Insert, ContainsIndex_eq]
  by_cases hr : i < 0 ∨ i ≥ (h.kvs.size : Int)
  · have hd : (!(decide (i < 0) || decide (i ≥ ((ofM cmp eq h).kvs.size : Int)))) = false := by
      simp only [ofM, uncells_size]; rcases hr with h1 | h1 <;> simp [h1]
    simp [hr, hd]
  · have hd : (!(decide (i < 0) || decide (i ≥ ((ofM cmp eq h).kvs.size : Int)))) = true := by
      have h1 : ¬ i < 0 := fun h => hr (.inl h)
      have h2 : ¬ i ≥ (h.kvs.size : Int) := fun h => hr (.inr h)
      simp only [ofM, uncells_size]; simp [h1, h2]
    obtain ⟨m, rfl⟩ : ∃ m : Nat, i = (m : Int) := ⟨i.toNat, by omega⟩
    simp only [hr, hd, if_true, if_false, Outcome.bind_assoc, Outcome.pure_eq, Outcome.map_bind, Int.toNat_natCast]
    refine Outcome.bind_le (Outcome.le_refl _) fun b => ?_
    cases b with
    | true => simp
    | false =>
      simp only [Bool.false_eq_true, if_false, Outcome.ok_bind, ofM, natCast_succ, setIdx_natCast, ints_size,
        uncells_size]
      have hkv : (some ({ Key := key, Val := val } : KeyValue K V)) = (some (key, val)).map unpair := rfl
      by_cases c1 : h.n + 1 < h.heap.size <;> by_cases c2 : m < h.pos.size <;> by_cases c3 : m < h.kvs.size <;>
        simp only [c1, c2, c3, and_self, and_true, and_false, true_and, false_and, if_true, if_false, Outcome.ok_bind,
          Outcome.panic_bind, Outcome.map_panic, Outcome.le_refl, ints_set, hkv, uncells_set, Outcome.map_bind,
          Outcome.map_ok]
      have := promote_le cmp eq (h.n + 1 + 1) d
        { n := h.n + 1, heap := h.heap.setIfInBounds (h.n + 1) m, pos := h.pos.setIfInBounds m ((h.n + 1 : Nat) : Int),
          kvs := h.kvs.setIfInBounds m (some (key, val)) } (h.n + 1)
      rw [show h.n + 1 + 1 + d = h.n + 2 + d by omega] at this
      exact map_le_bind' this (fun a _ => by simp [ofM])

theorem posOf_nf (h : IBinary K V) (i : Nat) :
    h.posOf i = (at? h.pos[i]? >>= fun p => if 0 ≤ p then .ok p.toNat else .panic) := by
  unfold IBinary.posOf; cases h.pos[i]? <;> rfl

theorem changeKey_nf (cmp : K → K → Int) (h : IBinary K V) (i : Int) (key : K) :
    h.changeKey cmp i key =
      (h.containsIndex i >>= fun b =>
        if !b then .ok (h, false) else
          at? h.kvs[i.toNat]? >>= fun c => at? c >>= fun e =>
            (({ h with kvs := h.kvs.setIfInBounds i.toNat (some (key, e.2)) } : IBinary K V).posOf i.toNat >>= fun p =>
              IBinary.promote cmp (p + 1) { h with kvs := h.kvs.setIfInBounds i.toNat (some (key, e.2)) } p >>= fun h2 =>
                h2.posOf i.toNat >>= fun p2 => IBinary.demote cmp (h2.n + 1) h2 p2 >>= fun h3 => .ok (h3, true))) := by
  simp only [IBinary.changeKey]
  cases h.containsIndex i with
  | ok b =>
    cases b with
    | false => rfl
    | true =>
      simp only [Outcome.ok_bind, Bool.not_true, Bool.false_eq_true, if_false]
      rcases h.kvs[i.toNat]? with _ | _ | ⟨k0, v⟩
      · rfl
      · rfl
      · simp only [at?_some, Outcome.ok_bind]
        cases IBinary.posOf _ i.toNat with
        | ok p =>
          simp only [Outcome.ok_bind]
          cases IBinary.promote cmp (p + 1) _ p with
          | ok h2 =>
            simp only [Outcome.ok_bind]
            cases h2.posOf i.toNat with
            | ok p2 =>
              simp only [Outcome.ok_bind]
              cases IBinary.demote cmp (h2.n + 1) h2 p2 <;> rfl
            | panic => rfl
            | diverge => rfl
          | panic => rfl
          | diverge => rfl
        | panic => rfl
        | diverge => rfl
  | panic => rfl
  | diverge => rfl

theorem promote_n (cmp : K → K → Int) : ∀ (f : Nat) (h h' : IBinary K V) (k : Nat),
    IBinary.promote cmp f h k = .ok h' → h'.n = h.n := by
  intro f
  induction f with
  | zero => intro h h' k e; cases e
  | succ f ih =>
    intro h h' k e
    simp only [IBinary.promote] at e
    split at e
    · split at e
      · split at e
        · split at e
          · rename_i h1 hs
            rw [ih _ _ _ e]
            simp only [IBinary.swap] at hs
            split at hs
            · split at hs
              · cases hs; rfl
              · cases hs
            · cases hs
          · cases e
          · cases e
        · cases e; rfl
      · cases e
      · cases e
    · cases e; rfl

/-- the generated `promote` does nothing for `k ≤ 1` (in particular for a negative position) -/
theorem promote_small (g : indexedBinary K V) (k : Int) (hk : k ≤ 1) (F : Nat) :
    indexedBinary.promote (F + 1) g k = .ok g := by
  have : decide (k > 1) = false := by simpa using hk
  simp [indexedBinary.promote, indexedBinary.promote.loop1, this]

/-- the generated `demote` of a negative position panics (it reads `heap[2k]`) -/
theorem demote_neg (g : indexedBinary K V) (k : Int) (hk : k < 0) (hn : 0 ≤ g.n) (F : Nat) :
    indexedBinary.demote (F + 1) g k = .panic := by
  have h1 : decide (2 * k ≤ g.n) = true := by simp; omega
  have h2 : decide (2 * k < g.n) = true := by simp; omega
  have h3 : Go.idx g.heap (2 * k) = .panic := idx_neg _ (by omega)
  simp only [indexedBinary.demote, indexedBinary.demote.loop1, h1, h2, indexedBinary.compare, h3, Outcome.bind_assoc,
    Outcome.pure_eq, Bool.not_true, Bool.false_eq_true, if_false, if_true, Outcome.ok_bind]
  cases e : Go.idx g.heap (2 * k + 1) with
  | ok x => simp
  | panic => simp
  | diverge => simp at e

theorem bind_le' {β γ : Type} {x x' : Outcome β} {f f' : β → Outcome γ} (hx : x ≼ x')
    (hf : ∀ a, x = .ok a → f a ≼ f' a) : (x >>= f) ≼ (x' >>= f') := by
  rcases hx with rfl | rfl
  · exact .inl rfl
  · cases x <;> simp_all

theorem containsIndex_true {h : IBinary K V} {i : Int} (e : h.containsIndex i = .ok true) :
    ∃ m : Nat, i = (m : Int) ∧ m < h.kvs.size := by
  simp only [IBinary.containsIndex] at e
  split at e
  · exact ⟨i.toNat, by omega, by omega⟩
  · cases e

/-- what `ChangeKey` / `DeleteIndex` do with a position read from `pos`: the hand Model stops (`panic`) at a negative
one, the Go code goes on — `promote` does nothing, `demote` / `swap` then index `heap` negatively and panic -/
theorem posOf_cases (h : IBinary K V) (m : Nat) :
    (∃ p : Int, h.pos[m]? = some p ∧ p < 0 ∧ h.posOf m = .panic) ∨
    (∃ q : Nat, h.pos[m]? = some (q : Int) ∧ h.posOf m = .ok q) ∨ (h.pos[m]? = none ∧ h.posOf m = .panic) := by
  rw [posOf_nf]
  cases e : h.pos[m]? with
  | none => exact .inr (.inr ⟨rfl, rfl⟩)
  | some p =>
    by_cases hp : 0 ≤ p
    · refine .inr (.inl ⟨p.toNat, by rw [Int.toNat_of_nonneg hp], by simp [hp]⟩)
    · exact .inl ⟨p, rfl, by omega, by simp [hp]⟩

/-- `ChangeKey` with any fuel that covers `h.n + 1` and every stored position `+ 1` -/
theorem ChangeKey_le (cmp : K → K → Int) (eq : V → V → Bool) (h : IBinary K V) (i : Int) (key : K) (F : Nat)
    (hF : h.n + 1 ≤ F) (hp : ∀ (j q : Nat), h.pos[j]? = some (q : Int) → q + 1 ≤ F) :
    (h.changeKey cmp i key).map (fun r => (ofM cmp eq r.1, r.2)) ≼
      indexedBinary.ChangeKey F (ofM cmp eq h) i key := by
  obtain ⟨F', rfl⟩ : ∃ F', F = F' + 1 := ⟨F - 1, by omega⟩
  rw [changeKey_nf]
  simp only [indexedBinary.ChangeKey, ContainsIndex_eq, Outcome.map_bind, Outcome.bind_assoc, Outcome.pure_eq]
  refine bind_le' (Outcome.le_refl _) fun b hb => ?_
  cases b with
  | false => simp
  | true =>
    obtain ⟨m, rfl, hm⟩ := containsIndex_true hb
    simp only [Bool.not_true, Bool.false_eq_true, if_false, Int.toNat_natCast, ofM, idx_natCast, uncells_get?,
      Outcome.map_bind]
    rcases ek : h.kvs[m]? with _ | _ | e
    · simp
    · simp
    · have hkv : (some ({ (unpair e) with Key := key } : KeyValue K V)) = some (unpair (key, e.2)) := rfl
      simp only [Option.map_some, at?_some, Outcome.ok_bind, deref_some, setIdx_natCast, uncells_size, hm, if_true,
        hkv, uncells_set_some]
      generalize eh1 : ({ h with kvs := h.kvs.setIfInBounds m (some (key, e.2)) } : IBinary K V) = h1
      have eg1 : (⟨cmp, eq, (h.n : Int), ints h.heap, h.pos,
          uncells (h.kvs.setIfInBounds m (some (key, e.2)))⟩ : indexedBinary K V) = ofM cmp eq h1 := by
        subst eh1; rfl
      have ep1 : h1.pos = h.pos := by subst eh1; rfl
      have en1 : h1.n = h.n := by subst eh1; rfl
      rw [eg1, ← ep1]
      rcases posOf_cases h1 m with ⟨p, e1, hneg, e2⟩ | ⟨q, e1, e2⟩ | ⟨e1, e2⟩
      · -- negative position: the hand Model stops; the Go code panics in demote
        have : (ofM cmp eq h1).pos = h1.pos := rfl
        simp [e2, this, e1, promote_small _ p (by omega), demote_neg (ofM cmp eq h1) p hneg (by simp [ofM])]
      · have : (ofM cmp eq h1).pos = h1.pos := rfl
        simp only [e2, this, e1, at?_some, Outcome.ok_bind]
        have hq : q + 1 ≤ F' + 1 := hp m q (by rw [← ep1]; exact e1)
        have hpr := promote_le cmp eq (q + 1) (F' + 1 - (q + 1)) h1 q
        rw [show q + 1 + (F' + 1 - (q + 1)) = F' + 1 by omega] at hpr
        refine map_le_bind' hpr fun h2 e3 => ?_
        have en2 : h2.n = h.n := by rw [promote_n cmp _ _ _ _ e3, en1]
        have : (ofM cmp eq h2).pos = h2.pos := rfl
        rw [this]
        rcases posOf_cases h2 m with ⟨p2, e4, hneg, e5⟩ | ⟨q2, e4, e5⟩ | ⟨e4, e5⟩
        · simp [e5, e4, demote_neg (ofM cmp eq h2) p2 hneg (by simp [ofM])]
        · simp only [e5, e4, at?_some, Outcome.ok_bind]
          have hde := demote_le cmp eq (h2.n + 1) (F' + 1 - (h2.n + 1)) h2 q2
          rw [show h2.n + 1 + (F' + 1 - (h2.n + 1)) = F' + 1 by omega] at hde
          exact map_le_bind' hde fun h3 _ => by simp [ofM]
        · simp [e5, e4]
      · have : (ofM cmp eq h1).pos = h1.pos := rfl
        simp [e2, this, e1]

/-! ### `Delete`, `DeleteIndex`

The hand Model stops with `panic` where the Go code would go on in states that `C05_ibinary` proves unreachable: at a
nil `kvs[i]` it panics at once (the Go code only at the final `ext.Key`), at a negative position, and at `n = 0` in
`DeleteIndex`.  For these two operations the relation is therefore `x ≼ₚ y`: the hand Model's outcome is `diverge`
or `panic`, or the generated definition computes exactly the same outcome. -/

/-- `x ≼ₚ y`: the hand Model ran out of fuel or stopped with `panic`, or both agree -/
def leP {α : Type} (x y : Outcome α) : Prop := x = .diverge ∨ x = .panic ∨ x = y
scoped infix:50 " ≼ₚ " => leP

theorem leP_of_le {α : Type} {x y : Outcome α} (h : x ≼ y) : x ≼ₚ y := by
  rcases h with h | h
  · exact .inl h
  · exact .inr (.inr h)
@[simp] theorem panic_leP {α : Type} (y : Outcome α) : (.panic : Outcome α) ≼ₚ y := .inr (.inl rfl)
@[simp] theorem diverge_leP {α : Type} (y : Outcome α) : (.diverge : Outcome α) ≼ₚ y := .inl rfl
@[simp] theorem leP_refl {α : Type} (y : Outcome α) : y ≼ₚ y := .inr (.inr rfl)
theorem leP.ok {α : Type} {x y : Outcome α} {a : α} (h : x ≼ₚ y) (hx : x = .ok a) : y = .ok a := by
  subst hx; rcases h with h | h | h <;> simp_all

theorem map_leP_bind' {α β γ : Type} {x : Outcome α} {y : Outcome β} {f : α → β} {g : α → Outcome γ}
    {g' : β → Outcome γ} (h : x.map f ≼ y) (hg : ∀ a, x = .ok a → g a ≼ₚ g' (f a)) :
    (x >>= g) ≼ₚ (y >>= g') := by
  cases x with
  | ok a =>
    have : y = .ok (f a) := by simpa using h
    subst this
    simpa using hg a rfl
  | panic => simp
  | diverge => simp

theorem bind_leP' {β γ : Type} {x : Outcome β} {f f' : β → Outcome γ}
    (hf : ∀ a, x = .ok a → f a ≼ₚ f' a) : (x >>= f) ≼ₚ (x >>= f') := by
  cases x with
  | ok a => simpa using hf a rfl
  | panic => simp
  | diverge => simp

theorem swap_n {h h' : IBinary K V} {i j : Nat} (e : h.swap i j = .ok h') : h'.n = h.n := by
  simp only [IBinary.swap] at e
  split at e
  · split at e
    · cases e; rfl
    · cases e
  · cases e

theorem clearIndex_eq (cmp : K → K → Int) (eq : V → V → Bool) (h : IBinary K V) (i : Nat) :
    (Go.setIdx (ofM cmp eq h).pos (i : Int) (-1) >>= fun p => Go.setIdx (ofM cmp eq h).kvs (i : Int) none >>= fun k =>
        Outcome.ok ({ (ofM cmp eq h) with pos := p, kvs := k } : indexedBinary K V)) =
      (h.clearIndex i).map (ofM cmp eq) := by
  simp only [IBinary.clearIndex, ofM, setIdx_natCast, uncells_size]
  by_cases c1 : i < h.pos.size <;> by_cases c2 : i < h.kvs.size <;> simp [c1, c2, uncells_set_none, ofM]

theorem delete_nf (cmp : K → K → Int) (h : IBinary K V) :
    h.delete cmp =
      if h.n = 0 then .ok (h, none) else
        at? h.heap[1]? >>= fun i => at? h.kvs[i]? >>= fun c => at? c >>= fun e =>
          h.swap 1 h.n >>= fun h1 =>
            IBinary.demote cmp (h1.n - 1 + 1) { h1 with n := h1.n - 1 } 1 >>= fun h3 =>
              h3.clearIndex i >>= fun h4 => .ok (h4, some (Int.ofNat i, e.1, e.2)) := by
  simp only [IBinary.delete]
  split
  · rfl
  · cases h.heap[1]? with
    | none => rfl
    | some i =>
      simp only [at?_some, Outcome.ok_bind]
      rcases h.kvs[i]? with _ | _ | ⟨k, v⟩
      · rfl
      · rfl
      · simp only [at?_some, Outcome.ok_bind]
        cases h.swap 1 h.n with
        | ok h1 =>
          simp only [Outcome.ok_bind]
          cases IBinary.demote cmp (h1.n - 1 + 1) _ 1 with
          | ok h3 =>
            simp only [Outcome.ok_bind]
            cases h3.clearIndex i <;> rfl
          | panic => rfl
          | diverge => rfl
        | panic => rfl
        | diverge => rfl

/-- Go's `(int, K, V, bool)` result of `Peek` / `Delete` as the Spec's -/
def ikvOpt (r : Int × K × V × Bool) : Option (Int × K × V) := if r.2.2.2 then some (r.1, r.2.1, r.2.2.1) else none
/-- Go's `(K, V, bool)` result of `PeekIndex` / `DeleteIndex` as the Spec's -/
def kvOpt (r : K × V × Bool) : Option (K × V) := if r.2.2 then some (r.1, r.2.1) else none

/-- `Delete` with any fuel `≥ h.n` -/
theorem Delete_le (cmp : K → K → Int) (eq : V → V → Bool) (h : IBinary K V) (F : Nat) (hF : h.n ≤ F) :
    (h.delete cmp).map (fun r => (ofM cmp eq r.1, r.2)) ≼ₚ
      (indexedBinary.Delete F (ofM cmp eq h)).map (fun r => (r.1, ikvOpt r.2)) := by
  rw [delete_nf]
  have en : (ofM cmp eq h).n = (h.n : Int) := rfl
  simp only [indexedBinary.Delete, en]
  by_cases h0 : h.n = 0
  · simp [h0, ikvOpt]
  · have hd : ((h.n : Int) == 0) = false := by simp; omega
    simp only [h0, hd, if_false, Bool.false_eq_true, Outcome.bind_assoc, Outcome.pure_eq, Outcome.map_bind]
    have i1 : Go.idx (ofM cmp eq h).heap 1 = at? (ints h.heap)[1]? := idx_natCast (ints h.heap) 1
    have ek : (ofM cmp eq h).kvs = uncells h.kvs := rfl
    have s1 : indexedBinary.swap (ofM cmp eq h) 1 (h.n : Int) = (h.swap 1 h.n).map (ofM cmp eq) := swap_eq cmp eq h 1 h.n
    rw [i1, ek, ints_get?]
    cases h.heap[1]? with
    | none => simp
    | some i =>
      simp only [Option.map_some, at?_some, Outcome.ok_bind, Int.ofNat_eq_natCast, idx_natCast, uncells_get?]
      rcases h.kvs[i]? with _ | _ | e
      · simp
      · simp
      · simp only [Option.map_some, at?_some, Outcome.ok_bind, s1]
        refine map_leP_bind' (Outcome.le_refl _) fun h1 es => ?_
        have n1 : h1.n = h.n := swap_n es
        have eg : (⟨(ofM cmp eq h1).cmpKey, (ofM cmp eq h1).eqVal, (ofM cmp eq h1).n - 1, (ofM cmp eq h1).heap,
            (ofM cmp eq h1).pos, (ofM cmp eq h1).kvs⟩ : indexedBinary K V) = ofM cmp eq { h1 with n := h1.n - 1 } := by
          simp only [ofM]; congr 1; omega
        rw [eg]
        have hde : (IBinary.demote cmp (h1.n - 1 + 1) { h1 with n := h1.n - 1 } 1).map (ofM cmp eq) ≼
            indexedBinary.demote F (ofM cmp eq { h1 with n := h1.n - 1 }) 1 := by
          have := demote_le cmp eq (h1.n - 1 + 1) (F - (h1.n - 1 + 1)) { h1 with n := h1.n - 1 } 1
          rwa [show h1.n - 1 + 1 + (F - (h1.n - 1 + 1)) = F by omega] at this
        refine map_leP_bind' hde fun h3 _ => ?_
        have hc := clearIndex_eq cmp eq h3 i
        simp only [Outcome.bind_assoc] at hc
        simp only [deref_some, Outcome.ok_bind, Outcome.map_ok, unpair_Key, unpair_Val]
        cases hcl : h3.clearIndex i with
        | ok h4 =>
          rw [hcl] at hc
          revert hc
          cases Go.setIdx (ofM cmp eq h3).pos (i : Int) (-1) with
          | ok p =>
            simp only [Outcome.ok_bind]
            cases Go.setIdx (ofM cmp eq h3).kvs (i : Int) none with
            | ok k => simp only [Outcome.ok_bind, Outcome.map_ok, Outcome.ok.injEq]; intro hc; simp [← hc, ikvOpt]
            | panic => simp
            | diverge => simp
          | panic => simp
          | diverge => simp
        | panic => simp
        | diverge => simp

theorem deleteIndex_nf (cmp : K → K → Int) (h : IBinary K V) (i : Int) :
    h.deleteIndex cmp i =
      (h.containsIndex i >>= fun b =>
        if !b then .ok (h, none) else
          h.posOf i.toNat >>= fun k => at? h.kvs[i.toNat]? >>= fun c => at? c >>= fun e =>
            h.swap k h.n >>= fun h1 =>
              if h1.n = 0 then .panic else
                IBinary.promote cmp (k + 1) { h1 with n := h1.n - 1 } k >>= fun h3 =>
                  IBinary.demote cmp (h3.n + 1) h3 k >>= fun h4 =>
                    h4.clearIndex i.toNat >>= fun h5 => .ok (h5, some e)) := by
  simp only [IBinary.deleteIndex]
  cases h.containsIndex i with
  | ok b =>
    cases b with
    | false => rfl
    | true =>
      simp only [Outcome.ok_bind, Bool.not_true, Bool.false_eq_true, if_false]
      cases h.posOf i.toNat with
      | ok k =>
        simp only [Outcome.ok_bind]
        rcases h.kvs[i.toNat]? with _ | _ | ⟨key, val⟩
        · rfl
        · rfl
        · simp only [at?_some, Outcome.ok_bind]
          cases h.swap k h.n with
          | ok h1 =>
            simp only [Outcome.ok_bind]
            split
            · rfl
            · cases IBinary.promote cmp (k + 1) _ k with
              | ok h3 =>
                simp only [Outcome.ok_bind]
                cases IBinary.demote cmp (h3.n + 1) h3 k with
                | ok h4 =>
                  simp only [Outcome.ok_bind]
                  cases h4.clearIndex i.toNat <;> rfl
                | panic => rfl
                | diverge => rfl
              | panic => rfl
              | diverge => rfl
          | panic => rfl
          | diverge => rfl
      | panic => rfl
      | diverge => rfl
  | panic => rfl
  | diverge => rfl

/-- `DeleteIndex` with any fuel that covers `h.n` and every stored position `+ 1` -/
theorem DeleteIndex_le (cmp : K → K → Int) (eq : V → V → Bool) (h : IBinary K V) (i : Int) (F : Nat)
    (hF : h.n ≤ F) (hp : ∀ (j q : Nat), h.pos[j]? = some (q : Int) → q + 1 ≤ F) :
    (h.deleteIndex cmp i).map (fun r => (ofM cmp eq r.1, r.2)) ≼ₚ
      (indexedBinary.DeleteIndex F (ofM cmp eq h) i).map (fun r => (r.1, kvOpt r.2)) := by
  rw [deleteIndex_nf]
  simp only [indexedBinary.DeleteIndex, ContainsIndex_eq, Outcome.map_bind, Outcome.bind_assoc, Outcome.pure_eq]
  refine bind_leP' fun b hb => ?_
  cases b with
  | false => simp [kvOpt]
  | true =>
    obtain ⟨m, rfl, hm⟩ := containsIndex_true hb
    have ep : (ofM cmp eq h).pos = h.pos := rfl
    have ek : (ofM cmp eq h).kvs = uncells h.kvs := rfl
    have en : (ofM cmp eq h).n = (h.n : Int) := rfl
    simp only [Bool.not_true, Bool.false_eq_true, if_false, Int.toNat_natCast, ep, ek, en, idx_natCast,
      uncells_get?]
    rcases posOf_cases h m with ⟨p, e1, hneg, e2⟩ | ⟨q, e1, e2⟩ | ⟨e1, e2⟩
    · simp [e2]
    · simp only [e2, e1, at?_some, Outcome.ok_bind]
      rcases h.kvs[m]? with _ | _ | e
      · simp
      · simp
      · simp only [Option.map_some, at?_some, Outcome.ok_bind, swap_eq, Outcome.map_bind, Outcome.map_ite,
          Outcome.map_panic]
        refine map_leP_bind' (Outcome.le_refl _) fun h1 es => ?_
        have n1 : h1.n = h.n := swap_n es
        by_cases h0 : h1.n = 0
        · simp [h0]
        · have eg : (⟨(ofM cmp eq h1).cmpKey, (ofM cmp eq h1).eqVal, (ofM cmp eq h1).n - 1, (ofM cmp eq h1).heap,
              (ofM cmp eq h1).pos, (ofM cmp eq h1).kvs⟩ : indexedBinary K V) = ofM cmp eq { h1 with n := h1.n - 1 } := by
            simp only [ofM]; congr 1; omega
          simp only [h0, if_false]
          rw [eg]
          have hq : q + 1 ≤ F := hp m q e1
          have hpr := promote_le cmp eq (q + 1) (F - (q + 1)) { h1 with n := h1.n - 1 } q
          rw [show q + 1 + (F - (q + 1)) = F by omega] at hpr
          refine map_leP_bind' hpr fun h3 e3 => ?_
          have n3 : h3.n = h1.n - 1 := promote_n cmp _ _ _ _ e3
          have hde := demote_le cmp eq (h3.n + 1) (F - (h3.n + 1)) h3 q
          rw [show h3.n + 1 + (F - (h3.n + 1)) = F by omega] at hde
          refine map_leP_bind' hde fun h4 _ => ?_
          have hc := clearIndex_eq cmp eq h4 m
          simp only [Outcome.bind_assoc] at hc
          simp only [deref_some, Outcome.ok_bind, Outcome.map_ok, unpair_Key, unpair_Val]
          cases hcl : h4.clearIndex m with
          | ok h5 =>
            rw [hcl] at hc
            revert hc
            cases Go.setIdx (ofM cmp eq h4).pos (m : Int) (-1) with
            | ok p =>
              simp only [Outcome.ok_bind]
              cases Go.setIdx (ofM cmp eq h4).kvs (m : Int) none with
              | ok k => simp only [Outcome.ok_bind, Outcome.map_ok, Outcome.ok.injEq]; intro hc; simp [← hc, kvOpt]
              | panic => simp
              | diverge => simp
            | panic => simp
            | diverge => simp
          | panic => simp
          | diverge => simp
    · simp [e2]

/-! ### `Peek`, `PeekIndex`, `ContainsKey`, `ContainsValue`, `Size`, `IsEmpty` -/

theorem Peek_eq (cmp : K → K → Int) (eq : V → V → Bool) (h : IBinary K V) :
    (indexedBinary.Peek (ofM cmp eq h)).map ikvOpt = h.peek := by
  have en : (ofM cmp eq h).n = (h.n : Int) := rfl
  have i1 : Go.idx (ofM cmp eq h).heap 1 = at? (ints h.heap)[1]? := idx_natCast (ints h.heap) 1
  have ek : (ofM cmp eq h).kvs = uncells h.kvs := rfl
  simp only [indexedBinary.Peek, IBinary.peek, en, i1, ek, ints_get?]
  by_cases h0 : h.n = 0
  · simp [h0, ikvOpt]
  · have hd : ((h.n : Int) == 0) = false := by simp; omega
    simp only [h0, hd, if_false, Bool.false_eq_true]
    cases h.heap[1]? with
    | none => simp
    | some i =>
      simp only [Option.map_some, at?_some, Outcome.ok_bind, Int.ofNat_eq_natCast, idx_natCast, uncells_get?,
        Outcome.pure_eq, Outcome.bind_assoc]
      rcases h.kvs[i]? with _ | _ | ⟨k, v⟩ <;> simp [ikvOpt, unpair]

theorem PeekIndex_eq (cmp : K → K → Int) (eq : V → V → Bool) (h : IBinary K V) (i : Int) :
    (indexedBinary.PeekIndex (ofM cmp eq h) i).map kvOpt = h.peekIndex i := by
  simp only [indexedBinary.PeekIndex, IBinary.peekIndex, ContainsIndex_eq, Outcome.map_bind, Outcome.bind_assoc,
    Outcome.pure_eq]
  cases hb : h.containsIndex i with
  | ok b =>
    cases b with
    | false => simp [kvOpt]
    | true =>
      obtain ⟨m, rfl, hm⟩ := containsIndex_true hb
      have ek : (ofM cmp eq h).kvs = uncells h.kvs := rfl
      simp only [Outcome.ok_bind, Bool.not_true, Bool.false_eq_true, if_false, ek, idx_natCast, uncells_get?,
        Int.toNat_natCast]
      rcases h.kvs[m]? with _ | _ | ⟨k, v⟩ <;> simp [kvOpt, unpair]
  | panic => simp
  | diverge => simp

/-- what a `for … { if … { return true } }; return false` scan yields -/
def found : Go.Ctl Unit Bool → Bool
  | .ret b => b
  | .next _ => false

theorem ContainsKey_loop (cmp : K → K → Int) (eq : V → V → Bool) (h : IBinary K V) (key : K) : ∀ (k i : Nat),
    i + k = h.kvs.size →
    (indexedBinary.ContainsKey.loop1 (ofM cmp eq h) key k (i : Int)).map found =
      .ok ((h.kvs.toList.drop i).any fun e => match e with | some (k, _) => cmp k key == 0 | none => false) := by
  intro k
  induction k with
  | zero => intro i hi; simp [indexedBinary.ContainsKey.loop1, found, List.drop_eq_nil_of_le, ← hi]
  | succ k ih =>
    intro i hi
    have hlt : i < h.kvs.size := by omega
    have ek : (ofM cmp eq h).kvs = uncells h.kvs := rfl
    have ec : (ofM cmp eq h).cmpKey = cmp := rfl
    have hdrop : h.kvs.toList.drop i = h.kvs[i] :: h.kvs.toList.drop (i + 1) := by
      rw [← Array.getElem_toList (h := by simpa using hlt)]
      exact List.drop_eq_getElem_cons (by simpa using hlt)
    have := ih (i + 1) (by omega)
    rw [show ((i + 1 : Nat) : Int) = (i : Int) + 1 by omega] at this
    simp only [indexedBinary.ContainsKey.loop1, ek, ec, idx_natCast, uncells_get?, Array.getElem?_eq_getElem hlt, hdrop,
      List.any_cons, Option.map_some, at?_some, Outcome.ok_bind, Outcome.bind_assoc, Outcome.pure_eq]
    rcases h.kvs[i] with _ | ⟨k0, v⟩
    · simpa using this
    · by_cases c : cmp k0 key = 0
      · simp [c, found, unpair]
      · have cb : (cmp k0 key == 0) = false := by simpa using c
        simpa [c, cb, unpair] using this

theorem ContainsKey_eq (cmp : K → K → Int) (eq : V → V → Bool) (h : IBinary K V) (key : K) :
    indexedBinary.ContainsKey (ofM cmp eq h) key = .ok (h.containsKey cmp key) := by
  have := ContainsKey_loop cmp eq h key h.kvs.size 0 (by omega)
  have ek : (ofM cmp eq h).kvs.size = h.kvs.size := by simp [ofM]
  simp only [indexedBinary.ContainsKey, IBinary.containsKey, ek]
  revert this
  simp only [Int.natCast_zero, List.drop_zero]
  cases indexedBinary.ContainsKey.loop1 (ofM cmp eq h) key h.kvs.size 0 with
  | ok c =>
    intro e
    cases c <;> simp only [found, Outcome.map_ok, Outcome.ok.injEq] at e <;> simp only [Outcome.ok_bind, Outcome.pure_eq] <;>
      exact congrArg Outcome.ok e
  | panic => simp
  | diverge => simp

theorem ContainsValue_loop (cmp : K → K → Int) (eq : V → V → Bool) (h : IBinary K V) (val : V) : ∀ (k i : Nat),
    i + k = h.kvs.size →
    (indexedBinary.ContainsValue.loop1 (ofM cmp eq h) val k (i : Int)).map found =
      .ok ((h.kvs.toList.drop i).any fun e => match e with | some (_, v) => eq v val | none => false) := by
  intro k
  induction k with
  | zero => intro i hi; simp [indexedBinary.ContainsValue.loop1, found, List.drop_eq_nil_of_le, ← hi]
  | succ k ih =>
    intro i hi
    have hlt : i < h.kvs.size := by omega
    have ek : (ofM cmp eq h).kvs = uncells h.kvs := rfl
    have ec : (ofM cmp eq h).eqVal = eq := rfl
    have hdrop : h.kvs.toList.drop i = h.kvs[i] :: h.kvs.toList.drop (i + 1) := by
      rw [← Array.getElem_toList (h := by simpa using hlt)]
      exact List.drop_eq_getElem_cons (by simpa using hlt)
    have := ih (i + 1) (by omega)
    rw [show ((i + 1 : Nat) : Int) = (i : Int) + 1 by omega] at this
    simp only [indexedBinary.ContainsValue.loop1, ek, ec, idx_natCast, uncells_get?, Array.getElem?_eq_getElem hlt, hdrop,
      List.any_cons, Option.map_some, at?_some, Outcome.ok_bind, Outcome.bind_assoc, Outcome.pure_eq]
    rcases h.kvs[i] with _ | ⟨k0, v⟩
    · simpa using this
    · by_cases c : eq v val = true
      · simp [c, found, unpair]
      · have cb : eq v val = false := by simpa using c
        simpa [c, cb, unpair] using this

theorem ContainsValue_eq (cmp : K → K → Int) (eq : V → V → Bool) (h : IBinary K V) (val : V) :
    indexedBinary.ContainsValue (ofM cmp eq h) val = .ok (h.containsValue eq val) := by
  have := ContainsValue_loop cmp eq h val h.kvs.size 0 (by omega)
  have ek : (ofM cmp eq h).kvs.size = h.kvs.size := by simp [ofM]
  simp only [indexedBinary.ContainsValue, IBinary.containsValue, ek]
  revert this
  simp only [Int.natCast_zero, List.drop_zero]
  cases indexedBinary.ContainsValue.loop1 (ofM cmp eq h) val h.kvs.size 0 with
  | ok c =>
    intro e
    cases c <;> simp only [found, Outcome.map_ok, Outcome.ok.injEq] at e <;> simp only [Outcome.ok_bind, Outcome.pure_eq] <;>
      exact congrArg Outcome.ok e
  | panic => simp
  | diverge => simp

/-! ### `NewIndexedBinary`, `DeleteAll` -/

theorem New_loop : ∀ (k j : Nat) (a : Array Int), j + k = a.size →
    ∃ a', NewIndexedBinary.loop1 (K := K) (V := V) k (j : Int) a = .ok a' ∧ ∃ hs : a'.size = a.size,
      ∀ m (hm : m < a.size), a'[m] = if j ≤ m then (-1 : Int) else a[m] := by
  intro k
  induction k with
  | zero =>
    intro j a h
    refine ⟨a, by simp [NewIndexedBinary.loop1], rfl, fun m hm => ?_⟩
    have : ¬ j ≤ m := by omega
    simp [this]
  | succ k ih =>
    intro j a h
    have hj : j < a.size := by omega
    obtain ⟨a', e, hs, hg⟩ := ih (j + 1) (a.set j (-1)) (by simp; omega)
    refine ⟨a', ?_, by simpa using hs, fun m hm => ?_⟩
    · simp [NewIndexedBinary.loop1, hj]
      simpa using e
    · rw [hg m (by simpa using hm)]
      simp only [Array.getElem_set]
      by_cases hmj : j = m
      · subst hmj; simp
      · have : j + 1 ≤ m ↔ j ≤ m := by omega
        simp [hmj, this]

theorem fill_eq (n : Nat) : ∃ a', NewIndexedBinary.loop1 (K := K) (V := V) n 0 (Array.replicate n 0) = .ok a' ∧
    a' = Array.replicate n (-1) := by
  obtain ⟨a', e, hs, hg⟩ := New_loop (K := K) (V := V) n 0 (Array.replicate n 0) (by simp)
  refine ⟨a', by simpa using e, ?_⟩
  apply Array.ext (by simpa using hs)
  intro m h1 h2
  rw [hg m (by simp at hs; omega)]
  simp

theorem New_eq (cap : Nat) (cmp : K → K → Int) (eq : V → V → Bool) :
    NewIndexedBinary (cap : Int) cmp eq = .ok (ofM cmp eq (IBinary.new cap)) := by
  obtain ⟨a', e, ha⟩ := fill_eq (K := K) (V := V) cap
  subst ha
  have m1 : Go.make (0 : Int) ((cap : Int) + 1) = .ok (Array.replicate (cap + 1) 0) := by
    have := Go.make_nat (0 : Int) (cap + 1); simpa using this
  simp only [NewIndexedBinary, Go.make_nat, Outcome.ok_bind, Array.size_replicate, e, m1, Outcome.pure_eq]
  simp [ofM, IBinary.new, ints, uncells]

theorem New_neg {cap : Int} (h : cap < 0) (cmp : K → K → Int) (eq : V → V → Bool) :
    NewIndexedBinary cap cmp eq = .panic := by
  simp only [NewIndexedBinary, Go.make_neg (0 : Int) h, Outcome.panic_bind]

theorem DeleteAll_loop (cmp : K → K → Int) (eq : V → V → Bool) (n : Int) (hp : Array Int)
    (kv : Array (Option (KeyValue K V))) : ∀ (k j : Nat) (a : Array Int), j + k = a.size →
    ∃ a', indexedBinary.DeleteAll.loop1 k (j : Int) (⟨cmp, eq, n, hp, a, kv⟩ : indexedBinary K V) =
        .ok ⟨cmp, eq, n, hp, a', kv⟩ ∧ ∃ hs : a'.size = a.size,
      ∀ m (hm : m < a.size), a'[m] = if j ≤ m then (-1 : Int) else a[m] := by
  intro k
  induction k with
  | zero =>
    intro j a h
    refine ⟨a, by simp [indexedBinary.DeleteAll.loop1], rfl, fun m hm => ?_⟩
    have : ¬ j ≤ m := by omega
    simp [this]
  | succ k ih =>
    intro j a h
    have hj : j < a.size := by omega
    obtain ⟨a', e, hs, hg⟩ := ih (j + 1) (a.set j (-1)) (by simp; omega)
    refine ⟨a', ?_, by simpa using hs, fun m hm => ?_⟩
    · simp [indexedBinary.DeleteAll.loop1, hj]
      simpa using e
    · rw [hg m (by simpa using hm)]
      simp only [Array.getElem_set]
      by_cases hmj : j = m
      · subst hmj; simp
      · have : j + 1 ≤ m ↔ j ≤ m := by omega
        simp [hmj, this]

theorem DeleteAll_eq (cmp : K → K → Int) (eq : V → V → Bool) (h : IBinary K V) :
    indexedBinary.DeleteAll (ofM cmp eq h) = .ok (ofM cmp eq h.deleteAll) := by
  obtain ⟨a', e, hs, hg⟩ := DeleteAll_loop cmp eq 0 (Array.replicate h.heap.size 0)
    (Array.replicate h.kvs.size (none : Option (KeyValue K V))) h.pos.size 0 (Array.replicate h.pos.size 0) (by simp)
  have ha : a' = Array.replicate h.pos.size (-1) := by
    apply Array.ext (by simpa using hs)
    intro m h1 h2
    rw [hg m (by simp at hs; omega)]
    simp
  subst ha
  simp only [indexedBinary.DeleteAll, ofM, Go.make_nat, Outcome.ok_bind, ints_size, uncells_size, Array.size_replicate,
    Outcome.pure_eq]
  simp only [Int.natCast_zero] at e
  rw [e]
  simp [IBinary.deleteAll, ints, uncells]

/-! ## one call, a whole history -/

/-- the twelve calls of `heap.IndexedHeap` on the generated structure, answered in the Spec's vocabulary (the Go zero
values returned next to `false` are dropped, as in `Res`) -/
def genStep (F : Nat) (g : indexedBinary K V) : Op K V → Outcome (indexedBinary K V × Res K V)
  | .insert i k v => (indexedBinary.Insert F g i k v).map fun r => (r.1, .bool r.2)
  | .changeKey i k => (indexedBinary.ChangeKey F g i k).map fun r => (r.1, .bool r.2)
  | .delete => (indexedBinary.Delete F g).map fun r => (r.1, .ikv (ikvOpt r.2))
  | .deleteIndex i => (indexedBinary.DeleteIndex F g i).map fun r => (r.1, .kv (kvOpt r.2))
  | .deleteAll => (indexedBinary.DeleteAll g).map fun g' => (g', .unit)
  | .peek => (indexedBinary.Peek g).map fun r => (g, .ikv (ikvOpt r))
  | .peekIndex i => (indexedBinary.PeekIndex g i).map fun r => (g, .kv (kvOpt r))
  | .containsIndex i => (indexedBinary.ContainsIndex g i).map fun b => (g, .bool b)
  | .containsKey k => (indexedBinary.ContainsKey g k).map fun b => (g, .bool b)
  | .containsValue v => (indexedBinary.ContainsValue g v).map fun b => (g, .bool b)
  | .size => .ok (g, .int (indexedBinary.Size g))
  | .isEmpty => .ok (g, .bool (indexedBinary.IsEmpty g))

/-- the fuel `F` covers the hand Model's own fuels in state `h`: `n + 2` and every stored position `+ 1` -/
def Covers (F : Nat) (h : IBinary K V) : Prop :=
  h.n + 2 ≤ F ∧ ∀ (j q : Nat), h.pos[j]? = some (q : Int) → q + 1 ≤ F

theorem map_map {α β γ : Type} (x : Outcome α) (f : α → β) (g : β → γ) : (x.map f).map g = x.map (fun a => g (f a)) := by
  cases x <;> rfl

theorem leP_map {α β γ δ : Type} {x : Outcome α} {y : Outcome β} {f : α → γ} {g : β → γ} (p : γ → δ)
    (h : x.map f ≼ₚ y.map g) : x.map (fun a => p (f a)) ≼ₚ y.map (fun b => p (g b)) := by
  cases x <;> cases y <;> simp_all [leP]

theorem leP_map' {α β δ : Type} {x : Outcome α} {y : Outcome β} {f : α → β} (p : β → δ)
    (h : x.map f ≼ₚ y) : x.map (fun a => p (f a)) ≼ₚ y.map p := by
  cases x <;> cases y <;> simp_all [leP]

/-- **one call**: for EVERY state of the hand Model (no invariant), every comparator and every call, the hand Model's
step is `diverge`, `panic`, or exactly the generated definitions' step on the same state -/
theorem step_le (cmp : K → K → Int) (eq : V → V → Bool) (F : Nat) (h : IBinary K V) (hc : Covers F h) (op : Op K V) :
    (IBinary.step cmp eq h op).map (fun r => (ofM cmp eq r.1, r.2)) ≼ₚ genStep F (ofM cmp eq h) op := by
  obtain ⟨hF, hp⟩ := hc
  cases op with
  | insert i k v =>
    obtain ⟨d, rfl⟩ : ∃ d, F = h.n + 2 + d := ⟨F - (h.n + 2), by omega⟩
    have := leP_of_le (Insert_le cmp eq h i k v d)
    simp only [IBinary.step, genStep, map_map]
    exact leP_map' (fun r => (r.1, Res.bool r.2)) this
  | changeKey i k =>
    have := leP_of_le (ChangeKey_le cmp eq h i k F (by omega) hp)
    simp only [IBinary.step, genStep, map_map]
    exact leP_map' (fun r => (r.1, Res.bool r.2)) this
  | delete =>
    have := Delete_le cmp eq h F (by omega)
    simp only [IBinary.step, genStep, map_map]
    exact leP_map (fun r => (r.1, Res.ikv r.2)) this
  | deleteIndex i =>
    have := DeleteIndex_le cmp eq h i F (by omega) hp
    simp only [IBinary.step, genStep, map_map]
    exact leP_map (fun r => (r.1, Res.kv r.2)) this
  | deleteAll => simp [IBinary.step, genStep, DeleteAll_eq]
  | peek =>
    simp only [IBinary.step, genStep, map_map, ← Peek_eq cmp eq h]
    exact leP_refl _
  | peekIndex i =>
    simp only [IBinary.step, genStep, map_map, ← PeekIndex_eq cmp eq h i]
    exact leP_refl _
  | containsIndex i => simp [IBinary.step, genStep, map_map, ContainsIndex_eq]
  | containsKey k => simp [IBinary.step, genStep, ContainsKey_eq]
  | containsValue v => simp [IBinary.step, genStep, ContainsValue_eq]
  | size => simp [IBinary.step, genStep, indexedBinary.Size, ofM]
  | isEmpty =>
    simp only [IBinary.step, genStep, indexedBinary.IsEmpty, ofM, Outcome.map_ok]
    have : ((h.n : Int) == 0) = (h.n == 0) := by
      by_cases h0 : h.n = 0
      · simp [h0]
      · have h1 : ((h.n : Int) == 0) = false := by
          rw [beq_eq_false_iff_ne]; omega
        have h2 : (h.n == 0) = false := by rw [beq_eq_false_iff_ne]; exact h0
        rw [h1, h2]
    rw [this]; exact leP_refl _

/-- a state that satisfies the representation invariant is covered by any fuel `≥ cap + 2` -/
theorem covers_of_inv {cmp : K → K → Int} {cap : Nat} {h : IBinary K V} (inv : IBinary.Inv cmp cap h) (F : Nat)
    (hF : cap + 2 ≤ F) : Covers F h := by
  refine ⟨by have := inv.wf.nle; omega, fun j q e => ?_⟩
  by_cases hj : j < cap
  · rcases inv.wf.bwd j hj with ⟨e1, -⟩ | ⟨k, -, hk, e1, -⟩
    · rw [e1] at e
      have : (-1 : Int) = (q : Int) := by simp at e
      omega
    · rw [e1] at e
      have : (k : Int) = q := by simpa using e
      have := inv.wf.nle
      omega
  · have : h.pos[j]? = none := Array.getElem?_eq_none (by have := inv.wf.psize; omega)
    rw [this] at e; cases e

/-- the trace of a history on the generated structure -/
def genRun (F : Nat) (cmp : K → K → Int) (eq : V → V → Bool) (cap : Nat) (ops : List (Op K V)) :
    List (Outcome (Res K V)) :=
  match NewIndexedBinary (cap : Int) cmp eq with
  | .ok g => runWith (genStep F) g ops
  | .panic => [.panic]
  | .diverge => [.diverge]

theorem runWith_eq (hc : LawfulCmp cmp) (eq : V → V → Bool) {cap : Nat} (F : Nat) (hF : cap + 2 ≤ F) :
    ∀ (ops : List (Op K V)) (h : IBinary K V), IBinary.Inv cmp cap h →
      runWith (genStep F) (ofM cmp eq h) ops = runWith (IBinary.step cmp eq) h ops := by
  intro ops
  induction ops with
  | nil => intro h _; rfl
  | cons op ops ih =>
    intro h inv
    obtain ⟨h', r, hs, inv', -⟩ := IBinary.step_sim hc eq h op inv
    have := (step_le cmp eq F h (covers_of_inv inv F hF) op).ok (a := (ofM cmp eq h', r)) (by simp [hs])
    simp only [runWith, hs, this]
    rw [ih h' inv']

/-- **a whole history**: the generated definitions answer exactly what the hand Model answers -/
theorem genRun_eq (hc : LawfulCmp cmp) (eq : V → V → Bool) (cap : Nat) (F : Nat) (hF : cap + 2 ≤ F)
    (ops : List (Op K V)) : genRun F cmp eq cap ops = IBinary.run cmp eq cap ops := by
  simp only [genRun, New_eq, IBinary.run]
  exact runWith_eq hc eq F hF ops _ (IBinary.inv_new cmp cap)

end AlgoVerif.C05.Gen
