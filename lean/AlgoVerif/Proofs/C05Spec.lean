import AlgoVerif.Model.C05
/-!
# C05 helper lemmas about the Spec (`card`, `Map.set`) and the generic simulation argument
-/
namespace AlgoVerif.C05.Spec
variable {K V : Type}

theorem card_succ (cap : Nat) (m : Map K V) :
    card (cap + 1) m = card cap m + (if (m (cap : Int)).isSome then 1 else 0) := by
  unfold card
  rw [List.range_succ, List.filter_append, List.length_append]
  by_cases h : (m (cap : Int)).isSome <;> simp [h]

theorem card_zero (m : Map K V) : card 0 m = 0 := by simp [card]

theorem card_empty (cap : Nat) : card cap (Map.empty : Map K V) = 0 := by
  induction cap with
  | zero => exact card_zero _
  | succ n ih => rw [card_succ, ih]; simp [Map.empty]

theorem card_le (cap : Nat) (m : Map K V) : card cap m ≤ cap := by
  induction cap with
  | zero => simp [card_zero]
  | succ n ih => rw [card_succ]; split <;> omega

theorem card_set_out (cap : Nat) (m : Map K V) (i : Int) (e : Option (K × V)) (h : ¬ InRange cap i) :
    card cap (m.set i e) = card cap m := by
  induction cap with
  | zero => simp [card_zero]
  | succ n ih =>
    have hn : ¬ InRange n i := by unfold InRange at *; omega
    have hne : ((n : Nat) : Int) ≠ i := by unfold InRange at h; omega
    rw [card_succ, card_succ, ih hn]
    simp [Map.set, hne]

theorem card_set_in (cap : Nat) (m : Map K V) (i : Int) (e : Option (K × V)) (h : InRange cap i) :
    card cap (m.set i e) + (if (m i).isSome then 1 else 0) = card cap m + (if e.isSome then 1 else 0) := by
  induction cap with
  | zero => unfold InRange at h; omega
  | succ n ih =>
    rw [card_succ, card_succ]
    by_cases hi : i = (n : Int)
    · subst hi
      have hn : ¬ InRange n (n : Int) := by unfold InRange; omega
      rw [card_set_out n m _ e hn]
      simp [Map.set]
      omega
    · have hn : InRange n i := by unfold InRange at *; omega
      have := ih hn
      have hne : ((n : Nat) : Int) ≠ i := fun h => hi h.symm
      simp [Map.set, hne]
      omega

theorem card_set_some_new {cap : Nat} {m : Map K V} {i : Int} (e : K × V) (h : InRange cap i)
    (hm : m i = none) : card cap (m.set i (some e)) = card cap m + 1 := by
  have := card_set_in cap m i (some e) h
  simp [hm] at this
  exact this

theorem card_set_some_old {cap : Nat} {m : Map K V} {i : Int} (e e0 : K × V) (h : InRange cap i)
    (hm : m i = some e0) : card cap (m.set i (some e)) = card cap m := by
  have := card_set_in cap m i (some e) h
  simp [hm] at this
  exact this

theorem card_set_none {cap : Nat} {m : Map K V} {i : Int} (e0 : K × V) (h : InRange cap i)
    (hm : m i = some e0) : card cap (m.set i none) + 1 = card cap m := by
  have := card_set_in cap m i none h
  simp [hm] at this
  exact this

theorem card_lt_of_free {cap : Nat} {m : Map K V} {i : Int} (h : InRange cap i) (hm : m i = none) :
    card cap m < cap := by
  induction cap with
  | zero => unfold InRange at h; omega
  | succ n ih =>
    rw [card_succ]
    by_cases hi : i = (n : Int)
    · subst hi
      have := card_le n m
      simp [hm]; omega
    · have hn : InRange n i := by unfold InRange at *; omega
      have := ih hn
      split <;> omega

theorem card_eq_zero {cap : Nat} {m : Map K V} (h : ∀ i, m i = none) : card cap m = 0 := by
  induction cap with
  | zero => exact card_zero _
  | succ n ih => rw [card_succ, ih]; simp [h]

/-- what `Map.set` does, pointwise -/
theorem set_same (m : Map K V) (i : Int) (e : Option (K × V)) : (m.set i e) i = e := by simp [Map.set]
theorem set_other (m : Map K V) {i j : Int} (e : Option (K × V)) (h : j ≠ i) : (m.set i e) j = m j := by
  simp [Map.set, h]

end AlgoVerif.C05.Spec

namespace AlgoVerif.C05
open Spec
variable {K V σ : Type}

/-- the simulation argument shared by the three implementations: an invariant that every step preserves
while answering admissibly yields an admitted trace for every history -/
theorem admitted_of_sim {P : Map K V → K → Prop} {cmp : K → K → Int} {eq : V → V → Bool} {cap : Nat}
    (step : σ → Op K V → Outcome (σ × Res K V)) (Inv : σ → Prop) (abs : σ → Map K V)
    (sim : ∀ s op, Inv s → ∃ s' r, step s op = .ok (s', r) ∧ Inv s' ∧ AdmitG P cmp eq cap (abs s) op r (abs s')) :
    ∀ (ops : List (Op K V)) (s : σ), Inv s → AdmittedG P cmp eq cap (abs s) ops (runWith step s ops) := by
  intro ops
  induction ops with
  | nil => intro s _; exact .nil
  | cons op ops ih =>
    intro s hs
    obtain ⟨s', r, hstep, hinv, hadm⟩ := sim s op hs
    simp only [runWith, hstep]
    exact .cons hadm (ih s' hinv)

theorem exec_of_sim (step : σ → Op K V → Outcome (σ × Res K V)) (Inv : σ → Prop)
    (sim : ∀ s op, Inv s → ∃ s' r, step s op = .ok (s', r) ∧ Inv s') :
    ∀ (ops : List (Op K V)) (s : σ), Inv s → ∃ s', execWith step s ops = .ok s' ∧ Inv s' := by
  intro ops
  induction ops with
  | nil => intro s hs; exact ⟨s, rfl, hs⟩
  | cons op ops ih =>
    intro s hs
    obtain ⟨s', r, hstep, hinv⟩ := sim s op hs
    simp only [execWith, hstep]
    exact ih s' hinv

theorem exec_of_sim_ok (step : σ → Op K V → Outcome (σ × Res K V)) (Inv : σ → Prop)
    (sim : ∀ s op s' r, Inv s → step s op = .ok (s', r) → Inv s') :
    ∀ (ops : List (Op K V)) (s s' : σ), Inv s → execWith step s ops = .ok s' → Inv s' := by
  intro ops
  induction ops with
  | nil => intro s s' hs he; simp only [execWith] at he; cases he; exact hs
  | cons op ops ih =>
    intro s s' hs he
    simp only [execWith] at he
    cases hstep : step s op with
    | ok p =>
      obtain ⟨s1, r⟩ := p
      rw [hstep] at he
      exact ih s1 s' (sim s op s1 r hs hstep) he
    | panic => rw [hstep] at he; cases he
    | diverge => rw [hstep] at he; cases he

/-- the same for the conditional (`_partial`) notion: only steps that return have to be admissible -/
theorem admittedWhileOk_of_sim {P : Map K V → K → Prop} {cmp : K → K → Int} {eq : V → V → Bool} {cap : Nat}
    (step : σ → Op K V → Outcome (σ × Res K V)) (Inv : σ → Prop) (abs : σ → Map K V)
    (sim : ∀ s op s' r, Inv s → step s op = .ok (s', r) → Inv s' ∧ AdmitG P cmp eq cap (abs s) op r (abs s')) :
    ∀ (ops : List (Op K V)) (s : σ), Inv s → AdmittedWhileOk P cmp eq cap (abs s) ops (runWith step s ops) := by
  intro ops
  induction ops with
  | nil => intro s _; exact .nil
  | cons op ops ih =>
    intro s hs
    simp only [runWith]
    cases hstep : step s op with
    | ok p =>
      obtain ⟨s', r⟩ := p
      obtain ⟨hinv, hadm⟩ := sim s op s' r hs hstep
      exact .cons hadm (ih s' hinv)
    | panic => exact .stop (by intro r h; cases h)
    | diverge => exact .stop (by intro r h; cases h)

end AlgoVerif.C05

namespace AlgoVerif.C05.Spec
variable {K V : Type}

/-- an answer admitted without the extremality demand is admitted with it once the key returned by
`Peek`/`Delete` is shown to satisfy it -/
theorem AdmitG.upgrade {P : Map K V → K → Prop} {cmp : K → K → Int} {eq : V → V → Bool} {cap : Nat}
    {m m' : Map K V} {op : Op K V} {r : Res K V} (h : AdmitG (fun _ _ => True) cmp eq cap m op r m')
    (hP : ∀ i k v, r = .ikv (some (i, k, v)) → P m k) : AdmitG P cmp eq cap m op r m' := by
  cases h with
  | insert_ok h1 h2 => exact .insert_ok h1 h2
  | insert_fail h1 => exact .insert_fail h1
  | changeKey_ok h1 h2 => exact .changeKey_ok h1 h2
  | changeKey_fail h1 => exact .changeKey_fail h1
  | delete_some h1 _ => exact .delete_some h1 (hP _ _ _ rfl)
  | delete_none h1 => exact .delete_none h1
  | deleteIndex_some h1 => exact .deleteIndex_some h1
  | deleteIndex_none h1 => exact .deleteIndex_none h1
  | deleteAll => exact .deleteAll
  | peek_some h1 _ => exact .peek_some h1 (hP _ _ _ rfl)
  | peek_none h1 => exact .peek_none h1
  | peekIndex => exact .peekIndex
  | containsIndex => exact .containsIndex
  | containsKey h1 => exact .containsKey h1
  | containsValue h1 => exact .containsValue h1
  | size => exact .size
  | isEmpty h1 => exact .isEmpty h1

end AlgoVerif.C05.Spec
