import AlgoVerif.Model.C07Radix
import AlgoVerif.Proofs.C07Basic
/-!
# C07 — what one key-indexed counting pass computes (statement only)

`countingPass key R rot a aux lo hi` (frequency count, prefix sums, optional sign-byte rotation,
distribution, copy back) rewrites `a[lo .. lo+n)` into the *stable bucket concatenation* of that
segment: for each key value `r` in the bucket order, the elements with key `r` in their original
relative order.  `count` ends up holding the bucket end offsets the MSD recursions read.
The statement lives here so that the proof (`C07Counting.lean`) and its users (LSD / MSD) can be
developed independently; users take `CountingPassSpec` as a hypothesis.
-/
namespace AlgoVerif.C07
open AlgoVerif

/-- the elements of `l` whose key is `r`, in order -/
def bucket {α : Type} (k : α → Nat) (l : List α) (r : Nat) : List α := l.filter (fun x => k x == r)

/-- stable bucket concatenation in the bucket order `ord` -/
def bucketConcat {α : Type} (k : α → Nat) (ord : List Nat) (l : List α) : List α :=
  ord.flatMap (bucket k l)

/-- bucket order of a pass: `0, 1, …, R-1`, or with the sign-byte rotation `R/2, …, R-1, 0, …, R/2-1` -/
def bucketOrder (R : Nat) : Option Bool → List Nat
  | none => List.range R
  | some _ => List.range' (R / 2) (R - R / 2) ++ List.range (R / 2)

/-- the content of `count[r]` (`r ≤ R`) after the pass on the segment `seg` -/
def countAfter {α : Type} (k : α → Nat) (R : Nat) (rot : Option Bool) (seg : List α) (r : Nat) : Int :=
  match rot with
  | none => (seg.countP (fun x => k x ≤ r) : Nat)
  | some setTop =>
    if r < R / 2 then
      ((seg.countP (fun x => R / 2 ≤ k x) + seg.countP (fun x => k x ≤ r) : Nat) : Int)
    else if r < R then
      ((seg.countP (fun x => R / 2 ≤ k x ∧ k x ≤ r) : Nat) : Int)
    else if setTop then
      ((seg.countP (fun x => R / 2 ≤ k x) + seg.countP (fun x => k x = 0) : Nat) : Int)
    else (seg.length : Int)

/-- The specification of `countingPass` on the segment `[lo, lo+n)` (`hi = lo+n-1`, possibly `lo-1`).
`k` is the key as a natural number: on the segment `key x = ok (k x)` with `k x < R`. -/
def CountingPassSpec : Prop :=
  ∀ {α : Type} (key : α → Outcome Int) (k : α → Nat) (R : Nat) (rot : Option Bool)
    (a aux : Array α) (lo n : Nat),
    0 < R → (rot.isSome → R % 2 = 0) →
    (hsz : lo + n ≤ a.size) → n ≤ aux.size →
    (∀ i, lo ≤ i → (h : i < lo + n) → key (a[i]'(by omega)) = .ok ((k (a[i]'(by omega)) : Nat) : Int) ∧ k (a[i]'(by omega)) < R) →
    ∃ a' aux' count',
      countingPass key (R : Int) rot a aux (lo : Int) (((lo + n : Nat) : Int) - 1) = .ok (a', aux', count') ∧
      a'.size = a.size ∧ aux'.size = aux.size ∧ count'.size = R + 1 ∧
      (∀ i, (i < lo ∨ lo + n ≤ i) → a'[i]? = a[i]?) ∧
      (a'.extract lo (lo + n)).toList = bucketConcat k (bucketOrder R rot) (a.extract lo (lo + n)).toList ∧
      (∀ r, r ≤ R → count'[r]? = some (countAfter k R rot (a.extract lo (lo + n)).toList r))

end AlgoVerif.C07
