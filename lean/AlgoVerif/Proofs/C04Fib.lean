import AlgoVerif.Proofs.C04FibTree
import AlgoVerif.Proofs.C04Machine
/-!
# C04, Fibonacci heap: `consolidate` keeps the multiset, heap order and binomial shape, never indexes
`roots` out of range, never follows a stale pointer, terminates within its fuel, and leaves `h.ext` on a
root with an extremal key; refinement of the multiset Spec.
-/
namespace AlgoVerif.C04
variable {K V : Type}
open Tree

abbrev Ring (K V : Type) := List (Nat × Tree K V)
def ids (r : Ring K V) : List Nat := r.map (·.1)
def trees (r : Ring K V) : List (Tree K V) := r.map (·.2)

theorem nodesF_perm {a b : List (Tree K V)} (h : a.Perm b) : (nodesF a).Perm (nodesF b) := by
  induction h with
  | nil => exact .refl _
  | cons x _ ih => simp only [nodesF_cons]; exact List.Perm.append_left _ ih
  | swap x y l => simp only [nodesF_cons]; c04_perm
  | trans _ _ ih1 ih2 => exact ih1.trans ih2

theorem ring_split (r : Ring K V) (i : Nat) (e : Nat × Tree K V) (h : r[i]? = some e) :
    r.Perm (e :: ringFrom r i) := by
  obtain ⟨hi, he⟩ := List.getElem?_eq_some_iff.mp h
  unfold ringFrom
  conv => lhs; rw [← List.take_append_drop i r, List.drop_eq_getElem_cons hi, he]
  c04_perm

theorem filter_ne_perm (L : Ring K V) (hnd : (ids L).Nodup) (a : Nat) (t : Tree K V) (h : (a, t) ∈ L) :
    L.Perm ((a, t) :: L.filter (fun e => e.1 != a)) := by
  induction L with
  | nil => cases h
  | cons e L ih =>
    simp only [ids, List.map_cons, List.nodup_cons] at hnd
    rcases List.mem_cons.mp h with heq | hin
    · subst heq
      have : L.filter (fun e => e.1 != a) = L := by
        rw [List.filter_eq_self]
        intro x hx
        have : x.1 ≠ a := fun hxa => hnd.1 (by
          have := List.mem_map_of_mem (f := fun e : Nat × Tree K V => e.1) hx
          rw [hxa] at this; exact this)
        simpa using this
      simp [this]
    · have hne : e.1 ≠ a := fun hea => hnd.1 (by
        have := List.mem_map_of_mem (f := fun e : Nat × Tree K V => e.1) hin
        rw [hea]; exact this)
      have hf : List.filter (fun e => e.1 != a) (e :: L) = e :: List.filter (fun e => e.1 != a) L := by
        simp [hne]
      rw [hf]
      exact ((List.perm_cons e).mpr (ih hnd.2 hin)).trans (List.Perm.swap _ _ _)

/-- removing the loser `l` and putting the winner `w` first: the ring is the winner, the loser and the rest -/
theorem link_step_perm (r : Ring K V) (hnd : (ids r).Nodup) (pw pl wid lid : Nat) (w l : Tree K V)
    (hw : r[pw]? = some (wid, w)) (hl : r[pl]? = some (lid, l)) (hne : wid ≠ lid) :
    r.Perm ((wid, w) :: (lid, l) :: (ringFrom r pw).filter (fun e => e.1 != lid)) := by
  have h1 := ring_split r pw _ hw
  have hnd1 : (ids ((wid, w) :: ringFrom r pw)).Nodup :=
    (List.Perm.nodup_iff (h1.map (fun e : Nat × Tree K V => e.1))).mp hnd
  simp only [ids, List.map_cons, List.nodup_cons] at hnd1
  have hlmem : (lid, l) ∈ ringFrom r pw := by
    have := (h1.mem_iff).mp (List.mem_of_getElem? hl)
    rcases List.mem_cons.mp this with heq | hin
    · exact absurd (congrArg Prod.fst heq).symm hne
    · exact hin
  exact h1.trans ((List.perm_cons _).mpr (filter_ne_perm _ hnd1.2 lid l hlmem))

/-- invariant of `consolidate`; `B` is the multiset of all nodes -/
structure CInv (cmp : K → K → Int) (B : Bag K V) (st : Cons K V) : Prop where
  nodup : (ids st.ring).Nodup
  ord : ∀ e ∈ st.ring, Ord cmp e.2
  binom : ∀ e ∈ st.ring, Binom e.2
  bag : (nodesF (trees st.ring)).Perm B
  /-- `roots[d]`, when set, is a root of degree `d` that is still in the root list -/
  table : ∀ d id, st.table[d]? = some (some id) → ∃ t, (id, t) ∈ st.ring ∧ t.deg = d
  /-- `h.ext` points into the root list -/
  ext : ∃ e t, st.ext = some e ∧ (e, t) ∈ st.ring
  /-- `len(roots) = maxDegree(n)` is above the degree of any tree that fits into `n` nodes -/
  size : ∀ d, 2 ^ d ≤ B.length → d < st.table.size

theorem CInv.deg_lt {cmp : K → K → Int} {B : Bag K V} {st : Cons K V} (h : CInv cmp B st)
    (e : Nat × Tree K V) (he : e ∈ st.ring) : e.2.deg < st.table.size := by
  apply h.size
  rw [← Binom_size e.2 (h.binom e he), ← h.bag.length_eq]
  obtain ⟨s, t, hst⟩ := List.append_of_mem he
  rw [hst]
  simp only [trees, List.map_append, List.map_cons, nodesF_append, nodesF_cons, List.length_append]
  omega

theorem mem_unique {r : Ring K V} (hnd : (ids r).Nodup) {a : Nat} {t t' : Tree K V}
    (h : (a, t) ∈ r) (h' : (a, t') ∈ r) : t = t' := by
  induction r with
  | nil => cases h
  | cons e r ih =>
    simp only [ids, List.map_cons, List.nodup_cons] at hnd
    have hid : ∀ {t0 : Tree K V}, (a, t0) ∈ r → a ∈ List.map (fun x : Nat × Tree K V => x.1) r :=
      fun h0 => List.mem_map_of_mem (f := fun x : Nat × Tree K V => x.1) h0
    rcases List.mem_cons.mp h with heq | hin
    · rcases List.mem_cons.mp h' with heq' | hin'
      · rw [← heq] at heq'; exact ((Prod.mk.injEq _ _ _ _).mp heq').2.symm
      · exact absurd (hid hin') (by rw [← heq] at hnd; exact hnd.1)
    · rcases List.mem_cons.mp h' with heq' | hin'
      · exact absurd (hid hin) (by rw [← heq'] at hnd; exact hnd.1)
      · exact ih hnd.2 hin hin'


theorem ids_ne_of_pos_ne {r : Ring K V} (hnd : (ids r).Nodup) {i j : Nat} {a b : Nat × Tree K V}
    (ha : r[i]? = some a) (hb : r[j]? = some b) (hij : i ≠ j) : a.1 ≠ b.1 := by
  obtain ⟨hi, hai⟩ := List.getElem?_eq_some_iff.mp ha
  obtain ⟨hj, hbj⟩ := List.getElem?_eq_some_iff.mp hb
  have hpw := List.pairwise_iff_getElem.mp hnd
  have li : i < (ids r).length := by simpa [ids] using hi
  have lj : j < (ids r).length := by simpa [ids] using hj
  have ei : (ids r)[i] = a.1 := by simp [ids, hai]
  have ej : (ids r)[j] = b.1 := by simp [ids, hbj]
  rcases Nat.lt_or_gt_of_ne hij with h | h
  · have := hpw i j li lj h; rw [ei, ej] at this; exact this
  · have := hpw j i lj li h; rw [ei, ej] at this; exact fun e => this e.symm

theorem CInv_link {cmp : K → K → Int} {B : Bag K V} {st : Cons K V} (hinv : CInv cmp B st)
    (pw pl wid lid : Nat) (w l : Tree K V)
    (hw : st.ring[pw]? = some (wid, w)) (hl : st.ring[pl]? = some (lid, l)) (hne : wid ≠ lid)
    (hdeg : l.deg = w.deg) (hcmp : cmp w.key l.key ≤ 0) (dd : Nat) (hdd : dd = w.deg) :
    CInv cmp B { ring := (wid, link l w) :: (ringFrom st.ring pw).filter (fun e => e.1 != lid),
                 table := st.table.setIfInBounds dd none,
                 ext := cutHead st.ring st.ext pl lid } := by
  have hp := link_step_perm st.ring hinv.nodup pw pl wid lid w l hw hl hne
  generalize hoth : (ringFrom st.ring pw).filter (fun e => e.1 != lid) = others at hp ⊢
  have hwmem : (wid, w) ∈ st.ring := List.mem_of_getElem? hw
  have hlmem : (lid, l) ∈ st.ring := List.mem_of_getElem? hl
  have hnd2 : (ids ((wid, w) :: (lid, l) :: others)).Nodup :=
    (List.Perm.nodup_iff (hp.map (fun e : Nat × Tree K V => e.1))).mp hinv.nodup
  simp only [ids, List.map_cons, List.nodup_cons, List.mem_cons, not_or] at hnd2
  have hsub : ∀ e ∈ others, e ∈ st.ring := fun e he =>
    hp.mem_iff.mpr (List.mem_cons_of_mem _ (List.mem_cons_of_mem _ he))
  -- a root other than the loser is still there (the winner with its new child)
  have hkeep : ∀ a t, (a, t) ∈ st.ring → a ≠ lid → ∃ t', (a, t') ∈ (wid, link l w) :: others := by
    intro a t hat hal
    rcases List.mem_cons.mp (hp.mem_iff.mp hat) with heq | hin
    · exact ⟨link l w, by rw [(Prod.mk.injEq _ _ _ _).mp heq |>.1]; exact List.mem_cons_self⟩
    · rcases List.mem_cons.mp hin with heq | hin
      · exact absurd ((Prod.mk.injEq _ _ _ _).mp heq).1 hal
      · exact ⟨t, List.mem_cons_of_mem _ hin⟩
  refine ⟨?_, ?_, ?_, ?_, ?_, ?_, ?_⟩
  · simp only [ids, List.map_cons, List.nodup_cons]
    exact ⟨hnd2.1.2, hnd2.2.2⟩
  · intro e he
    rcases List.mem_cons.mp he with rfl | he
    · exact Ord_link l w (hinv.ord _ hlmem) (hinv.ord _ hwmem) hcmp
    · exact hinv.ord e (hsub e he)
  · intro e he
    rcases List.mem_cons.mp he with rfl | he
    · exact Binom_link l w (hinv.binom _ hlmem) (hinv.binom _ hwmem) hdeg
    · exact hinv.binom e (hsub e he)
  · refine List.Perm.trans ?_ hinv.bag
    refine List.Perm.trans ?_ (nodesF_perm (hp.map (fun e : Nat × Tree K V => e.2))).symm
    simp only [trees, List.map_cons, nodesF_cons]
    exact (List.Perm.append_right _ (nodes_link l w)).trans (by c04_perm)
  · intro d id hd
    simp only [Array.getElem?_setIfInBounds] at hd
    by_cases hdd' : dd = d
    · rw [if_pos hdd'] at hd
      split at hd <;> simp at hd
    · rw [if_neg hdd'] at hd
      obtain ⟨t, ht, htd⟩ := hinv.table d id hd
      rcases List.mem_cons.mp (hp.mem_iff.mp ht) with heq | hin
      · have : t = w := ((Prod.mk.injEq _ _ _ _).mp heq).2
        exact absurd (by rw [← htd, this, hdd]) hdd'
      · rcases List.mem_cons.mp hin with heq | hin
        · have : t = l := ((Prod.mk.injEq _ _ _ _).mp heq).2
          exact absurd (by rw [← htd, this, hdd, hdeg]) hdd'
        · exact ⟨t, List.mem_cons_of_mem _ hin, htd⟩
  · obtain ⟨e0, t0, he0, hmem0⟩ := hinv.ext
    have hlen : 2 ≤ st.ring.length := by rw [hp.length_eq]; simp
    unfold cutHead
    rw [if_neg (by omega)]
    by_cases hel : st.ext = some lid
    · rw [if_pos hel]
      unfold ringNext
      have hpos : (pl + 1) % st.ring.length < st.ring.length := Nat.mod_lt _ (by omega)
      obtain ⟨e1, he1⟩ : ∃ e1, st.ring[(pl + 1) % st.ring.length]? = some e1 :=
        ⟨_, List.getElem?_eq_getElem hpos⟩
      have hpl : pl < st.ring.length := (List.getElem?_eq_some_iff.mp hl).1
      have hneq : (pl + 1) % st.ring.length ≠ pl := by
        intro h
        by_cases hlast : pl + 1 = st.ring.length
        · rw [hlast, Nat.mod_self] at h; omega
        · rw [Nat.mod_eq_of_lt (by omega)] at h; omega
      have hid : e1.1 ≠ lid := ids_ne_of_pos_ne hinv.nodup he1 hl hneq
      obtain ⟨t', ht'⟩ := hkeep e1.1 e1.2 (List.mem_of_getElem? he1) hid
      exact ⟨e1.1, t', by simp [he1], ht'⟩
    · rw [if_neg hel]
      have : e0 ≠ lid := fun h => hel (by rw [he0, h])
      obtain ⟨t', ht'⟩ := hkeep e0 t0 hmem0 this
      exact ⟨e0, t', he0, ht'⟩
  · intro d hd
    simp only [Array.size_setIfInBounds]
    exact hinv.size d hd


/-- the inner loop of `consolidate`: no out-of-range index, no stale pointer, enough fuel; on return
`roots[x.degree]` is nil or `x` itself -/
theorem inner_spec {cmp : K → K → Int} (hc : LawfulCmp cmp) (B : Bag K V) :
    ∀ (fuel : Nat) (st : Cons K V) (i : Nat), st.ring.length + 1 ≤ fuel → CInv cmp B st → i < st.ring.length →
      ∃ st' i', Cons.inner cmp fuel st i = .ok (st', i') ∧ CInv cmp B st' ∧ i' < st'.ring.length ∧
        st'.table.size = st.table.size ∧
        (∃ xid x, st'.ring[i']? = some (xid, x) ∧
          (st'.table[x.deg]? = some none ∨ st'.table[x.deg]? = some (some xid))) ∧
        ((st' = st ∧ i' = i) ∨ (i' = 0 ∧ st'.ring.length < st.ring.length)) := by
  intro fuel
  induction fuel with
  | zero => intro st i h; omega
  | succ fuel ih =>
    intro st i hfuel hinv hi
    obtain ⟨⟨xid, x⟩, hx⟩ : ∃ e, st.ring[i]? = some e := ⟨_, List.getElem?_eq_getElem hi⟩
    have hxmem : (xid, x) ∈ st.ring := List.mem_of_getElem? hx
    have hdlt : x.deg < st.table.size := hinv.deg_lt (xid, x) hxmem
    obtain ⟨c, hcell⟩ : ∃ c, st.table[x.deg]? = some c := ⟨_, Array.getElem?_eq_getElem hdlt⟩
    unfold Cons.inner
    simp only [hx, hcell]
    cases c with
    | none => exact ⟨st, i, rfl, hinv, hi, rfl, ⟨xid, x, hx, Or.inl hcell⟩, Or.inl ⟨rfl, rfl⟩⟩
    | some yid =>
      by_cases hyx : yid = xid
      · simp only [hyx, if_true]
        exact ⟨st, i, rfl, hinv, hi, rfl, ⟨xid, x, hx, Or.inr (by rw [hcell, hyx])⟩, Or.inl ⟨rfl, rfl⟩⟩
      · simp only [hyx, if_false]
        obtain ⟨y, hymem, hydeg⟩ := hinv.table x.deg yid hcell
        cases hfind : st.ring.findIdx? (fun e => e.1 == yid) with
        | none =>
          have := List.findIdx?_eq_none_iff.mp hfind (yid, y) hymem
          simp at this
        | some j =>
          obtain ⟨hj, hpj, _⟩ := List.findIdx?_eq_some_iff_getElem.mp hfind
          have hyj : st.ring[j]? = some (yid, y) := by
            rw [List.getElem?_eq_getElem hj]
            have h1 : (st.ring[j]).1 = yid := by simpa using hpj
            have hmem : ((st.ring[j]).1, (st.ring[j]).2) ∈ st.ring := List.getElem_mem hj
            rw [h1] at hmem
            have := mem_unique hinv.nodup hmem hymem
            congr 1
            exact Prod.ext h1 this
          simp only [hyj]
          have hlen : ∀ (pw pl wid lid : Nat) (w l : Tree K V), st.ring[pw]? = some (wid, w) →
              st.ring[pl]? = some (lid, l) → wid ≠ lid →
              ((wid, link l w) :: (ringFrom st.ring pw).filter (fun e => e.1 != lid)).length + 1 = st.ring.length := by
            intro pw pl wid lid w l h1 h2 h3
            have := (link_step_perm st.ring hinv.nodup pw pl wid lid w l h1 h2 h3).length_eq
            simp only [List.length_cons] at this ⊢
            omega
          by_cases hgt : cmp x.key y.key > 0
          · -- x becomes a child of y
            simp only [hgt, if_true]
            have hle : cmp y.key x.key ≤ 0 := hc.sign _ _ (by omega)
            have hinv1 := CInv_link hinv j i yid xid y x hyj hx hyx hydeg.symm hle x.deg hydeg.symm
            have hl1 := hlen j i yid xid y x hyj hx hyx
            obtain ⟨st', i', hrun, hinv', hi', hsz, hexit, hpos⟩ := ih _ 0 (by simp only []; omega) hinv1
              (by simp only [List.length_cons]; omega)
            refine ⟨st', i', hrun, hinv', hi', by simpa using hsz, hexit, Or.inr ?_⟩
            rcases hpos with ⟨h1, h2⟩ | ⟨h1, h2⟩
            · subst h1; exact ⟨h2, by simp only []; omega⟩
            · exact ⟨h1, by simp only [] at h2; omega⟩
          · -- y becomes a child of x
            simp only [hgt, if_false]
            have hle : cmp x.key y.key ≤ 0 := by omega
            have hxy : xid ≠ yid := fun h => hyx h.symm
            have hinv1 := CInv_link hinv i j xid yid x y hx hyj hxy hydeg hle x.deg rfl
            have hl1 := hlen i j xid yid x y hx hyj hxy
            obtain ⟨st', i', hrun, hinv', hi', hsz, hexit, hpos⟩ := ih _ 0 (by simp only []; omega) hinv1
              (by simp only [List.length_cons]; omega)
            refine ⟨st', i', hrun, hinv', hi', by simpa using hsz, hexit, Or.inr ?_⟩
            rcases hpos with ⟨h1, h2⟩ | ⟨h1, h2⟩
            · subst h1; exact ⟨h2, by simp only []; omega⟩
            · exact ⟨h1, by simp only [] at h2; omega⟩


/-- the root at position `j` is recorded in `roots` under its degree -/
def Registered (st : Cons K V) (j : Nat) : Prop :=
  ∃ id t, st.ring[j]? = some (id, t) ∧ st.table[t.deg]? = some (some id)

/-- the outer loop of `consolidate` returns within `(number of roots + 1)²` iterations, and then every root is
recorded in `roots` -/
theorem outer_spec {cmp : K → K → Int} (hc : LawfulCmp cmp) (B : Bag K V) (M : Nat) :
    ∀ (fuel : Nat) (st : Cons K V) (i : Nat), CInv cmp B st → i < st.ring.length →
      (∀ j, j < i → Registered st j) → st.ring.length ≤ M →
      st.ring.length * (M + 1) + (st.ring.length - i) ≤ fuel →
      ∃ st', Cons.outer cmp fuel st i = .ok st' ∧ CInv cmp B st' ∧ (∀ j, j < st'.ring.length → Registered st' j) := by
  intro fuel
  induction fuel with
  | zero =>
    intro st i _ hi _ _ hf
    have : 1 ≤ st.ring.length * (M + 1) := Nat.mul_pos (by omega) (by omega)
    omega
  | succ fuel ih =>
    intro st i hinv hi hreg hM hfuel
    obtain ⟨st1, i1, hrun, hinv1, hi1, hsz1, ⟨xid, x, hx, hexit⟩, hpos⟩ :=
      inner_spec hc B (st.ring.length + 1) st i (Nat.le_refl _) hinv hi
    unfold Cons.outer
    rw [hrun, obind_ok]
    simp only [hx]
    have hxmem : (xid, x) ∈ st1.ring := List.mem_of_getElem? hx
    have hdlt : x.deg < st1.table.size := hinv1.deg_lt (xid, x) hxmem
    rw [if_pos hdlt]
    -- the state after `roots[x.degree] = x`
    have hinv2 : CInv cmp B { st1 with table := st1.table.setIfInBounds x.deg (some xid) } := by
      refine ⟨hinv1.nodup, hinv1.ord, hinv1.binom, hinv1.bag, ?_, hinv1.ext, ?_⟩
      · intro d id hd
        simp only [Array.getElem?_setIfInBounds] at hd
        by_cases hdd : x.deg = d
        · rw [if_pos hdd, if_pos hdlt] at hd
          have : id = xid := by simpa using hd.symm
          exact ⟨x, this ▸ hxmem, hdd⟩
        · rw [if_neg hdd] at hd
          exact hinv1.table d id hd
      · intro d hd; simp only [Array.size_setIfInBounds]; exact hinv1.size d hd
    have hreg2 : ∀ j, j < i1 + 1 → Registered { st1 with table := st1.table.setIfInBounds x.deg (some xid) } j := by
      intro j hj
      by_cases hji : j = i1
      · subst hji
        exact ⟨xid, x, hx, by simp [hdlt]⟩
      · rcases hpos with ⟨h1, h2⟩ | ⟨h1, _⟩
        · subst h1; subst h2
          obtain ⟨id, t, hjt, htab⟩ := hreg j (by omega)
          refine ⟨id, t, hjt, ?_⟩
          simp only [Array.getElem?_setIfInBounds]
          by_cases hdd : x.deg = t.deg
          · exfalso
            rw [← hdd] at htab
            rcases hexit with h | h
            · rw [h] at htab; simp at htab
            · rw [h] at htab
              have : xid = id := by simpa using htab
              exact ids_ne_of_pos_ne hinv.nodup hjt hx hji (by simp [this])
          · rw [if_neg hdd]; exact htab
        · omega
    by_cases hnext : i1 + 1 < st1.ring.length
    · simp only [hnext, if_true]
      have hlen1 : st1.ring.length ≤ st.ring.length := by
        rcases hpos with ⟨h1, _⟩ | ⟨_, h2⟩
        · rw [h1]; exact Nat.le_refl _
        · omega
      apply ih _ (i1 + 1) hinv2 hnext hreg2 (by simp only []; omega)
      simp only []
      rcases hpos with ⟨h1, h2⟩ | ⟨h1, h2⟩
      · subst h1; subst h2; omega
      · have hm : (st1.ring.length + 1) * (M + 1) ≤ st.ring.length * (M + 1) := Nat.mul_le_mul_right _ (by omega)
        rw [Nat.add_mul] at hm
        omega
    · simp only [hnext, if_false]
      exact ⟨_, rfl, hinv2, fun j hj => hreg2 j (by simp only [] at hj; omega)⟩


/-! ### the final `pickExt` loop and the assembled `consolidate` -/

theorem lookup_of_mem {r : Ring K V} (hnd : (ids r).Nodup) {a : Nat} {t : Tree K V} (h : (a, t) ∈ r) :
    lookup r a = some t := by
  unfold lookup
  cases hf : r.find? (fun e => e.1 == a) with
  | none =>
    have := List.find?_eq_none.mp hf (a, t) h
    simp at this
  | some e =>
    have hmem := List.mem_of_find?_eq_some hf
    have hp : e.1 = a := by simpa using List.find?_some hf
    have : (a, e.2) ∈ r := by rw [← hp]; exact hmem
    simp [mem_unique hnd this h]

theorem pickLoop_spec {cmp : K → K → Int} (hc : LawfulCmp cmp) (r : Ring K V) (hnd : (ids r).Nodup) :
    ∀ (l : List (Option Nat)) (ext : Option Nat), (∀ id, some id ∈ l → ∃ t, (id, t) ∈ r) →
      (∃ a ta, ext = some a ∧ (a, ta) ∈ r) →
      ∃ e te, pickLoop cmp r l ext = .ok (some e) ∧ (e, te) ∈ r ∧
        (∀ a ta, ext = some a → (a, ta) ∈ r → cmp te.key ta.key ≤ 0) ∧
        (∀ id t, some id ∈ l → (id, t) ∈ r → cmp te.key t.key ≤ 0) := by
  intro l
  induction l with
  | nil =>
    rintro ext _ ⟨a, ta, rfl, hta⟩
    refine ⟨a, ta, rfl, hta, ?_, by intro id t h; cases h⟩
    intro a' ta' h1 h2
    cases h1
    rw [mem_unique hnd h2 hta]; exact hc.refl _
  | cons c rs ih =>
    intro ext hl hext
    cases c with
    | none =>
      obtain ⟨e, te, hrun, hmem, h1, h2⟩ := ih ext (fun id h => hl id (List.mem_cons_of_mem _ h)) hext
      refine ⟨e, te, by simpa [pickLoop] using hrun, hmem, h1, ?_⟩
      intro id t hid ht
      rcases List.mem_cons.mp hid with h | h
      · cases h
      · exact h2 id t h ht
    | some rid =>
      obtain ⟨a, ta, rfl, hta⟩ := hext
      obtain ⟨tr, htr⟩ := hl rid List.mem_cons_self
      have hpick : pickExtId cmp r (some a) rid = .ok (some (if cmp ta.key tr.key ≤ 0 then a else rid)) := by
        simp [pickExtId, lookup_of_mem hnd hta, lookup_of_mem hnd htr]
      obtain ⟨e, te, hrun, hmem, h1, h2⟩ := ih (some (if cmp ta.key tr.key ≤ 0 then a else rid))
        (fun id h => hl id (List.mem_cons_of_mem _ h))
        (by
          by_cases hle : cmp ta.key tr.key ≤ 0
          · exact ⟨a, ta, by rw [if_pos hle], hta⟩
          · exact ⟨rid, tr, by rw [if_neg hle], htr⟩)
      refine ⟨e, te, by simp only [pickLoop, hpick, obind_ok]; exact hrun, hmem, ?_, ?_⟩
      · intro a' ta' ha' hta'
        cases ha'
        rw [mem_unique hnd hta' hta]
        by_cases hle : cmp ta.key tr.key ≤ 0
        · exact h1 a ta (by rw [if_pos hle]) hta
        · have := h1 rid tr (by rw [if_neg hle]) htr
          exact hc.trans _ _ _ this (hc.sign _ _ (by omega))
      · intro id t hid ht
        rcases List.mem_cons.mp hid with h | h
        · cases h
          rw [mem_unique hnd ht htr]
          by_cases hle : cmp ta.key tr.key ≤ 0
          · exact hc.trans _ _ _ (h1 a ta (by rw [if_pos hle]) hta) hle
          · exact h1 rid tr (by rw [if_neg hle]) htr
        · exact h2 id t h ht

/-- the first root has an extremal key among the roots -/
def HeadMin (cmp : K → K → Int) (l : List (Tree K V)) : Prop :=
  ∀ e rest, l = e :: rest → ∀ t ∈ l, cmp e.key t.key ≤ 0

theorem zipIdx_ids (l : List (Tree K V)) : ids (l.zipIdx.map fun p => (p.2, p.1)) = List.range l.length := by
  apply List.ext_getElem?
  intro i
  simp only [ids, List.getElem?_map, List.getElem?_zipIdx]
  by_cases hi : i < l.length
  · rw [List.getElem?_range hi, List.getElem?_eq_getElem hi]; simp
  · rw [List.getElem?_eq_none (by omega), List.getElem?_eq_none (by simpa using hi)]; rfl

theorem zipIdx_trees (l : List (Tree K V)) : trees (l.zipIdx.map fun p => (p.2, p.1)) = l := by
  apply List.ext_getElem?
  intro i
  simp only [trees, List.getElem?_map, List.getElem?_zipIdx]
  cases l[i]? <;> rfl

theorem consolidate_spec {cmp : K → K → Int} (hc : LawfulCmp cmp) (roots : List (Tree K V)) (hne : roots ≠ [])
    (hord : OrdAll cmp roots) (hbin : ∀ t ∈ roots, Binom t) (n : Int) (hn : n = ((nodesF roots).length : Int)) :
    ∃ roots', Fib.consolidate cmp n roots = .ok roots' ∧ (nodesF roots').Perm (nodesF roots) ∧
      OrdAll cmp roots' ∧ (∀ t ∈ roots', Binom t) ∧ HeadMin cmp roots' ∧ roots' ≠ [] := by
  obtain ⟨r0, rest0, hroots⟩ : ∃ r0 rest0, roots = r0 :: rest0 := by
    cases roots with
    | nil => exact absurd rfl hne
    | cons a b => exact ⟨a, b, rfl⟩
  have hNpos : 1 ≤ (nodesF roots).length := by
    rw [hroots, nodesF_cons, nodes_eq]; simp
  unfold Fib.consolidate maxDegree
  rw [if_neg (by omega), obind_ok]
  simp only []
  have hN : n.toNat = (nodesF roots).length := by omega
  -- the initial state
  have hinv0 : CInv cmp (nodesF roots)
      { ring := roots.zipIdx.map fun p => (p.2, p.1),
        table := Array.replicate (floorLogPhi n.toNat + 1) none, ext := some 0 } := by
    refine ⟨?_, ?_, ?_, ?_, ?_, ?_, ?_⟩
    · simp only [zipIdx_ids]; exact List.nodup_range
    · intro e he
      have : e.2 ∈ trees (roots.zipIdx.map fun p => (p.2, p.1)) := List.mem_map_of_mem (f := (·.2)) he
      rw [zipIdx_trees] at this
      exact hord _ this
    · intro e he
      have : e.2 ∈ trees (roots.zipIdx.map fun p => (p.2, p.1)) := List.mem_map_of_mem (f := (·.2)) he
      rw [zipIdx_trees] at this
      exact hbin _ this
    · simp only [zipIdx_trees]; exact List.Perm.refl _
    · intro d id hd
      simp only [Array.getElem?_replicate] at hd
      split at hd <;> simp at hd
    · refine ⟨0, r0, rfl, ?_⟩
      apply List.mem_iff_getElem?.mpr
      exact ⟨0, by simp [hroots]⟩
    · intro d hd
      simp only [Array.size_replicate, hN]
      exact deg_lt_maxDegree _ d hd
  have hlen0 : (roots.zipIdx.map fun p => (p.2, p.1)).length = roots.length := by simp
  obtain ⟨st, hrun, hinv, hreg⟩ := outer_spec hc (nodesF roots) roots.length
    ((roots.length + 1) * (roots.length + 1)) _ 0 hinv0
    (by simp only [hlen0]; rw [hroots]; simp) (by intro j hj; omega) (by simp only [hlen0]; exact Nat.le_refl _)
    (by simp only [hlen0]; rw [Nat.succ_mul]; omega)
  rw [hrun, obind_ok]
  obtain ⟨e, te, hpick, hemem, _, hmin⟩ := pickLoop_spec hc st.ring hinv.nodup st.table.toList st.ext
    (by
      intro id hid
      obtain ⟨d, hd⟩ := List.mem_iff_getElem?.mp hid
      rw [Array.getElem?_toList] at hd
      obtain ⟨t, ht, _⟩ := hinv.table d id hd
      exact ⟨t, ht⟩)
    hinv.ext
  rw [hpick, obind_ok]
  -- every root is registered, hence e is extremal among all roots
  have hmin' : ∀ id t, (id, t) ∈ st.ring → cmp te.key t.key ≤ 0 := by
    intro id t ht
    obtain ⟨j, hj⟩ := List.mem_iff_getElem?.mp ht
    obtain ⟨id', t', hj', htab⟩ := hreg j (List.getElem?_eq_some_iff.mp hj).1
    rw [hj] at hj'
    have h1 : id = id' := ((Prod.mk.injEq _ _ _ _).mp (Option.some.inj hj')).1
    have h2 : t = t' := ((Prod.mk.injEq _ _ _ _).mp (Option.some.inj hj')).2
    apply hmin id t _ ht
    apply List.mem_iff_getElem?.mpr
    exact ⟨t.deg, by rw [Array.getElem?_toList, h1, h2]; exact htab⟩
  -- read the root list from e
  unfold ringToRoots
  simp only []
  cases hfind : st.ring.findIdx? (fun x => x.1 == e) with
  | none =>
    have := List.findIdx?_eq_none_iff.mp hfind (e, te) hemem
    simp at this
  | some p =>
    dsimp only
    obtain ⟨hp, hpp, _⟩ := List.findIdx?_eq_some_iff_getElem.mp hfind
    have hpe : st.ring[p] = (e, te) := by
      have h1 : (st.ring[p]).1 = e := by simpa using hpp
      have hmem : ((st.ring[p]).1, (st.ring[p]).2) ∈ st.ring := List.getElem_mem hp
      rw [h1] at hmem
      exact Prod.ext h1 (mem_unique hinv.nodup hmem hemem)
    have hrot : (st.ring.drop p ++ st.ring.take p).Perm st.ring := by
      conv => rhs; rw [← List.take_append_drop p st.ring]
      exact List.perm_append_comm
    have hmemrot : ∀ t ∈ List.map (·.2) (st.ring.drop p ++ st.ring.take p), ∃ id, (id, t) ∈ st.ring := by
      intro t ht
      obtain ⟨x, hx, hxt⟩ := List.mem_map.mp ht
      exact ⟨x.1, by rw [← hxt]; exact hrot.mem_iff.mp hx⟩
    refine ⟨_, rfl, ?_, ?_, ?_, ?_, ?_⟩
    · exact (nodesF_perm (hrot.map (fun x : Nat × Tree K V => x.2))).trans hinv.bag
    · intro t ht
      obtain ⟨id, hid⟩ := hmemrot t ht
      exact hinv.ord _ hid
    · intro t ht
      obtain ⟨id, hid⟩ := hmemrot t ht
      exact hinv.binom _ hid
    · intro e0 rest0 heq t ht
      rw [List.drop_eq_getElem_cons hp, hpe] at heq
      simp only [List.cons_append, List.map_cons, List.cons.injEq] at heq
      rw [← heq.1]
      obtain ⟨id, hid⟩ := hmemrot t ht
      exact hmin' id t hid
    · rw [List.drop_eq_getElem_cons hp]; simp only [List.cons_append, List.map_cons]; exact List.cons_ne_nil _ _


/-! ### the invariant of the Fibonacci heap, the abstraction function, the refinement -/

structure FInv (cmp : K → K → Int) (h : Fib K V) : Prop where
  ord : OrdAll cmp h.roots
  binom : ∀ t ∈ h.roots, Binom t
  n : h.n = ((nodesF h.roots).length : Int)
  /-- `h.ext` (the first root) has an extremal key among the roots -/
  headMin : HeadMin cmp h.roots

def Fib.abs (h : Fib K V) : Bag K V := nodesF h.roots

theorem meld_perm (a b : List (Tree K V)) : (meld a b).Perm (a ++ b) := by
  unfold meld
  split
  · simp
  · simp
  · c04_perm

theorem Fib.step_spec {cmp : K → K → Int} (hc : LawfulCmp cmp) (eqV : V → V → Bool) (h : Fib K V)
    (hinv : FInv cmp h) (op : Op K V) :
    ∃ h' out, Fib.step cmp eqV h op = .ok (h', out) ∧ FInv cmp h' ∧ Step cmp eqV h.abs op out h'.abs := by
  obtain ⟨hord, hbin, hn, hmin⟩ := hinv
  cases op with
  | insert k v =>
    refine ⟨h.insert cmp k v, .unit, rfl, ?_, ?_⟩
    · unfold Fib.insert
      cases hr : h.roots with
      | nil =>
        refine ⟨OrdAll_cons.mpr ⟨Ord_leaf cmp k v, OrdAll_nil cmp⟩, ?_, ?_, ?_⟩
        · intro t ht; simp at ht; subst ht; exact Binom_leaf k v
        · simp [hn, hr, nodes_leaf]
        · intro e rest heq t ht
          simp at ht heq; rw [ht, ← heq.1]; exact hc.refl _
      | cons e rest =>
        rw [hr] at hord hbin hn hmin
        have hmin' := hmin e rest rfl
        by_cases hle : cmp e.key k ≤ 0
        · simp only [hle, if_true]
          refine ⟨OrdAll_append.mpr ⟨hord, OrdAll_cons.mpr ⟨Ord_leaf cmp k v, OrdAll_nil cmp⟩⟩, ?_, ?_, ?_⟩
          · intro t ht
            rcases List.mem_append.mp ht with ht | ht
            · exact hbin t ht
            · simp at ht; subst ht; exact Binom_leaf k v
          · simp only [hn, nodesF_append, nodesF_cons, nodesF_nil, nodes_leaf, List.length_append]
            simp
          · intro e0 rest0 heq t ht
            simp only [List.cons_append, List.cons.injEq] at heq
            rw [← heq.1]
            rcases List.mem_append.mp ht with ht | ht
            · exact hmin' t ht
            · simp at ht; subst ht; exact hle
        · simp only [hle, if_false]
          have hlt : cmp k e.key ≤ 0 := hc.sign _ _ (by omega)
          refine ⟨OrdAll_cons.mpr ⟨Ord_leaf cmp k v, hord⟩, ?_, ?_, ?_⟩
          · intro t ht
            rcases List.mem_cons.mp ht with rfl | ht
            · exact Binom_leaf k v
            · exact hbin t ht
          · simp only [hn, nodesF_cons, nodes_leaf, List.length_append]
            simp; omega
          · intro e0 rest0 heq t ht
            simp only [List.cons.injEq] at heq
            rw [← heq.1]
            rcases List.mem_cons.mp ht with rfl | ht
            · exact hc.refl _
            · exact hc.trans _ _ _ hlt (hmin' t ht)
    · show (nodesF (h.insert cmp k v).roots).Perm ((k, v) :: nodesF h.roots)
      unfold Fib.insert
      cases hr : h.roots with
      | nil => simp [nodes_leaf]
      | cons e rest =>
        by_cases hle : cmp e.key k ≤ 0
        · simp only [hle, if_true, nodesF_append, nodesF_cons, nodesF_nil, nodes_leaf]; c04_perm
        · simp only [hle, if_false, nodesF_cons, nodes_leaf]; c04_perm
  | delete =>
    cases hr : h.roots with
    | nil =>
      refine ⟨h, .kv none, by simp [Fib.step, Fib.delete, hr], ⟨hord, hbin, hn, hmin⟩, ?_⟩
      simp [Step, Fib.abs, hr]
    | cons ext rest =>
      have hord' := hord; have hbin' := hbin
      rw [hr] at hord' hbin'
      rw [OrdAll_cons] at hord'
      have hmp := meld_perm rest ext.children
      have hord1 : OrdAll cmp (meld rest ext.children) := by
        intro t ht
        rcases List.mem_append.mp (hmp.mem_iff.mp ht) with ht | ht
        · exact hord'.2 t ht
        · exact Ord_children ext hord'.1 t ht
      have hbin1 : ∀ t ∈ meld rest ext.children, Binom t := by
        intro t ht
        rcases List.mem_append.mp (hmp.mem_iff.mp ht) with ht | ht
        · exact hbin' t (List.mem_cons_of_mem _ ht)
        · exact Binom_children ext (hbin' ext List.mem_cons_self) t ht
      have hperm : (nodesF h.roots).Perm ((ext.key, ext.val) :: nodesF (meld rest ext.children)) := by
        rw [hr, nodesF_cons, nodes_eq ext]
        refine (List.perm_cons _).mpr ?_
        refine List.Perm.trans ?_ (nodesF_perm hmp).symm
        rw [nodesF_append]; c04_perm
      have hext : Extremal cmp (nodesF h.roots) ext.key := by
        apply ext_extremal hc h.roots hord ext
        exact hmin ext rest hr
      have hlen : h.n - 1 = ((nodesF (meld rest ext.children)).length : Int) := by
        have := hperm.length_eq
        rw [hn, this]; simp
      by_cases hempty : meld rest ext.children = []
      · refine ⟨{ n := h.n - 1, roots := [] }, .kv (some (ext.key, ext.val)), ?_, ?_, hext, ?_⟩
        · simp [Fib.step, Fib.delete, hr, hempty]
        · refine ⟨OrdAll_nil cmp, ?_, ?_, ?_⟩
          · intro t ht; cases ht
          · rw [hempty] at hlen; simpa using hlen
          · intro e r h; cases h
        · rw [hempty] at hperm; exact hperm
      · obtain ⟨roots', hrun, hperm', hord2, hbin2, hmin2, _⟩ :=
          consolidate_spec hc (meld rest ext.children) hempty hord1 hbin1 (h.n - 1) hlen
        have hne : (meld rest ext.children).isEmpty = false := by
          cases hm : meld rest ext.children with
          | nil => exact absurd hm hempty
          | cons a b => rfl
        refine ⟨{ n := h.n - 1, roots := roots' }, .kv (some (ext.key, ext.val)), ?_, ?_, hext, ?_⟩
        · simp [Fib.step, Fib.delete, hr, hne, hrun]
        · exact ⟨hord2, hbin2, by rw [hlen, hperm'.length_eq], hmin2⟩
        · exact hperm.trans ((List.perm_cons _).mpr hperm'.symm)
  | deleteAll =>
    refine ⟨h.deleteAll, .unit, rfl, ⟨OrdAll_nil cmp, ?_, ?_, ?_⟩, by simp [Step, Fib.abs, Fib.deleteAll]⟩
    · intro t ht; cases ht
    · simp [Fib.deleteAll]
    · intro e r h; cases h
  | peek =>
    cases hr : h.roots with
    | nil =>
      refine ⟨h, .kv none, by simp [Fib.step, Fib.peek, hr], ⟨hord, hbin, hn, hmin⟩, ?_⟩
      simp [Step, Fib.abs, hr]
    | cons e rest =>
      refine ⟨h, .kv (some (e.key, e.val)), by simp [Fib.step, Fib.peek, hr], ⟨hord, hbin, hn, hmin⟩, ?_, ?_,
        List.Perm.refl _⟩
      · show (e.key, e.val) ∈ nodesF h.roots
        rw [hr, nodesF_cons, nodes_eq e]; simp
      · apply ext_extremal hc h.roots hord e
        exact hmin e rest hr
  | size => exact ⟨h, .int h.n, rfl, ⟨hord, hbin, hn, hmin⟩, hn, List.Perm.refl _⟩
  | isEmpty =>
    refine ⟨h, .bool h.isEmpty, rfl, ⟨hord, hbin, hn, hmin⟩, ?_, List.Perm.refl _⟩
    show h.roots.isEmpty = (nodesF h.roots).isEmpty
    cases hh : h.roots with
    | nil => simp
    | cons t ts => simp [nodes_eq t]
  | containsKey k =>
    refine ⟨h, .bool (h.containsKey cmp k), rfl, ⟨hord, hbin, hn, hmin⟩, ?_, List.Perm.refl _⟩
    show h.containsKey cmp k = (nodesF h.roots).any _
    unfold Fib.containsKey
    rw [anyF_eq]
    cases hh : h.roots with
    | nil => simp
    | cons t ts => simp
  | containsValue v =>
    refine ⟨h, .bool (h.containsValue eqV v), rfl, ⟨hord, hbin, hn, hmin⟩, ?_, List.Perm.refl _⟩
    show h.containsValue eqV v = (nodesF h.roots).any _
    unfold Fib.containsValue
    rw [anyF_eq]
    cases hh : h.roots with
    | nil => simp
    | cons t ts => simp

theorem Fib.mergeRoots_spec {cmp : K → K → Int} (hc : LawfulCmp cmp) (a b : Fib K V)
    (ha : FInv cmp a) (hb : FInv cmp b) :
    FInv cmp { n := a.n + b.n, roots := Fib.mergeRoots cmp a.roots b.roots } ∧
      (nodesF (Fib.mergeRoots cmp a.roots b.roots)).Perm (a.abs ++ b.abs) := by
  cases hra : a.roots with
  | nil =>
    have e : Fib.mergeRoots cmp [] b.roots = b.roots := by simp [Fib.mergeRoots]
    rw [e]
    refine ⟨⟨hb.ord, hb.binom, ?_, hb.headMin⟩, by simp [Fib.abs, hra]⟩
    have := ha.n; rw [hra] at this
    simp only [this, hb.n]; simp
  | cons x r1 =>
    cases hrb : b.roots with
    | nil =>
      have e : Fib.mergeRoots cmp (x :: r1) [] = x :: r1 := by simp [Fib.mergeRoots]
      rw [e]
      refine ⟨⟨hra ▸ ha.ord, hra ▸ ha.binom, ?_, hra ▸ ha.headMin⟩, by simp [Fib.abs, hra, hrb]⟩
      have h1 := ha.n; have h2 := hb.n; rw [hra] at h1; rw [hrb] at h2
      simp only [h1, h2]; simp
    | cons y r2 =>
      simp only [Fib.mergeRoots, Fib.abs, hra, hrb]
      have hoa := ha.ord; have hob := hb.ord; have hba := ha.binom; have hbb := hb.binom
      have hna := ha.n; have hnb := hb.n
      rw [hra] at hoa hba hna; rw [hrb] at hob hbb hnb
      have hma := ha.headMin x r1 hra; have hmb := hb.headMin y r2 hrb
      rw [hra] at hma; rw [hrb] at hmb
      rw [OrdAll_cons] at hob
      by_cases hle : cmp x.key y.key ≤ 0
      · simp only [hle, if_true]
        refine ⟨⟨?_, ?_, ?_, ?_⟩, ?_⟩
        · exact OrdAll_append.mpr ⟨OrdAll_append.mpr ⟨hoa, hob.2⟩, OrdAll_cons.mpr ⟨hob.1, OrdAll_nil cmp⟩⟩
        · intro t ht
          simp only [List.mem_append, List.mem_cons, List.mem_nil_iff, or_false] at ht
          rcases ht with (ht | ht) | ht
          · exact hba t (by simpa using ht)
          · exact hbb t (List.mem_cons_of_mem _ ht)
          · exact hbb t (by rw [ht]; exact List.mem_cons_self)
        · simp only [hna, hnb, nodesF_append, nodesF_cons, nodesF_nil, List.length_append]
          simp; omega
        · intro e0 rest0 heq t ht
          simp only [List.cons_append, List.cons.injEq] at heq
          rw [← heq.1]
          simp only [List.mem_append, List.mem_cons, List.mem_nil_iff, or_false] at ht
          rcases ht with (ht | ht) | ht
          · exact hma t (by simpa using ht)
          · exact hc.trans _ _ _ hle (hmb t (List.mem_cons_of_mem _ ht))
          · rw [ht]; exact hle
        · simp only [nodesF_append, nodesF_cons, nodesF_nil]; c04_perm
      · simp only [hle, if_false]
        have hyx : cmp y.key x.key ≤ 0 := hc.sign _ _ (by omega)
        refine ⟨⟨?_, ?_, ?_, ?_⟩, ?_⟩
        · exact OrdAll_cons.mpr ⟨hob.1, OrdAll_append.mpr ⟨hoa, hob.2⟩⟩
        · intro t ht
          simp only [List.mem_append, List.mem_cons] at ht
          rcases ht with ht | ht | ht
          · exact hbb t (by rw [ht]; exact List.mem_cons_self)
          · exact hba t (by simpa using ht)
          · exact hbb t (List.mem_cons_of_mem _ ht)
        · simp only [hna, hnb, nodesF_append, nodesF_cons, List.length_append]
          simp; omega
        · intro e0 rest0 heq t ht
          simp only [List.cons.injEq] at heq
          rw [← heq.1]
          simp only [List.mem_append, List.mem_cons] at ht
          rcases ht with ht | ht | ht
          · rw [ht]; exact hc.refl _
          · exact hc.trans _ _ _ hyx (hma t (by simpa using ht))
          · exact hmb t (List.mem_cons_of_mem _ ht)
        · simp only [nodesF_append, nodesF_cons]; c04_perm

theorem Fib.merge_spec {cmp : K → K → Int} (hc : LawfulCmp cmp) (a b : Fib K V)
    (ha : FInv cmp a) (hb : FInv cmp b) :
    FInv cmp (a.mergeWith cmp b).1 ∧ FInv cmp (a.mergeWith cmp b).2 ∧
      (a.mergeWith cmp b).1.abs.Perm (a.abs ++ b.abs) ∧ (a.mergeWith cmp b).2.abs = [] := by
  obtain ⟨h1, h2⟩ := Fib.mergeRoots_spec hc a b ha hb
  refine ⟨h1, ?_, h2, by simp [Fib.mergeWith, Fib.abs]⟩
  refine ⟨OrdAll_nil cmp, ?_, by simp [Fib.mergeWith], ?_⟩
  · intro t ht; cases ht
  · intro e r h; cases h

/-- the Fibonacci heap Model refines the multiset Spec -/
def fibRefines {cmp : K → K → Int} (hc : LawfulCmp cmp) (eqV : V → V → Bool) :
    Refines (fibImpl cmp eqV) cmp eqV where
  Inv := FInv cmp
  abs := Fib.abs
  init_inv := by
    refine ⟨OrdAll_nil cmp, ?_, ?_, ?_⟩
    · intro t ht; cases ht
    · simp [fibImpl, Fib.new]
    · intro e r h; cases h
  init_abs := by simp [fibImpl, Fib.new, Fib.abs]
  step_ok := fun s op hs => Fib.step_spec hc eqV s hs op
  merge_ok := fun a b ha hb =>
    have h := Fib.merge_spec hc a b ha hb
    ⟨_, _, rfl, h.1, h.2.1, h.2.2.1, h.2.2.2⟩

end AlgoVerif.C04
