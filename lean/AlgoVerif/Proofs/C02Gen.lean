import AlgoVerif.Generated.C02Gen
import AlgoVerif.Proofs.GoRt
import AlgoVerif.Model.C02
/-!
# The GENERATED model of `symboltable/hash_table.go` (the arithmetic helpers of the hash tables) and the hand Model

`Generated/C02Gen.lean` is rewritten from /repo's source by `/verif/extract/go2lean` on every check run
(`bin/pre-C02`): `gcd`, `isPowerOf2`, `isPrime`, `largestPrimeSmallerThan`, `smallestPrimeLargerThan` — the functions
the capacity checks, the second hash of double hashing and the rehash sizes are computed with.  The hand Model
(`Model/C02.lean`) writes them over `Nat` with the loop fuel built in (it returns the accumulator when the fuel runs
out, having argued that it does not); the generated definitions are over `UInt64` / `Int`, take the caller's fuel and
`diverge` without it.  Each theorem says: on the image of the natural numbers, with at least the stated fuel, the
generated definition returns exactly the hand Model's value.  Of the three open-addressing table files, `probe`, `Get`,
`Size`, `IsEmpty` of `linear_hash_table.go` are translated as well (`Generated/C02LinGen.lean`, `Proofs/C02LinGen.lean`:
the closure of `probe` is converted into a record + `call`); `Put`, `resize`, `Delete`, the constructors and the iterators are
not (`float32` load factors are compared, `Put` ↔ `resize` recurse through a range-over-func iterator that shuffles with a
package-level generator through a swap closure: see the notes in DESIGN.md §4.5).
-/
set_option linter.unusedSimpArgs false
namespace AlgoVerif.C02.Gen
open AlgoVerif AlgoVerif.Outcome AlgoVerif.C02 AlgoVerif.Generated

/-! ## gcd -/

/-- `for b != 0 { a, b = b, a%b }` with enough fuel (`b < f`) -/
theorem gcd_loop (F : Nat) : ∀ (f d : Nat) (a b : UInt64), b.toNat < f →
    (HashHelp.gcd.loop1 F (f + d) a b).map (fun r => r.1.toNat) = .ok (gcdLoop f a.toNat b.toNat) := by
  intro f
  induction f with
  | zero => intro d a b h; omega
  | succ f ih =>
    intro d a b hb
    rw [show f + 1 + d = (f + d) + 1 by omega]
    simp only [HashHelp.gcd.loop1, gcdLoop]
    by_cases h0 : b = 0
    · subst h0; simp
    · have hn : b.toNat ≠ 0 := fun h => h0 (UInt64.toNat_inj.1 (by simpa using h))
      have hne : (b != (0 : UInt64)) = true := by simpa using h0
      simp only [hne, Bool.not_true, Bool.false_eq_true, if_false, Go.modU64, h0, hn, Outcome.ok_bind,
        Outcome.bind_assoc, Outcome.pure_eq]
      have := ih d b (a % b) (by
        rw [UInt64.toNat_mod]
        have := Nat.mod_lt a.toNat (Nat.pos_of_ne_zero hn)
        omega)
      rw [UInt64.toNat_mod] at this
      exact this

/-- `gcd` with any fuel `> min(a, b)` -/
theorem gcd_eq (a b : UInt64) (F : Nat) (hF : min a.toNat b.toNat + 1 ≤ F) :
    (HashHelp.gcd F a b).map UInt64.toNat = .ok (gcdGo a.toNat b.toNat) := by
  obtain ⟨d, rfl⟩ : ∃ d, F = min a.toNat b.toNat + 1 + d := ⟨F - (min a.toNat b.toNat + 1), by omega⟩
  simp only [HashHelp.gcd, gcdGo, Outcome.bind_assoc, Outcome.pure_eq, Outcome.map_bind, Outcome.map_ok]
  by_cases hab : a < b
  · have h1 : a.toNat < b.toNat := hab
    have h2 : ¬ b < a := by
      intro h; have : b.toNat < a.toNat := h; omega
    have hmax : max a.toNat b.toNat = b.toNat := by omega
    have hmin : min a.toNat b.toNat = a.toNat := by omega
    simp only [hab, h2, if_true, if_false, hmax, hmin]
    have := gcd_loop (a.toNat + 1 + d) (a.toNat + 1) d b a (by omega)
    revert this
    cases HashHelp.gcd.loop1 (a.toNat + 1 + d) (a.toNat + 1 + d) b a <;> simp
  · have h1 : b.toNat ≤ a.toNat := by
      have : ¬ a.toNat < b.toNat := hab
      omega
    have hmax : max a.toNat b.toNat = a.toNat := by omega
    have hmin : min a.toNat b.toNat = b.toNat := by omega
    simp only [hab, if_false, hmax, hmin]
    by_cases hba : b < a
    · simp only [hba, if_true]
      have := gcd_loop (b.toNat + 1 + d) (b.toNat + 1) d a b (by omega)
      revert this
      cases HashHelp.gcd.loop1 (b.toNat + 1 + d) (b.toNat + 1 + d) a b <;> simp
    · have hle : a.toNat ≤ b.toNat := by
        have : ¬ b.toNat < a.toNat := hba
        omega
      have e : a = b := UInt64.toNat_inj.1 (by omega)
      subst e
      simp only [hba, if_false]
      have := gcd_loop (a.toNat + 1 + d) (a.toNat + 1) d a a (by omega)
      revert this
      cases HashHelp.gcd.loop1 (a.toNat + 1 + d) (a.toNat + 1 + d) a a <;> simp

/-! ## isPowerOf2 -/

/-- Go's `&` on two `int`s that are natural numbers below `2^63` -/
theorem andInt_natCast (x y : Nat) (hx : x < 2 ^ 63) (hy : y < 2 ^ 63) : Go.andInt (x : Int) (y : Int) = ((x &&& y : Nat) : Int) := by
  unfold Go.andInt
  have e1 : BitVec.ofInt 64 (x : Int) = BitVec.ofNat 64 x := by
    apply BitVec.eq_of_toNat_eq; simp [BitVec.toNat_ofInt]
  have e2 : BitVec.ofInt 64 (y : Int) = BitVec.ofNat 64 y := by
    apply BitVec.eq_of_toNat_eq; simp [BitVec.toNat_ofInt]
  rw [e1, e2]
  have hle : x &&& y ≤ x := Nat.and_le_left
  have hn : (BitVec.ofNat 64 x &&& BitVec.ofNat 64 y).toNat = x &&& y := by
    rw [BitVec.toNat_and, BitVec.toNat_ofNat, BitVec.toNat_ofNat, Nat.mod_eq_of_lt (by omega), Nat.mod_eq_of_lt (by omega)]
  rw [BitVec.toInt_eq_toNat_of_lt (by rw [hn]; omega), hn]

/-- `isPowerOf2` on a natural number below `2^63` -/
theorem isPowerOf2_eq (n : Nat) (hn : n < 2 ^ 63) : HashHelp.isPowerOf2 (n : Int) = C02.isPowerOf2 n := by
  unfold HashHelp.isPowerOf2 C02.isPowerOf2
  cases n with
  | zero => decide
  | succ m =>
    have e : (((m + 1 : Nat) : Int) - 1) = ((m : Nat) : Int) := by omega
    rw [e, andInt_natCast (m + 1) m hn (by omega)]
    simp only [Nat.add_sub_cancel]
    by_cases h : (m + 1) &&& m = 0
    · simp [h]
    · have h1 : ((((m + 1) &&& m : Nat) : Int) == 0) = false := by rw [beq_eq_false_iff_ne]; omega
      have h2 : ((m + 1) &&& m == 0) = false := by rw [beq_eq_false_iff_ne]; exact h
      rw [h1, h2]

/-! ## isPrime -/

/-- what a `for … { if … { return false } }; return true` scan yields -/
def scanTrue : Go.Ctl Unit Bool → Bool
  | .ret b => b
  | .next _ => true

/-- `for i := 2; i*i <= n; i++ { if n%i == 0 { return false } }` with enough fuel (`n + 2 ≤ i + f`; the generated loop
needs one unit more than the hand Model's, which returns `true` when its fuel is used up) -/
theorem isPrime_loop (F n : Nat) : ∀ (f d i : Nat), 2 ≤ i → n + 2 ≤ i + f →
    (HashHelp.isPrime.loop1 F (n : Int) (f + 1 + d) (i : Int)).map scanTrue = .ok (isPrimeLoop n f i) := by
  intro f
  induction f with
  | zero =>
    intro d i hi hf
    have hlt : n < i := by omega
    have : ¬ i * i ≤ n := by
      have : i ≤ i * i := Nat.le_mul_self i
      omega
    have hc : decide (((i : Int) * (i : Int)) ≤ (n : Int)) = false := by
      simp only [decide_eq_false_iff_not]; intro h; exact this (by exact_mod_cast h)
    rw [show 0 + 1 + d = d + 1 by omega]
    simp [HashHelp.isPrime.loop1, isPrimeLoop, hc, scanTrue]
  | succ f ih =>
    intro d i hi hf
    rw [show f + 1 + 1 + d = (f + 1 + d) + 1 by omega]
    simp only [HashHelp.isPrime.loop1, isPrimeLoop]
    by_cases hc : i * i ≤ n
    · have hc' : decide (((i : Int) * (i : Int)) ≤ (n : Int)) = true := by
        simp only [decide_eq_true_eq]; exact_mod_cast hc
      have hi0 : (i : Int) ≠ 0 := by omega
      have hm : Go.mod (n : Int) (i : Int) = .ok (((n % i : Nat)) : Int) := by
        simp only [Go.mod, hi0, if_false]
        rw [Int.tmod_eq_emod_of_nonneg (by omega)]
        congr 1
      simp only [hc, hc', if_true, Bool.not_true, Bool.false_eq_true, if_false, hm, Outcome.ok_bind, Outcome.bind_assoc,
        Outcome.pure_eq]
      by_cases hz : n % i = 0
      · simp [hz, scanTrue]
      · have hz' : ((((n % i : Nat)) : Int) == 0) = false := by
          rw [beq_eq_false_iff_ne]; omega
        simp only [hz, hz', Bool.false_eq_true, if_false]
        have := ih d (i + 1) (by omega) (by omega)
        rwa [show ((i + 1 : Nat) : Int) = (i : Int) + 1 by omega] at this
    · have hc' : decide (((i : Int) * (i : Int)) ≤ (n : Int)) = false := by
        simp only [decide_eq_false_iff_not]; intro h; exact hc (by exact_mod_cast h)
      simp only [hc, hc', Bool.not_false, if_true, if_false, Outcome.pure_eq, Outcome.map_ok, scanTrue]

theorem smallPrimes_chain (n : Nat) :
    ((((((((((((((((((((((((((n : Int) == 2) || ((n : Int) == 3)) || ((n : Int) == 5)) || ((n : Int) == 7)) || ((n : Int) == 11)) || ((n : Int) == 13)) || ((n : Int) == 17)) || ((n : Int) == 19)) || ((n : Int) == 23)) || ((n : Int) == 29)) || ((n : Int) == 31)) || ((n : Int) == 37)) || ((n : Int) == 41)) || ((n : Int) == 43)) || ((n : Int) == 47)) || ((n : Int) == 53)) || ((n : Int) == 59)) || ((n : Int) == 61)) || ((n : Int) == 67)) || ((n : Int) == 71)) || ((n : Int) == 73)) || ((n : Int) == 79)) || ((n : Int) == 83)) || ((n : Int) == 89)) || ((n : Int) == 97)) =
      smallPrimes.contains n := by
  have key : ∀ (k : Nat) (kz : Int), kz = (k : Int) → ((n : Int) == kz) = (n == k) := by
    intro k kz hk
    subst hk
    by_cases h : n = k
    · subst h; simp
    · have h1 : ((n : Int) == (k : Int)) = false := by rw [beq_eq_false_iff_ne]; omega
      have h2 : (n == k) = false := by rw [beq_eq_false_iff_ne]; exact h
      rw [h1, h2]
  simp only [smallPrimes, symboltable_isPrime_small, List.contains_cons, List.contains_nil, Bool.or_false]
  rw [key 2 2 rfl, key 3 3 rfl, key 5 5 rfl, key 7 7 rfl, key 11 11 rfl, key 13 13 rfl, key 17 17 rfl, key 19 19 rfl,
    key 23 23 rfl, key 29 29 rfl, key 31 31 rfl, key 37 37 rfl, key 41 41 rfl, key 43 43 rfl, key 47 47 rfl, key 53 53 rfl,
    key 59 59 rfl, key 61 61 rfl, key 67 67 rfl, key 71 71 rfl, key 73 73 rfl, key 79 79 rfl, key 83 83 rfl, key 89 89 rfl,
    key 97 97 rfl]
  simp only [Bool.or_assoc]

/-- `isPrime` on a natural number, with any fuel `> n` -/
theorem isPrime_eq (n F : Nat) (hF : n + 1 ≤ F) : HashHelp.isPrime F (n : Int) = .ok (C02.isPrime n) := by
  obtain ⟨d, rfl⟩ : ∃ d, F = n + 1 + d := ⟨F - (n + 1), by omega⟩
  unfold HashHelp.isPrime C02.isPrime
  by_cases h1 : n ≤ 1
  · have : decide ((n : Int) ≤ 1) = true := by simp only [decide_eq_true_eq]; omega
    simp [h1, this]
  · have h1' : decide ((n : Int) ≤ 1) = false := by simp only [decide_eq_false_iff_not]; omega
    simp only [h1, h1', Bool.false_eq_true, if_false, smallPrimes_chain]
    by_cases h2 : smallPrimes.contains n = true
    · simp only [h2, if_true, Outcome.pure_eq]
    · have h2' : smallPrimes.contains n = false := by simpa using h2
      simp only [h2', Bool.false_eq_true, if_false]
      have hb : symboltable_isPrime_smallBound = 100 := rfl
      by_cases h3 : n ≤ 100
      · have : decide ((n : Int) ≤ 100) = true := by simp only [decide_eq_true_eq]; omega
        simp [h3, this, hb]
      · have h3' : decide ((n : Int) ≤ 100) = false := by simp only [decide_eq_false_iff_not]; omega
        simp only [h3, h3', hb, Bool.false_eq_true, if_false, Outcome.pure_eq]
        have := isPrime_loop (n + 1 + d) n n d 2 (by omega) (by omega)
        revert this
        simp only [show ((2 : Nat) : Int) = 2 from rfl]
        cases HashHelp.isPrime.loop1 (n + 1 + d) (n : Int) (n + 1 + d) 2 with
        | ok c => cases c <;> simp [scanTrue] <;> intro e <;> simp [← e]
        | panic => simp
        | diverge => simp

/-! ## largestPrimeSmallerThan, smallestPrimeLargerThan -/

/-- what `for … { if … { return p } }; return -1` yields -/
def scanNeg1 : Go.Ctl Unit Int → Int
  | .ret r => r
  | .next _ => -1

theorem largestPrime_loop (F : Nat) : ∀ (p : Nat), p + 1 ≤ F → 1 ≤ p →
    (HashHelp.largestPrimeSmallerThan.loop1 F (p - 1) (p : Int)).map scanNeg1 = .ok (C02.largestPrimeSmallerThan p) := by
  intro p
  induction p with
  | zero => intro _ h; omega
  | succ q ih =>
    intro hF _
    simp only [C02.largestPrimeSmallerThan]
    by_cases hq : q = 0
    · subst hq
      simp [HashHelp.largestPrimeSmallerThan.loop1, scanNeg1]
    · have hlt : ¬ q + 1 < 2 := by omega
      rw [show q + 1 - 1 = (q - 1) + 1 by omega]
      simp only [HashHelp.largestPrimeSmallerThan.loop1, isPrime_eq (q + 1) F (by omega), Outcome.ok_bind, hlt, if_false]
      by_cases hp : C02.isPrime (q + 1) = true
      · simp [hp, scanNeg1]
      · have hp' : C02.isPrime (q + 1) = false := by simpa using hp
        simp only [hp', Bool.false_eq_true, if_false]
        have := ih (by omega) (by omega)
        rwa [show (((q + 1 : Nat) : Int) - 1) = ((q : Nat) : Int) by omega]

/-- `largestPrimeSmallerThan` on a natural number, with any fuel `> n` -/
theorem largestPrime_eq (n F : Nat) (hF : n + 1 ≤ F) :
    HashHelp.largestPrimeSmallerThan F (n : Int) = .ok (C02.largestPrimeSmallerThan n) := by
  unfold HashHelp.largestPrimeSmallerThan
  by_cases h2 : n < 2
  · have : decide ((n : Int) < 2) = true := by simp only [decide_eq_true_eq]; omega
    have hv : C02.largestPrimeSmallerThan n = -1 := by
      cases n with
      | zero => rfl
      | succ m =>
        have : m = 0 := by omega
        subst this
        simp [C02.largestPrimeSmallerThan]
    simp [this, hv]
  · have h2' : decide ((n : Int) < 2) = false := by simp only [decide_eq_false_iff_not]; omega
    simp only [h2', Bool.false_eq_true, if_false, Outcome.pure_eq]
    have := largestPrime_loop F n hF (by omega)
    rw [show ((n : Int) + 1 - 2).toNat = n - 1 by omega]
    revert this
    cases HashHelp.largestPrimeSmallerThan.loop1 F (n - 1) (n : Int) with
    | ok c => cases c <;> simp [scanNeg1] <;> intro e <;> simp [← e]
    | panic => simp
    | diverge => simp

/-- `for p := n; ; p++ { if isPrime(p) { return p } }`: the hand Model's fuel `f`, every candidate `< F` -/
theorem smallestPrime_loop (F : Nat) : ∀ (f d p : Nat), p + f ≤ F →
    (smallestPrimeLoop f p).map (fun q => ((q : Nat) : Int)) ≼
      (HashHelp.smallestPrimeLargerThan.loop1 F (f + d) (p : Int) >>= fun c =>
        match c with
        | .ret r => .ok r
        | .next _ => .diverge) := by
  intro f
  induction f with
  | zero => intro d p _; simp [smallestPrimeLoop]
  | succ f ih =>
    intro d p hF
    rw [show f + 1 + d = (f + d) + 1 by omega]
    simp only [smallestPrimeLoop, HashHelp.smallestPrimeLargerThan.loop1, isPrime_eq p F (by omega), Outcome.ok_bind]
    by_cases hp : C02.isPrime p = true
    · simp [hp]
    · have hp' : C02.isPrime p = false := by simpa using hp
      simp only [hp', Bool.false_eq_true, if_false]
      have := ih d (p + 1) (by omega)
      rwa [show ((p + 1 : Nat) : Int) = (p : Int) + 1 by omega] at this

/-- `smallestPrimeLargerThan` on a natural number, with any fuel `≥ 2n + 3` (the hand Model's search bound, which
`C03` proves sufficient by Bertrand's postulate) -/
theorem smallestPrime_le (n F : Nat) (hF : 2 * n + 3 ≤ F) :
    (C02.smallestPrimeLargerThan n).map (fun q => ((q : Nat) : Int)) ≼ HashHelp.smallestPrimeLargerThan F (n : Int) := by
  obtain ⟨d, rfl⟩ : ∃ d, F = n + 3 + d := ⟨F - (n + 3), by omega⟩
  have := smallestPrime_loop (n + 3 + d) (n + 3) d n (by omega)
  simp only [C02.smallestPrimeLargerThan, HashHelp.smallestPrimeLargerThan]
  refine this.trans_eq ?_
  congr 1 <;> (funext c; cases c <;> rfl)

end AlgoVerif.C02.Gen
