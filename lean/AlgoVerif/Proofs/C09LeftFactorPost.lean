import AlgoVerif.Proofs.C08LeftFactorMain
/-!
# What `LeftFactor` guarantees of its result (C09)

`LeftFactor` folds the prefix groups of a non-terminal only when the non-terminal has *both* a group of two
or more alternatives with a common first symbol *and* an alternative whose first symbol is unique; it stops
when no non-terminal is in that situation.  So its result need not be left-factored (known finding
`C09-leftfactor-residual`: `S → a b | a c` is returned unchanged).  What it does guarantee, for every
declared non-terminal `A` of the result:

    either no two alternatives of `A` begin with the same symbol,
    or every alternative of `A` begins with the same symbol as another alternative of `A`

(`UniformHeads`, decidable; `SharesFirst g p` = another alternative of `p`'s head begins like `p`).
Consequently the result is `LeftFactored` as soon as every non-terminal with a production has an alternative
with a unique first symbol (`C09_leftfactor_leftFactored_of_unique`).
-/
namespace AlgoVerif.C08
open AlgoVerif AlgoVerif.Gram AlgoVerif.C08.Spec
open LF

/-! ### the exit condition of the loop -/

/-- the test `prefixGroups.Size() > 0 && altGroups.Size() > 0` of `LeftFactor` fails for `A` -/
def lfStable (g : G) (A : String) : Bool :=
  let gs := groupsOf (prodsOf g.prods A)
  (gs.filter (fun e => e.2.length ≥ 2)).isEmpty || (gs.filter (fun e => e.2.length = 1)).isEmpty

theorem lfHead_flag {g g' : G} {A : String} {ch : Bool} (h : lfHead g A = .ok (g', ch)) :
    ch = false → g' = g ∧ lfStable g A = true := by
  intro hch
  subst hch
  unfold lfHead at h
  simp only at h
  split at h
  · rename_i hAP
    cases h
    refine ⟨rfl, ?_⟩
    have : prodsOf g.prods A = [] := List.isEmpty_iff.1 hAP
    simp [lfStable, this, groupsOf]
  · split at h
    · rename_i hcond
      cases h
      exact ⟨rfl, hcond⟩
    · obtain ⟨g1, _, h'⟩ := bind_eq_ok h
      cases h'

theorem lfFold_false : ∀ (nts : List String) (st st' : G × Bool),
    nts.foldlM (fun (st : G × Bool) A => do
      let (g', ch) ← lfHead st.1 A
      pure (g', st.2 || ch)) st = .ok st' → st'.2 = false →
    st.2 = false ∧ st'.1 = st.1 ∧ ∀ A ∈ nts, lfStable st.1 A = true
  | [], st, st', h, hf => by
    cases h
    exact ⟨hf, rfl, by simp⟩
  | A :: nts, st, st', h, hf => by
    rw [foldlM_cons] at h
    obtain ⟨st₁, h₁, h₂⟩ := bind_eq_ok h
    obtain ⟨⟨g₁, ch⟩, hh, hp⟩ := bind_eq_ok h₁
    cases hp
    obtain ⟨hf₁, hg, hall⟩ := lfFold_false nts _ st' h₂ hf
    simp only [Bool.or_eq_false_iff] at hf₁
    obtain ⟨hg₁, hst⟩ := lfHead_flag hh hf₁.2
    simp only at hg hall
    subst hg₁
    refine ⟨hf₁.1, hg, ?_⟩
    intro B hB
    rcases List.mem_cons.1 hB with rfl | hB
    · exact hst
    · exact hall B hB

/-- every declared non-terminal is among the names `OrderNonTerminals` returns -/
theorem orderNT_mem {g : G} {nts : List String} (h : orderNT g = .ok nts) : ∀ n ∈ g.nonterms, n ∈ nts := by
  unfold orderNT at h
  obtain ⟨visited, _, h'⟩ := bind_eq_ok h
  cases h'
  intro n hn
  by_cases hv : n ∈ visited
  · exact List.mem_append_left _ hv
  · refine List.mem_append_right _ ((mem_sortBy _ _ _).2 (List.mem_filter.2 ⟨hn, by simpa using hv⟩))

theorem lfPass_false {g g' : G} (h : lfPass g = .ok (g', false)) :
    g' = g ∧ ∀ A ∈ g.nonterms, lfStable g A = true := by
  unfold lfPass at h
  obtain ⟨nts, hnts, h'⟩ := bind_eq_ok h
  obtain ⟨_, hg, hall⟩ := lfFold_false nts (g, false) (g', false) h' rfl
  exact ⟨hg, fun A hA => hall A (orderNT_mem hnts A hA)⟩

theorem lfLoop_stable : ∀ (fuel : Nat) (g g' : G), lfLoop fuel g = .ok g' →
    ∀ A ∈ g'.nonterms, lfStable g' A = true
  | 0, _, _, h => by cases h
  | fuel + 1, g, g', h => by
    simp only [lfLoop] at h
    obtain ⟨⟨g₁, ch⟩, hp, h'⟩ := bind_eq_ok h
    cases ch with
    | true =>
      simp only [↓reduceIte] at h'
      exact lfLoop_stable fuel g₁ g' h'
    | false =>
      simp only [Bool.false_eq_true, ↓reduceIte] at h'
      cases h'
      obtain ⟨rfl, hall⟩ := lfPass_false hp
      exact hall

/-! ### the groups, precisely -/

theorem nodup_ins {α : Type} [DecidableEq α] {l : List α} (h : l.Nodup) (x : α) : (ins l x).Nodup := by
  unfold ins
  split
  · exact h
  · rename_i hx
    exact List.nodup_append.2 ⟨h, by simp, fun a ha b hb => by simp at hb; subst hb; exact fun e => hx (e ▸ ha)⟩

/-- keys are pairwise different, suffix lists duplicate-free, and every suffix comes from a production
with that first symbol -/
structure GroupsOK (AP : List SProd) (gs : Groups) : Prop where
  keys : (gs.map (·.1)).Nodup
  sufs : ∀ e ∈ gs, e.2.Nodup
  from_prod : ∀ e ∈ gs, ∀ s ∈ e.2, ∃ p ∈ AP, p.body.take 1 = e.1 ∧ p.body.drop 1 = s

theorem groupsOf_ok (AP : List SProd) : GroupsOK AP (groupsOf AP) := by
  rw [groupsOf_eq]
  refine foldl_inv (GroupsOK AP) gstep AP ?_ [] ⟨by simp, by simp, by simp⟩
  intro gs p hp hgs
  unfold gstep
  simp only
  split
  · refine ⟨?_, ?_, ?_⟩
    · have : (gs.map (fun e => if e.1 = p.body.take 1 then (e.1, ins e.2 (p.body.drop 1)) else e)).map (·.1) =
          gs.map (·.1) := by
        rw [List.map_map]
        apply List.map_congr_left
        intro e _
        simp only [Function.comp]
        split <;> rfl
      rw [this]
      exact hgs.keys
    · intro e he
      obtain ⟨e₀, he₀, rfl⟩ := List.mem_map.1 he
      split
      · exact nodup_ins (hgs.sufs e₀ he₀) _
      · exact hgs.sufs e₀ he₀
    · intro e he s hs
      obtain ⟨e₀, he₀, rfl⟩ := List.mem_map.1 he
      split at hs
      · rename_i hk
        rcases mem_ins.1 hs with hs | rfl
        · simpa [hk] using hgs.from_prod e₀ he₀ s hs
        · exact ⟨p, hp, by simp [hk], rfl⟩
      · rename_i hk
        simpa [hk] using hgs.from_prod e₀ he₀ s hs
  · rename_i hany
    refine ⟨?_, ?_, ?_⟩
    · rw [List.map_append]
      refine List.nodup_append.2 ⟨hgs.keys, by simp, ?_⟩
      intro a ha b hb hab
      simp at hb
      subst hb
      obtain ⟨e, he, rfl⟩ := List.mem_map.1 ha
      exact hany (List.any_eq_true.2 ⟨e, he, by simp [hab]⟩)
    · intro e he
      rcases List.mem_append.1 he with he | he
      · exact hgs.sufs e he
      · simp at he; subst he; simp
    · intro e he s hs
      rcases List.mem_append.1 he with he | he
      · exact hgs.from_prod e he s hs
      · simp at he; subst he
        simp at hs; subst hs
        exact ⟨p, hp, rfl, by simp⟩

theorem same_of_key {gs : Groups} (h : (gs.map (·.1)).Nodup) {e e' : List SSym × List (List SSym)}
    (he : e ∈ gs) (he' : e' ∈ gs) (hk : e.1 = e'.1) : e = e' := by
  induction gs with
  | nil => cases he
  | cons x gs ih =>
    simp only [List.map_cons] at h
    have h' := List.nodup_cons.1 h
    rcases List.mem_cons.1 he with h1 | h1
    · rcases List.mem_cons.1 he' with h2 | h2
      · rw [h1, h2]
      · refine absurd (List.mem_map.2 ⟨e', h2, ?_⟩) h'.1
        rw [← h1, hk]
    · rcases List.mem_cons.1 he' with h2 | h2
      · refine absurd (List.mem_map.2 ⟨e, h1, ?_⟩) h'.1
        rw [← h2, hk]
      · exact ih h'.2 h1 h2

theorem two_le_length_of_ne {α : Type} {l : List α} {x y : α} (hx : x ∈ l) (hy : y ∈ l) (hne : x ≠ y) :
    2 ≤ l.length := by
  match l, hx, hy with
  | [a], hx, hy => simp at hx hy; exact absurd (hx.trans hy.symm) hne
  | _ :: _ :: _, _, _ => simp

theorem exists_ne_of_nodup {α : Type} {l : List α} (hnd : l.Nodup) (hlen : 2 ≤ l.length) (x : α) :
    ∃ y ∈ l, y ≠ x := by
  match l, hnd, hlen with
  | a :: b :: _, hnd, _ =>
    have hab : a ≠ b := by
      have := (List.nodup_cons.1 hnd).1
      intro e
      exact this (e ▸ List.mem_cons_self ..)
    by_cases ha : a = x
    · exact ⟨b, by simp, fun hb => hab (ha.trans hb.symm)⟩
    · exact ⟨a, by simp, ha⟩

/-! ### the post-condition in terms of productions -/

/-- another alternative of the same head begins with the same symbol (both empty counts as "the same") -/
def SharesFirst (g : G) (p : SProd) : Prop :=
  ∃ q ∈ g.prods, q.head = p.head ∧ q ≠ p ∧ q.body.take 1 = p.body.take 1

instance (g : G) (p : SProd) : Decidable (SharesFirst g p) := by unfold SharesFirst; infer_instance

/-- for every declared non-terminal: no alternative shares its first symbol, or all of them do -/
def UniformHeads (g : G) : Prop :=
  ∀ A ∈ g.nonterms, (∀ p ∈ g.prods, p.head = A → ¬ SharesFirst g p) ∨ (∀ p ∈ g.prods, p.head = A → SharesFirst g p)

instance (g : G) : Decidable (UniformHeads g) := by unfold UniformHeads; infer_instance

theorem prod_ext {p q : SProd} (hh : p.head = q.head) (h1 : p.body.take 1 = q.body.take 1)
    (h2 : p.body.drop 1 = q.body.drop 1) : p = q := by
  cases p with
  | mk ph pb =>
    cases q with
    | mk qh qb =>
      simp only at hh h1 h2
      subst hh
      have : pb = qb := by
        rw [← List.take_append_drop 1 pb, ← List.take_append_drop 1 qb, h1, h2]
      rw [this]

theorem lfStable_uniform {g : G} {A : String} (h : lfStable g A = true) :
    (∀ p ∈ g.prods, p.head = A → ¬ SharesFirst g p) ∨ (∀ p ∈ g.prods, p.head = A → SharesFirst g p) := by
  have hok := groupsOf_ok (prodsOf g.prods A)
  have hsound := groupsOf_sound (prodsOf g.prods A)
  have hgroup : ∀ p ∈ g.prods, p.head = A →
      ∃ e ∈ groupsOf (prodsOf g.prods A), e.1 = p.body.take 1 ∧ p.body.drop 1 ∈ e.2 := by
    intro p hp hh
    rw [groupsOf_eq]
    exact foldl_gstep_complete _ [] p (mem_prodsOf.2 ⟨hp, hh⟩)
  unfold lfStable at h
  simp only [Bool.or_eq_true, List.isEmpty_iff] at h
  rcases h with h | h
  · -- no group has two suffixes
    left
    intro p hp hh ⟨q, hq, hqh, hne, hfirst⟩
    obtain ⟨e, he, hk, hs⟩ := hgroup p hp hh
    obtain ⟨e', he', hk', hs'⟩ := hgroup q hq (hqh.trans hh)
    have hee : e' = e := same_of_key hok.keys he' he (by rw [hk', hk, hfirst])
    subst hee
    have hdiff : q.body.drop 1 ≠ p.body.drop 1 := fun hd => hne (prod_ext hqh hfirst hd)
    have hlen := two_le_length_of_ne hs' hs hdiff
    have : e' ∈ (groupsOf (prodsOf g.prods A)).filter (fun e => e.2.length ≥ 2) :=
      List.mem_filter.2 ⟨he, by simpa using hlen⟩
    rw [h] at this
    cases this
  · -- no group has exactly one suffix
    right
    intro p hp hh
    obtain ⟨e, he, hk, hs⟩ := hgroup p hp hh
    have hlen : 2 ≤ e.2.length := by
      have hne := (hsound e he).1
      have h1 : ¬ e.2.length = 1 := by
        intro h1
        have : e ∈ (groupsOf (prodsOf g.prods A)).filter (fun e => e.2.length = 1) :=
          List.mem_filter.2 ⟨he, by simpa using h1⟩
        rw [h] at this
        cases this
      have h0 : e.2.length ≠ 0 := fun h0 => hne (List.eq_nil_of_length_eq_zero h0)
      omega
    obtain ⟨s', hs', hne⟩ := exists_ne_of_nodup (hok.sufs e he) hlen (p.body.drop 1)
    obtain ⟨q, hq, hqk, hqs⟩ := hok.from_prod e he s' hs'
    have hq' := mem_prodsOf.1 hq
    refine ⟨q, hq'.1, hq'.2.trans hh.symm, ?_, by rw [hqk, hk]⟩
    intro hqp
    exact hne (by rw [← hqs, hqp])

/-- **what `LeftFactor` guarantees**: in the result, for every declared non-terminal, either no two
alternatives begin with the same symbol or every alternative begins like another one -/
theorem C09_leftfactor_uniformHeads {G₀ G' : G} (h : leftFactor G₀ = .ok G') : UniformHeads G' :=
  fun A hA => lfStable_uniform (lfLoop_stable _ G₀ G' h A hA)

/-- `Verify()` accepts the result -/
theorem C09_leftfactor_valid {G₀ G' : G} (hv : Valid G₀) (h : leftFactor G₀ = .ok G') : Valid G' := by
  have key : ∀ (g g' : G) (A : String) (ch : Bool), lfHead g A = .ok (g', ch) → Valid g → Valid g' := by
    intro g g' A ch hh hvg
    rcases lfHead_spec hh hvg.wellFormed with rfl | ⟨F, hF⟩
    · exact hvg
    · exact hF.valid hvg
  have hfold : ∀ (nts : List String) (st st' : G × Bool), Valid st.1 →
      nts.foldlM (fun (st : G × Bool) A => do
        let (g', ch) ← lfHead st.1 A
        pure (g', st.2 || ch)) st = .ok st' → Valid st'.1 := by
    intro nts
    induction nts with
    | nil => intro st st' hvs hs; cases hs; exact hvs
    | cons A nts ih =>
      intro st st' hvs hs
      rw [foldlM_cons] at hs
      obtain ⟨st₁, h₁, h₂⟩ := bind_eq_ok hs
      obtain ⟨⟨g₁, ch⟩, hh, hp⟩ := bind_eq_ok h₁
      cases hp
      exact ih _ st' (key _ _ _ _ hh hvs) h₂
  have hloop : ∀ (fuel : Nat) (g g' : G), lfLoop fuel g = .ok g' → Valid g → Valid g' := by
    intro fuel
    induction fuel with
    | zero => intro g g' hl; cases hl
    | succ fuel ih =>
      intro g g' hl hvg
      simp only [lfLoop] at hl
      obtain ⟨⟨g₁, ch⟩, hp, h'⟩ := bind_eq_ok hl
      have hv₁ : Valid g₁ := by
        unfold lfPass at hp
        obtain ⟨nts, _, hf⟩ := bind_eq_ok hp
        exact hfold nts (g, false) (g₁, ch) hvg hf
      cases ch with
      | true =>
        simp only [↓reduceIte] at h'
        exact ih g₁ g' h' hv₁
      | false =>
        simp only [Bool.false_eq_true, ↓reduceIte] at h'
        cases h'
        exact hv₁
  exact hloop _ G₀ G' h hv

/-- the result is left-factored (`Spec.C09.LeftFactored`) provided every non-terminal of the result that
has a production has an alternative whose first symbol no other alternative shares — the situation
`LeftFactor` is written for; without it see the known finding `C09-leftfactor-residual` -/
theorem C09_leftfactor_leftFactored_of_unique {G₀ G' : G} (hw : WellFormed G₀) (h : leftFactor G₀ = .ok G')
    (huniq : ∀ p ∈ G'.prods, ∃ q ∈ G'.prods, q.head = p.head ∧ ¬ SharesFirst G' q) :
    AlgoVerif.C09.Spec.LeftFactored G' := by
  have hw' := C08_leftfactor_wellFormed hw h
  have hU := C09_leftfactor_uniformHeads h
  intro p hp q hq hh hne hbody hfirst
  have hA := (hw'.2 p hp).1
  have hshare : SharesFirst G' p := by
    refine ⟨q, hq, hh.symm, fun e => hne e.symm, ?_⟩
    cases hpb : p.body with
    | nil => exact absurd hpb hbody
    | cons x xs =>
      rw [hpb] at hfirst
      cases hqb : q.body with
      | nil => rw [hqb] at hfirst; simp at hfirst
      | cons y ys =>
        rw [hqb] at hfirst
        simp only [List.head?_cons, Option.some.injEq] at hfirst
        simp [hfirst]
  rcases hU p.head hA with hnone | hall
  · exact hnone p hp rfl hshare
  · obtain ⟨r, hr, hrh, hrn⟩ := huniq p hp
    exact hrn (hall r hr hrh)

/-! ### a non-trivial instance: `S → a b | a c | d` -/

def leftFactorExample : G :=
  { terms := ["a", "b", "c", "d"]
    nonterms := ["S"]
    prods := [{ head := "S", body := [.term "a", .term "b"] }, { head := "S", body := [.term "a", .term "c"] },
              { head := "S", body := [.term "d"] }]
    start := "S" }

theorem leftFactorExample_run : Valid leftFactorExample ∧ Hygienic leftFactorExample ∧
    (leftFactor leftFactorExample).map showGrammar =
      .ok "start=S T={a,b,c,d} N={S,S′} P={S′→b; S′→c; S→a S′; S→d}" := by
  decide

/-- the hypotheses of the theorems are met by a grammar on which `LeftFactor` really folds a group -/
example : ∃ G', leftFactor leftFactorExample = .ok G' ∧ SameLanguage leftFactorExample G' ∧ UniformHeads G' ∧ Valid G' := by
  obtain ⟨hv, hh, hrun⟩ := leftFactorExample_run
  cases h : leftFactor leftFactorExample with
  | ok G' => exact ⟨G', rfl, C08_leftfactor hv hh h, C09_leftfactor_uniformHeads h, C09_leftfactor_valid hv h⟩
  | panic => rw [h] at hrun; cases hrun
  | diverge => rw [h] at hrun; cases hrun

end AlgoVerif.C08
