import AlgoVerif.Proofs.C15Avl
import AlgoVerif.Proofs.C01RbTop
/-!
# C15: structural invariants along histories, and the height bounds
-/
namespace AlgoVerif.C01
open Tree

variable {K V : Type}

/-- a structural invariant kept by the four mutators whenever they return (no comparator law needed) -/
structure KindInv (kind : Kind) (cmp : K → K → Int) (P : Tree K V → Prop) : Prop where
  nil : P .nil
  put : ∀ t k v t', P t → put kind cmp t k v = .ok t' → P t'
  delete : ∀ t k t' r, P t → delete kind cmp t k = .ok (t', r) → P t'
  deleteMin : ∀ t t' r, P t → deleteMin kind t = .ok (t', r) → P t'
  deleteMax : ∀ t t' r, P t → deleteMax kind t = .ok (t', r) → P t'

section
variable {kind : Kind} {cmp : K → K → Int} {P : Tree K V → Prop}

theorem bind_eq_ok {α β : Type} {x : Outcome α} {f : α → Outcome β} {b : β} (h : (x >>= f) = .ok b) :
    ∃ a, x = .ok a ∧ f a = .ok b := by
  cases x with
  | ok a => exact ⟨a, rfl, h⟩
  | panic => exact absurd h (by simp)
  | diverge => exact absurd h (by simp)

theorem foldUntil_select_inv (hk : KindInv kind cmp P) (p : K → V → Bool) :
    ∀ (xs : List (K × V)) (st : Outcome (Tree K V)), (∀ m, st = .ok m → P m) →
      ∀ m, (foldUntil (selectVisit kind cmp p) xs st).2 = .ok m → P m
  | [], st, hst, m, hm => hst m hm
  | (k, v) :: xs, st, hst, m, hm => by
    simp only [foldUntil, selectVisit] at hm
    refine foldUntil_select_inv hk p xs _ ?_ m hm
    intro m1 hm1
    obtain ⟨m0, e0, e1⟩ := bind_eq_ok hm1
    by_cases hp : p k v = true
    · simp only [hp, if_true] at e1
      exact hk.put _ _ _ _ (hst m0 e0) e1
    · simp only [hp, Outcome.pure_eq'] at e1
      have : m0 = m1 := by simpa using e1
      rw [← this]; exact hst m0 e0

theorem foldUntil_partition_inv (hk : KindInv kind cmp P) (p : K → V → Bool) :
    ∀ (xs : List (K × V)) (st : Outcome (Tree K V × Tree K V)), (∀ m u, st = .ok (m, u) → P m ∧ P u) →
      ∀ m u, (foldUntil (partitionVisit kind cmp p) xs st).2 = .ok (m, u) → P m ∧ P u
  | [], st, hst, m, u, hm => hst m u hm
  | (k, v) :: xs, st, hst, m, u, hm => by
    simp only [foldUntil, partitionVisit] at hm
    refine foldUntil_partition_inv hk p xs _ ?_ m u hm
    intro m1 u1 hm1
    obtain ⟨⟨m0, u0⟩, e0, e1⟩ := bind_eq_ok hm1
    obtain ⟨pm, pu⟩ := hst m0 u0 e0
    by_cases hp : p k v = true
    · simp only [hp, if_true] at e1
      obtain ⟨m', e2, e3⟩ := bind_eq_ok e1
      simp only [Outcome.pure_eq', Outcome.ok.injEq, Prod.mk.injEq] at e3
      obtain ⟨rfl, rfl⟩ := e3
      exact ⟨hk.put _ _ _ _ pm e2, pu⟩
    · simp only [hp] at e1
      obtain ⟨u', e2, e3⟩ := bind_eq_ok e1
      simp only [Outcome.pure_eq', Outcome.ok.injEq, Prod.mk.injEq] at e3
      obtain ⟨rfl, rfl⟩ := e3
      exact ⟨pm, hk.put _ _ _ _ pu e2⟩

end

section
variable {kind : Kind} {P : Tree K V → Prop}

/-- the three tables of a state satisfy `P` -/
def AllP (P : Tree K V → Prop) (s : State K V) : Prop := P s.1.root ∧ P s.2.1.root ∧ P s.2.2.root

theorem step_inv (hk : ∀ cmp : K → K → Int, KindInv kind cmp P) (s s' : State K V) (op : Op K V)
    (o : Out K V) (hs : AllP P s) (he : step kind s op = .ok (s', o)) : AllP P s' := by
  obtain ⟨⟨c1, q1, s1⟩, ⟨c2, q2, s2⟩, ⟨c3, q3, s3⟩⟩ := s
  obtain ⟨p1, p2, p3⟩ := hs
  have hk1 := hk c1
  cases op with
  | put k v =>
    simp only [step] at he
    obtain ⟨a, e0, e1⟩ := bind_eq_ok he
    cases e1
    exact ⟨hk1.put _ _ _ _ p1 e0, p2, p3⟩
  | delete k =>
    simp only [step] at he
    obtain ⟨⟨a, r⟩, e0, e1⟩ := bind_eq_ok he
    cases e1
    exact ⟨hk1.delete _ _ _ _ p1 e0, p2, p3⟩
  | deleteMin =>
    simp only [step] at he
    obtain ⟨⟨a, r⟩, e0, e1⟩ := bind_eq_ok he
    cases e1
    exact ⟨hk1.deleteMin _ _ _ p1 e0, p2, p3⟩
  | deleteMax =>
    simp only [step] at he
    obtain ⟨⟨a, r⟩, e0, e1⟩ := bind_eq_ok he
    cases e1
    exact ⟨hk1.deleteMax _ _ _ p1 e0, p2, p3⟩
  | deleteAll => cases he; exact ⟨hk1.nil, p2, p3⟩
  | swap => cases he; exact ⟨p2, p1, p3⟩
  | swapC => cases he; exact ⟨p3, p2, p1⟩
  | select i =>
    simp only [step] at he
    obtain ⟨a, e0, e1⟩ := bind_eq_ok he
    cases e1
    exact ⟨p1, p2, p3⟩
  | selectMatch p =>
    simp only [step] at he
    obtain ⟨m, e0, e1⟩ := bind_eq_ok he
    cases e1
    refine ⟨p1, ?_, p3⟩
    unfold selectMatch at e0
    by_cases hn : s1.isNil = true
    · cases s1 with
      | nil => simp only [traverse] at e0; cases e0; exact hk1.nil
      | node => simp at hn
    · rw [traverse_eq _ (by decide)] at e0
      exact foldUntil_select_inv hk1 p _ _ (fun m hm => by cases hm; exact hk1.nil) m e0
  | partitionMatch p =>
    simp only [step] at he
    obtain ⟨⟨m, u⟩, e0, e1⟩ := bind_eq_ok he
    cases e1
    refine ⟨p1, ?_⟩
    unfold partitionMatch at e0
    rw [traverse_eq _ (by decide)] at e0
    exact foldUntil_partition_inv hk1 p _ _
      (fun m u hm => by cases hm; exact ⟨hk1.nil, hk1.nil⟩) m u e0
  | size | isEmpty | height | get _ | min | max | floor _ | ceiling _ | rank _ | range _ _
  | rangeSize _ _ | all | allUntil _ | traverse _ _ | equal | equalSelf | equalOther | anyMatch _ | allMatch _
  | firstMatch _ =>
    cases he; exact ⟨p1, p2, p3⟩

theorem runFrom_inv (hk : ∀ cmp : K → K → Int, KindInv kind cmp P) :
    ∀ (ops : List (Op K V)) (s s' : State K V) (outs : List (Out K V)), AllP P s →
      runFrom kind s ops = .ok (s', outs) → AllP P s'
  | [], s, s', outs, hs, he => by cases he; exact hs
  | op :: ops, s, s', outs, hs, he => by
    simp only [runFrom] at he
    obtain ⟨⟨s1, o⟩, e0, e1⟩ := bind_eq_ok he
    obtain ⟨⟨s2, os⟩, e2, e3⟩ := bind_eq_ok e1
    cases e3
    exact runFrom_inv hk ops s1 s2 os (step_inv hk s s1 op o hs e0) e2

end

theorem avl_kindInv (cmp : K → K → Int) : KindInv (V := V) .avl cmp AVL where
  nil := trivial
  put := fun t k v t' ht he => by
    obtain ⟨t1, e1, e2, -⟩ := avlPut_avl (cmp := cmp) k v ht
    simp only [put, e1, Outcome.ok.injEq] at he
    subst he; exact e2
  delete := fun t k t' r ht he => by
    obtain ⟨t1, r1, e1, e2, -⟩ := avlDelete_avl (cmp := cmp) k ht
    simp only [delete, e1, Outcome.ok.injEq, Prod.mk.injEq] at he
    obtain ⟨rfl, -⟩ := he; exact e2
  deleteMin := fun t t' r ht he => by
    cases t with
    | nil => simp only [deleteMin, Outcome.ok.injEq, Prod.mk.injEq] at he; obtain ⟨rfl, -⟩ := he; trivial
    | node l k v s hh c rr =>
      obtain ⟨t1, m, e1, e2, -⟩ := avlDeleteMin_avl l k v s hh c rr ht
      simp only [deleteMin, e1, Outcome.ok_bind', Outcome.pure_eq', Outcome.ok.injEq, Prod.mk.injEq] at he
      obtain ⟨rfl, -⟩ := he; exact e2
  deleteMax := fun t t' r ht he => by
    cases t with
    | nil => simp only [deleteMax, Outcome.ok.injEq, Prod.mk.injEq] at he; obtain ⟨rfl, -⟩ := he; trivial
    | node l k v s hh c rr =>
      obtain ⟨t1, m, e1, e2, -⟩ := avlDeleteMax_avl rr l k v s hh c ht
      simp only [deleteMax, e1, Outcome.ok_bind', Outcome.pure_eq', Outcome.ok.injEq, Prod.mk.injEq] at he
      obtain ⟨rfl, -⟩ := he; exact e2

/-! ### height bounds -/

/-- Fibonacci numbers -/
def fib : Nat → Nat
  | 0 => 0
  | 1 => 1
  | n + 2 => fib n + fib (n + 1)

theorem fib_mono_succ : ∀ n, fib n ≤ fib (n + 1)
  | 0 => by decide
  | 1 => by decide
  | n + 2 => by
    have := fib_mono_succ n
    have := fib_mono_succ (n + 1)
    simp only [fib] at *
    omega

theorem fib_bound (a b na nb : Nat) (h1 : a ≤ b + 1) (h2 : b ≤ a + 1)
    (ia : fib (a + 2) ≤ na + 1) (ib : fib (b + 2) ≤ nb + 1) :
    fib (1 + max a b + 2) ≤ 1 + na + nb + 1 := by
  rcases Nat.lt_trichotomy a b with hlt | heq | hgt
  · have hb : b = a + 1 := by omega
    subst hb
    have hm : max a (a + 1) = a + 1 := Nat.max_eq_right (by omega)
    rw [hm]
    have e : 1 + (a + 1) + 2 = (a + 2) + 2 := by omega
    rw [e, fib]
    have e2 : a + 2 + 1 = a + 1 + 2 := by omega
    rw [e2]
    omega
  · subst heq
    rw [Nat.max_self]
    have e : 1 + a + 2 = (a + 1) + 2 := by omega
    rw [e, fib]
    have := fib_mono_succ (a + 1)
    have e2 : a + 1 + 1 = a + 2 := by omega
    rw [e2] at this ⊢
    omega
  · have ha : a = b + 1 := by omega
    subst ha
    have hm : max (b + 1) b = b + 1 := Nat.max_eq_left (by omega)
    rw [hm]
    have e : 1 + (b + 1) + 2 = (b + 2) + 2 := by omega
    rw [e, fib]
    have e2 : b + 2 + 1 = b + 1 + 2 := by omega
    rw [e2]
    omega

/-- an AVL tree of height `h` holds at least `fib (h + 2) - 1` keys -/
theorem avl_nodes_ge_fib : ∀ {t : Tree K V}, AVL t → fib (t.ht + 2) ≤ t.nodes + 1
  | .nil, _ => by simp [fib]
  | .node l k v s h c r, ha => by
    simp only [AVL_node] at ha
    obtain ⟨h0, h1, h2, hl, hr⟩ := ha
    have il := avl_nodes_ge_fib hl
    have ir := avl_nodes_ge_fib hr
    simp only [ht_node, nodes_node, h0]
    exact fib_bound l.ht r.ht l.nodes r.nodes h1 h2 il ir

theorem rb_height_le : ∀ {t : Tree K V}, RB t → t.realHeight ≤ 2 * bh t + (if t.isRed then 1 else 0)
  | .nil, _ => by simp [realHeight]
  | .node l k v s h c r, hrb => by
    simp only [RB_node] at hrb
    obtain ⟨hr, hcl, hb, hL, hR⟩ := hrb
    have il := rb_height_le hL
    have ir := rb_height_le hR
    rw [hr] at ir
    simp only [realHeight, bh_node, isRed_node]
    cases c
    · simp only [Bool.false_eq_true, if_false] at *
      have : (if l.isRed = true then 1 else 0) ≤ 1 := by split <;> omega
      omega
    · have := hcl rfl
      rw [this] at il
      simp only [Bool.false_eq_true, if_false, if_true] at *
      omega

theorem rb_nodes_ge_pow : ∀ {t : Tree K V}, RB t → 2 ^ bh t ≤ t.nodes + 1
  | .nil, _ => by simp
  | .node l k v s h c r, hrb => by
    simp only [RB_node] at hrb
    obtain ⟨hr, hcl, hb, hL, hR⟩ := hrb
    have il := rb_nodes_ge_pow hL
    have ir := rb_nodes_ge_pow hR
    rw [← hb] at ir
    simp only [bh_node, nodes_node]
    cases c
    · simp only [Bool.false_eq_true, if_false, Nat.pow_succ]
      omega
    · simp only [if_true, Nat.add_zero]
      omega

/-- a left-leaning red-black tree of height `h` with `n` keys has `2^h ≤ (n+1)^2`, i.e. `h ≤ 2·log2(n+1)` -/
theorem llrb_pow_height_le {t : Tree K V} (ht : LLRB t) : 2 ^ t.realHeight ≤ (t.nodes + 1) ^ 2 := by
  obtain ⟨hrb, hblack⟩ := ht
  have h1 := rb_height_le hrb
  rw [hblack] at h1
  simp only [Bool.false_eq_true, if_false, Nat.add_zero] at h1
  have h2 := rb_nodes_ge_pow hrb
  calc 2 ^ t.realHeight ≤ 2 ^ (2 * bh t) := Nat.pow_le_pow_right (by decide) h1
    _ = (2 ^ bh t) ^ 2 := by rw [Nat.mul_comm, Nat.pow_mul]
    _ ≤ (t.nodes + 1) ^ 2 := Nat.pow_le_pow_left h2 2

/-- the same bound in terms of real heights only -/
theorem balanced_nodes_ge_fib : ∀ {t : Tree K V}, Balanced t → fib (t.realHeight + 2) ≤ t.nodes + 1
  | .nil, _ => by simp [fib, realHeight]
  | .node l k v s h c r, hb => by
    obtain ⟨h1, h2, hl, hr⟩ := hb
    have il := balanced_nodes_ge_fib hl
    have ir := balanced_nodes_ge_fib hr
    simp only [realHeight, nodes_node]
    exact fib_bound l.realHeight r.realHeight l.nodes r.nodes h1 h2 il ir


end AlgoVerif.C01
