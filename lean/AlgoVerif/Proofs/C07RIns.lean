import AlgoVerif.Model.C07Radix
import AlgoVerif.Proofs.C07Quick3
/-!
# C07 — the cutoff insertion sort of the radix sorts (`radixsort/radixsort.go`, `insertion`) on a
range `[lo, hi]`, generic in the element type, and the comparator `bytesCmp` of Go's native string
order.
-/
namespace AlgoVerif.C07
open AlgoVerif

variable {α : Type}

/-- `a[lo..i]` is sorted except that `a[j]` may be smaller than elements before it. -/
structure RInsInv (cmp : α → α → Int) (a : Array α) (lo j i : Nat) : Prop where
  hi : i < a.size
  hlo : lo ≤ j
  hj : j ≤ i
  rest : ∀ (p q : Nat), lo ≤ p → (hpq : p < q) → (hq : q ≤ i) → p ≠ j → q ≠ j →
    cmp (a[p]'(by omega)) (a[q]'(by omega)) ≤ 0
  after : ∀ (q : Nat), (hjq : j < q) → (hq : q ≤ i) → cmp (a[j]'(by omega)) (a[q]'(by omega)) ≤ 0

theorem rInsInner_spec {cmp : α → α → Int} {lt : α → α → Bool} (tp : TotalPreorder cmp)
    (hlt : ∀ x y, lt x y = true ↔ cmp x y < 0) (lo : Nat) :
    ∀ (f : Nat) (j : Nat) (a : Array α) (i : Nat), j < f → RInsInv cmp a lo j i →
      ∃ a', rInsInner lt (lo : Int) f (j : Int) a = .ok a' ∧ a'.size = a.size ∧ a'.Perm a ∧
        (∀ p, (p < lo ∨ i + 1 ≤ p) → (h : p < a.size) → (h' : p < a'.size) → a'[p] = a[p]) ∧
        (∀ P : α → Prop, AllSeg P a lo (i+1) → AllSeg P a' lo (i+1)) ∧
        SortedSeg cmp a' lo (i+1) := by
  intro f
  induction f with
  | zero => intro j a i h; omega
  | succ f ih =>
    intro j a i hf inv
    have hi := inv.hi
    have hj := inv.hj
    have hlo := inv.hlo
    unfold rInsInner
    by_cases hj0 : j = lo
    · subst hj0
      simp only [gt_iff_lt, Int.lt_irrefl, ↓reduceIte]
      refine ⟨a, rfl, rfl, Array.Perm.refl _, fun _ _ _ _ => rfl, fun _ h => h, ?_⟩
      intro p q hp hpq hq hq'
      by_cases hp : p = j
      · subst hp; exact inv.after q hpq (by omega)
      · exact inv.rest p q (by omega) hpq (by omega) hp (by omega)
    · have hjpos : (j : Int) > lo := by omega
      have e1 : ((j : Int) - 1) = ((j - 1 : Nat) : Int) := by omega
      simp only [hjpos, ↓reduceIte, e1]
      rw [get_nat (by omega : j < a.size), get_nat (by omega : j - 1 < a.size)]
      simp only [ok_bind]
      by_cases hc : cmp a[j] a[j-1] < 0
      · have hc' : lt a[j] a[j-1] = true := (hlt _ _).2 hc
        simp only [hc', ↓reduceIte]
        rw [swap_ok (by omega) (by omega) (by omega) (by omega)]
        simp only [ok_bind, Int.toNat_natCast]
        have inv' : RInsInv cmp (a.swap j (j-1) (by omega) (by omega)) lo (j-1) i := by
          refine ⟨by simpa using hi, by omega, by omega, ?_, ?_⟩
          · intro p q hlp hpq hq hp hq'
            simp only [Array.getElem_swap]
            have r := inv.rest
            have af := inv.after
            split <;> split <;> grind
          · intro q hjq hq
            simp only [Array.getElem_swap]
            have r := inv.rest
            have af := inv.after
            split <;> split <;> grind
        obtain ⟨a', h1, h2, h3, h4, h5, h6⟩ := ih (j-1) _ i (by omega) inv'
        refine ⟨a', h1, by simpa using h2, h3.trans (Array.swap_perm _ _), ?_, ?_, h6⟩
        · intro p hp h h'
          rw [h4 p hp (by simpa using h) h']
          simp only [Array.getElem_swap]
          grind
        · intro P hP
          apply h5
          intro p hp1 hp2 hp; simp only [Array.getElem_swap]
          have := hP p; have := hP j; have := hP (j-1)
          grind
      · have hc' : ¬ lt a[j] a[j-1] = true := fun h => hc ((hlt _ _).1 h)
        simp only [hc']
        refine ⟨a, rfl, rfl, Array.Perm.refl _, fun _ _ _ _ => rfl, fun _ h => h, ?_⟩
        have hle : cmp a[j-1] a[j] ≤ 0 := tp.le_of_not_lt hc
        intro p q hp hpq hq hq'
        by_cases hqj : q = j
        · subst hqj
          by_cases hpj : p = q - 1
          · subst hpj; exact hle
          · exact tp.trans _ _ _ (inv.rest p (q-1) hp (by omega) (by omega) (by omega) (by omega)) hle
        · by_cases hpj : p = j
          · subst hpj; exact inv.after q hpq (by omega)
          · exact inv.rest p q hp hpq (by omega) hpj hqj

theorem rInsLoop_spec {cmp : α → α → Int} {lt : α → α → Bool} (tp : TotalPreorder cmp)
    (hlt : ∀ x y, lt x y = true ↔ cmp x y < 0) (lo n : Nat) :
    ∀ (f : Nat) (i : Nat) (a : Array α), lo ≤ i → i ≤ lo + n → lo + n ≤ a.size → lo + n - i < f →
      SortedSeg cmp a lo i →
      ∃ a', rInsLoop lt (lo : Int) (((lo + n : Nat) : Int) - 1) f (i : Int) a = .ok a' ∧
        a'.size = a.size ∧ a'.Perm a ∧
        (∀ p, (p < lo ∨ lo + n ≤ p) → (h : p < a.size) → (h' : p < a'.size) → a'[p] = a[p]) ∧
        (∀ P : α → Prop, AllSeg P a lo (lo + n) → AllSeg P a' lo (lo + n)) ∧
        SortedSeg cmp a' lo (lo + n) := by
  intro f
  induction f with
  | zero => intro i a _ _ _ h; omega
  | succ f ih =>
    intro i a hli hi hsz hf hs
    unfold rInsLoop
    by_cases hlt' : i < lo + n
    · have c : (i : Int) ≤ ((lo + n : Nat) : Int) - 1 := by omega
      simp only [c, ↓reduceIte]
      have inv : RInsInv cmp a lo i i := by
        refine ⟨by omega, hli, Nat.le_refl _, ?_, ?_⟩
        · intro p q hp hpq hq _ hqi
          exact hs p q hp hpq (by omega) (by omega)
        · intro q h1 h2; omega
      obtain ⟨a1, h1, h2, h3, h4, h5, h6⟩ := rInsInner_spec tp hlt lo (a.size + 1) i a i (by omega) inv
      rw [h1]
      simp only [ok_bind]
      have e : ((i : Int) + 1) = ((i + 1 : Nat) : Int) := by omega
      rw [e]
      obtain ⟨a2, g1, g2, g3, g4, g5, g6⟩ := ih (i+1) a1 (by omega) (by omega) (by omega) (by omega) h6
      refine ⟨a2, g1, by omega, g3.trans h3, ?_, ?_, g6⟩
      · intro p hp h h'
        rw [g4 p hp (by omega) h', h4 p (by omega) h (by omega)]
      · intro P hP
        apply g5
        have := h5 P (fun p hp1 hp2 h => hP p hp1 (by omega) h)
        intro p hp1 hp2 h
        by_cases hpi : p < i + 1
        · exact this p hp1 hpi h
        · rw [h4 p (by omega) (by omega) h]; exact hP p hp1 hp2 (by omega)
    · have c : ¬ (i : Int) ≤ ((lo + n : Nat) : Int) - 1 := by omega
      simp only [c, ↓reduceIte]
      have : i = lo + n := by omega
      subst this
      exact ⟨a, rfl, rfl, Array.Perm.refl _, fun _ _ _ _ => rfl, fun _ h => h, hs⟩

/-- `insertion(a, lo, hi)` with `hi = lo + n - 1` (possibly `lo - 1`, even `-1`) never panics or
diverges, sorts `a[lo .. lo+n)`, leaves the rest alone, is a permutation and preserves every
predicate that holds on the whole segment (`AllSeg` form; see `rInsertion_spec`). -/
theorem rInsertion_spec' {cmp : α → α → Int} {lt : α → α → Bool} (tp : TotalPreorder cmp)
    (hlt : ∀ x y, lt x y = true ↔ cmp x y < 0) (a : Array α) (lo n : Nat) (h : lo + n ≤ a.size) :
    ∃ a', rInsertion lt a (lo : Int) (((lo + n : Nat) : Int) - 1) = .ok a' ∧ a'.size = a.size ∧ a'.Perm a ∧
      (∀ p, (p < lo ∨ lo + n ≤ p) → (h : p < a.size) → (h' : p < a'.size) → a'[p] = a[p]) ∧
      (∀ P : α → Prop, AllSeg P a lo (lo + n) → AllSeg P a' lo (lo + n)) ∧
      SortedSeg cmp a' lo (lo + n) := by
  unfold rInsertion
  exact rInsLoop_spec tp hlt lo n (a.size + 1) lo a (Nat.le_refl _) (by omega) h (by omega)
    (by intro p q _ _ _ _; omega)

theorem rInsertion_spec {cmp : α → α → Int} {lt : α → α → Bool} (tp : TotalPreorder cmp)
    (hlt : ∀ x y, lt x y = true ↔ cmp x y < 0) (a : Array α) (lo n : Nat) (h : lo + n ≤ a.size) :
    ∃ a', rInsertion lt a (lo : Int) (((lo + n : Nat) : Int) - 1) = .ok a' ∧ a'.size = a.size ∧ a'.Perm a ∧
      (∀ p, (p < lo ∨ lo + n ≤ p) → a'[p]? = a[p]?) ∧ SortedSeg cmp a' lo (lo + n) ∧
      (∀ P : α → Prop, (∀ p, lo ≤ p → (hp : p < lo + n) → P (a[p]'(by omega))) →
        ∀ p, lo ≤ p → (hp : p < lo + n) → ∀ (h' : p < a'.size), P a'[p]) := by
  obtain ⟨a', h1, h2, h3, h4, h5, h6⟩ := rInsertion_spec' tp hlt a lo n h
  refine ⟨a', h1, h2, h3, ?_, h6, ?_⟩
  · intro p hp
    by_cases hps : p < a.size
    · rw [Array.getElem?_eq_getElem hps, Array.getElem?_eq_getElem (by omega), h4 p hp hps (by omega)]
    · rw [Array.getElem?_eq_none (by omega), Array.getElem?_eq_none (by omega)]
  · intro P hP p hp1 hp2 h'
    exact h5 P (fun p hp1 hp2 _ => hP p hp1 hp2) p hp1 hp2 h'

/-! ## Go's native string order as a comparator -/

/-- bytewise lexicographic three-way comparison -/
def bytesCmp : List UInt8 → List UInt8 → Int
  | [], [] => 0
  | [], _ :: _ => -1
  | _ :: _, [] => 1
  | x :: xs, y :: ys => if x < y then -1 else if y < x then 1 else bytesCmp xs ys

theorem bytesCmp_flip : ∀ (s t : List UInt8), bytesCmp s t < 0 ↔ 0 < bytesCmp t s
  | [], [] => by simp [bytesCmp]
  | [], _ :: _ => by simp [bytesCmp]
  | _ :: _, [] => by simp [bytesCmp]
  | x :: xs, y :: ys => by
    have ih := bytesCmp_flip xs ys
    simp only [bytesCmp]
    by_cases h1 : x < y <;> by_cases h2 : y < x <;> simp [h1, h2, ih]
    exact absurd h1 (UInt8.lt_asymm h2)

theorem bytesCmp_eq : ∀ (s t : List UInt8), bytesCmp s t = 0 → s = t
  | [], [] => by simp
  | [], _ :: _ => by simp [bytesCmp]
  | _ :: _, [] => by simp [bytesCmp]
  | x :: xs, y :: ys => by
    have ih := bytesCmp_eq xs ys
    simp only [bytesCmp]
    by_cases h1 : x < y <;> by_cases h2 : y < x <;> simp [h1, h2]
    intro h
    refine ⟨?_, ih h⟩
    exact UInt8.le_antisymm (UInt8.not_lt.1 h2) (UInt8.not_lt.1 h1)

theorem bytesCmp_trans : ∀ (s t u : List UInt8), bytesCmp s t ≤ 0 → bytesCmp t u ≤ 0 → bytesCmp s u ≤ 0
  | [], _, [] => by simp [bytesCmp]
  | [], _, _ :: _ => by simp [bytesCmp]
  | _ :: _, [], _ => by simp [bytesCmp]
  | _ :: _, _ :: _, [] => by
    intro _ h; simp only [bytesCmp] at h; omega
  | x :: xs, y :: ys, z :: zs => by
    have ih := bytesCmp_trans xs ys zs
    simp only [bytesCmp]
    intro h1 h2
    by_cases a1 : x < y
    · by_cases a2 : y < z
      · simp [UInt8.lt_trans a1 a2]
      · by_cases a3 : z < y
        · simp [a2, a3] at h2
        · have : y = z := UInt8.le_antisymm (UInt8.not_lt.1 a3) (UInt8.not_lt.1 a2)
          subst this; simp [a1]
    · by_cases a1' : y < x
      · simp [a1, a1'] at h1
      · have : x = y := UInt8.le_antisymm (UInt8.not_lt.1 a1') (UInt8.not_lt.1 a1)
        subst this
        simp only [a1, ↓reduceIte] at h1
        by_cases a2 : x < z
        · simp [a2]
        · by_cases a3 : z < x
          · simp [a2, a3] at h2
          · simp only [a2, a3, ↓reduceIte] at h2 ⊢
            exact ih h1 h2

theorem bytesCmp_tp : TotalPreorder bytesCmp := ⟨bytesCmp_flip, bytesCmp_trans⟩

theorem bytesLt_iff : ∀ (s t : List UInt8), bytesLt s t = true ↔ bytesCmp s t < 0
  | [], [] => by simp [bytesCmp, bytesLt]
  | [], _ :: _ => by simp [bytesCmp, bytesLt]
  | _ :: _, [] => by simp [bytesCmp, bytesLt]
  | x :: xs, y :: ys => by
    have ih := bytesLt_iff xs ys
    simp only [bytesCmp, bytesLt]
    by_cases h1 : x < y <;> by_cases h2 : y < x <;> simp [h1, h2, ih]

theorem bytesLe_iff : ∀ (s t : List UInt8), bytesLe s t = true ↔ bytesCmp s t ≤ 0
  | [], [] => by simp [bytesCmp, bytesLe]
  | [], _ :: _ => by simp [bytesCmp, bytesLe]
  | _ :: _, [] => by simp [bytesCmp, bytesLe]
  | x :: xs, y :: ys => by
    have ih := bytesLe_iff xs ys
    simp only [bytesCmp, bytesLe]
    by_cases h1 : x < y <;> by_cases h2 : y < x <;> simp [h1, h2, ih]

end AlgoVerif.C07
