import AlgoVerif.Proofs.C11Check
/-!
# C11 — facts about `resolveConflict` / `ResolveConflicts` (Model)

* `resolveConflict` never panics on a non-empty action list, whatever the iteration order (the D18 patch);
* it returns one of the actions it was given;
* the table after `resolveAll` has the GOTO part unchanged and every cell is a subset of a raw cell
  (so a validated raw table stays valid).
-/
namespace AlgoVerif.C11.Sound
open AlgoVerif AlgoVerif.Gram AlgoVerif.C11 AlgoVerif.C11.Spec

theorem pairUp_map_fst (a : String) : ∀ (acts : List Action) (ps : List (Action × Handle)),
    pairUp a acts = some ps → ps.map (·.1) = acts
  | [], ps, h => by simp [pairUp] at h; subst h; rfl
  | x :: xs, ps, h => by
    unfold pairUp at h
    cases hh : handleOfAction a x with
    | none => simp [hh] at h
    | some hd =>
      cases hr : pairUp a xs with
      | none => simp [hh, hr] at h
      | some r =>
        simp [hh, hr] at h
        subst h
        simp [pairUp_map_fst a xs r hr]

theorem maxLoop_mem (ls : List Level) : ∀ (ps : List (Action × Handle)) (mx r : Action × Handle),
    maxLoop ls ps mx = some r → r = mx ∨ r ∈ ps
  | [], mx, r, h => by simp [maxLoop] at h; exact Or.inl h.symm
  | p :: ps, mx, r, h => by
    unfold maxLoop at h
    cases hc : compareAH ls p mx with
    | none => simp [hc] at h
    | some c =>
      simp only [hc] at h
      by_cases hpos : c > 0
      · simp only [hpos, if_true] at h
        rcases maxLoop_mem ls ps p r h with h' | h'
        · exact Or.inr (by rw [h']; simp)
        · exact Or.inr (List.mem_cons_of_mem _ h')
      · simp only [hpos, if_false] at h
        rcases maxLoop_mem ls ps mx r h with h' | h'
        · exact Or.inl h'
        · exact Or.inr (List.mem_cons_of_mem _ h')

/-- `resolveConflict` never panics on a non-empty cell, for every iteration order -/
theorem resolveConflict_no_panic (ls : List Level) (a : String) (acts : List Action) (hne : acts ≠ []) :
    resolveConflict ls a acts ≠ Outcome.panic := by
  unfold resolveConflict
  cases hp : pairUp a acts with
  | none => simp
  | some ps =>
    cases ps with
    | nil =>
      have := pairUp_map_fst a acts [] hp
      simp at this
      exact absurd this hne
    | cons p ps =>
      simp only
      cases maxLoop ls (p :: ps) p <;> simp

/-- the resolution is one of the conflicting actions -/
theorem resolveConflict_mem (ls : List Level) (a : String) (acts : List Action) (act : Action)
    (h : resolveConflict ls a acts = Outcome.ok (some act)) : act ∈ acts := by
  unfold resolveConflict at h
  cases hp : pairUp a acts with
  | none => simp [hp] at h
  | some ps =>
    rw [hp] at h
    cases ps with
    | nil => simp at h
    | cons p ps =>
      simp only at h
      cases hm : maxLoop ls (p :: ps) p with
      | none => simp [hm] at h
      | some mx =>
        simp only [hm, Outcome.ok.injEq, Option.some.injEq] at h
        have hmap := pairUp_map_fst a acts (p :: ps) hp
        have hmem : mx ∈ p :: ps := by
          rcases maxLoop_mem ls (p :: ps) p mx hm with h' | h'
          · rw [h']; simp
          · exact h'
        rw [← hmap, ← h]
        exact List.mem_map_of_mem hmem

/-- every entry of the table is (a subset of) an entry of `T0` with the same key, and the GOTO part is `T0`'s -/
def Within (T0 T : Table) : Prop :=
  T.gotos = T0.gotos ∧ ∀ e ∈ T.actions, ∃ acts, (e.1, acts) ∈ T0.actions ∧ ∀ x ∈ e.2, x ∈ acts

theorem within_refl (T : Table) : Within T T :=
  ⟨rfl, fun e he => ⟨e.2, he, fun _ hx => hx⟩⟩

theorem within_setCell {T0 T : Table} (h : Within T0 T) (s : Int) (a : String) (act : Action) (acts : List Action)
    (he : ((s, a), acts) ∈ T0.actions) (hact : act ∈ acts) : Within T0 (T.setCell s a [act]) := by
  refine ⟨h.1, ?_⟩
  intro e hmem
  unfold Table.setCell at hmem
  simp only [List.mem_map] at hmem
  obtain ⟨e0, he0, heq⟩ := hmem
  by_cases hk : (e0.1 == (s, a)) = true
  · simp only [hk, if_true] at heq
    subst heq
    have : e0.1 = (s, a) := by simpa using hk
    exact ⟨acts, by rw [this]; exact he, by intro x hx; simp at hx; rw [hx]; exact hact⟩
  · simp only [hk] at heq
    subst heq
    exact h.2 e0 he0

theorem resolveCells_within (ls : List Level) (order : Int → String → List Action → List Action)
    (T0 : Table) (hord : ∀ s a acts x, x ∈ order s a acts → x ∈ acts) :
    ∀ (es : List ((Int × String) × List Action)) (acc res : Table × Verdict),
      (∀ e ∈ es, e ∈ T0.actions) → Within T0 acc.1 →
      resolveCells ls order es acc = Outcome.ok res → Within T0 res.1
  | [], acc, res, _, hw, h => by
    simp only [resolveCells, Outcome.ok.injEq] at h; subst h; exact hw
  | e :: es, acc, res, hes, hw, h => by
    have hes' : ∀ e' ∈ es, e' ∈ T0.actions := fun e' he' => hes e' (List.mem_cons_of_mem _ he')
    unfold resolveCells at h
    by_cases hlen : e.2.length ≤ 1
    · simp only [hlen, if_true] at h
      exact resolveCells_within ls order T0 hord es acc res hes' hw h
    · simp only [hlen, if_false] at h
      cases hr : resolveConflict ls e.1.2 (order e.1.1 e.1.2 e.2) with
      | panic => simp [hr] at h
      | diverge => simp [hr] at h
      | ok o =>
        cases o with
        | none =>
          simp only [hr] at h
          exact resolveCells_within ls order T0 hord es (acc.1, Verdict.conflict) res hes' hw h
        | some act =>
          simp only [hr] at h
          have hact : act ∈ e.2 := hord _ _ _ _ (resolveConflict_mem ls _ _ act hr)
          have he : ((e.1.1, e.1.2), e.2) ∈ T0.actions := hes e (by simp)
          exact resolveCells_within ls order T0 hord es _ res hes'
            (within_setCell hw e.1.1 e.1.2 act e.2 he hact) h

theorem resolveAll_within (ls : List Level) (order : Int → String → List Action → List Action)
    (T0 : Table) (hord : ∀ s a acts x, x ∈ order s a acts → x ∈ acts) (res : Table × Verdict)
    (h : resolveAll ls order T0 = Outcome.ok res) : Within T0 res.1 := by
  unfold resolveAll at h
  by_cases hl : levelsOK ls = true
  · simp only [hl, Bool.not_true, Bool.false_eq_true, if_false] at h
    exact resolveCells_within ls order T0 hord T0.actions _ res (fun _ he => he) (within_refl T0) h
  · simp only [hl, Bool.not_false, if_true, Outcome.ok.injEq] at h
    subst h; exact within_refl T0

/-- a table within a validated raw table is a `SoundTable` -/
theorem soundTable_of_within (g : SGrammar) (b : Built) (T : Table)
    (hv : soundOK g b = true) (hw : Within b.table T) :
    SoundTable g b.start (itemsAt b.states) T.toTbl := by
  apply soundTable_of_check g b T.toTbl hv
  · intro s a act hmem
    obtain ⟨acts, he, hact⟩ := mem_cell (T := T) hmem
    obtain ⟨acts0, he0, hsub⟩ := hw.2 _ he
    exact ⟨acts0, he0, hsub _ hact⟩
  · intro s A t hg
    have := mem_goto (T := T) hg
    rw [hw.1] at this
    exact this

end AlgoVerif.C11.Sound
