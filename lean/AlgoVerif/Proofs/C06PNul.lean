import AlgoVerif.Proofs.C06PSim
/-!
# C06 — keys without a trailing 0x00 byte never clash in the Patricia trie
-/
namespace AlgoVerif.C06
variable {V : Type}

theorem allzero_of_kbit (b : Key) (h : ∀ j, kbit b j = false) : ∀ x ∈ b, x = 0 := by
  induction b with
  | nil => simp
  | cons y ys ih =>
    intro x hx
    have hy : y = 0 := by
      apply u8_eq_of_testBit
      intro j hj
      have := h (7 - j)
      rw [kbit_cons_lt _ _ (by omega)] at this
      have h7 : 7 - (7 - j) = j := by omega
      rw [h7] at this
      simpa using this
    have hys : ∀ j, kbit ys j = false := by
      intro j
      have := h (j + 8)
      rwa [kbit_cons_add] at this
    rcases List.mem_cons.mp hx with rfl | hx
    · exact hy
    · exact ih hys x hx

theorem nil_of_allzero_noTrail (b : Key) (h : ∀ j, kbit b j = false) (hb : b.getLast? ≠ some 0) : b = [] := by
  cases hl : b.getLast? with
  | none => exact List.getLast?_eq_none_iff.mp hl
  | some x =>
    have hx : x ∈ b := List.mem_of_getLast? hl
    have := allzero_of_kbit b h x hx
    subst this
    exact absurd hl hb

theorem noTrail_tail {x : UInt8} {xs : Key} (h : (x :: xs).getLast? ≠ some 0) : xs.getLast? ≠ some 0 := by
  cases xs with
  | nil => simp
  | cons y ys => rwa [List.getLast?_cons_cons] at h

/-- two keys without trailing 0x00 whose zero-padded bit sequences coincide are equal -/
theorem eq_of_kbit_eq (a b : Key) (h : ∀ j, kbit a j = kbit b j) (ha : a.getLast? ≠ some 0) (hb : b.getLast? ≠ some 0) :
    a = b := by
  induction a generalizing b with
  | nil =>
    symm
    apply nil_of_allzero_noTrail b _ hb
    intro j; rw [← h j, kbit_nil]
  | cons x xs ih =>
    cases b with
    | nil =>
      apply nil_of_allzero_noTrail (x :: xs) _ ha
      intro j; rw [h j, kbit_nil]
    | cons y ys =>
      obtain ⟨hxy, hrest⟩ := (BitString.kbit_cons_eq_iff x y xs ys).mp h
      subst hxy
      rw [ih ys hrest (noTrail_tail ha) (noTrail_tail hb)]

theorem diffPos_ne_zero_of_noTrail {a b : Key} (ha : a.getLast? ≠ some 0) (hb : b.getLast? ≠ some 0) (hne : a ≠ b) :
    BitString.diffPos a b ≠ 0 := by
  intro h
  exact hne (eq_of_kbit_eq a b ((BitString.diffPos_eq_zero_iff a b).mp h) ha hb)

namespace Spec

theorem Map.mem_put_subset (m : Map V) (k : Key) (v : V) (e : Key × V) (h : e ∈ Map.put m k v) : e = (k, v) ∨ e ∈ m := by
  induction m with
  | nil => simpa [Map.put] using h
  | cons x m ih =>
    obtain ⟨k', v'⟩ := x
    simp only [Map.put] at h
    split at h
    · rcases List.mem_cons.mp h with h | h
      · exact .inl h
      · exact .inr h
    · split at h
      · rcases List.mem_cons.mp h with h | h
        · exact .inl h
        · exact .inr (List.mem_cons_of_mem _ h)
      · rcases List.mem_cons.mp h with h | h
        · exact .inr (h ▸ List.mem_cons_self ..)
        · rcases ih h with h | h
          · exact .inl h
          · exact .inr (List.mem_cons_of_mem _ h)

end Spec

/-- a history in scope whose stored keys have no trailing 0x00 byte is covered by `PatriciaHistory` -/
theorem patriciaHistory_of_noTrail (ops : List (Op V)) (m : Spec.Map V) (hm : ∀ e ∈ m, e.1.getLast? ≠ some 0)
    (hs : ∀ op ∈ ops, op.patriciaScope = true)
    (hk : ∀ op ∈ ops, ∀ k v, op = .put k v → k.getLast? ≠ some 0) : PatriciaHistory m ops = true := by
  induction ops generalizing m with
  | nil => rfl
  | cons op ops ih =>
    simp only [PatriciaHistory, Bool.and_eq_true]
    refine ⟨⟨hs op (List.mem_cons_self ..), ?_⟩, ?_⟩
    · cases op <;> try rfl
      rename_i k v
      simp only [Op.noClash, List.all_eq_true, Bool.or_eq_true, beq_iff_eq, bne_iff_ne, ne_eq]
      intro e he
      by_cases hne : e.1 = k
      · exact .inl hne
      · exact .inr (diffPos_ne_zero_of_noTrail (hm e he) (hk _ (List.mem_cons_self ..) k v rfl) hne)
    · apply ih _ _ (fun o ho => hs o (List.mem_cons_of_mem _ ho)) (fun o ho => hk o (List.mem_cons_of_mem _ ho))
      have hsc := hs op (List.mem_cons_self ..)
      cases op <;> simp only [Spec.Map.step] <;> try exact hm
      · rename_i k v
        intro e he
        rcases Spec.Map.mem_put_subset m k v e he with rfl | he
        · exact hk _ (List.mem_cons_self ..) k v rfl
        · exact hm e he
      · simp [Op.patriciaScope] at hsc
      · simp [Op.patriciaScope] at hsc
      · simp [Op.patriciaScope] at hsc
      · simp

end AlgoVerif.C06
