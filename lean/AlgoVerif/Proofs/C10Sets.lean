import AlgoVerif.Model.C10
/-! Lemmas about the list-as-set operations of `Model/C10.lean`. -/
namespace AlgoVerif.C10
variable {α : Type} [DecidableEq α]

theorem mem_union {a b : List α} {x : α} : x ∈ union a b ↔ x ∈ a ∨ x ∈ b := by
  induction b generalizing a with
  | nil => simp [union]
  | cons y b ih =>
    simp only [union]
    rw [ih]
    by_cases h : y ∈ a
    · simp only [h, if_true, List.mem_cons]
      constructor
      · rintro (h1 | h1)
        · exact Or.inl h1
        · exact Or.inr (Or.inr h1)
      · rintro (h1 | h1 | h1)
        · exact Or.inl h1
        · subst h1; exact Or.inl h
        · exact Or.inr h1
    · simp only [h, if_false, List.mem_append, List.mem_cons, List.not_mem_nil, or_false]
      constructor
      · rintro ((h1 | h1) | h1)
        · exact Or.inl h1
        · exact Or.inr (Or.inl h1)
        · exact Or.inr (Or.inr h1)
      · rintro (h1 | h1 | h1)
        · exact Or.inl (Or.inl h1)
        · exact Or.inl (Or.inr h1)
        · exact Or.inr h1

theorem length_le_union (a b : List α) : a.length ≤ (union a b).length := by
  induction b generalizing a with
  | nil => simp [union]
  | cons y b ih =>
    simp only [union]
    by_cases h : y ∈ a
    · simp only [h, if_true]; exact ih a
    · simp only [h, if_false]
      have := ih (a ++ [y])
      simp at this
      omega

/-- "`Size()` did not grow" means nothing new was offered -/
theorem subset_of_union_length {a b : List α} (h : ¬ (union a b).length > a.length) :
    ∀ x ∈ b, x ∈ a := by
  induction b generalizing a with
  | nil => intro x hx; cases hx
  | cons y b ih =>
    simp only [union] at h
    by_cases hy : y ∈ a
    · simp only [hy, if_true] at h
      intro x hx
      rcases List.mem_cons.1 hx with rfl | hx
      · exact hy
      · exact ih h x hx
    · simp only [hy, if_false] at h
      have := length_le_union (a ++ [y]) b
      simp at this
      omega

theorem union_eq_self {a b : List α} (h : ∀ x ∈ b, x ∈ a) : union a b = a := by
  induction b generalizing a with
  | nil => rfl
  | cons y b ih =>
    simp only [union]
    have hy : y ∈ a := h y (List.mem_cons_self ..)
    simp only [hy, if_true]
    exact ih fun x hx => h x (List.mem_cons_of_mem _ hx)

theorem union_eq_self_of_length {a b : List α} (h : ¬ (union a b).length > a.length) : union a b = a :=
  union_eq_self (subset_of_union_length h)

theorem mem_insertNew {x y : α} {l : List α} : x ∈ insertNew y l ↔ x = y ∨ x ∈ l := by
  unfold insertNew
  by_cases h : y ∈ l
  · simp only [h, if_true]
    constructor
    · exact Or.inr
    · rintro (rfl | h1)
      · exact h
      · exact h1
  · simp only [h, if_false, List.mem_append, List.mem_singleton]
    constructor
    · rintro (h1 | h1)
      · exact Or.inr h1
      · exact Or.inl h1
    · rintro (h1 | h1)
      · exact Or.inr h1
      · exact Or.inl h1

theorem mem_dedup {x : α} {l : List α} : x ∈ dedup l ↔ x ∈ l := by
  simp [dedup, mem_union]

theorem upd_same {β : Type} (f : α → β) (a : α) (v : β) : upd f a v a = v := by simp [upd]

theorem upd_other {β : Type} (f : α → β) {a x : α} (v : β) (h : x ≠ a) : upd f a v x = f x := by
  simp [upd, h]

end AlgoVerif.C10
