import AlgoVerif.Proofs.C17Impl
/-!
Quick-find: `id[i]` itself is the representative.  The relabelling loop of `Union` is the `merge`
step on representative functions.
-/
namespace AlgoVerif.C17
open AlgoVerif.C17.Spec

theorem relabel_size (pid qid : Int) (id : Array Int) (k : Nat) :
    (QuickFind.relabel pid qid id k).size = id.size := by
  induction k with
  | zero => rfl
  | succ k ih => simp only [QuickFind.relabel]; split <;> simp [ih]

/-- after `k` iterations of `for i := range u.id { if u.id[i] == pid { u.id[i] = qid } }` -/
theorem relabel_getD (pid qid : Int) (id : Array Int) (k : Nat) (hk : k ≤ id.size) :
    ∀ j, (QuickFind.relabel pid qid id k).getD j 0 =
      if j < k ∧ id.getD j 0 = pid then qid else id.getD j 0 := by
  induction k with
  | zero => simp [QuickFind.relabel]
  | succ k ih =>
    have ih := ih (by omega)
    intro j
    have hkk : (QuickFind.relabel pid qid id k).getD k 0 = id.getD k 0 := by
      rw [ih k]; simp
    simp only [QuickFind.relabel, hkk]
    by_cases hp : id.getD k 0 = pid
    · simp only [hp, if_true]
      rw [getD_set _ _ _ _ (by rw [relabel_size]; omega), ih j]
      by_cases hjk : j = k
      · subst hjk; simp [hp]
      · have : j < k + 1 ↔ j < k := by omega
        simp [hjk, this]
    · simp only [hp, if_false]
      rw [ih j]
      by_cases hjk : j = k
      · subst hjk; simp only [hp, and_false, if_false]
      · have : j < k + 1 ↔ j < k := by omega
        simp [this]

theorem par_relabel {n : Nat} {id : Array Int} (pid qid : Int) (hs : id.size = n) {i : Int}
    (hi : Valid n i) :
    par (QuickFind.relabel pid qid id id.size) i = if par id i = pid then qid else par id i := by
  have := hi.1; have := hi.2
  unfold par
  rw [relabel_getD _ _ _ _ (Nat.le_refl _)]
  have : i.toNat < id.size := by omega
  simp [this]

/-- what holds of a quick-find structure after the history `us` -/
structure QFInv (n : Nat) (us : List (Int × Int)) (u : QuickFind) : Prop where
  size : u.id.size = n
  repr : Represents n us (par u.id)
  roots : u.count = ((List.range n).countP fun (i : Nat) => par u.id (i : Int) == (i : Int))
  merges : u.count + numMerges n us = n

theorem Represents.ext {n us rt rt'} (R : Represents n us rt) (h : ∀ i, Valid n i → rt' i = rt i) :
    Represents n us rt' where
  valid i hi := by rw [h i hi]; exact R.valid i hi
  idem i hi := by rw [h i hi, h _ (R.valid i hi)]; exact R.idem i hi
  conn i j hi hj := by rw [h i hi, h j hj]; exact R.conn i j hi hj

theorem QFInv.init (n : Nat) : QFInv n [] (QuickFind.new n) := by
  have I := QUInv.init n
  obtain ⟨rt, R, hre⟩ := I.repr
  have hrt : ∀ i, Valid n i → par (iota n) i = rt i := fun i hi =>
    ((hre i hi).unique (.root hi (par_iota hi))).symm ▸ par_iota hi
  refine ⟨size_iota n, R.ext hrt, ?_, by simp [QuickFind.new, numMerges, mergesAfter]⟩
  have := rootCount_iota n
  unfold rootCount at this
  show ((n : Nat) : Int) = ((List.range n).countP fun (i : Nat) => par (iota n) (i : Int) == (i : Int))
  rw [this]

theorem QuickFind.find_valid {n} {u : QuickFind} {p : Int} (hs : u.id.size = n) (h : Valid n p) :
    u.find p = .ok (par u.id p, true) := by
  simp [QuickFind.find, QuickFind.isValid, decide_valid hs, h, idx_ok hs h]

theorem QuickFind.find_invalid {n} {u : QuickFind} {p : Int} (hs : u.id.size = n)
    (h : ¬ Valid n p) : u.find p = .ok (-1, false) := by
  simp [QuickFind.find, QuickFind.isValid, decide_valid hs, h]

theorem QFInv.skip {n us u p q} (I : QFInv n us u)
    (h : ¬ (Valid n p ∧ Valid n q) ∨ Conn n us p q) : QFInv n (us ++ [(p, q)]) u :=
  ⟨I.size, I.repr.skip h, I.roots, by rw [numMerges_skip h]; exact I.merges⟩

theorem QuickFind.union_inv {n us} {u : QuickFind} (I : QFInv n us u) (p q : Int) :
    ∃ u', u.union p q = .ok u' ∧ QFInv n (us ++ [(p, q)]) u' := by
  have hs := I.size
  have R := I.repr
  by_cases hv : Valid n p ∧ Valid n q
  · by_cases he : par u.id p = par u.id q
    · refine ⟨u, ?_, I.skip (.inr ((R.conn p q hv.1 hv.2).1 he))⟩
      simp [QuickFind.union, QuickFind.isValid, decide_valid hs, hv,
        QuickFind.find_valid hs hv.1, QuickFind.find_valid hs hv.2, he]
    · have hnc : ¬ Conn n us p q := fun h => he ((R.conn p q hv.1 hv.2).2 h)
      refine ⟨{ count := u.count - 1, id := QuickFind.relabel (par u.id p) (par u.id q) u.id u.id.size },
        ?_, ?_, ?_, ?_, ?_⟩
      · simp [QuickFind.union, QuickFind.isValid, decide_valid hs, hv,
          QuickFind.find_valid hs hv.1, QuickFind.find_valid hs hv.2, he]
      · simp [relabel_size, hs]
      · exact (R.merge hv.1 hv.2).ext (fun i hi => par_relabel _ _ hs hi)
      · have h1 := R.merge_count hv.1 hv.2 he
        have h2 := I.roots
        have h3 : ((List.range n).countP fun (i : Nat) =>
              par (QuickFind.relabel (par u.id p) (par u.id q) u.id u.id.size) (i : Int) == (i : Int)) =
            ((List.range n).countP fun (i : Nat) =>
              (if par u.id (i : Int) = par u.id p then par u.id q else par u.id (i : Int)) == (i : Int)) := by
          apply List.countP_congr
          intro i hi
          rw [par_relabel _ _ hs (valid_cast.2 (List.mem_range.1 hi))]
        show u.count - 1 = _
        rw [h3]; omega
      · show u.count - 1 + _ = _
        rw [numMerges_merge hv.1 hv.2 hnc]; have := I.merges; omega
  · refine ⟨u, ?_, I.skip (.inl hv)⟩
    simp only [QuickFind.union, QuickFind.isValid, decide_valid hs]
    by_cases h1 : Valid n p <;> by_cases h2 : Valid n q <;> simp_all

theorem QuickFind.run_inv {n} (ops : List (Int × Int)) : ∀ {us} {u : QuickFind},
    QFInv n us u → ∃ u', u.run ops = .ok u' ∧ QFInv n (us ++ ops) u' := by
  induction ops with
  | nil => intro us u I; exact ⟨u, rfl, by simpa using I⟩
  | cons x ops ih =>
    intro us u I
    obtain ⟨p, q⟩ := x
    obtain ⟨u1, h1, I1⟩ := QuickFind.union_inv I p q
    obtain ⟨u2, h2, I2⟩ := ih I1
    exact ⟨u2, by simp [QuickFind.run, h1, h2], by simpa using I2⟩

theorem QuickFind.tracks {n us} {u : QuickFind} (I : QFInv n us u) :
    Tracks n us u.find u.isConnected u.getCount := by
  have hs := I.size
  refine tracks_of_represents I.repr (fun p hp => QuickFind.find_valid hs hp)
    (fun p hp => QuickFind.find_invalid hs hp) ?_ ?_ I.roots I.merges
  · intro p q hp hq
    simp [QuickFind.isConnected, QuickFind.isValid, decide_valid hs, hp, hq,
      QuickFind.find_valid hs hp, QuickFind.find_valid hs hq]
  · intro p q h
    simp only [QuickFind.isConnected, QuickFind.isValid, decide_valid hs]
    by_cases h1 : Valid n p <;> by_cases h2 : Valid n q <;> simp_all

end AlgoVerif.C17
