import AlgoVerif.Proofs.C08Total5
/-!
# Totality, part 6: `OrderNonTerminals` returns (used by `EliminateLeftRecursion` and `LeftFactor`)
-/
namespace AlgoVerif.C08
open AlgoVerif AlgoVerif.Gram AlgoVerif.C08.Spec

theorem visitPass_eq_reachPass (ps : List SProd) (v : List String) : visitPass ps v = reachPass ps v := rfl

theorem bodyUniverse_cons (p : SProd) (ps : List SProd) :
    (bodyUniverse (p :: ps)).length = (bodyNTs p.body).length + (bodyUniverse ps).length := by
  simp [bodyUniverse]

theorem bodyUniverse_insertBy (lt : SProd → SProd → Bool) (x : SProd) (l : List SProd) :
    (bodyUniverse (insertBy lt x l)).length = (bodyNTs x.body).length + (bodyUniverse l).length := by
  induction l with
  | nil => simp [insertBy, bodyUniverse]
  | cons a l ih =>
    simp only [insertBy]
    split
    · rw [bodyUniverse_cons]
    · rw [bodyUniverse_cons, ih, bodyUniverse_cons]; omega

theorem bodyUniverse_sortBy (lt : SProd → SProd → Bool) (l : List SProd) :
    (bodyUniverse (sortBy lt l)).length = (bodyUniverse l).length := by
  unfold sortBy
  have : ∀ (l acc : List SProd), (bodyUniverse (l.foldl (fun acc x => insertBy lt x acc) acc)).length
      = (bodyUniverse acc).length + (bodyUniverse l).length := by
    intro l
    induction l with
    | nil => intro acc; simp [bodyUniverse]
    | cons a l ih =>
      intro acc
      simp only [List.foldl_cons]
      rw [ih, bodyUniverse_insertBy, bodyUniverse_cons]; omega
  have h := this l []
  simpa [bodyUniverse] using h

/-- `OrderNonTerminals` never runs out of fuel -/
theorem orderNT_total (g : G) : ∃ nts, orderNT g = .ok nts := by
  have hb : (bodyUniverse g.prods).length ≤ sizeOf g := by
    have := bodyUniverse_length g.prods 0
    simp only [Nat.zero_add] at this
    exact Nat.le_trans this (Nat.le_add_left _ _)
  obtain ⟨y, hy⟩ := reachLike_total (sortBy prodLt g.prods) g.start (sizeOf g + 2)
    (by rw [bodyUniverse_sortBy]; omega)
  unfold orderNT
  have : iterFix (visitPass (sortBy prodLt g.prods)) (sizeOf g + 2) [g.start] = some y := hy
  simp only [this, ofOpt, bind, Outcome.bind, pure]
  exact ⟨_, rfl⟩

end AlgoVerif.C08
