import AlgoVerif.Proofs.C14Build
/-!
# C14 proofs — soundness of the executable certificates of `Spec/C14.lean`

* `closure_sound`: what the worklist closure marks is reachable.
* `sccCertificate_sound`: a passing SCC certificate implies that the id table partitions the vertices exactly
  by mutual reachability (and `count` is the number of classes).
* `sptCertificate_sound`: `distTo[s] = 0`, no relaxable edge, and an answer that realises its distance imply
  that the answer is a shortest path (and `none` answers are unreachable vertices).
-/
namespace AlgoVerif.C14

/-! ## closure -/

/-- `q` is listed in `adj[p]` -/
def ListArc (adj : Array (List Nat)) (p q : Nat) : Prop := q ∈ adj.getD p []

theorem getD_set!_true {a : Array Bool} {w x : Nat} (h : (a.set! w true).getD x false = true) :
    x = w ∨ a.getD x false = true := by
  rw [getD_eq] at h
  rw [getD_eq]
  rw [getElem?_set!] at h
  by_cases hwx : w = x
  · exact Or.inl hwx.symm
  · simp only [hwx, if_false] at h
    exact Or.inr h

theorem closeLoop_sound (adj : Array (List Nat)) (ok : Nat → Bool) (s : Nat) :
    ∀ fuel work seen, (∀ x, seen.getD x false = true → Reach (ListArc adj) s x) →
      (∀ x ∈ work, Reach (ListArc adj) s x) →
      ∀ x, (closeLoop adj ok fuel work seen).getD x false = true → Reach (ListArc adj) s x := by
  intro fuel
  induction fuel with
  | zero => intro work seen h1 _ x hx; exact h1 x (by simpa [closeLoop] using hx)
  | succ fuel ih =>
    intro work seen h1 h2 x hx
    cases work with
    | nil => exact h1 x (by simpa [closeLoop] using hx)
    | cons v rest =>
      have hv : Reach (ListArc adj) s v := h2 v (by simp)
      -- the inner fold keeps "marked or queued ⇒ reachable"
      have key : ∀ (l : List Nat) (acc : Array Bool × List Nat), (∀ w ∈ l, w ∈ adj.getD v []) →
          (∀ y, acc.1.getD y false = true → Reach (ListArc adj) s y) →
          (∀ y ∈ acc.2, Reach (ListArc adj) s y) →
          let r := l.foldl (fun (acc : Array Bool × List Nat) w =>
            if ok w && !(acc.1.getD w true) then (acc.1.set! w true, w :: acc.2) else acc) acc
          (∀ y, r.1.getD y false = true → Reach (ListArc adj) s y) ∧
          (∀ y ∈ r.2, Reach (ListArc adj) s y) := by
        intro l
        induction l with
        | nil => intro acc _ k1 k2; exact ⟨k1, k2⟩
        | cons w l ihl =>
          intro acc hl k1 k2
          have hw : Reach (ListArc adj) s w := .tail hv (hl w (by simp))
          simp only [List.foldl_cons]
          apply ihl _ (fun y hy => hl y (by simp [hy]))
          · intro y hy
            split at hy
            · rcases getD_set!_true hy with rfl | h
              · exact hw
              · exact k1 y h
            · exact k1 y hy
          · intro y hy
            split at hy
            · rcases List.mem_cons.1 hy with rfl | h
              · exact hw
              · exact k2 y h
            · exact k2 y hy
      have := key (adj.getD v []) (seen, rest) (fun _ h => h) h1 (fun y hy => h2 y (by simp [hy]))
      simp only [closeLoop] at hx
      exact ih _ _ this.1 this.2 x hx

theorem closure_sound (adj : Array (List Nat)) (ok : Nat → Bool) (s x : Nat)
    (h : (closure adj ok s).getD x false = true) : Reach (ListArc adj) s x := by
  unfold closure at h
  refine closeLoop_sound adj ok s _ _ _ ?_ ?_ x h
  · intro y hy
    rcases getD_set!_true hy with rfl | h'
    · exact .refl _
    · rw [getD_eq, Array.getElem?_replicate] at h'
      split at h' <;> simp at h'
  · intro y hy
    have : y = s := by simpa using hy
    subst this; exact .refl _

/-! ## successor / predecessor lists -/

theorem succs_arc (g : Graph) (p q : Nat) : ListArc g.succs p q ↔ g.HasArc p q := by
  unfold ListArc Graph.succs Graph.HasArc
  rw [getD_eq, getD_eq, Array.getElem?_map]
  cases h : g.adj[p]? with
  | none => simp
  | some l =>
    simp only [Option.map_some, Option.getD_some, List.mem_map]

theorem getD_modify_cons (a : Array (List Nat)) (i j u : Nat) :
    ∀ q, q ∈ (a.modify i (u :: ·)).getD j [] → (q = u ∧ i = j) ∨ q ∈ a.getD j [] := by
  intro q hq
  rw [getD_eq, Array.getElem?_modify] at hq
  rw [getD_eq]
  by_cases h : i = j
  · subst h
    simp only [if_true] at hq
    cases h2 : a[i]? with
    | none => simp [h2] at hq
    | some l =>
      simp only [h2, Option.map_some, Option.getD_some, List.mem_cons] at hq ⊢
      rcases hq with rfl | h3
      · exact Or.inl ⟨rfl, trivial⟩
      · exact Or.inr h3
  · simp only [h, if_false] at hq
    exact Or.inr hq

theorem preds_arc (g : Graph) (p q : Nat) (h : ListArc g.preds p q) : g.HasArc q p := by
  unfold ListArc Graph.preds at h
  -- outer fold over the vertices, inner fold over adj[u]
  have inner : ∀ (u : Nat) (l : List Arc) (acc : Array (List Nat)), (∀ x ∈ l, x ∈ g.adj.getD u []) →
      (∀ p q, q ∈ acc.getD p [] → g.HasArc q p) →
      ∀ p q, q ∈ (l.foldl (fun acc x => acc.modify x.to (u :: ·)) acc).getD p [] → g.HasArc q p := by
    intro u l
    induction l with
    | nil => intro acc _ k; simpa using k
    | cons x l ih =>
      intro acc hl k
      simp only [List.foldl_cons]
      apply ih _ (fun y hy => hl y (by simp [hy]))
      intro p q hq
      rcases getD_modify_cons acc x.to p u q hq with ⟨rfl, rfl⟩ | h'
      · exact ⟨x, hl x (by simp), rfl⟩
      · exact k p q h'
  have outer : ∀ (us : List Nat) (acc : Array (List Nat)),
      (∀ p q, q ∈ acc.getD p [] → g.HasArc q p) →
      ∀ p q, q ∈ (us.foldl (fun acc u => (g.adj.getD u []).foldl (fun acc x => acc.modify x.to (u :: ·)) acc) acc).getD p [] →
        g.HasArc q p := by
    intro us
    induction us with
    | nil => intro acc k; simpa using k
    | cons u us ih =>
      intro acc k
      simp only [List.foldl_cons]
      exact ih _ (inner u _ acc (fun _ h => h) k)
  refine outer (List.range g.n) (Array.replicate g.n []) ?_ p q h
  intro p q hq
  rw [getD_eq, Array.getElem?_replicate] at hq
  split at hq <;> simp at hq

/-! ## SCC certificate -/

theorem sccClassOK_sound (g : Graph) (id : Array Nat) (i : Nat)
    (h : sccClassOK g.n g.succs g.preds id i = true) :
    ∃ r, r < g.n ∧ id.getD r 0 = i ∧
      ∀ v, v < g.n → id.getD v 0 = i → Reach g.HasArc r v ∧ Reach g.HasArc v r := by
  unfold sccClassOK at h
  split at h
  · simp at h
  · rename_i r hr
    have hr1 := List.find?_some hr
    have hr2 := List.mem_of_find?_eq_some hr
    refine ⟨r, List.mem_range.1 hr2, by simpa using hr1, ?_⟩
    intro v hv hvi
    simp only [List.all_eq_true, List.mem_range] at h
    have := h v hv
    simp only [hvi, bne_self_eq_false, Bool.false_or, Bool.and_eq_true] at this
    constructor
    · exact (closure_sound _ _ _ _ this.1).mono (fun p q e => (succs_arc g p q).1 e)
    · have := (closure_sound _ _ _ _ this.2).mono (fun p q e => preds_arc g p q e)
      exact Reach.reverse this

theorem sccCertificate_sound (g : Graph) (hg : g.WF) (c : Components) (h : sccCertificate g c = true) :
    c.id.size = g.n ∧
    (∀ v, v < g.n → c.id.getD v 0 < c.count) ∧
    (∀ i, i < c.count → ∃ v, v < g.n ∧ c.id.getD v 0 = i) ∧
    (∀ u v, u < g.n → v < g.n →
      (c.id.getD u 0 = c.id.getD v 0 ↔ Reach g.HasArc u v ∧ Reach g.HasArc v u)) := by
  unfold sccCertificate at h
  simp only [Bool.and_eq_true, beq_iff_eq, List.all_eq_true, List.mem_range, decide_eq_true_eq] at h
  obtain ⟨⟨⟨h1, h2⟩, h3⟩, h4⟩ := h
  -- ids never increase along arcs, hence along paths
  have hmono : ∀ u v, u < g.n → Reach g.HasArc u v → v < g.n ∧ c.id.getD v 0 ≤ c.id.getD u 0 := by
    intro u v hu hr
    induction hr with
    | refl => exact ⟨hu, Nat.le_refl _⟩
    | @tail p q _ e ih =>
      obtain ⟨x, hx, rfl⟩ := e
      have := h3 p ih.1 x hx
      exact ⟨hg.bound p x hx, Nat.le_trans this ih.2⟩
  refine ⟨h1, h2, ?_, ?_⟩
  · intro i hi
    obtain ⟨r, hr, hri, _⟩ := sccClassOK_sound g c.id i (h4 i hi)
    exact ⟨r, hr, hri⟩
  · intro u v hu hv
    constructor
    · intro e
      obtain ⟨r, _, _, hall⟩ := sccClassOK_sound g c.id (c.id.getD u 0) (h4 _ (h2 u hu))
      have k1 := hall u hu rfl
      have k2 := hall v hv e.symm
      exact ⟨k1.2.trans k2.1, k2.2.trans k1.1⟩
    · intro ⟨r1, r2⟩
      have := (hmono u v hu r1).2
      have := (hmono v u hv r2).2
      omega

/-! ## shortest-path certificate -/

theorem isEdgeWalkB_sound (g : Graph) : ∀ (p : List Edge) (s v : Nat),
    isEdgeWalkB g s v p = true → IsEdgeWalk g s v p := by
  intro p
  induction p with
  | nil => intro s v h; simpa [isEdgeWalkB, IsEdgeWalk] using h
  | cons e r ih =>
    intro s v h
    simp only [isEdgeWalkB, Bool.and_eq_true, beq_iff_eq, List.any_eq_true] at h
    obtain ⟨⟨h1, x, hx, hxe, hxt⟩, h3⟩ := h
    refine ⟨h1, ?_, ih _ _ h3⟩
    unfold Graph.HasEdge
    have : x = ⟨e.b, e⟩ := by
      cases x; simp_all
    rw [← this]; exact hx

theorem noRelax_walk (g : Graph) (hg : g.WF) (dist : Array (Option Int))
    (h : noRelaxableEdge g dist = true) :
    ∀ (q : List Edge) (u v : Nat) (du : Int), IsEdgeWalk g u v q → dist.getD u none = some du →
      ∃ dv, dist.getD v none = some dv ∧ dv ≤ du + walkWeight q := by
  unfold noRelaxableEdge at h
  simp only [List.all_eq_true, List.mem_range] at h
  intro q
  induction q with
  | nil =>
    intro u v du hw hd
    simp only [IsEdgeWalk] at hw
    subst hw
    exact ⟨du, hd, by simp [walkWeight]⟩
  | cons e r ih =>
    intro u v du hw hd
    obtain ⟨h1, h2, h3⟩ := hw
    subst h1
    unfold Graph.HasEdge at h2
    have hlt : e.a < g.n := by
      rw [← hg.size]
      by_cases hx : e.a < g.adj.size
      · exact hx
      · rw [getD_eq, Array.getElem?_eq_none (Nat.le_of_not_lt hx)] at h2
        simp at h2
    have := h e.a hlt
    rw [hd] at this
    simp only [List.all_eq_true] at this
    have := this _ h2
    simp only at this
    split at this
    · simp at this
    · rename_i dv hdv
      simp only [decide_eq_true_eq] at this
      obtain ⟨dv', k1, k2⟩ := ih e.b v dv h3 hdv
      refine ⟨dv', k1, ?_⟩
      simp only [walkWeight, List.map_cons, List.sum_cons] at k2 ⊢
      omega

theorem sptCertificate_sound (g : Graph) (hg : g.WF) (s : Nat) (t : SPT)
    (answers : List (Nat × Option (List Edge × Int))) (h : sptCertificate g s t answers = true) :
    ∀ v a, (v, a) ∈ answers →
      match a with
      | none => ¬ ∃ q, IsEdgeWalk g s v q
      | some (p, d) => IsEdgeWalk g s v p ∧ walkWeight p = d ∧ ∀ q, IsEdgeWalk g s v q → d ≤ walkWeight q := by
  unfold sptCertificate at h
  simp only [Bool.and_eq_true, beq_iff_eq, List.all_eq_true] at h
  obtain ⟨⟨⟨_, h0⟩, hnr⟩, hall⟩ := h
  have hlow : ∀ v q, IsEdgeWalk g s v q → ∃ dv, t.distTo.getD v none = some dv ∧ dv ≤ walkWeight q := by
    intro v q hq
    obtain ⟨dv, k1, k2⟩ := noRelax_walk g hg t.distTo hnr q s v 0 hq h0
    exact ⟨dv, k1, by omega⟩
  intro v a hva
  have hr := hall (v, a) hva
  simp only at hr
  unfold realises at hr
  cases a with
  | none =>
    simp only
    intro ⟨q, hq⟩
    obtain ⟨dv, k1, _⟩ := hlow v q hq
    rw [k1] at hr
    simp at hr
  | some pd =>
    obtain ⟨p, d⟩ := pd
    simp only
    cases hd : t.distTo.getD v none with
    | none => rw [hd] at hr; simp at hr
    | some d0 =>
      rw [hd] at hr
      simp only [Bool.and_eq_true, beq_iff_eq] at hr
      obtain ⟨⟨e1, e2⟩, e3⟩ := hr
      subst e1
      refine ⟨isEdgeWalkB_sound g p s v e2, e3, ?_⟩
      intro q hq
      obtain ⟨dv, k1, k2⟩ := hlow v q hq
      rw [hd] at k1
      cases k1
      exact k2

end AlgoVerif.C14
