import AlgoVerif.Proofs.C01RbColor
/-!
# C01 / C15: the LLRB mutators refine the abstract map and keep the colour invariants
-/
namespace AlgoVerif.C01
open Tree

variable {K V : Type} {cmp : K → K → Int}

theorem isNil_fixSizeP (n : Tree K V) : (fixSizeP n).isNil = n.isNil := by cases n <;> rfl

theorem isNil_fixP (strict : Bool) (n : Tree K V) : (fixP strict n).isNil = n.isNil := by
  unfold fixP; rw [isNil_fixSizeP, isNil_fix3P, isNil_fix2P, isNil_fix1P]

/-- a left-leaning red-black tree: valid subtree with a black root -/
def LLRB (t : Tree K V) : Prop := RB t ∧ t.isRed = false

theorem llrb_nil : LLRB (Tree.nil : Tree K V) := ⟨trivial, rfl⟩

theorem rbPut_ok (h : LawfulCmp cmp) (key : K) (val : V) : ∀ {t : Tree K V}, Spec.Sorted cmp t.toList →
    ∃ t', rbPut cmp t key val = .ok t' ∧ t'.toList = Spec.upsert cmp key val t.toList ∧
      (SizeOK t → SizeOK t') ∧ t'.isNil = false ∧
      (RB t → ARB t' ∧ bh t' = bh t ∧ (t.isRed = false → RB t'))
  | .nil, _ => ⟨_, rfl, rfl, fun _ => ⟨rfl, trivial, trivial⟩, rfl, fun _ => by simp⟩
  | .node l k v s hh c r, hs => by
    obtain ⟨hsl, hsr, hl, hr, -⟩ := sorted_node.1 hs
    simp only [rbPut, toList_node]
    split
    · rename_i hlt
      obtain ⟨l', e1, e2, e3, e4, e5⟩ := rbPut_ok h key val hsl
      refine ⟨fixP true (.node l' k v s hh c r), ?_, ?_, ?_, ?_, ?_⟩
      · simp only [e1, Outcome.ok_bind']; exact rbFixUp_eq true rfl
      · rw [toList_fixP, toList_node, e2, upsert_append_lt _ _ hlt]
      · exact fun hz => sizeOK_fixP true ⟨e3 hz.2.1, hz.2.2⟩
      · rw [isNil_fixP]; rfl
      · intro hrb
        simp only [RB_node] at hrb
        obtain ⟨a1, a2, a3⟩ := e5 hrb.2.2.2.1
        have := fixP_putL l' k v s hh c r hrb.2.2.2.2 hrb.1 a1 (by omega) (fun hc => a3 (hrb.2.1 hc))
        simp only [bh_node, isRed_node]
        exact ⟨this.1, by rw [this.2.1, a2], this.2.2⟩
    · rename_i hnlt
      have hL := ge_left h hl hnlt
      split
      · rename_i hgt
        obtain ⟨r', e1, e2, e3, e4, e5⟩ := rbPut_ok h key val hsr
        refine ⟨fixP true (.node l k v s hh c r'), ?_, ?_, ?_, ?_, ?_⟩
        · simp only [e1, Outcome.ok_bind']; exact rbFixUp_eq true rfl
        · rw [toList_fixP, toList_node, e2, upsert_append_gt _ _ hL hgt]
        · exact fun hz => sizeOK_fixP true ⟨hz.2.1, e3 hz.2.2⟩
        · rw [isNil_fixP]; rfl
        · intro hrb
          simp only [RB_node] at hrb
          obtain ⟨a1, a2, a3⟩ := e5 hrb.2.2.2.2
          have := fixP_putR l k v s hh c r' hrb.2.2.2.1 hrb.2.1 (a3 hrb.1) (by omega)
          simp only [bh_node, isRed_node]
          exact ⟨this.1, this.2.1, this.2.2⟩
      · rename_i hngt
        refine ⟨fixP true (.node l k val s hh c r), ?_, ?_, ?_, ?_, ?_⟩
        · exact rbFixUp_eq true rfl
        · rw [toList_fixP, toList_node, upsert_append_eq _ _ hL hnlt hngt]
        · exact fun hz => sizeOK_fixP true ⟨hz.2.1, hz.2.2⟩
        · rw [isNil_fixP]; rfl
        · intro hrb
          simp only [RB_node] at hrb
          have := fixP_putL l k val s hh c r hrb.2.2.2.2 hrb.1 hrb.2.2.2.1.arb hrb.2.2.1
            (fun _ => hrb.2.2.2.1)
          simp only [bh_node, isRed_node]
          exact ⟨this.1, this.2.1, this.2.2⟩

theorem blacken_ok {t : Tree K V} (hn : t.isNil = false) :
    ∃ t', blacken t = .ok t' ∧ t'.toList = t.toList ∧ (SizeOK t → SizeOK t') ∧ (ARB t → LLRB t') := by
  rcases t with _ | ⟨l, k, v, s, hh, c, r⟩
  · simp at hn
  · refine ⟨_, rfl, rfl, fun hz => hz, ?_⟩
    intro ha
    simp only [ARB_node] at ha
    exact ⟨by simp [ha.1, ha.2.1, ha.2.2.1, ha.2.2.2], rfl⟩

theorem rbPutRoot_ok (h : LawfulCmp cmp) (key : K) (val : V) {t : Tree K V} (hs : Spec.Sorted cmp t.toList) :
    ∃ t', rbPutRoot cmp t key val = .ok t' ∧ t'.toList = Spec.upsert cmp key val t.toList ∧
      (SizeOK t → SizeOK t') ∧ (LLRB t → LLRB t') := by
  obtain ⟨t1, e1, e2, e3, e4, e5⟩ := rbPut_ok h key val hs
  obtain ⟨t2, f1, f2, f3, f4⟩ := blacken_ok e4
  refine ⟨t2, by simp [rbPutRoot, e1, f1], by rw [f2, e2], fun hz => f3 (e3 hz), ?_⟩
  intro hl
  exact f4 (e5 hl.1).1

/-! ### `_deleteMin` -/

theorem needMoveLeft_eq (l : Tree K V) (k : K) (v : V) (s h : Nat) (c : Bool) (r : Tree K V)
    (hl : l.isNil = false) :
    needMoveLeft (.node l k v s h c r) = .ok (!l.isRed && !l.lt.isRed) := by
  rcases l with _ | ⟨ll, lk, lv, ls, lh, lc, lr⟩
  · simp at hl
  · cases lc <;> simp [needMoveLeft, leftOf]

theorem needMoveRight_eq (l : Tree K V) (k : K) (v : V) (s h : Nat) (c : Bool) (r : Tree K V)
    (hr : r.isNil = false) :
    needMoveRight (.node l k v s h c r) = .ok (!r.isRed && !r.lt.isRed) := by
  rcases r with _ | ⟨rl, rk, rv, rs, rh, rc, rr⟩
  · simp at hr
  · cases rc <;> simp [needMoveRight, rightOf, leftOf]

@[simp] theorem leftOf_node (l : Tree K V) (k v s h c r) : leftOf (.node l k v s h c r) = .ok l := rfl
@[simp] theorem rightOf_node (l : Tree K V) (k v s h c r) : rightOf (.node l k v s h c r) = .ok r := rfl
@[simp] theorem kvOf_node (l : Tree K V) (k v s h c r) : kvOf (.node l k v s h c r) = .ok (k, v) := rfl

theorem leftOf_eq {n : Tree K V} (h : n.isNil = false) : leftOf n = .ok n.lt := by
  cases n <;> simp_all [leftOf]

theorem rightOf_eq {n : Tree K V} (h : n.isNil = false) : rightOf n = .ok n.rt := by
  cases n <;> simp_all [rightOf]

theorem setLeft_eq {n : Tree K V} (x : Tree K V) (h : n.isNil = false) : setLeft n x = .ok (setLeftP n x) := by
  cases n <;> simp_all [setLeft, setLeftP]

theorem setRight_eq {n : Tree K V} (x : Tree K V) (h : n.isNil = false) :
    setRight n x = .ok (setRightP n x) := by
  cases n <;> simp_all [setRight, setRightP]

theorem node_eta {n : Tree K V} (h : n.isNil = false) :
    ∃ k v s hh, n = .node n.lt k v s hh n.isRed n.rt := by
  cases n with
  | nil => simp at h
  | node l k v s hh c r => exact ⟨k, v, s, hh, rfl⟩

/-- the common tail of the three delete functions when the recursion went left: put the new left
subtree in place and `balance` -/
theorem balance_left (n l' : Tree K V) (hn : n.isNil = false)
    (h1 : RB l') (h2 : RB n.rt) (h3 : bh l' = bh n.rt)
    (h4 : n.isRed = true → l'.isRed = false ∧ n.rt.isRed = false) :
    ∃ out, (∀ {β : Type} (f : Tree K V → Outcome β), (setLeft n l' >>= fun x => rbBalance x >>= f) = f out) ∧
      out.toList = (setLeftP n l').toList ∧
      (SizeOK l' → SizeOK n.rt → SizeOK out) ∧
      RB out ∧ bh out = bh l' + (if n.isRed then 0 else 1) ∧ out.isRed = (n.isRed || (l'.isRed && n.rt.isRed)) := by
  obtain ⟨k, v, s, hh, e⟩ := node_eta hn
  rw [e]
  simp only [setLeft, Outcome.ok_bind', rbBalance, setLeftP]
  rw [rbFixUp_eq false rfl]
  have := fixP_balance l' k v s hh n.isRed n.rt h1 h2 h3 h4
  exact ⟨_, fun f => rfl, toList_fixP _ _, fun a b => sizeOK_fixP false ⟨a, b⟩, this.1, this.2.1, this.2.2⟩

theorem balance_right (n r' : Tree K V) (hn : n.isNil = false)
    (h1 : RB n.lt) (h2 : RB r') (h3 : bh n.lt = bh r')
    (h4 : n.isRed = true → n.lt.isRed = false ∧ r'.isRed = false) :
    ∃ out, (∀ {β : Type} (f : Tree K V → Outcome β), (setRight n r' >>= fun x => rbBalance x >>= f) = f out) ∧
      out.toList = (setRightP n r').toList ∧
      (SizeOK n.lt → SizeOK r' → SizeOK out) ∧
      RB out ∧ bh out = bh n.lt + (if n.isRed then 0 else 1) ∧ out.isRed = (n.isRed || (n.lt.isRed && r'.isRed)) := by
  obtain ⟨k, v, s, hh, e⟩ := node_eta hn
  rw [e]
  simp only [setRight, Outcome.ok_bind', rbBalance, setRightP]
  rw [rbFixUp_eq false rfl]
  have := fixP_balance n.lt k v s hh n.isRed r' h1 h2 h3 h4
  exact ⟨_, fun f => rfl, toList_fixP _ _, fun a b => sizeOK_fixP false ⟨a, b⟩, this.1, this.2.1, this.2.2⟩

theorem bh_eq_lt {n : Tree K V} (h : n.isNil = false) :
    bh n = bh n.lt + (if n.isRed then 0 else 1) := by
  cases n with
  | nil => simp at h
  | node l k v s hh c r => rfl

theorem toList_eq_lt_rt {n : Tree K V} (h : n.isNil = false) :
    ∃ k v, kvOf n = .ok (k, v) ∧ n.toList = n.lt.toList ++ (k, v) :: n.rt.toList := by
  cases n with
  | nil => simp at h
  | node l k v s hh c r => exact ⟨k, v, rfl, rfl⟩

theorem toList_setLeftP {n : Tree K V} (x : Tree K V) (h : n.isNil = false) :
    ∃ k v, kvOf n = .ok (k, v) ∧ (setLeftP n x).toList = x.toList ++ (k, v) :: n.rt.toList := by
  cases n with
  | nil => simp at h
  | node l k v s hh c r => exact ⟨k, v, rfl, rfl⟩

theorem toList_setRightP {n : Tree K V} (x : Tree K V) (h : n.isNil = false) :
    ∃ k v, kvOf n = .ok (k, v) ∧ (setRightP n x).toList = n.lt.toList ++ (k, v) :: x.toList := by
  cases n with
  | nil => simp at h
  | node l k v s hh c r => exact ⟨k, v, rfl, rfl⟩

/-- `_deleteMin` on a valid subtree whose root or left child is red: no nil dereference, enough fuel;
removes the first pair of the listing; the result is valid, has the same black height, and is black
when the subtree's root was -/
theorem rbDeleteMin_ok : ∀ (fuel : Nat) (n : Tree K V), n.nodes ≤ fuel → RB n →
    (n.isRed = true ∨ n.lt.isRed = true) →
    ∃ out m, rbDeleteMin fuel n = .ok (out, m) ∧ n.toList = m :: out.toList ∧
      (SizeOKc n → SizeOK out) ∧ RB out ∧ bh out = bh n ∧ (n.isRed = false → out.isRed = false)
  | 0, n, hf, _, hred => by
    cases n with
    | nil => simp at hred
    | node l k v s hh c r => simp at hf
  | fuel + 1, .nil, _, _, hred => by simp at hred
  | fuel + 1, .node l k v s hh c r, hf, hrb, hred => by
    simp only [RB_node] at hrb
    obtain ⟨hr, hcl, hb, hL, hR⟩ := hrb
    simp only [isRed_node, lt_node] at hred
    simp only [nodes_node] at hf
    rw [rbDeleteMin]
    simp only [leftOf_node, Outcome.ok_bind']
    cases hnil : l.isNil
    · -- n.left != nil
      simp only [Bool.false_eq_true, if_false]
      rw [needMoveLeft_eq l k v s hh c r hnil]
      simp only [Outcome.ok_bind']
      cases hmv : (!l.isRed && !l.lt.isRed)
      · -- no moveRedLeft: recurse into l
        simp only [Bool.false_eq_true, if_false, Outcome.pure_eq', Outcome.ok_bind', leftOf_node]
        have hl' : l.isRed = true ∨ l.lt.isRed = true := by
          cases h1 : l.isRed <;> cases h2 : l.lt.isRed <;> simp_all
        obtain ⟨l', m, e1, e2, e3, e4, e5, e6⟩ := rbDeleteMin_ok fuel l (by omega) hL hl'
        simp only [e1, Outcome.ok_bind']
        obtain ⟨out, f1, f2, f3, f4, f5, f6⟩ := balance_left (.node l k v s hh c r) l' rfl e4 hR
          (by show bh l' = bh r; omega)
          (by
            intro hc
            exact ⟨e6 (hcl hc), hr⟩)
        refine ⟨out, m, ?_, ?_, ?_, f4, ?_, ?_⟩
        · rw [f1]
        · rw [f2]; simp only [setLeftP, toList_node, e2, List.cons_append]
        · intro hz
          exact f3 (e3 (sizeOKc_of_sizeOK hz.1)) hz.2
        · rw [f5, e5]; rfl
        · rw [f6]; simp only [isRed_node, rt_node, hr, Bool.and_false, Bool.or_false]; exact id
      · -- moveRedLeft
        simp only [if_true]
        simp only [Bool.and_eq_true, Bool.not_eq_true'] at hmv
        have hc : c = true := by
          rcases hred with hc | hc
          · exact hc
          · rw [hmv.1] at hc; exact absurd hc (by simp)
        subst hc
        obtain ⟨g0, g1, g2, g3, g4, g5, g6, g7⟩ := mrlP_spec l k v s hh r hL hR hb hnil hmv.1 hmv.2 hr
        rw [rbMoveRedLeft_eq (by simpa using hnil) (by simpa using g0)]
        simp only [Outcome.ok_bind']
        rw [leftOf_eq g1]
        simp only [Outcome.ok_bind']
        have hnodes : (mrlP (.node l k v s hh true r)).lt.nodes ≤ fuel := by
          have := nodes_lt_lt g1
          rw [nodes_mrlP] at this
          simp only [nodes_node] at this
          omega
        obtain ⟨l', m, e1, e2, e3, e4, e5, e6⟩ :=
          rbDeleteMin_ok fuel (mrlP (.node l k v s hh true r)).lt hnodes g2 g3
        simp only [e1, Outcome.ok_bind']
        obtain ⟨out, f1, f2, f3, f4, f5, f6⟩ := balance_left (mrlP (.node l k v s hh true r)) l' g1 e4 g4
          (by omega)
          (by
            intro hc
            exact ⟨e6 (g6 hc).1, (g6 hc).2⟩)
        refine ⟨out, m, ?_, ?_, ?_, f4, ?_, ?_⟩
        · rw [f1]; rfl
        · obtain ⟨k', v', hk1, hk2⟩ := toList_setLeftP l' g1
          obtain ⟨k'', v'', hk3, hk4⟩ := toList_eq_lt_rt g1
          rw [hk1] at hk3
          cases hk3
          rw [f2, hk2, ← toList_mrlP (.node l k v s hh true r), hk4, e2]; rfl
        · intro hz
          have hz' := sizeOKc_mrlP hz
          exact f3 (e3 (sizeOKc_of_sizeOK hz'.1)) hz'.2
        · rw [f5, e5, ← bh_eq_lt g1, g7]; simp
        · intro hcf; simp at hcf
    · -- n.left == nil: return n.right
      cases l with
      | node => simp at hnil
      | nil =>
        simp only [if_true, rightOf_node, kvOf_node, Outcome.ok_bind', Outcome.pure_eq']
        have hc : c = true := by
          rcases hred with hc | hc
          · exact hc
          · simp at hc
        subst hc
        refine ⟨r, (k, v), rfl, by simp, fun hz => hz.2, hR, ?_, by simp⟩
        simp at hb ⊢
        omega

/-! ### `_deleteMax` -/

theorem sizeOKc_rotRP' {n : Tree K V} (h : SizeOKc n) : SizeOKc (rotRP n) := sizeOKc_rotRP h

theorem rbDeleteMax_ok : ∀ (fuel : Nat) (n : Tree K V), n.nodes ≤ fuel → PreR n →
    ∃ out m, rbDeleteMax fuel n = .ok (out, m) ∧ n.toList = out.toList ++ [m] ∧
      (SizeOKc n → SizeOK out) ∧ RB out ∧ bh out = bh n ∧ (n.isRed = false → out.isRed = false)
  | 0, n, hf, hp => by
    cases n with
    | nil => simp at hp
    | node l k v s hh c r => simp at hf
  | fuel + 1, n, hf, hp => by
    -- the part of the function after the optional rotateRight
    let rest : Tree K V → Outcome (Tree K V × (K × V)) := fun n => do
      let r ← rightOf n
      if r.isNil then
        let l ← leftOf n
        let kv ← kvOf n
        pure (l, kv)
      else
        let mv ← needMoveRight n
        let n ← if mv then rbMoveRedRight n else pure n
        let r ← rightOf n
        let (r', m) ← rbDeleteMax fuel r
        let n ← setRight n r'
        let n ← rbBalance n
        pure (n, m)
    have hdef : rbDeleteMax (fuel + 1) n =
        (do let l ← leftOf n
            let n ← if l.isRed then rbRotateRight n else pure n
            rest n) := by
      rw [rbDeleteMax]
    have hrest : ∀ n1 : Tree K V, n1.nodes ≤ fuel + 1 → PreR n1 → n1.lt.isRed = false →
        ∃ out m, rest n1 = .ok (out, m) ∧ n1.toList = out.toList ++ [m] ∧
          (SizeOKc n1 → SizeOK out) ∧ RB out ∧ bh out = bh n1 ∧ (n1.isRed = false → out.isRed = false) := by
      intro n1 hf1 hp1 hl1
      rcases n1 with _ | ⟨l, k, v, s, hh, c, r⟩
      · simp at hp1
      · simp only [PreR_node] at hp1
        obtain ⟨hL, hR, hb, hcl, hsome, hrr⟩ := hp1
        simp only [lt_node] at hl1
        simp only [nodes_node] at hf1
        simp only [rest, rightOf_node, Outcome.ok_bind']
        cases hnil : r.isNil
        · simp only [Bool.false_eq_true, if_false]
          rw [needMoveRight_eq l k v s hh c r hnil]
          simp only [Outcome.ok_bind']
          cases hmv : (!r.isRed && !r.lt.isRed)
          · -- no moveRedRight: recurse into r
            simp only [Bool.false_eq_true, if_false, Outcome.pure_eq', Outcome.ok_bind', rightOf_node]
            have hpr : PreR r := by
              rcases r with _ | ⟨rl, rk, rv, rs, rh, rc, rr⟩
              · simp at hnil
              · cases rc <;> simp_all
            obtain ⟨r', m, e1, e2, e3, e4, e5, e6⟩ := rbDeleteMax_ok fuel r (by omega) hpr
            simp only [e1, Outcome.ok_bind']
            obtain ⟨out, f1, f2, f3, f4, f5, f6⟩ := balance_right (.node l k v s hh c r) r' rfl hL e4
              (by show bh l = bh r'; omega)
              (by
                intro hc
                simp only [isRed_node] at hc
                refine ⟨hl1, e6 ?_⟩
                cases hrc : r.isRed
                · rfl
                · exact absurd hc (by simp [(hrr hrc).2]))
            refine ⟨out, m, ?_, ?_, ?_, f4, ?_, ?_⟩
            · rw [f1]
            · rw [f2]; simp only [setRightP, toList_node, e2, List.append_assoc, List.cons_append]
            · intro hz
              exact f3 hz.1 (e3 (sizeOKc_of_sizeOK hz.2))
            · rw [f5]; rfl
            · rw [f6]; simp only [isRed_node, lt_node, hl1, Bool.false_and, Bool.or_false]; exact id
          · -- moveRedRight
            simp only [if_true]
            simp only [Bool.and_eq_true, Bool.not_eq_true'] at hmv
            have hc : c = true := by
              rcases hsome with hc | hc | hc
              · exact hc
              · rw [hl1] at hc; exact absurd hc (by simp)
              · rw [hmv.1] at hc; exact absurd hc (by simp)
            subst hc
            obtain ⟨g0, g1, g2, g3, g4, g5, g6⟩ := mrrP_spec l k v s hh r hL hR hb hnil hl1 hmv.1 hmv.2
            rw [rbMoveRedRight_eq (by simpa using g0) (by simpa using hnil)]
            simp only [Outcome.ok_bind']
            rw [rightOf_eq g1]
            simp only [Outcome.ok_bind']
            have hnodes : (mrrP (.node l k v s hh true r)).rt.nodes ≤ fuel := by
              have := nodes_rt_lt g1
              rw [nodes_mrrP] at this
              simp only [nodes_node] at this
              omega
            obtain ⟨r', m, e1, e2, e3, e4, e5, e6⟩ :=
              rbDeleteMax_ok fuel (mrrP (.node l k v s hh true r)).rt hnodes g2
            simp only [e1, Outcome.ok_bind']
            obtain ⟨out, f1, f2, f3, f4, f5, f6⟩ := balance_right (mrrP (.node l k v s hh true r)) r' g1 g3 e4
              (by omega)
              (by
                intro hc
                exact ⟨(g5 hc).1, e6 (g5 hc).2⟩)
            refine ⟨out, m, ?_, ?_, ?_, f4, ?_, ?_⟩
            · rw [f1]; rfl
            · obtain ⟨k', v', hk1, hk2⟩ := toList_setRightP r' g1
              obtain ⟨k'', v'', hk3, hk4⟩ := toList_eq_lt_rt g1
              rw [hk1] at hk3
              cases hk3
              rw [f2, hk2, ← toList_mrrP (.node l k v s hh true r), hk4, e2]
              simp only [List.append_assoc, List.cons_append]
            · intro hz
              have hz' := sizeOKc_mrrP hz
              exact f3 hz'.1 (e3 (sizeOKc_of_sizeOK hz'.2))
            · rw [f5, ← bh_eq_lt g1, g6]; simp
            · intro hcf; simp at hcf
        · -- n.right == nil: return n.left
          cases r with
          | node => simp at hnil
          | nil =>
            simp only [if_true, leftOf_node, kvOf_node, Outcome.ok_bind', Outcome.pure_eq']
            have hc : c = true := by
              rcases hsome with hc | hc | hc
              · exact hc
              · rw [hl1] at hc; exact absurd hc (by simp)
              · simp at hc
            subst hc
            exact ⟨l, (k, v), rfl, by simp, fun hz => hz.1, hL, by simp, by simp⟩
    rw [hdef]
    have hnn := preR_isNil hp
    rw [leftOf_eq hnn]
    simp only [Outcome.ok_bind']
    cases hlr : n.lt.isRed
    · simp only [Bool.false_eq_true, if_false, Outcome.pure_eq', Outcome.ok_bind']
      exact hrest n hf hp hlr
    · simp only [if_true]
      rw [rbRotateRight_eq hlr]
      simp only [Outcome.ok_bind']
      obtain ⟨q1, q2, q3, q4, q5, q6⟩ := preR_rotRP hp hlr
      obtain ⟨out, m, e1, e2, e3, e4, e5, e6⟩ := hrest (rotRP n) (by rw [nodes_rotRP]; exact hf) q1 q2
      refine ⟨out, m, e1, ?_, fun hz => e3 (sizeOKc_rotRP hz), e4, by rw [e5, q3], fun _ => e6 q5⟩
      rw [← e2, toList_rotRP]

end AlgoVerif.C01
