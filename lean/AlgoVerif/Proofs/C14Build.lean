import AlgoVerif.Proofs.C14Basic
/-!
# C14 proofs — graphs built by `NewX(V)` + `AddEdge`: well-formedness and the arc relation
-/
namespace AlgoVerif.C14

theorem getD_eq {α : Type} (a : Array α) (i : Nat) (d : α) : a.getD i d = (a[i]?).getD d := by
  unfold Array.getD
  split <;> simp [*]

theorem getD_of_lt {α : Type} (a : Array α) {i : Nat} (d : α) (h : i < a.size) : a[i]? = some (a.getD i d) := by
  rw [getD_eq, Array.getElem?_eq_getElem h]; rfl

theorem adj_new (n v : Nat) : (Graph.new n).adj.getD v [] = [] := by
  rw [getD_eq]; simp [Graph.new, Array.getElem?_replicate]
  split <;> simp

theorem wf_new (n : Nat) : (Graph.new n).WF :=
  ⟨by simp [Graph.new], by intro u x hx; rw [adj_new] at hx; simp at hx⟩

theorem not_hasArc_new (n u v : Nat) : ¬ (Graph.new n).HasArc u v := by
  intro ⟨x, hx, _⟩; rw [adj_new] at hx; simp at hx

theorem adj_addArc (g : Graph) (hg : g.WF) (v : Nat) (hv : v < g.n) (x : Arc) (u : Nat) :
    (g.addArc v x).adj.getD u [] = if u = v then g.adj.getD u [] ++ [x] else g.adj.getD u [] := by
  rw [getD_eq, getD_eq]
  simp only [Graph.addArc, Array.getElem?_modify]
  by_cases h : v = u
  · subst h
    have : v < g.adj.size := hg.size ▸ hv
    simp [this]
  · have h' : ¬ u = v := fun e => h e.symm
    simp [h, h']

theorem n_addArc (g : Graph) (v : Nat) (x : Arc) : (g.addArc v x).n = g.n := rfl

theorem wf_addArc (g : Graph) (hg : g.WF) (v : Nat) (hv : v < g.n) (x : Arc) (hx : x.to < g.n) :
    (g.addArc v x).WF := by
  refine ⟨by simp [Graph.addArc, hg.size], ?_⟩
  intro u y hy
  rw [adj_addArc g hg v hv] at hy
  rw [n_addArc]
  split at hy
  · rcases List.mem_append.1 hy with h | h
    · exact hg.bound u y h
    · have : y = x := by simpa using h
      subst this; exact hx
  · exact hg.bound u y hy

theorem hasArc_addArc (g : Graph) (hg : g.WF) (v : Nat) (hv : v < g.n) (x : Arc) (a b : Nat) :
    (g.addArc v x).HasArc a b ↔ g.HasArc a b ∨ (a = v ∧ b = x.to) := by
  unfold Graph.HasArc
  rw [adj_addArc g hg v hv]
  by_cases h : a = v
  · subst h
    rw [if_pos rfl]
    simp only [List.mem_append, List.mem_singleton]
    constructor
    · rintro ⟨y, hy | hy, rfl⟩
      · exact Or.inl ⟨y, hy, rfl⟩
      · subst hy; exact Or.inr ⟨trivial, rfl⟩
    · rintro (⟨y, hy, rfl⟩ | ⟨_, rfl⟩)
      · exact ⟨y, Or.inl hy, rfl⟩
      · exact ⟨x, Or.inr rfl, rfl⟩
  · simp [h]

theorem valid_iff {g : Graph} {v : Int} : g.isVertexValid v = true ↔ 0 ≤ v ∧ v < (g.n : Int) := by
  simp [Graph.isVertexValid]

theorem n_addEdgeDirected (g : Graph) (v w wt : Int) : (g.addEdgeDirected v w wt).n = g.n := by
  unfold Graph.addEdgeDirected; split <;> rfl

theorem n_addEdgeUndirected (g : Graph) (v w wt : Int) : (g.addEdgeUndirected v w wt).n = g.n := by
  unfold Graph.addEdgeUndirected; split <;> rfl

theorem wf_addEdgeDirected (g : Graph) (hg : g.WF) (v w wt : Int) : (g.addEdgeDirected v w wt).WF := by
  unfold Graph.addEdgeDirected
  split
  · rename_i h
    simp only [Bool.and_eq_true, valid_iff] at h
    exact wf_addArc g hg _ (by omega) _ (by show w.toNat < g.n; omega)
  · exact hg

theorem wf_addEdgeUndirected (g : Graph) (hg : g.WF) (v w wt : Int) : (g.addEdgeUndirected v w wt).WF := by
  unfold Graph.addEdgeUndirected
  split
  · rename_i h
    simp only [Bool.and_eq_true, valid_iff] at h
    have h1 := wf_addArc g hg v.toNat (by omega) ⟨w.toNat, ⟨v.toNat, w.toNat, wt⟩⟩ (by show w.toNat < g.n; omega)
    exact wf_addArc _ h1 w.toNat (by rw [n_addArc]; omega) _ (by show v.toNat < _; rw [n_addArc]; omega)
  · exact hg

/-- the arcs after `AddEdge(v, w)` on a directed graph -/
theorem hasArc_addEdgeDirected (g : Graph) (hg : g.WF) (v w wt : Int) (a b : Nat) :
    (g.addEdgeDirected v w wt).HasArc a b ↔
      g.HasArc a b ∨ (0 ≤ v ∧ v < (g.n : Int) ∧ 0 ≤ w ∧ w < (g.n : Int) ∧ (a : Int) = v ∧ (b : Int) = w) := by
  unfold Graph.addEdgeDirected
  split
  · rename_i h
    simp only [Bool.and_eq_true, valid_iff] at h
    rw [hasArc_addArc g hg _ (by omega)]
    constructor
    · rintro (h1 | ⟨rfl, rfl⟩)
      · exact Or.inl h1
      · exact Or.inr ⟨h.1.1, h.1.2, h.2.1, h.2.2, by simp; omega, by simp; omega⟩
    · rintro (h1 | ⟨_, _, _, _, h5, h6⟩)
      · exact Or.inl h1
      · exact Or.inr ⟨by omega, by show b = w.toNat; omega⟩
  · rename_i h
    simp only [Bool.and_eq_true, valid_iff] at h
    constructor
    · exact Or.inl
    · rintro (h1 | ⟨h1, h2, h3, h4, _, _⟩)
      · exact h1
      · exact absurd ⟨⟨h1, h2⟩, ⟨h3, h4⟩⟩ h

/-- the arcs after `AddEdge(v, w)` on an undirected graph: both directions -/
theorem hasArc_addEdgeUndirected (g : Graph) (hg : g.WF) (v w wt : Int) (a b : Nat) :
    (g.addEdgeUndirected v w wt).HasArc a b ↔
      g.HasArc a b ∨ (0 ≤ v ∧ v < (g.n : Int) ∧ 0 ≤ w ∧ w < (g.n : Int) ∧
        (((a : Int) = v ∧ (b : Int) = w) ∨ ((a : Int) = w ∧ (b : Int) = v))) := by
  unfold Graph.addEdgeUndirected
  split
  · rename_i h
    simp only [Bool.and_eq_true, valid_iff] at h
    have h1 := wf_addArc g hg v.toNat (by omega) ⟨w.toNat, ⟨v.toNat, w.toNat, wt⟩⟩ (by show w.toNat < g.n; omega)
    rw [hasArc_addArc _ h1 _ (by rw [n_addArc]; omega), hasArc_addArc g hg _ (by omega)]
    constructor
    · rintro ((h2 | ⟨rfl, rfl⟩) | ⟨rfl, rfl⟩)
      · exact Or.inl h2
      · exact Or.inr ⟨h.1.1, h.1.2, h.2.1, h.2.2, Or.inl ⟨by simp; omega, by simp; omega⟩⟩
      · exact Or.inr ⟨h.1.1, h.1.2, h.2.1, h.2.2, Or.inr ⟨by simp; omega, by simp; omega⟩⟩
    · rintro (h2 | ⟨_, _, _, _, ⟨h5, h6⟩ | ⟨h5, h6⟩⟩)
      · exact Or.inl (Or.inl h2)
      · exact Or.inl (Or.inr ⟨by omega, by show b = w.toNat; omega⟩)
      · exact Or.inr ⟨by omega, by show b = v.toNat; omega⟩
  · rename_i h
    simp only [Bool.and_eq_true, valid_iff] at h
    constructor
    · exact Or.inl
    · rintro (h1 | ⟨h1, h2, h3, h4, _⟩)
      · exact h1
      · exact absurd ⟨⟨h1, h2⟩, ⟨h3, h4⟩⟩ h

theorem symmetric_new (n : Nat) : (Graph.new n).Symmetric :=
  fun u v h => absurd h (not_hasArc_new n u v)

theorem symmetric_addEdgeUndirected (g : Graph) (hg : g.WF) (hs : g.Symmetric) (v w wt : Int) :
    (g.addEdgeUndirected v w wt).Symmetric := by
  intro a b h
  rw [hasArc_addEdgeUndirected g hg] at h ⊢
  rcases h with h | ⟨h1, h2, h3, h4, h5 | h5⟩
  · exact Or.inl (hs a b h)
  · exact Or.inr ⟨h1, h2, h3, h4, Or.inr ⟨h5.2, h5.1⟩⟩
  · exact Or.inr ⟨h1, h2, h3, h4, Or.inl ⟨h5.2, h5.1⟩⟩

end AlgoVerif.C14

namespace AlgoVerif.C14

theorem foldl_directed (es : List EdgeIn) :
    ∀ g : Graph, g.WF →
      let g' := es.foldl (fun g e => g.addEdgeDirected e.u e.v e.w) g
      g'.WF ∧ g'.n = g.n ∧ ∀ a b, g'.HasArc a b ↔ g.HasArc a b ∨ DirE g.n es a b := by
  induction es with
  | nil => intro g hg; simp [DirE, hg]
  | cons e es ih =>
    intro g hg
    have hw := wf_addEdgeDirected g hg e.u e.v e.w
    have hn := n_addEdgeDirected g e.u e.v e.w
    obtain ⟨h1, h2, h3⟩ := ih _ hw
    refine ⟨h1, by simp only [List.foldl_cons]; rw [h2, hn], ?_⟩
    intro a b
    simp only [List.foldl_cons]
    rw [h3, hasArc_addEdgeDirected g hg, hn]
    simp only [DirE, List.mem_cons]
    constructor
    · rintro ((h | h) | ⟨e', he', h⟩)
      · exact Or.inl h
      · exact Or.inr ⟨e, Or.inl rfl, h⟩
      · exact Or.inr ⟨e', Or.inr he', h⟩
    · rintro (h | ⟨e', rfl | he', h⟩)
      · exact Or.inl (Or.inl h)
      · exact Or.inl (Or.inr h)
      · exact Or.inr ⟨e', he', h⟩

theorem foldl_undirected (es : List EdgeIn) :
    ∀ g : Graph, g.WF → g.Symmetric →
      let g' := es.foldl (fun g e => g.addEdgeUndirected e.u e.v e.w) g
      g'.WF ∧ g'.Symmetric ∧ g'.n = g.n ∧ ∀ a b, g'.HasArc a b ↔ g.HasArc a b ∨ UndirE g.n es a b := by
  induction es with
  | nil => intro g hg hs; simp [UndirE, DirE, hg, hs]
  | cons e es ih =>
    intro g hg hs
    have hw := wf_addEdgeUndirected g hg e.u e.v e.w
    have hsy := symmetric_addEdgeUndirected g hg hs e.u e.v e.w
    have hn := n_addEdgeUndirected g e.u e.v e.w
    obtain ⟨h1, h1', h2, h3⟩ := ih _ hw hsy
    refine ⟨h1, h1', by simp only [List.foldl_cons]; rw [h2, hn], ?_⟩
    intro a b
    simp only [List.foldl_cons]
    rw [h3, hasArc_addEdgeUndirected g hg, hn]
    simp only [UndirE, DirE, List.mem_cons]
    constructor
    · rintro ((h | ⟨k1, k2, k3, k4, k5 | k5⟩) | (⟨e', he', h⟩ | ⟨e', he', h⟩))
      · exact Or.inl h
      · exact Or.inr (Or.inl ⟨e, Or.inl rfl, k1, k2, k3, k4, k5.1, k5.2⟩)
      · exact Or.inr (Or.inr ⟨e, Or.inl rfl, k1, k2, k3, k4, k5.2, k5.1⟩)
      · exact Or.inr (Or.inl ⟨e', Or.inr he', h⟩)
      · exact Or.inr (Or.inr ⟨e', Or.inr he', h⟩)
    · rintro (h | ⟨e', rfl | he', h⟩ | ⟨e', rfl | he', h⟩)
      · exact Or.inl (Or.inl h)
      · exact Or.inl (Or.inr ⟨h.1, h.2.1, h.2.2.1, h.2.2.2.1, Or.inl ⟨h.2.2.2.2.1, h.2.2.2.2.2⟩⟩)
      · exact Or.inr (Or.inl ⟨e', he', h⟩)
      · exact Or.inl (Or.inr ⟨h.1, h.2.1, h.2.2.1, h.2.2.2.1, Or.inr ⟨h.2.2.2.2.2, h.2.2.2.2.1⟩⟩)
      · exact Or.inr (Or.inr ⟨e', he', h⟩)

theorem buildDirected_spec (n : Nat) (es : List EdgeIn) :
    (buildDirected n es).WF ∧ (buildDirected n es).n = n ∧
      ∀ a b, (buildDirected n es).HasArc a b ↔ DirE n es a b := by
  obtain ⟨h1, h2, h3⟩ := foldl_directed es (Graph.new n) (wf_new n)
  refine ⟨h1, h2, fun a b => ?_⟩
  have := h3 a b
  simp only [not_hasArc_new, false_or] at this
  exact this

theorem buildUndirected_spec (n : Nat) (es : List EdgeIn) :
    (buildUndirected n es).WF ∧ (buildUndirected n es).Symmetric ∧ (buildUndirected n es).n = n ∧
      ∀ a b, (buildUndirected n es).HasArc a b ↔ UndirE n es a b := by
  obtain ⟨h1, h1', h2, h3⟩ := foldl_undirected es (Graph.new n) (wf_new n) (symmetric_new n)
  refine ⟨h1, h1', h2, fun a b => ?_⟩
  have := h3 a b
  simp only [not_hasArc_new, false_or] at this
  exact this

end AlgoVerif.C14

namespace AlgoVerif.C14

/-- `Reverse()`: well-formed, same vertices, every arc turned around -/
theorem reverse_spec (g : Graph) (hg : g.WF) :
    g.reverse.WF ∧ g.reverse.n = g.n ∧ ∀ a b, g.reverse.HasArc a b ↔ g.HasArc b a := by
  have inner : ∀ (v : Nat), v < g.n → ∀ (l : List Arc), (∀ x ∈ l, x ∈ g.adj.getD v []) →
      ∀ acc : Graph, acc.WF → acc.n = g.n →
      let r := l.foldl (fun rev x => rev.addEdgeDirected (x.to : Int) (v : Int) x.e.w) acc
      r.WF ∧ r.n = g.n ∧ ∀ a b, r.HasArc a b ↔ acc.HasArc a b ∨ (b = v ∧ ∃ x ∈ l, x.to = a) := by
    intro v hv l
    induction l with
    | nil => intro _ acc hw hn; simp [hw, hn]
    | cons x l ih =>
      intro hl acc hw hn
      have hx : x.to < g.n := hg.bound v x (hl x (by simp))
      obtain ⟨k1, k2, k3⟩ := ih (fun y hy => hl y (by simp [hy]))
        (acc.addEdgeDirected (x.to : Int) (v : Int) x.e.w)
        (wf_addEdgeDirected acc hw _ _ _) (by rw [n_addEdgeDirected]; exact hn)
      refine ⟨k1, k2, ?_⟩
      intro a b
      simp only [List.foldl_cons]
      rw [k3, hasArc_addEdgeDirected acc hw, hn]
      constructor
      · rintro ((h | ⟨_, _, _, _, h5, h6⟩) | ⟨rfl, y, hy, rfl⟩)
        · exact Or.inl h
        · exact Or.inr ⟨by omega, x, by simp, by omega⟩
        · exact Or.inr ⟨rfl, y, by simp [hy], rfl⟩
      · rintro (h | ⟨rfl, y, hy, rfl⟩)
        · exact Or.inl (Or.inl h)
        · rcases List.mem_cons.1 hy with rfl | hy'
          · exact Or.inl (Or.inr ⟨by omega, by omega, by omega, by omega, rfl, rfl⟩)
          · exact Or.inr ⟨rfl, y, hy', rfl⟩
  have outer : ∀ (vs : List Nat), (∀ v ∈ vs, v < g.n) → ∀ acc : Graph, acc.WF → acc.n = g.n →
      let r := vs.foldl (fun rev v => (g.adj.getD v []).foldl
        (fun rev x => rev.addEdgeDirected (x.to : Int) (v : Int) x.e.w) rev) acc
      r.WF ∧ r.n = g.n ∧ ∀ a b, r.HasArc a b ↔ acc.HasArc a b ∨ (b ∈ vs ∧ g.HasArc b a) := by
    intro vs
    induction vs with
    | nil => intro _ acc hw hn; simp [hw, hn]
    | cons v vs ih =>
      intro hvs acc hw hn
      obtain ⟨j1, j2, j3⟩ := inner v (hvs v (by simp)) (g.adj.getD v []) (fun _ h => h) acc hw hn
      obtain ⟨k1, k2, k3⟩ := ih (fun w hw => hvs w (by simp [hw])) _ j1 j2
      refine ⟨k1, k2, ?_⟩
      intro a b
      simp only [List.foldl_cons]
      rw [k3, j3]
      constructor
      · rintro ((h | ⟨rfl, x, hx, rfl⟩) | ⟨h1, h2⟩)
        · exact Or.inl h
        · exact Or.inr ⟨by simp, x, hx, rfl⟩
        · exact Or.inr ⟨by simp [h1], h2⟩
      · rintro (h | ⟨h1, h2⟩)
        · exact Or.inl (Or.inl h)
        · rcases List.mem_cons.1 h1 with rfl | h1'
          · obtain ⟨x, hx, rfl⟩ := h2
            exact Or.inl (Or.inr ⟨rfl, x, hx, rfl⟩)
          · exact Or.inr ⟨h1', h2⟩
  obtain ⟨k1, k2, k3⟩ := outer (List.range g.n) (fun v hv => List.mem_range.1 hv) (Graph.new g.n) (wf_new _) rfl
  refine ⟨k1, k2, ?_⟩
  intro a b
  have := k3 a b
  simp only [not_hasArc_new, false_or, List.mem_range] at this
  show (Graph.reverse g).HasArc a b ↔ _
  unfold Graph.reverse
  rw [this]
  exact ⟨fun h => h.2, fun h => ⟨hg.src_lt h, h⟩⟩

end AlgoVerif.C14

namespace AlgoVerif.C14

theorem new_dwf (n : Nat) : (Graph.new n).DWF ∧ (Graph.new n).NonNeg :=
  ⟨by intro u x hx; rw [adj_new] at hx; simp at hx, by intro u x hx; rw [adj_new] at hx; simp at hx⟩

theorem dwf_addEdgeDirected (g : Graph) (hg : g.WF) (hd : g.DWF) (v w wt : Int) :
    (g.addEdgeDirected v w wt).DWF := by
  unfold Graph.addEdgeDirected
  split
  · rename_i h
    simp only [Bool.and_eq_true, valid_iff] at h
    intro u x hx
    rw [adj_addArc g hg _ (by omega)] at hx
    split at hx
    · rename_i e
      rcases List.mem_append.1 hx with h1 | h1
      · exact hd u x h1
      · have hx' : x = ⟨w.toNat, ⟨v.toNat, w.toNat, wt⟩⟩ := by simpa using h1
        subst hx'; exact ⟨e.symm, rfl⟩
    · exact hd u x hx
  · exact hd

theorem nonneg_addEdgeDirected (g : Graph) (hg : g.WF) (hd : g.NonNeg) (v w wt : Int)
    (hw : (0 ≤ v ∧ v < (g.n : Int) ∧ 0 ≤ w ∧ w < (g.n : Int)) → 0 ≤ wt) :
    (g.addEdgeDirected v w wt).NonNeg := by
  unfold Graph.addEdgeDirected
  split
  · rename_i h
    simp only [Bool.and_eq_true, valid_iff] at h
    intro u x hx
    rw [adj_addArc g hg _ (by omega)] at hx
    split at hx
    · rcases List.mem_append.1 hx with h1 | h1
      · exact hd u x h1
      · have hx' : x = ⟨w.toNat, ⟨v.toNat, w.toNat, wt⟩⟩ := by simpa using h1
        subst hx'; exact hw ⟨h.1.1, h.1.2, h.2.1, h.2.2⟩
    · exact hd u x hx
  · exact hd

theorem foldl_directed_dwf (es : List EdgeIn) :
    ∀ g : Graph, g.WF → g.DWF → (es.foldl (fun g e => g.addEdgeDirected e.u e.v e.w) g).DWF := by
  induction es with
  | nil => intro g _ hd; exact hd
  | cons e es ih =>
    intro g hg hd
    exact ih _ (wf_addEdgeDirected g hg _ _ _) (dwf_addEdgeDirected g hg hd _ _ _)

theorem foldl_directed_nonneg (es : List EdgeIn) (hes : ∀ e ∈ es, 0 ≤ e.w) :
    ∀ g : Graph, g.WF → g.NonNeg → (es.foldl (fun g e => g.addEdgeDirected e.u e.v e.w) g).NonNeg := by
  induction es with
  | nil => intro g _ hd; exact hd
  | cons e es ih =>
    intro g hg hd
    exact ih (fun x hx => hes x (by simp [hx])) _ (wf_addEdgeDirected g hg _ _ _)
      (nonneg_addEdgeDirected g hg hd _ _ _ (fun _ => hes e (by simp)))

/-- graphs built by `NewWeightedDirected(n, es…)` store each edge under its tail; no negative weight in the
list ⇒ none in the graph -/
theorem buildDirected_dwf (n : Nat) (es : List EdgeIn) :
    (buildDirected n es).DWF ∧ ((∀ e ∈ es, 0 ≤ e.w) → (buildDirected n es).NonNeg) :=
  ⟨foldl_directed_dwf es _ (wf_new n) (new_dwf n).1,
   fun h => foldl_directed_nonneg es h _ (wf_new n) (new_dwf n).2⟩

/-- the stored edges of a built directed graph are the valid edges of the list -/
theorem foldl_directed_hasEdge (es : List EdgeIn) :
    ∀ g : Graph, g.WF → ∀ a b e,
      (es.foldl (fun g e => g.addEdgeDirected e.u e.v e.w) g).HasEdge a b e ↔
        g.HasEdge a b e ∨ ∃ x ∈ es, 0 ≤ x.u ∧ x.u < (g.n : Int) ∧ 0 ≤ x.v ∧ x.v < (g.n : Int) ∧
          (a : Int) = x.u ∧ (b : Int) = x.v ∧ e = ⟨a, b, x.w⟩ := by
  induction es with
  | nil => intro g _ a b e; simp
  | cons x es ih =>
    intro g hg a b e
    simp only [List.foldl_cons]
    rw [ih _ (wf_addEdgeDirected g hg _ _ _), n_addEdgeDirected]
    have key : (g.addEdgeDirected x.u x.v x.w).HasEdge a b e ↔
        g.HasEdge a b e ∨ (0 ≤ x.u ∧ x.u < (g.n : Int) ∧ 0 ≤ x.v ∧ x.v < (g.n : Int) ∧
          (a : Int) = x.u ∧ (b : Int) = x.v ∧ e = ⟨a, b, x.w⟩) := by
      unfold Graph.HasEdge Graph.addEdgeDirected
      split
      · rename_i h
        simp only [Bool.and_eq_true, valid_iff] at h
        rw [adj_addArc g hg _ (by omega)]
        by_cases ha : a = x.u.toNat
        · simp only [ha, if_true, List.mem_append, List.mem_singleton]
          constructor
          · rintro (h1 | h1)
            · exact Or.inl h1
            · simp only [Arc.mk.injEq] at h1
              right
              refine ⟨h.1.1, h.1.2, h.2.1, h.2.2, by omega, by omega, ?_⟩
              rw [h1.2, h1.1]
          · rintro (h1 | ⟨_, _, _, _, _, h6, h7⟩)
            · exact Or.inl h1
            · right
              have hb : b = x.v.toNat := by omega
              rw [h7, hb]
        · simp only [ha, if_false]
          constructor
          · exact Or.inl
          · rintro (h1 | ⟨_, _, _, _, h5, _⟩)
            · exact h1
            · omega
      · rename_i h
        simp only [Bool.and_eq_true, valid_iff] at h
        constructor
        · exact Or.inl
        · rintro (h1 | ⟨h1, h2, h3, h4, _⟩)
          · exact h1
          · exact absurd ⟨⟨h1, h2⟩, ⟨h3, h4⟩⟩ h
    rw [key]
    simp only [List.mem_cons]
    constructor
    · rintro ((h | h) | ⟨y, hy, h⟩)
      · exact Or.inl h
      · exact Or.inr ⟨x, Or.inl rfl, h⟩
      · exact Or.inr ⟨y, Or.inr hy, h⟩
    · rintro (h | ⟨y, rfl | hy, h⟩)
      · exact Or.inl (Or.inl h)
      · exact Or.inl (Or.inr h)
      · exact Or.inr ⟨y, hy, h⟩

end AlgoVerif.C14

namespace AlgoVerif.C14

theorem uwf_addEdgeUndirected (g : Graph) (hg : g.WF) (hd : g.UWF) (v w wt : Int) :
    (g.addEdgeUndirected v w wt).UWF := by
  unfold Graph.addEdgeUndirected
  split
  · rename_i h
    simp only [Bool.and_eq_true, valid_iff] at h
    have h1 := wf_addArc g hg v.toNat (by omega) ⟨w.toNat, ⟨v.toNat, w.toNat, wt⟩⟩ (by show w.toNat < g.n; omega)
    intro u x hx
    rw [adj_addArc _ h1 _ (by rw [n_addArc]; omega)] at hx
    have step1 : ∀ y, y ∈ (g.addArc v.toNat ⟨w.toNat, ⟨v.toNat, w.toNat, wt⟩⟩).adj.getD u [] → Joins y.e u y.to := by
      intro y hy
      rw [adj_addArc g hg _ (by omega)] at hy
      split at hy
      · rename_i e
        rcases List.mem_append.1 hy with h2 | h2
        · exact hd u y h2
        · have hy' : y = ⟨w.toNat, ⟨v.toNat, w.toNat, wt⟩⟩ := by simpa using h2
          subst hy'; exact Or.inl ⟨e.symm, rfl⟩
      · exact hd u y hy
    split at hx
    · rename_i e
      rcases List.mem_append.1 hx with h2 | h2
      · exact step1 x h2
      · have hx' : x = ⟨v.toNat, ⟨v.toNat, w.toNat, wt⟩⟩ := by simpa using h2
        subst hx'; exact Or.inr ⟨e.symm, rfl⟩
    · exact step1 x hx
  · exact hd

theorem foldl_undirected_uwf (es : List EdgeIn) :
    ∀ g : Graph, g.WF → g.UWF → (es.foldl (fun g e => g.addEdgeUndirected e.u e.v e.w) g).UWF := by
  induction es with
  | nil => intro g _ hd; exact hd
  | cons e es ih =>
    intro g hg hd
    exact ih _ (wf_addEdgeUndirected g hg _ _ _) (uwf_addEdgeUndirected g hg hd _ _ _)

/-- graphs built by `NewWeightedUndirected(n, es…)`: every adjacency entry stores an edge joining its owner
and its neighbour -/
theorem buildUndirected_uwf (n : Nat) (es : List EdgeIn) : (buildUndirected n es).UWF :=
  foldl_undirected_uwf es _ (wf_new n) (by intro u x hx; rw [adj_new] at hx; simp at hx)

end AlgoVerif.C14

namespace AlgoVerif.C14

theorem mem_adj_addArc (g : Graph) (hg : g.WF) (v : Nat) (hv : v < g.n) (x : Arc) (u : Nat) (y : Arc) :
    y ∈ (g.addArc v x).adj.getD u [] ↔ y ∈ g.adj.getD u [] ∨ (u = v ∧ y = x) := by
  rw [adj_addArc g hg v hv]
  by_cases h : u = v
  · simp [h]
  · simp [h]

theorem ustored_addEdgeUndirected (g : Graph) (hg : g.WF) (hd : g.UStored) (v w wt : Int) :
    (g.addEdgeUndirected v w wt).UStored := by
  unfold Graph.addEdgeUndirected
  split
  · rename_i h
    simp only [Bool.and_eq_true, valid_iff] at h
    have hv : v.toNat < g.n := by omega
    have hw : w.toNat < g.n := by omega
    let e : Edge := ⟨v.toNat, w.toNat, wt⟩
    have h1 := wf_addArc g hg v.toNat hv ⟨w.toNat, e⟩ hw
    have hw1 : w.toNat < (g.addArc v.toNat ⟨w.toNat, e⟩).n := by rw [n_addArc]; exact hw
    -- membership in the new adjacency lists
    have hmem : ∀ u y, y ∈ ((g.addArc v.toNat ⟨w.toNat, e⟩).addArc w.toNat ⟨v.toNat, e⟩).adj.getD u [] ↔
        y ∈ g.adj.getD u [] ∨ (u = v.toNat ∧ y = ⟨w.toNat, e⟩) ∨ (u = w.toNat ∧ y = ⟨v.toNat, e⟩) := by
      intro u y
      rw [mem_adj_addArc _ h1 _ hw1, mem_adj_addArc g hg _ hv]
      constructor
      · rintro ((h | h) | h)
        · exact Or.inl h
        · exact Or.inr (Or.inl h)
        · exact Or.inr (Or.inr h)
      · rintro (h | h | h)
        · exact Or.inl (Or.inl h)
        · exact Or.inl (Or.inr h)
        · exact Or.inr h
    have hnew : ((g.addArc v.toNat ⟨w.toNat, e⟩).addArc w.toNat ⟨v.toNat, e⟩).StoredEdge e := by
      constructor
      · exact (hmem _ _).2 (Or.inr (Or.inl ⟨rfl, rfl⟩))
      · exact (hmem _ _).2 (Or.inr (Or.inr ⟨rfl, rfl⟩))
    intro u x hx
    rcases (hmem u x).1 hx with h2 | ⟨_, rfl⟩ | ⟨_, rfl⟩
    · obtain ⟨k1, k2⟩ := hd u x h2
      exact ⟨(hmem _ _).2 (Or.inl k1), (hmem _ _).2 (Or.inl k2)⟩
    · exact hnew
    · exact hnew
  · exact hd

theorem foldl_undirected_ustored (es : List EdgeIn) :
    ∀ g : Graph, g.WF → g.UStored → (es.foldl (fun g e => g.addEdgeUndirected e.u e.v e.w) g).UStored := by
  induction es with
  | nil => intro g _ hd; exact hd
  | cons e es ih =>
    intro g hg hd
    exact ih _ (wf_addEdgeUndirected g hg _ _ _) (ustored_addEdgeUndirected g hg hd _ _ _)

/-- graphs built by `NewWeightedUndirected(n, es…)` store every edge in the adjacency lists of both ends -/
theorem buildUndirected_ustored (n : Nat) (es : List EdgeIn) : (buildUndirected n es).UStored :=
  foldl_undirected_ustored es _ (wf_new n) (by intro u x hx; rw [adj_new] at hx; simp at hx)

end AlgoVerif.C14
