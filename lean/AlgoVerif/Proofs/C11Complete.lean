import AlgoVerif.Proofs.C11Sound
import AlgoVerif.Proofs.C11Lists
/-!
# C11 — completeness of the LR driver on a table that passes the completeness validator

`CompleteTable`: a conflict-free table over LR(1) item sets that contain the initial item, are closed under CLOSURE
(with a FIRST that is closed under the productions), have a transition for every symbol after a dot into a state
holding the advanced item, and a reduce (accept) action for every complete item on its lookahead.

On such a table the driver, started below a derivation tree `t` of the grammar, works its way through the yield
of `t`, emits the productions of `t` bottom-up, builds exactly `t` on the node stack and ends in the GOTO state —
by induction on the tree (in the style of Jourdan, Pottier, Leroy: "Validating LR(1) parsers").  Hence every
sentence is accepted, and the AST returned is its derivation tree.
-/
namespace AlgoVerif.C11.Complete
open AlgoVerif AlgoVerif.Gram AlgoVerif.C11 AlgoVerif.C11.Spec

/-- the token the driver looks at: the next input token, the endmarker at the end -/
def look (v : List String) : String :=
  match v with
  | [] => endmarker
  | a :: _ => a

structure CompleteTable (g : SGrammar) (start' : String) (nl : List String) (fe : Env)
    (items : Int → List Item) (T : Tbl) : Prop where
  init : ({ prod := { head := start', body := [Sym.nonterm g.start] }, dot := 0, la := some endmarker } : Item) ∈ items 0
  closed : ∀ s it B a, it ∈ items s → it.dotSym = some (Sym.nonterm B) → it.la = some a →
    ∀ p ∈ g.prods, p.head = B → ∀ b ∈ lookaheadsFor nl fe it a,
      ({ prod := p, dot := 0, la := some b } : Item) ∈ items s
  advT : ∀ s it a, it ∈ items s → it.dotSym = some (Sym.term a) →
    ∃ t, Action.shift t ∈ T.cell s a ∧ it.next ∈ items t
  advN : ∀ s it A, it ∈ items s → it.dotSym = some (Sym.nonterm A) →
    ∃ t, T.goto s A = some t ∧ it.next ∈ items t
  red : ∀ s it a, it ∈ items s → it.isComplete = true → it.la = some a → it.prod.head ≠ start' →
    Action.reduce it.prod ∈ T.cell s a
  acc : ∀ s it, it ∈ items s → it.isComplete = true → it.prod.head = start' → Action.accept ∈ T.cell s endmarker
  conflictFree : ∀ s a, (T.cell s a).length ≤ 1
  nullClosed : ∀ p ∈ g.prods, p.body.all (symNullable nl) = true → p.head ∈ nl
  firstClosed : ∀ p ∈ g.prods, ∀ c ∈ firstOfStr nl fe p.body, c ∈ envGet fe p.head
  fresh : ∀ p ∈ g.prods, p.head ≠ start'

theorem cell_single {T : Tbl} {s : Int} {a : String} {x : Action} (hcf : (T.cell s a).length ≤ 1)
    (hx : x ∈ T.cell s a) : T.cell s a = [x] := by
  match hc : T.cell s a, hcf, hx with
  | [y], _, hx => simp at hx; rw [hx]
  | _ :: _ :: _, hcf, _ => simp at hcf

/-! ## iterating the driver -/

def iter (T : Tbl) : Nat → PState → Option PState
  | 0, st => some st
  | n + 1, st =>
    match pstep T st with
    | .inl st' => iter T n st'
    | .inr _ => none

def Reaches (T : Tbl) (st st' : PState) : Prop := ∃ n, iter T n st = some st'

theorem reaches_refl (T : Tbl) (st : PState) : Reaches T st st := ⟨0, rfl⟩

theorem iter_trans {T : Tbl} : ∀ (n m : Nat) (a b c : PState), iter T n a = some b → iter T m b = some c →
    iter T (n + m) a = some c
  | 0, m, a, b, c, h1, h2 => by simp [iter] at h1; subst h1; simpa using h2
  | n + 1, m, a, b, c, h1, h2 => by
    rw [show n + 1 + m = (n + m) + 1 by omega]
    unfold iter at h1 ⊢
    cases hs : pstep T a with
    | inl a' => rw [hs] at h1; simp only at h1 ⊢; exact iter_trans n m a' b c h1 h2
    | inr r => rw [hs] at h1; simp at h1

theorem reaches_trans {T : Tbl} {a b c : PState} (h1 : Reaches T a b) (h2 : Reaches T b c) : Reaches T a c := by
  obtain ⟨n, hn⟩ := h1
  obtain ⟨m, hm⟩ := h2
  exact ⟨n + m, iter_trans n m a b c hn hm⟩

theorem reaches_step {T : Tbl} {a b : PState} (h : pstep T a = .inl b) : Reaches T a b :=
  ⟨1, by simp [iter, h]⟩

theorem prun_iter {T : Tbl} : ∀ (n m : Nat) (a b : PState), iter T n a = some b → prun T (n + m) a = prun T m b
  | 0, m, a, b, h => by simp [iter] at h; subst h; simp
  | n + 1, m, a, b, h => by
    rw [show n + 1 + m = (n + m) + 1 by omega]
    unfold iter at h
    have hp : prun T ((n + m) + 1) a =
        (match pstep T a with | .inl st' => prun T (n + m) st' | .inr r => Outcome.ok r) := rfl
    rw [hp]
    cases hs : pstep T a with
    | inl a' => rw [hs] at h; simp only at h ⊢; exact prun_iter n m a' b h
    | inr r => rw [hs] at h; simp at h

/-! ## nullable and FIRST are complete when they are closed -/

theorem treeSize_pos (t : Tree) : 0 < treeSize t := by
  cases t <;> simp [treeSize] <;> omega

section
variable {g : SGrammar} {nl : List String} {fe : Env}
  (hN : ∀ p ∈ g.prods, p.body.all (symNullable nl) = true → p.head ∈ nl)
  (hF : ∀ p ∈ g.prods, ∀ c ∈ firstOfStr nl fe p.body, c ∈ envGet fe p.head)
include hN

theorem null_sem : ∀ (N : Nat),
    (∀ t X, treeSize t ≤ N → derivesT g t X → t.yield = [] → symNullable nl X = true) ∧
    (∀ ks σ, treeSizeL ks ≤ N → derivesL g ks σ → Tree.yieldL ks = [] → σ.all (symNullable nl) = true) := by
  intro N
  induction N with
  | zero =>
    constructor
    · intro t X hs; have := treeSize_pos t; omega
    · intro ks σ hs hd hy
      cases ks with
      | nil => simp [derivesL] at hd; subst hd; simp
      | cons t tr => simp [treeSizeL] at hs; have := treeSize_pos t; omega
  | succ N ih =>
    have hT : ∀ t X, treeSize t ≤ N + 1 → derivesT g t X → t.yield = [] → symNullable nl X = true := by
      intro t X hs hd hy
      cases t with
      | leaf a => simp [Tree.yield] at hy
      | nil => simp [derivesT] at hd
      | node p ks =>
        simp only [derivesT] at hd
        obtain ⟨rfl, hp, hks⟩ := hd
        simp only [Tree.yield] at hy
        simp only [treeSize] at hs
        have := ih.2 ks p.body (by omega) hks hy
        simpa [symNullable] using hN p hp this
    refine ⟨hT, ?_⟩
    intro ks
    induction ks with
    | nil => intro σ _ hd _; simp [derivesL] at hd; subst hd; simp
    | cons t tr ihl =>
      intro σ hs hd hy
      simp only [derivesL] at hd
      obtain ⟨X, Xr, rfl, hdt, hdr⟩ := hd
      simp only [Tree.yieldL, List.append_eq_nil_iff] at hy
      simp only [treeSizeL] at hs
      have h1 := hT t X (by omega) hdt hy.1
      have h2 := ihl Xr (by omega) hdr hy.2
      simp [h1, h2]

include hF

theorem first_sem : ∀ (N : Nat),
    (∀ t X c x, treeSize t ≤ N → derivesT g t X → t.yield = c :: x → c ∈ firstOfStr nl fe [X]) ∧
    (∀ ks σ c x, treeSizeL ks ≤ N → derivesL g ks σ → Tree.yieldL ks = c :: x → c ∈ firstOfStr nl fe σ) := by
  intro N
  induction N with
  | zero =>
    constructor
    · intro t X c x hs; have := treeSize_pos t; omega
    · intro ks σ c x hs hd hy
      cases ks with
      | nil => simp [Tree.yieldL] at hy
      | cons t tr => simp [treeSizeL] at hs; have := treeSize_pos t; omega
  | succ N ih =>
    have hT : ∀ t X c x, treeSize t ≤ N + 1 → derivesT g t X → t.yield = c :: x → c ∈ firstOfStr nl fe [X] := by
      intro t X c x hs hd hy
      cases t with
      | leaf a =>
        simp only [derivesT] at hd
        subst hd
        simp only [Tree.yield, List.cons.injEq] at hy
        simp [firstOfStr, hy.1]
      | nil => simp [derivesT] at hd
      | node p ks =>
        simp only [derivesT] at hd
        obtain ⟨rfl, hp, hks⟩ := hd
        simp only [Tree.yield] at hy
        simp only [treeSize] at hs
        have h1 := ih.2 ks p.body c x (by omega) hks hy
        have h2 := hF p hp c h1
        simp only [firstOfStr]
        split
        · exact Built.mem_unionNew.mpr (Or.inl h2)
        · exact h2
    refine ⟨hT, ?_⟩
    intro ks
    induction ks with
    | nil => intro σ c x _ _ hy; simp [Tree.yieldL] at hy
    | cons t tr ihl =>
      intro σ c x hs hd hy
      simp only [derivesL] at hd
      obtain ⟨X, Xr, rfl, hdt, hdr⟩ := hd
      simp only [treeSizeL] at hs
      simp only [Tree.yieldL] at hy
      cases hty : t.yield with
      | nil =>
        rw [hty] at hy
        simp only [List.nil_append] at hy
        have hnull := (null_sem hN (N + 1)).1 t X (by omega) hdt hty
        have hrest := ihl Xr c x (by omega) hdr hy
        cases X with
        | term a => simp [symNullable] at hnull
        | nonterm n =>
          have hn : n ∈ nl := by simpa [symNullable] using hnull
          simp only [firstOfStr, hn, if_true]
          exact Built.mem_unionNew.mpr (Or.inr hrest)
      | cons c' x' =>
        rw [hty] at hy
        simp only [List.cons_append, List.cons.injEq] at hy
        have h1 := hT t X c' x' (by omega) hdt hty
        rw [hy.1] at h1
        cases X with
        | term a => simpa [firstOfStr] using h1
        | nonterm n =>
          simp only [firstOfStr] at h1 ⊢
          by_cases hn : n ∈ nl
          · simp only [hn, if_true] at h1 ⊢
            rcases Built.mem_unionNew.mp h1 with h2 | h2
            · exact Built.mem_unionNew.mpr (Or.inl h2)
            · simp [firstOfStr] at h2
          · simp only [hn, if_false] at h1 ⊢
            exact h1

/-- the lookahead after a forest for `σ` is in FIRST(σ·l) -/
theorem look_sem {ks : List Tree} {σ : List Sy} (hd : derivesL g ks σ) (v : List String) :
    look (Tree.yieldL ks ++ v) ∈
      (if σ.all (symNullable nl) then unionNew (firstOfStr nl fe σ) [look v] else firstOfStr nl fe σ) := by
  cases hy : Tree.yieldL ks with
  | nil =>
    have := (null_sem hN (treeSizeL ks)).2 ks σ (Nat.le_refl _) hd hy
    simp only [this, if_true, List.nil_append]
    exact Built.mem_unionNew.mpr (Or.inr (by simp))
  | cons c x =>
    have := (first_sem hN hF (treeSizeL ks)).2 ks σ c x (Nat.le_refl _) hd hy
    simp only [List.cons_append, look]
    split
    · exact Built.mem_unionNew.mpr (Or.inl this)
    · exact this

end


/-! ## the driver works its way through a derivation tree -/

theorem derivesL_length {g : SGrammar} : ∀ {ks : List Tree} {σ : List Sy}, derivesL g ks σ → ks.length = σ.length
  | [], σ, h => by simp [derivesL] at h; subst h; rfl
  | k :: kr, σ, h => by
    simp only [derivesL] at h
    obtain ⟨X, Xr, rfl, _, hkr⟩ := h
    simp [derivesL_length hkr]

/-- what the driver does below a tree `t` for the symbol after the dot of `it` -/
def ProcT (g : SGrammar) (nl : List String) (fe : Env) (items : Int → List Item) (T : Tbl) (t : Tree) : Prop :=
  ∀ (X : Sy) (st : PState) (it : Item) (v : List String),
    derivesT g t X → st.input = t.yield ++ v → it ∈ items (peekState st.stack) → it.dotSym = some X →
    (∀ B, X = Sym.nonterm B → ∃ a, it.la = some a ∧ look v ∈ lookaheadsFor nl fe it a) →
    ∃ (st' : PState) (s' : Int), Reaches T st st' ∧ st'.stack = s' :: st.stack ∧ it.next ∈ items s' ∧
      st'.input = v ∧ st'.out = (postT t).reverse ++ st.out ∧ st'.nodes = t :: st.nodes

theorem dotSym_at {p : Pr} {pre : List Sy} {X : Sy} {σ : List Sy} {la : Option String}
    (hb : p.body = pre ++ X :: σ) : ({ prod := p, dot := pre.length, la := la } : Item).dotSym = some X := by
  simp [Item.dotSym, hb]

theorem lookaheadsFor_at {nl : List String} {fe : Env} {p : Pr} {pre : List Sy} {X : Sy} {σ : List Sy}
    {l : String} (hb : p.body = pre ++ X :: σ) :
    lookaheadsFor nl fe ({ prod := p, dot := pre.length, la := some l } : Item) l =
      (if σ.all (symNullable nl) then unionNew (firstOfStr nl fe σ) [l] else firstOfStr nl fe σ) := by
  have : p.body.drop (pre.length + 1) = σ := by
    rw [hb]; simp
  simp only [lookaheadsFor, this]

section
variable {g : SGrammar} {start' : String} {nl : List String} {fe : Env} {items : Int → List Item} {T : Tbl}
  (hC : CompleteTable g start' nl fe items T)
include hC

/-- a forest for the rest of a production's body, given `ProcT` for each of its trees -/
theorem proc_forest (p : Pr) (l : String) :
    ∀ (ks : List Tree) (σ pre : List Sy) (st : PState) (v : List String),
      (∀ t ∈ ks, ProcT g nl fe items T t) → derivesL g ks σ → p.body = pre ++ σ →
      st.input = Tree.yieldL ks ++ v → look v = l →
      ({ prod := p, dot := pre.length, la := some l } : Item) ∈ items (peekState st.stack) →
      ∃ (st' : PState) (pushed : List Int), Reaches T st st' ∧ st'.stack = pushed ++ st.stack ∧
        pushed.length = σ.length ∧
        ({ prod := p, dot := p.body.length, la := some l } : Item) ∈ items (peekState st'.stack) ∧
        st'.input = v ∧ st'.out = (postL ks).reverse ++ st.out ∧ st'.nodes = ks.reverse ++ st.nodes := by
  intro ks
  induction ks with
  | nil =>
    intro σ pre st v _ hd hb hin _ hit
    simp only [derivesL] at hd
    subst hd
    simp only [List.append_nil] at hb
    refine ⟨st, [], reaches_refl T st, by simp, by simp, ?_, by simpa [Tree.yieldL] using hin, by simp [postL], by simp⟩
    rw [hb]; exact hit
  | cons t tr ih =>
    intro σ pre st v hproc hd hb hin hl hit
    simp only [derivesL] at hd
    obtain ⟨X, σr, rfl, hdt, hdr⟩ := hd
    -- the first tree
    have hin1 : st.input = t.yield ++ (Tree.yieldL tr ++ v) := by
      rw [hin]; simp [Tree.yieldL, List.append_assoc]
    obtain ⟨st1, s1, hr1, hstk1, hnext1, hin1', hout1, hnodes1⟩ :=
      hproc t (by simp) X st _ (Tree.yieldL tr ++ v) hdt hin1 hit (dotSym_at hb) (by
        intro B hB
        refine ⟨l, rfl, ?_⟩
        rw [lookaheadsFor_at hb]
        have := look_sem hC.nullClosed hC.firstClosed hdr v
        rw [hl] at this
        exact this)
    -- the rest
    have hb' : p.body = (pre ++ [X]) ++ σr := by rw [hb]; simp
    have hit' : ({ prod := p, dot := (pre ++ [X]).length, la := some l } : Item) ∈ items (peekState st1.stack) := by
      rw [hstk1]
      simpa [peekState, Item.next] using hnext1
    obtain ⟨st2, pushed, hr2, hstk2, hlen2, hfin2, hin2, hout2, hnodes2⟩ :=
      ih σr (pre ++ [X]) st1 v (fun t' ht' => hproc t' (List.mem_cons_of_mem _ ht')) hdr hb' hin1' hl hit'
    refine ⟨st2, pushed ++ [s1], reaches_trans hr1 hr2, ?_, by simp [hlen2], hfin2, hin2, ?_, ?_⟩
    · rw [hstk2, hstk1]; simp
    · rw [hout2, hout1]; simp [postL, List.append_assoc]
    · rw [hnodes2, hnodes1]; simp

theorem proc_tree : ∀ (N : Nat) (t : Tree), treeSize t ≤ N → ProcT g nl fe items T t := by
  intro N
  induction N with
  | zero => intro t hs; have := treeSize_pos t; omega
  | succ N ih =>
    intro t hs X st it v hd hin hit hdot hla
    cases t with
    | nil => simp [derivesT] at hd
    | leaf a =>
      simp only [derivesT] at hd
      subst hd
      obtain ⟨t', hsh, hnext⟩ := hC.advT _ it a hit hdot
      have hin' : st.input = a :: v := by simpa [Tree.yield] using hin
      have htok : st.tok = a := by simp [PState.tok, hin']
      have hcell := cell_single (hC.conflictFree _ _) hsh
      have hstep : pstep T st = .inl (PState.mk (t' :: st.stack) st.input.tail st.out (Tree.leaf a :: st.nodes)
          (st.shifted + 1)) := by
        unfold pstep
        simp only [htok, hcell]
      refine ⟨_, t', reaches_step hstep, rfl, hnext, by simp [hin'], by simp [postT], rfl⟩
    | node p ks =>
      simp only [derivesT] at hd
      obtain ⟨rfl, hp, hks⟩ := hd
      simp only [treeSize] at hs
      obtain ⟨a, hita, hlook⟩ := hla p.head rfl
      -- the item B → •γ with lookahead `look v` is in the state
      have hi0 := hC.closed _ it p.head a hit hdot hita p hp rfl (look v) hlook
      have hkids : ∀ t ∈ ks, ProcT g nl fe items T t := by
        intro t ht
        apply ih
        have : treeSize t ≤ treeSizeL ks := by
          clear hs hks hin hi0
          induction ks with
          | nil => simp at ht
          | cons k kr ihk =>
            simp only [treeSizeL]
            rcases List.mem_cons.mp ht with rfl | h'
            · omega
            · have := ihk h'; omega
        omega
      have hin' : st.input = Tree.yieldL ks ++ v := by simpa [Tree.yield] using hin
      obtain ⟨st1, pushed, hr1, hstk1, hlen1, hfin1, hin1, hout1, hnodes1⟩ :=
        proc_forest hC p (look v) ks p.body [] st v hkids hks (by simp) hin' rfl (by simpa using hi0)
      -- reduce by p
      have htok : st1.tok = look v := by
        unfold PState.tok look; rw [hin1]; cases v <;> rfl
      have hred := hC.red _ _ (look v) hfin1 (by simp [Item.isComplete]) rfl (hC.fresh p hp)
      have hcell := cell_single (hC.conflictFree _ _) hred
      obtain ⟨s', hgoto, hnext⟩ := hC.advN _ it p.head hit hdot
      have hdrop : st1.stack.drop p.body.length = st.stack := by
        rw [hstk1, ← hlen1]; simp
      have hklen : ks.length = p.body.length := derivesL_length hks
      have hkidsEq : popKids p.body.length st1.nodes = ks := by
        rw [hnodes1]
        simp [popKids, ← hklen]
      have hstep : pstep T st1 = .inl (PState.mk (s' :: st.stack) st1.input (p :: st1.out)
          (Tree.node p ks :: st.nodes) st1.shifted) := by
        unfold pstep
        simp only [htok, hcell, hdrop, hgoto, Option.getD_some, hkidsEq]
        have : st1.nodes.drop p.body.length = st.nodes := by
          rw [hnodes1]
          have hklen' : ks.reverse.length = p.body.length := by simp [hklen]
          rw [← hklen']; simp
        rw [this]
      refine ⟨_, s', reaches_trans hr1 (reaches_step hstep), rfl, hnext, by simpa using hin1, ?_, rfl⟩
      simp [postT, hout1]

end


/-! ## every derivation tree of the start symbol is parsed, and returned -/

theorem complete_tree {g : SGrammar} {start' : String} {nl : List String} {fe : Env} {items : Int → List Item}
    {T : Tbl} (hC : CompleteTable g start' nl fe items T) (t : Tree)
    (hd : derivesT g t (Sym.nonterm g.start)) :
    ∃ fuel, parse T fuel t.yield = Outcome.ok (PResult.accept (postT t) t) := by
  let it0 : Item := { prod := { head := start', body := [Sym.nonterm g.start] }, dot := 0, la := some endmarker }
  have hproc := proc_tree hC (treeSize t) t (Nat.le_refl _) (Sym.nonterm g.start) (pinit t.yield) it0 []
    hd (by simp [pinit]) (by simpa [pinit, peekState] using hC.init) (by simp [it0, Item.dotSym]) (by
      intro B _
      refine ⟨endmarker, rfl, ?_⟩
      simp [it0, lookaheadsFor, look, firstOfStr, unionNew, addNew])
  obtain ⟨st', s', ⟨n, hn⟩, hstk, hnext, hin, hout, hnodes⟩ := hproc
  refine ⟨n + 1, ?_⟩
  unfold parse
  rw [prun_iter n 1 _ st' hn]
  have hacc := hC.acc s' it0.next hnext (by simp [it0, Item.next, Item.isComplete]) (by simp [it0, Item.next])
  have hcell := cell_single (hC.conflictFree _ _) hacc
  have htok : st'.tok = endmarker := by simp [PState.tok, hin]
  have hpeek : peekState st'.stack = s' := by rw [hstk]; rfl
  simp only [prun, pstep, hpeek, htok, hcell, hout, hnodes]
  simp [pinit]

/-! ## from derivations to derivation trees -/

theorem derivesL_append {g : SGrammar} : ∀ {k1 k2 : List Tree} {a b : List Sy},
    derivesL g k1 a → derivesL g k2 b → derivesL g (k1 ++ k2) (a ++ b)
  | [], k2, a, b, h1, h2 => by simp [derivesL] at h1; subst h1; simpa using h2
  | t :: tr, k2, a, b, h1, h2 => by
    simp only [derivesL] at h1
    obtain ⟨X, Xr, rfl, ht, hr⟩ := h1
    simp only [List.cons_append, derivesL]
    exact ⟨X, Xr ++ b, rfl, ht, derivesL_append hr h2⟩

theorem derivesL_split {g : SGrammar} : ∀ {ks : List Tree} {a b : List Sy}, derivesL g ks (a ++ b) →
    ∃ k1 k2, ks = k1 ++ k2 ∧ derivesL g k1 a ∧ derivesL g k2 b
  | ks, [], b, h => ⟨[], ks, rfl, by simp [derivesL], by simpa using h⟩
  | [], X :: a, b, h => by simp [derivesL] at h
  | t :: tr, X :: a, b, h => by
    simp only [List.cons_append, derivesL] at h
    obtain ⟨X', Xr, heq, ht, hr⟩ := h
    simp only [List.cons.injEq] at heq
    obtain ⟨rfl, rfl⟩ := heq
    obtain ⟨k1, k2, rfl, h1, h2⟩ := derivesL_split hr
    exact ⟨t :: k1, k2, rfl, by simp only [derivesL]; exact ⟨X, a, rfl, ht, h1⟩, h2⟩

theorem derivesL_terms (g : SGrammar) : ∀ (w : List String),
    derivesL g (w.map Tree.leaf) (w.map Sym.term) ∧ Tree.yieldL (w.map Tree.leaf) = w
  | [] => by simp [derivesL, Tree.yieldL]
  | a :: w => by
    obtain ⟨h1, h2⟩ := derivesL_terms g w
    constructor
    · simp only [List.map_cons, derivesL]
      exact ⟨Sym.term a, w.map Sym.term, rfl, by simp [derivesT], h1⟩
    · simp [Tree.yieldL, Tree.yield, h2]

/-- `φ` has a forest with yield `w` -/
def HasForest (g : SGrammar) (w : List String) (φ : List Sy) : Prop :=
  ∃ ks, derivesL g ks φ ∧ Tree.yieldL ks = w

theorem hasForest_step {g : SGrammar} {w : List String} {β γ : List Sy} (hs : Step g β γ)
    (hγ : HasForest g w γ) : HasForest g w β := by
  cases hs with
  | mk u v p hp =>
    obtain ⟨ks, hks, hy⟩ := hγ
    obtain ⟨kuv, kv, rfl, huv, hv⟩ := derivesL_split hks
    obtain ⟨ku, kb, rfl, hu, hb⟩ := derivesL_split huv
    refine ⟨ku ++ [Tree.node p kb] ++ kv, ?_, ?_⟩
    · apply derivesL_append (derivesL_append hu _) hv
      simp [derivesL, derivesT, hp, hb]
    · rw [← hy]
      simp [Sound.yieldL_append, Tree.yieldL, Tree.yield]

theorem hasForest_of_derives {g : SGrammar} {w : List String} {α β : List Sy} (hd : Derives g α β)
    (hβ : HasForest g w β) : HasForest g w α := by
  induction hd with
  | refl => exact hβ
  | tail _ hs ih => exact ih (hasForest_step hs hβ)

theorem tree_of_language {g : SGrammar} {w : List String} (hw : Language g w) :
    ∃ t, derivesT g t (Sym.nonterm g.start) ∧ t.yield = w := by
  have h0 : HasForest g w (w.map Sym.term) := ⟨_, (derivesL_terms g w).1, (derivesL_terms g w).2⟩
  obtain ⟨ks, hks, hy⟩ := hasForest_of_derives hw h0
  match ks, hks, hy with
  | [t], hks, hy =>
    simp only [derivesL] at hks
    obtain ⟨X, Xr, heq, ht, _⟩ := hks
    simp only [List.cons.injEq] at heq
    refine ⟨t, heq.1 ▸ ht, by simpa [Tree.yieldL] using hy⟩
  | [], hks, _ => simp [derivesL] at hks
  | _ :: _ :: _, hks, _ =>
    simp only [derivesL] at hks
    obtain ⟨X, Xr, heq, _, X', Xr', heq', _⟩ := hks
    simp only [List.cons.injEq] at heq
    rw [← heq.2] at heq'
    simp at heq'

/-- completeness: every sentence is accepted, with its derivation tree as AST -/
theorem complete_language {g : SGrammar} {start' : String} {nl : List String} {fe : Env} {items : Int → List Item}
    {T : Tbl} (hC : CompleteTable g start' nl fe items T) (w : List String) (hw : Language g w) :
    ∃ fuel t, derivesT g t (Sym.nonterm g.start) ∧ t.yield = w ∧
      parse T fuel w = Outcome.ok (PResult.accept (postT t) t) := by
  obtain ⟨t, ht, hy⟩ := tree_of_language hw
  obtain ⟨fuel, hf⟩ := complete_tree hC t ht
  exact ⟨fuel, t, ht, hy, hy ▸ hf⟩

end AlgoVerif.C11.Complete
