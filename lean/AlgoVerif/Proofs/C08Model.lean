import AlgoVerif.Proofs.C08Lang
import AlgoVerif.Spec.C09
/-!
# Facts about the Model of the CFG transformations (`Model/C08.lean`) used by the C08 and C09 theorems
-/
namespace AlgoVerif.C08
open AlgoVerif AlgoVerif.Gram

/-! ## list-sets, folds, fixpoints -/

theorem mem_ins {α : Type} [DecidableEq α] {l : List α} {x y : α} : y ∈ ins l x ↔ y ∈ l ∨ y = x := by
  unfold ins
  split
  · constructor
    · exact Or.inl
    · rintro (h | rfl) <;> assumption
  · simp

theorem mem_insAll {α : Type} [DecidableEq α] {xs l : List α} {y : α} : y ∈ insAll l xs ↔ y ∈ l ∨ y ∈ xs := by
  unfold insAll
  induction xs generalizing l with
  | nil => simp
  | cons x xs ih =>
    simp only [List.foldl_cons, List.mem_cons]
    rw [ih, mem_ins]
    constructor
    · rintro ((h | h) | h)
      · exact Or.inl h
      · exact Or.inr (Or.inl h)
      · exact Or.inr (Or.inr h)
    · rintro (h | h | h)
      · exact Or.inl (Or.inl h)
      · exact Or.inl (Or.inr h)
      · exact Or.inr h

theorem ins_prefix {α : Type} [DecidableEq α] (l : List α) (x : α) : l <+: ins l x := by
  unfold ins
  split
  · exact List.prefix_refl _
  · exact List.prefix_append _ _

theorem insAll_prefix {α : Type} [DecidableEq α] (xs l : List α) : l <+: insAll l xs := by
  unfold insAll
  induction xs generalizing l with
  | nil => exact List.prefix_refl _
  | cons x xs ih => exact (ins_prefix l x).trans (ih _)

theorem foldl_inv {α β : Type} (P : α → Prop) (f : α → β → α) (l : List β)
    (h : ∀ a b, b ∈ l → P a → P (f a b)) : ∀ a, P a → P (l.foldl f a) := by
  induction l with
  | nil => intro a ha; exact ha
  | cons b l ih =>
    intro a ha
    exact ih (fun a b hb => h a b (List.mem_cons_of_mem _ hb)) _ (h a b (List.mem_cons_self ..) ha)

theorem foldl_prefix {α β : Type} (f : List α → β → List α) (hf : ∀ l b, l <+: f l b) (bs : List β) (l : List α) :
    l <+: bs.foldl f l := by
  induction bs generalizing l with
  | nil => exact List.prefix_refl _
  | cons b bs ih => exact (hf l b).trans (ih _)

/-- a fold of prefix-extending steps that returns its start value left it unchanged at every step -/
theorem foldl_fix_of_prefix {α β : Type} (f : List α → β → List α) (hf : ∀ l b, l <+: f l b) :
    ∀ (bs : List β) (l : List α), bs.foldl f l = l → ∀ b ∈ bs, f l b = l := by
  intro bs
  induction bs with
  | nil => intro l _ b hb; cases hb
  | cons b bs ih =>
    intro l h c hc
    have h1 : l <+: f l b := hf l b
    have h2 : f l b <+: bs.foldl f (f l b) := foldl_prefix f hf bs _
    simp only [List.foldl_cons] at h
    rw [h] at h2
    have hlen : (f l b).length = l.length := Nat.le_antisymm h2.length_le h1.length_le
    have hb : f l b = l := (h1.eq_of_length hlen.symm).symm
    rcases List.mem_cons.mp hc with rfl | hc
    · exact hb
    · rw [hb] at h
      exact ih l h c hc

theorem iterFix_fix {α : Type} [DecidableEq α] (f : α → α) : ∀ (n : Nat) (x y : α), iterFix f n x = some y → f y = y := by
  intro n
  induction n with
  | zero => intro x y h; simp [iterFix] at h
  | succ n ih =>
    intro x y h
    simp only [iterFix] at h
    split at h
    · cases h; assumption
    · exact ih _ _ h

theorem iterFix_inv {α : Type} [DecidableEq α] (f : α → α) (P : α → Prop) (hP : ∀ a, P a → P (f a)) :
    ∀ (n : Nat) (x y : α), P x → iterFix f n x = some y → P y := by
  intro n
  induction n with
  | zero => intro x y _ h; simp [iterFix] at h
  | succ n ih =>
    intro x y hx h
    simp only [iterFix] at h
    split at h
    · cases h; exact hx
    · exact ih _ _ (hP _ hx) h

theorem ofOpt_ok {α : Type} {o : Option α} {a : α} (h : ofOpt o = .ok a) : o = some a := by
  cases o <;> simp [ofOpt] at h
  exact h ▸ rfl

theorem mem_bodyNTs {b : List SSym} {n : String} : n ∈ bodyNTs b ↔ Sym.nonterm n ∈ b := by
  unfold bodyNTs
  induction b with
  | nil => simp
  | cons s b ih =>
    cases s with
    | term t => simp [List.filterMap_cons, ih]
    | nonterm m =>
      simp only [List.filterMap_cons, List.mem_cons, ih]
      constructor
      · rintro (h | h)
        · exact Or.inl (by rw [h])
        · exact Or.inr h
      · rintro (h | h)
        · exact Or.inl (by cases h; rfl)
        · exact Or.inr h

/-! ## `EliminateUnreachableProductions` -/

theorem reachPass_prefix (ps : List SProd) (r : List String) : r <+: reachPass ps r := by
  unfold reachPass
  apply foldl_prefix
  intro l p
  split
  · exact insAll_prefix _ _
  · exact List.prefix_refl _

/-- a fixpoint of `reachPass` is closed under the productions -/
theorem reachPass_closed {ps : List SProd} {r : List String} (h : reachPass ps r = r) :
    ∀ p ∈ ps, p.head ∈ r → ∀ n, Sym.nonterm n ∈ p.body → n ∈ r := by
  intro p hp hh n hn
  have hstep := foldl_fix_of_prefix
    (fun (r : List String) (p : SProd) => if p.head ∈ r then insAll r (bodyNTs p.body) else r)
    (by intro l p; split
        · exact insAll_prefix _ _
        · exact List.prefix_refl _) ps r h p hp
  simp only [hh, if_true] at hstep
  have : n ∈ insAll r (bodyNTs p.body) := mem_insAll.mpr (Or.inr (mem_bodyNTs.mpr hn))
  rwa [hstep] at this

theorem reachable_spec {g : G} {r : List String} (h : reachable g = .ok r) :
    g.start ∈ r ∧ ∀ p ∈ g.prods, p.head ∈ r → ∀ n, Sym.nonterm n ∈ p.body → n ∈ r := by
  unfold reachable at h
  have h' := ofOpt_ok h
  constructor
  · refine iterFix_inv (reachPass g.prods) (fun r => g.start ∈ r) ?_ _ _ _ (by simp) h'
    intro a ha
    exact (reachPass_prefix g.prods a).subset ha
  · exact reachPass_closed (iterFix_fix _ _ _ _ h')

theorem elimUnreachable_ok {g g' : G} (h : elimUnreachable g = .ok g') :
    ∃ r, reachable g = .ok r ∧ g'.start = g.start ∧ g'.nonterms = r ∧
      g'.prods = g.prods.filter (fun p => decide (p.head ∈ r)) ∧
      g'.terms = g.terms.filter (fun t => (g.prods.filter (fun p => decide (p.head ∈ r))).any (fun p => p.body.contains (.term t))) := by
  unfold elimUnreachable at h
  cases hr : reachable g with
  | ok r =>
    simp only [hr, bind, Outcome.bind, pure] at h
    cases h
    exact ⟨r, rfl, rfl, rfl, rfl, rfl⟩
  | panic => simp [hr, bind, Outcome.bind] at h
  | diverge => simp [hr, bind, Outcome.bind] at h

theorem elimUnreachable_language {g g' : G} (h : elimUnreachable g = .ok g') (w : List String) :
    Language g' w ↔ Language g w := by
  obtain ⟨r, hr, hs, _, hp, _⟩ := elimUnreachable_ok h
  obtain ⟨hstart, hclosed⟩ := reachable_spec hr
  constructor
  · intro hw
    unfold Language at hw ⊢
    rw [hs] at hw
    exact hw.mono (by intro p hp'; rw [hp] at hp'; exact (List.mem_filter.mp hp').1)
  · intro hw
    unfold Language at hw ⊢
    rw [hs]
    -- every sentential form reachable from the start symbol mentions reachable non-terminals only
    have key : ∀ γ, Derives g [Sym.nonterm g.start] γ →
        (∀ n, Sym.nonterm n ∈ γ → n ∈ r) ∧ Derives g' [Sym.nonterm g.start] γ := by
      intro γ d
      induction d with
      | refl =>
        refine ⟨?_, Derives.refl _⟩
        intro n hn
        simp at hn
        exact hn ▸ hstart
      | tail _ s ih =>
        obtain ⟨ihr, ihd⟩ := ih
        cases s with
        | mk u v p hpp =>
          have hhead : p.head ∈ r := ihr p.head (by simp)
          have hp' : p ∈ g'.prods := by
            rw [hp]; exact List.mem_filter.mpr ⟨hpp, by simpa using hhead⟩
          refine ⟨?_, Derives.tail ihd (Step.mk u v p hp')⟩
          intro n hn
          simp only [List.mem_append] at hn
          rcases hn with (hn | hn) | hn
          · exact ihr n (by simp [hn])
          · exact hclosed p hpp hhead n hn
          · exact ihr n (by simp [hn])
    exact (key _ hw).2

/-! ## `removeNonTerminalsWithoutProductions` -/

theorem hasProd_iff {ps : List SProd} {n : String} : hasProd ps n = true ↔ ∃ p ∈ ps, p.head = n := by
  simp [hasProd]

theorem pruneStep_spec {g g' : G} (h : pruneStep g = some g') :
    ∃ n, n ∈ g.nonterms ∧ n ≠ g.start ∧ hasProd g.prods n = false ∧ g'.start = g.start ∧ g'.terms = g.terms ∧
      g'.nonterms = g.nonterms.filter (fun m => m ≠ n) ∧
      g'.prods = g.prods.filter (fun p => !(p.body.contains (.nonterm n))) := by
  unfold pruneStep at h
  split at h
  · cases h
  · rename_i n hn
    cases h
    have h1 := List.find?_some hn
    have h2 := List.mem_of_find?_eq_some hn
    simp at h1
    exact ⟨n, h2, h1.1, by simpa [hasProd] using h1.2, rfl, rfl, rfl, rfl⟩

theorem pruneStep_language {g g' : G} (h : pruneStep g = some g') (w : List String) :
    Language g' w ↔ Language g w := by
  obtain ⟨n, _, _, hnp, hs, _, _, hp⟩ := pruneStep_spec h
  have hsub : ∀ p ∈ g'.prods, p ∈ g.prods := by
    intro p hp'; rw [hp] at hp'; exact (List.mem_filter.mp hp').1
  constructor
  · intro hw
    unfold Language at hw ⊢
    rw [hs] at hw
    exact hw.mono hsub
  · intro hw
    unfold Language at hw ⊢
    rw [hs]
    have key : ∀ k α, DerivesIn g k α (w.map Sym.term) → Derives g' α (w.map Sym.term) := by
      intro k
      induction k with
      | zero => intro α d; cases d; exact Derives.refl _
      | succ k ih =>
        intro α d
        cases d with
        | head s d' =>
          refine Derives.head ?_ (ih _ d')
          cases s with
          | mk u v p hpp =>
            refine Step.mk u v p ?_
            rw [hp]
            refine List.mem_filter.mpr ⟨hpp, ?_⟩
            -- if the body mentioned `n`, `n` would derive a terminal string and so have a production
            cases hc : p.body.contains (Sym.nonterm n) with
            | false => rfl
            | true =>
              exfalso
              have hmem : Sym.nonterm n ∈ p.body := by simpa using hc
              obtain ⟨b₁, b₂, hb⟩ := List.append_of_mem hmem
              have d'' : Derives g ((u ++ b₁) ++ [Sym.nonterm n] ++ (b₂ ++ v)) (w.map Sym.term) := by
                have := d'.toDerives
                rw [hb] at this
                simpa [List.append_assoc] using this
              obtain ⟨w', dw'⟩ := d''.nonterm_productive
              obtain ⟨q, hq, hqh⟩ := dw'.has_prod
              have : hasProd g.prods n = true := hasProd_iff.mpr ⟨q, hq, hqh⟩
              rw [hnp] at this
              cases this
    obtain ⟨k, dk⟩ := hw.toDerivesIn
    exact key k _ dk

theorem pruneN_language (k : Nat) : ∀ (g : G) (w : List String), Language (pruneN k g) w ↔ Language g w := by
  induction k with
  | zero => intro g w; rfl
  | succ k ih =>
    intro g w
    simp only [pruneN]
    split
    · rfl
    · rename_i g' hg'
      rw [ih g' w, pruneStep_language hg' w]

theorem prune_language (g : G) (w : List String) : Language (prune g) w ↔ Language g w :=
  pruneN_language _ g w

theorem pruneN_prods_subset (k : Nat) : ∀ (g : G), ∀ p ∈ (pruneN k g).prods, p ∈ g.prods := by
  induction k with
  | zero => intro g p hp; exact hp
  | succ k ih =>
    intro g p hp
    simp only [pruneN] at hp
    split at hp
    · exact hp
    · rename_i g' hg'
      obtain ⟨n, _, _, _, _, _, _, hpr⟩ := pruneStep_spec hg'
      have := ih g' p hp
      rw [hpr] at this
      exact (List.mem_filter.mp this).1

theorem prune_prods_subset (g : G) : ∀ p ∈ (prune g).prods, p ∈ g.prods := pruneN_prods_subset _ g

theorem pruneN_start (k : Nat) : ∀ (g : G), (pruneN k g).start = g.start := by
  induction k with
  | zero => intro g; rfl
  | succ k ih =>
    intro g
    simp only [pruneN]
    split
    · rfl
    · rename_i g' hg'
      obtain ⟨n, _, _, _, hs, _⟩ := pruneStep_spec hg'
      rw [ih g', hs]

theorem prune_start (g : G) : (prune g).start = g.start := pruneN_start _ g

end AlgoVerif.C08
