import AlgoVerif.Proofs.C19Next
/-!
# C19 — `Retract`

`retract_arith`: the pointer arithmetic of `Retract` (wrap-around below 0, which half `forward` ends up in,
when the new flag `ahead` is set) by cases on where `forward` stands; `Retract_spec`: under the invariant and
`LexOK`, `Retract` moves `forward` back by the size on top of `runeSizes`, clears `err`, and sets `ahead`
exactly when `forward` is now in the older half — so the half it left is not loaded a second time.
-/
set_option maxHeartbeats 400000
namespace AlgoVerif.C19
open AlgoVerif AlgoVerif.Generated

theorem div_two (x n : Nat) (_hn : 0 < n) (hx : x < 2 * n) : x / n = if x < n then 0 else 1 := by
  split
  · exact Nat.div_eq_of_lt ‹_›
  · rw [Nat.div_eq_iff _hn]; omega

theorem mod_two (x n : Nat) (_hn : 0 < n) (hx : x < 2 * n) : x % n = if x < n then x else x - n := by
  split
  · exact Nat.mod_eq_of_lt ‹_›
  · rw [Nat.mod_eq_sub_mod (by omega), Nat.mod_eq_of_lt (by omega)]

theorem idx_lt (n s B q : Nat) (hn : 0 < n) (hs : s = 0 ∨ s = n) (hq : B ≤ q + n) : idx n s B q < 2 * n := by
  simp only [idx]; split <;> (try split) <;> omega

/-- the pointer arithmetic of `Retract` -/
theorem retract_arith (n s B cnt p size : Nat) (hn : 0 < n) (hs : s = 0 ∨ s = n) (hBn : B = 0 ∨ n ≤ B)
    (hcnt : 0 < cnt) (hcl : cnt ≤ n) (hplo : B ≤ p + n) (hphi : p ≤ B + cnt)
    (hsz : 0 < size) (hszn : size ≤ n) (hsp : size ≤ p) (hlo : B ≤ (p - size) + n) (errNone ahead : Bool)
    (he : errNone = decide (p < B + cnt)) (ha : ahead = decide (p < B))
    (F : Nat) (hFdef : F = idx n s B p) (f' : Int)
    (hf' : f' = if (F : Int) - (size : Int) < 0 then (F : Int) - (size : Int) + ((2 * n : Nat) : Int)
                else (F : Int) - (size : Int)) :
    ¬ f' < 0 ∧ f'.toNat = idx n s B (p - size) ∧
      (if (errNone || F % n != 0) && f'.toNat / n != F / n then true else ahead) = decide (p - size < B) := by
  have hF : F < 2 * n := by rw [hFdef]; exact idx_lt n s B p hn hs hplo
  have hF' : idx n s B (p - size) < 2 * n := idx_lt n s B (p - size) hn hs hlo
  have hval : f' = ((idx n s B (p - size) : Nat) : Int) := by
    rw [hf', hFdef]
    simp only [idx]
    rcases hs with hs | hs <;> subst hs <;> (repeat' split) <;> omega
  refine ⟨by rw [hval]; omega, by rw [hval]; simp, ?_⟩
  rw [hval, Int.toNat_natCast, div_two _ n hn hF, div_two _ n hn hF', mod_two _ n hn hF, he, ha, hFdef]
  simp only [idx]
  clear hF hF' hval hf'
  rcases hs with hs | hs <;> subst hs <;> (repeat' split) <;> simp <;> (try omega)
  all_goals (simp only [Bool.and_eq_true, Bool.or_eq_true, decide_eq_true_eq, bne_iff_ne, ne_eq] at *)
  all_goals (first | omega | simp_all)

/-- the byte the buffer holds for an absolute position inside the two halves -/
theorem buff_at {S : List UInt8} {n : Nat} {i : Input} {p B cnt s : Nat} (hinv : Inv S n i p B cnt s)
    (q : Nat) (hlo : B ≤ q + n) (hhi : q < B + cnt) : i.buff[idx n s B q]? = S[q]? := by
  have hcl := hinv.cnt_le
  simp only [idx]
  split
  · have hnB : n ≤ B := by rcases hinv.Bn with h | h <;> omega
    rw [hinv.prev hnB _ (by omega)]; congr 1; omega
  · rw [if_pos (by omega), hinv.cur _ (by omega)]; congr 1; omega

theorem retract_inv {S : List UInt8} {n : Nat} {i : Input} {p B cnt s : Nat} (hinv : Inv S n i p B cnt s)
    (q : Nat) (hq : q < p) (hlo : B ≤ q + n) (j : Input)
    (h1 : j.src = i.src) (h2 : j.buff = i.buff) (h3 : j.forward = idx n s B q) (h4 : j.ahead = decide (q < B))
    (h5 : j.err = none) : Inv S n j q B cnt s :=
  { npos := hinv.npos, size := by rw [h2]; exact hinv.size, s01 := hinv.s01, Bn := hinv.Bn,
    cnt_pos := hinv.cnt_pos, cnt_le := hinv.cnt_le, hiL := hinv.hiL, rest := by rw [h1]; exact hinv.rest,
    noio := by rw [h1]; exact hinv.noio, cur := by rw [h2]; exact hinv.cur, prev := by rw [h2]; exact hinv.prev,
    sent := by rw [h2]; exact hinv.sent, p_lo := hlo,
    p_lo' := by intro h; rcases hinv.Bn with hB | hB <;> omega,
    p_hi := by have := hinv.p_hi; omega, ahead := h4, fw := h3,
    err := by rw [h5, if_pos (by have := hinv.p_hi; omega)],
    atEnd := by have := hinv.p_hi; omega }

theorem Retract_spec {S : List UInt8} {n : Nat} {i : Input} {p B cnt s : Nat} (hinv : Inv S n i p B cnt s)
    {size : Nat} {rs : List Nat} (hrs : i.runeSizes = size :: rs) (hsz : 0 < size) (b : Nat)
    (hl : LexOK n i p B s b) (hb : b + size ≤ p) :
    ∃ j c, i.Retract = .ok j ∧ S[p - size]? = some c ∧ Inv S n j (p - size) B cnt s ∧
      LexOK n j (p - size) B s b ∧
      j.runeSizes = rs ∧ j.offset = i.offset ∧ j.line = i.line ∧ j.column = i.column ∧
      ((c = 10 ∧ ((∃ x lc, i.lastColumns = x :: lc ∧ j.nextColumn = x ∧ j.lastColumns = lc) ∨
                  (i.lastColumns = [] ∧ j.nextColumn = i.nextColumn ∧ j.lastColumns = []))) ∨
       (c ≠ 10 ∧ j.nextColumn = i.nextColumn - 1 ∧ j.lastColumns = i.lastColumns)) := by
  have hn := hinv.npos
  have hlen := hl.len
  have hblo := hl.b_lo
  have hphi := hinv.p_hi
  have hL := hinv.hiL
  have hp'L : p - size < S.length := by omega
  obtain ⟨c, hc, _⟩ := getElem?_of_lt hp'L
  have h2n : 2 * n / 2 = n := by omega
  have hn0 : ¬ (n = 0) := by omega
  obtain ⟨hnn, htn, hah⟩ := retract_arith n s B cnt p size hn hinv.s01 hinv.Bn hinv.cnt_pos hinv.cnt_le
    hinv.p_lo hphi hsz (by omega) (by omega) (by omega) i.err.isNone i.ahead
    (by rw [hinv.err]; split <;> simp [*]) hinv.ahead i.forward hinv.fw _ rfl
  have hread : i.buff[idx n s B (p - size)]? = some c := by
    rw [buff_at hinv _ (by omega) (by omega), hc]
  rw [htn] at hah
  unfold Input.Retract
  rw [hrs]
  simp only [hinv.size, h2n, hn0, if_false, hnn, htn, hah, hread]
  have hlex : ∀ j : Input, j.lexemeBegin = i.lexemeBegin → LexOK n j (p - size) B s b :=
    fun j hj => ⟨by omega, hblo, by omega, by rw [hj]; exact hl.lb⟩
  by_cases hc10 : c = 10
  · simp only [hc10, if_true]
    cases hlc : i.lastColumns with
    | nil =>
      refine ⟨_, 10, rfl, by rw [← hc10]; exact hc, retract_inv hinv _ (by omega) (by omega) _ rfl rfl rfl rfl rfl,
        hlex _ rfl, rfl, rfl, rfl, rfl, Or.inl ⟨rfl, Or.inr ⟨rfl, rfl, rfl⟩⟩⟩
    | cons x lc =>
      refine ⟨_, 10, rfl, by rw [← hc10]; exact hc, retract_inv hinv _ (by omega) (by omega) _ rfl rfl rfl rfl rfl,
        hlex _ rfl, rfl, rfl, rfl, rfl, Or.inl ⟨rfl, Or.inl ⟨x, lc, rfl, rfl, rfl⟩⟩⟩
  · simp only [hc10, if_false]
    exact ⟨_, c, rfl, hc, retract_inv hinv _ (by omega) (by omega) _ rfl rfl rfl rfl rfl,
      hlex _ rfl, rfl, rfl, rfl, rfl, Or.inr ⟨hc10, rfl, rfl⟩⟩

end AlgoVerif.C19
